(* Proofs for C18 (LCD animations): host model Host/LCDAnim.v, device model Device/DLCDAnim.v. *)
From Coq Require Import ZArith List Bool Lia.
From RV Require Import Host.LCDAnim Device.DLCDAnim.
Import ListNotations.
Open Scope Z_scope.

(* ------------------------------------------------------------------------------------------ *)
(* lists, lengths, rows                                                                       *)
(* ------------------------------------------------------------------------------------------ *)

Lemma zlen_nonneg {A} (l : list A) : 0 <= zlen l.
Proof. unfold zlen. lia. Qed.

Lemma zlen_nil {A} : zlen (@nil A) = 0.
Proof. reflexivity. Qed.

Lemma zlen_cons {A} (x : A) l : zlen (x :: l) = zlen l + 1.
Proof. unfold zlen. cbn [length]. lia. Qed.

Lemma zlen_app {A} (a b : list A) : zlen (a ++ b) = zlen a + zlen b.
Proof. unfold zlen. rewrite app_length. lia. Qed.

Lemma zlen_spaces n : zlen (spaces n) = Z.max 0 n.
Proof. unfold zlen, spaces. rewrite repeat_length. lia. Qed.

Lemma zlen_spaces_pos n : 0 <= n -> zlen (spaces n) = n.
Proof. intro H. rewrite zlen_spaces. lia. Qed.

Lemma zlen_map {A B} (f : A -> B) l : zlen (map f l) = zlen l.
Proof. unfold zlen. rewrite map_length. reflexivity. Qed.

Lemma zlen_zrange a n : zlen (zrange a n) = Z.max 0 n.
Proof. unfold zrange. rewrite zlen_map. unfold zlen. rewrite seq_length. lia. Qed.

Lemma zlen_firstn {A} n (l : list A) : zlen (firstn (Z.to_nat n) l) = Z.min (Z.max 0 n) (zlen l).
Proof. unfold zlen. rewrite firstn_length. lia. Qed.

Lemma zlen_skipn {A} n (l : list A) : zlen (skipn (Z.to_nat n) l) = Z.max 0 (zlen l - Z.max 0 n).
Proof. unfold zlen. rewrite skipn_length. lia. Qed.

Lemma zlen_slice t a b : zlen (slice t a b) <= Z.max 0 (b - a).
Proof. unfold slice. rewrite zlen_firstn. lia. Qed.

Lemma zlen_zero_nil {A} (l : list A) : zlen l = 0 -> l = [].
Proof. destruct l; [reflexivity|]. rewrite zlen_cons. pose proof (zlen_nonneg l). lia. Qed.

Lemma zlen_trunc n s : 0 <= n -> zlen (trunc n s) <= n.
Proof.
  intro H. unfold trunc. destruct (zlen s >? n) eqn:E.
  - rewrite zlen_firstn. lia.
  - lia.
Qed.

Lemma set_nth_length {A} n (x : A) l : length (set_nth n x l) = length l.
Proof. revert n; induction l as [|h t IH]; intros [|n]; cbn; auto. Qed.

Lemma zlen_set_nth {A} n (x : A) l : zlen (set_nth n x l) = zlen l.
Proof. unfold zlen. rewrite set_nth_length. reflexivity. Qed.

Lemma set_nth_firstn {A} n (x : A) l : (n < length l)%nat ->
  firstn (S n) (set_nth n x l) = firstn n l ++ [x].
Proof.
  revert l; induction n as [|n IH]; intros [|h t] H; cbn in *; try lia; auto.
  rewrite IH by lia. reflexivity.
Qed.

Lemma set_nth_skipn {A} n k (x : A) l : skipn (S n + k) (set_nth n x l) = skipn (S n + k) l.
Proof.
  revert l; induction n as [|n IH]; intros [|h t]; cbn; auto.
  apply IH.
Qed.

Lemma nth_set_nth_same {A} n (x d : A) l : (n < length l)%nat -> nth n (set_nth n x l) d = x.
Proof. revert l; induction n as [|n IH]; intros [|h t] H; cbn in *; try lia; auto. apply IH; lia. Qed.

Lemma nth_set_nth_other {A} n k (x d : A) l : n <> k -> nth k (set_nth n x l) d = nth k l d.
Proof.
  revert k l; induction n as [|n IH]; intros [|k] [|h t] H; cbn; auto; try congruence.
Qed.

Lemma In_set_nth {A} n (x y : A) l : In y (set_nth n x l) -> y = x \/ In y l.
Proof.
  revert n; induction l as [|h t IH]; intros [|n] H; cbn in *; auto.
  - destruct H as [H|H]; auto.
  - destruct H as [H|H]; auto. apply IH in H. tauto.
Qed.

(* ------------------------------------------------------------------------------------------ *)
(* the device's cursor-addressed writes                                                       *)
(* ------------------------------------------------------------------------------------------ *)

Lemma In_print_at row c0 s r c ch :
  In (DW r c ch) (print_at row c0 s) -> r = row /\ c0 <= c < c0 + zlen s.
Proof.
  revert c0; induction s as [|x s IH]; intros c0 H; cbn in H.
  { contradiction. }
  rewrite zlen_cons. pose proof (zlen_nonneg s).
  destruct H as [H|H].
  - inversion H; subst. lia.
  - apply IH in H. lia.
Qed.

Lemma print_at_no_delay row c0 s ms : ~ In (DDelay ms) (print_at row c0 s).
Proof.
  revert c0; induction s as [|x s IH]; intros c0 H; cbn in H.
  - exact H.
  - destruct H as [H|H]; [discriminate|exact (IH _ H)].
Qed.

Lemma clear_row_no_delay cols row ms : ~ In (DDelay ms) (clear_row cols row).
Proof. unfold clear_row. destruct (cols <=? 0); [intros []|apply print_at_no_delay]. Qed.

Lemma In_clear_row cols row r c ch : In (DW r c ch) (clear_row cols row) -> r = row /\ 0 <= c < cols.
Proof.
  unfold clear_row. destruct (cols <=? 0) eqn:E; [intros []|].
  intro H. apply In_print_at in H. rewrite zlen_spaces in H. lia.
Qed.

(* the shape of everything the start and tick helpers send to the display *)
Definition frame_shape (cols row : Z) (evs : list dev) : Prop :=
  evs = [] \/ exists c s, evs = clear_row cols row ++ print_at row c s /\ 0 <= c /\ c + zlen s <= cols.

Lemma frame_shape_clear cols row : 0 <= cols -> frame_shape cols row (clear_row cols row).
Proof.
  intro H. right. exists 0, []. cbn [print_at]. rewrite app_nil_r.
  change (zlen (@nil Z)) with 0. repeat split; lia.
Qed.

Lemma frame_shape_print cols row c s : 0 <= c -> c + zlen s <= cols ->
  frame_shape cols row (clear_row cols row ++ print_at row c s).
Proof. intros. right. exists c, s. auto. Qed.

Lemma frame_shape_no_delay cols row evs : frame_shape cols row evs -> dno_delay evs.
Proof.
  intros [->|(c & s & -> & _)] ms H; [destruct H|].
  apply in_app_or in H as [H|H]; [eapply clear_row_no_delay|eapply print_at_no_delay]; eauto.
Qed.

Lemma frame_shape_in_row cols row evs : frame_shape cols row evs -> din_row cols row evs.
Proof.
  intros [->|(c & s & -> & Hc & Hs)] r c' ch H; [destruct H|].
  apply in_app_or in H as [H|H].
  - apply In_clear_row in H. exact H.
  - apply In_print_at in H. lia.
Qed.

(* applying writes to one row *)
Lemma apply_row_app r a b row : apply_row r (a ++ b) row = apply_row r b (apply_row r a row).
Proof. unfold apply_row. apply fold_left_app. Qed.

Lemma zlen_set_cell c ch row : zlen (set_cell c ch row) = zlen row.
Proof. unfold set_cell. destruct (_ && _); [apply zlen_set_nth|reflexivity]. Qed.

Lemma zlen_apply_row r evs row : zlen (apply_row r evs row) = zlen row.
Proof.
  revert row; induction evs as [|e evs IH]; intro row; [reflexivity|].
  change (apply_row r (e :: evs) row) with (apply_row r evs
    (match e with DW r' c ch => if r' =? r then set_cell c ch row else row | DDelay _ => row end)).
  rewrite IH. destruct e as [r' c ch|ms]; [|reflexivity].
  destruct (r' =? r); [apply zlen_set_cell|reflexivity].
Qed.

Lemma apply_row_other r evs row : (forall r' c ch, In (DW r' c ch) evs -> r' <> r) -> apply_row r evs row = row.
Proof.
  revert row; induction evs as [|e evs IH]; intros row H; [reflexivity|].
  change (apply_row r (e :: evs) row) with (apply_row r evs
    (match e with DW r' c ch => if r' =? r then set_cell c ch row else row | DDelay _ => row end)).
  rewrite IH by (intros; eapply H; right; eauto).
  destruct e as [r' c ch|ms]; [|reflexivity].
  destruct (r' =? r) eqn:E; [|reflexivity].
  apply Z.eqb_eq in E. exfalso. eapply H; [left; reflexivity|exact E].
Qed.

(* printing [s] at column n of a row that is wide enough replaces exactly those cells *)
Lemma apply_print_at r n s old : (n + length s <= length old)%nat ->
  apply_row r (print_at r (Z.of_nat n) s) old = firstn n old ++ s ++ skipn (n + length s) old.
Proof.
  revert n old; induction s as [|ch s IH]; intros n old H.
  - cbn [print_at length app]. rewrite Nat.add_0_r. unfold apply_row. cbn [fold_left].
    symmetry. apply firstn_skipn.
  - cbn [length] in H. cbn [print_at].
    change (apply_row r (DW r (Z.of_nat n) ch :: print_at r (Z.of_nat n + 1) s) old)
      with (apply_row r (print_at r (Z.of_nat n + 1) s)
              (if r =? r then set_cell (Z.of_nat n) ch old else old)).
    rewrite Z.eqb_refl. unfold set_cell.
    replace ((0 <=? Z.of_nat n) && (Z.of_nat n <? zlen old)) with true
      by (symmetry; apply andb_true_iff; split; [apply Z.leb_le|apply Z.ltb_lt; unfold zlen]; lia).
    rewrite Nat2Z.id. replace (Z.of_nat n + 1) with (Z.of_nat (S n)) by lia.
    rewrite IH by (rewrite set_nth_length; lia).
    rewrite set_nth_firstn by lia. cbn [length].
    replace (n + S (length s))%nat with (S n + length s)%nat by lia.
    rewrite set_nth_skipn. rewrite <- app_assoc. reflexivity.
Qed.

Lemma firstn_repeat {A} (x : A) n k : (n <= k)%nat -> firstn n (repeat x k) = repeat x n.
Proof. revert k; induction n as [|n IH]; intros [|k] H; cbn; try lia; auto. rewrite IH by lia. reflexivity. Qed.

Lemma skipn_repeat {A} (x : A) n k : skipn n (repeat x k) = repeat x (k - n).
Proof. revert k; induction n as [|n IH]; intros [|k]; cbn; auto. Qed.

Lemma apply_clear_row r cols old : 1 <= cols -> zlen old = cols ->
  apply_row r (clear_row cols r) old = spaces cols.
Proof.
  intros Hc Hl. unfold clear_row. replace (cols <=? 0) with false by (symmetry; apply Z.leb_gt; lia).
  change 0 with (Z.of_nat 0). rewrite apply_print_at.
  - cbn [firstn app]. unfold spaces. rewrite repeat_length. cbn [Nat.add].
    rewrite skipn_all2; [apply app_nil_r|]. unfold zlen in Hl. lia.
  - unfold spaces. rewrite repeat_length. unfold zlen in Hl. lia.
Qed.

(* the frame a step draws is determined by the writes alone, whatever the row held before *)
Lemma apply_frame r cols c s old : 1 <= cols -> zlen old = cols -> 0 <= c -> c + zlen s <= cols ->
  apply_row r (clear_row cols r ++ print_at r c s) old = frame cols c s.
Proof.
  intros Hc Hl H0 H1. rewrite apply_row_app, apply_clear_row by assumption.
  replace c with (Z.of_nat (Z.to_nat c)) at 1 by lia.
  rewrite apply_print_at by (unfold spaces; rewrite repeat_length; unfold zlen in *; lia).
  unfold frame, spaces. rewrite firstn_repeat by (unfold zlen in *; lia).
  rewrite skipn_repeat. repeat f_equal. unfold zlen in *. lia.
Qed.

Lemma zlen_frame cols c s : 0 <= c -> c + zlen s <= cols -> zlen (frame cols c s) = cols.
Proof. intros. unfold frame. rewrite !zlen_app, !zlen_spaces. lia. Qed.

(* ------------------------------------------------------------------------------------------ *)
(* device: one step                                                                           *)
(* ------------------------------------------------------------------------------------------ *)

Ltac dsimp :=
  cbn [d_text d_row d_speed d_loop d_last d_offset d_dir d_visible d_active d_show d_cycles
       dset_last dset_offset dset_dir dset_visible dset_active dset_show dset_cycles fst snd] in *.

(* boolean comparisons in hypotheses -> propositions *)
Ltac zb :=
  repeat match goal with
  | H : (_ || _) = false |- _ => apply orb_false_iff in H; destruct H
  | H : (_ || _) = true |- _ => apply orb_true_iff in H; destruct H
  | H : (_ && _) = true |- _ => apply andb_true_iff in H; destruct H
  end;
  repeat match goal with
  | H : context [_ >=? _] |- _ => rewrite Z.geb_leb in H
  | H : context [_ >? _] |- _ => rewrite Z.gtb_ltb in H
  end;
  repeat match goal with
  | H : (_ <=? _) = true |- _ => apply Z.leb_le in H
  | H : (_ <=? _) = false |- _ => apply Z.leb_gt in H
  | H : (_ <? _) = true |- _ => apply Z.ltb_lt in H
  | H : (_ <? _) = false |- _ => apply Z.ltb_ge in H
  | H : (_ =? _) = true |- _ => apply Z.eqb_eq in H
  | H : (_ =? _) = false |- _ => apply Z.eqb_neq in H
  end.

Ltac break_if :=
  match goal with
  | |- context [if ?b then _ else _] =>
      lazymatch b with
      | context [if _ then _ else _] => fail
      | _ => destruct b eqn:?
      end
  end.

(* the step body never touches text, row, speed_ms, loop, last_step *)
Lemma dbody_keeps sty cols st :
  d_text (fst (dbody sty cols st)) = d_text st /\ d_row (fst (dbody sty cols st)) = d_row st /\
  d_speed (fst (dbody sty cols st)) = d_speed st /\ d_loop (fst (dbody sty cols st)) = d_loop st /\
  d_last (fst (dbody sty cols st)) = d_last st.
Proof.
  destruct st as [text row speed lp last off dir vis act show cyc].
  destruct sty; unfold dbody, dbody_scroll, dbody_blink, dbody_typewriter, dbody_bounce; dsimp;
    repeat break_if; dsimp; repeat split; reflexivity.
Qed.

Lemma dbody_shape sty cols st : 1 <= cols -> frame_shape cols (d_row st) (snd (dbody sty cols st)).
Proof.
  intro Hc. destruct st as [text row speed lp last off dir vis act show cyc].
  destruct sty; unfold dbody.
  - (* scroll *)
    unfold dbody_scroll; dsimp.
    set (padded := (if zlen text <? cols then text ++ spaces (cols - zlen text) else text) ++ spaces cols).
    destruct (zlen padded =? 0); dsimp; [left; reflexivity|].
    assert (Hw : forall start, frame_shape cols row
       (clear_row cols row ++ print_at row 0
          (map (fun i => nth (Z.to_nat (if i >=? zlen padded then i - zlen padded else i)) padded 0)
               (zrange start cols)))).
    { intro start. apply frame_shape_print; [lia|]. rewrite zlen_map, zlen_zrange. lia. }
    repeat break_if; dsimp; apply Hw.
  - (* blink *)
    unfold dbody_blink; dsimp. pose proof (zlen_trunc cols text ltac:(lia)).
    repeat break_if; dsimp; try (apply frame_shape_clear; lia); apply frame_shape_print; lia.
  - (* typewriter *)
    unfold dbody_typewriter; dsimp.
    assert (Hv : forall v, frame_shape cols row
       (clear_row cols row ++ print_at row 0 (trunc cols (firstn (Z.to_nat v) text)))).
    { intro v. pose proof (zlen_trunc cols (firstn (Z.to_nat v) text) ltac:(lia)). apply frame_shape_print; lia. }
    repeat break_if; dsimp; try (apply frame_shape_clear; lia); try apply Hv; left; reflexivity.
  - (* bounce *)
    unfold dbody_bounce; dsimp.
    destruct (zlen text <=? 0) eqn:E0; dsimp; [apply frame_shape_clear; lia|].
    destruct (zlen text >=? cols) eqn:E1; dsimp.
    { apply frame_shape_print; [lia|]. rewrite zlen_firstn. lia. }
    destruct (cols - zlen text <=? 0) eqn:E2; dsimp; [left; reflexivity|].
    assert (Hv : forall o a, 0 <= o <= cols - zlen text -> 0 <= a <= cols - o -> frame_shape cols row
       (clear_row cols row ++ print_at row o (trunc a text))).
    { intros o a Ho Ha. pose proof (zlen_trunc a text ltac:(lia)). apply frame_shape_print; lia. }
    repeat break_if; dsimp; zb; apply Hv; lia.
Qed.

Lemma dstart_shape sty cols row text speed lp : 1 <= cols ->
  frame_shape cols row (snd (dstart sty cols row text speed lp)).
Proof.
  intro Hc. pose proof (zlen_trunc cols text ltac:(lia)).
  destruct sty; cbn [dstart snd]; try (apply frame_shape_print; lia).
  destruct (zlen text >? 0).
  - change (1 >? 0) with true. cbv iota.
    pose proof (zlen_trunc cols (firstn (Z.to_nat 1) text) ltac:(lia)). apply frame_shape_print; lia.
  - change (0 >? 0) with false. cbv iota. rewrite app_nil_r. apply frame_shape_clear; lia.
Qed.

(* a tick that is not a step changes nothing and writes nothing *)
Lemma dtick_skip sty cols now st : dgate st now = false -> dtick sty cols now st = (st, []).
Proof. intro H. unfold dtick. rewrite H. reflexivity. Qed.

Lemma dtick_shape sty cols now st : 1 <= cols -> frame_shape cols (d_row st) (snd (dtick sty cols now st)).
Proof.
  intro Hc. unfold dtick. destruct (dgate st now); [|left; reflexivity].
  exact (dbody_shape sty cols (dset_last st now) Hc).
Qed.

Lemma dtick_keeps sty cols now st :
  d_text (fst (dtick sty cols now st)) = d_text st /\ d_row (fst (dtick sty cols now st)) = d_row st /\
  d_speed (fst (dtick sty cols now st)) = d_speed st /\ d_loop (fst (dtick sty cols now st)) = d_loop st.
Proof.
  unfold dtick. destruct (dgate st now); [|cbn; auto].
  destruct (dbody_keeps sty cols (dset_last st now)) as (A & B & C & D & _).
  rewrite A, B, C, D. destruct st; cbn; auto.
Qed.

Lemma dtick_last sty cols now st :
  d_last (fst (dtick sty cols now st)) = if dgate st now then now else d_last st.
Proof.
  unfold dtick. destruct (dgate st now); [|reflexivity].
  destruct (dbody_keeps sty cols (dset_last st now)) as (_ & _ & _ & _ & E). rewrite E. destruct st; reflexivity.
Qed.

(* ------------------------------------------------------------------------------------------ *)
(* device: runs                                                                               *)
(* ------------------------------------------------------------------------------------------ *)

Lemma drun1_cons sty cols st now rest :
  drun1 sty cols st (now :: rest) =
  (fst (drun1 sty cols (fst (dtick sty cols now st)) rest),
   (now, dgate st now, snd (dtick sty cols now st)) :: snd (drun1 sty cols (fst (dtick sty cols now st)) rest)).
Proof.
  cbn [drun1]. destruct (dtick sty cols now st) as [st' ev]. cbn [fst snd].
  destruct (drun1 sty cols st' rest) as [st'' tr]. reflexivity.
Qed.

Lemma drun1_shape sty cols st nows : 1 <= cols ->
  Forall (fun x => frame_shape cols (d_row st) (snd x)) (snd (drun1 sty cols st nows)).
Proof.
  intro Hc. revert st; induction nows as [|now rest IH]; intro st.
  - constructor.
  - rewrite drun1_cons. cbn [snd]. constructor.
    + cbn [snd]. apply dtick_shape; assumption.
    + destruct (dtick_keeps sty cols now st) as (_ & R & _). rewrite <- R. apply IH.
Qed.

Lemma dstart_row sty cols row text speed lp : d_row (fst (dstart sty cols row text speed lp)) = row.
Proof. destruct sty; reflexivity. Qed.
Lemma dstart_fields sty cols row text speed lp :
  let st := fst (dstart sty cols row text speed lp) in
  d_text st = text /\ d_speed st = speed /\ d_loop st = lp /\ d_last st = 0 /\ d_active st = true /\
  d_offset st = 0 /\ d_dir st = 1 /\ d_cycles st = 0.
Proof. destruct sty; cbn; repeat split; reflexivity. Qed.

(* C18_start_nonblocking, device *)
Lemma start_nonblocking_device sty cols row text speed lp nows : 1 <= cols ->
  dno_delay (snd (dstart sty cols row text speed lp)) /\
  Forall (fun x => dno_delay (snd x)) (snd (drun1 sty cols (fst (dstart sty cols row text speed lp)) nows)).
Proof.
  intro Hc. split.
  - eapply frame_shape_no_delay, dstart_shape; assumption.
  - eapply Forall_impl; [|apply drun1_shape; assumption].
    intros x Hx. eapply frame_shape_no_delay; exact Hx.
Qed.

(* rows of the matrix after a batch of writes *)
Lemma get_row_apply_from r0 evs m (k : nat) : (k < length m)%nat ->
  nth k (apply_from r0 evs m) [] = apply_row (r0 + Z.of_nat k) evs (nth k m []).
Proof.
  revert r0 k; induction m as [|row m IH]; intros r0 k H; cbn [length] in H; [lia|].
  destruct k as [|k]; cbn [apply_from nth].
  - f_equal. lia.
  - rewrite IH by lia. f_equal. lia.
Qed.

Lemma apply_from_length r0 evs m : length (apply_from r0 evs m) = length m.
Proof. revert r0; induction m as [|row m IH]; intro r0; cbn; auto. Qed.

Lemma get_row_apply_devs r evs m : 0 <= r < zlen m ->
  get_row r (apply_devs evs m) = apply_row r evs (get_row r m).
Proof.
  intro H. unfold get_row, apply_devs. rewrite get_row_apply_from by (unfold zlen in H; lia).
  f_equal. lia.
Qed.

Lemma get_row_apply_devs_out r evs m : zlen m <= r ->
  get_row r (apply_devs evs m) = get_row r m.
Proof.
  intro H. unfold get_row, apply_devs.
  rewrite !nth_overflow; auto; rewrite ?apply_from_length; unfold zlen in H; lia.
Qed.

Lemma frame_shape_drawn cols rows row evs : 1 <= cols -> 0 <= row < rows ->
  frame_shape cols row evs -> dframe_drawn cols rows row evs.
Proof.
  intros Hc Hr Hs. pose proof (frame_shape_in_row _ _ _ Hs) as Hin.
  destruct Hs as [->|(c & s & -> & H0 & H1)]; [left; reflexivity|].
  right. exists c, s. repeat split; try assumption.
  - destruct H as [Hl Hw]. rewrite get_row_apply_devs by lia.
    apply apply_frame; try assumption. apply Hw. unfold get_row. apply nth_In. unfold zlen in Hl. lia.
  - apply zlen_frame; assumption.
  - intros r' Hr0 Hne. destruct H as [Hl Hw].
    destruct (Z_lt_le_dec r' (zlen m)) as [Hlt|Hge].
    + rewrite get_row_apply_devs by lia. apply apply_row_other.
      intros r0 c0 ch Hi. apply Hin in Hi. lia.
    + apply get_row_apply_devs_out; assumption.
Qed.

(* C18_frame_geometry, device *)
Lemma frame_geometry_device sty cols rows row text speed lp nows : 1 <= cols -> 0 <= row < rows ->
  let ev0 := snd (dstart sty cols row text speed lp) in
  let tr := snd (drun1 sty cols (fst (dstart sty cols row text speed lp)) nows) in
  (din_row cols row ev0 /\ dframe_drawn cols rows row ev0) /\
  Forall (fun x => din_row cols row (snd x) /\ dframe_drawn cols rows row (snd x)) tr.
Proof.
  intros Hc Hr. cbv zeta. split.
  - pose proof (dstart_shape sty cols row text speed lp Hc) as Hs. split.
    + apply frame_shape_in_row; assumption.
    + apply frame_shape_drawn; assumption.
  - eapply Forall_impl; [|apply drun1_shape; assumption]. rewrite dstart_row.
    intros x Hx. split; [apply frame_shape_in_row|apply frame_shape_drawn]; assumption.
Qed.

(* ---- termination: variant and invariant *)
Definition dplen (cols : Z) (text : list Z) : Z := Z.max (zlen text) cols + cols.

Definition dvar (sty : style) (cols : Z) (st : dstate) : Z :=
  if d_active st then
    let n := zlen (d_text st) in
    match sty with
    | Scroll => dplen cols (d_text st) - d_offset st
    | Blink => 1
    | Typewriter => if n <=? 1 then 1 else n - d_visible st
    | Bounce => if (n <=? 0) || (n >=? cols) then 1
                else if d_show st then d_offset st else 2 * (cols - n) - d_offset st
    end
  else 0.

Definition dinv (sty : style) (cols : Z) (st : dstate) : Prop :=
  d_loop st = false /\
  (d_active st = true ->
   let n := zlen (d_text st) in
   match sty with
   | Scroll => 0 <= d_offset st < dplen cols (d_text st)
   | Blink => d_show st = true
   | Typewriter => 1 <= n -> 1 <= d_visible st /\ (2 <= n -> d_visible st < n)
   | Bounce => 0 <= d_cycles st /\
               (0 < n < cols ->
                (d_show st = false /\ d_dir st = 1 /\ 0 <= d_offset st < cols - n) \/
                (d_show st = true /\ d_dir st = -1 /\ 0 < d_offset st <= cols - n))
   end).

Lemma zlen_padded cols text : 0 <= cols ->
  zlen ((if zlen text <? cols then text ++ spaces (cols - zlen text) else text) ++ spaces cols) = dplen cols text.
Proof.
  intro H. unfold dplen. rewrite zlen_app, zlen_spaces. destruct (zlen text <? cols) eqn:E; zb.
  - rewrite zlen_app, zlen_spaces. lia.
  - lia.
Qed.

Lemma dgate_active st now : dgate st now = true -> d_active st = true.
Proof. unfold dgate. intro H. apply andb_true_iff in H. tauto. Qed.

Lemma dvar_nonneg sty cols st : dinv sty cols st -> 1 <= cols ->
  0 <= dvar sty cols st /\ (d_active st = true <-> 1 <= dvar sty cols st).
Proof.
  intros [Hl Hi] Hc. unfold dvar. destruct (d_active st) eqn:Ea; [|split; [lia|split; [discriminate|lia]]].
  specialize (Hi eq_refl). cbv zeta in Hi. pose proof (zlen_nonneg (d_text st)) as Hn.
  assert (G : forall v, 1 <= v -> 0 <= v /\ (true = true <-> 1 <= v)) by (intros; split; [lia|tauto]).
  apply G. destruct sty.
  - unfold dplen in *. lia.
  - lia.
  - destruct (zlen (d_text st) <=? 1) eqn:E; zb; lia.
  - destruct ((zlen (d_text st) <=? 0) || (zlen (d_text st) >=? cols)) eqn:E; [lia|].
    apply orb_false_iff in E as [E1 E2]. zb. destruct Hi as [_ Hi].
    destruct (Hi ltac:(lia)) as [(A & B & D)|(A & B & D)]; rewrite A; lia.
Qed.

Ltac fin :=
  dsimp; split;
  [ split; [reflexivity | try discriminate; intros; repeat split; intros; lia]
  | repeat break_if; zb; lia ].

Lemma dstep_var sty cols now st : 1 <= cols -> dinv sty cols st -> dgate st now = true ->
  dinv sty cols (fst (dtick sty cols now st)) /\
  dvar sty cols (fst (dtick sty cols now st)) = dvar sty cols st - 1.
Proof.
  intros Hc [Hl Hi] Hg. pose proof (dgate_active _ _ Hg) as Ha. specialize (Hi Ha).
  unfold dtick. rewrite Hg. unfold dinv, dvar. rewrite Ha.
  destruct st as [text row speed lp last off dir vis act show cyc]. dsimp. subst lp act. clear Hg.
  pose proof (zlen_nonneg text) as Hn.
  destruct sty; unfold dbody.
  - (* scroll *)
    unfold dbody_scroll; dsimp. rewrite (zlen_padded cols text) by lia.
    assert (Hp : dplen cols text =? 0 = false) by (apply Z.eqb_neq; unfold dplen; lia).
    rewrite Hp. replace (off >=? dplen cols text) with false by (symmetry; rewrite Z.geb_leb; apply Z.leb_gt; lia).
    dsimp. destruct (off + 1 >=? dplen cols text) eqn:E; zb; fin.
  - (* blink *)
    unfold dbody_blink; dsimp. subst show. cbn [negb]. dsimp. cbn [negb]. fin.
  - (* typewriter *)
    unfold dbody_typewriter; dsimp.
    destruct (zlen text <=? 0) eqn:E0; zb; [fin|].
    specialize (Hi ltac:(lia)).
    destruct (vis <? zlen text) eqn:E1; dsimp; zb.
    + replace (vis + 1 >? zlen text) with false by (symmetry; rewrite Z.gtb_ltb; apply Z.ltb_ge; lia).
      dsimp. cbn [negb andb]. destruct (vis + 1 >=? zlen text) eqn:E3; cbn [andb]; zb; fin.
    + cbn [negb]. fin.
  - (* bounce *)
    unfold dbody_bounce; dsimp. destruct Hi as [Hcy Hi].
    destruct (zlen text <=? 0) eqn:E0; zb; [fin|].
    destruct (zlen text >=? cols) eqn:E1; zb; [fin|].
    destruct (cols - zlen text <=? 0) eqn:E2; zb; [lia|].
    destruct (Hi ltac:(lia)) as [(A & B & D)|(A & B & D)]; subst show dir; dsimp;
      repeat (break_if; cbn [negb andb] in *; dsimp); zb; fin.
Qed.

Lemma dinv_start sty cols row text speed : 1 <= cols ->
  dinv sty cols (fst (dstart sty cols row text speed false)) /\
  dvar sty cols (fst (dstart sty cols row text speed false)) = dsteps_total sty cols text.
Proof.
  intro Hc. pose proof (zlen_nonneg text) as Hn. unfold dinv, dvar, dsteps_total, dplen.
  destruct sty; cbn [dstart fst]; unfold dinit; dsimp.
  - split; [split; [reflexivity|intros _; lia]|lia].
  - split; [split; [reflexivity|reflexivity]|reflexivity].
  - split; [split; [reflexivity|]|].
    + intros _ H1. replace (zlen text >? 0) with true by (symmetry; rewrite Z.gtb_ltb; apply Z.ltb_lt; lia). lia.
    + destruct (zlen text <=? 1) eqn:E; [reflexivity|]. zb.
      replace (zlen text >? 0) with true by (symmetry; rewrite Z.gtb_ltb; apply Z.ltb_lt; lia). lia.
  - split; [split; [reflexivity|]|].
    + intros _. split; [lia|]. intros H. left. repeat split; lia.
    + destruct ((zlen text <=? 0) || (zlen text >=? cols)); lia.
Qed.

Lemma step_count_cons {E} (now : Z) (b : bool) (ev : E) tr :
  step_count ((now, b, ev) :: tr) = (if b then 1 else 0) + step_count tr.
Proof.
  unfold step_count, step_times. cbn [filter fst snd]. destruct b; cbn [map]; rewrite ?zlen_cons; lia.
Qed.

Lemma step_times_cons {E} (now : Z) (b : bool) (ev : E) tr :
  step_times ((now, b, ev) :: tr) = if b then now :: step_times tr else step_times tr.
Proof. unfold step_times. cbn [filter fst snd]. destruct b; reflexivity. Qed.

Lemma drun1_var sty cols st nows : 1 <= cols -> dinv sty cols st ->
  dinv sty cols (fst (drun1 sty cols st nows)) /\
  step_count (snd (drun1 sty cols st nows)) + dvar sty cols (fst (drun1 sty cols st nows)) = dvar sty cols st.
Proof.
  intro Hc. revert st; induction nows as [|now rest IH]; intros st Hi.
  - cbn. split; [assumption|]. unfold step_count, step_times. cbn. lia.
  - rewrite drun1_cons. cbn [fst snd]. rewrite step_count_cons.
    destruct (dgate st now) eqn:Hg.
    + destruct (dstep_var sty cols now st Hc Hi Hg) as [Hi' Hv].
      destruct (IH _ Hi') as [A B]. split; [assumption|]. lia.
    + rewrite (dtick_skip _ _ _ _ Hg). cbn [fst]. destruct (IH _ Hi) as [A B]. split; [assumption|]. lia.
Qed.

(* C18_terminates, device *)
Lemma terminates_device sty cols row text speed nows : 1 <= cols ->
  let r := drun1 sty cols (fst (dstart sty cols row text speed false)) nows in
  step_count (snd r) <= dsteps_total sty cols text /\
  (d_active (fst r) = true <-> step_count (snd r) < dsteps_total sty cols text) /\
  dsteps_total sty cols text <= zlen text + 2 * cols + 2.
Proof.
  intros Hc r. destruct (dinv_start sty cols row text speed Hc) as [Hi Hv].
  destruct (drun1_var sty cols _ nows Hc Hi) as [Hi' Hs]. fold r in Hi', Hs. rewrite Hv in Hs.
  destruct (dvar_nonneg sty cols (fst r) Hi' Hc) as [H0 H1].
  split; [lia|]. split; [rewrite H1; lia|].
  pose proof (zlen_nonneg text). unfold dsteps_total. destruct sty; repeat break_if; zb; lia.
Qed.

(* C18_loops_forever, device *)
Lemma dbody_loop_active sty cols st : d_loop st = true -> d_active st = true ->
  d_active (fst (dbody sty cols st)) = true.
Proof.
  destruct st as [text row speed lp last off dir vis act show cyc]. dsimp. intros -> ->.
  destruct sty; unfold dbody, dbody_scroll, dbody_blink, dbody_typewriter, dbody_bounce; dsimp;
    repeat (break_if; cbn [negb andb] in *; dsimp); try reflexivity; try discriminate;
    rewrite andb_false_r in *; discriminate.
Qed.

Lemma dtick_loop_active sty cols now st : d_loop st = true -> d_active st = true ->
  d_active (fst (dtick sty cols now st)) = true.
Proof.
  intros Hl Ha. unfold dtick. destruct (dgate st now); [|exact Ha].
  apply dbody_loop_active; destruct st; assumption.
Qed.

Lemma drun1_loop_active sty cols st nows : d_loop st = true -> d_active st = true ->
  d_active (fst (drun1 sty cols st nows)) = true.
Proof.
  revert st; induction nows as [|now rest IH]; intros st Hl Ha; [exact Ha|].
  rewrite drun1_cons. cbn [fst]. apply IH.
  - destruct (dtick_keeps sty cols now st) as (_ & _ & _ & L). rewrite L. exact Hl.
  - apply dtick_loop_active; assumption.
Qed.

Lemma loops_forever_device sty cols row text speed nows :
  d_active (fst (drun1 sty cols (fst (dstart sty cols row text speed true)) nows)) = true.
Proof.
  destruct (dstart_fields sty cols row text speed true) as (_ & _ & L & _ & A & _).
  apply drun1_loop_active; assumption.
Qed.

(* ---- rate limit *)
Fixpoint spaced (speed prev : Z) (l : list Z) : Prop :=
  match l with
  | [] => True
  | t :: r => (0 < prev -> speed <= t - prev) /\ prev <= t /\ spaced speed t r
  end.

Lemma spaced_later speed prev l : 0 <= speed -> spaced speed prev l ->
  forall t, In t l -> prev <= t /\ (0 < prev -> speed <= t - prev).
Proof.
  intro Hs. revert prev; induction l as [|t0 r IH]; intros prev H t Hin; [destruct Hin|].
  cbn in H. destruct H as (A & B & C). destruct Hin as [->|Hin]; [tauto|].
  destruct (IH _ C _ Hin) as [D E]. split; [lia|]. intro Hp. specialize (E ltac:(lia)). lia.
Qed.

Lemma spaced_rate_limited speed prev l : 0 <= speed -> spaced speed prev l -> rate_limited speed l.
Proof.
  intros Hs H l1 t1 l2 t2 E Hin Hp. subst l. revert prev H.
  induction l1 as [|x l1 IH]; intros prev H; cbn in H.
  - destruct H as (_ & _ & C). destruct (spaced_later _ _ _ Hs C _ Hin) as [_ G]. auto.
  - destruct H as (_ & _ & C). eapply IH; exact C.
Qed.

Lemma nondecr_weaken a b l : a <= b -> nondecr b l -> nondecr a l.
Proof. destruct l; cbn; [auto|]. intros ? [? ?]. split; [lia|assumption]. Qed.

Lemma dgate_spacing st now : dgate st now = true -> d_last st <= now ->
  0 < d_last st -> d_speed st <= now - d_last st.
Proof.
  unfold dgate. intros H Hle Hp. apply andb_true_iff in H as [_ H]. apply negb_true_iff in H.
  destruct (0 <? d_speed st) eqn:E1; zb; [|lia].
  replace (0 <? d_last st) with true in H by (symmetry; apply Z.ltb_lt; lia).
  cbn [andb] in H. zb. lia.
Qed.

Lemma drun1_spaced sty cols st nows : nondecr (d_last st) nows ->
  spaced (d_speed st) (d_last st) (step_times (snd (drun1 sty cols st nows))).
Proof.
  revert st; induction nows as [|now rest IH]; intros st H; [exact I|].
  cbn [nondecr] in H. destruct H as [Hle Hr].
  rewrite drun1_cons. cbn [snd]. rewrite step_times_cons.
  destruct (dtick_keeps sty cols now st) as (_ & _ & S & _).
  pose proof (dtick_last sty cols now st) as L.
  destruct (dgate st now) eqn:Hg.
  - cbn [spaced]. split; [intro; apply dgate_spacing; assumption|]. split; [assumption|].
    pose proof (IH (fst (dtick sty cols now st))) as G. rewrite S, L in G. apply G. exact Hr.
  - pose proof (IH (fst (dtick sty cols now st))) as G. rewrite S, L in G. apply G.
    eapply nondecr_weaken; eassumption.
Qed.

(* C18_rate_limit, device *)
Lemma rate_limit_device sty cols row text speed lp nows : 0 <= speed -> tick_times_ok nows ->
  rate_limited speed (step_times (snd (drun1 sty cols (fst (dstart sty cols row text speed lp)) nows))).
Proof.
  intros Hs Ht. destruct (dstart_fields sty cols row text speed lp) as (_ & S & _ & L & _).
  apply (spaced_rate_limited speed 0); [exact Hs|].
  pose proof (drun1_spaced sty cols (fst (dstart sty cols row text speed lp)) nows) as G.
  rewrite S, L in G. apply G. eapply nondecr_weaken; [|exact Ht]. lia.
Qed.

(* every animation of a display is ticked exactly once per pass, in registration order *)
Lemma dtick_all_once cols now anims :
  dtick_all cols now anims =
  (map (fun a => (fst a, fst (dtick (fst a) cols now (snd a)))) anims,
   flat_map (fun a => snd (dtick (fst a) cols now (snd a))) anims).
Proof.
  induction anims as [|[sty st] rest IH]; [reflexivity|].
  cbn [dtick_all map flat_map fst snd]. destruct (dtick sty cols now st) as [st' ev].
  rewrite IH. reflexivity.
Qed.

(* ------------------------------------------------------------------------------------------ *)
(* tick injection                                                                             *)
(* ------------------------------------------------------------------------------------------ *)

Lemma count_name_cons name s sites :
  count_name name (s :: sites) = (if fst s =? name then 1 else 0) + count_name name sites.
Proof. unfold count_name. cbn [filter]. destruct (fst s =? name); rewrite ?zlen_cons; lia. Qed.

Lemma count_name_nonneg name sites : 0 <= count_name name sites.
Proof. apply zlen_nonneg. Qed.

Lemma count_name_app name a b : count_name name (a ++ b) = count_name name a + count_name name b.
Proof. unfold count_name. rewrite filter_app, zlen_app. reflexivity. Qed.

Lemma reg_In name k sites n k' sty :
  In (n, k', sty) (registered name k sites) -> n = name /\ k <= k' < k + count_name name sites.
Proof.
  revert k; induction sites as [|[n0 s0] rest IH]; intros k H; cbn [registered] in H; [destruct H|].
  rewrite count_name_cons. cbn [fst]. pose proof (count_name_nonneg name rest).
  destruct (n0 =? name) eqn:E.
  - destruct H as [H|H]; [inversion H; subst; lia|]. apply IH in H. lia.
  - apply IH in H. lia.
Qed.

Lemma reg_NoDup name k sites : NoDup (registered name k sites).
Proof.
  revert k; induction sites as [|[n0 s0] rest IH]; intro k; cbn [registered]; [constructor|].
  destruct (n0 =? name); [|apply IH]. constructor; [|apply IH].
  intro H. apply reg_In in H. lia.
Qed.

Lemma reg_site name k pre sty post :
  In (name, k + count_name name pre, sty) (registered name k (pre ++ (name, sty) :: post)).
Proof.
  revert k; induction pre as [|[n0 s0] pre IH]; intro k.
  - cbn [app registered]. rewrite Z.eqb_refl. left. unfold count_name. cbn. f_equal. f_equal. lia.
  - cbn [app registered]. rewrite count_name_cons. cbn [fst]. destruct (n0 =? name).
    + right. replace (k + (1 + count_name name pre)) with (k + 1 + count_name name pre) by lia. apply IH.
    + replace (k + (0 + count_name name pre)) with (k + count_name name pre) by lia. apply IH.
Qed.

Fixpoint ssorted (l : list Z) : Prop :=
  match l with [] => True | x :: r => (forall y, In y r -> x < y) /\ ssorted r end.

Lemma In_insert_sorted x y l : In x (insert_sorted y l) <-> x = y \/ In x l.
Proof.
  induction l as [|z r IH]; cbn [insert_sorted].
  - cbn. intuition.
  - destruct (y <? z) eqn:E1; [cbn; intuition|].
    destruct (y =? z) eqn:E2.
    + apply Z.eqb_eq in E2. subst. cbn. intuition.
    + cbn [In]. rewrite IH. intuition.
Qed.

Lemma insert_ssorted y l : ssorted l -> ssorted (insert_sorted y l).
Proof.
  induction l as [|z r IH]; intro H; cbn [insert_sorted].
  - cbn. split; [intros ? []|exact I].
  - destruct H as [H1 H2]. destruct (y <? z) eqn:E1; zb.
    + cbn [ssorted]. split; [|split; assumption].
      intros w [->|Hw]; [lia|]. specialize (H1 _ Hw). lia.
    + destruct (y =? z) eqn:E2; zb; [split; assumption|].
      cbn [ssorted]. split; [|apply IH; assumption].
      intros w Hw. apply In_insert_sorted in Hw as [->|Hw]; [lia|auto].
Qed.

Lemma sorted_set_ssorted l : ssorted (sorted_set l).
Proof. induction l as [|x l IH]; [exact I|]. cbn [sorted_set fold_right]. apply insert_ssorted. exact IH. Qed.

Lemma In_sorted_set x l : In x (sorted_set l) <-> In x l.
Proof.
  induction l as [|y l IH]; [reflexivity|]. cbn [sorted_set fold_right].
  rewrite In_insert_sorted. fold (sorted_set l). rewrite IH. cbn. intuition.
Qed.

Lemma ssorted_NoDup l : ssorted l -> NoDup l.
Proof.
  induction l as [|x r IH]; intro H; [constructor|]. destruct H as [H1 H2].
  constructor; [|auto]. intro Hin. specialize (H1 _ Hin). lia.
Qed.

Lemma NoDup_app_intro {A} (a b : list A) :
  NoDup a -> NoDup b -> (forall x, In x a -> ~ In x b) -> NoDup (a ++ b).
Proof.
  induction a as [|x a IH]; intros Ha Hb Hd; [exact Hb|].
  inversion Ha; subst. cbn [app]. constructor.
  - intro H. apply in_app_or in H as [H|H]; [contradiction|]. eapply Hd; [left; reflexivity|exact H].
  - apply IH; auto. intros y Hy. apply Hd. right. exact Hy.
Qed.

Lemma NoDup_flat_map_keyed {A B} (f : A -> list B) (key : B -> A) l :
  NoDup l -> (forall a, NoDup (f a)) -> (forall a b, In b (f a) -> key b = a) -> NoDup (flat_map f l).
Proof.
  intros Hl Hf Hk. induction l as [|a l IH]; [constructor|].
  inversion Hl; subst. cbn [flat_map]. apply NoDup_app_intro; auto.
  intros x Hx Hy. apply in_flat_map in Hy as (a' & Ha' & Hx').
  apply Hk in Hx. apply Hk in Hx'. congruence.
Qed.

Lemma loop_ticks_NoDup setup loop : NoDup (loop_ticks setup loop).
Proof.
  unfold loop_ticks. apply (NoDup_flat_map_keyed _ (fun v => fst (fst v))).
  - apply ssorted_NoDup, sorted_set_ssorted.
  - intro a. apply reg_NoDup.
  - intros a [[n k] sty] H. apply reg_In in H. cbn. tauto.
Qed.

Lemma sites_ticked (sites pre : list site) n sty post : sites = pre ++ (n, sty) :: post ->
  In (n, count_name n pre, sty) (flat_map (fun name => registered name 0 sites) (sorted_set (map fst sites))).
Proof.
  intros ->. apply in_flat_map. exists n. split.
  - apply In_sorted_set. rewrite map_app. apply in_or_app. right. left. reflexivity.
  - exact (reg_site n 0 pre sty post).
Qed.

(* every call site - before the main loop, inside it, or in a function body - gets exactly one tick
   call per pass: the k-th site of display n is ticked through its own variable with its own style *)
Lemma site_ticked setup loop pre n sty post : setup ++ loop = pre ++ (n, sty) :: post ->
  In (n, count_name n pre, sty) (loop_ticks setup loop) /\ NoDup (loop_ticks setup loop).
Proof.
  intro E. split; [|apply loop_ticks_NoDup].
  exact (sites_ticked (setup ++ loop) pre n sty post E).
Qed.

Lemma setup_site_ticked setup loop pre n sty post : setup = pre ++ (n, sty) :: post ->
  In (n, count_name n pre, sty) (loop_ticks setup loop) /\ NoDup (loop_ticks setup loop).
Proof.
  intro E. apply (site_ticked setup loop pre n sty (post ++ loop)). subst setup.
  rewrite <- app_assoc. reflexivity.
Qed.

(* a call site inside the main loop is declared and ticked (its index continues the setup sites') *)
Lemma loop_site_ticked setup loop pre n sty post : loop = pre ++ (n, sty) :: post ->
  In (n, count_name n setup + count_name n pre, sty) (all_vars setup loop) /\
  In (n, count_name n setup + count_name n pre, sty) (loop_ticks setup loop) /\
  NoDup (loop_ticks setup loop).
Proof.
  intro E. rewrite <- count_name_app.
  assert (H : In (n, count_name n (setup ++ pre), sty) (loop_ticks setup loop) /\ NoDup (loop_ticks setup loop)).
  { apply (site_ticked setup loop (setup ++ pre) n sty post). subst loop. rewrite app_assoc. reflexivity. }
  split; [exact (proj1 H)|exact H].
Qed.

Lemma loop_ticks_all_vars setup loop : loop_ticks setup loop = all_vars setup loop.
Proof. reflexivity. Qed.

(* no spurious tick: every tick call is the tick of one particular call site (the k-th of its display) *)
Lemma reg_In_site name sites : forall k n k' sty,
  In (n, k', sty) (registered name k sites) ->
  n = name /\ exists pre post, sites = pre ++ (name, sty) :: post /\ k' = k + count_name name pre.
Proof.
  induction sites as [|[n0 s0] rest IH]; intros k n k' sty H; cbn [registered] in H; [destruct H|].
  destruct (n0 =? name) eqn:E.
  - apply Z.eqb_eq in E. subst n0. destruct H as [H|H].
    + inversion H; subst. split; [reflexivity|]. exists [], rest. split; [reflexivity|]. unfold count_name. cbn. lia.
    + apply IH in H as (-> & pre & post & -> & ->). split; [reflexivity|].
      exists ((name, s0) :: pre), post. split; [reflexivity|]. rewrite count_name_cons. cbn [fst]. rewrite Z.eqb_refl. lia.
  - apply IH in H as (-> & pre & post & -> & ->). split; [reflexivity|].
    exists ((n0, s0) :: pre), post. split; [reflexivity|]. rewrite count_name_cons. cbn [fst]. rewrite E. lia.
Qed.

Lemma loop_tick_has_site setup loop n k sty :
  In (n, k, sty) (loop_ticks setup loop) ->
  exists pre post, setup ++ loop = pre ++ (n, sty) :: post /\ k = count_name n pre.
Proof.
  unfold loop_ticks. intro H. apply in_flat_map in H as (name & _ & H).
  apply reg_In_site in H as (-> & pre & post & E & ->). exists pre, post. split; [exact E|lia].
Qed.

(* ------------------------------------------------------------------------------------------ *)
(* host: rows and LCD.line                                                                    *)
(* ------------------------------------------------------------------------------------------ *)

Ltac hsimp :=
  cbn [h_style h_row h_text h_speed h_loop h_last h_offset h_active h_dir h_visible h_show h_cycles
       hset_last hset_offset hset_active hset_dir hset_visible hset_show hset_cycles fst snd] in *.

Lemma zlen_put col cols content line : zlen (put col cols content line) = zlen line.
Proof.
  revert col line; induction content as [|ch rest IH]; intros col line; cbn [put]; [reflexivity|].
  rewrite IH. destruct (_ && _); [apply zlen_set_nth|reflexivity].
Qed.

Lemma zlen_bput pos cols text line : zlen (bput pos cols text line) = zlen line.
Proof.
  revert pos line; induction text as [|ch rest IH]; intros pos line; cbn [bput]; [reflexivity|].
  destruct (pos >=? cols); [reflexivity|]. rewrite IH. apply zlen_set_nth.
Qed.

Lemma zlen_set_row r s buf : zlen (set_row r s buf) = zlen buf.
Proof. apply zlen_set_nth. Qed.

Lemma buf_wf_set_row cols rows r s buf : buf_wf cols rows buf -> zlen s = cols -> buf_wf cols rows (set_row r s buf).
Proof.
  intros [Hl Hw] Hs. split; [rewrite zlen_set_row; exact Hl|].
  intros row Hin. apply In_set_nth in Hin as [->|Hin]; auto.
Qed.

Lemma get_set_row r s buf : 0 <= r < zlen buf -> get_row r (set_row r s buf) = s.
Proof. intro H. unfold get_row, set_row. apply nth_set_nth_same. unfold zlen in H. lia. Qed.

Lemma set_nth_twice {A} n (x y : A) l : set_nth n y (set_nth n x l) = set_nth n y l.
Proof. revert n; induction l as [|h t IH]; intros [|n]; cbn; auto. rewrite IH. reflexivity. Qed.

Lemma get_set_row_other r r' s buf : 0 <= r -> 0 <= r' -> r <> r' -> get_row r' (set_row r s buf) = get_row r' buf.
Proof. intros. unfold get_row, set_row. apply nth_set_nth_other. lia. Qed.

Lemma validate_row_true rows row : validate_row rows row = true <-> 0 <= row < rows.
Proof. unfold validate_row. rewrite andb_true_iff, Z.leb_le, Z.ltb_lt. tauto. Qed.

(* the row LCD.line leaves behind *)
Definition hplaced (cols : Z) (text : list Z) : list Z :=
  let content := if zlen text >? cols then slice text 0 cols else text in
  put (Z.max 0 (Z.min (cols - zlen content) 0)) cols content (spaces cols).

Lemma zlen_hplaced cols text : 0 <= cols -> zlen (hplaced cols text) = cols.
Proof. intro H. unfold hplaced. rewrite zlen_put, zlen_spaces. lia. Qed.

Lemma hline_eq cols rows buf row text : 1 <= cols -> zlen buf = rows -> 0 <= row < rows ->
  hline cols rows buf row text =
  Some (set_row row (hplaced cols text) buf, [HRow row (spaces cols); HRow row (hplaced cols text)]).
Proof.
  intros Hc Hl Hr. unfold hline. replace (validate_row rows row) with true by (symmetry; apply validate_row_true; exact Hr).
  replace (Z.max 0 (cols - Z.max 0 0)) with cols by lia.
  replace (cols <=? 0) with false by (symmetry; apply Z.leb_gt; lia).
  rewrite get_set_row by lia. unfold set_row. rewrite set_nth_twice. reflexivity.
Qed.

Lemma hline_none cols rows buf row text : ~ (0 <= row < rows) -> hline cols rows buf row text = None.
Proof.
  intro H. unfold hline. destruct (validate_row rows row) eqn:E; [|reflexivity].
  apply validate_row_true in E. contradiction.
Qed.

(* ------------------------------------------------------------------------------------------ *)
(* host: the state part of a step, independent of the buffer                                  *)
(* ------------------------------------------------------------------------------------------ *)

Definition hnext (cols : Z) (st : hstate) : hstate :=
  match h_style st with
  | Scroll =>
      let padded := h_text st ++ spaces cols in
      match padded with
      | [] => st
      | _ =>
        let st := hset_offset st (h_offset st + 1) in
        if h_offset st >=? zlen padded then
          (if h_loop st then hset_offset st 0 else hset_active st false)
        else st
      end
  | Blink =>
      let st := hset_show st (negb (h_show st)) in
      if h_show st then st
      else
        let st := hset_cycles st (h_cycles st + 1) in
        if negb (h_loop st) then hset_active st false else st
  | Typewriter =>
      let length := zlen (h_text st) in
      if length =? 0 then hset_active st (h_loop st)
      else if h_visible st <? length then
        let st := hset_visible st (h_visible st + 1) in
        if (h_visible st >=? length) && negb (h_loop st) then hset_active st false else st
      else if h_loop st then hset_visible st 0
      else hset_active st false
  | Bounce =>
      let text := h_text st in
      match text with
      | [] => hset_active st (h_loop st)
      | _ =>
        if zlen text >=? cols then hset_active st (h_loop st)
        else
          let max_offset := Z.max 0 (cols - zlen text) in
          if max_offset =? 0 then hset_active st (h_loop st) else
          let st := hset_offset st (h_offset st + h_dir st) in
          if h_offset st >=? max_offset then hset_show (hset_dir (hset_offset st max_offset) (-1)) true
          else if h_offset st <=? 0 then
            let st := hset_dir (hset_offset st 0) 1 in
            if h_show st then
              let st := hset_show (hset_cycles st (h_cycles st + 1)) false in
              if negb (h_loop st) && (h_cycles st >=? 1) then hset_active st false else st
            else st
          else st
      end
  end.

Ltac break_match_hyp :=
  match goal with
  | H : context [match ?x with _ => _ end] |- _ =>
      lazymatch x with
      | context [match _ with _ => _ end] => fail
      | _ => destruct x eqn:?
      end
  end.

Lemma hbody_next cols rows st buf st' buf' ev :
  hbody cols rows st buf = Some (st', buf', ev) -> st' = hnext cols st.
Proof.
  unfold hbody, hnext. destruct st as [sty row text speed lp last off act dir vis show cyc]. hsimp.
  destruct sty; intro H.
  - destruct (text ++ spaces cols) eqn:Ep; [inversion H; reflexivity|].
    destruct (hline cols rows buf row _) as [[b e]|]; [|discriminate].
    repeat break_match_hyp; inversion H; reflexivity.
  - repeat break_match_hyp; try discriminate; inversion H; reflexivity.
  - repeat break_match_hyp; try discriminate; inversion H; reflexivity.
  - destruct text as [|t0 text'] eqn:Et.
    + repeat break_match_hyp; try discriminate; inversion H; reflexivity.
    + rewrite <- Et in *. clear Et.
      repeat break_match_hyp; try discriminate; inversion H; reflexivity.
Qed.

Definition hres_ok (cols rows row : Z) (buf buf' : buffer) (ev : list hev) : Prop :=
  buf_wf cols rows buf' /\ hin_row cols row ev /\ hno_delay ev /\ hframe_drawn cols row buf ev buf'.

Lemma hres_nothing cols rows row buf : buf_wf cols rows buf -> hres_ok cols rows row buf buf [].
Proof.
  intro H. split; [exact H|]. split; [intros r s []|]. split; [intros ms []|].
  left. split; reflexivity.
Qed.

Lemma hres_line cols rows row buf text : 1 <= cols -> buf_wf cols rows buf ->
  hres_ok cols rows row buf (set_row row (hplaced cols text) buf)
          [HRow row (spaces cols); HRow row (hplaced cols text)].
Proof.
  intros Hc Hw. pose proof (zlen_hplaced cols text ltac:(lia)) as Hp.
  split; [apply buf_wf_set_row; assumption|]. split; [|split].
  - intros r s [H|[H|[]]]; inversion H; subst; split; auto. apply zlen_spaces_pos; lia.
  - intros ms [H|[H|[]]]; discriminate.
  - right. exists (hplaced cols text), [HRow row (spaces cols)]. repeat split; auto.
Qed.

Lemma hres_assign cols rows row buf fr : buf_wf cols rows buf -> zlen fr = cols ->
  hres_ok cols rows row buf (set_row row fr buf) [HRow row fr].
Proof.
  intros Hw Hf. split; [apply buf_wf_set_row; assumption|]. split; [|split].
  - intros r s [H|[]]; inversion H; subst; auto.
  - intros ms [H|[]]; discriminate.
  - right. exists fr, []. repeat split; auto.
Qed.

Lemma hbody_ok cols rows st buf : 1 <= cols -> buf_wf cols rows buf -> 0 <= h_row st < rows ->
  exists buf' ev, hbody cols rows st buf = Some (hnext cols st, buf', ev) /\
                  hres_ok cols rows (h_row st) buf buf' ev.
Proof.
  intros Hc Hw Hr.
  assert (G : exists st' buf' ev, hbody cols rows st buf = Some (st', buf', ev) /\
                                  hres_ok cols rows (h_row st) buf buf' ev).
  { pose proof (hres_nothing cols rows (h_row st) buf Hw) as N.
    pose proof (fun text => hres_line cols rows (h_row st) buf text Hc Hw) as Ln.
    destruct Hw as [Hl Hw0].
    unfold hbody. destruct st as [sty row text speed lp last off act dir vis show cyc]. hsimp.
    destruct sty.
    - destruct (text ++ spaces cols) eqn:Ep; [do 3 eexists; split; [reflexivity|exact N]|].
      rewrite hline_eq by assumption. hsimp.
      repeat break_if; do 3 eexists; (split; [reflexivity|apply Ln]).
    - repeat break_if; rewrite hline_eq by assumption; hsimp;
        repeat break_if; do 3 eexists; (split; [reflexivity|apply Ln]).
    - repeat (break_if; hsimp); rewrite ?hline_eq by assumption; hsimp;
        repeat (break_if; hsimp); do 3 eexists; (split; [reflexivity|try apply Ln; try exact N]).
    - destruct text as [|t0 text'] eqn:Et.
      + rewrite hline_eq by assumption. do 3 eexists; (split; [reflexivity|apply Ln]).
      + rewrite <- Et in *. clear Et.
        assert (V : validate_row rows row = true) by (apply validate_row_true; exact Hr).
        assert (B : forall o, hres_ok cols rows row buf
                      (set_row row (bput o cols text (spaces cols)) buf)
                      [HRow row (bput o cols text (spaces cols))]).
        { intro o. apply hres_assign; [split; assumption|]. rewrite zlen_bput. apply zlen_spaces_pos. lia. }
        repeat (break_if; hsimp); rewrite ?hline_eq by assumption; hsimp; try (exfalso; congruence);
          do 3 eexists; (split; [reflexivity|try apply Ln; try exact N; try apply B]). }
  destruct G as (st' & buf' & ev & E & R). exists buf', ev. split; [|exact R].
  rewrite E. f_equal. f_equal. f_equal. eapply hbody_next. exact E.
Qed.

(* ------------------------------------------------------------------------------------------ *)
(* host: one tick of one animation                                                            *)
(* ------------------------------------------------------------------------------------------ *)

Definition hstep (cols now : Z) (st : hstate) : hstate :=
  if hgate st now then hnext cols (hset_last st now) else st.

Lemma htick1_state cols rows now st buf st' buf' ev :
  htick1 cols rows now st buf = Some (st', buf', ev) -> st' = hstep cols now st.
Proof.
  unfold htick1, hstep. destruct (hgate st now); intro H.
  - eapply hbody_next; exact H.
  - inversion H; reflexivity.
Qed.

Lemma htick1_ok cols rows now st buf : 1 <= cols -> buf_wf cols rows buf -> 0 <= h_row st < rows ->
  exists buf' ev, htick1 cols rows now st buf = Some (hstep cols now st, buf', ev) /\
                  hres_ok cols rows (h_row st) buf buf' ev /\
                  (hgate st now = false -> ev = [] /\ buf' = buf).
Proof.
  intros Hc Hw Hr. unfold htick1, hstep. destruct (hgate st now).
  - destruct (hbody_ok cols rows (hset_last st now) buf Hc Hw) as (b & e & E & R).
    { destruct st; exact Hr. }
    exists b, e. split; [exact E|]. split; [destruct st; exact R|discriminate].
  - exists buf, []. split; [reflexivity|]. split; [apply hres_nothing; exact Hw|auto].
Qed.

Lemma hnext_keeps cols st :
  h_style (hnext cols st) = h_style st /\ h_row (hnext cols st) = h_row st /\
  h_text (hnext cols st) = h_text st /\ h_speed (hnext cols st) = h_speed st /\
  h_loop (hnext cols st) = h_loop st /\ h_last (hnext cols st) = h_last st.
Proof.
  unfold hnext. destruct st as [sty row text speed lp last off act dir vis show cyc]. hsimp.
  destruct sty.
  - destruct (text ++ spaces cols); hsimp; repeat (break_if; hsimp); repeat split; reflexivity.
  - repeat (break_if; hsimp); repeat split; reflexivity.
  - repeat (break_if; hsimp); repeat split; reflexivity.
  - destruct text; hsimp; repeat (break_if; hsimp); repeat split; reflexivity.
Qed.

Lemma hstep_keeps cols now st :
  h_style (hstep cols now st) = h_style st /\ h_row (hstep cols now st) = h_row st /\
  h_text (hstep cols now st) = h_text st /\ h_speed (hstep cols now st) = h_speed st /\
  h_loop (hstep cols now st) = h_loop st.
Proof.
  unfold hstep. destruct (hgate st now); [|repeat split; reflexivity].
  destruct (hnext_keeps cols (hset_last st now)) as (A & B & C & D & E & _).
  rewrite A, B, C, D, E. destruct st; repeat split; reflexivity.
Qed.

Lemma hstep_last cols now st : h_last (hstep cols now st) = if hgate st now then now else h_last st.
Proof.
  unfold hstep. destruct (hgate st now); [|reflexivity].
  destruct (hnext_keeps cols (hset_last st now)) as (_ & _ & _ & _ & _ & E). rewrite E. destruct st; reflexivity.
Qed.

Lemma hgate_active st now : hgate st now = true -> h_active st = true.
Proof. unfold hgate. intro H. apply andb_true_iff in H. tauto. Qed.

(* ---- termination: variant and invariant *)
Definition hvar (cols : Z) (st : hstate) : Z :=
  if h_active st then
    let n := zlen (h_text st) in
    match h_style st with
    | Scroll => n + cols - h_offset st
    | Blink => 1
    | Typewriter => if n <=? 1 then 1 else n - h_visible st
    | Bounce => if (n <=? 0) || (n >=? cols) then 1
                else if h_show st then h_offset st else 2 * (cols - n) - h_offset st
    end
  else 0.

Definition hinv (cols : Z) (st : hstate) : Prop :=
  h_loop st = false /\
  (h_active st = true ->
   let n := zlen (h_text st) in
   match h_style st with
   | Scroll => 0 <= h_offset st < n + cols
   | Blink => h_show st = true
   | Typewriter => 1 <= n -> 1 <= h_visible st /\ (2 <= n -> h_visible st < n)
   | Bounce => 0 <= h_cycles st /\
               (0 < n < cols ->
                (h_show st = false /\ h_dir st = 1 /\ 0 <= h_offset st < cols - n) \/
                (h_show st = true /\ h_dir st = -1 /\ 0 < h_offset st <= cols - n))
   end).

Lemma hvar_nonneg cols st : hinv cols st -> 1 <= cols ->
  0 <= hvar cols st /\ (h_active st = true <-> 1 <= hvar cols st).
Proof.
  intros [Hl Hi] Hc. unfold hvar. destruct (h_active st) eqn:Ea; [|split; [lia|split; [discriminate|lia]]].
  specialize (Hi eq_refl). cbv zeta in Hi. pose proof (zlen_nonneg (h_text st)) as Hn.
  assert (G : forall v, 1 <= v -> 0 <= v /\ (true = true <-> 1 <= v)) by (intros; split; [lia|tauto]).
  apply G. destruct (h_style st).
  - lia.
  - lia.
  - destruct (zlen (h_text st) <=? 1) eqn:E; zb; lia.
  - destruct ((zlen (h_text st) <=? 0) || (zlen (h_text st) >=? cols)) eqn:E; [lia|].
    zb. destruct Hi as [_ Hi].
    destruct (Hi ltac:(lia)) as [(A & B & D)|(A & B & D)]; rewrite A; lia.
Qed.

Ltac hfin :=
  hsimp; split;
  [ split; [reflexivity | try discriminate; intros; repeat split; intros; lia]
  | repeat break_if; zb; lia ].

Lemma hstep_var cols now st : 1 <= cols -> hinv cols st -> hgate st now = true ->
  hinv cols (hstep cols now st) /\ hvar cols (hstep cols now st) = hvar cols st - 1.
Proof.
  intros Hc [Hl Hi] Hg. pose proof (hgate_active _ _ Hg) as Ha. specialize (Hi Ha).
  unfold hstep. rewrite Hg. unfold hinv, hvar. rewrite Ha.
  destruct st as [sty row text speed lp last off act dir vis show cyc]. hsimp. subst lp act. clear Hg.
  pose proof (zlen_nonneg text) as Hn. unfold hnext. hsimp.
  destruct sty.
  - (* scroll *)
    destruct (text ++ spaces cols) eqn:Ep.
    { apply (f_equal zlen) in Ep. rewrite zlen_app, zlen_spaces in Ep. change (zlen (@nil Z)) with 0 in Ep. lia. }
    rewrite <- Ep. rewrite zlen_app, zlen_spaces. replace (Z.max 0 cols) with cols by lia. hsimp.
    destruct (off + 1 >=? zlen text + cols) eqn:E; zb; hfin.
  - (* blink *)
    subst show. cbn [negb]. hsimp. cbn [negb]. hfin.
  - (* typewriter *)
    destruct (zlen text =? 0) eqn:E0; zb; [hfin|].
    specialize (Hi ltac:(lia)).
    destruct (vis <? zlen text) eqn:E1; hsimp; zb.
    + cbn [negb andb]. destruct (vis + 1 >=? zlen text) eqn:E3; cbn [andb]; zb; hfin.
    + hfin.
  - (* bounce *)
    destruct Hi as [Hcy Hi]. destruct text as [|t0 text'] eqn:Et.
    { change (zlen (@nil Z)) with 0. hfin. }
    rewrite <- Et in *.
    assert (0 < zlen text) by (rewrite Et, zlen_cons; pose proof (zlen_nonneg text'); lia).
    clear Et.
    destruct (zlen text >=? cols) eqn:E1; zb; [hfin|].
    replace (Z.max 0 (cols - zlen text)) with (cols - zlen text) by lia.
    destruct (cols - zlen text =? 0) eqn:E2; zb; [lia|].
    destruct (Hi ltac:(lia)) as [(A & B & D)|(A & B & D)]; subst show dir; hsimp;
      repeat (break_if; cbn [negb andb] in *; hsimp); zb; hfin.
Qed.

(* the state LCD.animate registers *)
Definition hstart (sty : style) (row : Z) (text : list Z) (speed : Z) (lp : bool) : hstate :=
  match sty with
  | Scroll | Blink => mkH sty row text (Z.max 0 speed) lp 0 0 true 1 0 true 0
  | Typewriter => mkH sty row text (Z.max 0 speed) lp 0 0 true 1 (Z.min (zlen text) 1) true 0
  | Bounce => mkH sty row text (Z.max 0 speed) lp 0 0 true 1 0 false 0
  end.

Lemma hinv_start cols sty row text speed : 1 <= cols ->
  hinv cols (hstart sty row text speed false) /\
  hvar cols (hstart sty row text speed false) = hsteps_total sty cols text.
Proof.
  intro Hc. pose proof (zlen_nonneg text) as Hn. unfold hinv, hvar, hsteps_total.
  destruct sty; cbn [hstart]; hsimp.
  - split; [split; [reflexivity|intros _; lia]|lia].
  - split; [split; [reflexivity|reflexivity]|reflexivity].
  - split; [split; [reflexivity|]|].
    + intros _ H1. lia.
    + destruct (zlen text <=? 1) eqn:E; [reflexivity|]. zb. lia.
  - split; [split; [reflexivity|]|].
    + intros _. split; [lia|]. intros H. left. repeat split; lia.
    + destruct ((zlen text <=? 0) || (zlen text >=? cols)); lia.
Qed.

Lemma hstart_fields sty row text speed lp :
  let st := hstart sty row text speed lp in
  h_style st = sty /\ h_row st = row /\ h_text st = text /\ h_speed st = Z.max 0 speed /\ h_loop st = lp /\
  h_last st = 0 /\ h_active st = true.
Proof. destruct sty; cbn; repeat split; reflexivity. Qed.

(* ------------------------------------------------------------------------------------------ *)
(* host: runs of one animation                                                                *)
(* ------------------------------------------------------------------------------------------ *)

Lemma hsteps_var cols rows st nows stn tr : 1 <= cols -> hinv cols st ->
  hsteps cols rows st nows stn tr ->
  hinv cols stn /\ step_count tr + hvar cols stn = hvar cols st.
Proof.
  intros Hc Hi H. induction H as [st|st now buf st' buf' ev rest stn tr Hw Ht Hs IH].
  - split; [assumption|]. unfold step_count, step_times. cbn. lia.
  - apply htick1_state in Ht. subst st'. rewrite step_count_cons.
    destruct (hgate st now) eqn:Hg.
    + destruct (hstep_var cols now st Hc Hi Hg) as [Hi' Hv].
      destruct (IH Hi') as [A B]. split; [assumption|]. lia.
    + unfold hstep in *. rewrite Hg in *. destruct (IH Hi) as [A B]. split; [assumption|]. lia.
Qed.

(* C18_terminates, host *)
Lemma terminates_host cols rows sty row text speed nows stn tr : 1 <= cols ->
  hsteps cols rows (hstart sty row text speed false) nows stn tr ->
  step_count tr <= hsteps_total sty cols text /\
  (h_active stn = true <-> step_count tr < hsteps_total sty cols text) /\
  hsteps_total sty cols text <= zlen text + 2 * cols + 2.
Proof.
  intros Hc H. destruct (hinv_start cols sty row text speed Hc) as [Hi Hv].
  destruct (hsteps_var _ _ _ _ _ _ Hc Hi H) as [Hi' Hs]. rewrite Hv in Hs.
  destruct (hvar_nonneg cols stn Hi' Hc) as [H0 H1].
  split; [lia|]. split; [rewrite H1; lia|].
  pose proof (zlen_nonneg text). unfold hsteps_total. destruct sty; repeat break_if; zb; lia.
Qed.

(* C18_loops_forever, host *)
Lemma hnext_loop_active cols st : h_loop st = true -> h_active st = true -> h_active (hnext cols st) = true.
Proof.
  unfold hnext. destruct st as [sty row text speed lp last off act dir vis show cyc]. hsimp. intros -> ->.
  destruct sty.
  - destruct (text ++ spaces cols); hsimp; repeat (break_if; hsimp); reflexivity.
  - repeat (break_if; cbn [negb andb] in *; hsimp); try reflexivity; discriminate.
  - repeat (break_if; cbn [negb andb] in *; hsimp); try reflexivity; try discriminate;
      rewrite andb_false_r in *; discriminate.
  - destruct text; hsimp; repeat (break_if; cbn [negb andb] in *; hsimp); try reflexivity; discriminate.
Qed.

Lemma hstep_loop_active cols now st : h_loop st = true -> h_active st = true ->
  h_active (hstep cols now st) = true.
Proof.
  intros Hl Ha. unfold hstep. destruct (hgate st now); [|exact Ha].
  apply hnext_loop_active; destruct st; assumption.
Qed.

Lemma hsteps_loop_active cols rows st nows stn tr : h_loop st = true -> h_active st = true ->
  hsteps cols rows st nows stn tr -> h_active stn = true.
Proof.
  intros Hl Ha H. induction H as [st|st now buf st' buf' ev rest stn tr Hw Ht Hs IH]; [exact Ha|].
  apply htick1_state in Ht. subst st'. apply IH.
  - destruct (hstep_keeps cols now st) as (_ & _ & _ & _ & L). rewrite L. exact Hl.
  - apply hstep_loop_active; assumption.
Qed.

Lemma loops_forever_host cols rows sty row text speed nows stn tr :
  hsteps cols rows (hstart sty row text speed true) nows stn tr -> h_active stn = true.
Proof.
  destruct (hstart_fields sty row text speed true) as (_ & _ & _ & _ & L & _ & A).
  apply hsteps_loop_active; assumption.
Qed.

(* C18_rate_limit, host *)
Lemma hgate_spacing st now : hgate st now = true -> h_last st <= now ->
  0 < h_last st -> h_speed st <= now - h_last st.
Proof.
  unfold hgate. intros H Hle Hp. apply andb_true_iff in H as [_ H].
  destruct (h_speed st <=? 0) eqn:E1; zb; [lia|].
  apply negb_true_iff in H.
  replace (h_last st =? 0) with false in H by (symmetry; apply Z.eqb_neq; lia).
  cbn [negb andb] in H. zb. lia.
Qed.

Lemma hsteps_spaced cols rows st nows stn tr : hsteps cols rows st nows stn tr ->
  nondecr (h_last st) nows -> spaced (h_speed st) (h_last st) (step_times tr).
Proof.
  intro H. induction H as [st|st now buf st' buf' ev rest stn tr Hw Ht Hs IH]; intro Hn; [exact I|].
  apply htick1_state in Ht. subst st'. cbn [nondecr] in Hn. destruct Hn as [Hle Hr].
  rewrite step_times_cons.
  destruct (hstep_keeps cols now st) as (_ & _ & _ & S & _).
  pose proof (hstep_last cols now st) as L. rewrite S, L in IH.
  destruct (hgate st now) eqn:Hg.
  - cbn [spaced]. split; [intro; apply hgate_spacing; assumption|]. split; [assumption|].
    apply IH. exact Hr.
  - apply IH. eapply nondecr_weaken; eassumption.
Qed.

Lemma rate_limit_host cols rows sty row text speed lp nows stn tr : tick_times_ok nows ->
  hsteps cols rows (hstart sty row text speed lp) nows stn tr ->
  rate_limited (Z.max 0 speed) (step_times tr).
Proof.
  intros Ht H. destruct (hstart_fields sty row text speed lp) as (_ & _ & _ & S & _ & L & _).
  apply (spaced_rate_limited (Z.max 0 speed) 0); [lia|].
  pose proof (hsteps_spaced _ _ _ _ _ _ H) as G. rewrite S, L in G. apply G.
  eapply nondecr_weaken; [|exact Ht]. lia.
Qed.

(* C18_start_nonblocking / C18_frame_geometry, host: every tick of a run *)
Lemma hsteps_events cols rows st nows stn tr : 1 <= cols -> 0 <= h_row st < rows ->
  hsteps cols rows st nows stn tr ->
  Forall (fun x => hno_delay (snd x) /\ hin_row cols (h_row st) (snd x)) tr.
Proof.
  intros Hc Hr H. induction H as [st|st now buf st' buf' ev rest stn tr Hw Ht Hs IH]; [constructor|].
  destruct (htick1_ok cols rows now st buf Hc Hw Hr) as (b & e & E & (_ & R & D & _) & _).
  rewrite E in Ht. inversion Ht; subst. constructor; [cbn [snd]; split; assumption|].
  destruct (hstep_keeps cols now st) as (_ & Rw & _). rewrite <- Rw. apply IH. rewrite Rw. exact Hr.
Qed.

(* ------------------------------------------------------------------------------------------ *)
(* host: the whole object                                                                     *)
(* ------------------------------------------------------------------------------------------ *)

Lemma hnew_wf cols rows l : hnew cols rows = Some l -> hwf l /\ l_anims l = [].
Proof.
  unfold hnew. destruct ((cols <=? 0) || (rows <=? 0)) eqn:E; [discriminate|]. zb.
  intro Hnew. inversion Hnew; subst. split; [|reflexivity]. unfold hwf; cbn. split; [lia|]. split.
  - split.
    + unfold zlen. rewrite repeat_length. lia.
    + intros row Hin. apply repeat_spec in Hin. subst. apply zlen_spaces_pos. lia.
  - intros st [].
Qed.

Lemma hanimate_fin l row st b e : hwf l -> 0 <= row < l_rows l -> h_row st = row ->
  hres_ok (l_cols l) (l_rows l) row (l_buf l) b e ->
  hwf (mkL (l_cols l) (l_rows l) b (l_anims l ++ [st])) /\
  l_cols l = l_cols l /\ l_rows l = l_rows l /\ 0 <= row < l_rows l /\
  l_anims l ++ [st] = l_anims l ++ [st] /\
  hno_delay e /\ hin_row (l_cols l) row e /\ hframe_drawn (l_cols l) row (l_buf l) e b.
Proof.
  intros (Hc & Hw & Hr) V Hst (W & R & D & F).
  split; [|repeat split; try assumption; try apply V; try (eapply R; eassumption)].
  unfold hwf; cbn [l_cols l_rows l_buf l_anims]. split; [exact Hc|]. split; [exact W|].
  intros s Hin. apply in_app_or in Hin as [Hin|[<-|[]]]; [apply Hr; exact Hin|rewrite Hst; exact V].
Qed.

Lemma hanimate_ok l sty row text speed lp l' ev : hwf l ->
  hanimate l sty row text speed lp = Some (l', ev) ->
  hwf l' /\ l_cols l' = l_cols l /\ l_rows l' = l_rows l /\ 0 <= row < l_rows l /\
  l_anims l' = l_anims l ++ [hstart sty row text speed lp] /\
  hno_delay ev /\ hin_row (l_cols l) row ev /\ hframe_drawn (l_cols l) row (l_buf l) ev (l_buf l').
Proof.
  intros Hwf H. pose proof Hwf as (Hc & Hw & Hr). unfold hanimate in H.
  destruct (validate_row (l_rows l) row) eqn:V; [|discriminate]. apply validate_row_true in V.
  pose proof Hw as [Hl Hw0].
  destruct sty; cbn [hstart]; hsimp.
  - rewrite hline_eq in H by assumption. inversion H; subst; clear H. cbn [l_cols l_rows l_anims l_buf].
    apply hanimate_fin; [assumption|assumption|reflexivity|apply hres_line; assumption].
  - rewrite hline_eq in H by assumption. inversion H; subst; clear H. cbn [l_cols l_rows l_anims l_buf].
    apply hanimate_fin; [assumption|assumption|reflexivity|apply hres_line; assumption].
  - rewrite hline_eq in H by assumption. inversion H; subst; clear H. cbn [l_cols l_rows l_anims l_buf].
    apply hanimate_fin; [assumption|assumption|reflexivity|apply hres_line; assumption].
  - inversion H; subst; clear H. cbn [l_cols l_rows l_anims l_buf].
    apply hanimate_fin; [assumption|assumption|reflexivity|].
    apply hres_assign; [assumption|rewrite zlen_bput; apply zlen_spaces_pos; lia].
Qed.

Lemma htick_list_ok cols rows now sts buf : 1 <= cols -> buf_wf cols rows buf ->
  (forall st, In st sts -> 0 <= h_row st < rows) ->
  exists b ev, htick_list cols rows now sts buf = Some (map (hstep cols now) sts, b, ev) /\
    buf_wf cols rows b /\ hno_delay ev /\
    (forall r s, In (HRow r s) ev -> zlen s = cols /\ exists st, In st sts /\ h_row st = r /\ hgate st now = true) /\
    (forall i st, nth_error sts i = Some st ->
       exists b0 b1 e, buf_wf cols rows b0 /\ htick1 cols rows now st b0 = Some (hstep cols now st, b1, e)).
Proof.
  intros Hc. revert buf; induction sts as [|st rest IH]; intros buf Hw Hr.
  - exists buf, []. cbn. split; [reflexivity|]. split; [exact Hw|]. split; [intros ? []|]. split; [intros ? ? []|].
    intros [|i] st H; discriminate.
  - destruct (htick1_ok cols rows now st buf Hc Hw (Hr st (or_introl eq_refl))) as (b1 & e1 & E1 & (W1 & R1 & D1 & _) & Sk).
    destruct (IH b1 W1 (fun s Hs => Hr s (or_intror Hs))) as (b2 & e2 & E2 & W2 & D2 & R2 & N2).
    exists b2, (e1 ++ e2). cbn [htick_list map]. rewrite E1, E2. split; [reflexivity|]. split; [exact W2|]. split; [|split].
    + intros ms Hin. apply in_app_or in Hin as [Hin|Hin]; [eapply D1|eapply D2]; exact Hin.
    + intros r s Hin. apply in_app_or in Hin as [Hin|Hin].
      * destruct (R1 _ _ Hin) as [-> Hs]. split; [exact Hs|]. exists st. split; [left; reflexivity|]. split; [reflexivity|].
        destruct (hgate st now) eqn:Hg; [reflexivity|]. destruct (Sk eq_refl) as [-> _]. destruct Hin.
      * destruct (R2 _ _ Hin) as [Hs (s' & Hi & Hrw & Hg)]. split; [exact Hs|]. exists s'. split; [right; exact Hi|tauto].
    + intros [|i] s H; cbn [nth_error] in H.
      * inversion H; subst. exists buf, b1, e1. split; assumption.
      * apply (N2 i s H).
Qed.

Lemma htick_ok l now : hwf l ->
  exists l' ev, htick l now = Some (l', ev) /\ hwf l' /\
    l_cols l' = l_cols l /\ l_rows l' = l_rows l /\ l_anims l' = map (hstep (l_cols l) now) (l_anims l) /\
    hno_delay ev /\
    (forall r s, In (HRow r s) ev -> zlen s = l_cols l /\
        exists st, In st (l_anims l) /\ h_row st = r /\ hgate st now = true).
Proof.
  intros (Hc & Hw & Hr).
  destruct (htick_list_ok (l_cols l) (l_rows l) now (l_anims l) (l_buf l) Hc Hw Hr) as (b & ev & E & W & D & R & _).
  unfold htick. rewrite E. do 2 eexists. split; [reflexivity|]. cbn [l_cols l_rows l_anims l_buf].
  split; [|split; [reflexivity|split; [reflexivity|split; [reflexivity|split; [exact D|exact R]]]]].
  unfold hwf; cbn. split; [exact Hc|]. split; [exact W|].
  intros st Hin. apply in_map_iff in Hin as (s0 & <- & Hin).
  destruct (hstep_keeps (l_cols l) now s0) as (_ & Rw & _). rewrite Rw. auto.
Qed.

Lemma hreach_wf l : hreach l -> hwf l.
Proof.
  induction 1 as [cols rows l H|l sty row text speed lp l' ev _ IH H|l now l' ev _ IH H].
  - apply hnew_wf in H. tauto.
  - eapply hanimate_ok in H; [tauto|exact IH].
  - destruct (htick_ok l now IH) as (l2 & ev2 & E & W & _). rewrite E in H. inversion H; subst. exact W.
Qed.

(* C18_host_tick_total *)
Lemma host_tick_total l : hreach l -> forall nows, hticks l nows <> None.
Proof.
  intros Hr nows. apply hreach_wf in Hr. revert l Hr; induction nows as [|now rest IH]; intros l Hw; cbn [hticks].
  - discriminate.
  - destruct (htick_ok l now Hw) as (l' & ev & E & W & _). rewrite E.
    specialize (IH l' W). destruct (hticks l' rest) as [[l'' evs]|]; [discriminate|contradiction].
Qed.

(* every animation of a display, ticked through the display's history, is a run of [hsteps] *)
Lemma hticks_animation l nows l' evs : hwf l -> hticks l nows = Some (l', evs) ->
  forall i st, nth_error (l_anims l) i = Some st ->
  exists stn tr, hsteps (l_cols l) (l_rows l) st nows stn tr /\ nth_error (l_anims l') i = Some stn.
Proof.
  revert l l' evs; induction nows as [|now rest IH]; intros l l' evs Hw H i st Hi; cbn [hticks] in H.
  - inversion H; subst. exists st, []. split; [constructor|exact Hi].
  - destruct (htick_ok l now Hw) as (l1 & ev & E & W & C1 & R1 & A1 & _). rewrite E in H.
    destruct (hticks l1 rest) as [[l2 evs2]|] eqn:E2; [|discriminate]. inversion H; subst.
    destruct Hw as (Hc & Hb & Hrows).
    destruct (htick_list_ok (l_cols l) (l_rows l) now (l_anims l) (l_buf l) Hc Hb Hrows) as (_ & _ & _ & _ & _ & _ & N).
    destruct (N i st Hi) as (b0 & b1 & e & Wb & T).
    assert (Hi1 : nth_error (l_anims l1) i = Some (hstep (l_cols l) now st)).
    { rewrite A1. rewrite nth_error_map, Hi. reflexivity. }
    destruct (IH l1 l' evs2 W E2 i _ Hi1) as (stn & tr & S & F). rewrite C1, R1 in S.
    exists stn, ((now, hgate st now, e) :: tr). split; [|exact F].
    econstructor; eassumption.
Qed.

(* C18_frame_geometry, host: one tick of one animation on any well-formed buffer *)
Lemma frame_geometry_host_tick cols rows now st buf st' buf' ev :
  1 <= cols -> buf_wf cols rows buf -> 0 <= h_row st < rows ->
  htick1 cols rows now st buf = Some (st', buf', ev) ->
  hin_row cols (h_row st) ev /\ hframe_drawn cols (h_row st) buf ev buf' /\ buf_wf cols rows buf' /\
  h_row st' = h_row st.
Proof.
  intros Hc Hw Hr H. destruct (htick1_ok cols rows now st buf Hc Hw Hr) as (b & e & E & (W & R & D & F) & _).
  rewrite E in H. inversion H; subst.
  split; [exact R|]. split; [exact F|]. split; [exact W|].
  destruct (hstep_keeps cols now st) as (_ & Rw & _). exact Rw.
Qed.

(* ------------------------------------------------------------------------------------------ *)
(* tick injection: every declared animation variable is ticked exactly once per pass          *)
(* ------------------------------------------------------------------------------------------ *)

(* wherever the call sites are - before the main loop, inside it, in function bodies - the tick calls at
   the head of loop() are exactly the declared variables, none twice, and each site is ticked through
   its own variable with its own style; conversely every tick call belongs to one site *)
Lemma tick_injected setup loop :
  loop_ticks setup loop = all_vars setup loop /\ NoDup (loop_ticks setup loop) /\
  (forall pre n sty post, setup ++ loop = pre ++ (n, sty) :: post -> In (n, count_name n pre, sty) (loop_ticks setup loop)) /\
  (forall n k sty, In (n, k, sty) (loop_ticks setup loop) ->
     exists pre post, setup ++ loop = pre ++ (n, sty) :: post /\ k = count_name n pre).
Proof.
  split; [apply loop_ticks_all_vars|]. split; [apply loop_ticks_NoDup|]. split.
  - intros pre n sty post E. exact (proj1 (site_ticked setup loop pre n sty post E)).
  - apply loop_tick_has_site.
Qed.

(* the former witness of the refutation (one display, a single lcd.animate("scroll", ...) inside
   `while True:`): its variable is now ticked *)
Lemma ex_loop_site_ticked : loop_ticks [] [(0, Scroll)] = [(0, 0, Scroll)] /\ all_vars [] [(0, Scroll)] = [(0, 0, Scroll)].
Proof. split; reflexivity. Qed.

(* ------------------------------------------------------------------------------------------ *)
(* host: whole-object statements over tick histories                                          *)
(* ------------------------------------------------------------------------------------------ *)

Lemma hticks_no_delay l nows l' evs : hwf l -> hticks l nows = Some (l', evs) ->
  Forall hno_delay evs /\ hwf l'.
Proof.
  revert l l' evs; induction nows as [|now rest IH]; intros l l' evs Hw H; cbn [hticks] in H.
  - inversion H; subst. split; [constructor|exact Hw].
  - destruct (htick_ok l now Hw) as (l1 & ev & E & Hw1 & _ & _ & _ & Hnd & _).
    rewrite E in H. destruct (hticks l1 rest) as [[l2 evs2]|] eqn:E2; [|discriminate].
    inversion H; subst. destruct (IH _ _ _ Hw1 E2) as [F W]. split; [constructor; assumption|exact W].
Qed.

(* animate + any tick history on a reachable object: no sleep anywhere *)
Lemma start_nonblocking_host l sty row text speed lp l1 ev0 nows l2 evs :
  hreach l -> hanimate l sty row text speed lp = Some (l1, ev0) -> hticks l1 nows = Some (l2, evs) ->
  hno_delay ev0 /\ Forall hno_delay evs.
Proof.
  intros Hr Ha Ht. pose proof (hreach_wf l Hr) as Hw.
  destruct (hanimate_ok l sty row text speed lp l1 ev0 Hw Ha) as (Hw1 & _ & _ & _ & _ & Hnd & _).
  split; [exact Hnd|]. exact (proj1 (hticks_no_delay l1 nows l2 evs Hw1 Ht)).
Qed.

(* one tick of the whole object: every buffer assignment is a full-width row of an animation that
   was due at this tick *)
Lemma frame_geometry_host_object l now l' ev : hwf l -> htick l now = Some (l', ev) ->
  hwf l' /\ forall r s, In (HRow r s) ev -> zlen s = l_cols l /\
        exists st, In st (l_anims l) /\ h_row st = r /\ hgate st now = true.
Proof.
  intros Hw H. destruct (htick_ok l now Hw) as (l1 & ev1 & E & Hw1 & _ & _ & _ & _ & G).
  rewrite E in H. inversion H; subst. split; assumption.
Qed.

(* animate validates the row: it fails exactly outside 0 <= row < rows, leaving nothing registered *)
Lemma hanimate_validates l sty row text speed lp : hwf l ->
  (hanimate l sty row text speed lp = None <-> ~ (0 <= row < l_rows l)).
Proof.
  intro Hw. pose proof (validate_row_true (l_rows l) row) as V. unfold hanimate.
  destruct (validate_row (l_rows l) row) eqn:E.
  - split; [|intro N; exfalso; apply N; apply V; reflexivity].
    assert (Hr : 0 <= row < l_rows l) by (apply V; reflexivity).
    destruct Hw as (Hc & (Hb & _) & _).
    destruct sty; try discriminate;
      match goal with |- context [hline ?c ?r ?b ?row ?t] =>
        rewrite (hline_eq c r b row t Hc Hb Hr) end; discriminate.
  - split; [intros _ N; apply V in N; discriminate|reflexivity].
Qed.

(* the executable single-animation run is an instance of [hsteps] *)
Lemma hrun1_hsteps cols rows st buf nows stn bufn tr :
  1 <= cols -> buf_wf cols rows buf -> 0 <= h_row st < rows ->
  hrun1 cols rows st buf nows = Some (stn, bufn, tr) -> hsteps cols rows st nows stn tr.
Proof.
  intro Hc. revert st buf stn bufn tr; induction nows as [|now rest IH]; intros st buf stn bufn tr Hw Hr H;
    cbn [hrun1] in H.
  - inversion H; subst. constructor.
  - destruct (htick1 cols rows now st buf) as [[[st1 b1] ev]|] eqn:E; [|discriminate].
    destruct (hrun1 cols rows st1 b1 rest) as [[[st2 b2] tr2]|] eqn:E2; [|discriminate].
    inversion H; subst.
    destruct (frame_geometry_host_tick cols rows now st buf st1 b1 ev Hc Hw Hr E) as (_ & _ & Hw1 & Hr1).
    eapply hs_cons; [exact Hw|exact E|].
    eapply IH; [exact Hw1|rewrite Hr1; exact Hr|exact E2].
Qed.

(* ------------------------------------------------------------------------------------------ *)
(* non-vacuity witnesses                                                                      *)
(* ------------------------------------------------------------------------------------------ *)

Lemma ex_tick_times : tick_times_ok [1; 1; 50; 101; 101; 350].
Proof. unfold tick_times_ok. cbn [nondecr]. repeat split; lia. Qed.

Lemma ex_device_scroll_run :
  let r := drun1 Scroll 3 (fst (dstart Scroll 3 0 [65; 66] 100 false)) (map (fun k => 60 * Z.of_nat k) (seq 1 14)) in
  step_count (snd r) = 6 /\ dsteps_total Scroll 3 [65; 66] = 6 /\ d_active (fst r) = false /\
  step_times (snd r) = [60; 180; 300; 420; 540; 660] /\
  d_active (fst (drun1 Scroll 3 (fst (dstart Scroll 3 0 [65; 66] 100 false)) (map (fun k => 60 * Z.of_nat k) (seq 1 9)))) = true.
Proof. vm_compute. repeat split; reflexivity. Qed.

Lemma ex_device_bounce_frame :
  let st0 := fst (dstart Bounce 3 1 [65] 0 true) in
  get_row 1 (apply_devs (snd (dtick Bounce 3 5 st0)) (blank_matrix 3 2)) = [32; 65; 32] /\
  get_row 0 (apply_devs (snd (dtick Bounce 3 5 st0)) (blank_matrix 3 2)) = [32; 32; 32].
Proof. vm_compute. split; reflexivity. Qed.

Lemma ex_host_object :
  exists l0 l1 l2 e1 e2 l3 evs,
    hnew 8 2 = Some l0 /\
    hanimate l0 Typewriter 0 [72; 105; 33] 10 false = Some (l1, e1) /\
    hanimate l1 Scroll 1 [65; 66] 0 true = Some (l2, e2) /\
    hreach l2 /\ hwf l2 /\
    hticks l2 [1; 5; 11; 21; 31; 41] = Some (l3, evs) /\
    map h_active (l_anims l3) = [false; true] /\
    get_row 0 (l_buf l3) = [72; 105; 33; 32; 32; 32; 32; 32].
Proof.
  destruct (hnew 8 2) as [l0|] eqn:E0; [|vm_compute in E0; discriminate].
  assert (R0 : hreach l0) by (eapply hr_new; exact E0).
  vm_compute in E0. injection E0 as <-.
  match goal with R0 : hreach ?l |- _ =>
    destruct (hanimate l Typewriter 0 [72; 105; 33] 10 false) as [[l1 e1]|] eqn:E1; [|vm_compute in E1; discriminate] end.
  assert (R1 : hreach l1) by (eapply hr_animate; [exact R0|exact E1]).
  vm_compute in E1. injection E1 as <- <-.
  match goal with R1 : hreach ?l |- _ =>
    destruct (hanimate l Scroll 1 [65; 66] 0 true) as [[l2 e2]|] eqn:E2; [|vm_compute in E2; discriminate] end.
  assert (R2 : hreach l2) by (eapply hr_animate; [exact R1|exact E2]).
  vm_compute in E2. injection E2 as <- <-.
  match goal with R2 : hreach ?l |- _ =>
    destruct (hticks l [1; 5; 11; 21; 31; 41]) as [[l3 evs]|] eqn:E3; [|vm_compute in E3; discriminate] end.
  vm_compute in E3. injection E3 as <- <-.
  do 7 eexists.
  split; [reflexivity|]. split; [vm_compute; reflexivity|]. split; [vm_compute; reflexivity|].
  split; [exact R2|]. split; [exact (hreach_wf _ R2)|].
  split; [vm_compute; reflexivity|]. split; vm_compute; reflexivity.
Qed.

Lemma ex_host_hsteps :
  exists stn tr, hsteps 8 2 (hstart Typewriter 0 [72; 105; 33] 10 false) [1; 5; 11; 21; 31; 41] stn tr /\
                 h_active stn = false /\ step_count tr = 2.
Proof.
  destruct (hrun1 8 2 (hstart Typewriter 0 [72; 105; 33] 10 false) (repeat (spaces 8) 2) [1; 5; 11; 21; 31; 41])
    as [[[stn bufn] tr]|] eqn:E; [|vm_compute in E; discriminate].
  exists stn, tr. split.
  - eapply hrun1_hsteps; [| |  |exact E].
    + lia.
    + split; [reflexivity|]. intros r [<-|[<-|[]]]; reflexivity.
    + cbn. lia.
  - vm_compute in E. injection E as <- _ <-. split; vm_compute; reflexivity.
Qed.
