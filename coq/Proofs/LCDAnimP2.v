(* C18, second proof file: several animations on one display (device), whole-run statements. *)
From Coq Require Import ZArith List Bool Lia.
From RV Require Import Host.LCDAnim Device.DLCDAnim Proofs.LCDAnimP.
Import ListNotations.
Open Scope Z_scope.

Lemma flat_map_map {A B C} (f : A -> B) (g : B -> list C) l :
  flat_map g (map f l) = flat_map (fun x => g (f x)) l.
Proof. induction l as [|x l IH]; [reflexivity|]. cbn [map flat_map]. rewrite IH. reflexivity. Qed.

Lemma flat_map_nil {A B} (l : list A) : flat_map (fun _ => @nil B) l = [].
Proof. induction l as [|x l IH]; [reflexivity|]. cbn [flat_map]. exact IH. Qed.

Lemma drun_all_cons cols anims now rest :
  drun_all cols anims (now :: rest) =
  (fst (drun_all cols (fst (dtick_all cols now anims)) rest),
   snd (dtick_all cols now anims) :: snd (drun_all cols (fst (dtick_all cols now anims)) rest)).
Proof.
  cbn [drun_all]. destruct (dtick_all cols now anims) as [a' ev]. cbn [fst snd].
  destruct (drun_all cols a' rest) as [an evs]. reflexivity.
Qed.

(* the i-th animation of a display evolves exactly as if it were alone *)
Lemma drun_all_states cols anims nows :
  fst (drun_all cols anims nows) =
  map (fun a => (fst a, fst (drun1 (fst a) cols (snd a) nows))) anims.
Proof.
  revert anims; induction nows as [|now rest IH]; intro anims.
  - cbn [drun_all fst]. induction anims as [|[sty st] l IHl]; [reflexivity|].
    cbn [map fst snd drun1]. f_equal. exact IHl.
  - rewrite drun_all_cons. cbn [fst]. rewrite IH, dtick_all_once. cbn [fst]. rewrite map_map.
    apply map_ext. intros [sty st]. cbn [fst snd]. rewrite drun1_cons. reflexivity.
Qed.

(* the cell writes of pass k are the concatenation, in registration order, of what each animation
   writes in its own k-th tick *)
Lemma drun_all_events cols anims nows k :
  nth k (snd (drun_all cols anims nows)) [] =
  flat_map (fun a => nth k (map snd (snd (drun1 (fst a) cols (snd a) nows))) []) anims.
Proof.
  revert anims k; induction nows as [|now rest IH]; intros anims k.
  - cbn [drun_all snd]. replace (nth k (@nil (list dev)) []) with (@nil dev) by (destruct k; reflexivity).
    symmetry. erewrite flat_map_ext; [apply flat_map_nil|]. intros [sty st]. cbn. destruct k; reflexivity.
  - rewrite drun_all_cons. cbn [snd]. destruct k as [|k].
    + cbn [nth]. rewrite dtick_all_once. cbn [snd]. apply flat_map_ext. intros [sty st]. cbn [fst snd].
      rewrite drun1_cons. reflexivity.
    + cbn [nth]. rewrite IH, dtick_all_once. cbn [fst]. rewrite flat_map_map.
      apply flat_map_ext. intros [sty st]. cbn [fst snd]. rewrite (drun1_cons sty cols st now rest).
      reflexivity.
Qed.

Lemma drun_all_length cols anims nows : length (snd (drun_all cols anims nows)) = length nows.
Proof.
  revert anims; induction nows as [|now rest IH]; intro anims; [reflexivity|].
  rewrite drun_all_cons. cbn [snd length]. rewrite IH. reflexivity.
Qed.

Lemma rows_of_tick_all cols now anims : rows_of (fst (dtick_all cols now anims)) = rows_of anims.
Proof.
  rewrite dtick_all_once. cbn [fst]. unfold rows_of. rewrite map_map. apply map_ext.
  intros [sty st]. cbn [fst snd]. exact (proj1 (proj2 (dtick_keeps sty cols now st))).
Qed.

Lemma dtick_all_geometry cols now anims : 1 <= cols ->
  dno_delay (snd (dtick_all cols now anims)) /\
  forall r c ch, In (DW r c ch) (snd (dtick_all cols now anims)) -> In r (rows_of anims) /\ 0 <= c < cols.
Proof.
  intro Hc. rewrite dtick_all_once. cbn [snd]. split.
  - intros ms H. apply in_flat_map in H as ([sty st] & _ & H). cbn [fst snd] in H.
    exact (frame_shape_no_delay _ _ _ (dtick_shape sty cols now st Hc) ms H).
  - intros r c ch H. apply in_flat_map in H as ([sty st] & Hin & H). cbn [fst snd] in H.
    destruct (frame_shape_in_row _ _ _ (dtick_shape sty cols now st Hc) r c ch H) as [-> Hcc].
    split; [|exact Hcc]. unfold rows_of. apply in_map_iff. exists (sty, st). split; [reflexivity|exact Hin].
Qed.

(* several animations on one display, any tick history: no delay in any pass, and every cell written
   lies in the row of one of the display's animations, columns [0, cols) *)
Lemma display_run_geometry cols anims nows : 1 <= cols ->
  Forall (fun ev => dno_delay ev /\
                    forall r c ch, In (DW r c ch) ev -> In r (rows_of anims) /\ 0 <= c < cols)
         (snd (drun_all cols anims nows)).
Proof.
  intro Hc. revert anims; induction nows as [|now rest IH]; intro anims.
  - constructor.
  - rewrite drun_all_cons. cbn [snd]. constructor.
    + apply dtick_all_geometry; exact Hc.
    + rewrite <- (rows_of_tick_all cols now anims). apply IH.
Qed.

Lemma dstart_all_states cols calls :
  fst (dstart_all cols calls) =
  map (fun c : dcall => let '(sty, row, text, speed, lp) := c in (sty, fst (dstart sty cols row text speed lp))) calls.
Proof.
  induction calls as [|[[[[sty row] text] speed] lp] rest IH]; [reflexivity|].
  cbn [dstart_all map]. destruct (dstart sty cols row text speed lp) as [st ev].
  destruct (dstart_all cols rest) as [sts evs]. cbn [fst] in *. rewrite IH. reflexivity.
Qed.

Lemma dstart_all_geometry cols calls : 1 <= cols ->
  dno_delay (snd (dstart_all cols calls)) /\
  forall r c ch, In (DW r c ch) (snd (dstart_all cols calls)) ->
    In r (rows_of (fst (dstart_all cols calls))) /\ 0 <= c < cols.
Proof.
  intro Hc. induction calls as [|[[[[sty row] text] speed] lp] rest [IH1 IH2]].
  - split; [intros ms []|intros r c ch []].
  - cbn [dstart_all]. pose proof (dstart_shape sty cols row text speed lp Hc) as Hs.
    pose proof (dstart_row sty cols row text speed lp) as Hr.
    destruct (dstart sty cols row text speed lp) as [st ev].
    destruct (dstart_all cols rest) as [sts evs]. cbn [fst snd] in *. split.
    + intros ms H. apply in_app_or in H as [H|H].
      * exact (frame_shape_no_delay _ _ _ Hs ms H).
      * exact (IH1 ms H).
    + intros r c ch H. apply in_app_or in H as [H|H].
      * destruct (frame_shape_in_row _ _ _ Hs r c ch H) as [-> Hcc].
        split; [|exact Hcc]. unfold rows_of. cbn [map snd]. left. exact Hr.
      * destruct (IH2 r c ch H) as [Hin Hcc]. split; [|exact Hcc]. unfold rows_of. cbn [map]. right. exact Hin.
Qed.

(* program level: the k-th lcd.animate call of a display, over the whole run, is the single-animation
   run the per-animation theorems speak about *)
Lemma device_history_decomposes cols calls nows i sty row text speed lp :
  nth_error calls i = Some (sty, row, text, speed, lp) ->
  nth_error (fst (drun_all cols (fst (dstart_all cols calls)) nows)) i =
  Some (sty, fst (drun1 sty cols (fst (dstart sty cols row text speed lp)) nows)).
Proof.
  intro H. rewrite drun_all_states, dstart_all_states, map_map.
  erewrite map_nth_error; [|exact H]. reflexivity.
Qed.

(* ---- the unsigned cast of speed_ms *)
Lemma rate_limited_weaken s s' l : s <= s' -> rate_limited s' l -> rate_limited s l.
Proof. intros Hle H l1 t1 l2 t2 E Hin Hpos. specialize (H l1 t1 l2 t2 E Hin Hpos). lia. Qed.

Lemma ulong_cast_ge W speed : 0 <= W -> speed < 2 ^ W -> 0 <= ulong_cast W speed /\ speed <= ulong_cast W speed.
Proof.
  intros HW Hs. unfold ulong_cast. assert (0 < 2 ^ W) by (apply Z.pow_pos_nonneg; lia).
  pose proof (Z.mod_pos_bound speed (2 ^ W) ltac:(lia)) as B.
  destruct (Z_lt_le_dec speed 0); [lia|]. rewrite Z.mod_small by lia. lia.
Qed.

Lemma ulong_cast_id W speed : 0 <= speed < 2 ^ W -> ulong_cast W speed = speed.
Proof. intro H. unfold ulong_cast. apply Z.mod_small. exact H. Qed.

(* every speed_ms below 2^W, negative ones included: steps are at least speed_ms apart (a negative
   speed_ms is cast to a huge period: after the first step with the clock running no further step) *)
Lemma rate_limit_device_emit W sty cols row text speed lp nows : 0 <= W -> speed < 2 ^ W -> tick_times_ok nows ->
  rate_limited speed (step_times (snd (drun1 sty cols (fst (dstart_emit W sty cols row text speed lp)) nows))).
Proof.
  intros HW Hs Ht. destruct (ulong_cast_ge W speed HW Hs) as [H0 Hle].
  eapply rate_limited_weaken; [exact Hle|]. unfold dstart_emit.
  apply rate_limit_device; assumption.
Qed.

(* non-vacuity: two animations sharing an 8-column display *)
Lemma ex_device_two_animations :
  let calls := [(Scroll, 0, [65; 66], 0, true); (Blink, 1, [72; 105], 100, false)] in
  let r := drun_all 8 (fst (dstart_all 8 calls)) [5; 50; 105; 300] in
  map (fun a => d_active (snd a)) (fst r) = [true; false] /\
  map (fun ev => negb (Nat.eqb (length ev) 0)) (snd r) = [true; true; true; true] /\
  rows_of (fst r) = [0; 1].
Proof. vm_compute. repeat split; reflexivity. Qed.

(* ------------------------------------------------------------------------------------------ *)
(* host, end to end on the object's API                                                       *)
(* ------------------------------------------------------------------------------------------ *)

Lemma nth_error_app_last {A} (l : list A) x : nth_error (l ++ [x]) (length l) = Some x.
Proof. induction l as [|a l IH]; [reflexivity|exact IH]. Qed.

(* LCD() ... animate(...) ... then any tick history, on an object that may already carry other
   animations: the new animation is an [hsteps] run from its start state, it never ends when looping,
   ends after exactly hsteps_total steps otherwise, and its steps are speed_ms apart *)
Lemma host_object_animation_run l sty row text speed lp l1 ev0 nows l2 evs :
  hreach l -> hanimate l sty row text speed lp = Some (l1, ev0) -> hticks l1 nows = Some (l2, evs) ->
  exists stn tr,
    nth_error (l_anims l2) (length (l_anims l)) = Some stn /\
    hsteps (l_cols l) (l_rows l) (hstart sty row text speed lp) nows stn tr /\
    (lp = true -> h_active stn = true) /\
    (lp = false -> step_count tr <= hsteps_total sty (l_cols l) text /\
                   (h_active stn = true <-> step_count tr < hsteps_total sty (l_cols l) text) /\
                   hsteps_total sty (l_cols l) text <= zlen text + 2 * l_cols l + 2) /\
    (tick_times_ok nows -> rate_limited (Z.max 0 speed) (step_times tr)).
Proof.
  intros Hr Ha Ht. pose proof (hreach_wf l Hr) as Hw.
  destruct (hanimate_ok l sty row text speed lp l1 ev0 Hw Ha) as (Hw1 & Hc & Hrw & _ & Han & _).
  destruct (hticks_animation l1 nows l2 evs Hw1 Ht (length (l_anims l)) (hstart sty row text speed lp))
    as (stn & tr & Hs & Hn).
  { rewrite Han. apply nth_error_app_last. }
  rewrite Hc, Hrw in Hs. exists stn, tr. split; [exact Hn|]. split; [exact Hs|].
  assert (Hcols : 1 <= l_cols l) by (destruct Hw as [H _]; exact H).
  split; [|split].
  - intros ->. eapply loops_forever_host; exact Hs.
  - intros ->. eapply terminates_host; [exact Hcols|exact Hs].
  - intro Hok. eapply rate_limit_host; [exact Hok|exact Hs].
Qed.
