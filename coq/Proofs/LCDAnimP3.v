(* C18, third proof file: the host and the device state machines take their steps at the same ticks
   (not required by the property - "host and device scroll differ in padding" - but it pins down
   exactly where they differ: a scroll whose text is shorter than the row). *)
From Coq Require Import ZArith List Bool Lia.
From RV Require Import Host.LCDAnim Device.DLCDAnim Proofs.LCDAnimP.
Import ListNotations.
Open Scope Z_scope.

(* the total number of steps of a non-looping animation, host vs device *)
Lemma steps_total_host_vs_device sty cols text :
  dsteps_total sty cols text =
  hsteps_total sty cols text + match sty with Scroll => Z.max 0 (cols - zlen text) | _ => 0 end.
Proof. unfold dsteps_total, hsteps_total. destruct sty; lia. Qed.

(* all fields the two sides share are equal ([visible] is only meaningful for the typewriter: the
   device stores the text length there for blink and bounce and never reads it) *)
Definition same_fields (h : hstate) (d : dstate) : Prop :=
  h_text h = d_text d /\ h_row h = d_row d /\ h_speed h = d_speed d /\ h_loop h = d_loop d /\
  h_last h = d_last d /\ h_offset h = d_offset d /\ h_active h = d_active d /\ h_dir h = d_dir d /\
  h_show h = d_show d /\ h_cycles h = d_cycles d /\
  (h_style h = Typewriter -> h_visible h = d_visible d).

(* where the two scrolls coincide: the text fills the row, and a live offset is inside the padded text *)
Definition scroll_inv (cols : Z) (h : hstate) : Prop :=
  h_style h = Scroll ->
  cols <= zlen (h_text h) /\ (h_active h = true -> 0 <= h_offset h < zlen (h_text h) + cols).

Definition sim (cols : Z) (h : hstate) (d : dstate) : Prop :=
  same_fields h d /\ scroll_inv cols h /\ 0 <= h_last h.

Lemma gate_agree h d now : same_fields h d -> 0 <= h_last h -> hgate h now = dgate d now.
Proof.
  intros (_ & _ & Hs & _ & Hl & _ & Ha & _) H0. unfold hgate, dgate. rewrite <- Hs, <- Hl, <- Ha.
  destruct (h_active h); cbn [andb]; [|reflexivity].
  destruct (h_speed h <=? 0) eqn:E1; destruct (0 <? h_speed h) eqn:E2; zb; try lia; cbn [andb negb];
    try reflexivity.
Qed.

Ltac sf := unfold same_fields, scroll_inv; hsimp; dsimp;
           repeat split; try reflexivity; try discriminate; try lia; try congruence.

Lemma next_agree sty cols row text speed lp last off dir vis dvis show cyc :
  1 <= cols ->
  let h := mkH sty row text speed lp last off true dir vis show cyc in
  let d := mkD text row speed lp last off dir dvis true show cyc in
  (sty = Typewriter -> vis = dvis) ->
  (sty = Scroll -> cols <= zlen text /\ 0 <= off < zlen text + cols) ->
  same_fields (hnext cols h) (fst (dbody sty cols d)) /\ scroll_inv cols (hnext cols h).
Proof.
  intros Hc h d Hv Hs. subst h d. pose proof (zlen_nonneg text) as Hn.
  unfold hnext, dbody. hsimp. destruct sty.
  - (* scroll *)
    destruct (Hs eq_refl) as [Hlen Hoff]. clear Hs Hv.
    destruct (text ++ spaces cols) eqn:Ep.
    { apply (f_equal zlen) in Ep. rewrite zlen_app, zlen_spaces in Ep. change (zlen (@nil Z)) with 0 in Ep. lia. }
    rewrite <- Ep. rewrite zlen_app, zlen_spaces. replace (Z.max 0 cols) with cols by lia. hsimp.
    unfold dbody_scroll. dsimp.
    replace (zlen text <? cols) with false by (symmetry; apply Z.ltb_ge; lia).
    rewrite zlen_app, zlen_spaces. replace (Z.max 0 cols) with cols by lia.
    replace (zlen text + cols =? 0) with false by (symmetry; apply Z.eqb_neq; lia).
    replace (off >=? zlen text + cols) with false by (symmetry; rewrite Z.geb_leb; apply Z.leb_gt; lia).
    dsimp.
    destruct (off + 1 >=? zlen text + cols) eqn:E; zb; [destruct lp|]; dsimp; hsimp; sf.
  - (* blink *)
    clear Hs Hv. unfold dbody_blink. dsimp. destruct show; cbn [negb]; hsimp; dsimp.
    + destruct lp; cbn [negb]; dsimp; hsimp; sf.
    + sf.
  - (* typewriter *)
    specialize (Hv eq_refl). subst dvis. clear Hs. unfold dbody_typewriter. dsimp.
    destruct (zlen text =? 0) eqn:E0; zb.
    { replace (zlen text <=? 0) with true by (symmetry; apply Z.leb_le; lia). dsimp. sf. }
    replace (zlen text <=? 0) with false by (symmetry; apply Z.leb_gt; lia).
    destruct (vis <? zlen text) eqn:E1; zb; hsimp; dsimp.
    + replace (vis + 1 >? zlen text) with false by (symmetry; rewrite Z.gtb_ltb; apply Z.ltb_ge; lia).
      dsimp. destruct ((vis + 1 >=? zlen text) && negb lp); dsimp; hsimp; sf.
    + destruct lp; cbn [negb]; dsimp; hsimp; sf.
  - (* bounce *)
    clear Hs Hv. unfold dbody_bounce. dsimp.
    destruct text as [|t0 text'] eqn:Et.
    { change (zlen (@nil Z)) with 0. change (0 <=? 0) with true. dsimp. sf. }
    rewrite <- Et in *.
    assert (0 < zlen text) by (rewrite Et, zlen_cons; pose proof (zlen_nonneg text'); lia).
    clear Et.
    replace (zlen text <=? 0) with false by (symmetry; apply Z.leb_gt; lia).
    destruct (zlen text >=? cols) eqn:E1; zb; dsimp; [sf|].
    replace (Z.max 0 (cols - zlen text)) with (cols - zlen text) by lia.
    replace (cols - zlen text =? 0) with false by (symmetry; apply Z.eqb_neq; lia).
    replace (cols - zlen text <=? 0) with false by (symmetry; apply Z.leb_gt; lia).
    hsimp; dsimp.
    destruct (off + dir >=? cols - zlen text) eqn:E2; hsimp; dsimp; [sf|].
    destruct (off + dir <=? 0) eqn:E3; hsimp; dsimp; [|sf].
    destruct show; hsimp; dsimp; [|sf].
    destruct (negb lp && (cyc + 1 >=? 1)); hsimp; dsimp; sf.
Qed.

Lemma tick_agree sty cols now h d : 1 <= cols -> 0 <= now -> h_style h = sty -> sim cols h d ->
  hgate h now = dgate d now /\ sim cols (hstep cols now h) (fst (dtick sty cols now d)).
Proof.
  intros Hc Hnow Hsty (Hf & Hi & Hl). pose proof (gate_agree h d now Hf Hl) as Hg. split; [exact Hg|].
  unfold hstep, dtick. rewrite <- Hg. destruct (hgate h now) eqn:G; [|exact (conj Hf (conj Hi Hl))].
  pose proof (hgate_active _ _ G) as Ha.
  destruct h as [sty' row text speed lp last off act dir vis show cyc].
  destruct d as [dtext drow dspeed dlp dlast doff ddir dvis dact dshow dcyc].
  unfold same_fields, scroll_inv in *. hsimp. dsimp.
  destruct Hf as (-> & -> & -> & -> & -> & -> & -> & -> & -> & -> & Hv). subst sty' dact.
  destruct (next_agree sty cols drow dtext dspeed dlp now doff ddir vis dvis dshow dcyc Hc Hv) as [A B].
  { intro E. destruct (Hi E) as [H1 H2]. split; [exact H1|exact (H2 eq_refl)]. }
  split; [exact A|]. split; [exact B|].
  match goal with |- 0 <= h_last (hnext cols ?s) =>
    rewrite (proj2 (proj2 (proj2 (proj2 (proj2 (hnext_keeps cols s)))))) end.
  cbn. exact Hnow.
Qed.

Lemma sim_start sty cols row text speed lp : 1 <= cols -> 0 <= speed -> (sty = Scroll -> cols <= zlen text) ->
  sim cols (hstart sty row text speed lp) (fst (dstart sty cols row text speed lp)).
Proof.
  intros Hc Hs Hl. pose proof (zlen_nonneg text) as Hn.
  assert (Hm : Z.max 0 speed = speed) by lia.
  unfold sim, same_fields, scroll_inv.
  destruct sty; cbn [hstart dstart fst]; unfold dinit; hsimp; dsimp; rewrite Hm.
  - split; [repeat split; try reflexivity; discriminate|]. split; [|lia].
    intros _. split; [exact (Hl eq_refl)|]. intros _. lia.
  - split; [repeat split; try reflexivity; discriminate|]. split; [discriminate|lia].
  - split; [|split; [discriminate|lia]].
    repeat split; try reflexivity.
    destruct (zlen text >? 0) eqn:E; rewrite Z.gtb_ltb in E; zb; lia.
  - split; [repeat split; try reflexivity; discriminate|]. split; [discriminate|lia].
Qed.

(* for every schedule with non-negative times: the same ticks are steps on both sides, and the final
   states agree on every shared field (in particular on [active]) *)
Lemma host_device_same_schedule sty cols rows h d nows stn tr :
  1 <= cols -> Forall (fun t => 0 <= t) nows -> h_style h = sty -> sim cols h d ->
  hsteps cols rows h nows stn tr ->
  map (fun x => snd (fst x)) tr = map (fun x => snd (fst x)) (snd (drun1 sty cols d nows)) /\
  sim cols stn (fst (drun1 sty cols d nows)).
Proof.
  intros Hc Ht Hsty Hsim Hs. revert d Ht Hsim. induction Hs as [st|st now buf st' buf' ev rest stn tr Hw E Hs IH];
    intros d Ht Hsim.
  - cbn. split; [reflexivity|exact Hsim].
  - apply Forall_cons_iff in Ht as [Hnow Hrest].
    apply htick1_state in E. subst st'.
    destruct (tick_agree sty cols now st d Hc Hnow Hsty Hsim) as [Hg Hsim'].
    rewrite drun1_cons. cbn [fst snd map].
    assert (Hsty' : h_style (hstep cols now st) = sty).
    { rewrite (proj1 (hstep_keeps cols now st)). exact Hsty. }
    destruct (IH Hsty' _ Hrest Hsim') as [A B]. split; [|exact B]. rewrite Hg, A. reflexivity.
Qed.

Lemma host_device_agree sty cols rows row text speed lp nows stn tr :
  1 <= cols -> 0 <= speed -> Forall (fun t => 0 <= t) nows -> (sty = Scroll -> cols <= zlen text) ->
  hsteps cols rows (hstart sty row text speed lp) nows stn tr ->
  let r := drun1 sty cols (fst (dstart sty cols row text speed lp)) nows in
  map (fun x => snd (fst x)) tr = map (fun x => snd (fst x)) (snd r) /\
  h_active stn = d_active (fst r) /\ h_offset stn = d_offset (fst r) /\ h_last stn = d_last (fst r).
Proof.
  intros Hc Hs Ht Hl H r.
  destruct (host_device_same_schedule sty cols rows _ _ nows stn tr Hc Ht
              (proj1 (hstart_fields sty row text speed lp)) (sim_start sty cols row text speed lp Hc Hs Hl) H)
    as [A ((_ & _ & _ & _ & L & O & Ac & _) & _)].
  repeat split; assumption.
Qed.

(* ... and a short scroll really differs: "A" on 3 columns ends after 4 host steps but 6 device steps *)
Lemma host_device_scroll_differs :
  hsteps_total Scroll 3 [65] = 4 /\ dsteps_total Scroll 3 [65] = 6.
Proof. vm_compute. split; reflexivity. Qed.
