(* C18, fourth proof file: the EXACT step schedule of an animation.

   The rate-limit theorems of LCDAnimP.v say that steps are never too close.  Here the whole
   schedule is pinned down: the step flags of a run are the list [due_flags] computes from the
   tick times alone (speed, loop flag, total number of steps) - no frame code involved.  Hence
     * a tick that is not early is never skipped while steps are left (one step per due pass),
     * the time recorded in last_step / last_tick is the time of the latest step itself, so that a
       LATE tick is not followed by a burst of catching-up steps,
     * a looping animation skips a tick only because it is early. *)
From Coq Require Import ZArith List Bool Lia.
From RV Require Import Host.LCDAnim Device.DLCDAnim Proofs.LCDAnimP.
Import ListNotations.
Open Scope Z_scope.

Lemma step_flags_cons {E} (now : Z) (b : bool) (ev : E) tr :
  step_flags ((now, b, ev) :: tr) = b :: step_flags tr.
Proof. reflexivity. Qed.

Lemma last_cons {A} (l : list A) : forall a d, last (a :: l) d = last l a.
Proof.
  induction l as [|b l IH]; intros a d; [reflexivity|].
  change (last (a :: b :: l) d) with (last (b :: l) d). rewrite (IH b d), (IH b a). reflexivity.
Qed.

Lemma last_step_time_cons {E} (d now : Z) (b : bool) (ev : E) tr :
  last_step_time d ((now, b, ev) :: tr) = last_step_time (if b then now else d) tr.
Proof.
  unfold last_step_time. rewrite step_times_cons. destruct b; [apply last_cons|reflexivity].
Qed.

Lemma active_budget (act : bool) (v : Z) : 0 <= v -> (act = true <-> 1 <= v) -> act = (0 <? v).
Proof.
  intros H0 H. destruct act.
  - symmetry. apply Z.ltb_lt. destruct H as [H _]. specialize (H eq_refl). lia.
  - symmetry. apply Z.ltb_ge. destruct (Z_lt_le_dec v 1) as [L|L]; [lia|].
    destruct H as [_ H]. specialize (H L). discriminate.
Qed.

(* ------------------------------------------------------------------------------------------ *)
(* device                                                                                     *)
(* ------------------------------------------------------------------------------------------ *)

Lemma drun1_flags_finite sty cols st nows : 1 <= cols -> dinv sty cols st ->
  step_flags (snd (drun1 sty cols st nows)) =
  due_flags (d_speed st) false (d_last st) (dvar sty cols st) nows.
Proof.
  intro Hc. revert st. induction nows as [|now rest IH]; intros st Hi; [reflexivity|].
  rewrite drun1_cons. cbn [snd]. rewrite step_flags_cons. cbn [due_flags]. cbv zeta.
  destruct (dvar_nonneg sty cols st Hi Hc) as [H0 H1].
  pose proof (active_budget _ _ H0 H1) as Ha.
  assert (Hg : (0 <? dvar sty cols st) &&
               negb ((0 <? d_speed st) && (0 <? d_last st) && (now - d_last st <? d_speed st)) = dgate st now).
  { unfold dgate. rewrite Ha. reflexivity. }
  rewrite Hg. destruct (dgate st now) eqn:G; cbn [andb negb]; f_equal.
  - destruct (dstep_var sty cols now st Hc Hi G) as [Hi' Hv].
    destruct (dtick_keeps sty cols now st) as (_ & _ & S & _).
    pose proof (dtick_last sty cols now st) as L. rewrite G in L.
    rewrite (IH _ Hi'), S, L, Hv. reflexivity.
  - rewrite (dtick_skip _ _ _ _ G). cbn [fst]. apply IH. exact Hi.
Qed.

Lemma drun1_flags_endless sty cols st nows budget : 0 < budget ->
  d_loop st = true -> d_active st = true ->
  step_flags (snd (drun1 sty cols st nows)) = due_flags (d_speed st) true (d_last st) budget nows.
Proof.
  intro Hb. revert st. induction nows as [|now rest IH]; intros st Hl Ha; [reflexivity|].
  rewrite drun1_cons. cbn [snd]. rewrite step_flags_cons. cbn [due_flags]. cbv zeta.
  replace (0 <? budget) with true by (symmetry; apply Z.ltb_lt; exact Hb).
  assert (Hg : true && negb ((0 <? d_speed st) && (0 <? d_last st) && (now - d_last st <? d_speed st)) = dgate st now).
  { unfold dgate. rewrite Ha. reflexivity. }
  rewrite Hg. cbn [negb]. rewrite andb_false_r.
  destruct (dtick_keeps sty cols now st) as (_ & _ & S & Lp).
  pose proof (dtick_last sty cols now st) as L.
  pose proof (dtick_loop_active sty cols now st Hl Ha) as Ha'.
  f_equal. rewrite (IH (fst (dtick sty cols now st))); [|rewrite Lp; exact Hl|exact Ha'].
  rewrite S, L. reflexivity.
Qed.

Lemma dsteps_total_pos sty cols text : 1 <= cols -> 0 < dsteps_total sty cols text.
Proof.
  intro Hc. pose proof (zlen_nonneg text). unfold dsteps_total.
  destruct sty; repeat break_if; zb; lia.
Qed.

(* C18_step_schedule_device *)
Lemma step_schedule_device sty cols row text speed lp nows : 1 <= cols ->
  step_flags (snd (drun1 sty cols (fst (dstart sty cols row text speed lp)) nows)) =
  due_flags speed lp 0 (dsteps_total sty cols text) nows.
Proof.
  intro Hc. destruct lp.
  - destruct (dstart_fields sty cols row text speed true) as (_ & S & Lp & L & A & _).
    rewrite (drun1_flags_endless sty cols _ nows (dsteps_total sty cols text)
               (dsteps_total_pos sty cols text Hc) Lp A), S, L. reflexivity.
  - destruct (dinv_start sty cols row text speed Hc) as [Hi Hv].
    destruct (dstart_fields sty cols row text speed false) as (_ & S & _ & L & _).
    rewrite (drun1_flags_finite sty cols _ nows Hc Hi), S, L, Hv. reflexivity.
Qed.

Lemma step_schedule_device_emit W sty cols row text speed lp nows : 1 <= cols ->
  step_flags (snd (drun1 sty cols (fst (dstart_emit W sty cols row text speed lp)) nows)) =
  due_flags (ulong_cast W speed) lp 0 (dsteps_total sty cols text) nows.
Proof. intro Hc. unfold dstart_emit. apply step_schedule_device. exact Hc. Qed.

(* the stored last_step is the time of the latest step (from a state whose last_step is [d]) *)
Lemma drun1_last sty cols st nows :
  d_last (fst (drun1 sty cols st nows)) = last_step_time (d_last st) (snd (drun1 sty cols st nows)).
Proof.
  revert st. induction nows as [|now rest IH]; intro st; [reflexivity|].
  rewrite drun1_cons. cbn [fst snd]. rewrite last_step_time_cons, IH, dtick_last. reflexivity.
Qed.

Lemma last_step_recorded_device sty cols row text speed lp nows :
  let r := drun1 sty cols (fst (dstart sty cols row text speed lp)) nows in
  d_last (fst r) = last_step_time 0 (snd r).
Proof.
  cbv zeta. rewrite drun1_last.
  destruct (dstart_fields sty cols row text speed lp) as (_ & _ & _ & L & _). rewrite L. reflexivity.
Qed.

Lemma drun1_no_step_lost sty cols st nows : d_loop st = true -> d_active st = true ->
  no_step_lost (d_speed st) (d_last st) (snd (drun1 sty cols st nows)).
Proof.
  revert st. induction nows as [|now rest IH]; intros st Hl Ha; [exact I|].
  rewrite drun1_cons. cbn [snd no_step_lost]. split.
  - intro G. unfold dgate in G. rewrite Ha in G. cbn [andb] in G. apply negb_false_iff in G.
    zb. repeat split; assumption.
  - destruct (dtick_keeps sty cols now st) as (_ & _ & S & Lp).
    pose proof (dtick_last sty cols now st) as L.
    pose proof (IH (fst (dtick sty cols now st))) as G. rewrite S, L, Lp in G.
    apply G; [exact Hl|]. apply dtick_loop_active; assumption.
Qed.

Lemma no_step_lost_device sty cols row text speed nows :
  no_step_lost speed 0 (snd (drun1 sty cols (fst (dstart sty cols row text speed true)) nows)).
Proof.
  destruct (dstart_fields sty cols row text speed true) as (_ & S & Lp & L & A & _).
  pose proof (drun1_no_step_lost sty cols _ nows Lp A) as G. rewrite S, L in G. exact G.
Qed.

(* ------------------------------------------------------------------------------------------ *)
(* host                                                                                       *)
(* ------------------------------------------------------------------------------------------ *)

(* the host tests last_tick for truth (non-zero), the device last_step > 0: the same for the
   non-negative times a clock produces *)
Lemma hgate_due st now (a : bool) : 0 <= h_last st -> h_active st = a ->
  hgate st now = a && negb ((0 <? h_speed st) && (0 <? h_last st) && (now - h_last st <? h_speed st)).
Proof.
  intros H0 Ha. unfold hgate. rewrite Ha. destruct a; cbn [andb]; [|reflexivity].
  destruct (h_speed st <=? 0) eqn:E1; destruct (0 <? h_speed st) eqn:E2; zb; lia.
Qed.

Lemma hstep_last_nonneg cols now st : 0 <= now -> 0 <= h_last st -> 0 <= h_last (hstep cols now st).
Proof. intros. rewrite hstep_last. destruct (hgate st now); assumption. Qed.

Lemma hsteps_flags_finite cols rows st nows stn tr : 1 <= cols -> hinv cols st -> 0 <= h_last st ->
  Forall (fun t => 0 <= t) nows -> hsteps cols rows st nows stn tr ->
  step_flags tr = due_flags (h_speed st) false (h_last st) (hvar cols st) nows.
Proof.
  intros Hc Hi H0 Ht H. induction H as [st|st now buf st' buf' ev rest stn tr Hw E Hs IH]; [reflexivity|].
  apply Forall_cons_iff in Ht as [Hnow Hrest]. apply htick1_state in E. subst st'.
  rewrite step_flags_cons. cbn [due_flags]. cbv zeta.
  destruct (hvar_nonneg cols st Hi Hc) as [Hv0 Hv1].
  pose proof (active_budget _ _ Hv0 Hv1) as Ha.
  rewrite <- (hgate_due st now _ H0 Ha).
  destruct (hstep_keeps cols now st) as (_ & _ & _ & S & _).
  pose proof (hstep_last cols now st) as L.
  pose proof (hstep_last_nonneg cols now st Hnow H0) as H0'.
  destruct (hgate st now) eqn:G; cbn [andb negb]; f_equal.
  - destruct (hstep_var cols now st Hc Hi G) as [Hi' Hv].
    rewrite (IH Hi' H0' Hrest), S, L, Hv. reflexivity.
  - assert (Es : hstep cols now st = st) by (unfold hstep; rewrite G; reflexivity).
    rewrite Es in *. apply IH; assumption.
Qed.

Lemma hsteps_flags_endless cols rows st nows stn tr budget : 0 < budget ->
  h_loop st = true -> h_active st = true -> 0 <= h_last st ->
  Forall (fun t => 0 <= t) nows -> hsteps cols rows st nows stn tr ->
  step_flags tr = due_flags (h_speed st) true (h_last st) budget nows.
Proof.
  intros Hb Hl Ha H0 Ht H. induction H as [st|st now buf st' buf' ev rest stn tr Hw E Hs IH]; [reflexivity|].
  apply Forall_cons_iff in Ht as [Hnow Hrest]. apply htick1_state in E. subst st'.
  rewrite step_flags_cons. cbn [due_flags]. cbv zeta.
  replace (0 <? budget) with true by (symmetry; apply Z.ltb_lt; exact Hb).
  rewrite <- (hgate_due st now _ H0 Ha). cbn [negb]. rewrite andb_false_r.
  destruct (hstep_keeps cols now st) as (_ & _ & _ & S & Lp).
  pose proof (hstep_last cols now st) as L.
  pose proof (hstep_last_nonneg cols now st Hnow H0) as H0'.
  pose proof (hstep_loop_active cols now st Hl Ha) as Ha'.
  f_equal. rewrite IH; [|rewrite Lp; exact Hl|exact Ha'|exact H0'|exact Hrest].
  rewrite S, L. reflexivity.
Qed.

Lemma hsteps_total_pos sty cols text : 1 <= cols -> 0 < hsteps_total sty cols text.
Proof.
  intro Hc. pose proof (zlen_nonneg text). unfold hsteps_total.
  destruct sty; repeat break_if; zb; lia.
Qed.

(* C18_step_schedule_host *)
Lemma step_schedule_host cols rows sty row text speed lp nows stn tr : 1 <= cols ->
  Forall (fun t => 0 <= t) nows ->
  hsteps cols rows (hstart sty row text speed lp) nows stn tr ->
  step_flags tr = due_flags (Z.max 0 speed) lp 0 (hsteps_total sty cols text) nows.
Proof.
  intros Hc Ht H.
  destruct (hstart_fields sty row text speed lp) as (_ & _ & _ & S & Lp & L & A).
  destruct lp.
  - rewrite (hsteps_flags_endless cols rows _ nows stn tr (hsteps_total sty cols text)
               (hsteps_total_pos sty cols text Hc) Lp A ltac:(rewrite L; lia) Ht H), S, L. reflexivity.
  - destruct (hinv_start cols sty row text speed Hc) as [Hi Hv].
    rewrite (hsteps_flags_finite cols rows _ nows stn tr Hc Hi ltac:(rewrite L; lia) Ht H), S, L, Hv.
    reflexivity.
Qed.

Lemma hsteps_last cols rows st nows stn tr : hsteps cols rows st nows stn tr ->
  h_last stn = last_step_time (h_last st) tr.
Proof.
  intro H. induction H as [st|st now buf st' buf' ev rest stn tr Hw E Hs IH]; [reflexivity|].
  apply htick1_state in E. subst st'. rewrite last_step_time_cons, IH, hstep_last. reflexivity.
Qed.

Lemma last_step_recorded_host cols rows sty row text speed lp nows stn tr :
  hsteps cols rows (hstart sty row text speed lp) nows stn tr -> h_last stn = last_step_time 0 tr.
Proof.
  intro H. rewrite (hsteps_last _ _ _ _ _ _ H).
  destruct (hstart_fields sty row text speed lp) as (_ & _ & _ & _ & _ & L & _). rewrite L. reflexivity.
Qed.

Lemma hsteps_no_step_lost cols rows st nows stn tr : h_loop st = true -> h_active st = true ->
  0 <= h_last st -> Forall (fun t => 0 <= t) nows -> hsteps cols rows st nows stn tr ->
  no_step_lost (h_speed st) (h_last st) tr.
Proof.
  intros Hl Ha H0 Ht H. induction H as [st|st now buf st' buf' ev rest stn tr Hw E Hs IH]; [exact I|].
  apply Forall_cons_iff in Ht as [Hnow Hrest]. apply htick1_state in E. subst st'.
  cbn [no_step_lost]. split.
  - intro G. rewrite (hgate_due st now _ H0 Ha) in G. cbn [andb] in G. apply negb_false_iff in G.
    zb. repeat split; assumption.
  - destruct (hstep_keeps cols now st) as (_ & _ & _ & S & Lp).
    pose proof (hstep_last cols now st) as L. rewrite S, L, Lp in IH.
    apply IH; [exact Hl|apply hstep_loop_active; assumption| |exact Hrest].
    destruct (hgate st now); assumption.
Qed.

Lemma no_step_lost_host cols rows sty row text speed nows stn tr :
  Forall (fun t => 0 <= t) nows ->
  hsteps cols rows (hstart sty row text speed true) nows stn tr ->
  no_step_lost (Z.max 0 speed) 0 tr.
Proof.
  intros Ht H. destruct (hstart_fields sty row text speed true) as (_ & _ & _ & S & Lp & L & A).
  pose proof (hsteps_no_step_lost _ _ _ _ _ _ Lp A ltac:(rewrite L; lia) Ht H) as G.
  rewrite S, L in G. exact G.
Qed.

(* ------------------------------------------------------------------------------------------ *)
(* non-vacuity: a schedule with early ticks, one very late pass and quick passes after it      *)
(* ------------------------------------------------------------------------------------------ *)

Definition burst_ticks : list Z :=
  [50; 60; 149; 150; 151; 250; 900; 905; 910; 915; 920; 999; 1000; 1001; 1099; 1100; 1500; 1501; 1550; 1600].

Lemma ex_burst_ticks_ok : tick_times_ok burst_ticks.
Proof. unfold tick_times_ok, burst_ticks. cbn. repeat split; lia. Qed.

(* device, looping scroll "Hey" on 8 columns, speed 100: after the late pass at 900 the quick
   passes at 905 ... 999 are all skipped; the next step is at 1000 *)
Lemma ex_device_burst :
  let r := drun1 Scroll 8 (fst (dstart Scroll 8 0 [72; 101; 121] 100 true)) burst_ticks in
  step_times (snd r) = [50; 150; 250; 900; 1000; 1100; 1500; 1600] /\ d_last (fst r) = 1600 /\
  due_flags 100 true 0 1 burst_ticks = step_flags (snd r).
Proof. vm_compute. repeat split; reflexivity. Qed.

Lemma ex_host_burst :
  exists stn tr, hsteps 8 2 (hstart Bounce 1 [72; 101; 121] 100 true) burst_ticks stn tr /\
                 step_times tr = [50; 150; 250; 900; 1000; 1100; 1500; 1600] /\ h_last stn = 1600.
Proof.
  destruct (hrun1 8 2 (hstart Bounce 1 [72; 101; 121] 100 true) (repeat (spaces 8) 2) burst_ticks)
    as [[[stn bufn] tr]|] eqn:E; [|vm_compute in E; discriminate].
  exists stn, tr. split.
  - eapply hrun1_hsteps; [| |  |exact E].
    + lia.
    + split; [reflexivity|]. intros r [<-|[<-|[]]]; reflexivity.
    + cbn. lia.
  - vm_compute in E. injection E as <- _ <-. split; vm_compute; reflexivity.
Qed.

(* the schedule separates the limiter that exists from the "steady cadence" alternative that moves
   last_step by speed_ms instead of setting it to the time of the step: that one would step at 900 and
   again at 905.  (Not part of any model: a witness that [rate_limited] on [burst_ticks] is a real
   constraint, which an on-time or early-only schedule is not.) *)
Fixpoint cadence_times (speed last : Z) (nows : list Z) : list Z :=
  match nows with
  | [] => []
  | now :: rest =>
      if negb ((0 <? speed) && (0 <? last) && (now - last <? speed))
      then now :: cadence_times speed (if 0 <? last then last + speed else now) rest
      else cadence_times speed last rest
  end.

Lemma ex_cadence_not_rate_limited : ~ rate_limited 100 (cadence_times 100 0 burst_ticks).
Proof.
  intro H. set (l := cadence_times 100 0 burst_ticks) in H. vm_compute in l. subst l.
  specialize (H [50; 150; 250] 900 _ 905 eq_refl (or_introl eq_refl) ltac:(lia)). lia.
Qed.

Lemma ex_cadence_same_without_late_pass :
  cadence_times 100 0 [50; 60; 149; 150; 151; 250; 300; 350; 351; 450] =
  step_times (snd (drun1 Scroll 8 (fst (dstart Scroll 8 0 [72; 101; 121] 100 true)) [50; 60; 149; 150; 151; 250; 300; 350; 351; 450])).
Proof. vm_compute. reflexivity. Qed.
