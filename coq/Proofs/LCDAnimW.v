(* Proofs about the W-bit clock arithmetic of the device tick helpers (Device/DLCDAnimW.v):
   - below the roll-over the W-bit model IS the Z model of Device/DLCDAnim.v (so every theorem of Props/C18.v about
     [drun1] is a theorem about the emitted unsigned-long code for every width W and every clock value below 2^W -
     in particular for step times within speed_ms of the largest unsigned long);
   - across the roll-over the W-bit model simulates the Z model run on the true times, under the guard
     "passes shorter than 2^W - speed_ms and millis() never reads 0 at a tick"; the guard's second clause is necessary;
   - the deadline form of the limiter (now < last_step + speed_ms in W bits) is refuted below the roll-over. *)
From Coq Require Import ZArith List Bool Lia.
From RV Require Import Host.LCDAnim Device.DLCDAnim Device.DLCDAnimW Proofs.LCDAnimP Proofs.LCDAnimP2 Proofs.LCDAnimP4.
Import ListNotations.
Open Scope Z_scope.

Lemma pow_pos W : 0 <= W -> 0 < 2 ^ W.
Proof. intro H. apply Z.pow_pos_nonneg; lia. Qed.

Lemma uwrap_small W x : 0 <= x < 2 ^ W -> uwrap W x = x.
Proof. intro H. unfold uwrap. apply Z.mod_small. exact H. Qed.

Lemma uwrap_range W x : 0 <= W -> 0 <= uwrap W x < 2 ^ W.
Proof. intro H. unfold uwrap. apply Z.mod_pos_bound. apply pow_pos. exact H. Qed.

(* unsigned subtraction of two registers = the register of the true difference *)
Lemma uwrap_sub W a b : 0 <= W -> uwrap W (uwrap W a - uwrap W b) = uwrap W (a - b).
Proof. intro H. unfold uwrap. pose proof (pow_pos W H). rewrite <- Zminus_mod. reflexivity. Qed.

(* ------------------------------------------------------------------------------------------ *)
(* below the roll-over                                                                        *)
(* ------------------------------------------------------------------------------------------ *)

Lemma dgateW_below W st now : 0 <= d_last st <= now -> now < 2 ^ W ->
  dgateW W st now = dgate st now.
Proof.
  intros H1 H2. unfold dgateW, dgate. rewrite uwrap_small by lia. reflexivity.
Qed.

Lemma dtickW_below W sty cols t st : 0 <= d_last st <= t -> t < 2 ^ W ->
  dtickW W sty cols t st = dtick sty cols t st.
Proof.
  intros H1 H2. unfold dtickW, dtick. rewrite (uwrap_small W t) by lia.
  rewrite dgateW_below by assumption. reflexivity.
Qed.

Lemma drun1W_cons W sty cols st t rest :
  drun1W W sty cols st (t :: rest) =
  (fst (drun1W W sty cols (fst (dtickW W sty cols t st)) rest),
   (t, dgateW W st (uwrap W t), snd (dtickW W sty cols t st)) :: snd (drun1W W sty cols (fst (dtickW W sty cols t st)) rest)).
Proof.
  cbn [drun1W]. destruct (dtickW W sty cols t st) as [st' ev]. cbn [fst snd].
  destruct (drun1W W sty cols st' rest) as [st'' tr]. reflexivity.
Qed.

Lemma dtick_last_range sty cols now st : 0 <= d_last st <= now -> 0 <= d_last (fst (dtick sty cols now st)) <= now.
Proof. intro H. rewrite dtick_last. destruct (dgate st now); lia. Qed.

Lemma drun1W_below W sty cols ts : forall st prev,
  nondecr prev ts -> below_width W ts -> 0 <= d_last st <= prev ->
  drun1W W sty cols st ts = drun1 sty cols st ts.
Proof.
  induction ts as [|t rest IH]; intros st prev Hn Hb Hl; [reflexivity|].
  cbn [nondecr] in Hn. destruct Hn as [Hle Hr]. inversion Hb as [|? ? Ht Hb']; subst.
  rewrite drun1W_cons, drun1_cons.
  rewrite dtickW_below by lia. rewrite (uwrap_small W t) by lia. rewrite dgateW_below by lia.
  rewrite (IH (fst (dtick sty cols t st)) t Hr Hb' (dtick_last_range sty cols t st ltac:(lia))).
  reflexivity.
Qed.

(* the statement used by Props/C18.v: from the emitted start call, any history below the roll-over *)
Lemma width_model_agrees_device W sty cols row text speed lp ts :
  tick_times_ok ts -> below_width W ts ->
  drun1W W sty cols (fst (dstart_emit W sty cols row text speed lp)) ts =
  drun1 sty cols (fst (dstart_emit W sty cols row text speed lp)) ts.
Proof.
  intros Ht Hb. apply (drun1W_below W sty cols ts _ 1 Ht Hb).
  unfold dstart_emit. destruct (dstart_fields sty cols row text (ulong_cast W speed) lp) as (_ & _ & _ & L & _).
  rewrite L. lia.
Qed.

Lemma rate_limit_device_width W sty cols row text speed lp ts :
  0 <= W -> speed < 2 ^ W -> tick_times_ok ts -> below_width W ts ->
  rate_limited speed (step_times (snd (drun1W W sty cols (fst (dstart_emit W sty cols row text speed lp)) ts))).
Proof.
  intros HW Hs Ht Hb. rewrite width_model_agrees_device by assumption.
  apply rate_limit_device_emit; assumption.
Qed.

Lemma step_schedule_device_width W sty cols row text speed lp ts :
  1 <= cols -> tick_times_ok ts -> below_width W ts ->
  step_flags (snd (drun1W W sty cols (fst (dstart_emit W sty cols row text speed lp)) ts)) =
  due_flags (ulong_cast W speed) lp 0 (dsteps_total sty cols text) ts.
Proof.
  intros Hc Ht Hb. rewrite width_model_agrees_device by assumption.
  apply step_schedule_device_emit. exact Hc.
Qed.

(* several animations of one display *)
Lemma dtick_allW_below W cols t anims :
  Forall (fun a => 0 <= d_last (snd a) <= t) anims -> t < 2 ^ W ->
  dtick_allW W cols t anims = dtick_all cols t anims.
Proof.
  intros H Ht. induction H as [|[sty st] rest Ha Hr IH]; [reflexivity|].
  cbn [dtick_allW dtick_all]. cbn [snd] in Ha. rewrite dtickW_below by assumption. rewrite IH. reflexivity.
Qed.

Lemma dtick_all_last_range cols t anims :
  Forall (fun a => 0 <= d_last (snd a) <= t) anims ->
  Forall (fun a => 0 <= d_last (snd a) <= t) (fst (dtick_all cols t anims)).
Proof.
  intro H. induction H as [|[sty st] rest Ha Hr IH]; [constructor|].
  cbn [dtick_all]. cbn [snd] in Ha.
  pose proof (dtick_last_range sty cols t st Ha) as R.
  destruct (dtick sty cols t st) as [st' ev]. destruct (dtick_all cols t rest) as [rest' ev'].
  cbn [fst snd] in *. constructor; assumption.
Qed.

Lemma drun_allW_below W cols ts : forall anims prev,
  nondecr prev ts -> below_width W ts -> Forall (fun a => 0 <= d_last (snd a) <= prev) anims ->
  drun_allW W cols anims ts = drun_all cols anims ts.
Proof.
  induction ts as [|t rest IH]; intros anims prev Hn Hb Hl; [reflexivity|].
  cbn [nondecr] in Hn. destruct Hn as [Hle Hr]. inversion Hb as [|? ? Ht Hb']; subst.
  assert (Hl' : Forall (fun a => 0 <= d_last (snd a) <= t) anims).
  { eapply Forall_impl; [|exact Hl]. cbn. intros a Ha. lia. }
  cbn [drun_allW drun_all]. rewrite dtick_allW_below by assumption.
  pose proof (dtick_all_last_range cols t anims Hl') as R.
  destruct (dtick_all cols t anims) as [anims' ev]. cbn [fst] in R.
  rewrite (IH anims' t Hr Hb' R). reflexivity.
Qed.

Lemma dstart_all_last cols calls : Forall (fun a => d_last (snd a) = 0) (fst (dstart_all cols calls)).
Proof.
  induction calls as [|[[[[sty row] text] speed] lp] rest IH]; [constructor|].
  cbn [dstart_all].
  destruct (dstart_fields sty cols row text speed lp) as (_ & _ & _ & L & _).
  destruct (dstart sty cols row text speed lp) as [st ev]. destruct (dstart_all cols rest) as [sts evs].
  cbn [fst snd] in *. constructor; [exact L|exact IH].
Qed.

Lemma width_model_agrees_display W cols calls ts :
  tick_times_ok ts -> below_width W ts ->
  drun_allW W cols (fst (dstart_all cols calls)) ts = drun_all cols (fst (dstart_all cols calls)) ts.
Proof.
  intros Ht Hb. apply (drun_allW_below W cols ts _ 1 Ht Hb).
  eapply Forall_impl; [|apply dstart_all_last]. cbn. intros a Ha. rewrite Ha. lia.
Qed.

(* ------------------------------------------------------------------------------------------ *)
(* across the roll-over: the W-bit state simulates the Z state that stores TRUE step times     *)
(* ------------------------------------------------------------------------------------------ *)

(* same state except that the register holds the true time of the latest step modulo 2^W *)
Definition wrel (W : Z) (sw sz : dstate) : Prop :=
  sw = dset_last sz (uwrap W (d_last sz)).

Lemma dbody_last_indep sty cols st v :
  dbody sty cols (dset_last st v) = (dset_last (fst (dbody sty cols st)) v, snd (dbody sty cols st)).
Proof.
  destruct st as [text row speed lp last off dir vis act show cyc].
  destruct sty; unfold dbody, dbody_scroll, dbody_blink, dbody_typewriter, dbody_bounce; dsimp;
    repeat break_if; dsimp; try reflexivity; congruence.
Qed.

Lemma dset_last_last st a b : dset_last (dset_last st a) b = dset_last st b.
Proof. destruct st; reflexivity. Qed.

Lemma dset_last_fields st v :
  d_active (dset_last st v) = d_active st /\ d_speed (dset_last st v) = d_speed st /\ d_last (dset_last st v) = v.
Proof. destruct st; repeat split; reflexivity. Qed.

(* the gate of the W-bit state at the register value = the gate of the true-time state at the true time *)
Lemma dgateW_sim W sw sz t : 0 <= W -> wrel W sw sz ->
  0 <= d_last sz <= t -> t - d_last sz < 2 ^ W -> (0 < d_last sz -> uwrap W (d_last sz) <> 0) ->
  dgateW W sw (uwrap W t) = dgate sz t.
Proof.
  intros HW R Hl Hd Hz. unfold wrel in R. subst sw. unfold dgateW, dgate.
  destruct (dset_last_fields sz (uwrap W (d_last sz))) as (A & S & L). rewrite A, S, L.
  rewrite uwrap_sub by assumption. rewrite (uwrap_small W (t - d_last sz)) by lia.
  replace (0 <? uwrap W (d_last sz)) with (0 <? d_last sz); [reflexivity|].
  destruct (Z_lt_le_dec 0 (d_last sz)) as [Hp|Hp].
  - pose proof (uwrap_range W (d_last sz) HW). specialize (Hz Hp).
    transitivity true; [apply Z.ltb_lt; lia|symmetry; apply Z.ltb_lt; lia].
  - assert (d_last sz = 0) as -> by lia. unfold uwrap. rewrite Z.mod_0_l by (pose proof (pow_pos W HW); lia). reflexivity.
Qed.

Lemma dtickW_sim W sty cols sw sz t : 0 <= W -> wrel W sw sz ->
  0 <= d_last sz <= t -> t - d_last sz < 2 ^ W -> (0 < d_last sz -> uwrap W (d_last sz) <> 0) ->
  wrel W (fst (dtickW W sty cols t sw)) (fst (dtick sty cols t sz)) /\
  snd (dtickW W sty cols t sw) = snd (dtick sty cols t sz).
Proof.
  intros HW R Hl Hd Hz. unfold dtickW, dtick. rewrite (dgateW_sim W sw sz t) by assumption.
  destruct (dgate sz t); [|split; [exact R|reflexivity]].
  unfold wrel in R. subst sw. rewrite dset_last_last.
  rewrite (dbody_last_indep sty cols sz (uwrap W t)), (dbody_last_indep sty cols sz t). cbn [fst snd].
  split; [|reflexivity]. unfold wrel.
  rewrite dset_last_last. destruct (dset_last_fields (fst (dbody sty cols sz)) t) as (_ & _ & L). rewrite L. reflexivity.
Qed.

(* invariant of the true-time run that keeps [t - last] below a full turn: after a tick at [p], either the
   animation is over, or the period is 0 / the clock was not running (then the tick at p was a step), or p is
   closer than speed_ms to the latest step *)
Definition near (sz : dstate) (p : Z) : Prop :=
  d_active sz = false \/ p - d_last sz < Z.max 1 (d_speed sz).

Lemma dtick_near sty cols t sz : 0 <= d_last sz <= t -> near (fst (dtick sty cols t sz)) t.
Proof.
  intro Hl. unfold near. rewrite dtick_last.
  destruct (dtick_keeps sty cols t sz) as (_ & _ & S & _). rewrite S.
  destruct (dgate sz t) eqn:G; [right; lia|].
  unfold dtick. rewrite G. cbn [fst].
  unfold dgate in G. destruct (d_active sz); [|left; reflexivity]. right.
  cbn [andb] in G. apply negb_false_iff in G. zb. lia.
Qed.

Lemma dtick_inactive sty cols t sz : d_active sz = false -> dtick sty cols t sz = (sz, []).
Proof. intro H. unfold dtick, dgate. rewrite H. reflexivity. Qed.

Lemma dtickW_inactive W sty cols t sw : d_active sw = false -> dtickW W sty cols t sw = (sw, []).
Proof. intro H. unfold dtickW, dgateW. rewrite H. reflexivity. Qed.

Lemma drun1_inactive sty cols ts : forall sz, d_active sz = false ->
  fst (drun1 sty cols sz ts) = sz /\ snd (drun1 sty cols sz ts) = map (fun t => (t, false, [])) ts.
Proof.
  induction ts as [|t rest IH]; intros sz H; [split; reflexivity|].
  rewrite drun1_cons, dtick_inactive by assumption. cbn [fst snd].
  destruct (IH sz H) as [A B]. rewrite A, B. unfold dgate. rewrite H. split; reflexivity.
Qed.

Lemma drun1W_inactive W sty cols ts : forall sw, d_active sw = false ->
  fst (drun1W W sty cols sw ts) = sw /\ snd (drun1W W sty cols sw ts) = map (fun t => (t, false, [])) ts.
Proof.
  induction ts as [|t rest IH]; intros sw H; [split; reflexivity|].
  rewrite drun1W_cons, dtickW_inactive by assumption. cbn [fst snd].
  destruct (IH sw H) as [A B]. rewrite A, B. unfold dgateW. rewrite H. split; reflexivity.
Qed.

Lemma drun1W_sim W sty cols ts : forall sw sz prev, 0 <= W -> wrel W sw sz ->
  0 <= d_last sz <= prev -> near sz prev -> 0 <= d_speed sz < 2 ^ W ->
  (0 < d_last sz -> uwrap W (d_last sz) <> 0) ->
  nondecr prev ts -> gaps_below (2 ^ W - d_speed sz) prev ts -> never_reads_zero W ts ->
  wrel W (fst (drun1W W sty cols sw ts)) (fst (drun1 sty cols sz ts)) /\
  snd (drun1W W sty cols sw ts) = snd (drun1 sty cols sz ts).
Proof.
  induction ts as [|t rest IH]; intros sw sz prev HW R Hl Hn Hs Hz Hnd Hg Hnz; [split; [exact R|reflexivity]|].
  destruct (d_active sz) eqn:Act.
  2:{ assert (d_active sw = false) as Actw.
      { unfold wrel in R. subst sw. destruct (dset_last_fields sz (uwrap W (d_last sz))) as (A & _). rewrite A. exact Act. }
      destruct (drun1_inactive sty cols (t :: rest) sz Act) as [A B].
      destruct (drun1W_inactive W sty cols (t :: rest) sw Actw) as [A' B'].
      rewrite A, B, A', B'. split; [exact R|reflexivity]. }
  cbn [nondecr] in Hnd. destruct Hnd as [Hle Hr]. cbn [gaps_below] in Hg. destruct Hg as [Hgap Hg'].
  inversion Hnz as [|? ? Hz0 Hnz']; subst.
  assert (Hd : t - d_last sz < 2 ^ W).
  { destruct Hn as [Hn|Hn]; [congruence|]. lia. }
  destruct (dtickW_sim W sty cols sw sz t HW R ltac:(lia) Hd Hz) as [R' E'].
  rewrite drun1W_cons, drun1_cons. cbn [fst snd].
  rewrite (dgateW_sim W sw sz t HW R ltac:(lia) Hd Hz). rewrite E'.
  destruct (dtick_keeps sty cols t sz) as (_ & _ & S & _).
  assert (Hz' : 0 < d_last (fst (dtick sty cols t sz)) -> uwrap W (d_last (fst (dtick sty cols t sz))) <> 0).
  { rewrite dtick_last. destruct (dgate sz t); [intros _; exact Hz0|exact Hz]. }
  destruct (IH _ _ t HW R' (dtick_last_range sty cols t sz ltac:(lia)) (dtick_near sty cols t sz ltac:(lia))
               ltac:(rewrite S; exact Hs) Hz' Hr ltac:(rewrite S; exact Hg') Hnz') as [RR EE].
  rewrite EE. split; [exact RR|reflexivity].
Qed.

(* the statement used by Props/C18.v: the whole trace (step flags and cell writes of every tick) of the W-bit
   code over TRUE tick times of any size is the trace of the Z model, provided consecutive ticks are less than
   2^W - speed_ms apart and millis() never reads exactly 0 at a tick *)
Lemma rollover_trace_device W sty cols row text speed lp ts :
  0 <= W -> tick_times_ok ts -> gaps_below (2 ^ W - ulong_cast W speed) 0 ts -> never_reads_zero W ts ->
  snd (drun1W W sty cols (fst (dstart_emit W sty cols row text speed lp)) ts) =
  snd (drun1 sty cols (fst (dstart_emit W sty cols row text speed lp)) ts).
Proof.
  intros HW Ht Hg Hz. unfold dstart_emit.
  destruct (dstart_fields sty cols row text (ulong_cast W speed) lp) as (_ & S & _ & L & _).
  set (s0 := fst (dstart sty cols row text (ulong_cast W speed) lp)) in *.
  assert (R : wrel W s0 s0).
  { unfold wrel. rewrite L. unfold uwrap. rewrite Z.mod_0_l by (pose proof (pow_pos W HW); lia).
    rewrite <- L. destruct s0; reflexivity. }
  pose proof (uwrap_range W speed HW) as Hsp. fold (ulong_cast W speed) in Hsp.
  apply (drun1W_sim W sty cols ts s0 s0 0 HW R).
  - rewrite L. lia.
  - right. rewrite L, S. lia.
  - rewrite S. exact Hsp.
  - rewrite L. lia.
  - eapply nondecr_weaken; [|exact Ht]. lia.
  - rewrite S. exact Hg.
  - exact Hz.
Qed.

Lemma rate_limit_device_rollover W sty cols row text speed lp ts :
  0 <= W -> speed < 2 ^ W -> tick_times_ok ts ->
  gaps_below (2 ^ W - ulong_cast W speed) 0 ts -> never_reads_zero W ts ->
  rate_limited speed (step_times (snd (drun1W W sty cols (fst (dstart_emit W sty cols row text speed lp)) ts))).
Proof.
  intros HW Hs Ht Hg Hz. rewrite rollover_trace_device by assumption.
  apply rate_limit_device_emit; assumption.
Qed.

(* ------------------------------------------------------------------------------------------ *)
(* witnesses                                                                                  *)
(* ------------------------------------------------------------------------------------------ *)

(* a 32-bit clock close to its largest value, never wrapping: one step, then three early ticks *)
Definition high_ticks : list Z := [2 ^ 32 - 50; 2 ^ 32 - 40; 2 ^ 32 - 20; 2 ^ 32 - 1].

Lemma ex_high_ticks_ok : tick_times_ok high_ticks /\ below_width 32 high_ticks.
Proof. split; [vm_compute; intuition discriminate|]. repeat constructor. Qed.

Lemma ex_device_high_clock :
  step_flags (snd (drun1W 32 Blink 8 (fst (dstart_emit 32 Blink 8 0 [72; 105] 100 true)) (2 ^ 32 - 150 :: high_ticks)))
  = [true; true; false; false; false].
Proof. vm_compute. reflexivity. Qed.

(* the deadline form of the limiter on the same history: the sum last_step + speed_ms wraps, every tick steps *)
Lemma deadline_form_refuted :
  exists W st ts, tick_times_ok ts /\ below_width W ts /\ 0 < d_speed st < 2 ^ W /\ d_last st = 0 /\ d_active st = true /\
    deadline_flags W st ts = [true; true; true; true] /\
    ~ rate_limited (d_speed st) ts.
Proof.
  exists 32, (dinit 0 [72; 105] 100 true 2 true), high_ticks.
  destruct ex_high_ticks_ok as [A B].
  split; [exact A|]. split; [exact B|]. split; [vm_compute; split; reflexivity|].
  split; [reflexivity|]. split; [reflexivity|]. split; [vm_compute; reflexivity|].
  intro H. specialize (H [] (2 ^ 32 - 50) [2 ^ 32 - 40; 2 ^ 32 - 20; 2 ^ 32 - 1] (2 ^ 32 - 40) eq_refl (or_introl eq_refl)).
  cbn [d_speed dinit] in H. assert (P : 0 < 2 ^ 32 - 50) by (vm_compute; reflexivity).
  specialize (H P). lia.
Qed.

(* the second clause of the roll-over guard is necessary: a step taken in the very millisecond in which
   millis() reads 0 stores last_step = 0 = "clock not running", and the tick one millisecond later steps again.
   (The register values 100, 156, 0, 1 are not a non-decreasing sequence: outside the property's quantifier.) *)
Lemma rollover_zero_reading_refuted :
  exists W ts, 0 <= W /\ tick_times_ok ts /\ gaps_below (2 ^ W - ulong_cast W 100) 0 ts /\
    step_flags (snd (drun1W W Blink 8 (fst (dstart_emit W Blink 8 0 [72; 105] 100 true)) ts)) = [true; false; true; true] /\
    ~ rate_limited 100 (step_times (snd (drun1W W Blink 8 (fst (dstart_emit W Blink 8 0 [72; 105] 100 true)) ts))).
Proof.
  exists 8, [100; 156; 256; 257].
  split; [lia|]. split; [vm_compute; intuition discriminate|]. split; [vm_compute; intuition|].
  split; [vm_compute; reflexivity|].
  intro H.
  assert (E : step_times (snd (drun1W 8 Blink 8 (fst (dstart_emit 8 Blink 8 0 [72; 105] 100 true)) [100; 156; 256; 257])) = [100; 256; 257])
    by (vm_compute; reflexivity).
  rewrite E in H. specialize (H [100] 256 [257] 257 eq_refl (or_introl eq_refl)). lia.
Qed.

(* non-vacuity of the roll-over theorem: an 8-bit clock, ticks through two roll-overs *)
Definition roll_ticks : list Z := [100; 200; 250; 300; 355; 400; 500; 520; 600].

Lemma ex_roll_ticks_ok :
  tick_times_ok roll_ticks /\ gaps_below (2 ^ 8 - 100) 0 roll_ticks /\ never_reads_zero 8 roll_ticks.
Proof.
  split; [vm_compute; intuition discriminate|]. split; [vm_compute; intuition|].
  repeat constructor; vm_compute; discriminate.
Qed.

Lemma ex_device_rollover :
  step_flags (snd (drun1W 8 Blink 8 (fst (dstart_emit 8 Blink 8 0 [72; 105] 100 true)) roll_ticks))
  = [true; true; false; true; false; true; true; false; true].
Proof. vm_compute. reflexivity. Qed.
