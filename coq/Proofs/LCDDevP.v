(* Lemmas about the firmware LCD model (Device/DLCD.v): the DDRAM geometry of a display
   that fits one HD44780, and what setCursor + print leave in the visible cells. *)
From Coq Require Import ZArith List Bool Lia.
From RV Require Import Base.LcdBase Host.LCD Device.DLCD Device.LCDRefine Proofs.LCDListP.
Import ListNotations.
Open Scope Z_scope.

Ltac zb :=
  repeat (match goal with
          | |- context [?a <? ?b] => destruct (Z.ltb_spec a b)
          | |- context [?a <=? ?b] => destruct (Z.leb_spec a b)
          | |- context [?a =? ?b] => destruct (Z.eqb_spec a b)
          | |- context [?a >? ?b] => rewrite (Z.gtb_ltb a b)
          | |- context [?a >=? ?b] => rewrite (Z.geb_leb a b)
          end; try lia; cbn [andb orb negb fst snd]); try lia.

Definition fits (g : geom) : Prop :=
  1 <= g_cols g <= 40 /\ 1 <= g_rows g <= 4 /\ (g_rows g <= 2 \/ g_cols g <= 20).

Lemma fitsb_fits g : fitsb g = true -> fits g.
Proof.
  unfold fitsb, fits. rewrite !andb_true_iff, orb_true_iff, !Z.leb_le. lia.
Qed.

Lemma fits_fitsb g : fits g -> fitsb g = true.
Proof.
  unfold fitsb, fits. rewrite !andb_true_iff, orb_true_iff, !Z.leb_le. lia.
Qed.

Ltac row4 r :=
  let H := fresh in
  assert (H : r = 0 \/ r = 1 \/ r = 2 \/ r = 3) by lia;
  destruct H as [H|[H|[H|H]]]; subst r.

(* ---------- DDRAM geometry ---------- *)
Lemma row_span g r : fits g -> 0 <= r < g_rows g ->
  0 <= row_off g r /\ (row_off g r + g_cols g <= 40 \/ (64 <= row_off g r /\ row_off g r + g_cols g <= 104)).
Proof.
  intros (Hc & Hr & Hf) Hrow. row4 r; unfold row_off; cbn [Z.eqb Pos.eqb]; destruct (g_i2c g); lia.
Qed.

Lemma row_disj g r1 r2 c1 c2 : fits g ->
  0 <= r1 < g_rows g -> 0 <= r2 < g_rows g -> 0 <= c1 < g_cols g -> 0 <= c2 < g_cols g ->
  row_off g r1 + c1 = row_off g r2 + c2 -> r1 = r2 /\ c1 = c2.
Proof.
  intros (Hc & Hr & Hf) H1 H2 Hc1 Hc2.
  row4 r1; row4 r2; unfold row_off; cbn [Z.eqb Pos.eqb]; destruct (g_i2c g); lia.
Qed.

Lemma locate_in g r c : fits g -> 0 <= r < g_rows g -> 0 <= c < g_cols g ->
  locate g (row_off g r + c) = (r, c).
Proof.
  intros (Hc & Hr & Hf) Hrow Hcol. unfold locate, in_row_b.
  row4 r; unfold row_off; cbn [Z.eqb Pos.eqb]; destruct (g_i2c g); zb; f_equal; lia.
Qed.

Lemma next_in_row g r c : fits g -> 0 <= r < g_rows g -> 0 <= c -> c + 1 < g_cols g ->
  next_addr (row_off g r + c) = row_off g r + (c + 1).
Proof.
  intros Hf Hrow Hc Hc1. pose proof (row_span g r Hf Hrow) as [H0 Hs].
  unfold next_addr. zb. rewrite Z.mod_small by lia. lia.
Qed.

Lemma clamp_row_in g r : 1 <= g_rows g <= 4 -> 0 <= r < g_rows g -> clamp_row g r = r.
Proof.
  intros Hr Hrow. unfold clamp_row.
  assert (E1 : (r >? g_rows g) = false) by (rewrite Z.gtb_ltb; apply Z.ltb_ge; lia).
  assert (E2 : (r >=? 4) = false) by (rewrite Z.geb_leb; apply Z.leb_gt; lia).
  assert (E3 : (r >=? g_rows g) = false) by (rewrite Z.geb_leb; apply Z.leb_gt; lia).
  assert (E4 : (r <? 0) = false) by (apply Z.ltb_ge; lia).
  assert (E5 : (r >? 3) = false) by (rewrite Z.gtb_ltb; apply Z.ltb_ge; lia).
  destruct (g_i2c g); rewrite ?E1, ?E2, ?E3, ?E4, ?E5; reflexivity.
Qed.

Lemma land3 r : 0 <= r < 4 -> Z.land r 3 = r.
Proof. intros H. row4 r; reflexivity. Qed.

(* ---------- setCursor ---------- *)
Lemma set_cursor_proj d c r :
  d_g (set_cursor d c r) = d_g d /\ d_ram (set_cursor d c r) = d_ram d /\
  d_bright (set_cursor d c r) = d_bright d /\ d_blstate (set_cursor d c r) = d_blstate d /\
  d_cg (set_cursor d c r) = false.
Proof. repeat split. Qed.

Lemma set_cursor_in d c r : fits (d_g d) -> 0 <= r < d_rows d -> 0 <= c <= d_cols d ->
  d_addr (set_cursor d c r) = row_off (d_g d) r + c /\ d_log (set_cursor d c r) = EvSC c r :: d_log d.
Proof.
  intros Hf Hr Hc. pose proof Hf as (Hcols & Hrows & _). unfold d_rows, d_cols in *.
  pose proof (row_span _ r Hf Hr) as [H0 Hs].
  unfold set_cursor. cbn [d_addr d_log]. unfold u8.
  rewrite (Z.mod_small c) by lia. rewrite (Z.mod_small r) by lia.
  rewrite clamp_row_in by lia. rewrite land3 by lia.
  rewrite Z.mod_small by lia. split; [lia|reflexivity].
Qed.

(* ---------- print: what any print does to the control state and the log ---------- *)
Definition textual (d d' : dlcd) : Prop :=
  d_g d' = d_g d /\ d_bright d' = d_bright d /\ d_blstate d' = d_blstate d /\
  exists evs, d_log d' = evs ++ d_log d /\ Forall text_ev evs.

Lemma textual_refl d : textual d d.
Proof. repeat split. exists []. split; [reflexivity|constructor]. Qed.

Lemma textual_trans a b c : textual a b -> textual b c -> textual a c.
Proof.
  intros (G1 & B1 & S1 & e1 & L1 & F1) (G2 & B2 & S2 & e2 & L2 & F2).
  repeat split; try congruence.
  exists (e2 ++ e1). split; [rewrite L2, L1, app_assoc; reflexivity|]. apply Forall_app. split; assumption.
Qed.

Lemma textual_set_cursor d c r : textual d (set_cursor d c r).
Proof. repeat split. exists [EvSC (u8 c) (u8 r)]. split; [reflexivity|]. repeat constructor. Qed.

Lemma textual_write1 d ch : textual d (write1 d ch).
Proof.
  unfold write1. destruct (d_cg d); [apply textual_refl|].
  destruct (locate (d_g d) (d_addr d)) as [rr cc]. repeat split.
  exists [EvW rr cc ch]. split; [reflexivity|]. repeat constructor.
Qed.

Lemma textual_print t : forall d, textual d (print d t).
Proof.
  induction t as [|c t IH]; intros d; cbn [print]; [apply textual_refl|].
  eapply textual_trans; [apply textual_write1|apply IH].
Qed.

Lemma textual_lcd_clear d : textual d (lcd_clear d).
Proof. repeat split. exists [EvCLR]. split; [reflexivity|]. repeat constructor. Qed.

Lemma textual_clear_row d cols row : textual d (clear_row d cols row).
Proof.
  unfold clear_row. destruct (cols <=? 0); [apply textual_refl|].
  eapply textual_trans; [apply textual_set_cursor|apply textual_print].
Qed.

Lemma textual_write_aligned d cols col row text clear align :
  textual d (write_aligned d cols col row text clear align).
Proof.
  unfold write_aligned. destruct (cols <=? 0); [apply textual_refl|].
  destruct ((if col <? 0 then 0 else col) >=? cols); [apply textual_refl|].
  set (d1 := if clear then clear_row d cols row else d).
  assert (H1 : textual d d1) by (subst d1; destruct clear; [apply textual_clear_row|apply textual_refl]).
  destruct (cols - (if col <? 0 then 0 else col) <=? 0); [exact H1|].
  eapply textual_trans; [exact H1|]. eapply textual_trans; [apply textual_set_cursor|apply textual_print].
Qed.

Lemma textual_progress d cols row value maxv width style label :
  textual d (progress d cols row value maxv width style label).
Proof.
  unfold progress. destruct (cols <=? 0); [apply textual_refl|].
  eapply textual_trans; [apply textual_clear_row|].
  eapply textual_trans; [apply textual_set_cursor|apply textual_print].
Qed.

(* ---------- print inside a row of a display that fits ---------- *)
(* the cell-write events of printing [t] from column [c] of row [r], newest first *)
Fixpoint wlog (r c : Z) (t : list Z) : list dev_ev :=
  match t with
  | [] => []
  | ch :: rest => wlog r (c + 1) rest ++ [EvW r c ch]
  end.

Lemma wlog_in_row r cols t : forall c, 0 <= c -> c + zlen t <= cols -> Forall (ev_in_row r cols) (wlog r c t).
Proof.
  induction t as [|ch t IH]; intros c Hc Hl; cbn [wlog]; [constructor|].
  rewrite zlen_cons in Hl. pose proof (zlen_nonneg t).
  apply Forall_app. split; [apply IH; lia|]. repeat constructor; lia.
Qed.

Lemma print_in_row t : forall d r c0,
  fits (d_g d) -> 0 <= r < d_rows d -> 0 <= c0 -> c0 + zlen t <= d_cols d ->
  d_cg d = false -> (t <> [] -> d_addr d = row_off (d_g d) r + c0) ->
  d_g (print d t) = d_g d /\
  (forall a, d_ram (print d t) a =
             if (row_off (d_g d) r + c0 <=? a) && (a <? row_off (d_g d) r + c0 + zlen t)
             then znth (a - (row_off (d_g d) r + c0)) t 0 else d_ram d a) /\
  d_log (print d t) = wlog r c0 t ++ d_log d.
Proof.
  induction t as [|ch t IH]; intros d r c0 Hf Hr Hc0 Hlen Hcg Haddr; cbn [print].
  - rewrite zlen_nil. split; [reflexivity|]. split; [|reflexivity]. intros a. zb.
  - rewrite zlen_cons in *. pose proof (zlen_nonneg t) as Ht.
    specialize (Haddr ltac:(discriminate)). unfold d_rows, d_cols in *.
    assert (Hw : write1 d ch =
                 {| d_g := d_g d; d_addr := next_addr (row_off (d_g d) r + c0); d_cg := false;
                    d_ram := (fun x => if x =? row_off (d_g d) r + c0 then ch else d_ram d x);
                    d_bright := d_bright d; d_blstate := d_blstate d;
                    d_log := EvW r c0 ch :: d_log d |}).
    { unfold write1. rewrite Hcg, Haddr, locate_in by (try assumption; lia). reflexivity. }
    rewrite Hw. clear Hw.
    assert (Hnext : t <> [] -> next_addr (row_off (d_g d) r + c0) = row_off (d_g d) r + (c0 + 1)).
    { intros Hne. apply next_in_row; try assumption; try lia.
      destruct t; [congruence|]. rewrite zlen_cons in *. pose proof (zlen_nonneg t). lia. }
    match goal with |- context [print ?D t] => set (d1 := D) end.
    assert (IH1 := IH d1 r (c0 + 1)).
    change (d_g d1) with (d_g d) in IH1. change (d_cg d1) with false in IH1.
    change (d_addr d1) with (next_addr (row_off (d_g d) r + c0)) in IH1.
    change (d_log d1) with (EvW r c0 ch :: d_log d) in IH1.
    change (d_ram d1) with (fun x => if x =? row_off (d_g d) r + c0 then ch else d_ram d x) in IH1.
    specialize (IH1 Hf Hr ltac:(lia) ltac:(lia) eq_refl Hnext).
    destruct IH1 as (G & R & L).
    split; [exact G|]. split.
    + intros a. rewrite R. clear R G L.
      destruct (Z.eq_dec a (row_off (d_g d) r + c0)) as [->|Hne].
      * zb. unfold znth. replace (Z.to_nat (row_off (d_g d) r + c0 - (row_off (d_g d) r + c0))) with 0%nat by lia. reflexivity.
      * zb.
        unfold znth.
        replace (Z.to_nat (a - (row_off (d_g d) r + c0))) with (S (Z.to_nat (a - (row_off (d_g d) r + (c0 + 1))))) by lia.
        reflexivity.
    + rewrite L. cbn [wlog]. rewrite <- app_assoc. reflexivity.
Qed.

(* the same, seen through the visible cell matrix *)
Lemma cell_addr g r c : fits g -> 0 <= r < g_rows g -> 0 <= c < g_cols g ->
  (row_off g r + c) mod 128 = row_off g r + c.
Proof.
  intros Hf Hr Hc. pose proof (row_span g r Hf Hr) as [H0 Hs]. apply Z.mod_small. lia.
Qed.

Lemma print_cells t d r c0 :
  fits (d_g d) -> 0 <= r < d_rows d -> 0 <= c0 -> c0 + zlen t <= d_cols d ->
  d_cg d = false -> (t <> [] -> d_addr d = row_off (d_g d) r + c0) ->
  forall r' c', 0 <= r' < d_rows d -> 0 <= c' < d_cols d ->
  dcell (print d t) r' c' =
    if (r' =? r) && (c0 <=? c') && (c' <? c0 + zlen t) then znth (c' - c0) t 0 else dcell d r' c'.
Proof.
  intros Hf Hr Hc0 Hlen Hcg Haddr r' c' Hr' Hc'.
  destruct (print_in_row t d r c0 Hf Hr Hc0 Hlen Hcg Haddr) as (G & R & _).
  unfold dcell. rewrite G. unfold d_rows, d_cols in *.
  rewrite cell_addr by assumption. rewrite R. clear R.
  pose proof (zlen_nonneg t) as Ht.
  destruct (Z.eqb_spec r' r) as [->|Hne]; cbn [andb].
  - zb. f_equal. lia.
  - destruct (Z.leb_spec (row_off (d_g d) r + c0) (row_off (d_g d) r' + c')); cbn [andb]; [|reflexivity].
    destruct (Z.ltb_spec (row_off (d_g d) r' + c') (row_off (d_g d) r + c0 + zlen t)); [|reflexivity].
    exfalso. apply Hne.
    apply (row_disj (d_g d) r' r c' (row_off (d_g d) r' + c' - row_off (d_g d) r)); try assumption; lia.
Qed.

Lemma print_log_in_row t d r c0 :
  fits (d_g d) -> 0 <= r < d_rows d -> 0 <= c0 -> c0 + zlen t <= d_cols d ->
  d_cg d = false -> (t <> [] -> d_addr d = row_off (d_g d) r + c0) ->
  exists evs, d_log (print d t) = evs ++ d_log d /\ Forall (ev_in_row r (d_cols d)) evs.
Proof.
  intros Hf Hr Hc0 Hlen Hcg Haddr.
  destruct (print_in_row t d r c0 Hf Hr Hc0 Hlen Hcg Haddr) as (_ & _ & L).
  exists (wlog r c0 t). split; [exact L|]. apply wlog_in_row; assumption.
Qed.

(* ---------- a row overwritten from column [off]: setCursor(off,row); print(content) ---------- *)
Definition in_row_ext (row : Z) (d d' : dlcd) : Prop :=
  exists evs, d_log d' = evs ++ d_log d /\ Forall (ev_in_row row (d_cols d)) evs.

Lemma in_row_ext_refl row d : in_row_ext row d d.
Proof. exists []. split; [reflexivity|constructor]. Qed.

Lemma in_row_ext_trans row a b c : d_g b = d_g a -> in_row_ext row a b -> in_row_ext row b c -> in_row_ext row a c.
Proof.
  intros G (e1 & L1 & F1) (e2 & L2 & F2). exists (e2 ++ e1).
  split; [rewrite L2, L1, app_assoc; reflexivity|].
  apply Forall_app. split; [|exact F1]. unfold d_cols in *. rewrite G in F2. exact F2.
Qed.

Lemma cursor_print d off row content :
  fits (d_g d) -> 0 <= row < d_rows d -> 0 <= off -> off + zlen content <= d_cols d ->
  let d' := print (set_cursor d off row) content in
  d_g d' = d_g d /\
  (forall r' c', 0 <= r' < d_rows d -> 0 <= c' < d_cols d ->
     dcell d' r' c' = if (r' =? row) && (off <=? c') && (c' <? off + zlen content)
                      then znth (c' - off) content 0 else dcell d r' c') /\
  in_row_ext row d d'.
Proof.
  intros Hf Hr Hoff Hlen d'. subst d'.
  pose proof (zlen_nonneg content) as Hz.
  destruct (set_cursor_in d off row Hf Hr ltac:(lia)) as [Ha Hl].
  destruct (set_cursor_proj d off row) as (G & R & _ & _ & Cg).
  set (d1 := set_cursor d off row) in *.
  assert (Hf1 : fits (d_g d1)) by (rewrite G; exact Hf).
  assert (Hr1 : 0 <= row < d_rows d1) by (unfold d_rows; rewrite G; exact Hr).
  assert (Hl1 : off + zlen content <= d_cols d1) by (unfold d_cols; rewrite G; exact Hlen).
  assert (Ha1 : content <> [] -> d_addr d1 = row_off (d_g d1) row + off) by (intros _; rewrite G; exact Ha).
  split; [|split].
  - destruct (print_in_row content d1 row off Hf1 Hr1 Hoff Hl1 Cg Ha1) as (G1 & _). congruence.
  - intros r' c' Hr' Hc'.
    rewrite (print_cells content d1 row off Hf1 Hr1 Hoff Hl1 Cg Ha1) by (unfold d_rows, d_cols; rewrite G; assumption).
    unfold dcell. rewrite G, R. reflexivity.
  - destruct (print_log_in_row content d1 row off Hf1 Hr1 Hoff Hl1 Cg Ha1) as (evs & L & F).
    exists (evs ++ [EvSC off row]). split.
    + rewrite L, Hl, <- app_assoc. reflexivity.
    + apply Forall_app. split; [unfold d_cols in *; rewrite G in F; exact F|]. repeat constructor.
Qed.

(* __redu_lcd_clear_row on an in-range row *)
Lemma clear_row_in d row :
  fits (d_g d) -> 0 <= row < d_rows d ->
  let d' := clear_row d (d_cols d) row in
  d_g d' = d_g d /\
  (forall r' c', 0 <= r' < d_rows d -> 0 <= c' < d_cols d ->
     dcell d' r' c' = if r' =? row then SP else dcell d r' c') /\
  in_row_ext row d d'.
Proof.
  intros Hf Hr d'. subst d'. pose proof Hf as (Hc & _). unfold clear_row.
  destruct (Z.leb_spec (d_cols d) 0); [unfold d_cols in *; lia|].
  destruct (cursor_print d 0 row (zrepeat SP (d_cols d)) Hf Hr ltac:(lia)) as (G & Cl & Ex).
  { rewrite zlen_zrepeat. lia. }
  split; [exact G|]. split; [|exact Ex].
  intros r' c' Hr' Hc'. rewrite Cl by assumption. rewrite zlen_zrepeat.
  destruct (Z.eqb_spec r' row); cbn [andb]; [|reflexivity].
  zb. apply znth_zrepeat. lia.
Qed.
