(* The four progress-bar laws for the binary64 host arithmetic [hfilled_fl], its coincidence
   with the exact-rational model off the .5 ties, and the transfer to whole calls ([hstep_fl]). *)
From Coq Require Import ZArith QArith Lia List Bool.
From RV Require Import Base.LcdBase Host.LCD Host.LCDFloat Device.DLCD Proofs.LCDHostP Proofs.LCDP Proofs.LCDFloatP.
Open Scope Z_scope.

Lemma hfilled_fl_nonpos v m w : m <= 0 -> hfilled_fl v m w = 0.
Proof.
  intros Hm. unfold hfilled_fl, hratio_fl. destruct (Z.leb_spec m 0); [|lia]. reflexivity.
Qed.

(* never more than one cell apart, the host never below the firmware: every value, every
   max_value (also <= 0), every width below 2^51 *)
Lemma fl_within_one v m w : 1 <= w < 2 ^ 51 -> 0 <= hfilled_fl v m w - dfilled v m w <= 1.
Proof.
  intros Hw. destruct (Z_lt_le_dec 0 m) as [Hm|Hm].
  - rewrite dfilled_Z by lia. pose proof (hfilled_fl_floor v m w Hm Hw). lia.
  - rewrite hfilled_fl_nonpos, dfilled_nonpos by lia. lia.
Qed.

(* identical whenever value*width is a multiple of max_value *)
Lemma fl_exact v m w : 1 <= w < 2 ^ 51 -> (m | v * w) -> hfilled_fl v m w = dfilled v m w.
Proof.
  intros Hw [k Hk]. destruct (Z_lt_le_dec 0 m) as [Hm|Hm]; [|rewrite hfilled_fl_nonpos, dfilled_nonpos by lia; reflexivity].
  rewrite dfilled_Z by lia.
  destruct (Z_le_gt_dec v 0) as [H0|H0]; [|destruct (Z_le_gt_dec m v) as [H1|H1]].
  - assert (E : clampv v m = 0) by (unfold clampv; lia). rewrite E. rewrite (hfilled_fl_integer v m w 0 Hm Hw) by (rewrite E; lia).
    rewrite Z.mul_0_l, Z.div_0_l by lia. reflexivity.
  - assert (E : clampv v m = m) by (unfold clampv; lia). rewrite E. rewrite (hfilled_fl_integer v m w w Hm Hw) by (rewrite E; lia).
    rewrite (Z.mul_comm m w), Z.div_mul by lia. reflexivity.
  - assert (E : clampv v m = v) by (unfold clampv; lia). rewrite E. rewrite (hfilled_fl_integer v m w k Hm Hw) by (rewrite E; lia).
    rewrite Hk, Z.div_mul by lia. reflexivity.
Qed.

(* saturates at 0 and at the bar width *)
Lemma fl_saturates v m w : 1 <= w < 2 ^ 51 ->
  0 <= hfilled_fl v m w <= w /\
  (v <= 0 \/ m <= 0 -> hfilled_fl v m w = 0) /\
  (0 < m <= v -> hfilled_fl v m w = w).
Proof.
  intros Hw. destruct (Z_lt_le_dec 0 m) as [Hm|Hm].
  - assert (S0 : v <= 0 -> hfilled_fl v m w = 0).
    { intros H0. apply hfilled_fl_integer; try assumption. replace (clampv v m) with 0 by (unfold clampv; lia). lia. }
    assert (S1 : m <= v -> hfilled_fl v m w = w).
    { intros H1. apply hfilled_fl_integer; try assumption. replace (clampv v m) with m by (unfold clampv; lia). lia. }
    split; [|split; [intros [H|H]; [auto|lia]|intros [_ H]; auto]].
    destruct (Z_le_gt_dec m v) as [H1|H1]; [rewrite S1 by exact H1; lia|].
    pose proof (hfilled_fl_floor v m w Hm Hw) as F. pose proof (clampv_range v m Hm) as C.
    assert (Hc : clampv v m < m) by (unfold clampv; lia).
    assert (D0 : 0 <= clampv v m * w / m) by (apply Z.div_pos; nia).
    assert (D1 : clampv v m * w / m < w) by (apply Z.div_lt_upper_bound; nia).
    lia.
  - rewrite hfilled_fl_nonpos by exact Hm. split; [lia|]. split; [reflexivity|lia].
Qed.

(* monotone in value *)
Lemma fl_monotone v1 v2 m w : 1 <= w -> m * w < 2 ^ 51 -> v1 <= v2 -> hfilled_fl v1 m w <= hfilled_fl v2 m w.
Proof.
  intros Hw Hmw Hv. destruct (Z_lt_le_dec 0 m) as [Hm|Hm]; [|rewrite !hfilled_fl_nonpos by lia; lia].
  assert (Hw' : 1 <= w < 2 ^ 51) by nia.
  destruct (fl_saturates v1 m w Hw') as (R1 & S01 & S11). destruct (fl_saturates v2 m w Hw') as (R2 & S02 & S12).
  destruct (Z_le_gt_dec v1 0) as [A|A]; [rewrite S01 by (left; exact A); lia|].
  destruct (Z_le_gt_dec m v2) as [B|B]; [rewrite S12 by lia; lia|].
  destruct (Z.eq_dec v1 v2) as [->|Hne]; [lia|].
  destruct (hfilled_fl_close v1 m w Hm Hw) as (p1 & -> & _ & P1).
  destruct (hfilled_fl_close v2 m w Hm Hw) as (p2 & -> & P2 & _).
  apply rhe_mono_Q.
  (* x2 - x1 >= 1/m > 2 eta *)
  pose proof (inj_pos m Hm) as HM.
  assert (C1 : clampv v1 m = v1) by (unfold clampv; lia). assert (C2 : clampv v2 m = v2) by (unfold clampv; lia).
  unfold xprod in *. rewrite C1 in P1. rewrite C2 in P2.
  assert (D : (inject_Z (v1 * w) + 1 <= inject_Z (v2 * w))%Q).
  { change 1%Q with (inject_Z 1). rewrite <- inject_Z_plus, <- Zle_Qle. nia. }
  assert (Z3 : (2 * (inject_Z m * eta w) < 1)%Q).
  { unfold eta.
    assert (Bq : (inject_Z (m * w) < inject_Z (2 ^ 51))%Q) by (rewrite <- Zlt_Qlt; exact Hmw).
    change (inject_Z (2 ^ 51)) with (2251799813685248 # 1)%Q in Bq. rewrite inject_Z_mult in Bq. Lqa.lra. }
  set (M := inject_Z m) in *. set (e := eta w) in *. set (N1 := inject_Z (v1 * w)) in *. set (N2 := inject_Z (v2 * w)) in *.
  apply Qnot_le_lt. intro C.
  (* p2 <= p1: N2/M - e <= p2 <= p1 <= N1/M + e *)
  assert (E1 : (N1 / M * M == N1)%Q) by (field; Lqa.lra).
  assert (E2 : (N2 / M * M == N2)%Q) by (field; Lqa.lra).
  assert (F : ((N2 / M - e) * M <= (N1 / M + e) * M)%Q) by (apply Qmult_le_compat_r; Lqa.lra).
  Lqa.lra.
Qed.

(* ---------- whole calls ---------- *)
Lemma hstep_fl_other h op : (forall row value maxv width style label, op <> OProgress row value maxv width style label) ->
  hstep_fl h op = hstep h op.
Proof. intros H. destruct op; try reflexivity. exfalso. eapply H. reflexivity. Qed.

Lemma hstep_fl_same h row value maxv width style label :
  hfilled_fl value maxv (hwidth (h_cols h) width) = hfilled value maxv (hwidth (h_cols h) width) ->
  hstep_fl h (OProgress row value maxv width style label) = hstep h (OProgress row value maxv width style label).
Proof.
  intros E. cbn [hstep_fl hstep]. unfold hprogress_fl, hprogress, hprogress_row_fl, hprogress_row. rewrite E. reflexivity.
Qed.
