(* Lemmas about the binary64 model of LCD.progress() (Host/LCDFloat.v): the relative error of
   [fl53], the distance of the rounded product from the exact quotient, and from these the
   four progress-bar laws for [hfilled_fl] and its coincidence with the exact-rational
   [hfilled] off the .5 ties. *)
From Coq Require Import ZArith QArith Qpower Lia Lqa List Bool.
From RV Require Import Base.LcdBase Host.LCD Host.LCDFloat Proofs.LCDHostP.
Open Scope Q_scope.

Lemma two_nz : ~ (2 # 1) == 0.
Proof. intro H. discriminate H. Qed.

Lemma pow2_pos e : 0 < pow2 e.
Proof. apply Qpower_0_lt. reflexivity. Qed.

Lemma pow2_add a b : pow2 (a + b) == pow2 a * pow2 b.
Proof. apply Qpower_plus, two_nz. Qed.

Lemma pow2_nonneg_Z e : (0 <= e)%Z -> pow2 e == inject_Z (2 ^ e).
Proof. intros He. unfold pow2. rewrite (Zpower_Qpower 2 e He). reflexivity. Qed.

(* round() is a nearest integer *)
Lemma rhe_near_Q q :
  inject_Z (round_half_even q) - (1 # 2) <= q /\ q <= inject_Z (round_half_even q) + (1 # 2).
Proof.
  destruct q as [n d]. rewrite round_half_even_make.
  pose proof (rhe_div_near n (Zpos d) ltac:(lia)) as H. set (k := rhe_div n (Z.pos d)) in *.
  unfold Qle, Qminus, Qplus, Qopp, inject_Z. cbn [Qnum Qden].
  rewrite !Pos2Z.inj_mul. split; nia.
Qed.

Lemma rhe_unique_Q p k :
  inject_Z k - (1 # 2) < p -> p < inject_Z k + (1 # 2) -> round_half_even p = k.
Proof.
  intros H1 H2. destruct (rhe_near_Q p) as [N1 N2]. set (r := round_half_even p) in *.
  assert (A : inject_Z r < inject_Z (k + 1)) by (rewrite inject_Z_plus; change (inject_Z 1) with 1; lra).
  assert (B : inject_Z k < inject_Z (r + 1)) by (rewrite inject_Z_plus; change (inject_Z 1) with 1; lra).
  rewrite <- Zlt_Qlt in A, B. lia.
Qed.

Lemma rhe_mono_Q p1 p2 : p1 < p2 -> (round_half_even p1 <= round_half_even p2)%Z.
Proof.
  intros H. destruct (rhe_near_Q p1) as [A1 A2]. destruct (rhe_near_Q p2) as [B1 B2].
  set (r1 := round_half_even p1) in *. set (r2 := round_half_even p2) in *.
  assert (A : inject_Z r1 < inject_Z (r2 + 1)) by (rewrite inject_Z_plus; change (inject_Z 1) with 1; lra).
  rewrite <- Zlt_Qlt in A. lia.
Qed.

(* ---------- the exponent found by fl_exp is not above floor(log2 q) ---------- *)
Lemma fl_exp_le q : 0 < q -> pow2 (fl_exp q) <= q.
Proof.
  intros Hq. unfold fl_exp. set (e0 := (Z.log2 (Qnum q) - Z.log2 (Z.pos (Qden q)))%Z).
  destruct (Qle_bool (pow2 e0) q) eqn:E; [apply Qle_bool_iff; exact E|]. clear E.
  destruct q as [n d]. cbn [Qnum Qden] in *.
  assert (Hn : (0 < n)%Z) by (unfold Qlt in Hq; cbn in Hq; lia).
  pose proof (Z.log2_spec n Hn) as [Ln _]. pose proof (Z.log2_spec (Z.pos d) ltac:(lia)) as [_ Ld].
  pose proof (Z.log2_nonneg n) as Nn. pose proof (Z.log2_nonneg (Z.pos d)) as Nd.
  set (ln := Z.log2 n) in *. set (ld := Z.log2 (Z.pos d)) in *.
  replace (e0 - 1)%Z with (ln + - (Z.succ ld))%Z by (unfold e0; lia).
  rewrite pow2_add. unfold pow2 at 2. rewrite Qpower_opp. fold (pow2 (Z.succ ld)).
  rewrite !pow2_nonneg_Z by lia.
  set (A := (2 ^ ln)%Z) in *. set (B := (2 ^ Z.succ ld)%Z) in *.
  assert (HB : (0 < B)%Z) by lia.
  apply Qle_shift_div_r; [change 0 with (inject_Z 0); rewrite <- Zlt_Qlt; exact HB|].
  unfold Qle, Qmult, inject_Z. cbn [Qnum Qden]. rewrite Pos2Z.inj_mul. nia.
Qed.

Definition eps53 : Q := 1 # 9007199254740992.       (* 2^-53 *)

Lemma pow2_m52 : pow2 (-52) == 1 # 4503599627370496.
Proof. vm_compute. reflexivity. Qed.

(* ---------- relative error of the nearest binary64 number ---------- *)
Lemma fl_pos_err q : 0 < q -> q - q * eps53 <= fl_pos q /\ fl_pos q <= q + q * eps53.
Proof.
  intros Hq. unfold fl_pos. rewrite Qred_correct.
  pose proof (fl_exp_le q Hq) as HP. set (E := fl_exp q) in *.
  replace (E - 52)%Z with (E + -52)%Z by lia.
  assert (HS : pow2 (E + -52) == pow2 E * (1 # 4503599627370496)) by (rewrite pow2_add, pow2_m52; reflexivity).
  pose proof (pow2_pos E) as PE. pose proof (pow2_pos (E + -52)) as PS.
  set (S := pow2 (E + -52)) in *. set (P := pow2 E) in *.
  destruct (rhe_near_Q (q / S)) as [N1 N2]. set (M := inject_Z (round_half_even (q / S))) in *.
  assert (Hy : q == (q / S) * S) by (field; lra).
  set (y := q / S) in *. unfold eps53.
  split.
  - assert (X : (y - M) * S <= (1 # 2) * S) by (apply Qmult_le_compat_r; lra). lra.
  - assert (X : (M - y) * S <= (1 # 2) * S) by (apply Qmult_le_compat_r; lra). lra.
Qed.

Lemma Qnum_sign q : (Qnum q =? 0)%Z = true <-> q == 0.
Proof.
  unfold Qeq. cbn [Qnum Qden]. rewrite Z.eqb_eq. split; intros H; lia.
Qed.

Lemma fl53_nonneg_err q : 0 <= q -> q - q * eps53 <= fl53 q /\ fl53 q <= q + q * eps53.
Proof.
  intros Hq. unfold fl53. destruct (Qnum q =? 0)%Z eqn:E0.
  - apply Qnum_sign in E0. rewrite E0. unfold eps53. split; lra.
  - assert (Hn : ~ q == 0) by (intro H; apply Qnum_sign in H; congruence).
    destruct (Qnum q <? 0)%Z eqn:E1.
    + apply Z.ltb_lt in E1. unfold Qle in Hq. cbn in Hq. lia.
    + apply fl_pos_err. lra.
Qed.

Lemma fl53_nonpos q : q <= 0 -> fl53 q <= 0.
Proof.
  intros Hq. unfold fl53. destruct (Qnum q =? 0)%Z eqn:E0; [lra|].
  assert (Hn : ~ q == 0) by (intro H; apply Qnum_sign in H; congruence).
  destruct (Qnum q <? 0)%Z eqn:E1.
  - destruct (fl_pos_err (- q) ltac:(lra)) as [A _]. unfold eps53 in A. lra.
  - apply Z.ltb_ge in E1. exfalso. apply Hn. unfold Qle in Hq. unfold Qeq. cbn in *. lia.
Qed.

Lemma qclamp01_spec x :
  (x <= 0 /\ qclamp01 x = 0) \/ (1 <= x /\ qclamp01 x = 1) \/ (0 < x /\ x < 1 /\ qclamp01 x = x).
Proof.
  unfold qclamp01. destruct (Qle_bool 1 x) eqn:E1.
  - apply Qle_bool_iff in E1. right. left. split; [exact E1|reflexivity].
  - assert (H1 : x < 1) by (apply Qnot_le_lt; intro H; apply Qle_bool_iff in H; congruence).
    destruct (Qle_bool x 0) eqn:E0.
    + apply Qle_bool_iff in E0. left. split; [exact E0|reflexivity].
    + assert (H0 : 0 < x) by (apply Qnot_le_lt; intro H; apply Qle_bool_iff in H; congruence).
      right. right. repeat split; assumption.
Qed.

(* the exact ratio clamp(value)/max_value *)
Definition xratio (value maxv : Z) : Q := inject_Z (clampv value maxv) / inject_Z maxv.

Lemma xratio_cases v m : (0 < m)%Z ->
  let q0 := inject_Z v / inject_Z m in
  ((v <= 0)%Z /\ q0 <= 0 /\ xratio v m == 0) \/
  ((m <= v)%Z /\ 1 <= q0 /\ xratio v m == 1) \/
  ((0 < v < m)%Z /\ 0 < q0 /\ q0 < 1 /\ xratio v m == q0).
Proof.
  intros Hm q0. assert (HM : 0 < inject_Z m) by (change 0 with (inject_Z 0); rewrite <- Zlt_Qlt; exact Hm).
  unfold xratio, clampv.
  destruct (Z_le_gt_dec v 0) as [H0|H0]; [|destruct (Z_le_gt_dec m v) as [H1|H1]].
  - left. replace (Z.max 0 (Z.min m v)) with 0%Z by lia. split; [exact H0|]. split.
    + unfold q0. apply Qle_shift_div_r; [exact HM|]. rewrite Qmult_0_l. change 0 with (inject_Z 0). rewrite <- Zle_Qle. exact H0.
    + field. lra.
  - right. left. replace (Z.max 0 (Z.min m v)) with m by lia. split; [exact H1|]. split.
    + unfold q0. apply Qle_shift_div_l; [exact HM|]. rewrite Qmult_1_l. rewrite <- Zle_Qle. exact H1.
    + field. lra.
  - right. right. replace (Z.max 0 (Z.min m v)) with v by lia. split; [lia|]. split; [|split; [|reflexivity]].
    + unfold q0. apply Qlt_shift_div_l; [exact HM|]. rewrite Qmult_0_l. change 0 with (inject_Z 0). rewrite <- Zlt_Qlt. lia.
    + unfold q0. apply Qlt_shift_div_r; [exact HM|]. rewrite Qmult_1_l. rewrite <- Zlt_Qlt. lia.
Qed.

(* the binary64 ratio is within 2^-53 of the exact one, and inside [0, 1] *)
Lemma hratio_fl_close v m : (0 < m)%Z ->
  xratio v m - eps53 <= hratio_fl v m /\ hratio_fl v m <= xratio v m + eps53 /\
  0 <= hratio_fl v m /\ hratio_fl v m <= 1 /\
  ((v <= 0)%Z -> hratio_fl v m = 0).
Proof.
  intros Hm. unfold hratio_fl. destruct (Z.leb_spec m 0) as [|_]; [lia|].
  set (q0 := inject_Z v / inject_Z m).
  destruct (xratio_cases v m Hm) as [[Hv [Hq Hx]]|[[Hv [Hq Hx]]|[Hv [Hq0 [Hq1 Hx]]]]]; fold q0 in Hq || idtac.
  - pose proof (fl53_nonpos q0 Hq) as F.
    destruct (qclamp01_spec (fl53 q0)) as [[A ->]|[[A ->]|[A [B ->]]]]; unfold eps53; try lra.
    repeat split; try lra; try reflexivity.
  - destruct (fl53_nonneg_err q0 ltac:(lra)) as [F1 F2]. unfold eps53 in *.
    destruct (qclamp01_spec (fl53 q0)) as [[A ->]|[[A ->]|[A [B ->]]]]; try lra.
    + repeat split; try lra; try (intros; lia).
    + repeat split; try lra; try (intros; lia).
  - fold q0 in Hq0, Hq1, Hx. destruct (fl53_nonneg_err q0 ltac:(lra)) as [F1 F2]. unfold eps53 in *.
    destruct (qclamp01_spec (fl53 q0)) as [[A ->]|[[A ->]|[A [B ->]]]]; try lra.
    + repeat split; try lra; try (intros; lia).
    + repeat split; try lra; try (intros; lia).
Qed.

(* the exact quotient clamp(value)*width/max_value and the error budget width * 2^-52 *)
Definition xprod (v m w : Z) : Q := inject_Z (clampv v m * w) / inject_Z m.
Definition eta (w : Z) : Q := inject_Z w * (1 # 4503599627370496).

Lemma inj_pos m : (0 < m)%Z -> 0 < inject_Z m.
Proof. intros H. change 0 with (inject_Z 0). rewrite <- Zlt_Qlt. exact H. Qed.

Lemma hfilled_fl_close v m w : (0 < m)%Z -> (1 <= w)%Z ->
  exists p, hfilled_fl v m w = round_half_even p /\
            xprod v m w - eta w <= p /\ p <= xprod v m w + eta w.
Proof.
  intros Hm Hw. exists (fl53 (hratio_fl v m * inject_Z w)). split; [reflexivity|].
  destruct (hratio_fl_close v m Hm) as (R1 & R2 & R3 & R4 & _).
  pose proof (inj_pos m Hm) as HM.
  assert (HW : 1 <= inject_Z w) by (change 1 with (inject_Z 1); rewrite <- Zle_Qle; exact Hw).
  assert (Hx : xprod v m w == xratio v m * inject_Z w).
  { unfold xprod, xratio. rewrite inject_Z_mult. field. lra. }
  set (r := hratio_fl v m) in *. set (W := inject_Z w) in *. set (X := xratio v m) in *.
  assert (A4 : 0 <= r * W) by (apply Qmult_le_0_compat; lra).
  destruct (fl53_nonneg_err (r * W) A4) as [F1 F2].
  assert (A1 : (X - eps53) * W <= r * W) by (apply Qmult_le_compat_r; lra).
  assert (A2 : r * W <= (X + eps53) * W) by (apply Qmult_le_compat_r; lra).
  assert (A3 : r * W <= 1 * W) by (apply Qmult_le_compat_r; lra).
  assert (A5 : r * W * eps53 <= 1 * W * eps53) by (apply Qmult_le_compat_r; [exact A3|unfold eps53; lra]).
  rewrite Hx. unfold eta. fold W. unfold eps53 in *. set (rW := r * W) in *. split; lra.
Qed.

Lemma eta_half w : (1 <= w < 2 ^ 51)%Z -> 0 <= eta w /\ eta w < 1 # 2.
Proof.
  intros [H1 H2]. unfold eta.
  assert (A : 1 <= inject_Z w) by (change 1 with (inject_Z 1); rewrite <- Zle_Qle; exact H1).
  assert (B : inject_Z w < inject_Z (2 ^ 51)) by (rewrite <- Zlt_Qlt; exact H2).
  change (inject_Z (2 ^ 51)) with (2251799813685248 # 1) in B. split; lra.
Qed.

(* floor of the exact quotient, in Q *)
Lemma xprod_floor v m w : (0 < m)%Z ->
  inject_Z (clampv v m * w / m) <= xprod v m w /\ xprod v m w < inject_Z (clampv v m * w / m) + 1.
Proof.
  intros Hm. unfold xprod. set (n := (clampv v m * w)%Z). pose proof (inj_pos m Hm) as HM.
  pose proof (Z.mul_div_le n m Hm) as A. pose proof (Z.mul_succ_div_gt n m Hm) as B.
  split.
  - apply Qle_shift_div_l; [exact HM|]. rewrite <- inject_Z_mult, <- Zle_Qle. lia.
  - apply Qlt_shift_div_r; [exact HM|]. change 1 with (inject_Z 1). rewrite <- inject_Z_plus, <- inject_Z_mult, <- Zlt_Qlt. lia.
Qed.

(* the binary64 result is the floor of the exact quotient or one more: every value, max_value *)
Lemma hfilled_fl_floor v m w : (0 < m)%Z -> (1 <= w < 2 ^ 51)%Z ->
  (clampv v m * w / m <= hfilled_fl v m w <= clampv v m * w / m + 1)%Z.
Proof.
  intros Hm Hw. destruct (hfilled_fl_close v m w Hm ltac:(lia)) as (p & -> & P1 & P2).
  destruct (eta_half w Hw) as [E0 E1]. destruct (xprod_floor v m w Hm) as [X1 X2].
  destruct (rhe_near_Q p) as [N1 N2]. set (R := round_half_even p) in *. set (f := (clampv v m * w / m)%Z) in *.
  assert (A : inject_Z f < inject_Z (R + 1)).
  { rewrite inject_Z_plus. change (inject_Z 1) with 1. lra. }
  assert (B : inject_Z R < inject_Z (f + 2)).
  { rewrite inject_Z_plus. change (inject_Z 2) with 2. lra. }
  rewrite <- Zlt_Qlt in A, B. lia.
Qed.

(* an integer quotient is hit exactly *)
Lemma hfilled_fl_integer v m w j : (0 < m)%Z -> (1 <= w < 2 ^ 51)%Z ->
  (clampv v m * w = j * m)%Z -> hfilled_fl v m w = j.
Proof.
  intros Hm Hw Hj. destruct (hfilled_fl_close v m w Hm ltac:(lia)) as (p & -> & P1 & P2).
  destruct (eta_half w Hw) as [E0 E1]. pose proof (inj_pos m Hm) as HM.
  assert (Hx : xprod v m w == inject_Z j).
  { unfold xprod. rewrite Hj, inject_Z_mult. field. lra. }
  apply rhe_unique_Q; lra.
Qed.

(* off the .5 ties the binary64 result is the rounding of the exact quotient *)
Lemma hfilled_fl_faithful v m w : (0 < m)%Z -> (1 <= w)%Z -> (m * w < 2 ^ 51)%Z ->
  ptie v m w = false -> hfilled_fl v m w = hfilled v m w.
Proof.
  intros Hm Hw Hmw Ht. rewrite (hfilled_Z v m w Hm ltac:(lia)).
  unfold ptie in Ht. fold (clampv v m) in Ht. destruct (Z.ltb_spec 0 m) as [_|]; [|lia]. cbn [andb] in Ht.
  apply Z.eqb_neq in Ht. set (n := (clampv v m * w)%Z) in *.
  pose proof (rhe_div_near n m Hm) as Hn. set (k := rhe_div n m) in *.
  assert (Hk : (- (m - 1) <= 2 * n - 2 * m * k <= m - 1)%Z).
  { destruct (Z.eq_dec (2 * n - 2 * m * k) m) as [E|E].
    - exfalso. apply Ht. replace (2 * n)%Z with (m + k * (2 * m))%Z by lia.
      rewrite Z.mod_add by lia. apply Z.mod_small. lia.
    - destruct (Z.eq_dec (2 * n - 2 * m * k) (- m)) as [E'|E']; [|lia].
      exfalso. apply Ht. replace (2 * n)%Z with (m + (k - 1) * (2 * m))%Z by lia.
      rewrite Z.mod_add by lia. apply Z.mod_small. lia. }
  destruct (hfilled_fl_close v m w Hm Hw) as (p & -> & P1 & P2). fold n in P1, P2.
  pose proof (inj_pos m Hm) as HM.
  assert (Hx : xprod v m w * inject_Z m == inject_Z n) by (unfold xprod; fold n; field; lra).
  set (x := xprod v m w) in *. set (M := inject_Z m) in *. set (N := inject_Z n) in *. set (K := inject_Z k).
  assert (Z1 : 2 * N - 2 * M * K <= M - 1).
  { assert (Z : inject_Z (2 * n - 2 * m * k) <= inject_Z (m - 1)) by (rewrite <- Zle_Qle; lia).
    unfold Z.sub in Z. rewrite !inject_Z_plus, !inject_Z_opp, !inject_Z_mult in Z.
    change (inject_Z 2) with 2 in Z. change (inject_Z 1) with 1 in Z. unfold N, M, K. lra. }
  assert (Z2 : - (M - 1) <= 2 * N - 2 * M * K).
  { assert (Z : inject_Z (- (m - 1)) <= inject_Z (2 * n - 2 * m * k)) by (rewrite <- Zle_Qle; lia).
    unfold Z.sub in Z. rewrite !inject_Z_plus, !inject_Z_opp, !inject_Z_plus, !inject_Z_opp, !inject_Z_mult in Z.
    change (inject_Z 2) with 2 in Z. change (inject_Z 1) with 1 in Z. unfold N, M, K. lra. }
  assert (Z3 : 2 * (M * eta w) < 1).
  { unfold eta, M.
    assert (B : inject_Z (m * w) < inject_Z (2 ^ 51)) by (rewrite <- Zlt_Qlt; exact Hmw).
    change (inject_Z (2 ^ 51)) with (2251799813685248 # 1) in B. rewrite inject_Z_mult in B. lra. }
  set (e := eta w) in *.
  apply rhe_unique_Q; fold K.
  - (* K - 1/2 < p *)
    apply Qnot_le_lt. intro C. assert (D : (x - e) * M <= (K - (1 # 2)) * M) by (apply Qmult_le_compat_r; lra). lra.
  - apply Qnot_le_lt. intro C. assert (D : (K + (1 # 2)) * M <= (x + e) * M) by (apply Qmult_le_compat_r; lra). lra.
Qed.
