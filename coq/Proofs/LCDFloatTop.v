(* Top-level statements about the binary64 host arithmetic, in the vocabulary of Props/C17.v *)
From Coq Require Import ZArith QArith Lia List Bool.
From RV Require Import Base.LcdBase Host.LCD Host.LCDFloat Device.DLCD Device.LCDRefine
  Proofs.LCDHostP Proofs.LCDDevP Proofs.LCDP Proofs.LCDTop Proofs.LCDFloatP Proofs.LCDFloatLawsP.
Open Scope Z_scope.

Lemma w40 w : 1 <= w <= 40 -> 1 <= w < 2 ^ 51.
Proof. intros H. split; [lia|]. apply Z.le_lt_trans with 40; [lia|reflexivity]. Qed.

Lemma top_fl_within_one : forall v m w, 1 <= w <= 40 -> 0 <= hfilled_fl v m w - dfilled v m w <= 1.
Proof. intros v m w Hw. apply fl_within_one, w40, Hw. Qed.

Lemma top_fl_exact : forall v m w, 1 <= w <= 40 -> (m | v * w) -> hfilled_fl v m w = dfilled v m w.
Proof. intros v m w Hw. apply fl_exact, w40, Hw. Qed.

Lemma top_fl_saturates : forall v m w, 1 <= w <= 40 ->
  0 <= hfilled_fl v m w <= w /\ (v <= 0 \/ m <= 0 -> hfilled_fl v m w = 0) /\ (0 < m <= v -> hfilled_fl v m w = w).
Proof. intros v m w Hw. apply fl_saturates, w40, Hw. Qed.

Lemma m40 m w : 1 <= w <= 40 -> m < 2 ^ 45 -> m * w < 2 ^ 51.
Proof.
  intros Hw Hm. destruct (Z_le_gt_dec m 0) as [H0|H0].
  - apply Z.le_lt_trans with 0; [nia|reflexivity].
  - apply Z.le_lt_trans with ((2 ^ 45 - 1) * 40); [nia|reflexivity].
Qed.

Lemma top_fl_monotone : forall v1 v2 m w, 1 <= w <= 40 -> m < 2 ^ 45 -> v1 <= v2 ->
  hfilled_fl v1 m w <= hfilled_fl v2 m w.
Proof. intros v1 v2 m w Hw Hm Hv. apply fl_monotone; [lia|apply m40; assumption|exact Hv]. Qed.

Lemma top_fl_faithful : forall v m w, 1 <= w <= 40 -> 0 < m < 2 ^ 45 -> ptie v m w = false ->
  hfilled_fl v m w = hfilled v m w.
Proof. intros v m w Hw Hm Ht. apply hfilled_fl_faithful; [lia|lia|apply m40; [assumption|lia]|exact Ht]. Qed.

(* a progress call whose value*width is a multiple of max_value, executed with the binary64
   arithmetic of CPython: the display shows the host buffer afterwards *)
Lemma top_progress_refines_float : forall h d row value maxv width style label,
  fitsb (d_g d) = true -> shows h d -> 0 <= row < d_rows d -> style_ok style = true -> ascii label ->
  (maxv | value * hwidth (d_cols d) width) ->
  exists h' d', hstep_fl h (OProgress row value maxv width style label) = (h', HOk) /\
                dstep d (OProgress row value maxv width style label) = Some d' /\ shows h' d'.
Proof.
  intros h d row value maxv width style label Hf Sh Hr Hs Hl Hdiv.
  pose proof (fitsb_fits _ Hf) as (Hc & _). fold (d_cols d) in Hc.
  destruct (width_agree (d_cols d) width ltac:(lia)) as [Ew Hwr].
  assert (Eg : h_cols h = d_cols d) by (destruct Sh as (G & _); unfold h_cols, d_cols; rewrite G; reflexivity).
  rewrite hstep_fl_same.
  - apply top_progress_refines_exact; assumption.
  - rewrite Eg. rewrite (top_fl_exact value maxv (hwidth (d_cols d) width) ltac:(lia) Hdiv).
    symmetry. apply progress_exact; [lia|exact Hdiv].
Qed.
