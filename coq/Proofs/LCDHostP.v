(* Lemmas about the host LCD model (Host/LCD.v). *)
From Coq Require Import ZArith QArith List Bool Lia.
From RV Require Import Base.LcdBase Host.LCD Proofs.LCDListP.
Import ListNotations.
Open Scope Z_scope.

(* ---------- the character loop of _place_text ---------- *)
Lemma place_length content : forall line col cols, length (place line col content cols) = length line.
Proof.
  induction content as [|ch rest IH]; intros line col cols; cbn [place]; [reflexivity|].
  rewrite IH. destruct ((0 <=? col) && (col <? cols)); [apply length_zupd|reflexivity].
Qed.

Lemma place_nth content : forall line col cols (j : nat) d,
  zlen line = cols -> (j < length line)%nat ->
  nth j (place line col content cols) d =
    if (col <=? Z.of_nat j) && (Z.of_nat j <? col + zlen content)
    then znth (Z.of_nat j - col) content d else nth j line d.
Proof.
  induction content as [|ch rest IH]; intros line col cols j d Hlen Hj; cbn [place].
  - rewrite zlen_nil. destruct (Z.leb_spec col (Z.of_nat j)); destruct (Z.ltb_spec (Z.of_nat j) (col + 0)); try lia; reflexivity.
  - rewrite zlen_cons.
    set (line' := if (0 <=? col) && (col <? cols) then zupd col ch line else line).
    assert (Hlen' : zlen line' = cols).
    { subst line'. destruct ((0 <=? col) && (col <? cols)); [rewrite zlen_zupd|]; exact Hlen. }
    assert (Hj' : (j < length line')%nat).
    { subst line'. destruct ((0 <=? col) && (col <? cols)); [rewrite length_zupd|]; exact Hj. }
    rewrite (IH line' (col + 1) cols j d Hlen' Hj').
    assert (Hjc : Z.of_nat j < cols) by (unfold zlen in Hlen; lia).
    destruct (Z.eq_dec (Z.of_nat j) col) as [E|E].
    + (* the cell written by this character *)
      destruct (Z.leb_spec (col + 1) (Z.of_nat j)); [lia|]. cbn [andb].
      destruct (Z.leb_spec col (Z.of_nat j)); [|lia].
      destruct (Z.ltb_spec (Z.of_nat j) (col + (zlen rest + 1))); [|pose proof (zlen_nonneg rest); lia].
      cbn [andb]. subst line'.
      destruct (Z.leb_spec 0 col); [|lia]. destruct (Z.ltb_spec col cols); [|lia]. cbn [andb].
      rewrite nth_zupd_nat.
      destruct (Z.eqb_spec (Z.of_nat j) col); [|lia].
      destruct (Z.ltb_spec col (zlen line)); [|lia]. cbn [andb].
      unfold znth. replace (Z.to_nat (Z.of_nat j - col)) with 0%nat by lia. reflexivity.
    + assert (Hline : nth j line' d = nth j line d).
      { subst line'. destruct ((0 <=? col) && (col <? cols)); [|reflexivity].
        rewrite nth_zupd_nat. destruct (Z.eqb_spec (Z.of_nat j) col); [lia|]. reflexivity. }
      rewrite Hline.
      destruct (Z.leb_spec (col + 1) (Z.of_nat j)); destruct (Z.leb_spec col (Z.of_nat j)); try lia;
        cbn [andb]; try reflexivity.
      destruct (Z.ltb_spec (Z.of_nat j) (col + 1 + zlen rest));
        destruct (Z.ltb_spec (Z.of_nat j) (col + (zlen rest + 1))); try lia; try reflexivity.
      unfold znth. replace (Z.to_nat (Z.of_nat j - col)) with (S (Z.to_nat (Z.of_nat j - (col + 1)))) by lia.
      reflexivity.
Qed.

(* ---------- rows of the buffer ---------- *)
Lemma buf_wf_zupd cols rows b row line :
  buf_wf cols rows b -> zlen line = cols -> buf_wf cols rows (zupd row line b).
Proof.
  intros [Hl Hf] Hline. split; [rewrite zlen_zupd; exact Hl|]. apply Forall_zupd; assumption.
Qed.

Lemma buf_wf_row cols rows b r : buf_wf cols rows b -> 0 <= r < rows -> zlen (znth r b []) = cols.
Proof.
  intros [Hl Hf] Hr. rewrite Forall_forall in Hf. apply Hf. unfold znth. apply nth_In. unfold zlen in Hl. lia.
Qed.

Lemma zlen_blank_row cols : 0 <= cols -> zlen (blank_row cols) = cols.
Proof. intros H. unfold blank_row. rewrite zlen_zrepeat. lia. Qed.

Lemma buf_wf_blank cols rows : 0 <= cols -> 0 <= rows -> buf_wf cols rows (blank_buf cols rows).
Proof.
  intros Hc Hr. unfold blank_buf. split; [rewrite zlen_zrepeat; lia|].
  apply Forall_forall. intros x Hx. unfold zrepeat in Hx. apply repeat_spec in Hx. subst x. apply zlen_blank_row. exact Hc.
Qed.

Lemma znth_blank_buf cols rows r c :
  0 <= r < rows -> 0 <= c < cols -> znth c (znth r (blank_buf cols rows) []) 0 = SP.
Proof.
  intros Hr Hc. unfold blank_buf. rewrite znth_zrepeat by exact Hr. unfold blank_row. apply znth_zrepeat. exact Hc.
Qed.

Lemma zlen_ljust t cols : zlen t <= cols -> zlen (ljust t cols) = cols.
Proof. intros H. unfold ljust. rewrite zlen_app, zlen_zrepeat. lia. Qed.

Lemma znth_ljust t cols c d : 0 <= c < cols -> zlen t <= cols ->
  znth c (ljust t cols) d = if c <? zlen t then znth c t d else SP.
Proof.
  intros Hc Ht. unfold ljust. destruct (Z.ltb_spec c (zlen t)).
  - apply znth_app_l. lia.
  - rewrite znth_app_r by lia. apply znth_zrepeat. lia.
Qed.

(* ---------- progress arithmetic ---------- *)
(* the rounding rule on an integer quotient n/m, m > 0 *)
Definition rhe_div (n m : Z) : Z :=
  let fl := n / m in
  let r2 := 2 * (n mod m) in
  if r2 <? m then fl else if m <? r2 then fl + 1 else if Z.even fl then fl else fl + 1.

Lemma round_half_even_make n p : round_half_even (n # p) = rhe_div n (Zpos p).
Proof. reflexivity. Qed.

(* nearest: |n/m - k| <= 1/2 *)
Lemma rhe_div_near n m : 0 < m -> - m <= 2 * n - 2 * m * rhe_div n m <= m.
Proof.
  intros Hm. unfold rhe_div.
  pose proof (Z.div_mod n m ltac:(lia)) as E. pose proof (Z.mod_pos_bound n m Hm) as B.
  set (q := n / m) in *. set (r := n mod m) in *.
  destruct (Z.ltb_spec (2 * r) m); [nia|].
  destruct (Z.ltb_spec m (2 * r)); [nia|].
  destruct (Z.even q); nia.
Qed.

(* at an exact tie the even neighbour is taken *)
Lemma rhe_div_tie n m : 0 < m -> 2 * n - 2 * m * rhe_div n m = m \/ 2 * n - 2 * m * rhe_div n m = - m ->
  Z.even (rhe_div n m) = true.
Proof.
  intros Hm. unfold rhe_div.
  pose proof (Z.div_mod n m ltac:(lia)) as E. pose proof (Z.mod_pos_bound n m Hm) as B.
  set (q := n / m) in *. set (r := n mod m) in *.
  destruct (Z.ltb_spec (2 * r) m); [nia|].
  destruct (Z.ltb_spec m (2 * r)); [nia|].
  destruct (Z.even q) eqn:Ev; intros _; [exact Ev|].
  rewrite Z.even_add, Ev. reflexivity.
Qed.

Lemma rhe_div_exact k m : 0 < m -> rhe_div (k * m) m = k.
Proof.
  intros Hm. unfold rhe_div. rewrite Z.div_mul by lia. rewrite Z.mod_mul by lia.
  destruct (Z.ltb_spec (2 * 0) m); [reflexivity|lia].
Qed.

Lemma rhe_div_mono n1 n2 m : 0 < m -> n1 <= n2 -> rhe_div n1 m <= rhe_div n2 m.
Proof.
  intros Hm Hn.
  destruct (Z.eq_dec n1 n2) as [->|Hne]; [lia|].
  pose proof (rhe_div_near n1 m Hm). pose proof (rhe_div_near n2 m Hm).
  destruct (Z.le_gt_cases (rhe_div n1 m) (rhe_div n2 m)); [assumption|]. nia.
Qed.

Definition clampv (value maxv : Z) : Z := Z.max 0 (Z.min maxv value).

Lemma hratio_pos value p : hratio value (Z.pos p) = qclamp01 ((value * 1) # p).
Proof.
  unfold hratio. change (Z.pos p <=? 0) with false. cbv iota.
  unfold Qdiv, Qinv, Qmult, inject_Z. cbn [Qnum Qden]. rewrite Pos.mul_1_l. reflexivity.
Qed.

Lemma qclamp01_cases v p :
  (Z.pos p <= v /\ qclamp01 ((v * 1) # p) = 1%Q) \/
  (v <= 0 /\ qclamp01 ((v * 1) # p) = 0%Q) \/
  (0 < v < Z.pos p /\ qclamp01 ((v * 1) # p) = ((v * 1) # p)).
Proof.
  unfold qclamp01.
  destruct (Qle_bool 1 ((v * 1) # p)) eqn:E1.
  - left. unfold Qle_bool in E1. cbn [Qnum Qden] in E1. apply Z.leb_le in E1. split; [lia|reflexivity].
  - right. unfold Qle_bool in E1. cbn [Qnum Qden] in E1. apply Z.leb_gt in E1.
    destruct (Qle_bool ((v * 1) # p) 0) eqn:E0; unfold Qle_bool in E0; cbn [Qnum Qden] in E0.
    + apply Z.leb_le in E0. left. split; [lia|reflexivity].
    + apply Z.leb_gt in E0. right. split; [lia|reflexivity].
Qed.

(* the host's filled length as integer arithmetic *)
Lemma hfilled_Z value maxv w : 0 < maxv -> 0 <= w ->
  hfilled value maxv w = rhe_div (clampv value maxv * w) maxv.
Proof.
  intros Hm Hw. destruct maxv as [|p|p]; try lia.
  unfold hfilled, clampv. rewrite hratio_pos.
  destruct (qclamp01_cases value p) as [[H E]|[[H E]|[H E]]]; rewrite E;
    unfold Qmult, inject_Z; cbn [Qnum Qden]; rewrite round_half_even_make.
  - replace (Z.max 0 (Z.min (Z.pos p) value)) with (Z.pos p) by lia.
    rewrite (Z.mul_comm (Z.pos p) w), rhe_div_exact by lia.
    change (Z.pos (1 * 1)) with 1. replace (1 * w) with (w * 1) by lia. apply rhe_div_exact. lia.
  - replace (Z.max 0 (Z.min (Z.pos p) value)) with 0 by lia.
    change (0 * w) with 0. unfold rhe_div. rewrite !Z.div_0_l, !Z.mod_0_l by lia. reflexivity.
  - replace (Z.max 0 (Z.min (Z.pos p) value)) with value by lia.
    rewrite Pos.mul_1_r. replace (value * 1 * w) with (value * w) by lia. reflexivity.
Qed.

Lemma clampv_range v m : 0 < m -> 0 <= clampv v m <= m.
Proof. unfold clampv. lia. Qed.

Lemma hfilled_range v m w : 0 < m -> 0 <= w -> 0 <= hfilled v m w <= w.
Proof.
  intros Hm Hw. rewrite hfilled_Z by assumption.
  pose proof (clampv_range v m Hm). pose proof (rhe_div_near (clampv v m * w) m Hm).
  split; nia.
Qed.
