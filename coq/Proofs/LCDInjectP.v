(* C18 - tick injection over the block structure: the two walks of Device/DLCDInject.v refine the flat
   injection rule of Device/DLCDAnim.v, so that rule's theorems hold for call sites at any depth in any
   body of any block kind (except handlers included). *)
From Coq Require Import ZArith List Bool Lia.
From RV Require Import Host.LCDAnim Device.DLCDAnim Device.DLCDInject Proofs.LCDAnimP.
Import ListNotations.
Open Scope Z_scope.

(* ---- induction over statements with nested bodies *)
Section StmtInd.
  Variable P : stmt -> Prop.
  Hypothesis HA : forall n sty, P (SAnim n sty).
  Hypothesis HO : P SOther.
  Hypothesis HB : forall k bodies, Forall (Forall P) bodies -> P (SBlock k bodies).
  Fixpoint stmt_ind' (s : stmt) : P s :=
    match s with
    | SAnim n sty => HA n sty
    | SOther => HO
    | SBlock k bodies =>
        HB k bodies
          ((fix go (bs : list (list stmt)) : Forall (Forall P) bs :=
              match bs with
              | [] => Forall_nil _
              | b :: bs' =>
                  Forall_cons b
                    ((fix go2 (b0 : list stmt) : Forall P b0 :=
                        match b0 with
                        | [] => Forall_nil _
                        | s' :: b' => Forall_cons s' (stmt_ind' s') (go2 b')
                        end) b)
                    (go bs')
              end) bodies)
    end.
End StmtInd.

(* ---- the emitter's walk = registering the call sites in source order *)
Definition reg_sites (sites : list site) (r : registry) : registry :=
  fold_left (fun r0 s => r0 ++ [(fst s, reg_counter (fst s) r0, snd s)]) sites r.

Lemma reg_sites_app a b r : reg_sites (a ++ b) r = reg_sites b (reg_sites a r).
Proof. apply fold_left_app. Qed.

Lemma emit_stmt_flat s : forall r, emit_stmt s r = reg_sites (flat s) r.
Proof.
  induction s as [n sty| |k bodies H] using stmt_ind'; intro r; [reflexivity|reflexivity|].
  cbn [emit_stmt flat]. revert r. induction H as [|b bs Hb Hbs IH]; intro r; [reflexivity|].
  cbn [fold_left flat_map]. rewrite reg_sites_app, <- IH. f_equal.
  clear - Hb. revert r. induction Hb as [|s b Hs Hb IHb]; intro r; [reflexivity|].
  cbn [fold_left flat_map]. rewrite reg_sites_app, <- IHb, Hs. reflexivity.
Qed.

Lemma emit_block_flat b : forall r, emit_block b r = reg_sites (flats b) r.
Proof.
  unfold emit_block, flats. induction b as [|s b IH]; intro r; [reflexivity|].
  cbn [fold_left flat_map]. rewrite reg_sites_app, <- IH, emit_stmt_flat. reflexivity.
Qed.

Lemma of_name_app name a b : of_name name (a ++ b) = of_name name a ++ of_name name b.
Proof. apply filter_app. Qed.

Lemma reg_counter_app name a b : reg_counter name (a ++ b) = reg_counter name a + reg_counter name b.
Proof. unfold reg_counter. rewrite of_name_app, zlen_app. reflexivity. Qed.

Lemma of_name_single name n k sty :
  of_name name [(n, k, sty)] = if n =? name then [(n, k, sty)] else [].
Proof. reflexivity. Qed.

Lemma reg_counter_single name n k sty :
  reg_counter name [(n, k, sty)] = if n =? name then 1 else 0.
Proof. unfold reg_counter. rewrite of_name_single. destruct (n =? name); reflexivity. Qed.

Lemma of_name_reg_sites name sites : forall r,
  of_name name (reg_sites sites r) = of_name name r ++ registered name (reg_counter name r) sites.
Proof.
  induction sites as [|[n sty] rest IH]; intro r.
  - cbn [reg_sites fold_left registered]. rewrite app_nil_r. reflexivity.
  - unfold reg_sites. cbn [fold_left fst snd]. fold (reg_sites rest (r ++ [(n, reg_counter n r, sty)])).
    rewrite IH, of_name_app, reg_counter_app, reg_counter_single, of_name_single. cbn [registered].
    destruct (n =? name) eqn:E.
    + apply Z.eqb_eq in E. subst n. rewrite <- app_assoc. cbn [app]. reflexivity.
    + rewrite app_nil_r, Z.add_0_r. reflexivity.
Qed.

(* ---- the parser's walk = the names of the call sites (reversed: prepended as they are met) *)
Lemma pnames_flat s : forall acc, pnames s acc = rev (map fst (flat s)) ++ acc.
Proof.
  induction s as [n sty| |k bodies H] using stmt_ind'; intro acc; [reflexivity|reflexivity|].
  cbn [pnames flat]. revert acc. induction H as [|b bs Hb Hbs IH]; intro acc; [reflexivity|].
  cbn [fold_left flat_map]. rewrite IH, map_app, rev_app_distr, <- app_assoc. f_equal.
  clear - Hb. revert acc. induction Hb as [|s b Hs Hb IHb]; intro acc; [reflexivity|].
  cbn [fold_left flat_map]. rewrite IHb, Hs, map_app, rev_app_distr, <- app_assoc. reflexivity.
Qed.

Lemma pnames_block_flat b : forall acc, pnames_block b acc = rev (map fst (flats b)) ++ acc.
Proof.
  unfold pnames_block, flats. induction b as [|s b IH]; intro acc; [reflexivity|].
  cbn [fold_left flat_map]. rewrite IH, pnames_flat, map_app, rev_app_distr, <- app_assoc. reflexivity.
Qed.

(* sorted(set(.)) depends on the members only *)
Lemma ssorted_unique l1 : forall l2, ssorted l1 -> ssorted l2 -> (forall x, In x l1 <-> In x l2) -> l1 = l2.
Proof.
  induction l1 as [|x r1 IH]; intros [|y r2] S1 S2 E.
  - reflexivity.
  - exfalso. apply (proj2 (E y)). left. reflexivity.
  - exfalso. apply (proj1 (E x)). left. reflexivity.
  - destruct S1 as [A1 S1], S2 as [A2 S2].
    assert (x = y) as ->.
    { destruct (proj1 (E x) (or_introl eq_refl)) as [Hy|Hy]; [congruence|].
      destruct (proj2 (E y) (or_introl eq_refl)) as [Hx|Hx]; [congruence|].
      specialize (A1 _ Hx). specialize (A2 _ Hy). lia. }
    f_equal. apply IH; auto. intro z. split; intro Hz.
    + destruct (proj1 (E z) (or_intror Hz)) as [->|]; [|assumption]. specialize (A1 _ Hz). lia.
    + destruct (proj2 (E z) (or_intror Hz)) as [->|]; [|assumption]. specialize (A2 _ Hz). lia.
Qed.

Lemma sorted_set_ext l1 l2 : (forall x, In x l1 <-> In x l2) -> sorted_set l1 = sorted_set l2.
Proof.
  intro E. apply ssorted_unique; try apply sorted_set_ssorted.
  intro x. rewrite !In_sorted_set. apply E.
Qed.

Lemma parser_ticks_flat setup loop :
  parser_ticks setup loop = sorted_set (map fst (flats setup ++ flats loop)).
Proof.
  unfold parser_ticks. rewrite !pnames_block_flat. apply sorted_set_ext. intro x.
  rewrite app_nil_r, map_app, !in_app_iff, <- !in_rev. tauto.
Qed.

Lemma reg_counter_nil name : reg_counter name [] = 0.
Proof. reflexivity. Qed.

(* ---- refinement: the tree walks compute the flat rule on the call sites in source order *)
Lemma tree_loop_ticks_flat setup loop :
  tree_loop_ticks setup loop = loop_ticks (flats setup) (flats loop).
Proof.
  unfold tree_loop_ticks, loop_ticks. rewrite parser_ticks_flat. apply flat_map_ext. intro name.
  rewrite emit_block_flat, of_name_reg_sites. reflexivity.
Qed.

Lemma tree_all_vars_flat setup loop :
  tree_all_vars setup loop = all_vars (flats setup) (flats loop).
Proof.
  unfold tree_all_vars, all_vars. rewrite parser_ticks_flat. apply flat_map_ext. intro name.
  rewrite !emit_block_flat, <- reg_sites_app, of_name_reg_sites. reflexivity.
Qed.

(* ---- [flats] really is "every call site at any depth" *)
Lemma flats_In_body k bodies body b : In (SBlock k bodies) b -> In body bodies -> incl (flats body) (flats b).
Proof.
  intros Hb Hbody x Hx. unfold flats in *. apply in_flat_map. exists (SBlock k bodies). split; [exact Hb|].
  cbn [flat]. apply in_flat_map. exists body. split; assumption.
Qed.

Lemma occurs_flats n sty b : occurs (SAnim n sty) b -> In (n, sty) (flats b).
Proof.
  induction 1 as [b H|b k bodies body Hb Hbody _ IH].
  - unfold flats. apply in_flat_map. exists (SAnim n sty). split; [exact H|left; reflexivity].
  - eapply flats_In_body; eauto.
Qed.

Lemma flat_occurs n sty s : In (n, sty) (flat s) -> s = SAnim n sty \/ exists k bodies body, s = SBlock k bodies /\ In body bodies /\ occurs (SAnim n sty) body.
Proof.
  induction s as [n0 sty0| |k bodies H] using stmt_ind'; intro Hin.
  - left. destruct Hin as [E|[]]. inversion E. reflexivity.
  - destruct Hin.
  - right. cbn [flat] in Hin. apply in_flat_map in Hin as (body & Hbody & Hin).
    exists k, bodies, body. split; [reflexivity|]. split; [exact Hbody|].
    rewrite Forall_forall in H. specialize (H _ Hbody). rewrite Forall_forall in H.
    apply in_flat_map in Hin as (s & Hs & Hin). destruct (H _ Hs Hin) as [->|(k' & bodies' & body' & -> & Hb' & Ho)].
    + apply occ_here. exact Hs.
    + eapply occ_deeper; eauto.
Qed.

Lemma flats_occurs n sty b : In (n, sty) (flats b) -> occurs (SAnim n sty) b.
Proof.
  unfold flats. intro Hin. apply in_flat_map in Hin as (s & Hs & Hin).
  destruct (flat_occurs _ _ _ Hin) as [->|(k & bodies & body & -> & Hb & Ho)].
  - apply occ_here. exact Hs.
  - eapply occ_deeper; eauto.
Qed.

(* ---- the theorems of Props/C18.v *)

(* every tick call belongs to a call site of setup: the k-th site of display n, with that site's style *)
Lemma reg_In_site name sites : forall k n k' sty,
  In (n, k', sty) (registered name k sites) ->
  n = name /\ exists pre post, sites = pre ++ (name, sty) :: post /\ k' = k + count_name name pre.
Proof.
  induction sites as [|[n0 s0] rest IH]; intros k n k' sty H; cbn [registered] in H; [destruct H|].
  destruct (n0 =? name) eqn:E.
  - apply Z.eqb_eq in E. subst n0. destruct H as [H|H].
    + inversion H; subst. split; [reflexivity|]. exists [], rest. split; [reflexivity|]. unfold count_name. cbn. lia.
    + apply IH in H as (-> & pre & post & -> & ->). split; [reflexivity|].
      exists ((name, s0) :: pre), post. split; [reflexivity|]. rewrite count_name_cons. cbn [fst]. rewrite Z.eqb_refl. lia.
  - apply IH in H as (-> & pre & post & -> & ->). split; [reflexivity|].
    exists ((n0, s0) :: pre), post. split; [reflexivity|]. rewrite count_name_cons. cbn [fst]. rewrite E. lia.
Qed.

Lemma loop_tick_has_site setup loop n k sty :
  In (n, k, sty) (loop_ticks setup loop) ->
  exists pre post, setup = pre ++ (n, sty) :: post /\ k = count_name n pre.
Proof.
  unfold loop_ticks. intro H. apply in_flat_map in H as (name & _ & H).
  apply reg_In_site in H as (-> & pre & post & E & ->). exists pre, post. split; [exact E|lia].
Qed.

Lemma tree_site_ticked setup loop pre n sty post :
  flats setup = pre ++ (n, sty) :: post ->
  In (n, count_name n pre, sty) (tree_loop_ticks setup loop) /\ NoDup (tree_loop_ticks setup loop).
Proof. intro E. rewrite tree_loop_ticks_flat. apply (setup_site_ticked _ _ _ _ _ _ E). Qed.

Lemma tree_tick_has_site setup loop n k sty :
  In (n, k, sty) (tree_loop_ticks setup loop) ->
  exists pre post, flats setup = pre ++ (n, sty) :: post /\ k = count_name n pre.
Proof. rewrite tree_loop_ticks_flat. apply loop_tick_has_site. Qed.

Lemma tree_occurrence_ticked setup loop n sty :
  occurs (SAnim n sty) setup -> exists k, In (n, k, sty) (tree_loop_ticks setup loop).
Proof.
  intro H. apply occurs_flats in H. apply in_split in H as (pre & post & E).
  exists (count_name n pre). exact (proj1 (tree_site_ticked _ loop _ _ _ _ E)).
Qed.

Lemma tree_tick_occurs setup loop n k sty :
  In (n, k, sty) (tree_loop_ticks setup loop) -> occurs (SAnim n sty) setup.
Proof.
  intro H. apply tree_tick_has_site in H as (pre & post & E & _). apply flats_occurs.
  rewrite E. apply in_or_app. right. left. reflexivity.
Qed.

Lemma tree_injected_partial setup :
  tree_loop_ticks setup [] = tree_all_vars setup [] /\ NoDup (tree_loop_ticks setup []).
Proof.
  rewrite tree_loop_ticks_flat, tree_all_vars_flat. split; [apply loop_ticks_all_vars|apply loop_ticks_NoDup].
Qed.

Lemma tree_loop_site_never_ticked setup loop pre n sty post :
  flats loop = pre ++ (n, sty) :: post ->
  In (n, count_name n (flats setup) + count_name n pre, sty) (tree_all_vars setup loop) /\
  forall sty', ~ In (n, count_name n (flats setup) + count_name n pre, sty') (tree_loop_ticks setup loop).
Proof. intro E. rewrite tree_loop_ticks_flat, tree_all_vars_flat. apply (loop_site_never_ticked _ _ _ _ _ _ E). Qed.

Lemma tree_occurrence_ticked_iff setup loop n sty :
  occurs (SAnim n sty) setup <-> exists k, In (n, k, sty) (tree_loop_ticks setup loop).
Proof.
  split; [apply tree_occurrence_ticked|]. intros [k Hk]. exact (tree_tick_occurs _ _ _ _ _ Hk).
Qed.

Lemma flats_occurs_iff n sty b : In (n, sty) (flats b) <-> occurs (SAnim n sty) b.
Proof. split; [apply flats_occurs|apply occurs_flats]. Qed.

Lemma nested_walks_refine setup loop :
  tree_loop_ticks setup loop = loop_ticks (flats setup) (flats loop) /\
  tree_all_vars setup loop = all_vars (flats setup) (flats loop) /\
  parser_ticks setup loop = sorted_set (map fst (flats setup ++ flats loop)).
Proof. split; [apply tree_loop_ticks_flat|split; [apply tree_all_vars_flat|apply parser_ticks_flat]]. Qed.

(* ---- non-vacuity / discrimination *)

(* main display animated in the try body, status display only in the second of two handlers, nested in an if *)
Definition ex_handler_tree : list stmt :=
  [SOther;
   SBlock KIf [[SBlock KTry [[SAnim 0 Scroll; SOther]; [SOther]; [SBlock KFor [[SAnim 1 Blink]]]]]; [SOther]]].

Lemma ex_handler_ticked :
  occurs (SAnim 1 Blink) ex_handler_tree /\
  flats ex_handler_tree = [(0, Scroll); (1, Blink)] /\
  tree_loop_ticks ex_handler_tree [SOther] = [(0, 0, Scroll); (1, 0, Blink)].
Proof.
  split; [|split; reflexivity].
  eapply occ_deeper; [right; left; reflexivity|left; reflexivity|].
  eapply occ_deeper; [left; reflexivity|right; right; left; reflexivity|].
  eapply occ_deeper; [left; reflexivity|left; reflexivity|].
  apply occ_here. left. reflexivity.
Qed.

(* a name collection that follows try bodies only would leave the status display without a tick *)
Lemma ex_forgetful_walk_differs :
  sorted_set (fold_left (fun a s => pnames_no_handlers s a) ex_handler_tree []) = [0] /\
  parser_ticks ex_handler_tree [] = [0; 1].
Proof. split; reflexivity. Qed.
