(* C18 - tick injection over the block structure: the two walks of Device/DLCDInject.v refine the flat
   injection rule of Device/DLCDAnim.v, so that rule's theorems hold for call sites at any depth in any
   body of any block kind (except handlers included), before the main loop, inside it and inside function
   bodies. *)
From Coq Require Import ZArith List Bool Lia.
From RV Require Import Host.LCDAnim Device.DLCDAnim Device.DLCDInject Proofs.LCDAnimP.
Import ListNotations.
Open Scope Z_scope.

(* ---- induction over statements with nested bodies *)
Section StmtInd.
  Variable P : stmt -> Prop.
  Hypothesis HA : forall n sty, P (SAnim n sty).
  Hypothesis HO : P SOther.
  Hypothesis HB : forall k bodies, Forall (Forall P) bodies -> P (SBlock k bodies).
  Fixpoint stmt_ind' (s : stmt) : P s :=
    match s with
    | SAnim n sty => HA n sty
    | SOther => HO
    | SBlock k bodies =>
        HB k bodies
          ((fix go (bs : list (list stmt)) : Forall (Forall P) bs :=
              match bs with
              | [] => Forall_nil _
              | b :: bs' =>
                  Forall_cons b
                    ((fix go2 (b0 : list stmt) : Forall P b0 :=
                        match b0 with
                        | [] => Forall_nil _
                        | s' :: b' => Forall_cons s' (stmt_ind' s') (go2 b')
                        end) b)
                    (go bs')
              end) bodies)
    end.
End StmtInd.

(* ---- the emitter's walk = registering the call sites in source order *)
Definition reg_sites (sites : list site) (r : registry) : registry :=
  fold_left (fun r0 s => r0 ++ [(fst s, reg_counter (fst s) r0, snd s)]) sites r.

Lemma reg_sites_app a b r : reg_sites (a ++ b) r = reg_sites b (reg_sites a r).
Proof. apply fold_left_app. Qed.

Lemma emit_stmt_flat s : forall r, emit_stmt s r = reg_sites (flat s) r.
Proof.
  induction s as [n sty| |k bodies H] using stmt_ind'; intro r; [reflexivity|reflexivity|].
  cbn [emit_stmt flat]. revert r. induction H as [|b bs Hb Hbs IH]; intro r; [reflexivity|].
  cbn [fold_left flat_map]. rewrite reg_sites_app, <- IH. f_equal.
  clear - Hb. revert r. induction Hb as [|s b Hs Hb IHb]; intro r; [reflexivity|].
  cbn [fold_left flat_map]. rewrite reg_sites_app, <- IHb, Hs. reflexivity.
Qed.

Lemma emit_block_flat b : forall r, emit_block b r = reg_sites (flats b) r.
Proof.
  unfold emit_block, flats. induction b as [|s b IH]; intro r; [reflexivity|].
  cbn [fold_left flat_map]. rewrite reg_sites_app, <- IH, emit_stmt_flat. reflexivity.
Qed.

Lemma of_name_app name a b : of_name name (a ++ b) = of_name name a ++ of_name name b.
Proof. apply filter_app. Qed.

Lemma reg_counter_app name a b : reg_counter name (a ++ b) = reg_counter name a + reg_counter name b.
Proof. unfold reg_counter. rewrite of_name_app, zlen_app. reflexivity. Qed.

Lemma of_name_single name n k sty :
  of_name name [(n, k, sty)] = if n =? name then [(n, k, sty)] else [].
Proof. reflexivity. Qed.

Lemma reg_counter_single name n k sty :
  reg_counter name [(n, k, sty)] = if n =? name then 1 else 0.
Proof. unfold reg_counter. rewrite of_name_single. destruct (n =? name); reflexivity. Qed.

Lemma of_name_reg_sites name sites : forall r,
  of_name name (reg_sites sites r) = of_name name r ++ registered name (reg_counter name r) sites.
Proof.
  induction sites as [|[n sty] rest IH]; intro r.
  - cbn [reg_sites fold_left registered]. rewrite app_nil_r. reflexivity.
  - unfold reg_sites. cbn [fold_left fst snd]. fold (reg_sites rest (r ++ [(n, reg_counter n r, sty)])).
    rewrite IH, of_name_app, reg_counter_app, reg_counter_single, of_name_single. cbn [registered].
    destruct (n =? name) eqn:E.
    + apply Z.eqb_eq in E. subst n. rewrite <- app_assoc. cbn [app]. reflexivity.
    + rewrite app_nil_r, Z.add_0_r. reflexivity.
Qed.

(* ---- the parser's walk = the names of the call sites (reversed: prepended as they are met) *)
Lemma pnames_flat s : forall acc, pnames s acc = rev (map fst (flat s)) ++ acc.
Proof.
  induction s as [n sty| |k bodies H] using stmt_ind'; intro acc; [reflexivity|reflexivity|].
  cbn [pnames flat]. revert acc. induction H as [|b bs Hb Hbs IH]; intro acc; [reflexivity|].
  cbn [fold_left flat_map]. rewrite IH, map_app, rev_app_distr, <- app_assoc. f_equal.
  clear - Hb. revert acc. induction Hb as [|s b Hs Hb IHb]; intro acc; [reflexivity|].
  cbn [fold_left flat_map]. rewrite IHb, Hs, map_app, rev_app_distr, <- app_assoc. reflexivity.
Qed.

Lemma pnames_block_flat b : forall acc, pnames_block b acc = rev (map fst (flats b)) ++ acc.
Proof.
  unfold pnames_block, flats. induction b as [|s b IH]; intro acc; [reflexivity|].
  cbn [fold_left flat_map]. rewrite IH, pnames_flat, map_app, rev_app_distr, <- app_assoc. reflexivity.
Qed.

(* sorted(set(.)) depends on the members only *)
Lemma ssorted_unique l1 : forall l2, ssorted l1 -> ssorted l2 -> (forall x, In x l1 <-> In x l2) -> l1 = l2.
Proof.
  induction l1 as [|x r1 IH]; intros [|y r2] S1 S2 E.
  - reflexivity.
  - exfalso. apply (proj2 (E y)). left. reflexivity.
  - exfalso. apply (proj1 (E x)). left. reflexivity.
  - destruct S1 as [A1 S1], S2 as [A2 S2].
    assert (x = y) as ->.
    { destruct (proj1 (E x) (or_introl eq_refl)) as [Hy|Hy]; [congruence|].
      destruct (proj2 (E y) (or_introl eq_refl)) as [Hx|Hx]; [congruence|].
      specialize (A1 _ Hx). specialize (A2 _ Hy). lia. }
    f_equal. apply IH; auto. intro z. split; intro Hz.
    + destruct (proj1 (E z) (or_intror Hz)) as [->|]; [|assumption]. specialize (A1 _ Hz). lia.
    + destruct (proj2 (E z) (or_intror Hz)) as [->|]; [|assumption]. specialize (A2 _ Hz). lia.
Qed.

Lemma sorted_set_ext l1 l2 : (forall x, In x l1 <-> In x l2) -> sorted_set l1 = sorted_set l2.
Proof.
  intro E. apply ssorted_unique; try apply sorted_set_ssorted.
  intro x. rewrite !In_sorted_set. apply E.
Qed.

Lemma parser_ticks_flat setup loop :
  parser_ticks setup loop = sorted_set (map fst (flats setup ++ flats loop)).
Proof.
  unfold parser_ticks. rewrite !pnames_block_flat. apply sorted_set_ext. intro x.
  rewrite app_nil_r, map_app, !in_app_iff, <- !in_rev. tauto.
Qed.

Lemma reg_counter_nil name : reg_counter name [] = 0.
Proof. reflexivity. Qed.

(* ---- refinement: the tree walks compute the flat rule on the call sites in source order *)
Lemma tree_registry_flat setup loop : tree_registry setup loop = reg_sites (flats setup ++ flats loop) [].
Proof. unfold tree_registry. rewrite !emit_block_flat, <- reg_sites_app. reflexivity. Qed.

Lemma tree_loop_ticks_flat setup loop :
  tree_loop_ticks setup loop = loop_ticks (flats setup) (flats loop).
Proof.
  unfold tree_loop_ticks, loop_ticks. rewrite parser_ticks_flat. apply flat_map_ext. intro name.
  rewrite tree_registry_flat, of_name_reg_sites. reflexivity.
Qed.

(* the names in the registry are names of call sites *)
Lemma reg_sites_names sites : forall r v, In v (reg_sites sites r) -> In v r \/ In (fst (fst v)) (map fst sites).
Proof.
  induction sites as [|[n sty] rest IH]; intros r v H; [left; exact H|].
  unfold reg_sites in H. cbn [fold_left fst snd] in H. fold (reg_sites rest (r ++ [(n, reg_counter n r, sty)])) in H.
  apply IH in H as [H|H].
  - apply in_app_or in H as [H|[<-|[]]]; [left; exact H|]. right. left. reflexivity.
  - right. right. exact H.
Qed.

(* grouping a registry by a list of names that covers it loses nothing and adds nothing *)
Lemma In_grouped (r : registry) names :
  (forall v, In v r -> In (fst (fst v)) names) ->
  forall v, In v r <-> In v (flat_map (fun name => of_name name r) names).
Proof.
  intros Hc v. split; intro H.
  - apply in_flat_map. exists (fst (fst v)). split; [apply Hc; exact H|].
    unfold of_name. apply filter_In. split; [exact H|apply Z.eqb_refl].
  - apply in_flat_map in H as (name & _ & H). unfold of_name in H. apply filter_In in H. exact (proj1 H).
Qed.

(* the declared globals (the registry) are exactly the variables ticked at the head of loop() *)
Lemma tree_vars_ticked setup loop v : In v (tree_all_vars setup loop) <-> In v (tree_loop_ticks setup loop).
Proof.
  unfold tree_all_vars, tree_loop_ticks. apply In_grouped. intros w Hw.
  rewrite parser_ticks_flat. apply In_sorted_set.
  rewrite tree_registry_flat in Hw. apply reg_sites_names in Hw as [[]|Hw]. exact Hw.
Qed.

Lemma tree_all_vars_flat setup loop v :
  In v (tree_all_vars setup loop) <-> In v (all_vars (flats setup) (flats loop)).
Proof. rewrite tree_vars_ticked, tree_loop_ticks_flat, loop_ticks_all_vars. reflexivity. Qed.

(* ---- [flats] really is "every call site at any depth" *)
Lemma flats_In_body k bodies body b : In (SBlock k bodies) b -> In body bodies -> incl (flats body) (flats b).
Proof.
  intros Hb Hbody x Hx. unfold flats in *. apply in_flat_map. exists (SBlock k bodies). split; [exact Hb|].
  cbn [flat]. apply in_flat_map. exists body. split; assumption.
Qed.

Lemma occurs_flats n sty b : occurs (SAnim n sty) b -> In (n, sty) (flats b).
Proof.
  induction 1 as [b H|b k bodies body Hb Hbody _ IH].
  - unfold flats. apply in_flat_map. exists (SAnim n sty). split; [exact H|left; reflexivity].
  - eapply flats_In_body; eauto.
Qed.

Lemma flat_occurs n sty s : In (n, sty) (flat s) -> s = SAnim n sty \/ exists k bodies body, s = SBlock k bodies /\ In body bodies /\ occurs (SAnim n sty) body.
Proof.
  induction s as [n0 sty0| |k bodies H] using stmt_ind'; intro Hin.
  - left. destruct Hin as [E|[]]. inversion E. reflexivity.
  - destruct Hin.
  - right. cbn [flat] in Hin. apply in_flat_map in Hin as (body & Hbody & Hin).
    exists k, bodies, body. split; [reflexivity|]. split; [exact Hbody|].
    rewrite Forall_forall in H. specialize (H _ Hbody). rewrite Forall_forall in H.
    apply in_flat_map in Hin as (s & Hs & Hin). destruct (H _ Hs Hin) as [->|(k' & bodies' & body' & -> & Hb' & Ho)].
    + apply occ_here. exact Hs.
    + eapply occ_deeper; eauto.
Qed.

Lemma flats_occurs n sty b : In (n, sty) (flats b) -> occurs (SAnim n sty) b.
Proof.
  unfold flats. intro Hin. apply in_flat_map in Hin as (s & Hs & Hin).
  destruct (flat_occurs _ _ _ Hin) as [->|(k & bodies & body & -> & Hb & Ho)].
  - apply occ_here. exact Hs.
  - eapply occ_deeper; eauto.
Qed.

(* ---- the theorems of Props/C18.v *)

Lemma flats_app a b : flats (a ++ b) = flats a ++ flats b.
Proof. unfold flats. apply flat_map_app. Qed.

Lemma tree_loop_ticks_NoDup setup loop : NoDup (tree_loop_ticks setup loop).
Proof. rewrite tree_loop_ticks_flat. apply loop_ticks_NoDup. Qed.

(* the k-th call site of display n - wherever it sits - is ticked through its own variable, with its style *)
Lemma tree_site_ticked setup loop pre n sty post :
  flats setup ++ flats loop = pre ++ (n, sty) :: post ->
  In (n, count_name n pre, sty) (tree_loop_ticks setup loop) /\ NoDup (tree_loop_ticks setup loop).
Proof. intro E. rewrite tree_loop_ticks_flat. apply (site_ticked _ _ _ _ _ _ E). Qed.

Lemma tree_tick_has_site setup loop n k sty :
  In (n, k, sty) (tree_loop_ticks setup loop) ->
  exists pre post, flats setup ++ flats loop = pre ++ (n, sty) :: post /\ k = count_name n pre.
Proof. rewrite tree_loop_ticks_flat. apply loop_tick_has_site. Qed.

Lemma tree_occurrence_ticked setup loop n sty :
  occurs (SAnim n sty) setup \/ occurs (SAnim n sty) loop -> exists k, In (n, k, sty) (tree_loop_ticks setup loop).
Proof.
  intro H. assert (Hin : In (n, sty) (flats setup ++ flats loop)).
  { apply in_or_app. destruct H as [H|H]; [left|right]; apply occurs_flats; exact H. }
  apply in_split in Hin as (pre & post & E).
  exists (count_name n pre). exact (proj1 (tree_site_ticked _ _ _ _ _ _ E)).
Qed.

Lemma tree_tick_occurs setup loop n k sty :
  In (n, k, sty) (tree_loop_ticks setup loop) -> occurs (SAnim n sty) setup \/ occurs (SAnim n sty) loop.
Proof.
  intro H. apply tree_tick_has_site in H as (pre & post & E & _).
  assert (Hin : In (n, sty) (flats setup ++ flats loop)).
  { rewrite E. apply in_or_app. right. left. reflexivity. }
  apply in_app_or in Hin as [Hin|Hin]; [left|right]; apply flats_occurs; exact Hin.
Qed.

Lemma tree_occurrence_ticked_iff setup loop n sty :
  occurs (SAnim n sty) setup \/ occurs (SAnim n sty) loop <-> exists k, In (n, k, sty) (tree_loop_ticks setup loop).
Proof.
  split; [apply tree_occurrence_ticked|]. intros [k Hk]. exact (tree_tick_occurs _ _ _ _ _ Hk).
Qed.

(* no guard any more: loop() ticks exactly the declared variables, none twice *)
Lemma NoDup_reg_sites sites : forall r,
  NoDup r -> (forall n k sty, In (n, k, sty) r -> k < reg_counter n r) -> 
  NoDup (reg_sites sites r) /\ (forall n k sty, In (n, k, sty) (reg_sites sites r) -> k < reg_counter n (reg_sites sites r)).
Proof.
  induction sites as [|[n0 s0] rest IH]; intros r Hr Hb; [split; assumption|].
  unfold reg_sites. cbn [fold_left fst snd]. fold (reg_sites rest (r ++ [(n0, reg_counter n0 r, s0)])).
  apply IH.
  - apply NoDup_app_intro; [exact Hr|constructor; [intros []|constructor]|].
    intros [[n k] sty] Hin [E|[]]. inversion E; subst. specialize (Hb _ _ _ Hin). lia.
  - intros n k sty Hin. rewrite reg_counter_app, reg_counter_single.
    apply in_app_or in Hin as [Hin|[E|[]]].
    + specialize (Hb _ _ _ Hin). destruct (n0 =? n); lia.
    + inversion E; subst. rewrite Z.eqb_refl. lia.
Qed.

Lemma tree_all_vars_NoDup setup loop : NoDup (tree_all_vars setup loop).
Proof.
  unfold tree_all_vars. rewrite tree_registry_flat.
  apply (NoDup_reg_sites _ []); [constructor|intros n k sty []].
Qed.

Lemma tree_injected setup loop :
  (forall v, In v (tree_all_vars setup loop) <-> In v (tree_loop_ticks setup loop)) /\
  NoDup (tree_loop_ticks setup loop) /\ NoDup (tree_all_vars setup loop).
Proof.
  split; [apply tree_vars_ticked|]. split; [apply tree_loop_ticks_NoDup|apply tree_all_vars_NoDup].
Qed.

(* a call site anywhere inside the main loop (nested or not) is declared and ticked *)
Lemma tree_loop_site_ticked setup loop pre n sty post :
  flats loop = pre ++ (n, sty) :: post ->
  In (n, count_name n (flats setup) + count_name n pre, sty) (tree_all_vars setup loop) /\
  In (n, count_name n (flats setup) + count_name n pre, sty) (tree_loop_ticks setup loop) /\
  NoDup (tree_loop_ticks setup loop).
Proof.
  intro E. rewrite tree_vars_ticked, tree_loop_ticks_flat.
  destruct (loop_site_ticked (flats setup) (flats loop) pre n sty post E) as (_ & H & N).
  split; [exact H|split; [exact H|exact N]].
Qed.

(* a call site anywhere inside a function body is declared and ticked *)
Lemma flats_concat_In f funs : In f funs -> incl (flats f) (flats (concat funs)).
Proof.
  intros Hf x Hx. induction funs as [|g funs IH]; [destruct Hf|].
  cbn [concat]. rewrite flats_app. apply in_or_app. destruct Hf as [->|Hf]; [left; exact Hx|right; auto].
Qed.

Lemma prog_function_site_ticked setup loop funs f n sty :
  In f funs -> occurs (SAnim n sty) f ->
  exists k, In (n, k, sty) (prog_ticks setup loop funs) /\ In (n, k, sty) (prog_vars setup loop funs) /\
            NoDup (prog_ticks setup loop funs).
Proof.
  intros Hf Ho. unfold prog_ticks, prog_vars.
  assert (Hin : In (n, sty) (flats setup ++ flats (loop ++ concat funs))).
  { apply in_or_app. right. rewrite flats_app. apply in_or_app. right.
    apply (flats_concat_In f funs Hf). apply occurs_flats. exact Ho. }
  apply in_split in Hin as (pre & post & E).
  destruct (tree_site_ticked _ _ _ _ _ _ E) as [H N].
  exists (count_name n pre). split; [exact H|]. split; [apply tree_vars_ticked; exact H|exact N].
Qed.

Lemma flats_occurs_iff n sty b : In (n, sty) (flats b) <-> occurs (SAnim n sty) b.
Proof. split; [apply flats_occurs|apply occurs_flats]. Qed.

Lemma nested_walks_refine setup loop :
  tree_loop_ticks setup loop = loop_ticks (flats setup) (flats loop) /\
  (forall v, In v (tree_all_vars setup loop) <-> In v (all_vars (flats setup) (flats loop))) /\
  parser_ticks setup loop = sorted_set (map fst (flats setup ++ flats loop)).
Proof. split; [apply tree_loop_ticks_flat|split; [apply tree_all_vars_flat|apply parser_ticks_flat]]. Qed.

(* ---- non-vacuity / discrimination *)

(* main display animated in the try body, status display only in the second of two handlers, nested in an if *)
Definition ex_handler_tree : list stmt :=
  [SOther;
   SBlock KIf [[SBlock KTry [[SAnim 0 Scroll; SOther]; [SOther]; [SBlock KFor [[SAnim 1 Blink]]]]]; [SOther]]].

Lemma ex_handler_ticked :
  occurs (SAnim 1 Blink) ex_handler_tree /\
  flats ex_handler_tree = [(0, Scroll); (1, Blink)] /\
  tree_loop_ticks ex_handler_tree [SOther] = [(0, 0, Scroll); (1, 0, Blink)].
Proof.
  split; [|split; reflexivity].
  eapply occ_deeper; [right; left; reflexivity|left; reflexivity|].
  eapply occ_deeper; [left; reflexivity|right; right; left; reflexivity|].
  eapply occ_deeper; [left; reflexivity|left; reflexivity|].
  apply occ_here. left. reflexivity.
Qed.

(* the two former witnesses: a call site inside `while True:` (guarded by an if) and one inside a function *)
Lemma ex_loop_and_function_sites :
  tree_loop_ticks [SOther] [SBlock KIf [[SAnim 0 Scroll; SOther]]] = [(0, 0, Scroll)] /\
  prog_ticks [SOther] [SOther] [[SAnim 0 Scroll]] = [(0, 0, Scroll)] /\
  prog_vars [SAnim 1 Blink] [SBlock KIf [[SAnim 0 Scroll]]] [[SAnim 0 Bounce]; [SOther; SAnim 1 Scroll]] =
    [(1, 0, Blink); (0, 0, Scroll); (0, 1, Bounce); (1, 1, Scroll)] /\
  prog_ticks [SAnim 1 Blink] [SBlock KIf [[SAnim 0 Scroll]]] [[SAnim 0 Bounce]; [SOther; SAnim 1 Scroll]] =
    [(0, 0, Scroll); (0, 1, Bounce); (1, 0, Blink); (1, 1, Scroll)].
Proof. repeat split; reflexivity. Qed.

(* a name collection that follows try bodies only would leave the status display without a tick *)
Lemma ex_forgetful_walk_differs :
  sorted_set (fold_left (fun a s => pnames_no_handlers s a) ex_handler_tree []) = [0] /\
  parser_ticks ex_handler_tree [] = [0; 1].
Proof. split; reflexivity. Qed.
