(* Z-indexed list lemmas used by the LCD proofs. *)
From Coq Require Import ZArith List Bool Lia.
From RV Require Import Base.LcdBase.
Import ListNotations.
Open Scope Z_scope.

Lemma zlen_nonneg {A} (l : list A) : 0 <= zlen l.
Proof. unfold zlen. lia. Qed.

Lemma zlen_nil {A} : zlen (@nil A) = 0.
Proof. reflexivity. Qed.

Lemma zlen_cons {A} (x : A) l : zlen (x :: l) = zlen l + 1.
Proof. unfold zlen. cbn [length]. lia. Qed.

Lemma zlen_app {A} (a b : list A) : zlen (a ++ b) = zlen a + zlen b.
Proof. unfold zlen. rewrite app_length. lia. Qed.

Lemma zlen_map {A B} (f : A -> B) l : zlen (map f l) = zlen l.
Proof. unfold zlen. rewrite map_length. reflexivity. Qed.

Lemma zlen_zrepeat {A} (x : A) n : zlen (zrepeat x n) = Z.max 0 n.
Proof. unfold zlen, zrepeat. rewrite repeat_length. lia. Qed.

Lemma zlen_ztake {A} n (l : list A) : zlen (ztake n l) = Z.min (Z.max 0 n) (zlen l).
Proof. unfold zlen, ztake. rewrite firstn_length. lia. Qed.

Lemma ztake_all {A} n (l : list A) : zlen l <= n -> ztake n l = l.
Proof. unfold zlen, ztake. intros H. apply firstn_all2. lia. Qed.

Lemma ztake_map {A B} (f : A -> B) n l : ztake n (map f l) = map f (ztake n l).
Proof. unfold ztake. apply firstn_map. Qed.

Lemma zlen_zseq n : zlen (zseq n) = Z.max 0 n.
Proof. unfold zlen, zseq. rewrite map_length, seq_length. lia. Qed.

Lemma length_zseq n : length (zseq n) = Z.to_nat n.
Proof. unfold zseq. rewrite map_length, seq_length. reflexivity. Qed.

Lemma nth_zseq n i d : (i < Z.to_nat n)%nat -> nth i (zseq n) d = Z.of_nat i.
Proof.
  intros H. unfold zseq.
  rewrite nth_indep with (d' := Z.of_nat 0%nat) by (rewrite map_length, seq_length; exact H).
  rewrite map_nth, seq_nth by exact H. reflexivity.
Qed.

Lemma In_zseq n x : In x (zseq n) <-> 0 <= x < n.
Proof.
  unfold zseq. rewrite in_map_iff. split.
  - intros [k [Hk Hin]]. apply in_seq in Hin. lia.
  - intros H. exists (Z.to_nat x). split; [lia|]. apply in_seq. lia.
Qed.

Lemma nth_zrepeat {A} (x d : A) n i : (i < Z.to_nat n)%nat -> nth i (zrepeat x n) d = x.
Proof.
  unfold zrepeat. generalize (Z.to_nat n) as k. intros k. revert i.
  induction k as [|k IH]; intros i H; [lia|]. destruct i; cbn; [reflexivity|]. apply IH. lia.
Qed.

Lemma znth_app_l {A} (a b : list A) i d : 0 <= i < zlen a -> znth i (a ++ b) d = znth i a d.
Proof. unfold znth, zlen. intros H. apply app_nth1. lia. Qed.

Lemma znth_app_r {A} (a b : list A) i d : zlen a <= i -> znth i (a ++ b) d = znth (i - zlen a) b d.
Proof.
  unfold znth, zlen. intros H. rewrite app_nth2 by lia. f_equal. lia.
Qed.

Lemma znth_zrepeat {A} (x d : A) n i : 0 <= i < n -> znth i (zrepeat x n) d = x.
Proof. unfold znth. intros H. apply nth_zrepeat. lia. Qed.

Lemma znth_ztake {A} (l : list A) n i d : 0 <= i < n -> znth i (ztake n l) d = znth i l d.
Proof.
  unfold znth, ztake. intros H.
  rewrite <- (firstn_skipn (Z.to_nat n) l) at 2.
  destruct (Nat.lt_ge_cases (Z.to_nat i) (length (firstn (Z.to_nat n) l))) as [Hl|Hl].
  - rewrite app_nth1 by exact Hl. reflexivity.
  - rewrite nth_overflow by exact Hl.
    rewrite firstn_length in Hl.
    assert (Hlen : (length l <= Z.to_nat i)%nat) by lia.
    rewrite firstn_skipn. rewrite nth_overflow by exact Hlen. reflexivity.
Qed.

Lemma znth_map {A B} (f : A -> B) l i da db : 0 <= i < zlen l -> znth i (map f l) db = f (znth i l da).
Proof.
  unfold znth, zlen. intros H.
  rewrite nth_indep with (d' := f da) by (rewrite map_length; lia).
  apply map_nth.
Qed.

Lemma nth_map' {A B} (f : A -> B) l i da db : (i < length l)%nat -> nth i (map f l) db = f (nth i l da).
Proof.
  intros H. rewrite nth_indep with (d' := f da) by (rewrite map_length; exact H). apply map_nth.
Qed.

Lemma In_firstn' {A} n : forall (l : list A) x, In x (firstn n l) -> In x l.
Proof.
  induction n as [|n IH]; intros [|y l] x H; cbn in *; try contradiction.
  destruct H as [H|H]; [left; exact H|right; apply IH; exact H].
Qed.

(* ---------- update ---------- *)
Lemma upd_nat_length {A} i (v : A) l : length (upd_nat i v l) = length l.
Proof.
  revert i; induction l as [|x l IH]; intros i; cbn; [reflexivity|].
  destruct i; cbn; [reflexivity|]. rewrite IH. reflexivity.
Qed.

Lemma nth_upd_nat {A} i j (v d : A) l :
  nth j (upd_nat i v l) d = if (Nat.eqb j i && Nat.ltb i (length l))%bool then v else nth j l d.
Proof.
  revert i j; induction l as [|x l IH]; intros i j; cbn.
  - destruct j; rewrite andb_false_r; reflexivity.
  - destruct i, j; cbn; try reflexivity.
    rewrite IH. reflexivity.
Qed.

Lemma zlen_zupd {A} i (v : A) l : zlen (zupd i v l) = zlen l.
Proof. unfold zupd, zlen. destruct (i <? 0); [reflexivity|]. rewrite upd_nat_length. reflexivity. Qed.

Lemma length_zupd {A} i (v : A) l : length (zupd i v l) = length l.
Proof. unfold zupd. destruct (i <? 0); [reflexivity|]. apply upd_nat_length. Qed.

Lemma znth_zupd {A} i j (v d : A) l :
  0 <= j ->
  znth j (zupd i v l) d = if (j =? i) && (i <? zlen l) then v else znth j l d.
Proof.
  intros Hj. unfold znth, zupd, zlen.
  destruct (Z.ltb_spec i 0) as [Hi|Hi].
  - destruct (Z.eqb_spec j i); [lia|]. reflexivity.
  - rewrite nth_upd_nat.
    destruct (Nat.eqb_spec (Z.to_nat j) (Z.to_nat i)) as [E|E];
      destruct (Z.eqb_spec j i) as [E'|E']; try lia; cbn [andb]; [|reflexivity].
    destruct (Nat.ltb_spec (Z.to_nat i) (length l)); destruct (Z.ltb_spec i (Z.of_nat (length l))); try lia; reflexivity.
Qed.

Lemma nth_zupd_nat {A} i (j : nat) (v d : A) l :
  nth j (zupd i v l) d = if (Z.of_nat j =? i) && (i <? zlen l) then v else nth j l d.
Proof.
  pose proof (znth_zupd i (Z.of_nat j) v d l) as H. unfold znth in H.
  rewrite Nat2Z.id in H. apply H. lia.
Qed.

Lemma Forall_zupd {A} (P : A -> Prop) i v l : Forall P l -> P v -> Forall P (zupd i v l).
Proof.
  intros Hl Hv. unfold zupd. destruct (i <? 0); [exact Hl|].
  generalize (Z.to_nat i) as k. induction Hl as [|x l Hx Hl IH]; intros k; cbn; [constructor|].
  destruct k; constructor; auto.
Qed.

(* pointwise equality of two rectangular matrices *)
Lemma matrix_ext (a b : list (list Z)) (rows cols : nat) :
  length a = rows -> length b = rows ->
  Forall (fun r => length r = cols) a -> Forall (fun r => length r = cols) b ->
  (forall i j, (i < rows)%nat -> (j < cols)%nat -> nth j (nth i a []) 0 = nth j (nth i b []) 0) ->
  a = b.
Proof.
  intros Ha Hb Fa Fb H.
  apply nth_ext with (d := []) (d' := []); [congruence|].
  intros i Hi.
  assert (Hia : (i < rows)%nat) by lia.
  apply nth_ext with (d := 0) (d' := 0).
  - rewrite Forall_forall in Fa, Fb.
    rewrite (Fa (nth i a [])) by (apply nth_In; lia).
    rewrite (Fb (nth i b [])) by (apply nth_In; lia). reflexivity.
  - intros j Hj. apply H; [exact Hia|].
    rewrite Forall_forall in Fa. rewrite (Fa (nth i a [])) in Hj by (apply nth_In; lia). exact Hj.
Qed.
