(* C17: the firmware LCD model refines the host LCD model (proofs). *)
From Coq Require Import ZArith QArith List Bool Lia.
From RV Require Import Base.LcdBase Host.LCD Device.DLCD Device.LCDRefine
  Proofs.LCDListP Proofs.LCDHostP Proofs.LCDDevP.
Import ListNotations.
Open Scope Z_scope.

(* ====================================================================== *)
(* the relation [shows], pointwise                                         *)
(* ====================================================================== *)
Definition hcell (h : hlcd) (r c : Z) : Z := znth c (znth r (h_buf h) []) 0.

Lemma nth_cells d (i j : nat) : (i < Z.to_nat (Z.min (d_rows d) 4))%nat -> (j < Z.to_nat (d_cols d))%nat ->
  nth j (nth i (cells d) []) 0 = dcell d (Z.of_nat i) (Z.of_nat j).
Proof.
  intros Hi Hj. unfold cells.
  rewrite (nth_map' _ _ _ 0) by (rewrite length_zseq; exact Hi).
  rewrite (nth_map' _ _ _ 0) by (rewrite length_zseq; exact Hj).
  rewrite !nth_zseq by assumption. reflexivity.
Qed.

Lemma cells_shape d :
  length (cells d) = Z.to_nat (Z.min (d_rows d) 4) /\
  Forall (fun r => length r = Z.to_nat (d_cols d)) (cells d).
Proof.
  unfold cells. split; [rewrite map_length, length_zseq; reflexivity|].
  apply Forall_forall. intros x Hx. apply in_map_iff in Hx as [r [<- _]].
  rewrite map_length, length_zseq. reflexivity.
Qed.

Lemma nth_canon_buf (b : list (list Z)) (i j : nat) cols :
  (i < length b)%nat -> Forall (fun r => zlen r = cols) b -> (j < Z.to_nat cols)%nat ->
  nth j (nth i (map (map canon) b) []) 0 = canon (nth j (nth i b []) 0).
Proof.
  intros Hi Hf Hj.
  rewrite (nth_map' _ _ _ []) by exact Hi.
  assert (Hl : zlen (nth i b []) = cols) by (rewrite Forall_forall in Hf; apply Hf, nth_In, Hi).
  apply nth_map'. unfold zlen in Hl. lia.
Qed.

Lemma shows_intro h d :
  h_g h = d_g d -> d_rows d <= 4 -> buf_wf (h_cols h) (h_rows h) (h_buf h) ->
  (forall r c, 0 <= r < d_rows d -> 0 <= c < d_cols d -> dcell d r c = canon (hcell h r c)) ->
  shows h d.
Proof.
  intros G R4 Wf P. split; [exact G|]. split; [exact Wf|].
  destruct Wf as [Wl Wf]. destruct (cells_shape d) as [Cl Cf].
  unfold h_cols, h_rows in *. rewrite G in *. fold (d_cols d) in *. fold (d_rows d) in *.
  rewrite Z.min_l in * by lia.
  apply matrix_ext with (rows := Z.to_nat (d_rows d)) (cols := Z.to_nat (d_cols d)).
  - exact Cl.
  - rewrite map_length. unfold zlen in Wl. lia.
  - exact Cf.
  - apply Forall_forall. intros x Hx. apply in_map_iff in Hx as [r [<- Hr]].
    rewrite map_length. rewrite Forall_forall in Wf. specialize (Wf r Hr). unfold zlen in Wf. lia.
  - intros i j Hi Hj. rewrite nth_cells by (rewrite ?Z.min_l by lia; assumption).
    rewrite (nth_canon_buf _ _ _ (d_cols d)) by (try assumption; unfold zlen in Wl; lia).
    rewrite P by lia. unfold hcell, znth. rewrite !Nat2Z.id. reflexivity.
Qed.

Lemma shows_cells h d r c :
  shows h d -> d_rows d <= 4 -> 0 <= r < d_rows d -> 0 <= c < d_cols d ->
  dcell d r c = canon (hcell h r c).
Proof.
  intros (G & [Wl Wf] & E) R4 Hr Hc.
  unfold h_cols, h_rows in *. rewrite G in *. fold (d_cols d) in *. fold (d_rows d) in *.
  pose proof (nth_cells d (Z.to_nat r) (Z.to_nat c)) as N.
  rewrite Z.min_l in N by lia. specialize (N ltac:(lia) ltac:(lia)).
  rewrite !Z2Nat.id in N by lia. rewrite <- N, E.
  rewrite (nth_canon_buf _ _ _ (d_cols d)) by (try assumption; unfold zlen in Wl; lia).
  reflexivity.
Qed.

Lemma canon_ascii c : 0 <= c <= 127 -> canon c = c.
Proof. intros H. unfold canon, BLOCK_HOST. destruct (Z.eqb_spec c 9608); [lia|reflexivity]. Qed.

Lemma canon_SP : canon SP = SP.
Proof. reflexivity. Qed.

Lemma ascii_znth t i : ascii t -> 0 <= i < zlen t -> 0 <= znth i t 0 <= 127.
Proof.
  intros Ha Hi. unfold ascii in Ha. rewrite Forall_forall in Ha. apply Ha.
  unfold znth. apply nth_In. unfold zlen in Hi. lia.
Qed.

Lemma asciib_ascii t : asciib t = true -> ascii t.
Proof.
  unfold asciib, ascii. rewrite forallb_forall, Forall_forall. intros H x Hx.
  specialize (H x Hx). apply andb_true_iff in H as [H1 H2]. apply Z.leb_le in H1, H2. lia.
Qed.

Lemma utf8_ascii t : ascii t -> utf8 t = t.
Proof.
  intros H. induction H as [|c t Hc Ht IH]; [reflexivity|]. unfold utf8 in *. cbn [flat_map]. rewrite IH.
  unfold utf8_char. destruct (Z.ltb_spec c 128); [reflexivity|lia].
Qed.

(* ====================================================================== *)
(* truncation and the two offset computations                              *)
(* ====================================================================== *)
Definition trunc (text : list Z) (avail : Z) : list Z :=
  if zlen text >? avail then ztake avail text else text.

Lemma zlen_trunc text avail : 0 <= avail -> 0 <= zlen (trunc text avail) <= avail.
Proof.
  intros Ha. unfold trunc. pose proof (zlen_nonneg text).
  rewrite Z.gtb_ltb. destruct (Z.ltb_spec avail (zlen text)); [rewrite zlen_ztake|]; lia.
Qed.

Lemma ascii_trunc text avail : ascii text -> ascii (trunc text avail).
Proof.
  intros H. unfold trunc. destruct (zlen text >? avail); [|exact H].
  unfold ascii, ztake in *. rewrite Forall_forall in *. intros x Hx. apply H. eapply In_firstn', Hx.
Qed.

(* same alignment: the host's column = the firmware's offset, and the text fits *)
Lemma offset_eq cols col len align :
  0 <= col < cols -> 0 <= len <= cols - col -> align_ok align = true ->
  place_col cols col (cols - col) len align = dev_offset cols col (cols - col) len align /\
  col <= dev_offset cols col (cols - col) len align /\
  dev_offset cols col (cols - col) len align + len <= cols.
Proof.
  intros Hc Hl Ha. unfold align_ok in Ha. apply andb_true_iff in Ha as [A0 A2]. apply Z.leb_le in A0, A2.
  unfold place_col, dev_offset.
  assert (Hq : Z.quot (cols - col - len) 2 = (cols - col - len) / 2) by (apply Z.quot_div_nonneg; lia).
  assert (Hd : 0 <= (cols - col - len) / 2 <= cols - col - len) by (split; [apply Z.div_pos; lia|apply Z.div_le_upper_bound; lia]).
  destruct (Z.ltb_spec (cols - col - len) 0); [lia|].
  rewrite Hq.
  assert (Hal : align = 0 \/ align = 1 \/ align = 2) by lia.
  destruct Hal as [Hal|[Hal|Hal]]; subst align; cbn [Z.eqb Pos.eqb]; rewrite Z.gtb_ltb; zb.
Qed.

(* ====================================================================== *)
(* host: write / line                                                      *)
(* ====================================================================== *)
Definition same_flags (h h' : hlcd) : Prop :=
  h_g h' = h_g h /\ h_display h' = h_display h /\ h_backlight h' = h_backlight h /\
  h_bright h' = h_bright h /\ h_glyphs h' = h_glyphs h.

Lemma same_flags_refl h : same_flags h h.
Proof. repeat split. Qed.

Lemma same_flags_trans a b c : same_flags a b -> same_flags b c -> same_flags a c.
Proof. intros (A1 & A2 & A3 & A4 & A5) (B1 & B2 & B3 & B4 & B5). repeat split; congruence. Qed.

Lemma hcell_set_row h row line r c :
  buf_wf (h_cols h) (h_rows h) (h_buf h) -> 0 <= row < h_rows h -> 0 <= r ->
  hcell (set_buf h (zupd row line (h_buf h))) r c = if r =? row then znth c line 0 else hcell h r c.
Proof.
  intros [Wl _] Hrow Hr. unfold hcell. cbn [h_buf set_buf].
  rewrite znth_zupd by exact Hr. rewrite Wl.
  destruct (Z.eqb_spec r row); [|reflexivity]. destruct (Z.ltb_spec row (h_rows h)); [reflexivity|lia].
Qed.

Lemma hwrite_spec h col row text clear align :
  buf_wf (h_cols h) (h_rows h) (h_buf h) ->
  0 <= row < h_rows h -> 0 <= col < h_cols h -> align_ok align = true ->
  let content := trunc text (h_cols h - col) in
  let off := place_col (h_cols h) col (h_cols h - col) (zlen content) align in
  exists h', hwrite h col row text clear align = (h', HOk) /\ same_flags h h' /\
    buf_wf (h_cols h) (h_rows h) (h_buf h') /\
    forall r c, 0 <= r < h_rows h -> 0 <= c < h_cols h ->
      hcell h' r c = if r =? row
                     then if (off <=? c) && (c <? off + zlen content) then znth (c - off) content 0
                          else if clear then SP else hcell h r c
                     else hcell h r c.
Proof.
  intros Wf Hrow Hcol Ha content off.
  set (h1 := if clear then set_buf h (zupd row (blank_row (h_cols h)) (h_buf h)) else h).
  assert (G1 : h_g h1 = h_g h) by (subst h1; destruct clear; reflexivity).
  assert (Wf1 : buf_wf (h_cols h) (h_rows h) (h_buf h1)).
  { subst h1. destruct clear; [|exact Wf]. cbn [h_buf set_buf]. apply buf_wf_zupd; [exact Wf|].
    apply zlen_blank_row. lia. }
  assert (F1 : same_flags h h1) by (subst h1; destruct clear; repeat split).
  assert (C1 : forall r c, 0 <= r < h_rows h -> 0 <= c < h_cols h ->
               hcell h1 r c = if (r =? row) && clear then SP else hcell h r c).
  { intros r c Hr Hc. subst h1. destruct clear; [|rewrite andb_false_r; reflexivity].
    rewrite hcell_set_row by (try assumption; lia). rewrite andb_true_r.
    destruct (Z.eqb_spec r row); [|reflexivity]. unfold blank_row. apply znth_zrepeat. exact Hc. }
  set (line := place (znth row (h_buf h1) []) off content (h_cols h)).
  exists (set_buf h1 (zupd row line (h_buf h1))).
  assert (Hbase : zlen (znth row (h_buf h1) []) = h_cols h) by (eapply buf_wf_row; eauto).
  assert (Hline : zlen line = h_cols h).
  { subst line. unfold zlen. rewrite place_length. exact Hbase. }
  split; [|split; [|split]].
  - unfold hwrite. unfold row_ok.
    destruct (Z.leb_spec 0 row); [|lia]. destruct (Z.ltb_spec row (h_rows h)); [|lia]. cbn [andb negb].
    fold h1. unfold hplace. unfold row_ok, h_rows, h_cols. rewrite G1. fold (h_rows h). fold (h_cols h).
    destruct (Z.leb_spec 0 row); [|lia]. destruct (Z.ltb_spec row (h_rows h)); [|lia]. cbn [andb negb].
    rewrite Ha. cbn [negb].
    replace (Z.max 0 (h_cols h - Z.max 0 col)) with (h_cols h - col) by lia.
    destruct (Z.leb_spec (h_cols h - col) 0); [lia|]. reflexivity.
  - eapply same_flags_trans; [exact F1|]. repeat split.
  - cbn [h_buf set_buf]. apply buf_wf_zupd; assumption.
  - intros r c Hr Hc.
    assert (Wf1' : buf_wf (h_cols h1) (h_rows h1) (h_buf h1)) by (unfold h_cols, h_rows; rewrite G1; exact Wf1).
    rewrite hcell_set_row by (try assumption; unfold h_rows; rewrite ?G1; fold (h_rows h); lia).
    destruct (Z.eqb_spec r row) as [->|Hne].
    + unfold znth at 1. subst line.
      rewrite place_nth by (try assumption; unfold zlen in Hbase; lia).
      rewrite Z2Nat.id by lia.
      destruct ((off <=? c) && (c <? off + zlen content)); [reflexivity|].
      change (nth (Z.to_nat c) (znth row (h_buf h1) []) 0) with (hcell h1 row c).
      rewrite C1 by assumption. rewrite Z.eqb_refl. cbn [andb]. reflexivity.
    + rewrite C1 by assumption. destruct (Z.eqb_spec r row); [contradiction|]. reflexivity.
Qed.

(* ====================================================================== *)
(* firmware: __redu_lcd_write_aligned on an in-range row and column        *)
(* ====================================================================== *)
Lemma write_aligned_spec d col row text clear align :
  fits (d_g d) -> 0 <= row < d_rows d -> 0 <= col < d_cols d -> align_ok align = true ->
  let content := trunc text (d_cols d - col) in
  let off := dev_offset (d_cols d) col (d_cols d - col) (zlen content) align in
  let d' := write_aligned d (d_cols d) col row text clear align in
  d_g d' = d_g d /\ in_row_ext row d d' /\
  forall r c, 0 <= r < d_rows d -> 0 <= c < d_cols d ->
    dcell d' r c = if r =? row
                   then if (off <=? c) && (c <? off + zlen content) then znth (c - off) content 0
                        else if clear then SP else dcell d r c
                   else dcell d r c.
Proof.
  intros Hf Hrow Hcol Ha content off d'.
  pose proof (zlen_trunc text (d_cols d - col) ltac:(lia)) as Hlen. fold content in Hlen.
  destruct (offset_eq (d_cols d) col (zlen content) align Hcol Hlen Ha) as (_ & Ho1 & Ho2). fold off in Ho1, Ho2.
  subst d'. unfold write_aligned.
  destruct (Z.leb_spec (d_cols d) 0); [lia|].
  destruct (Z.ltb_spec col 0); [lia|].
  rewrite Z.geb_leb. destruct (Z.leb_spec (d_cols d) col); [lia|].
  destruct (Z.leb_spec (d_cols d - col) 0); [lia|].
  fold (trunc text (d_cols d - col)). fold content. fold off.
  set (d1 := if clear then clear_row d (d_cols d) row else d).
  assert (Hd1 : d_g d1 = d_g d /\ in_row_ext row d d1 /\
               forall r c, 0 <= r < d_rows d -> 0 <= c < d_cols d ->
                 dcell d1 r c = if (r =? row) && clear then SP else dcell d r c).
  { subst d1. destruct clear.
    - destruct (clear_row_in d row Hf Hrow) as (G & Cl & Ex). split; [exact G|]. split; [exact Ex|].
      intros r c Hr Hc. rewrite Cl by assumption. rewrite andb_true_r. reflexivity.
    - split; [reflexivity|]. split; [apply in_row_ext_refl|]. intros r c _ _. rewrite andb_false_r. reflexivity. }
  destruct Hd1 as (G1 & Ex1 & C1).
  assert (Hf1 : fits (d_g d1)) by (rewrite G1; exact Hf).
  assert (Er : d_rows d1 = d_rows d) by (unfold d_rows; rewrite G1; reflexivity).
  assert (Ec : d_cols d1 = d_cols d) by (unfold d_cols; rewrite G1; reflexivity).
  destruct (cursor_print d1 off row content Hf1 ltac:(lia) ltac:(lia) ltac:(lia)) as (G2 & C2 & Ex2).
  split; [congruence|]. split.
  - eapply in_row_ext_trans; [exact G1|exact Ex1|exact Ex2].
  - intros r c Hr Hc. rewrite C2 by lia. rewrite C1 by assumption.
    destruct (Z.eqb_spec r row); cbn [andb]; [|reflexivity].
    destruct ((off <=? c) && (c <? off + zlen content)); reflexivity.
Qed.

(* ====================================================================== *)
(* refinement of write (and hence line, message)                           *)
(* ====================================================================== *)
Lemma shows_geom h d : shows h d -> h_cols h = d_cols d /\ h_rows h = d_rows d.
Proof. intros (G & _). unfold h_cols, h_rows, d_cols, d_rows. rewrite G. split; reflexivity. Qed.

Lemma write_refines h d col row text clear align :
  fits (d_g d) -> shows h d ->
  0 <= row < d_rows d -> 0 <= col < d_cols d -> ascii text -> align_ok align = true ->
  exists h', hwrite h col row text clear align = (h', HOk) /\ same_flags h h' /\
    let d' := write_aligned d (d_cols d) col row text clear align in
    shows h' d' /\ textual d d' /\ in_row_ext row d d' /\
    (forall r c, 0 <= r < d_rows d -> r <> row -> hcell h' r c = hcell h r c) /\
    (forall r c, 0 <= r < d_rows d -> 0 <= c < d_cols d -> r <> row -> dcell d' r c = dcell d r c).
Proof.
  intros Hf Sh Hrow Hcol Hasc Ha.
  destruct (shows_geom h d Sh) as [Ec Er]. pose proof Hf as (Hc40 & Hr4 & _). fold (d_cols d) in Hc40. fold (d_rows d) in Hr4.
  pose proof Sh as (G & Wf & _).
  destruct (hwrite_spec h col row text clear align Wf ltac:(lia) ltac:(lia) Ha) as (h' & Hw & Fl & Wf' & Hc).
  destruct (write_aligned_spec d col row text clear align Hf Hrow Hcol Ha) as (Gd & Ex & Dc).
  rewrite Ec, Er in *.
  pose proof (zlen_trunc text (d_cols d - col) ltac:(lia)) as Hlen.
  destruct (offset_eq (d_cols d) col _ align Hcol Hlen Ha) as (Eo & Ho1 & Ho2).
  rewrite Eo in Hc.
  exists h'. split; [exact Hw|]. split; [exact Fl|]. cbv zeta.
  set (d' := write_aligned d (d_cols d) col row text clear align) in *.
  destruct Fl as (Gh & _).
  assert (Ec' : d_cols d' = d_cols d) by (unfold d_cols; rewrite Gd; reflexivity).
  assert (Er' : d_rows d' = d_rows d) by (unfold d_rows; rewrite Gd; reflexivity).
  split; [|split; [apply textual_write_aligned|split; [exact Ex|split]]].
  - apply shows_intro.
    + congruence.
    + lia.
    + unfold h_cols, h_rows. rewrite Gh. fold (h_cols h). fold (h_rows h). rewrite Ec, Er. exact Wf'.
    + intros r c Hr Hcc. rewrite Er' in Hr. rewrite Ec' in Hcc.
      rewrite Dc, Hc by assumption.
      destruct (Z.eqb_spec r row); [|apply shows_cells; try assumption; lia].
      match goal with |- context [if ?b then _ else _] => destruct b eqn:Eb end.
      * symmetry. apply canon_ascii. apply ascii_znth; [apply ascii_trunc; exact Hasc|].
        apply andb_true_iff in Eb as [E1 E2]. apply Z.leb_le in E1. apply Z.ltb_lt in E2. lia.
      * destruct clear; [reflexivity|]. apply shows_cells; try assumption; lia.
  - intros r c Hr Hne. destruct (Z_lt_ge_dec c 0) as [Hc0|Hc0]; [|destruct (Z_lt_ge_dec c (d_cols d)) as [Hc1|Hc1]].
    + (* outside the width nothing is stored on either side of the equation: same default *)
      unfold hcell. destruct Wf' as [Wl' Wf'']. destruct Wf as [Wl Wf''']. unfold znth.
      replace (Z.to_nat c) with 0%nat by lia.
      specialize (Hc r 0 ltac:(lia) ltac:(lia)). unfold hcell, znth in Hc. cbn [Z.to_nat] in Hc.
      destruct (Z.eqb_spec r row); [contradiction|]. exact Hc.
    + specialize (Hc r c ltac:(lia) ltac:(lia)). destruct (Z.eqb_spec r row); [contradiction|]. exact Hc.
    + unfold hcell, znth. rewrite !nth_overflow; [reflexivity| |].
      * pose proof (buf_wf_row _ _ _ r Wf ltac:(lia)) as L. unfold znth, zlen in L. lia.
      * pose proof (buf_wf_row _ _ _ r Wf' ltac:(lia)) as L. unfold znth, zlen in L. lia.
  - intros r c Hr Hcc Hne. rewrite Dc by assumption. destruct (Z.eqb_spec r row); [contradiction|]. reflexivity.
Qed.

(* ====================================================================== *)
(* line, message                                                           *)
(* ====================================================================== *)
Lemma hline_hwrite h row text align clear : hline h row text align clear = hwrite h 0 row text clear align.
Proof. reflexivity. Qed.

Definition opt_ascii (o : option (list Z)) : Prop := match o with Some t => ascii t | None => True end.

Lemma opt_utf8_ascii o : opt_ascii o -> option_map utf8 o = o.
Proof. destruct o as [t|]; cbn; [intros H; rewrite (utf8_ascii t H); reflexivity|reflexivity]. Qed.

Lemma line_opt_refines h d row (ot : option (list Z)) align clear :
  fits (d_g d) -> shows h d -> 0 <= row < d_rows d -> opt_ascii ot -> align_ok align = true ->
  exists h', (match ot with Some t => hline h row t align clear | None => (h, HOk) end) = (h', HOk) /\
    same_flags h h' /\
    let d' := match ot with Some t => write_aligned d (d_cols d) 0 row t clear align | None => d end in
    shows h' d' /\ textual d d' /\ in_row_ext row d d' /\
    (forall r c, 0 <= r < d_rows d -> r <> row -> hcell h' r c = hcell h r c) /\
    (forall r c, 0 <= r < d_rows d -> 0 <= c < d_cols d -> r <> row -> dcell d' r c = dcell d r c).
Proof.
  intros Hf Sh Hrow Hasc Ha. destruct ot as [t|].
  - rewrite hline_hwrite. pose proof Hf as (Hc & _). fold (d_cols d) in Hc.
    apply write_refines; try assumption. lia.
  - exists h. split; [reflexivity|]. split; [apply same_flags_refl|]. cbv zeta.
    split; [exact Sh|]. split; [apply textual_refl|]. split; [apply in_row_ext_refl|]. split; reflexivity.
Qed.

Definition dmessage (d : dlcd) (top bottom : option (list Z)) (ta ba : Z) (clear : bool) : dlcd :=
  let d1 := match top with Some t => write_aligned d (d_cols d) 0 0 t clear ta | None => d end in
  match bottom with
  | Some b => if d_rows d >? 1 then write_aligned d1 (d_cols d) 0 1 b clear ba else d1
  | None => d1
  end.

Definition rows01_ext (d d' : dlcd) : Prop :=
  exists evs, d_log d' = evs ++ d_log d /\ Forall (ev_in_rows01 (d_cols d)) evs.

Lemma in_row_rows01 row cols e : row = 0 \/ row = 1 -> ev_in_row row cols e -> ev_in_rows01 cols e.
Proof. intros Hr. destruct e; cbn; try tauto. intros [-> Hc]. split; assumption. Qed.

Lemma message_refines h d top bottom ta ba clear :
  fits (d_g d) -> shows h d -> opt_ascii top -> opt_ascii bottom ->
  align_ok ta = true -> align_ok ba = true ->
  exists h', hmessage h top bottom ta ba clear = (h', HOk) /\ same_flags h h' /\
    let d' := dmessage d top bottom ta ba clear in
    shows h' d' /\ textual d d' /\ rows01_ext d d' /\
    (forall r c, 2 <= r < d_rows d -> hcell h' r c = hcell h r c) /\
    (forall r c, 2 <= r < d_rows d -> 0 <= c < d_cols d -> dcell d' r c = dcell d r c).
Proof.
  intros Hf Sh Ht Hb Hta Hba. pose proof Hf as (Hc & Hr & _). fold (d_rows d) in Hr.
  destruct (line_opt_refines h d 0 top ta clear Hf Sh ltac:(lia) Ht Hta) as (h1 & E1 & F1 & S1 & T1 & X1 & O1 & P1).
  cbv zeta in S1, T1, X1, O1, P1.
  set (d1 := match top with Some t => write_aligned d (d_cols d) 0 0 t clear ta | None => d end) in *.
  assert (G1 : d_g d1 = d_g d) by (destruct T1 as (G & _); exact G).
  assert (Ec : d_cols d1 = d_cols d) by (unfold d_cols; rewrite G1; reflexivity).
  assert (Er : d_rows d1 = d_rows d) by (unfold d_rows; rewrite G1; reflexivity).
  assert (Hr1 : h_rows h1 = d_rows d) by (destruct (shows_geom h1 d1 S1); congruence).
  unfold hmessage, dmessage. fold d1. rewrite E1.
  assert (Skip : exists h', (h1, HOk) = (h', HOk) /\ same_flags h h' /\
            shows h' d1 /\ textual d d1 /\ rows01_ext d d1 /\
            (forall r c, 2 <= r < d_rows d -> hcell h' r c = hcell h r c) /\
            (forall r c, 2 <= r < d_rows d -> 0 <= c < d_cols d -> dcell d1 r c = dcell d r c)).
  { exists h1. split; [reflexivity|]. split; [exact F1|].
    split; [exact S1|]. split; [exact T1|]. split; [|split].
    + destruct X1 as (e1 & L1 & A1). exists e1. split; [exact L1|].
      eapply Forall_impl; [|exact A1]. intros e. apply in_row_rows01. left; reflexivity.
    + intros r c Hrr. apply O1; lia.
    + intros r c Hrr Hcc. apply P1; lia. }
  destruct bottom as [b|]; [|exact Skip].
  rewrite Hr1. rewrite Z.gtb_ltb. destruct (Z.ltb_spec 1 (d_rows d)); [|exact Skip]. clear Skip.
  - assert (Hf1 : fits (d_g d1)) by (rewrite G1; exact Hf).
    destruct (line_opt_refines h1 d1 1 (Some b) ba clear Hf1 S1 ltac:(lia) Hb Hba) as (h2 & E2 & F2 & S2 & T2 & X2 & O2 & P2).
    cbv zeta in S2, T2, X2, O2, P2. rewrite Ec in *.
    exists h2. split; [exact E2|]. split; [eapply same_flags_trans; eassumption|]. cbv zeta.
    split; [exact S2|]. split; [eapply textual_trans; eassumption|]. split; [|split].
    + destruct X1 as (e1 & L1 & A1). destruct X2 as (e2 & L2 & A2). exists (e2 ++ e1).
      split; [rewrite L2, L1, app_assoc; reflexivity|]. apply Forall_app. split.
      * rewrite Ec in A2. eapply Forall_impl; [|exact A2]. intros e. apply in_row_rows01. right; reflexivity.
      * eapply Forall_impl; [|exact A1]. intros e. apply in_row_rows01. left; reflexivity.
    + intros r c Hrr. rewrite O2 by lia. apply O1; lia.
    + intros r c Hrr Hcc. rewrite P2 by lia. apply P1; lia.
Qed.

(* ====================================================================== *)
(* clear                                                                   *)
(* ====================================================================== *)
Lemma clear_refines h d :
  h_g h = d_g d -> 0 <= d_cols d -> 1 <= d_rows d <= 4 ->
  exists h', hclear h = (h', HOk) /\ same_flags h h' /\ shows h' (lcd_clear d) /\ textual d (lcd_clear d) /\
    forall r c, 0 <= r < d_rows d -> 0 <= c < d_cols d -> dcell (lcd_clear d) r c = SP /\ hcell h' r c = SP.
Proof.
  intros G Hc Hr. exists (set_buf h (blank_buf (h_cols h) (h_rows h))).
  assert (Ec : h_cols h = d_cols d) by (unfold h_cols, d_cols; rewrite G; reflexivity).
  assert (Er : h_rows h = d_rows d) by (unfold h_rows, d_rows; rewrite G; reflexivity).
  split; [reflexivity|]. split; [repeat split|]. split; [|split; [apply textual_lcd_clear|]].
  - apply shows_intro.
    + exact G.
    + unfold d_rows in *. cbn [d_g lcd_clear]. lia.
    + cbn [h_buf set_buf]. unfold h_cols, h_rows. cbn [h_g set_buf]. fold (h_cols h). fold (h_rows h).
      apply buf_wf_blank; lia.
    + intros r c Hrr Hcc. unfold dcell. cbn [d_ram lcd_clear]. unfold hcell. cbn [h_buf set_buf].
      rewrite znth_blank_buf; [reflexivity| |]; unfold d_rows, d_cols in *; cbn [d_g lcd_clear] in *; lia.
  - intros r c Hrr Hcc. split; [reflexivity|]. unfold hcell. cbn [h_buf set_buf]. apply znth_blank_buf; lia.
Qed.

(* ====================================================================== *)
(* progress: the arithmetic                                                *)
(* ====================================================================== *)
Lemma dfilled_Z v m w : 0 < m -> 0 <= w -> dfilled v m w = clampv v m * w / m.
Proof.
  intros Hm Hw. unfold dfilled, clampv.
  destruct (Z.leb_spec m 0); [lia|].
  set (v1 := if v <? 0 then 0 else v).
  set (v2 := if v1 >? m then m else v1).
  assert (E : v2 = Z.max 0 (Z.min m v)).
  { subst v2 v1. destruct (Z.ltb_spec v 0); rewrite Z.gtb_ltb; zb. }
  rewrite E. set (c := Z.max 0 (Z.min m v)). assert (Hcr : 0 <= c <= m) by (subst c; lia).
  rewrite Z.quot_div_nonneg by nia.
  assert (Hq : 0 <= c * w / m <= w).
  { split; [apply Z.div_pos; nia|]. apply Z.div_le_upper_bound; nia. }
  destruct (Z.ltb_spec (c * w / m) 0); [lia|]. rewrite Z.gtb_ltb. destruct (Z.ltb_spec w (c * w / m)); [lia|reflexivity].
Qed.

Lemma clampv_mono v1 v2 m : v1 <= v2 -> clampv v1 m <= clampv v2 m.
Proof. unfold clampv. lia. Qed.

(* max_value <= 0: an empty bar on both sides (host: ratio = 0; firmware: value = 0, max_value = 1) *)
Lemma hfilled_nonpos v m w : m <= 0 -> hfilled v m w = 0.
Proof.
  intros Hm. unfold hfilled, hratio. destruct (Z.leb_spec m 0); [|lia].
  unfold Qmult, inject_Z, round_half_even. cbn [Qnum Qden Z.mul Pos.mul]. reflexivity.
Qed.

Lemma dfilled_nonpos v m w : m <= 0 -> 0 <= w -> dfilled v m w = 0.
Proof.
  intros Hm Hw. unfold dfilled. destruct (Z.leb_spec m 0); [|lia].
  cbn [Z.ltb Z.gtb Z.compare Z.mul Z.quot Z.quotrem fst]. rewrite Z.gtb_ltb. destruct (Z.ltb_spec w 0); [lia|reflexivity].
Qed.

Lemma hfilled_range' v m w : 0 <= w -> 0 <= hfilled v m w <= w.
Proof.
  intros Hw. destruct (Z_lt_le_dec 0 m) as [Hm|Hm]; [apply hfilled_range; assumption|].
  rewrite hfilled_nonpos by exact Hm. lia.
Qed.

Lemma progress_monotone_pos v1 v2 m w : 0 < m -> 1 <= w -> v1 <= v2 ->
  hfilled v1 m w <= hfilled v2 m w /\ dfilled v1 m w <= dfilled v2 m w.
Proof.
  intros Hm Hw Hv. rewrite !hfilled_Z, !dfilled_Z by lia.
  pose proof (clampv_mono v1 v2 m Hv). pose proof (clampv_range v1 m Hm). pose proof (clampv_range v2 m Hm).
  split; [apply rhe_div_mono; nia|apply Z.div_le_mono; nia].
Qed.

(* every max_value, also <= 0 (both bars stay empty) *)
Lemma progress_monotone v1 v2 m w : 1 <= w -> v1 <= v2 ->
  hfilled v1 m w <= hfilled v2 m w /\ dfilled v1 m w <= dfilled v2 m w.
Proof.
  intros Hw Hv. destruct (Z_lt_le_dec 0 m) as [Hm|Hm]; [apply progress_monotone_pos; assumption|].
  rewrite !hfilled_nonpos, !dfilled_nonpos by lia. lia.
Qed.

Lemma progress_saturates_pos v m w : 0 < m -> 1 <= w ->
  0 <= hfilled v m w <= w /\ 0 <= dfilled v m w <= w /\
  (v <= 0 -> hfilled v m w = 0 /\ dfilled v m w = 0) /\
  (m <= v -> hfilled v m w = w /\ dfilled v m w = w).
Proof.
  intros Hm Hw. split; [apply hfilled_range; lia|].
  rewrite hfilled_Z, dfilled_Z by lia. pose proof (clampv_range v m Hm) as Hc.
  split; [split; [apply Z.div_pos; nia|apply Z.div_le_upper_bound; nia]|]. split.
  - intros Hv. replace (clampv v m) with 0 by (unfold clampv; lia).
    change (0 * w) with (0 * m). rewrite rhe_div_exact by lia. rewrite Z.div_mul by lia. split; reflexivity.
  - intros Hv. replace (clampv v m) with m by (unfold clampv; lia).
    rewrite (Z.mul_comm m w), rhe_div_exact, Z.div_mul by lia. split; reflexivity.
Qed.

(* saturation: 0 at value <= 0 - and for every value when max_value <= 0 -, the bar width at
   value >= max_value > 0 *)
Lemma progress_saturates v m w : 1 <= w ->
  0 <= hfilled v m w <= w /\ 0 <= dfilled v m w <= w /\
  (v <= 0 \/ m <= 0 -> hfilled v m w = 0 /\ dfilled v m w = 0) /\
  (0 < m <= v -> hfilled v m w = w /\ dfilled v m w = w).
Proof.
  intros Hw. destruct (Z_lt_le_dec 0 m) as [Hm|Hm].
  - destruct (progress_saturates_pos v m w Hm Hw) as (A & B & C & D).
    split; [exact A|]. split; [exact B|]. split.
    + intros [Hv|Hn]; [apply C; exact Hv|lia].
    + intros Hv. apply D. lia.
  - rewrite hfilled_nonpos, dfilled_nonpos by lia.
    split; [lia|]. split; [lia|]. split; [intros _; split; reflexivity|lia].
Qed.

Lemma progress_exact v m w : 1 <= w -> (m | v * w) -> hfilled v m w = dfilled v m w.
Proof.
  intros Hw [k Hk].
  destruct (Z_lt_le_dec 0 m) as [Hm|Hm]; [|rewrite hfilled_nonpos, dfilled_nonpos by lia; reflexivity].
  destruct (Z_le_gt_dec v 0) as [H0|H0]; [destruct (progress_saturates_pos v m w Hm Hw) as (_ & _ & S & _); destruct (S H0); congruence|].
  destruct (Z_le_gt_dec m v) as [H1|H1]; [destruct (progress_saturates_pos v m w Hm Hw) as (_ & _ & _ & S); destruct (S H1); congruence|].
  rewrite hfilled_Z, dfilled_Z by lia. replace (clampv v m) with v by (unfold clampv; lia).
  rewrite Hk, rhe_div_exact, Z.div_mul by lia. reflexivity.
Qed.

Lemma progress_within_one v m w : 1 <= w -> 0 <= hfilled v m w - dfilled v m w <= 1.
Proof.
  intros Hw. destruct (Z_lt_le_dec 0 m) as [Hm|Hm]; [|rewrite hfilled_nonpos, dfilled_nonpos by lia; lia].
  rewrite hfilled_Z, dfilled_Z by lia.
  set (n := clampv v m * w).
  pose proof (rhe_div_near n m Hm) as Hn.
  pose proof (Z.div_mod n m ltac:(lia)) as E. pose proof (Z.mod_pos_bound n m Hm) as B.
  split; nia.
Qed.

(* ====================================================================== *)
(* progress: the rendered row                                              *)
(* ====================================================================== *)
Lemma trunc_ztake t n : trunc t n = ztake n t.
Proof.
  unfold trunc. rewrite Z.gtb_ltb. destruct (Z.ltb_spec n (zlen t)); [reflexivity|].
  symmetry. apply ztake_all. exact H.
Qed.

Lemma map_zrepeat {A B} (f : A -> B) x n : map f (zrepeat x n) = zrepeat (f x) n.
Proof. unfold zrepeat. induction (Z.to_nat n) as [|k IH]; cbn; [reflexivity|]. rewrite IH. reflexivity. Qed.

Lemma bar_eq g f w : 0 <= f <= w ->
  map (fun i => if i <? f then g else SP) (zseq w) = zrepeat g f ++ zrepeat SP (w - f).
Proof.
  intros Hf. apply nth_ext with (d := 0) (d' := 0).
  - rewrite map_length, length_zseq, app_length. unfold zrepeat. rewrite !repeat_length. lia.
  - intros i Hi. rewrite map_length, length_zseq in Hi.
    rewrite (nth_map' _ _ _ 0) by (rewrite length_zseq; exact Hi). rewrite nth_zseq by exact Hi.
    destruct (Z.ltb_spec (Z.of_nat i) f).
    + rewrite app_nth1 by (unfold zrepeat; rewrite repeat_length; lia). symmetry. apply nth_zrepeat. lia.
    + rewrite app_nth2 by (unfold zrepeat; rewrite repeat_length; lia).
      unfold zrepeat at 1. rewrite repeat_length. symmetry. apply nth_zrepeat. lia.
Qed.

Lemma canon_glyph s : style_ok s = true -> canon (host_glyph s) = dev_glyph s.
Proof.
  unfold style_ok. intros H. apply andb_true_iff in H as [H0 H3]. apply Z.leb_le in H0, H3.
  assert (Hs : s = 0 \/ s = 1 \/ s = 2 \/ s = 3) by lia. destruct Hs as [Hs|[Hs|[Hs|Hs]]]; subst s; reflexivity.
Qed.

Lemma map_canon_ascii t : ascii t -> map canon t = t.
Proof.
  intros H. induction H as [|x t Hx Ht IH]; cbn; [reflexivity|]. rewrite IH, canon_ascii by exact Hx. reflexivity.
Qed.

(* every width argument, also <= 0 or > cols: both sides clamp it into 1..cols *)
Lemma width_agree cols width : 1 <= cols ->
  dwidth cols width = hwidth cols width /\ 1 <= hwidth cols width <= cols.
Proof.
  intros Hc. unfold dwidth, hwidth. destruct width as [w|]; cbv zeta; rewrite Z.gtb_ltb.
  - destruct (Z.ltb_spec cols w); zb.
  - destruct (Z.ltb_spec cols cols); zb.
Qed.

(* firmware text = canon (host text) when the two filled lengths coincide *)
Lemma progress_text_eq cols value maxv width style label :
  1 <= cols -> style_ok style = true -> ascii label ->
  hfilled value maxv (hwidth cols width) = dfilled value maxv (dwidth cols width) ->
  exists th, hprogress_row cols value maxv width style label = ljust th cols /\ zlen th <= cols /\
             dev_progress_text cols value maxv width style label = map canon th.
Proof.
  intros Hc Hs Hl Hfd.
  destruct (width_agree cols width Hc) as [Ew Hwr]. rewrite Ew in Hfd.
  unfold hprogress_row, dev_progress_text. rewrite Ew, <- Hfd.
  set (w := hwidth cols width) in *. set (f := hfilled value maxv w).
  assert (Hfr : 0 <= f <= w) by (apply hfilled_range'; lia).
  rewrite bar_eq by exact Hfr. replace (Z.max 0 (w - f)) with (w - f) by lia.
  set (barh := zrepeat (host_glyph style) f ++ zrepeat SP (w - f)).
  assert (Eb : zrepeat (dev_glyph style) f ++ zrepeat SP (w - f) = map canon barh).
  { subst barh. rewrite map_app, !map_zrepeat, canon_glyph by exact Hs. reflexivity. }
  rewrite Eb. fold (trunc (match label with [] => map canon barh | _ :: _ => label ++ [SP] ++ map canon barh end) cols).
  rewrite trunc_ztake.
  destruct label as [|l0 lr].
  - exists (ztake cols barh). split; [reflexivity|]. split; [rewrite zlen_ztake; lia|]. apply ztake_map.
  - exists (ztake cols ((l0 :: lr) ++ [SP] ++ barh)). split; [reflexivity|]. split; [rewrite zlen_ztake; lia|].
    rewrite <- ztake_map. f_equal. rewrite !map_app. rewrite (map_canon_ascii _ Hl). reflexivity.
Qed.

Lemma progress_refines h d row value maxv width style label :
  fits (d_g d) -> shows h d -> 0 <= row < d_rows d -> style_ok style = true -> ascii label ->
  hfilled value maxv (hwidth (d_cols d) width) = dfilled value maxv (dwidth (d_cols d) width) ->
  exists h', hprogress h row value maxv width style label = (h', HOk) /\ same_flags h h' /\
    let d' := progress d (d_cols d) row value maxv width style label in
    shows h' d' /\ textual d d' /\ in_row_ext row d d' /\
    (forall r c, 0 <= r < d_rows d -> r <> row -> hcell h' r c = hcell h r c) /\
    (forall r c, 0 <= r < d_rows d -> 0 <= c < d_cols d -> r <> row -> dcell d' r c = dcell d r c).
Proof.
  intros Hf Sh Hrow Hs Hl Hfd.
  destruct (shows_geom h d Sh) as [Ec Er]. pose proof Hf as (Hc40 & Hr4 & _). fold (d_cols d) in Hc40. fold (d_rows d) in Hr4.
  pose proof Sh as (G & Wf & _).
  destruct (progress_text_eq (d_cols d) value maxv width style label ltac:(lia) Hs Hl Hfd) as (th & Eh & Lh & Ed).
  exists (set_buf h (zupd row (hprogress_row (h_cols h) value maxv width style label) (h_buf h))).
  split.
  { unfold hprogress. rewrite Hs. cbn [negb]. unfold row_ok. rewrite Er.
    destruct (Z.leb_spec 0 row); [|lia]. destruct (Z.ltb_spec row (d_rows d)); [|lia]. reflexivity. }
  split; [repeat split|]. cbv zeta.
  set (h' := set_buf h _).
  (* firmware side *)
  unfold progress. destruct (Z.leb_spec (d_cols d) 0); [lia|]. rewrite Ed.
  destruct (clear_row_in d row Hf Hrow) as (G1 & C1 & X1).
  set (d1 := clear_row d (d_cols d) row) in *.
  assert (Hf1 : fits (d_g d1)) by (rewrite G1; exact Hf).
  assert (Er1 : d_rows d1 = d_rows d) by (unfold d_rows; rewrite G1; reflexivity).
  assert (Ec1 : d_cols d1 = d_cols d) by (unfold d_cols; rewrite G1; reflexivity).
  pose proof (zlen_nonneg th) as Hth.
  destruct (cursor_print d1 0 row (map canon th) Hf1 ltac:(lia) ltac:(lia)) as (G2 & C2 & X2).
  { rewrite zlen_map. lia. }
  set (d' := print (set_cursor d1 0 row) (map canon th)) in *.
  assert (Dc : forall r c, 0 <= r < d_rows d -> 0 <= c < d_cols d ->
            dcell d' r c = if r =? row then (if c <? zlen th then canon (znth c th 0) else SP) else dcell d r c).
  { intros r c Hr Hc. rewrite C2 by lia. rewrite C1 by assumption. rewrite zlen_map.
    destruct (Z.eqb_spec r row); cbn [andb]; [|reflexivity].
    destruct (Z.leb_spec 0 c); [|lia]. cbn [andb].
    destruct (Z.ltb_spec c (0 + zlen th)); destruct (Z.ltb_spec c (zlen th)); try lia; try reflexivity.
    rewrite Z.sub_0_r. apply (znth_map canon th c 0 0). lia. }
  assert (Hc' : forall r c, 0 <= r < d_rows d -> 0 <= c < d_cols d ->
            hcell h' r c = if r =? row then (if c <? zlen th then znth c th 0 else SP) else hcell h r c).
  { intros r c Hr Hc. subst h'. rewrite hcell_set_row by (try assumption; lia).
    destruct (Z.eqb_spec r row); [|reflexivity]. rewrite Ec, Eh. apply znth_ljust; lia. }
  assert (Wf' : buf_wf (h_cols h) (h_rows h) (h_buf h')).
  { subst h'. cbn [h_buf set_buf]. apply buf_wf_zupd; [exact Wf|]. rewrite Ec, Eh. apply zlen_ljust. exact Lh. }
  split; [|split; [|split; [|split]]].
  - apply shows_intro.
    + cbn [h_g set_buf h']. congruence.
    + unfold d_rows in *. rewrite G2, G1. lia.
    + exact Wf'.
    + intros r c Hr Hc. assert (Hr' : 0 <= r < d_rows d) by (unfold d_rows in *; rewrite G2, G1 in Hr; exact Hr).
      assert (Hcc : 0 <= c < d_cols d) by (unfold d_cols in *; rewrite G2, G1 in Hc; exact Hc).
      rewrite Dc, Hc' by assumption.
      destruct (Z.eqb_spec r row); [|apply shows_cells; try assumption; lia].
      destruct (c <? zlen th); reflexivity.
  - eapply textual_trans; [apply textual_clear_row|]. eapply textual_trans; [apply textual_set_cursor|apply textual_print].
  - eapply in_row_ext_trans; [exact G1|exact X1|exact X2].
  - intros r c Hr Hne. unfold hcell. subst h'. cbn [h_buf set_buf]. rewrite znth_zupd by lia.
    destruct (Z.eqb_spec r row); [contradiction|]. reflexivity.
  - intros r c Hr Hc Hne. rewrite Dc by assumption. destruct (Z.eqb_spec r row); [contradiction|]. reflexivity.
Qed.

(* ====================================================================== *)
(* backlight, brightness, display, glyph; one step; histories              *)
(* ====================================================================== *)
Lemma last_aw_text p evs l : Forall text_ev evs -> last_aw p (evs ++ l) = last_aw p l.
Proof.
  induction 1 as [|e evs He _ IH]; [reflexivity|]. cbn [app last_aw]. destruct e; cbn in He; try contradiction; exact IH.
Qed.

Lemma last_bl_text evs l : Forall text_ev evs -> last_bl (evs ++ l) = last_bl l.
Proof.
  induction 1 as [|e evs He _ IH]; [reflexivity|]. cbn [app last_bl]. destruct e; cbn in He; try contradiction; exact IH.
Qed.

Lemma last_cg_text s evs l : Forall text_ev evs -> last_cg s (evs ++ l) = last_cg s l.
Proof.
  induction 1 as [|e evs He _ IH]; [reflexivity|]. cbn [app last_cg]. destruct e; cbn in He; try contradiction; exact IH.
Qed.

(* a text call keeps the backlight and glyph agreement *)
Lemma agrees_text h d h' d' :
  agrees h d -> same_flags h h' -> textual d d' -> shows h' d' -> agrees h' d'.
Proof.
  intros (_ & Bl & Gl) (Fg & Fd & Fb & Fr & Fy) (G & B & S & evs & L & T) Sh.
  split; [exact Sh|]. split.
  - unfold bl_agree in *. rewrite G, L, Fb, Fr. destruct (g_i2c (d_g d)).
    + rewrite last_bl_text by exact T. exact Bl.
    + destruct (g_blpin (d_g d)); [|exact I]. rewrite last_aw_text by exact T. rewrite B, S. exact Bl.
  - unfold glyph_agree in *. intros slot Hs. rewrite Fy, L, last_cg_text by exact T. apply Gl. exact Hs.
Qed.

Lemma shows_same_cells h d h' d' :
  shows h d -> h_g h' = h_g h -> h_buf h' = h_buf h -> d_g d' = d_g d -> d_ram d' = d_ram d -> shows h' d'.
Proof.
  intros (G & Wf & E) Gh Bh Gd Rd. unfold shows, h_cols, h_rows, cells, dcell, d_cols, d_rows in *.
  rewrite Gh, Bh, Gd, Rd. auto.
Qed.

(* the backlight pin of a parallel display under every history of the firmware model,
   whatever the arguments (no guard) *)
Definition pin_inv (d : dlcd) : Prop :=
  match g_blpin (d_g d) with
  | Some p => g_i2c (d_g d) = false ->
              last_aw p (d_log d) = Some (if d_blstate d then d_bright d else 0) /\ 0 <= d_bright d <= 255
  | None => True
  end.

Lemma pin_inv_textual d d' : textual d d' -> pin_inv d -> pin_inv d'.
Proof.
  intros (G & B & S & evs & L & T) I. unfold pin_inv in *. rewrite G, L, B, S.
  destruct (g_blpin (d_g d)); [|exact I]. rewrite last_aw_text by exact T. exact I.
Qed.

Lemma pin_inv_bl_switch d on : pin_inv d -> pin_inv (bl_switch d on).
Proof.
  unfold pin_inv, bl_switch. destruct (g_i2c (d_g d)) eqn:Ei.
  - cbn [d_g log d_log]. destruct (g_blpin (d_g d)); [|trivial]. intros _ Hc. congruence.
  - destruct (g_blpin (d_g d)) as [p|] eqn:Ep; cbn [d_g log set_bl d_log d_blstate d_bright]; rewrite ?Ep; [|trivial].
    intros I _. specialize (I eq_refl). cbn [last_aw]. rewrite Z.eqb_refl. split; [destruct on; reflexivity|apply I].
Qed.

Lemma pin_inv_log_other d e : (match e with EvAW _ _ => False | _ => True end) -> pin_inv d -> pin_inv (log d e).
Proof.
  intros He I. unfold pin_inv in *. cbn [d_g log d_log d_blstate d_bright].
  destruct (g_blpin (d_g d)); [|exact I]. destruct e; try contradiction; exact I.
Qed.

Lemma pin_inv_brightness d level : pin_inv d -> pin_inv (dev_brightness d level).
Proof.
  unfold pin_inv, dev_brightness. destruct (g_blpin (d_g d)) as [p|] eqn:Ep; [|rewrite Ep; trivial].
  set (b0 := if level <? 0 then 0 else level). set (b := if b0 >? 255 then 255 else b0).
  assert (Hb : 0 <= b <= 255) by (subst b b0; destruct (Z.ltb_spec level 0); rewrite Z.gtb_ltb; zb).
  intros I. destruct (d_blstate d) eqn:Es; cbn [d_g log set_bl d_log d_blstate d_bright]; rewrite Ep; intros Hi.
  - cbn [last_aw]. rewrite Z.eqb_refl. split; [reflexivity|exact Hb].
  - specialize (I Hi). split; [apply I|exact Hb].
Qed.

Lemma pin_inv_step d op : pin_inv d -> pin_inv (dstep' d op).
Proof.
  intros I. unfold dstep', dstep. destruct op.
  - destruct (align_ok align); [|exact I]. eapply pin_inv_textual; [apply textual_write_aligned|exact I].
  - destruct (align_ok align); [|exact I]. eapply pin_inv_textual; [apply textual_write_aligned|exact I].
  - destruct (align_ok top_align && align_ok bottom_align); [|exact I].
    set (d1 := match option_map utf8 top with Some t => _ | None => d end).
    assert (I1 : pin_inv d1) by (subst d1; destruct top; [eapply pin_inv_textual; [apply textual_write_aligned|exact I]|exact I]).
    destruct bottom; [|exact I1]. destruct (d_rows d >? 1); [|exact I1].
    eapply pin_inv_textual; [apply textual_write_aligned|exact I1].
  - eapply pin_inv_textual; [apply textual_lcd_clear|exact I].
  - destruct (style_ok style); [|exact I]. eapply pin_inv_textual; [apply textual_progress|exact I].
  - unfold dev_display. apply pin_inv_bl_switch. apply pin_inv_log_other; [exact Logic.I|exact I].
  - apply pin_inv_bl_switch. exact I.
  - apply pin_inv_brightness. exact I.
  - destruct (zlen bitmap =? 8); [|exact I]. unfold pin_inv in *. cbn [d_g create_char d_log d_blstate d_bright last_aw]. exact I.
Qed.

Lemma pin_inv_init g : pin_inv (dinit g).
Proof.
  unfold pin_inv, dinit. cbn [d_g lcd_clear]. destruct (g_i2c g) eqn:Ei; cbn [d_g log].
  - destruct (g_blpin g); [|trivial]. congruence.
  - destruct (g_blpin g) as [p|] eqn:Ep; cbn [d_g log]; rewrite ?Ep; [|trivial].
    intros _. cbn [d_log lcd_clear log last_aw d_blstate d_bright]. rewrite Z.eqb_refl. split; [reflexivity|lia].
Qed.

Lemma pin_inv_run ops : forall d, pin_inv d -> pin_inv (drun d ops).
Proof. induction ops as [|op r IH]; intros d I; cbn [drun]; [exact I|]. apply IH, pin_inv_step, I. Qed.

(* ---------- glyphs ---------- *)
Lemma gget_gset slot v l s : gget s (gset slot v l) = if slot =? s then Some v else gget s l.
Proof.
  unfold gset. cbn [gget]. destruct (Z.eqb_spec slot s); [reflexivity|].
  induction l as [|[k w] l IH]; cbn [filter gget fst]; [reflexivity|].
  destruct (Z.eqb_spec k slot); cbn [negb gget].
  - subst k. destruct (Z.eqb_spec slot s); [contradiction|]. exact IH.
  - destruct (k =? s); [reflexivity|exact IH].
Qed.

Lemma land_slot slot : 0 <= slot <= 7 -> Z.land (u8 slot) 7 = slot.
Proof.
  intros H. unfold u8. rewrite Z.mod_small by lia.
  assert (Hs : slot = 0 \/ slot = 1 \/ slot = 2 \/ slot = 3 \/ slot = 4 \/ slot = 5 \/ slot = 6 \/ slot = 7) by lia.
  destruct Hs as [Hs|[Hs|[Hs|[Hs|[Hs|[Hs|[Hs|Hs]]]]]]]; subst slot; reflexivity.
Qed.

Lemma glyph_rows_8 bitmap : zlen bitmap = 8 ->
  glyph_rows bitmap = dev_glyph_rows bitmap /\ zlen (glyph_rows bitmap) = 8 /\
  Forall (fun v => 0 <= v <= 31) (glyph_rows bitmap).
Proof.
  intros H. unfold glyph_rows, dev_glyph_rows.
  rewrite ztake_all by (rewrite zlen_map; lia). split; [reflexivity|]. split; [rewrite zlen_map; exact H|].
  apply Forall_forall. intros x Hx. apply in_map_iff in Hx as [v [<- _]].
  change 31 with (Z.ones 5). rewrite Z.land_ones by lia. pose proof (Z.mod_pos_bound v (2 ^ 5) ltac:(lia)).
  change (Z.ones 5) with 31. change (2 ^ 5) with 32 in *. lia.
Qed.

Lemma row_in_spec g row : row_in g row = true -> 0 <= row < g_rows g.
Proof. unfold row_in. intros H. apply andb_true_iff in H as [H0 H1]. apply Z.leb_le in H0. apply Z.ltb_lt in H1. lia. Qed.

Lemma col_in_spec g col : col_in g col = true -> 0 <= col < g_cols g.
Proof. unfold col_in. intros H. apply andb_true_iff in H as [H0 H1]. apply Z.leb_le in H0. apply Z.ltb_lt in H1. lia. Qed.

(* ---------- one guarded call ---------- *)
Lemma step_refines h d op :
  fits (d_g d) -> agrees h d -> op_guard (d_g d) op = true ->
  exists h' d', hstep h op = (h', HOk) /\ dstep d op = Some d' /\ agrees h' d' /\ d_g d' = d_g d.
Proof.
  intros Hf Ag Hg. pose proof Ag as (Sh & Bl & Gl). pose proof Hf as (Hc & Hr & _).
  fold (d_cols d) in Hc. fold (d_rows d) in Hr.
  destruct op; cbn [op_guard] in Hg; cbn [hstep dstep].
  - (* write *)
    apply andb_true_iff in Hg as [Hg Hal]. apply andb_true_iff in Hg as [Hg Hasc]. apply andb_true_iff in Hg as [Hrow Hcol].
    apply row_in_spec in Hrow. apply col_in_spec in Hcol.
    destruct (write_refines h d col row text clear align Hf Sh Hrow Hcol (asciib_ascii _ Hasc) Hal) as (h' & E & F & S' & T & _).
    rewrite Hal, (utf8_ascii _ (asciib_ascii _ Hasc)). eexists; eexists. split; [exact E|]. split; [reflexivity|]. split; [eapply agrees_text; eassumption|apply T].
  - (* line *)
    apply andb_true_iff in Hg as [Hg Hal]. apply andb_true_iff in Hg as [Hrow Hasc].
    apply row_in_spec in Hrow. rewrite hline_hwrite.
    destruct (write_refines h d 0 row text clear align Hf Sh Hrow ltac:(lia) (asciib_ascii _ Hasc) Hal) as (h' & E & F & S' & T & _).
    rewrite Hal, (utf8_ascii _ (asciib_ascii _ Hasc)). eexists; eexists. split; [exact E|]. split; [reflexivity|]. split; [eapply agrees_text; eassumption|apply T].
  - (* message *)
    apply andb_true_iff in Hg as [Hg Hba]. apply andb_true_iff in Hg as [Hg Hta].
    apply andb_true_iff in Hg as [Hat Hab].
    assert (At : opt_ascii top) by (destruct top; [apply asciib_ascii; exact Hat|exact I]).
    assert (Ab : opt_ascii bottom) by (destruct bottom; [apply asciib_ascii; exact Hab|exact I]).
    destruct (message_refines h d top bottom top_align bottom_align clear Hf Sh At Ab Hta Hba) as (h' & E & F & S' & T & _).
    rewrite Hta, Hba, (opt_utf8_ascii _ At), (opt_utf8_ascii _ Ab). cbn [andb].
    fold (dmessage d top bottom top_align bottom_align clear).
    eexists; eexists. split; [exact E|]. split; [reflexivity|].
    split; [eapply agrees_text; eassumption|apply T].
  - (* clear *)
    destruct Sh as (G & Wf & Ec).
    destruct (clear_refines h d G ltac:(lia) ltac:(lia)) as (h' & E & F & S' & T & _).
    eexists; eexists. split; [exact E|]. split; [reflexivity|]. split; [|reflexivity].
    eapply agrees_text; eassumption.
  - (* progress *)
    apply andb_true_iff in Hg as [Hg Hfe].
    apply andb_true_iff in Hg as [Hg Hasc]. apply andb_true_iff in Hg as [Hrow Hst].
    apply row_in_spec in Hrow. apply Z.eqb_eq in Hfe.
    destruct (progress_refines h d row value maxv width style label Hf Sh Hrow Hst (asciib_ascii _ Hasc) Hfe)
      as (h' & E & F & S' & T & _).
    rewrite Hst, (utf8_ascii _ (asciib_ascii _ Hasc)).
    eexists; eexists. split; [exact E|]. split; [reflexivity|]. split; [eapply agrees_text; eassumption|apply T].
  - (* display *)
    eexists; eexists. split; [reflexivity|]. split; [reflexivity|].
    assert (Gd : d_g (dev_display d on) = d_g d).
    { unfold dev_display, bl_switch. cbn [d_g log]. destruct (g_i2c (d_g d)); [reflexivity|]. destruct (g_blpin (d_g d)); reflexivity. }
    split; [|exact Gd]. split; [|split].
    + eapply shows_same_cells; [exact Sh|reflexivity|reflexivity|exact Gd|].
      unfold dev_display, bl_switch. cbn [d_g log]. destruct (g_i2c (d_g d)); [reflexivity|]. destruct (g_blpin (d_g d)); reflexivity.
    + unfold bl_agree in *. rewrite Gd. unfold dev_display, bl_switch. cbn [d_g log].
      destruct (g_i2c (d_g d)); [reflexivity|].
      destruct (g_blpin (d_g d)) as [p|]; [|exact I]. destruct Bl as (_ & _ & Eb & Rb).
      cbn [d_log log set_bl d_blstate d_bright last_aw h_backlight h_bright hdisplay fst]. rewrite Z.eqb_refl, Eb.
      repeat split; try (apply Rb). 
    + unfold glyph_agree in *. intros s Hs. cbn [h_glyphs]. rewrite (Gl s Hs). unfold dev_display, bl_switch. cbn [d_g log].
      destruct (g_i2c (d_g d)); [reflexivity|]. destruct (g_blpin (d_g d)); reflexivity.
  - (* backlight *)
    eexists; eexists. split; [reflexivity|]. split; [reflexivity|].
    assert (Gd : d_g (dev_backlight d on) = d_g d).
    { unfold dev_backlight, bl_switch. destruct (g_i2c (d_g d)); [reflexivity|]. destruct (g_blpin (d_g d)); reflexivity. }
    split; [|exact Gd]. split; [|split].
    + eapply shows_same_cells; [exact Sh|reflexivity|reflexivity|exact Gd|].
      unfold dev_backlight, bl_switch. destruct (g_i2c (d_g d)); [reflexivity|]. destruct (g_blpin (d_g d)); reflexivity.
    + unfold bl_agree in *. rewrite Gd. unfold dev_backlight, bl_switch.
      destruct (g_i2c (d_g d)); [reflexivity|].
      destruct (g_blpin (d_g d)) as [p|]; [|exact I]. destruct Bl as (_ & _ & Eb & Rb).
      cbn [d_log log set_bl d_blstate d_bright last_aw h_backlight h_bright hbacklight fst]. rewrite Z.eqb_refl, Eb.
      repeat split; try (apply Rb).
    + unfold glyph_agree in *. intros s Hs. cbn [h_glyphs]. rewrite (Gl s Hs). unfold dev_backlight, bl_switch.
      destruct (g_i2c (d_g d)); [reflexivity|]. destruct (g_blpin (d_g d)); reflexivity.
  - (* brightness *)
    apply andb_true_iff in Hg as [Hg H0]. apply andb_true_iff in Hg as [Hg H]. apply andb_true_iff in Hg as [Hg Hp].
    apply Z.leb_le in H, H0.
    apply negb_true_iff in Hg. destruct (g_blpin (d_g d)) as [p|] eqn:Ep; [|discriminate].
    destruct Sh as (G & Wf & Ec).
    unfold hbrightness. rewrite G, Hg, Ep.
    destruct (Z.leb_spec 0 level); [|lia]. destruct (Z.leb_spec level 255); [|lia]. cbn [andb negb].
    eexists; eexists. split; [reflexivity|]. split; [reflexivity|].
    unfold bl_agree in Bl. rewrite Hg, Ep in Bl. destruct Bl as (La & Es & Eb & Rb).
    assert (Gd : d_g (dev_brightness d level) = d_g d).
    { unfold dev_brightness. rewrite Ep. destruct (d_blstate d); reflexivity. }
    split; [|exact Gd]. split; [|split].
    + eapply shows_same_cells; [split; [exact G|split; [exact Wf|exact Ec]]|cbn [h_g]; congruence|reflexivity|exact Gd|].
      unfold dev_brightness. rewrite Ep. destruct (d_blstate d); reflexivity.
    + unfold bl_agree. rewrite Gd, Hg, Ep. unfold dev_brightness. rewrite Ep.
      destruct (Z.ltb_spec level 0); [lia|]. rewrite Z.gtb_ltb. destruct (Z.ltb_spec 255 level); [lia|].
      cbn [h_backlight h_bright]. rewrite <- Es.
      destruct (d_blstate d) eqn:Ed; cbn [d_log log set_bl d_blstate d_bright last_aw].
      * rewrite Z.eqb_refl. repeat split; lia.
      * rewrite La, <- Es. repeat split; lia.
    + unfold glyph_agree in *. intros s Hs. cbn [h_glyphs]. rewrite (Gl s Hs). unfold dev_brightness. rewrite Ep.
      destruct (d_blstate d); reflexivity.
  - (* glyph *)
    apply andb_true_iff in Hg as [Hg H]. apply andb_true_iff in Hg as [Hg H0].
    apply Z.leb_le in Hg, H0. apply Z.eqb_eq in H.
    destruct (glyph_rows_8 bitmap H) as (Eg & Lg & _).
    unfold hglyph. destruct (Z.leb_spec 0 slot); [|lia]. destruct (Z.leb_spec slot 7); [|lia]. cbn [andb negb].
    rewrite Lg. cbn [Z.eqb Pos.eqb negb]. rewrite H. cbn [Z.eqb Pos.eqb].
    eexists; eexists. split; [reflexivity|]. split; [reflexivity|]. split; [|reflexivity]. split; [|split].
    + eapply shows_same_cells; [exact Sh|reflexivity|reflexivity|reflexivity|reflexivity].
    + unfold bl_agree in *. cbn [d_g create_char d_log last_bl last_aw d_blstate d_bright h_backlight h_bright]. exact Bl.
    + unfold glyph_agree in *. intros s Hs. cbn [h_glyphs d_log create_char last_cg].
      rewrite gget_gset, land_slot by lia. rewrite Eg. destruct (slot =? s); [reflexivity|apply Gl; exact Hs].
Qed.

(* ---------- the initial state ---------- *)
Lemma agrees_init g h0 : hinit g = Some h0 -> g_rows g <= 4 -> agrees h0 (dinit g).
Proof.
  unfold hinit. destruct ((g_cols g <=? 0) || (g_rows g <=? 0)) eqn:E; [discriminate|].
  apply orb_false_iff in E as [E1 E2]. apply Z.leb_gt in E1, E2.
  intros H R4. injection H as <-. split; [|split].
  - apply shows_intro.
    + cbn [h_g]. unfold dinit. cbn [d_g lcd_clear]. destruct (g_i2c g); [reflexivity|]. destruct (g_blpin g); reflexivity.
    + unfold d_rows, dinit. cbn [d_g lcd_clear]. destruct (g_i2c g); cbn [d_g log]; [exact R4|]. destruct (g_blpin g); cbn [d_g log]; exact R4.
    + unfold h_cols, h_rows. cbn [h_g h_buf]. apply buf_wf_blank; lia.
    + intros r c Hr Hc. unfold dcell, dinit. cbn [d_ram lcd_clear]. unfold hcell. cbn [h_buf].
      assert (Gd : d_g (dinit g) = g).
      { unfold dinit. cbn [d_g lcd_clear]. destruct (g_i2c g); [reflexivity|]. destruct (g_blpin g); reflexivity. }
      unfold d_rows, d_cols in Hr, Hc. rewrite Gd in Hr, Hc. rewrite znth_blank_buf by assumption. reflexivity.
  - unfold bl_agree, dinit. cbn [d_g lcd_clear]. destruct (g_i2c g) eqn:Ei; cbn [d_g log]; rewrite ?Ei; [reflexivity|].
    destruct (g_blpin g) as [p|] eqn:Ep; cbn [d_g log]; rewrite ?Ei, ?Ep; [|exact I].
    cbn [d_log lcd_clear log last_aw d_blstate d_bright h_backlight h_bright]. rewrite Z.eqb_refl. repeat split; lia.
  - intros s Hs. cbn [h_glyphs gget]. unfold dinit. cbn [d_log lcd_clear].
    destruct (g_i2c g); cbn [d_log log last_cg]; [reflexivity|]. destruct (g_blpin g); reflexivity.
Qed.

(* ---------- every guarded history ---------- *)
Lemma history_refines ops : forall h d,
  fits (d_g d) -> agrees h d -> forallb (op_guard (d_g d)) ops = true ->
  hsteps_ok h ops /\ agrees (hrun h ops) (drun d ops).
Proof.
  induction ops as [|op r IH]; intros h d Hf Ag Hg; cbn [hsteps_ok hrun drun].
  - split; [exact I|exact Ag].
  - cbn [forallb] in Hg. apply andb_true_iff in Hg as [Hg Hr].
    destruct (step_refines h d op Hf Ag Hg) as (h' & d' & Eh & Ed & Ag' & Gd).
    unfold dstep'. rewrite Eh, Ed. cbn [fst snd].
    destruct (IH h' d') as [Ok Ag'']; [rewrite Gd; exact Hf|exact Ag'|rewrite Gd; exact Hr|].
    split; [split; [reflexivity|exact Ok]|exact Ag''].
Qed.

(* ====================================================================== *)
(* host: the buffer keeps its shape under every call, whatever the arguments *)
(* ====================================================================== *)
Lemma wf_cols_nonneg cols rows b row : buf_wf cols rows b -> 0 <= row < rows -> 0 <= cols.
Proof. intros Wf Hr. rewrite <- (buf_wf_row cols rows b row Wf Hr). apply zlen_nonneg. Qed.

Lemma row_ok_spec h row : row_ok h row = true -> 0 <= row < h_rows h.
Proof. unfold row_ok. intros H. apply andb_true_iff in H as [H0 H1]. apply Z.leb_le in H0. apply Z.ltb_lt in H1. lia. Qed.

Definition hwf (h : hlcd) : Prop := buf_wf (h_cols h) (h_rows h) (h_buf h).

Lemma hwf_set_row h row line : hwf h -> zlen line = h_cols h -> hwf (set_buf h (zupd row line (h_buf h))).
Proof. intros Wf Hl. unfold hwf in *. cbn [h_buf set_buf]. apply buf_wf_zupd; assumption. Qed.

Lemma hplace_wf h row text align start : hwf h -> hwf (fst (hplace h row text align start)).
Proof.
  intros Wf. unfold hplace. destruct (row_ok h row) eqn:Er; [|exact Wf]. cbn [negb].
  destruct (align_ok align); [|exact Wf]. cbn [negb].
  destruct (Z.max 0 (h_cols h - Z.max 0 start) <=? 0); [exact Wf|]. cbn [fst].
  apply row_ok_spec in Er. apply hwf_set_row; [exact Wf|].
  unfold zlen. rewrite place_length. apply (buf_wf_row _ _ _ row Wf Er).
Qed.

Lemma hwrite_wf h col row text clear align : hwf h -> hwf (fst (hwrite h col row text clear align)).
Proof.
  intros Wf. unfold hwrite. destruct (row_ok h row) eqn:Er; [|exact Wf]. cbn [negb].
  apply hplace_wf. destruct clear; [|exact Wf]. apply row_ok_spec in Er.
  apply hwf_set_row; [exact Wf|]. apply zlen_blank_row. eapply wf_cols_nonneg; eassumption.
Qed.

Lemma hstep_wf h op : 0 <= h_cols h -> hwf h -> hwf (fst (hstep h op)).
Proof.
  intros Hc0 Wf. destruct op; cbn [hstep].
  - apply hwrite_wf, Wf.
  - rewrite hline_hwrite. apply hwrite_wf, Wf.
  - unfold hmessage.
    set (p1 := match top with Some t => hline h 0 t top_align clear | None => (h, HOk) end).
    assert (W1 : hwf (fst p1)) by (subst p1; destruct top; [rewrite hline_hwrite; apply hwrite_wf, Wf|exact Wf]).
    destruct p1 as [h1 r1]. cbn [fst] in W1. destruct r1; [|exact W1].
    destruct bottom; [|exact W1]. destruct (h_rows h1 >? 1); [|exact W1]. rewrite hline_hwrite. apply hwrite_wf, W1.
  - unfold hclear, hwf. cbn [fst h_buf set_buf]. unfold h_cols, h_rows. cbn [h_g set_buf].
    destruct Wf as [Wl Wf]. apply buf_wf_blank; [exact Hc0|]. fold (h_rows h). rewrite <- Wl. apply zlen_nonneg.
  - unfold hprogress. destruct (style_ok style); [|exact Wf]. cbn [negb].
    destruct (row_ok h row) eqn:Er; [|exact Wf]. cbn [negb fst].
    apply hwf_set_row; [exact Wf|].
    unfold hprogress_row. apply zlen_ljust.
    destruct label; rewrite zlen_ztake; lia.
  - exact Wf.
  - exact Wf.
  - unfold hbrightness. destruct (g_i2c (h_g h)); [exact Wf|]. destruct (g_blpin (h_g h)); [|exact Wf].
    destruct (negb ((0 <=? level) && (level <=? 255))); exact Wf.
  - unfold hglyph. destruct (negb ((0 <=? slot) && (slot <=? 7))); [exact Wf|].
    destruct (negb (zlen (glyph_rows bitmap) =? 8)); exact Wf.
Qed.

Lemma hplace_g h row text align start : h_g (fst (hplace h row text align start)) = h_g h.
Proof.
  unfold hplace. destruct (negb (row_ok h row)); [reflexivity|]. destruct (negb (align_ok align)); [reflexivity|].
  destruct (Z.max 0 (h_cols h - Z.max 0 start) <=? 0); reflexivity.
Qed.

Lemma hwrite_g h col row text clear align : h_g (fst (hwrite h col row text clear align)) = h_g h.
Proof.
  unfold hwrite. destruct (negb (row_ok h row)); [reflexivity|]. rewrite hplace_g. destruct clear; reflexivity.
Qed.

Lemma hstep_g h op : h_g (fst (hstep h op)) = h_g h.
Proof.
  destruct op; cbn [hstep]; try reflexivity.
  - apply hwrite_g.
  - rewrite hline_hwrite. apply hwrite_g.
  - unfold hmessage.
    set (p1 := match top with Some t => hline h 0 t top_align clear | None => (h, HOk) end).
    assert (G1 : h_g (fst p1) = h_g h) by (subst p1; destruct top; [rewrite hline_hwrite; apply hwrite_g|reflexivity]).
    destruct p1 as [h1 r1]. cbn [fst] in G1. destruct r1; [|exact G1].
    destruct bottom; [|exact G1]. destruct (h_rows h1 >? 1); [|exact G1]. rewrite hline_hwrite, hwrite_g. exact G1.
  - unfold hprogress. destruct (negb (style_ok style)); [reflexivity|]. destruct (negb (row_ok h row)); reflexivity.
  - unfold hbrightness. destruct (g_i2c (h_g h)); [reflexivity|]. destruct (g_blpin (h_g h)); [|reflexivity].
    destruct (negb ((0 <=? level) && (level <=? 255))); reflexivity.
  - unfold hglyph. destruct (negb ((0 <=? slot) && (slot <=? 7))); [reflexivity|].
    destruct (negb (zlen (glyph_rows bitmap) =? 8)); reflexivity.
Qed.

(* every history, every argument: the buffer is always rows x cols *)
Lemma host_shape ops : forall g h0, hinit g = Some h0 ->
  h_g (hrun h0 ops) = g /\ buf_wf (g_cols g) (g_rows g) (h_buf (hrun h0 ops)).
Proof.
  intros g h0 Hi.
  assert (H0 : h_g h0 = g /\ 0 <= g_cols g /\ hwf h0).
  { unfold hinit in Hi. destruct ((g_cols g <=? 0) || (g_rows g <=? 0)) eqn:E; [discriminate|].
    apply orb_false_iff in E as [E1 E2]. apply Z.leb_gt in E1, E2. injection Hi as <-.
    split; [reflexivity|]. split; [lia|]. unfold hwf, h_cols, h_rows. cbn [h_g h_buf]. apply buf_wf_blank; lia. }
  clear Hi. revert h0 H0. induction ops as [|op r IH]; intros h0 (G & Hc & Wf); cbn [hrun].
  - split; [exact G|]. unfold hwf, h_cols, h_rows in Wf. rewrite G in Wf. exact Wf.
  - apply IH. split; [rewrite hstep_g; exact G|]. split; [exact Hc|].
    apply hstep_wf; [unfold h_cols; rewrite G; exact Hc|exact Wf].
Qed.
