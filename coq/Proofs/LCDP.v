(* C17: the firmware LCD model refines the host LCD model (proofs). *)
From Coq Require Import ZArith QArith List Bool Lia.
From RV Require Import Base.LcdBase Host.LCD Device.DLCD Device.LCDRefine
  Proofs.LCDListP Proofs.LCDHostP Proofs.LCDDevP.
Import ListNotations.
Open Scope Z_scope.

(* ====================================================================== *)
(* the relation [shows], pointwise                                         *)
(* ====================================================================== *)
Definition hcell (h : hlcd) (r c : Z) : Z := znth c (znth r (h_buf h) []) 0.

Lemma nth_cells d (i j : nat) : (i < Z.to_nat (Z.min (d_rows d) 4))%nat -> (j < Z.to_nat (d_cols d))%nat ->
  nth j (nth i (cells d) []) 0 = dcell d (Z.of_nat i) (Z.of_nat j).
Proof.
  intros Hi Hj. unfold cells.
  rewrite (nth_map' _ _ _ 0) by (rewrite length_zseq; exact Hi).
  rewrite (nth_map' _ _ _ 0) by (rewrite length_zseq; exact Hj).
  rewrite !nth_zseq by assumption. reflexivity.
Qed.

Lemma cells_shape d :
  length (cells d) = Z.to_nat (Z.min (d_rows d) 4) /\
  Forall (fun r => length r = Z.to_nat (d_cols d)) (cells d).
Proof.
  unfold cells. split; [rewrite map_length, length_zseq; reflexivity|].
  apply Forall_forall. intros x Hx. apply in_map_iff in Hx as [r [<- _]].
  rewrite map_length, length_zseq. reflexivity.
Qed.

Lemma nth_canon_buf (b : list (list Z)) (i j : nat) cols :
  (i < length b)%nat -> Forall (fun r => zlen r = cols) b -> (j < Z.to_nat cols)%nat ->
  nth j (nth i (map (map canon) b) []) 0 = canon (nth j (nth i b []) 0).
Proof.
  intros Hi Hf Hj.
  rewrite (nth_map' _ _ _ []) by exact Hi.
  assert (Hl : zlen (nth i b []) = cols) by (rewrite Forall_forall in Hf; apply Hf, nth_In, Hi).
  apply nth_map'. unfold zlen in Hl. lia.
Qed.

Lemma shows_intro h d :
  h_g h = d_g d -> d_rows d <= 4 -> buf_wf (h_cols h) (h_rows h) (h_buf h) ->
  (forall r c, 0 <= r < d_rows d -> 0 <= c < d_cols d -> dcell d r c = canon (hcell h r c)) ->
  shows h d.
Proof.
  intros G R4 Wf P. split; [exact G|]. split; [exact Wf|].
  destruct Wf as [Wl Wf]. destruct (cells_shape d) as [Cl Cf].
  unfold h_cols, h_rows in *. rewrite G in *. fold (d_cols d) in *. fold (d_rows d) in *.
  rewrite Z.min_l in * by lia.
  apply matrix_ext with (rows := Z.to_nat (d_rows d)) (cols := Z.to_nat (d_cols d)).
  - exact Cl.
  - rewrite map_length. unfold zlen in Wl. lia.
  - exact Cf.
  - apply Forall_forall. intros x Hx. apply in_map_iff in Hx as [r [<- Hr]].
    rewrite map_length. rewrite Forall_forall in Wf. specialize (Wf r Hr). unfold zlen in Wf. lia.
  - intros i j Hi Hj. rewrite nth_cells by (rewrite ?Z.min_l by lia; assumption).
    rewrite (nth_canon_buf _ _ _ (d_cols d)) by (try assumption; unfold zlen in Wl; lia).
    rewrite P by lia. unfold hcell, znth. rewrite !Nat2Z.id. reflexivity.
Qed.

Lemma shows_cells h d r c :
  shows h d -> d_rows d <= 4 -> 0 <= r < d_rows d -> 0 <= c < d_cols d ->
  dcell d r c = canon (hcell h r c).
Proof.
  intros (G & [Wl Wf] & E) R4 Hr Hc.
  unfold h_cols, h_rows in *. rewrite G in *. fold (d_cols d) in *. fold (d_rows d) in *.
  pose proof (nth_cells d (Z.to_nat r) (Z.to_nat c)) as N.
  rewrite Z.min_l in N by lia. specialize (N ltac:(lia) ltac:(lia)).
  rewrite !Z2Nat.id in N by lia. rewrite <- N, E.
  rewrite (nth_canon_buf _ _ _ (d_cols d)) by (try assumption; unfold zlen in Wl; lia).
  reflexivity.
Qed.

Lemma canon_ascii c : 0 <= c <= 127 -> canon c = c.
Proof. intros H. unfold canon, BLOCK_HOST. destruct (Z.eqb_spec c 9608); [lia|reflexivity]. Qed.

Lemma canon_SP : canon SP = SP.
Proof. reflexivity. Qed.

Lemma ascii_znth t i : ascii t -> 0 <= i < zlen t -> 0 <= znth i t 0 <= 127.
Proof.
  intros Ha Hi. unfold ascii in Ha. rewrite Forall_forall in Ha. apply Ha.
  unfold znth. apply nth_In. unfold zlen in Hi. lia.
Qed.

Lemma asciib_ascii t : asciib t = true -> ascii t.
Proof.
  unfold asciib, ascii. rewrite forallb_forall, Forall_forall. intros H x Hx.
  specialize (H x Hx). apply andb_true_iff in H as [H1 H2]. apply Z.leb_le in H1, H2. lia.
Qed.

(* ====================================================================== *)
(* truncation and the two offset computations                              *)
(* ====================================================================== *)
Definition trunc (text : list Z) (avail : Z) : list Z :=
  if zlen text >? avail then ztake avail text else text.

Lemma zlen_trunc text avail : 0 <= avail -> 0 <= zlen (trunc text avail) <= avail.
Proof.
  intros Ha. unfold trunc. pose proof (zlen_nonneg text).
  rewrite Z.gtb_ltb. destruct (Z.ltb_spec avail (zlen text)); [rewrite zlen_ztake|]; lia.
Qed.

Lemma ascii_trunc text avail : ascii text -> ascii (trunc text avail).
Proof.
  intros H. unfold trunc. destruct (zlen text >? avail); [|exact H].
  unfold ascii, ztake in *. rewrite Forall_forall in *. intros x Hx. apply H. eapply In_firstn', Hx.
Qed.

(* same alignment: the host's column = the firmware's offset, and the text fits *)
Lemma offset_eq cols col len align :
  0 <= col < cols -> 0 <= len <= cols - col -> align_ok align = true ->
  place_col cols col (cols - col) len align = dev_offset cols col (cols - col) len align /\
  col <= dev_offset cols col (cols - col) len align /\
  dev_offset cols col (cols - col) len align + len <= cols.
Proof.
  intros Hc Hl Ha. unfold align_ok in Ha. apply andb_true_iff in Ha as [A0 A2]. apply Z.leb_le in A0, A2.
  unfold place_col, dev_offset.
  assert (Hq : Z.quot (cols - col - len) 2 = (cols - col - len) / 2) by (apply Z.quot_div_nonneg; lia).
  assert (Hd : 0 <= (cols - col - len) / 2 <= cols - col - len) by (split; [apply Z.div_pos; lia|apply Z.div_le_upper_bound; lia]).
  destruct (Z.ltb_spec (cols - col - len) 0); [lia|].
  rewrite Hq.
  assert (Hal : align = 0 \/ align = 1 \/ align = 2) by lia.
  destruct Hal as [Hal|[Hal|Hal]]; subst align; cbn [Z.eqb Pos.eqb]; rewrite Z.gtb_ltb; zb.
Qed.

(* ====================================================================== *)
(* host: write / line                                                      *)
(* ====================================================================== *)
Definition same_flags (h h' : hlcd) : Prop :=
  h_g h' = h_g h /\ h_display h' = h_display h /\ h_backlight h' = h_backlight h /\
  h_bright h' = h_bright h /\ h_glyphs h' = h_glyphs h.

Lemma same_flags_refl h : same_flags h h.
Proof. repeat split. Qed.

Lemma same_flags_trans a b c : same_flags a b -> same_flags b c -> same_flags a c.
Proof. intros (A1 & A2 & A3 & A4 & A5) (B1 & B2 & B3 & B4 & B5). repeat split; congruence. Qed.

Lemma hcell_set_row h row line r c :
  buf_wf (h_cols h) (h_rows h) (h_buf h) -> 0 <= row < h_rows h -> 0 <= r ->
  hcell (set_buf h (zupd row line (h_buf h))) r c = if r =? row then znth c line 0 else hcell h r c.
Proof.
  intros [Wl _] Hrow Hr. unfold hcell. cbn [h_buf set_buf].
  rewrite znth_zupd by exact Hr. rewrite Wl.
  destruct (Z.eqb_spec r row); [|reflexivity]. destruct (Z.ltb_spec row (h_rows h)); [reflexivity|lia].
Qed.

Lemma hwrite_spec h col row text clear align :
  buf_wf (h_cols h) (h_rows h) (h_buf h) ->
  0 <= row < h_rows h -> 0 <= col < h_cols h -> align_ok align = true ->
  let content := trunc text (h_cols h - col) in
  let off := place_col (h_cols h) col (h_cols h - col) (zlen content) align in
  exists h', hwrite h col row text clear align = (h', HOk) /\ same_flags h h' /\
    buf_wf (h_cols h) (h_rows h) (h_buf h') /\
    forall r c, 0 <= r < h_rows h -> 0 <= c < h_cols h ->
      hcell h' r c = if r =? row
                     then if (off <=? c) && (c <? off + zlen content) then znth (c - off) content 0
                          else if clear then SP else hcell h r c
                     else hcell h r c.
Proof.
  intros Wf Hrow Hcol Ha content off.
  set (h1 := if clear then set_buf h (zupd row (blank_row (h_cols h)) (h_buf h)) else h).
  assert (G1 : h_g h1 = h_g h) by (subst h1; destruct clear; reflexivity).
  assert (Wf1 : buf_wf (h_cols h) (h_rows h) (h_buf h1)).
  { subst h1. destruct clear; [|exact Wf]. cbn [h_buf set_buf]. apply buf_wf_zupd; [exact Wf|].
    apply zlen_blank_row. lia. }
  assert (F1 : same_flags h h1) by (subst h1; destruct clear; repeat split).
  assert (C1 : forall r c, 0 <= r < h_rows h -> 0 <= c < h_cols h ->
               hcell h1 r c = if (r =? row) && clear then SP else hcell h r c).
  { intros r c Hr Hc. subst h1. destruct clear; [|rewrite andb_false_r; reflexivity].
    rewrite hcell_set_row by (try assumption; lia). rewrite andb_true_r.
    destruct (Z.eqb_spec r row); [|reflexivity]. unfold blank_row. apply znth_zrepeat. exact Hc. }
  set (line := place (znth row (h_buf h1) []) off content (h_cols h)).
  exists (set_buf h1 (zupd row line (h_buf h1))).
  assert (Hbase : zlen (znth row (h_buf h1) []) = h_cols h) by (eapply buf_wf_row; eauto).
  assert (Hline : zlen line = h_cols h).
  { subst line. unfold zlen. rewrite place_length. exact Hbase. }
  split; [|split; [|split]].
  - unfold hwrite. unfold row_ok.
    destruct (Z.leb_spec 0 row); [|lia]. destruct (Z.ltb_spec row (h_rows h)); [|lia]. cbn [andb negb].
    fold h1. unfold hplace. unfold row_ok, h_rows, h_cols. rewrite G1. fold (h_rows h). fold (h_cols h).
    destruct (Z.leb_spec 0 row); [|lia]. destruct (Z.ltb_spec row (h_rows h)); [|lia]. cbn [andb negb].
    rewrite Ha. cbn [negb].
    replace (Z.max 0 (h_cols h - Z.max 0 col)) with (h_cols h - col) by lia.
    destruct (Z.leb_spec (h_cols h - col) 0); [lia|]. reflexivity.
  - eapply same_flags_trans; [exact F1|]. repeat split.
  - cbn [h_buf set_buf]. apply buf_wf_zupd; assumption.
  - intros r c Hr Hc.
    assert (Wf1' : buf_wf (h_cols h1) (h_rows h1) (h_buf h1)) by (unfold h_cols, h_rows; rewrite G1; exact Wf1).
    rewrite hcell_set_row by (try assumption; unfold h_rows; rewrite ?G1; fold (h_rows h); lia).
    destruct (Z.eqb_spec r row) as [->|Hne].
    + unfold znth at 1. subst line.
      rewrite place_nth by (try assumption; unfold zlen in Hbase; lia).
      rewrite Z2Nat.id by lia.
      destruct ((off <=? c) && (c <? off + zlen content)); [reflexivity|].
      change (nth (Z.to_nat c) (znth row (h_buf h1) []) 0) with (hcell h1 row c).
      rewrite C1 by assumption. rewrite Z.eqb_refl. cbn [andb]. reflexivity.
    + rewrite C1 by assumption. destruct (Z.eqb_spec r row); [contradiction|]. reflexivity.
Qed.

(* ====================================================================== *)
(* firmware: __redu_lcd_write_aligned on an in-range row and column        *)
(* ====================================================================== *)
Lemma write_aligned_spec d col row text clear align :
  fits (d_g d) -> 0 <= row < d_rows d -> 0 <= col < d_cols d -> align_ok align = true ->
  let content := trunc text (d_cols d - col) in
  let off := dev_offset (d_cols d) col (d_cols d - col) (zlen content) align in
  let d' := write_aligned d (d_cols d) col row text clear align in
  d_g d' = d_g d /\ in_row_ext row d d' /\
  forall r c, 0 <= r < d_rows d -> 0 <= c < d_cols d ->
    dcell d' r c = if r =? row
                   then if (off <=? c) && (c <? off + zlen content) then znth (c - off) content 0
                        else if clear then SP else dcell d r c
                   else dcell d r c.
Proof.
  intros Hf Hrow Hcol Ha content off d'.
  pose proof (zlen_trunc text (d_cols d - col) ltac:(lia)) as Hlen. fold content in Hlen.
  destruct (offset_eq (d_cols d) col (zlen content) align Hcol Hlen Ha) as (_ & Ho1 & Ho2). fold off in Ho1, Ho2.
  subst d'. unfold write_aligned.
  destruct (Z.leb_spec (d_cols d) 0); [lia|].
  destruct (Z.ltb_spec col 0); [lia|].
  rewrite Z.geb_leb. destruct (Z.leb_spec (d_cols d) col); [lia|].
  destruct (Z.leb_spec (d_cols d - col) 0); [lia|].
  fold (trunc text (d_cols d - col)). fold content. fold off.
  set (d1 := if clear then clear_row d (d_cols d) row else d).
  assert (Hd1 : d_g d1 = d_g d /\ in_row_ext row d d1 /\
               forall r c, 0 <= r < d_rows d -> 0 <= c < d_cols d ->
                 dcell d1 r c = if (r =? row) && clear then SP else dcell d r c).
  { subst d1. destruct clear.
    - destruct (clear_row_in d row Hf Hrow) as (G & Cl & Ex). split; [exact G|]. split; [exact Ex|].
      intros r c Hr Hc. rewrite Cl by assumption. rewrite andb_true_r. reflexivity.
    - split; [reflexivity|]. split; [apply in_row_ext_refl|]. intros r c _ _. rewrite andb_false_r. reflexivity. }
  destruct Hd1 as (G1 & Ex1 & C1).
  assert (Hf1 : fits (d_g d1)) by (rewrite G1; exact Hf).
  assert (Er : d_rows d1 = d_rows d) by (unfold d_rows; rewrite G1; reflexivity).
  assert (Ec : d_cols d1 = d_cols d) by (unfold d_cols; rewrite G1; reflexivity).
  destruct (cursor_print d1 off row content Hf1 ltac:(lia) ltac:(lia) ltac:(lia)) as (G2 & C2 & Ex2).
  split; [congruence|]. split.
  - eapply in_row_ext_trans; [exact G1|exact Ex1|exact Ex2].
  - intros r c Hr Hc. rewrite C2 by lia. rewrite C1 by assumption.
    destruct (Z.eqb_spec r row); cbn [andb]; [|reflexivity].
    destruct ((off <=? c) && (c <? off + zlen content)); reflexivity.
Qed.

(* ====================================================================== *)
(* refinement of write (and hence line, message)                           *)
(* ====================================================================== *)
Lemma shows_geom h d : shows h d -> h_cols h = d_cols d /\ h_rows h = d_rows d.
Proof. intros (G & _). unfold h_cols, h_rows, d_cols, d_rows. rewrite G. split; reflexivity. Qed.

Lemma write_refines h d col row text clear align :
  fits (d_g d) -> shows h d ->
  0 <= row < d_rows d -> 0 <= col < d_cols d -> ascii text -> align_ok align = true ->
  exists h', hwrite h col row text clear align = (h', HOk) /\ same_flags h h' /\
    let d' := write_aligned d (d_cols d) col row text clear align in
    shows h' d' /\ textual d d' /\ in_row_ext row d d' /\
    (forall r c, 0 <= r < d_rows d -> r <> row -> hcell h' r c = hcell h r c) /\
    (forall r c, 0 <= r < d_rows d -> 0 <= c < d_cols d -> r <> row -> dcell d' r c = dcell d r c).
Proof.
  intros Hf Sh Hrow Hcol Hasc Ha.
  destruct (shows_geom h d Sh) as [Ec Er]. pose proof Hf as (Hc40 & Hr4 & _). fold (d_cols d) in Hc40. fold (d_rows d) in Hr4.
  pose proof Sh as (G & Wf & _).
  destruct (hwrite_spec h col row text clear align Wf ltac:(lia) ltac:(lia) Ha) as (h' & Hw & Fl & Wf' & Hc).
  destruct (write_aligned_spec d col row text clear align Hf Hrow Hcol Ha) as (Gd & Ex & Dc).
  rewrite Ec, Er in *.
  pose proof (zlen_trunc text (d_cols d - col) ltac:(lia)) as Hlen.
  destruct (offset_eq (d_cols d) col _ align Hcol Hlen Ha) as (Eo & Ho1 & Ho2).
  rewrite Eo in Hc.
  exists h'. split; [exact Hw|]. split; [exact Fl|]. cbv zeta.
  set (d' := write_aligned d (d_cols d) col row text clear align) in *.
  destruct Fl as (Gh & _).
  assert (Ec' : d_cols d' = d_cols d) by (unfold d_cols; rewrite Gd; reflexivity).
  assert (Er' : d_rows d' = d_rows d) by (unfold d_rows; rewrite Gd; reflexivity).
  split; [|split; [apply textual_write_aligned|split; [exact Ex|split]]].
  - apply shows_intro.
    + congruence.
    + lia.
    + unfold h_cols, h_rows. rewrite Gh. fold (h_cols h). fold (h_rows h). rewrite Ec, Er. exact Wf'.
    + intros r c Hr Hcc. rewrite Er' in Hr. rewrite Ec' in Hcc.
      rewrite Dc, Hc by assumption.
      destruct (Z.eqb_spec r row); [|apply shows_cells; try assumption; lia].
      match goal with |- context [if ?b then _ else _] => destruct b eqn:Eb end.
      * symmetry. apply canon_ascii. apply ascii_znth; [apply ascii_trunc; exact Hasc|].
        apply andb_true_iff in Eb as [E1 E2]. apply Z.leb_le in E1. apply Z.ltb_lt in E2. lia.
      * destruct clear; [reflexivity|]. apply shows_cells; try assumption; lia.
  - intros r c Hr Hne. destruct (Z_lt_ge_dec c 0) as [Hc0|Hc0]; [|destruct (Z_lt_ge_dec c (d_cols d)) as [Hc1|Hc1]].
    + (* outside the width nothing is stored on either side of the equation: same default *)
      unfold hcell. destruct Wf' as [Wl' Wf'']. destruct Wf as [Wl Wf''']. unfold znth.
      replace (Z.to_nat c) with 0%nat by lia.
      specialize (Hc r 0 ltac:(lia) ltac:(lia)). unfold hcell, znth in Hc. cbn [Z.to_nat] in Hc.
      destruct (Z.eqb_spec r row); [contradiction|]. exact Hc.
    + specialize (Hc r c ltac:(lia) ltac:(lia)). destruct (Z.eqb_spec r row); [contradiction|]. exact Hc.
    + unfold hcell, znth. rewrite !nth_overflow; [reflexivity| |].
      * pose proof (buf_wf_row _ _ _ r Wf ltac:(lia)) as L. unfold znth, zlen in L. lia.
      * pose proof (buf_wf_row _ _ _ r Wf' ltac:(lia)) as L. unfold znth, zlen in L. lia.
  - intros r c Hr Hcc Hne. rewrite Dc by assumption. destruct (Z.eqb_spec r row); [contradiction|]. reflexivity.
Qed.

(* ====================================================================== *)
(* line, message                                                           *)
(* ====================================================================== *)
Lemma hline_hwrite h row text align clear : hline h row text align clear = hwrite h 0 row text clear align.
Proof. reflexivity. Qed.

Definition opt_ascii (o : option (list Z)) : Prop := match o with Some t => ascii t | None => True end.

Lemma line_opt_refines h d row (ot : option (list Z)) align clear :
  fits (d_g d) -> shows h d -> 0 <= row < d_rows d -> opt_ascii ot -> align_ok align = true ->
  exists h', (match ot with Some t => hline h row t align clear | None => (h, HOk) end) = (h', HOk) /\
    same_flags h h' /\
    let d' := match ot with Some t => write_aligned d (d_cols d) 0 row t clear align | None => d end in
    shows h' d' /\ textual d d' /\ in_row_ext row d d' /\
    (forall r c, 0 <= r < d_rows d -> r <> row -> hcell h' r c = hcell h r c) /\
    (forall r c, 0 <= r < d_rows d -> 0 <= c < d_cols d -> r <> row -> dcell d' r c = dcell d r c).
Proof.
  intros Hf Sh Hrow Hasc Ha. destruct ot as [t|].
  - rewrite hline_hwrite. pose proof Hf as (Hc & _). fold (d_cols d) in Hc.
    apply write_refines; try assumption. lia.
  - exists h. split; [reflexivity|]. split; [apply same_flags_refl|]. cbv zeta.
    split; [exact Sh|]. split; [apply textual_refl|]. split; [apply in_row_ext_refl|]. split; reflexivity.
Qed.

Definition dmessage (d : dlcd) (top bottom : option (list Z)) (ta ba : Z) (clear : bool) : dlcd :=
  let d1 := match top with Some t => write_aligned d (d_cols d) 0 0 t clear ta | None => d end in
  match bottom with Some b => write_aligned d1 (d_cols d) 0 1 b clear ba | None => d1 end.

Definition rows01_ext (d d' : dlcd) : Prop :=
  exists evs, d_log d' = evs ++ d_log d /\ Forall (ev_in_rows01 (d_cols d)) evs.

Lemma in_row_rows01 row cols e : row = 0 \/ row = 1 -> ev_in_row row cols e -> ev_in_rows01 cols e.
Proof. intros Hr. destruct e; cbn; try tauto. intros [-> Hc]. split; assumption. Qed.

Lemma message_refines h d top bottom ta ba clear :
  fits (d_g d) -> shows h d -> opt_ascii top -> opt_ascii bottom ->
  align_ok ta = true -> align_ok ba = true -> (bottom = None \/ 2 <= d_rows d) ->
  exists h', hmessage h top bottom ta ba clear = (h', HOk) /\ same_flags h h' /\
    let d' := dmessage d top bottom ta ba clear in
    shows h' d' /\ textual d d' /\ rows01_ext d d' /\
    (forall r c, 2 <= r < d_rows d -> hcell h' r c = hcell h r c) /\
    (forall r c, 2 <= r < d_rows d -> 0 <= c < d_cols d -> dcell d' r c = dcell d r c).
Proof.
  intros Hf Sh Ht Hb Hta Hba Hrows. pose proof Hf as (Hc & Hr & _). fold (d_rows d) in Hr.
  destruct (line_opt_refines h d 0 top ta clear Hf Sh ltac:(lia) Ht Hta) as (h1 & E1 & F1 & S1 & T1 & X1 & O1 & P1).
  cbv zeta in S1, T1, X1, O1, P1.
  set (d1 := match top with Some t => write_aligned d (d_cols d) 0 0 t clear ta | None => d end) in *.
  assert (G1 : d_g d1 = d_g d) by (destruct T1 as (G & _); exact G).
  assert (Ec : d_cols d1 = d_cols d) by (unfold d_cols; rewrite G1; reflexivity).
  assert (Er : d_rows d1 = d_rows d) by (unfold d_rows; rewrite G1; reflexivity).
  assert (Hr1 : h_rows h1 = d_rows d) by (destruct (shows_geom h1 d1 S1); congruence).
  unfold hmessage, dmessage. fold d1. rewrite E1.
  destruct bottom as [b|].
  - destruct Hrows as [Hn|Hrows]; [discriminate|].
    rewrite Hr1. rewrite Z.gtb_ltb. destruct (Z.ltb_spec 1 (d_rows d)); [|lia].
    assert (Hf1 : fits (d_g d1)) by (rewrite G1; exact Hf).
    destruct (line_opt_refines h1 d1 1 (Some b) ba clear Hf1 S1 ltac:(lia) Hb Hba) as (h2 & E2 & F2 & S2 & T2 & X2 & O2 & P2).
    cbv zeta in S2, T2, X2, O2, P2. rewrite Ec in *.
    exists h2. split; [exact E2|]. split; [eapply same_flags_trans; eassumption|]. cbv zeta.
    split; [exact S2|]. split; [eapply textual_trans; eassumption|]. split; [|split].
    + destruct X1 as (e1 & L1 & A1). destruct X2 as (e2 & L2 & A2). exists (e2 ++ e1).
      split; [rewrite L2, L1, app_assoc; reflexivity|]. apply Forall_app. split.
      * rewrite Ec in A2. eapply Forall_impl; [|exact A2]. intros e. apply in_row_rows01. right; reflexivity.
      * eapply Forall_impl; [|exact A1]. intros e. apply in_row_rows01. left; reflexivity.
    + intros r c Hrr. rewrite O2 by lia. apply O1; lia.
    + intros r c Hrr Hcc. rewrite P2 by lia. apply P1; lia.
  - exists h1. split; [reflexivity|]. split; [exact F1|]. cbv zeta.
    split; [exact S1|]. split; [exact T1|]. split; [|split].
    + destruct X1 as (e1 & L1 & A1). exists e1. split; [exact L1|].
      eapply Forall_impl; [|exact A1]. intros e. apply in_row_rows01. left; reflexivity.
    + intros r c Hrr. apply O1; lia.
    + intros r c Hrr Hcc. apply P1; lia.
Qed.

(* ====================================================================== *)
(* clear                                                                   *)
(* ====================================================================== *)
Lemma clear_refines h d :
  h_g h = d_g d -> 0 <= d_cols d -> 1 <= d_rows d <= 4 ->
  exists h', hclear h = (h', HOk) /\ same_flags h h' /\ shows h' (lcd_clear d) /\ textual d (lcd_clear d) /\
    forall r c, 0 <= r < d_rows d -> 0 <= c < d_cols d -> dcell (lcd_clear d) r c = SP /\ hcell h' r c = SP.
Proof.
  intros G Hc Hr. exists (set_buf h (blank_buf (h_cols h) (h_rows h))).
  assert (Ec : h_cols h = d_cols d) by (unfold h_cols, d_cols; rewrite G; reflexivity).
  assert (Er : h_rows h = d_rows d) by (unfold h_rows, d_rows; rewrite G; reflexivity).
  split; [reflexivity|]. split; [repeat split|]. split; [|split; [apply textual_lcd_clear|]].
  - apply shows_intro.
    + exact G.
    + unfold d_rows in *. cbn [d_g lcd_clear]. lia.
    + cbn [h_buf set_buf]. unfold h_cols, h_rows. cbn [h_g set_buf]. fold (h_cols h). fold (h_rows h).
      apply buf_wf_blank; lia.
    + intros r c Hrr Hcc. unfold dcell. cbn [d_ram lcd_clear]. unfold hcell. cbn [h_buf set_buf].
      rewrite znth_blank_buf; [reflexivity| |]; unfold d_rows, d_cols in *; cbn [d_g lcd_clear] in *; lia.
  - intros r c Hrr Hcc. split; [reflexivity|]. unfold hcell. cbn [h_buf set_buf]. apply znth_blank_buf; lia.
Qed.

(* ====================================================================== *)
(* progress: the arithmetic                                                *)
(* ====================================================================== *)
Lemma dfilled_Z v m w : 0 < m -> 0 <= w -> dfilled v m w = clampv v m * w / m.
Proof.
  intros Hm Hw. unfold dfilled, clampv.
  destruct (Z.leb_spec m 0); [lia|].
  set (v1 := if v <? 0 then 0 else v).
  set (v2 := if v1 >? m then m else v1).
  assert (E : v2 = Z.max 0 (Z.min m v)).
  { subst v2 v1. destruct (Z.ltb_spec v 0); rewrite Z.gtb_ltb; zb. }
  rewrite E. set (c := Z.max 0 (Z.min m v)). assert (Hcr : 0 <= c <= m) by (subst c; lia).
  rewrite Z.quot_div_nonneg by nia.
  assert (Hq : 0 <= c * w / m <= w).
  { split; [apply Z.div_pos; nia|]. apply Z.div_le_upper_bound; nia. }
  destruct (Z.ltb_spec (c * w / m) 0); [lia|]. rewrite Z.gtb_ltb. destruct (Z.ltb_spec w (c * w / m)); [lia|reflexivity].
Qed.

Lemma clampv_mono v1 v2 m : v1 <= v2 -> clampv v1 m <= clampv v2 m.
Proof. unfold clampv. lia. Qed.

Lemma progress_monotone v1 v2 m w : 0 < m -> 1 <= w -> v1 <= v2 ->
  hfilled v1 m w <= hfilled v2 m w /\ dfilled v1 m w <= dfilled v2 m w.
Proof.
  intros Hm Hw Hv. rewrite !hfilled_Z, !dfilled_Z by lia.
  pose proof (clampv_mono v1 v2 m Hv). pose proof (clampv_range v1 m Hm). pose proof (clampv_range v2 m Hm).
  split; [apply rhe_div_mono; nia|apply Z.div_le_mono; nia].
Qed.

Lemma progress_saturates v m w : 0 < m -> 1 <= w ->
  0 <= hfilled v m w <= w /\ 0 <= dfilled v m w <= w /\
  (v <= 0 -> hfilled v m w = 0 /\ dfilled v m w = 0) /\
  (m <= v -> hfilled v m w = w /\ dfilled v m w = w).
Proof.
  intros Hm Hw. split; [apply hfilled_range; lia|].
  rewrite hfilled_Z, dfilled_Z by lia. pose proof (clampv_range v m Hm) as Hc.
  split; [split; [apply Z.div_pos; nia|apply Z.div_le_upper_bound; nia]|]. split.
  - intros Hv. replace (clampv v m) with 0 by (unfold clampv; lia).
    change (0 * w) with (0 * m). rewrite rhe_div_exact by lia. rewrite Z.div_mul by lia. split; reflexivity.
  - intros Hv. replace (clampv v m) with m by (unfold clampv; lia).
    rewrite (Z.mul_comm m w), rhe_div_exact, Z.div_mul by lia. split; reflexivity.
Qed.

Lemma progress_exact v m w : 0 < m -> 1 <= w -> (m | v * w) -> hfilled v m w = dfilled v m w.
Proof.
  intros Hm Hw [k Hk].
  destruct (Z_le_gt_dec v 0) as [H0|H0]; [destruct (progress_saturates v m w Hm Hw) as (_ & _ & S & _); destruct (S H0); congruence|].
  destruct (Z_le_gt_dec m v) as [H1|H1]; [destruct (progress_saturates v m w Hm Hw) as (_ & _ & _ & S); destruct (S H1); congruence|].
  rewrite hfilled_Z, dfilled_Z by lia. replace (clampv v m) with v by (unfold clampv; lia).
  rewrite Hk, rhe_div_exact, Z.div_mul by lia. reflexivity.
Qed.

Lemma progress_within_one v m w : 0 < m -> 1 <= w -> 0 <= hfilled v m w - dfilled v m w <= 1.
Proof.
  intros Hm Hw. rewrite hfilled_Z, dfilled_Z by lia.
  set (n := clampv v m * w).
  pose proof (rhe_div_near n m Hm) as Hn.
  pose proof (Z.div_mod n m ltac:(lia)) as E. pose proof (Z.mod_pos_bound n m Hm) as B.
  split; nia.
Qed.

(* ====================================================================== *)
(* progress: the rendered row                                              *)
(* ====================================================================== *)
Lemma trunc_ztake t n : trunc t n = ztake n t.
Proof.
  unfold trunc. rewrite Z.gtb_ltb. destruct (Z.ltb_spec n (zlen t)); [reflexivity|].
  symmetry. apply ztake_all. exact H.
Qed.

Lemma map_zrepeat {A B} (f : A -> B) x n : map f (zrepeat x n) = zrepeat (f x) n.
Proof. unfold zrepeat. induction (Z.to_nat n) as [|k IH]; cbn; [reflexivity|]. rewrite IH. reflexivity. Qed.

Lemma bar_eq g f w : 0 <= f <= w ->
  map (fun i => if i <? f then g else SP) (zseq w) = zrepeat g f ++ zrepeat SP (w - f).
Proof.
  intros Hf. apply nth_ext with (d := 0) (d' := 0).
  - rewrite map_length, length_zseq, app_length. unfold zrepeat. rewrite !repeat_length. lia.
  - intros i Hi. rewrite map_length, length_zseq in Hi.
    rewrite (nth_map' _ _ _ 0) by (rewrite length_zseq; exact Hi). rewrite nth_zseq by exact Hi.
    destruct (Z.ltb_spec (Z.of_nat i) f).
    + rewrite app_nth1 by (unfold zrepeat; rewrite repeat_length; lia). symmetry. apply nth_zrepeat. lia.
    + rewrite app_nth2 by (unfold zrepeat; rewrite repeat_length; lia).
      unfold zrepeat at 1. rewrite repeat_length. symmetry. apply nth_zrepeat. lia.
Qed.

Lemma canon_glyph s : style_ok s = true -> canon (host_glyph s) = dev_glyph s.
Proof.
  unfold style_ok. intros H. apply andb_true_iff in H as [H0 H3]. apply Z.leb_le in H0, H3.
  assert (Hs : s = 0 \/ s = 1 \/ s = 2 \/ s = 3) by lia. destruct Hs as [Hs|[Hs|[Hs|Hs]]]; subst s; reflexivity.
Qed.

Lemma map_canon_ascii t : ascii t -> map canon t = t.
Proof.
  intros H. induction H as [|x t Hx Ht IH]; cbn; [reflexivity|]. rewrite IH, canon_ascii by exact Hx. reflexivity.
Qed.

Lemma width_agree cols width : 1 <= cols -> width_in width = true ->
  dwidth cols width = hwidth cols width /\ 1 <= hwidth cols width <= cols.
Proof.
  intros Hc Hw. unfold dwidth, hwidth. destruct width as [w|]; cbn [width_in] in Hw.
  - apply Z.leb_le in Hw. rewrite Z.gtb_ltb. zb.
  - rewrite Z.gtb_ltb. zb.
Qed.

(* firmware text = canon (host text) when the two filled lengths coincide *)
Lemma progress_text_eq cols value maxv width style label :
  1 <= cols -> style_ok style = true -> ascii label -> 0 < maxv -> width_in width = true ->
  hfilled value maxv (hwidth cols width) = dfilled value maxv (dwidth cols width) ->
  exists th, hprogress_row cols value maxv width style label = ljust th cols /\ zlen th <= cols /\
             dev_progress_text cols value maxv width style label = map canon th.
Proof.
  intros Hc Hs Hl Hm Hw Hfd.
  destruct (width_agree cols width Hc Hw) as [Ew Hwr]. rewrite Ew in Hfd.
  unfold hprogress_row, dev_progress_text. rewrite Ew, <- Hfd.
  set (w := hwidth cols width) in *. set (f := hfilled value maxv w).
  assert (Hfr : 0 <= f <= w) by (apply hfilled_range; lia).
  rewrite bar_eq by exact Hfr. replace (Z.max 0 (w - f)) with (w - f) by lia.
  set (barh := zrepeat (host_glyph style) f ++ zrepeat SP (w - f)).
  assert (Eb : zrepeat (dev_glyph style) f ++ zrepeat SP (w - f) = map canon barh).
  { subst barh. rewrite map_app, !map_zrepeat, canon_glyph by exact Hs. reflexivity. }
  rewrite Eb. fold (trunc (match label with [] => map canon barh | _ :: _ => label ++ [SP] ++ map canon barh end) cols).
  rewrite trunc_ztake.
  destruct label as [|l0 lr].
  - exists (ztake cols barh). split; [reflexivity|]. split; [rewrite zlen_ztake; lia|]. apply ztake_map.
  - exists (ztake cols ((l0 :: lr) ++ [SP] ++ barh)). split; [reflexivity|]. split; [rewrite zlen_ztake; lia|].
    rewrite <- ztake_map. f_equal. rewrite !map_app. rewrite (map_canon_ascii _ Hl). reflexivity.
Qed.

Lemma progress_refines h d row value maxv width style label :
  fits (d_g d) -> shows h d -> 0 <= row < d_rows d -> style_ok style = true -> ascii label ->
  0 < maxv -> width_in width = true ->
  hfilled value maxv (hwidth (d_cols d) width) = dfilled value maxv (dwidth (d_cols d) width) ->
  exists h', hprogress h row value maxv width style label = (h', HOk) /\ same_flags h h' /\
    let d' := progress d (d_cols d) row value maxv width style label in
    shows h' d' /\ textual d d' /\ in_row_ext row d d' /\
    (forall r c, 0 <= r < d_rows d -> r <> row -> hcell h' r c = hcell h r c) /\
    (forall r c, 0 <= r < d_rows d -> 0 <= c < d_cols d -> r <> row -> dcell d' r c = dcell d r c).
Proof.
  intros Hf Sh Hrow Hs Hl Hm Hw Hfd.
  destruct (shows_geom h d Sh) as [Ec Er]. pose proof Hf as (Hc40 & Hr4 & _). fold (d_cols d) in Hc40. fold (d_rows d) in Hr4.
  pose proof Sh as (G & Wf & _).
  destruct (progress_text_eq (d_cols d) value maxv width style label ltac:(lia) Hs Hl Hm Hw Hfd) as (th & Eh & Lh & Ed).
  exists (set_buf h (zupd row (hprogress_row (h_cols h) value maxv width style label) (h_buf h))).
  split.
  { unfold hprogress. rewrite Hs. cbn [negb]. unfold row_ok. rewrite Er.
    destruct (Z.leb_spec 0 row); [|lia]. destruct (Z.ltb_spec row (d_rows d)); [|lia]. reflexivity. }
  split; [repeat split|]. cbv zeta.
  set (h' := set_buf h _).
  (* firmware side *)
  unfold progress. destruct (Z.leb_spec (d_cols d) 0); [lia|]. rewrite Ed.
  destruct (clear_row_in d row Hf Hrow) as (G1 & C1 & X1).
  set (d1 := clear_row d (d_cols d) row) in *.
  assert (Hf1 : fits (d_g d1)) by (rewrite G1; exact Hf).
  assert (Er1 : d_rows d1 = d_rows d) by (unfold d_rows; rewrite G1; reflexivity).
  assert (Ec1 : d_cols d1 = d_cols d) by (unfold d_cols; rewrite G1; reflexivity).
  pose proof (zlen_nonneg th) as Hth.
  destruct (cursor_print d1 0 row (map canon th) Hf1 ltac:(lia) ltac:(lia)) as (G2 & C2 & X2).
  { rewrite zlen_map. lia. }
  set (d' := print (set_cursor d1 0 row) (map canon th)) in *.
  assert (Dc : forall r c, 0 <= r < d_rows d -> 0 <= c < d_cols d ->
            dcell d' r c = if r =? row then (if c <? zlen th then canon (znth c th 0) else SP) else dcell d r c).
  { intros r c Hr Hc. rewrite C2 by lia. rewrite C1 by assumption. rewrite zlen_map.
    destruct (Z.eqb_spec r row); cbn [andb]; [|reflexivity].
    destruct (Z.leb_spec 0 c); [|lia]. cbn [andb].
    destruct (Z.ltb_spec c (0 + zlen th)); destruct (Z.ltb_spec c (zlen th)); try lia; try reflexivity.
    rewrite Z.sub_0_r. apply (znth_map canon th c 0 0). lia. }
  assert (Hc' : forall r c, 0 <= r < d_rows d -> 0 <= c < d_cols d ->
            hcell h' r c = if r =? row then (if c <? zlen th then znth c th 0 else SP) else hcell h r c).
  { intros r c Hr Hc. subst h'. rewrite hcell_set_row by (try assumption; lia).
    destruct (Z.eqb_spec r row); [|reflexivity]. rewrite Ec, Eh. apply znth_ljust; lia. }
  assert (Wf' : buf_wf (h_cols h) (h_rows h) (h_buf h')).
  { subst h'. cbn [h_buf set_buf]. apply buf_wf_zupd; [exact Wf|]. rewrite Ec, Eh. apply zlen_ljust. exact Lh. }
  split; [|split; [|split; [|split]]].
  - apply shows_intro.
    + cbn [h_g set_buf h']. congruence.
    + unfold d_rows in *. rewrite G2, G1. lia.
    + exact Wf'.
    + intros r c Hr Hc. assert (Hr' : 0 <= r < d_rows d) by (unfold d_rows in *; rewrite G2, G1 in Hr; exact Hr).
      assert (Hcc : 0 <= c < d_cols d) by (unfold d_cols in *; rewrite G2, G1 in Hc; exact Hc).
      rewrite Dc, Hc' by assumption.
      destruct (Z.eqb_spec r row); [|apply shows_cells; try assumption; lia].
      destruct (c <? zlen th); reflexivity.
  - eapply textual_trans; [apply textual_clear_row|]. eapply textual_trans; [apply textual_set_cursor|apply textual_print].
  - eapply in_row_ext_trans; [exact G1|exact X1|exact X2].
  - intros r c Hr Hne. unfold hcell. subst h'. cbn [h_buf set_buf]. rewrite znth_zupd by lia.
    destruct (Z.eqb_spec r row); [contradiction|]. reflexivity.
  - intros r c Hr Hc Hne. rewrite Dc by assumption. destruct (Z.eqb_spec r row); [contradiction|]. reflexivity.
Qed.
