(* C18, host registry over call histories (Host/LCDReg.v): the count-derived key is always fresh, so
   LCD.animate never replaces a registered animation; every registered animation is advanced by every
   tick of any history (animate / tick / line / clear in any order) under its own key; hence the
   single-animation theorems (never ends when looping, ends after hsteps_total steps otherwise, rate
   limit, no step lost) hold for every animation of every history. *)
From Coq Require Import ZArith List Bool Lia.
From RV Require Import Host.LCDAnim Host.LCDReg Proofs.LCDAnimP Proofs.LCDAnimP2 Proofs.LCDAnimP4.
Import ListNotations.
Open Scope Z_scope.

Lemma rstart_hstart sty row text speed lp : rstart sty row text speed lp = hstart sty row text speed lp.
Proof. destruct sty; reflexivity. Qed.

Lemma style_eqb_eq a b : style_eqb a b = true <-> a = b.
Proof. destruct a, b; cbn; split; intro H; try reflexivity; discriminate. Qed.

Lemma key_eqb_eq a b : key_eqb a b = true <-> a = b.
Proof.
  destruct a as [[s1 r1] n1], b as [[s2 r2] n2]. unfold key_eqb. split.
  - intro H. apply andb_true_iff in H as [H Hn]. apply andb_true_iff in H as [Hs Hr].
    apply style_eqb_eq in Hs. apply Z.eqb_eq in Hr. apply Z.eqb_eq in Hn. subst. reflexivity.
  - intro H. inversion H; subst. rewrite (proj2 (style_eqb_eq s2 s2) eq_refl), !Z.eqb_refl. reflexivity.
Qed.

(* a dict assignment under a key that is not there appends *)
Lemma reg_set_fresh k v r : (forall k' v', In (k', v') r -> k' <> k) -> reg_set k v r = r ++ [(k, v)].
Proof.
  induction r as [|[k0 v0] t IH]; intro H; cbn [reg_set app]; [reflexivity|].
  destruct (key_eqb k k0) eqn:E.
  - apply key_eqb_eq in E. subst. exfalso. apply (H k0 v0); [left; reflexivity|reflexivity].
  - rewrite IH; [reflexivity|]. intros k' v' Hin. apply (H k' v'). right. exact Hin.
Qed.

(* a dict assignment under a key that IS there replaces the value: the old one is no longer in the registry *)
Lemma reg_set_present_length k v r v0 : In (k, v0) r -> length (reg_set k v r) = length r.
Proof.
  induction r as [|[k1 v1] t IH]; intro H; [destruct H|]. cbn [reg_set].
  destruct (key_eqb k k1) eqn:E; [reflexivity|]. cbn [length]. f_equal. apply IH.
  destruct H as [H|H]; [|exact H]. inversion H; subst.
  rewrite (proj2 (key_eqb_eq k k) eq_refl) in E. discriminate.
Qed.

Lemma zlen_length {A} (l : list A) : zlen l = Z.of_nat (length l).
Proof. reflexivity. Qed.

Lemma reg_keys_fresh r sty row : reg_keys_ok r ->
  forall k' v', In (k', v') r -> k' <> (sty, row, zlen r).
Proof.
  intros Hk k' v' Hin E. apply In_nth_error in Hin as [i Hi].
  pose proof (Hk i k' v' Hi) as Hkey. assert (Hlt : (i < length r)%nat) by (apply nth_error_Some; rewrite Hi; discriminate).
  rewrite E in Hkey. inversion Hkey as [[Hs Hr Hn]]. unfold zlen in Hn. lia.
Qed.

Lemma reg_keys_nil : reg_keys_ok [].
Proof. intros [|i] k st H; discriminate. Qed.

Lemma reg_keys_app r st : reg_keys_ok r -> reg_keys_ok (r ++ [((h_style st, h_row st, zlen r), st)]).
Proof.
  intros Hk i k s Hi. destruct (Nat.lt_ge_cases i (length r)) as [Hlt|Hge].
  - rewrite nth_error_app1 in Hi by exact Hlt. apply Hk. exact Hi.
  - rewrite nth_error_app2 in Hi by exact Hge. destruct (i - length r)%nat as [|j] eqn:Ej.
    + cbn in Hi. inversion Hi; subst. unfold zlen. replace i with (length r) by lia. reflexivity.
    + cbn in Hi. destruct j; discriminate.
Qed.

Definition reg_step (cols now : Z) (e : hkey * hstate) : hkey * hstate := (fst e, hstep cols now (snd e)).

Lemma combine_fst_map {A B} (f : B -> B) (r : list (A * B)) :
  combine (map fst r) (map f (map snd r)) = map (fun e => (fst e, f (snd e))) r.
Proof. induction r as [|[a b] t IH]; [reflexivity|]. cbn. rewrite IH. reflexivity. Qed.

Lemma reg_keys_step cols now r : reg_keys_ok r -> reg_keys_ok (map (reg_step cols now) r).
Proof.
  intros Hk i k st Hi. rewrite nth_error_map in Hi. destruct (nth_error r i) as [[k0 s0]|] eqn:E; [|discriminate].
  cbn in Hi. inversion Hi; subst. destruct (hstep_keeps cols now s0) as (A & B & _). rewrite A, B.
  apply (Hk i k s0 E).
Qed.

Lemma map_snd_step cols now r : map snd (map (reg_step cols now) r) = map (hstep cols now) (map snd r).
Proof. rewrite !map_map. reflexivity. Qed.

(* ---- well-formed registry objects *)
Definition rwf (l : rlcd) : Prop := hwf (r_lcd l) /\ reg_keys_ok (r_reg l).

Lemma rnew_wf cols rows l : rnew cols rows = Some l -> rwf l /\ r_reg l = [].
Proof.
  unfold rnew. destruct (hnew cols rows) as [h|] eqn:E; [|discriminate]. intro H. inversion H; subst; clear H.
  destruct (hnew_wf cols rows h E) as [W A]. split; [|reflexivity]. split; [|apply reg_keys_nil].
  unfold r_lcd. cbn. destruct h as [c r b a]. cbn in *. subst a. exact W.
Qed.

Lemma ranimate_ok l sty row text speed lp l' ev : rwf l ->
  ranimate l sty row text speed lp = Some (l', ev) ->
  rwf l' /\ r_cols l' = r_cols l /\ r_rows l' = r_rows l /\ 0 <= row < r_rows l /\
  r_reg l' = r_reg l ++ [((sty, row, zlen (r_reg l)), hstart sty row text speed lp)] /\
  hno_delay ev /\ hin_row (r_cols l) row ev /\ hframe_drawn (r_cols l) row (r_buf l) ev (r_buf l').
Proof.
  intros [Hw Hk] H. unfold ranimate in H.
  destruct (hanimate (r_lcd l) sty row text speed lp) as [[h e]|] eqn:E; [|discriminate].
  inversion H; subst; clear H.
  destruct (hanimate_ok (r_lcd l) sty row text speed lp h ev Hw E) as (W & C & R & V & A & D & I & F).
  cbn [r_lcd l_cols l_rows l_buf l_anims] in *.
  rewrite rstart_hstart.
  rewrite reg_set_fresh by (apply reg_keys_fresh; exact Hk).
  cbn [r_cols r_rows r_buf r_reg].
  split; [|split; [reflexivity|split; [reflexivity|split; [exact V|split; [reflexivity|split; [exact D|split; [exact I|exact F]]]]]]].
  split.
  - unfold r_lcd. cbn [r_cols r_rows r_buf r_reg]. rewrite map_app. cbn [map snd].
    destruct h as [c r b a]. cbn [l_cols l_rows l_buf l_anims] in *. subst. exact W.
  - pose proof (hstart_fields sty row text speed lp) as (S1 & S2 & _).
    pose proof (reg_keys_app (r_reg l) (hstart sty row text speed lp) Hk) as G.
    cbn zeta in S1, S2. rewrite S1, S2 in G. exact G.
Qed.

Lemma ranimate_validates l sty row text speed lp : rwf l ->
  (ranimate l sty row text speed lp = None <-> ~ (0 <= row < r_rows l)).
Proof.
  intros [Hw _]. unfold ranimate.
  pose proof (hanimate_validates (r_lcd l) sty row text speed lp Hw) as V. cbn [r_lcd l_rows] in V.
  destruct (hanimate (r_lcd l) sty row text speed lp) as [[h e]|] eqn:E.
  - split; [discriminate|]. intro N. apply V in N. discriminate.
  - split; [intros _; apply V; reflexivity|reflexivity].
Qed.

Lemma rtick_ok l now : rwf l ->
  exists l' ev, rtick l now = Some (l', ev) /\ rwf l' /\
    r_cols l' = r_cols l /\ r_rows l' = r_rows l /\
    r_reg l' = map (reg_step (r_cols l) now) (r_reg l) /\
    hno_delay ev /\
    (forall r s, In (HRow r s) ev -> zlen s = r_cols l /\
        exists k st, In (k, st) (r_reg l) /\ h_row st = r /\ hgate st now = true) /\
    (forall i k st, nth_error (r_reg l) i = Some (k, st) ->
        exists b0 b1 e, buf_wf (r_cols l) (r_rows l) b0 /\
                        htick1 (r_cols l) (r_rows l) now st b0 = Some (hstep (r_cols l) now st, b1, e)).
Proof.
  intros [(Hc & Hb & Hrows) Hk]. cbn [r_lcd l_cols l_rows l_buf l_anims] in *.
  destruct (htick_list_ok (r_cols l) (r_rows l) now (map snd (r_reg l)) (r_buf l) Hc Hb Hrows)
    as (b & ev & E & W & D & R & N).
  unfold rtick. rewrite E. do 2 eexists. split; [reflexivity|]. cbn [r_cols r_rows r_buf r_reg].
  rewrite combine_fst_map.
  split; [|split; [reflexivity|split; [reflexivity|split; [reflexivity|split; [exact D|split]]]]].
  - split; [|apply reg_keys_step; exact Hk].
    unfold hwf, r_lcd. cbn [l_cols l_rows l_buf l_anims r_cols r_rows r_buf r_reg].
    split; [exact Hc|]. split; [exact W|].
    intros st Hin. fold (reg_step (r_cols l) now) in Hin. rewrite map_snd_step in Hin.
    apply in_map_iff in Hin as (s0 & <- & Hin).
    destruct (hstep_keeps (r_cols l) now s0) as (_ & Rw & _). rewrite Rw. auto.
  - intros r s Hin. destruct (R r s Hin) as [Hs (st & Hi & Hr & Hg)]. split; [exact Hs|].
    apply in_map_iff in Hi as ([k st0] & Es & Hi). cbn in Es. subst st0. exists k, st. tauto.
  - intros i k st Hi. apply (N i st). rewrite nth_error_map, Hi. reflexivity.
Qed.

Lemma rline_ok l row text b e : rwf l -> hline (r_cols l) (r_rows l) (r_buf l) row text = Some (b, e) ->
  rwf (mkR (r_cols l) (r_rows l) b (r_reg l)).
Proof.
  intros [(Hc & Hb & Hrows) Hk] H. cbn [r_lcd l_cols l_rows l_buf l_anims] in *.
  split; [|exact Hk]. unfold hwf, r_lcd. cbn [l_cols l_rows l_buf l_anims r_cols r_rows r_buf r_reg].
  split; [exact Hc|]. split; [|exact Hrows].
  destruct (validate_row (r_rows l) row) eqn:V.
  - apply validate_row_true in V. rewrite hline_eq in H; [|exact Hc|apply Hb|exact V].
    inversion H; subst. apply buf_wf_set_row; [exact Hb|apply zlen_hplaced; lia].
  - unfold hline in H. rewrite V in H. discriminate.
Qed.

Lemma rblank_ok l reg : rwf l -> reg = r_reg l \/ reg = [] ->
  rwf (mkR (r_cols l) (r_rows l) (blank_buffer (r_cols l) (r_rows l)) reg).
Proof.
  intros [(Hc & Hb & Hrows) Hk] Hreg. cbn [r_lcd l_cols l_rows l_buf l_anims] in *.
  assert (Wb : buf_wf (r_cols l) (r_rows l) (blank_buffer (r_cols l) (r_rows l))).
  { destruct Hb as [Hl _]. unfold blank_buffer. split.
    - unfold zlen in *. rewrite repeat_length. lia.
    - intros rw Hin. apply repeat_spec in Hin. subst. apply zlen_spaces_pos. lia. }
  destruct Hreg as [->| ->].
  - split; [|exact Hk]. unfold hwf, r_lcd. cbn. split; [exact Hc|]. split; [exact Wb|exact Hrows].
  - split; [|apply reg_keys_nil]. unfold hwf, r_lcd. cbn. split; [exact Hc|]. split; [exact Wb|intros st []].
Qed.

Lemma rstep_wf l o : rwf l ->
  rwf (fst (rstep l o)) /\ r_cols (fst (rstep l o)) = r_cols l /\ r_rows (fst (rstep l o)) = r_rows l.
Proof.
  intro W. destruct o as [sty row text speed lp|now|row text| |]; cbn [rstep].
  - destruct (ranimate l sty row text speed lp) as [[l' ev]|] eqn:E; cbn [fst]; [|auto].
    destruct (ranimate_ok _ _ _ _ _ _ _ _ W E) as (W' & C & R & _). auto.
  - destruct (rtick_ok l now W) as (l' & ev & E & W' & C & R & _). rewrite E. cbn [fst]. auto.
  - destruct (hline (r_cols l) (r_rows l) (r_buf l) row text) as [[b e]|] eqn:E; cbn [fst]; [|auto].
    split; [eapply rline_ok; eassumption|auto].
  - cbn [fst]. split; [apply rblank_ok; auto|auto].
  - cbn [fst]. split; [apply rblank_ok; auto|auto].
Qed.

Lemma rrun_wf l ops : rwf l ->
  rwf (rrun l ops) /\ r_cols (rrun l ops) = r_cols l /\ r_rows (rrun l ops) = r_rows l.
Proof.
  revert l; induction ops as [|o rest IH]; intros l W; cbn [rrun]; [auto|].
  destruct (rstep_wf l o W) as (W' & C & R). destruct (IH _ W') as (W2 & C2 & R2).
  rewrite C2, R2, C, R. auto.
Qed.

Lemma rreach_wf l : rreach l -> rwf l.
Proof.
  intros (cols & rows & l0 & ops & N & ->). apply rnew_wf in N as [W _]. apply rrun_wf. exact W.
Qed.

Lemma rreach_run l ops : rreach l -> rreach (rrun l ops).
Proof.
  intros (cols & rows & l0 & ops0 & N & ->). exists cols, rows, l0, (ops0 ++ ops). split; [exact N|].
  clear N. revert l0; induction ops0 as [|o r IH]; intro l0; cbn [rrun app]; [reflexivity|apply IH].
Qed.

(* ---- C18_host_history_tick_total: LCD.tick raises in no history *)
Lemma host_history_tick_total l now : rreach l -> rtick l now <> None.
Proof.
  intro Hr. destruct (rtick_ok l now (rreach_wf l Hr)) as (l' & ev & E & _). rewrite E. discriminate.
Qed.

(* ---- C18_host_registry_keys: in every history the entry at position i has the key (style, row, i);
   in particular no two entries share a key *)
Lemma host_registry_keys l : rreach l -> reg_keys_ok (r_reg l).
Proof. intro Hr. apply rreach_wf in Hr. apply Hr. Qed.

Lemma host_registry_keys_distinct l : rreach l -> NoDup (map fst (r_reg l)).
Proof.
  intro Hr. pose proof (host_registry_keys l Hr) as Hk. apply NoDup_nth_error.
  intros i j Hi E. rewrite map_length in Hi.
  rewrite !nth_error_map in E.
  destruct (nth_error (r_reg l) i) as [[k1 s1]|] eqn:E1; [|apply nth_error_None in E1; lia].
  destruct (nth_error (r_reg l) j) as [[k2 s2]|] eqn:E2; [|discriminate].
  cbn in E. inversion E; subst. pose proof (Hk i _ _ E1) as K1. pose proof (Hk j _ _ E2) as K2.
  rewrite K1 in K2. inversion K2. lia.
Qed.

(* ---- C18_host_animate_never_replaces *)
Lemma host_animate_never_replaces l sty row text speed lp l' ev : rreach l ->
  ranimate l sty row text speed lp = Some (l', ev) ->
  r_reg l' = r_reg l ++ [((sty, row, zlen (r_reg l)), hstart sty row text speed lp)].
Proof.
  intros Hr H. destruct (ranimate_ok _ _ _ _ _ _ _ _ (rreach_wf l Hr) H) as (_ & _ & _ & _ & A & _). exact A.
Qed.

(* ---- C18_host_tick_advances_every_entry *)
Lemma host_tick_advances_every_entry l now : rreach l ->
  exists l' ev, rtick l now = Some (l', ev) /\
    forall i k st, nth_error (r_reg l) i = Some (k, st) ->
      exists b0 b1 e st', buf_wf (r_cols l) (r_rows l) b0 /\
        htick1 (r_cols l) (r_rows l) now st b0 = Some (st', b1, e) /\
        nth_error (r_reg l') i = Some (k, st').
Proof.
  intro Hr. destruct (rtick_ok l now (rreach_wf l Hr)) as (l' & ev & E & _ & _ & _ & A & _ & _ & N).
  exists l', ev. split; [exact E|]. intros i k st Hi. destruct (N i k st Hi) as (b0 & b1 & e & W & T).
  exists b0, b1, e, (hstep (r_cols l) now st). split; [exact W|]. split; [exact T|].
  rewrite A, nth_error_map, Hi. reflexivity.
Qed.

(* ---- C18_host_registered_entry_run: a registered animation through ANY history without begin() *)
Lemma rrun_entry l ops : rwf l -> no_begin ops ->
  forall i k st, nth_error (r_reg l) i = Some (k, st) ->
  exists stn tr, hsteps (r_cols l) (r_rows l) st (ticks_of ops) stn tr /\
                 nth_error (r_reg (rrun l ops)) i = Some (k, stn).
Proof.
  revert l; induction ops as [|o rest IH]; intros l W Hn i k st Hi.
  - exists st, []. split; [constructor|exact Hi].
  - unfold no_begin in Hn. cbn [forallb] in Hn. apply andb_true_iff in Hn as [Ho Hn].
    destruct (rstep_wf l o W) as (W' & C & R).
    destruct o as [sty row text speed lp|now|row text| |]; cbn [rrun ticks_of]; try discriminate.
    + cbn [rstep] in *. destruct (ranimate l sty row text speed lp) as [[l' ev]|] eqn:E; cbn [fst] in *.
      * destruct (ranimate_ok _ _ _ _ _ _ _ _ W E) as (_ & _ & _ & _ & A & _).
        destruct (IH l' W' Hn i k st) as (stn & tr & S & F).
        { rewrite A. rewrite nth_error_app1; [exact Hi|]. apply nth_error_Some. rewrite Hi. discriminate. }
        rewrite C, R in S. exists stn, tr. auto.
      * apply (IH l W Hn i k st Hi).
    + cbn [rstep] in *. destruct (rtick_ok l now W) as (l' & ev & E & _ & _ & _ & A & _ & _ & N).
      rewrite E in *. cbn [fst] in *.
      destruct (N i k st Hi) as (b0 & b1 & e & Wb & T).
      destruct (IH l' W' Hn i k (hstep (r_cols l) now st)) as (stn & tr & S & F).
      { rewrite A, nth_error_map, Hi. reflexivity. }
      rewrite C, R in S. exists stn, ((now, hgate st now, e) :: tr). split; [|exact F].
      econstructor; eassumption.
    + cbn [rstep] in *. destruct (hline (r_cols l) (r_rows l) (r_buf l) row text) as [[b e]|] eqn:E; cbn [fst] in *.
      * destruct (IH _ W' Hn i k st Hi) as (stn & tr & S & F). cbn [r_cols r_rows] in S. exists stn, tr. auto.
      * apply (IH l W Hn i k st Hi).
    + cbn [rstep fst] in *. destruct (IH _ W' Hn i k st Hi) as (stn & tr & S & F). cbn [r_cols r_rows] in S.
      exists stn, tr. auto.
Qed.

Lemma host_registered_entry_run l ops i k st : rreach l -> no_begin ops ->
  nth_error (r_reg l) i = Some (k, st) ->
  exists stn tr, hsteps (r_cols l) (r_rows l) st (ticks_of ops) stn tr /\
                 nth_error (r_reg (rrun l ops)) i = Some (k, stn) /\
                 (h_loop st = true -> h_active st = true -> h_active stn = true).
Proof.
  intros Hr Hn Hi. destruct (rrun_entry l ops (rreach_wf l Hr) Hn i k st Hi) as (stn & tr & S & F).
  exists stn, tr. split; [exact S|]. split; [exact F|].
  intros Hl Ha. eapply hsteps_loop_active; eassumption.
Qed.

(* ---- C18_host_registry_animation_run: LCD(), any history, then this animate, then any history without
   begin(): the animation stays registered under its key, is an [hsteps] run over the ticks of the history,
   never ends when looping (and loses no step), ends after hsteps_total steps otherwise, rate-limited *)
Lemma host_registry_animation_run l sty row text speed lp l1 ev0 ops :
  rreach l -> ranimate l sty row text speed lp = Some (l1, ev0) -> no_begin ops ->
  exists stn tr,
    nth_error (r_reg (rrun l1 ops)) (length (r_reg l)) = Some ((sty, row, zlen (r_reg l)), stn) /\
    hsteps (r_cols l) (r_rows l) (hstart sty row text speed lp) (ticks_of ops) stn tr /\
    (lp = true -> h_active stn = true /\
                  (Forall (fun t => 0 <= t) (ticks_of ops) -> no_step_lost (Z.max 0 speed) 0 tr)) /\
    (lp = false -> step_count tr <= hsteps_total sty (r_cols l) text /\
                   (h_active stn = true <-> step_count tr < hsteps_total sty (r_cols l) text) /\
                   hsteps_total sty (r_cols l) text <= zlen text + 2 * r_cols l + 2) /\
    (tick_times_ok (ticks_of ops) -> rate_limited (Z.max 0 speed) (step_times tr)).
Proof.
  intros Hr Ha Hn. pose proof (rreach_wf l Hr) as W.
  destruct (ranimate_ok _ _ _ _ _ _ _ _ W Ha) as (W1 & C & R & _ & A & _).
  destruct (rrun_entry l1 ops W1 Hn (length (r_reg l)) (sty, row, zlen (r_reg l)) (hstart sty row text speed lp))
    as (stn & tr & S & F).
  { rewrite A. apply nth_error_app_last. }
  rewrite C, R in S. exists stn, tr. split; [exact F|]. split; [exact S|].
  assert (Hcols : 1 <= r_cols l) by (destruct W as [(H & _) _]; exact H).
  split; [|split].
  - intros ->. split; [eapply loops_forever_host; exact S|].
    intro Ht. eapply no_step_lost_host; [exact Ht|exact S].
  - intros ->. eapply terminates_host; [exact Hcols|exact S].
  - intro Hok. eapply rate_limit_host; [exact Hok|exact S].
Qed.

(* ---- begin() is the one call that unregisters *)
Lemma host_begin_clears l : r_reg (fst (rstep l OBegin)) = [].
Proof. reflexivity. Qed.

Lemma host_only_begin_unregisters l o : rreach l -> is_begin o = false ->
  exists more, map fst (r_reg (fst (rstep l o))) = map fst (r_reg l) ++ more.
Proof.
  intros Hr Hb. pose proof (rreach_wf l Hr) as W.
  destruct o as [sty row text speed lp|now|row text| |]; cbn [rstep]; try discriminate.
  - destruct (ranimate l sty row text speed lp) as [[l' ev]|] eqn:E; cbn [fst].
    + destruct (ranimate_ok _ _ _ _ _ _ _ _ W E) as (_ & _ & _ & _ & A & _). rewrite A, map_app.
      eexists; reflexivity.
    + exists []. rewrite app_nil_r. reflexivity.
  - destruct (rtick_ok l now W) as (l' & ev & E & _ & _ & _ & A & _). rewrite E. cbn [fst]. rewrite A.
    exists []. rewrite app_nil_r, map_map. reflexivity.
  - destruct (hline _ _ _ _ _) as [[b e]|]; cbn [fst r_reg]; exists []; rewrite app_nil_r; reflexivity.
  - cbn [fst r_reg]. exists []. rewrite app_nil_r. reflexivity.
Qed.

(* ---- why the count may be used as a key: only because nothing is ever removed.  With finished entries
   forgotten before the key is computed, a reachable object loses a live looping animation to a new one *)
Definition ex_ops : list rop :=
  [OAnimate Blink 1 [79; 75] 0 false; OAnimate Scroll 0 [78; 69; 87; 83] 0 true; OTick 1; OTick 2].

Lemma pruning_key_replaces_live :
  exists l0 l k st l' ev,
    rnew 8 2 = Some l0 /\ l = rrun l0 ex_ops /\
    nth_error (r_reg l) 1 = Some (k, st) /\ h_loop st = true /\ h_active st = true /\
    ranimate_pruning l Scroll 0 [33] 0 false = Some (l', ev) /\
    length (r_reg l') = 1%nat /\ forallb (fun e => negb (h_loop (snd e))) (r_reg l') = true.
Proof.
  destruct (rnew 8 2) as [l0|] eqn:N; [|vm_compute in N; discriminate].
  destruct (nth_error (r_reg (rrun l0 ex_ops)) 1) as [[k st]|] eqn:E;
    [|vm_compute in N; inversion N; subst; vm_compute in E; discriminate].
  destruct (ranimate_pruning (rrun l0 ex_ops) Scroll 0 [33] 0 false) as [[l' ev]|] eqn:A;
    [|vm_compute in N; inversion N; subst; vm_compute in A; discriminate].
  exists l0, (rrun l0 ex_ops), k, st, l', ev.
  vm_compute in N. inversion N; subst; clear N.
  vm_compute in E. inversion E; subst; clear E.
  vm_compute in A. inversion A; subst; clear A.
  repeat split; reflexivity.
Qed.

(* the real bookkeeping on the same history keeps all three *)
Lemma ex_registry_history :
  exists l0 l l' ev,
    rnew 8 2 = Some l0 /\ l = rrun l0 ex_ops /\ rreach l /\
    ranimate l Scroll 0 [33] 0 false = Some (l', ev) /\
    map fst (r_reg l') = [(Blink, 1, 0); (Scroll, 0, 1); (Scroll, 0, 2)] /\
    map (fun e => h_active (snd e)) (r_reg l') = [false; true; true] /\
    map (fun e => h_loop (snd e)) (r_reg (rrun l' [OTick 3; OLine 0 [88]; OTick 4; OClear; OTick 5])) = [false; true; false] /\
    no_begin [OTick 3; OLine 0 [88]; OTick 4; OClear; OTick 5].
Proof.
  destruct (rnew 8 2) as [l0|] eqn:N; [|vm_compute in N; discriminate].
  destruct (ranimate (rrun l0 ex_ops) Scroll 0 [33] 0 false) as [[l' ev]|] eqn:A;
    [|vm_compute in N; inversion N; subst; vm_compute in A; discriminate].
  exists l0, (rrun l0 ex_ops), l', ev.
  split; [reflexivity|]. split; [reflexivity|]. split; [exists 8, 2, l0, ex_ops; auto|].
  split; [exact A|].
  vm_compute in N. inversion N; subst; clear N.
  vm_compute in A. inversion A; subst; clear A.
  repeat split; reflexivity.
Qed.

(* ---- the registry object seen through r_lcd is the list model of Host/LCDAnim.v: animate and tick commute
   with the projection, so every theorem about hanimate / htick speaks about the registry object too *)
Lemma host_history_animate_validates l sty row text speed lp : rreach l ->
  (ranimate l sty row text speed lp = None <-> ~ (0 <= row < r_rows l)).
Proof. intro Hr. apply ranimate_validates. apply rreach_wf. exact Hr. Qed.

Lemma ranimate_refines l sty row text speed lp l' ev : rreach l ->
  ranimate l sty row text speed lp = Some (l', ev) ->
  hanimate (r_lcd l) sty row text speed lp = Some (r_lcd l', ev).
Proof.
  intros Hr H. pose proof (rreach_wf l Hr) as W.
  destruct (ranimate_ok _ _ _ _ _ _ _ _ W H) as (_ & _ & _ & _ & A & _).
  unfold ranimate in H. destruct (hanimate (r_lcd l) sty row text speed lp) as [[h e]|] eqn:E; [|discriminate].
  destruct W as [Hw _].
  destruct (hanimate_ok (r_lcd l) sty row text speed lp h e Hw E) as (_ & C & R & _ & An & _).
  inversion H; subst; clear H. f_equal. f_equal.
  unfold r_lcd at 1. cbn [r_cols r_rows r_buf r_reg]. cbn [r_reg] in A. rewrite A, map_app. cbn [map snd].
  destruct h as [c r b a]. cbn [r_lcd l_cols l_rows l_buf l_anims] in *. subst. reflexivity.
Qed.

Lemma rtick_refines l now l' ev : rreach l -> rtick l now = Some (l', ev) ->
  htick (r_lcd l) now = Some (r_lcd l', ev).
Proof.
  intros Hr H. pose proof (rreach_wf l Hr) as [(Hc & Hb & Hrows) Hk].
  cbn [r_lcd l_cols l_rows l_buf l_anims] in *.
  destruct (htick_list_ok (r_cols l) (r_rows l) now (map snd (r_reg l)) (r_buf l) Hc Hb Hrows) as (b & e & E & _).
  unfold rtick in H. rewrite E in H. inversion H; subst; clear H.
  unfold htick. cbn [r_lcd l_cols l_rows l_buf l_anims]. rewrite E. f_equal. f_equal.
  unfold r_lcd. cbn [r_cols r_rows r_buf r_reg]. f_equal.
  rewrite combine_fst_map, !map_map. reflexivity.
Qed.
