(* C17: the alignment / progress-style tables of host class, parser and emitter, as
   regenerated from the current source (Gen/LcdTables.v), agree with each other and with
   the codes the models use. *)
From Coq Require Import ZArith List Bool Lia.
From RV Require Import Base.LcdBase Gen.LcdTables.
Import ListNotations.
Open Scope Z_scope.

Lemma tables_agree :
  (forall s, style_ok s = true ->
     assoc (style_name s) host_styles = Some (host_glyph s) /\
     assoc (style_name s) dev_styles = Some (dev_glyph s)) /\
  map fst host_styles = map fst dev_styles /\ map fst dev_styles = parser_styles /\
  length host_styles = 4%nat /\
  (forall a, align_ok a = true -> assoc (align_name a) dev_aligns = Some a) /\
  map fst dev_aligns = host_aligns /\ parser_aligns = host_aligns /\ length host_aligns = 3%nat /\
  parser_align_lowercases = true /\ parser_style_lowercases = true.
Proof.
  split.
  { intros s H. unfold style_ok in H. apply andb_true_iff in H as [H0 H3]. apply Z.leb_le in H0, H3.
    assert (Hs : s = 0 \/ s = 1 \/ s = 2 \/ s = 3) by lia.
    destruct Hs as [Hs|[Hs|[Hs|Hs]]]; subst s; vm_compute; split; reflexivity. }
  split; [reflexivity|]. split; [reflexivity|]. split; [reflexivity|]. split.
  { intros a H. unfold align_ok in H. apply andb_true_iff in H as [H0 H2]. apply Z.leb_le in H0, H2.
    assert (Ha : a = 0 \/ a = 1 \/ a = 2) by lia.
    destruct Ha as [Ha|[Ha|Ha]]; subst a; vm_compute; reflexivity. }
  repeat split; reflexivity.
Qed.
