(* C17: the statements of Props/C17.v, assembled from LCDP.v (call by call in
   hstep/dstep form, never-off-row for every call kind on both sides, backlight and
   glyph clauses, refutations with their witnesses). *)
From Coq Require Import ZArith QArith List Bool Lia.
From RV Require Import Base.LcdBase Host.LCD Device.DLCD Device.LCDRefine
  Proofs.LCDListP Proofs.LCDHostP Proofs.LCDDevP Proofs.LCDP.
Import ListNotations.
Open Scope Z_scope.

Lemma opt_asciib_ascii o : opt_asciib o = true -> opt_ascii o.
Proof. destruct o; cbn; [apply asciib_ascii|trivial]. Qed.

(* ====================================================================== *)
(* one call, host step against firmware step                               *)
(* ====================================================================== *)
Lemma top_write_refines : forall h d col row text clear align,
  fitsb (d_g d) = true -> shows h d ->
  0 <= row < d_rows d -> 0 <= col < d_cols d -> ascii text -> align_ok align = true ->
  exists h' d', hstep h (OWrite col row text clear align) = (h', HOk) /\
                dstep d (OWrite col row text clear align) = Some d' /\ shows h' d'.
Proof.
  intros h d col row text clear align Hf Sh Hr Hc Ha Hal. apply fitsb_fits in Hf.
  pose proof (write_refines h d col row text clear align Hf Sh Hr Hc Ha Hal) as H.
  destruct H as (h' & E & _ & S). cbv zeta in S. destruct S as (S & _).
  exists h', (write_aligned d (d_cols d) col row text clear align). cbn [hstep dstep]. rewrite Hal, (utf8_ascii _ Ha).
  split; [exact E|]. split; [reflexivity|exact S].
Qed.

Lemma top_line_refines : forall h d row text align clear,
  fitsb (d_g d) = true -> shows h d ->
  0 <= row < d_rows d -> ascii text -> align_ok align = true ->
  exists h' d', hstep h (OLine row text align clear) = (h', HOk) /\
                dstep d (OLine row text align clear) = Some d' /\ shows h' d'.
Proof.
  intros h d row text align clear Hf Sh Hr Ha Hal. apply fitsb_fits in Hf.
  pose proof Hf as (Hc & _). fold (d_cols d) in Hc.
  pose proof (write_refines h d 0 row text clear align Hf Sh Hr ltac:(lia) Ha Hal) as H.
  destruct H as (h' & E & _ & S). cbv zeta in S. destruct S as (S & _).
  exists h', (write_aligned d (d_cols d) 0 row text clear align). cbn [hstep dstep]. rewrite Hal, (utf8_ascii _ Ha).
  split; [rewrite hline_hwrite; exact E|]. split; [reflexivity|exact S].
Qed.

Lemma top_message_refines : forall h d top bottom ta ba clear,
  fitsb (d_g d) = true -> shows h d -> opt_asciib top = true -> opt_asciib bottom = true ->
  align_ok ta = true -> align_ok ba = true ->
  exists h' d', hstep h (OMessage top bottom ta ba clear) = (h', HOk) /\
                dstep d (OMessage top bottom ta ba clear) = Some d' /\ shows h' d'.
Proof.
  intros h d top bottom ta ba clear Hf Sh Ht Hb Hta Hba. apply fitsb_fits in Hf.
  pose proof (message_refines h d top bottom ta ba clear Hf Sh (opt_asciib_ascii _ Ht) (opt_asciib_ascii _ Hb)
                Hta Hba) as H.
  destruct H as (h' & E & _ & S). cbv zeta in S. destruct S as (S & _).
  exists h', (dmessage d top bottom ta ba clear). cbn [hstep dstep].
  rewrite Hta, Hba, (opt_utf8_ascii _ (opt_asciib_ascii _ Ht)), (opt_utf8_ascii _ (opt_asciib_ascii _ Hb)). cbn [andb].
  split; [exact E|]. split; [reflexivity|exact S].
Qed.

Lemma top_clear_refines : forall h d,
  fitsb (d_g d) = true -> h_g h = d_g d ->
  exists h' d', hstep h OClear = (h', HOk) /\ dstep d OClear = Some d' /\ shows h' d' /\
    forall r c, 0 <= r < d_rows d -> 0 <= c < d_cols d -> dcell d' r c = SP.
Proof.
  intros h d Hf G. apply fitsb_fits in Hf. destruct Hf as (Hc & Hr & _).
  fold (d_cols d) in Hc. fold (d_rows d) in Hr.
  destruct (clear_refines h d G ltac:(lia) ltac:(lia)) as (h' & E & _ & S & _ & C).
  exists h', (lcd_clear d). cbn [hstep dstep]. split; [exact E|]. split; [reflexivity|]. split; [exact S|].
  intros r c Hrr Hcc. apply (C r c Hrr Hcc).
Qed.

Lemma top_progress_refines : forall h d row value maxv width style label,
  fitsb (d_g d) = true -> shows h d -> 0 <= row < d_rows d -> style_ok style = true -> ascii label ->
  hfilled value maxv (hwidth (d_cols d) width) = dfilled value maxv (dwidth (d_cols d) width) ->
  exists h' d', hstep h (OProgress row value maxv width style label) = (h', HOk) /\
                dstep d (OProgress row value maxv width style label) = Some d' /\ shows h' d'.
Proof.
  intros h d row value maxv width style label Hf Sh Hr Hs Hl Hfd. apply fitsb_fits in Hf.
  pose proof (progress_refines h d row value maxv width style label Hf Sh Hr Hs Hl Hfd) as H.
  destruct H as (h' & E & _ & S). cbv zeta in S. destruct S as (S & _).
  exists h', (progress d (d_cols d) row value maxv width style label). cbn [hstep dstep]. rewrite Hs, (utf8_ascii _ Hl).
  split; [exact E|]. split; [reflexivity|exact S].
Qed.

(* the same with the statement's own condition: value*width is a multiple of max_value *)
Lemma top_progress_refines_exact : forall h d row value maxv width style label,
  fitsb (d_g d) = true -> shows h d -> 0 <= row < d_rows d -> style_ok style = true -> ascii label ->
  (maxv | value * hwidth (d_cols d) width) ->
  exists h' d', hstep h (OProgress row value maxv width style label) = (h', HOk) /\
                dstep d (OProgress row value maxv width style label) = Some d' /\ shows h' d'.
Proof.
  intros h d row value maxv width style label Hf Sh Hr Hs Hl Hdiv.
  apply top_progress_refines; try assumption.
  pose proof (fitsb_fits _ Hf) as (Hc & _). fold (d_cols d) in Hc.
  destruct (width_agree (d_cols d) width ltac:(lia)) as [Ew Hwr]. rewrite Ew.
  apply progress_exact; [lia|exact Hdiv].
Qed.

Lemma dinit_g g : d_g (dinit g) = g.
Proof. unfold dinit. cbn [d_g lcd_clear]. destruct (g_i2c g); [reflexivity|]. destruct (g_blpin g); reflexivity. Qed.

Lemma top_init_agrees : forall g h0, fitsb g = true -> hinit g = Some h0 -> agrees h0 (dinit g).
Proof. intros g h0 Hf Hi. apply fitsb_fits in Hf. destruct Hf as (_ & Hr & _). apply agrees_init; [exact Hi|lia]. Qed.

Lemma top_history_refines : forall g h0 ops,
  fitsb g = true -> hinit g = Some h0 -> forallb (op_guard g) ops = true ->
  hsteps_ok h0 ops /\ agrees (hrun h0 ops) (drun (dinit g) ops).
Proof.
  intros g h0 ops Hf Hi Hg. apply history_refines.
  - rewrite dinit_g. apply fitsb_fits. exact Hf.
  - apply top_init_agrees; assumption.
  - rewrite dinit_g. exact Hg.
Qed.

(* ====================================================================== *)
(* never off-row: the firmware, any text / value / width                   *)
(* ====================================================================== *)
Lemma in_row_rows row rows cols e : In row rows -> ev_in_row row cols e -> ev_in_rows rows cols e.
Proof. intros Hi. destruct e; cbn; try tauto. intros [-> Hc]. split; assumption. Qed.

Lemma ev_in_rows_incl a b cols e : incl a b -> ev_in_rows a cols e -> ev_in_rows b cols e.
Proof. intros Hi. destruct e; cbn; try tauto. intros [Hr Hc]. split; [apply Hi, Hr|exact Hc]. Qed.

Definition rows_ext (rows : list Z) (d d' : dlcd) : Prop :=
  exists evs, d_log d' = evs ++ d_log d /\ Forall (ev_in_rows rows (d_cols d)) evs.

Lemma in_row_ext_rows row rows d d' : In row rows -> in_row_ext row d d' -> rows_ext rows d d'.
Proof.
  intros Hi (evs & L & F). exists evs. split; [exact L|]. eapply Forall_impl; [|exact F].
  intros e. apply in_row_rows. exact Hi.
Qed.

Lemma rows_ext_incl a b d d' : incl a b -> rows_ext a d d' -> rows_ext b d d'.
Proof.
  intros Hi (evs & L & F). exists evs. split; [exact L|]. eapply Forall_impl; [|exact F].
  intros e. apply ev_in_rows_incl. exact Hi.
Qed.

Lemma rows_ext_refl rows d : rows_ext rows d d.
Proof. exists []. split; [reflexivity|constructor]. Qed.

Lemma rows_ext_trans rows a b c : d_g b = d_g a -> rows_ext rows a b -> rows_ext rows b c -> rows_ext rows a c.
Proof.
  intros G (e1 & L1 & F1) (e2 & L2 & F2). exists (e2 ++ e1).
  split; [rewrite L2, L1, app_assoc; reflexivity|].
  apply Forall_app. split; [|exact F1]. unfold d_cols in *. rewrite G in F2. exact F2.
Qed.

Lemma wa_in_row d col row text clear align :
  fits (d_g d) -> 0 <= row < d_rows d -> 0 <= col < d_cols d -> align_ok align = true ->
  d_g (write_aligned d (d_cols d) col row text clear align) = d_g d /\
  in_row_ext row d (write_aligned d (d_cols d) col row text clear align) /\
  forall r c, 0 <= r < d_rows d -> 0 <= c < d_cols d -> r <> row ->
    dcell (write_aligned d (d_cols d) col row text clear align) r c = dcell d r c.
Proof.
  intros Hf Hr Hc Ha.
  pose proof (write_aligned_spec d col row text clear align Hf Hr Hc Ha) as H. cbv zeta in H.
  destruct H as (G & X & C). split; [exact G|]. split; [exact X|].
  intros r c Hrr Hcc Hne. rewrite C by assumption. destruct (Z.eqb_spec r row); [contradiction|reflexivity].
Qed.

(* an optional line (message's top / bottom) *)
Definition wa_opt (d : dlcd) (cols row : Z) (ot : option (list Z)) (clear : bool) (align : Z) : dlcd :=
  match ot with Some t => write_aligned d cols 0 row t clear align | None => d end.

Lemma wa_opt_in_row d row ot clear align :
  fits (d_g d) -> 0 <= row < d_rows d -> align_ok align = true ->
  d_g (wa_opt d (d_cols d) row ot clear align) = d_g d /\
  rows_ext (if is_none ot then [] else [row]) d (wa_opt d (d_cols d) row ot clear align) /\
  forall r c, 0 <= r < d_rows d -> 0 <= c < d_cols d -> (is_none ot = false -> r <> row) ->
    dcell (wa_opt d (d_cols d) row ot clear align) r c = dcell d r c.
Proof.
  intros Hf Hr Ha. pose proof Hf as (Hc & _). fold (d_cols d) in Hc. destruct ot as [t|]; cbn [wa_opt is_none].
  - destruct (wa_in_row d 0 row t clear align Hf Hr ltac:(lia) Ha) as (G & X & C).
    split; [exact G|]. split; [eapply in_row_ext_rows; [left; reflexivity|exact X]|].
    intros r c Hrr Hcc Hne. apply C; try assumption. apply Hne. reflexivity.
  - split; [reflexivity|]. split; [apply rows_ext_refl|]. reflexivity.
Qed.

Lemma zlen_dev_progress_text cols v m w s l : 0 <= cols -> zlen (dev_progress_text cols v m w s l) <= cols.
Proof.
  intros Hc. unfold dev_progress_text. cbv zeta.
  match goal with |- context [if zlen ?t >? cols then _ else _] => set (text := t) end.
  rewrite Z.gtb_ltb. destruct (Z.ltb_spec cols (zlen text)); [rewrite zlen_ztake; lia|lia].
Qed.

Lemma progress_in_row d row v m w s l :
  fits (d_g d) -> 0 <= row < d_rows d ->
  d_g (progress d (d_cols d) row v m w s l) = d_g d /\
  in_row_ext row d (progress d (d_cols d) row v m w s l) /\
  forall r c, 0 <= r < d_rows d -> 0 <= c < d_cols d -> r <> row ->
    dcell (progress d (d_cols d) row v m w s l) r c = dcell d r c.
Proof.
  intros Hf Hr. pose proof Hf as (Hc & _). fold (d_cols d) in Hc. unfold progress.
  destruct (Z.leb_spec (d_cols d) 0); [lia|].
  pose proof (clear_row_in d row Hf Hr) as H1. cbv zeta in H1. destruct H1 as (G1 & C1 & X1).
  set (d1 := clear_row d (d_cols d) row) in *.
  assert (Hf1 : fits (d_g d1)) by (rewrite G1; exact Hf).
  assert (Er : d_rows d1 = d_rows d) by (unfold d_rows; rewrite G1; reflexivity).
  assert (Ec : d_cols d1 = d_cols d) by (unfold d_cols; rewrite G1; reflexivity).
  pose proof (zlen_dev_progress_text (d_cols d) v m w s l ltac:(lia)) as Hl.
  pose proof (cursor_print d1 0 row (dev_progress_text (d_cols d) v m w s l) Hf1 ltac:(lia) ltac:(lia) ltac:(lia)) as H2.
  cbv zeta in H2. destruct H2 as (G2 & C2 & X2).
  split; [congruence|]. split; [eapply in_row_ext_trans; [exact G1|exact X1|exact X2]|].
  intros r c Hrr Hcc Hne. rewrite C2 by lia.
  destruct (Z.eqb_spec r row); [contradiction|]. cbn [andb]. rewrite C1 by assumption.
  destruct (Z.eqb_spec r row); [contradiction|reflexivity].
Qed.

(* calls that write no cell at all *)
Definition no_cell_ev (e : dev_ev) : Prop := match e with EvW _ _ _ => False | _ => True end.
Definition quiet (d d' : dlcd) : Prop :=
  d_g d' = d_g d /\ d_ram d' = d_ram d /\ exists evs, d_log d' = evs ++ d_log d /\ Forall no_cell_ev evs.

Lemma quiet_refl d : quiet d d.
Proof. repeat split. exists []. split; [reflexivity|constructor]. Qed.

Lemma quiet_trans a b c : quiet a b -> quiet b c -> quiet a c.
Proof.
  intros (G1 & R1 & e1 & L1 & F1) (G2 & R2 & e2 & L2 & F2). repeat split; try congruence.
  exists (e2 ++ e1). split; [rewrite L2, L1, app_assoc; reflexivity|]. apply Forall_app. split; assumption.
Qed.

Lemma quiet_log d e : no_cell_ev e -> quiet d (log d e).
Proof. intros He. repeat split. exists [e]. split; [reflexivity|]. constructor; [exact He|constructor]. Qed.

Lemma quiet_set_bl d b s : quiet d (set_bl d b s).
Proof. repeat split. exists []. split; [reflexivity|constructor]. Qed.

Lemma quiet_bl_switch d on : quiet d (bl_switch d on).
Proof.
  unfold bl_switch. destruct (g_i2c (d_g d)); [apply quiet_log; exact I|].
  destruct (g_blpin (d_g d)); [|apply quiet_refl].
  eapply quiet_trans; [apply quiet_set_bl|apply quiet_log; exact I].
Qed.

Lemma quiet_brightness d level : quiet d (dev_brightness d level).
Proof.
  unfold dev_brightness. destruct (g_blpin (d_g d)); [|apply quiet_refl].
  destruct (d_blstate d); [|apply quiet_set_bl].
  eapply quiet_trans; [apply quiet_set_bl|apply quiet_log; exact I].
Qed.

Lemma quiet_create_char d loc rows : quiet d (create_char d loc rows).
Proof. repeat split. exists [EvCG (Z.land (u8 loc) 7) rows]. split; [reflexivity|]. constructor; [exact I|constructor]. Qed.

Lemma quiet_result rows d d' : quiet d d' ->
  d_g d' = d_g d /\ rows_ext rows d d' /\ (forall r c, dcell d' r c = dcell d r c).
Proof.
  intros (G & R & evs & L & F). split; [exact G|]. split.
  - exists evs. split; [exact L|]. eapply Forall_impl; [|exact F]. intros e. destruct e; cbn; tauto.
  - intros r c. unfold dcell. rewrite G, R. reflexivity.
Qed.

Lemma is_none_map {A B} (f : A -> B) o : is_none (option_map f o) = is_none o.
Proof. destruct o; reflexivity. Qed.

Lemma dev_in_row : forall d op d',
  fitsb (d_g d) = true -> geo_guard (d_g d) op = true -> dstep d op = Some d' ->
  d_g d' = d_g d /\
  (exists evs, d_log d' = evs ++ d_log d /\ Forall (ev_in_rows (touched (d_g d) op) (d_cols d)) evs) /\
  (forall r c, 0 <= r < d_rows d -> 0 <= c < d_cols d -> ~ In r (touched (d_g d) op) -> dcell d' r c = dcell d r c).
Proof.
  intros d op d' Hf Hg Hs. apply fitsb_fits in Hf. pose proof Hf as (Hc & Hr & _).
  fold (d_cols d) in Hc. fold (d_rows d) in Hr.
  change (d_g d' = d_g d /\ rows_ext (touched (d_g d) op) d d' /\
          (forall r c, 0 <= r < d_rows d -> 0 <= c < d_cols d -> ~ In r (touched (d_g d) op) -> dcell d' r c = dcell d r c)).
  destruct op; cbn [geo_guard] in Hg; cbn [dstep] in Hs; cbn [touched].
  - (* write *)
    apply andb_true_iff in Hg as [Hg Hal]. apply andb_true_iff in Hg as [Hrow Hcol].
    apply row_in_spec in Hrow. apply col_in_spec in Hcol. rewrite Hal in Hs. injection Hs as <-.
    destruct (wa_in_row d col row (utf8 text) clear align Hf Hrow Hcol Hal) as (G & X & C).
    split; [exact G|]. split; [eapply in_row_ext_rows; [left; reflexivity|exact X]|].
    intros r c Hrr Hcc Hn. apply C; try assumption. intros ->. apply Hn. left; reflexivity.
  - (* line *)
    apply andb_true_iff in Hg as [Hrow Hal]. apply row_in_spec in Hrow. rewrite Hal in Hs. injection Hs as <-.
    destruct (wa_in_row d 0 row (utf8 text) clear align Hf Hrow ltac:(lia) Hal) as (G & X & C).
    split; [exact G|]. split; [eapply in_row_ext_rows; [left; reflexivity|exact X]|].
    intros r c Hrr Hcc Hn. apply C; try assumption. intros ->. apply Hn. left; reflexivity.
  - (* message *)
    apply andb_true_iff in Hg as [Hta Hba].
    rewrite Hta, Hba in Hs. cbn [andb] in Hs. injection Hs as <-.
    fold (wa_opt d (d_cols d) 0 (option_map utf8 top) clear top_align).
    destruct (wa_opt_in_row d 0 (option_map utf8 top) clear top_align Hf ltac:(lia) Hta) as (G1 & X1 & C1).
    rewrite is_none_map in X1, C1.
    set (d1 := wa_opt d (d_cols d) 0 (option_map utf8 top) clear top_align) in *.
    assert (Skip : d_g d1 = d_g d /\ rows_ext ((if is_none top then [] else [0]) ++ []) d d1 /\
              (forall r c, 0 <= r < d_rows d -> 0 <= c < d_cols d ->
                 ~ In r ((if is_none top then [] else [0]) ++ []) -> dcell d1 r c = dcell d r c)).
    { rewrite app_nil_r. split; [exact G1|]. split; [exact X1|].
      intros r c Hrr Hcc Hn. apply C1; try assumption. intros Ht ->. apply Hn. rewrite Ht. left. reflexivity. }
    destruct bottom as [b0|]; cbn [is_none option_map orb] in *; [set (b := utf8 b0)|exact Skip].
    fold (d_rows d). rewrite Z.gtb_ltb. destruct (Z.ltb_spec 1 (d_rows d)) as [Hbr|Hbr];
      [destruct (Z.leb_spec (d_rows d) 1); [lia|]|destruct (Z.leb_spec (d_rows d) 1); [exact Skip|lia]].
    clear Skip.
    + assert (Hf1 : fits (d_g d1)) by (rewrite G1; exact Hf).
      assert (Er : d_rows d1 = d_rows d) by (unfold d_rows; rewrite G1; reflexivity).
      assert (Ec : d_cols d1 = d_cols d) by (unfold d_cols; rewrite G1; reflexivity).
      destruct (wa_in_row d1 0 1 b clear bottom_align Hf1 ltac:(lia) ltac:(lia) Hba) as (G2 & X2 & C2).
      rewrite Ec, Er in *.
      split; [congruence|]. split.
      * eapply rows_ext_trans; [exact G1| |].
        -- eapply rows_ext_incl; [|exact X1]. apply incl_appl, incl_refl.
        -- eapply in_row_ext_rows; [|exact X2]. apply in_or_app. right. left. reflexivity.
      * intros r c Hrr Hcc Hn. rewrite C2; try assumption.
        -- apply C1; try assumption. intros Ht ->. apply Hn. apply in_or_app. left. rewrite Ht. left. reflexivity.
        -- intros ->. apply Hn. apply in_or_app. right. left. reflexivity.
  - (* clear *)
    injection Hs as <-. split; [reflexivity|]. split.
    + exists [EvCLR]. split; [reflexivity|]. constructor; [exact I|constructor].
    + intros r c Hrr Hcc Hn. exfalso. apply Hn. apply In_zseq. exact Hrr.
  - (* progress *)
    apply andb_true_iff in Hg as [Hrow Hst]. apply row_in_spec in Hrow. rewrite Hst in Hs. injection Hs as <-.
    destruct (progress_in_row d row value maxv width style (utf8 label) Hf Hrow) as (G & X & C).
    split; [exact G|]. split; [eapply in_row_ext_rows; [left; reflexivity|exact X]|].
    intros r c Hrr Hcc Hn. apply C; try assumption. intros ->. apply Hn. left; reflexivity.
  - (* display *)
    injection Hs as <-.
    destruct (quiet_result [] d (dev_display d on)) as (G & X & C).
    { unfold dev_display. eapply quiet_trans; [apply (quiet_log d (EvDISP on) I)|apply quiet_bl_switch]. }
    split; [exact G|]. split; [exact X|]. intros r c _ _ _. apply C.
  - (* backlight *)
    injection Hs as <-.
    destruct (quiet_result [] d (dev_backlight d on) (quiet_bl_switch d on)) as (G & X & C).
    split; [exact G|]. split; [exact X|]. intros r c _ _ _. apply C.
  - (* brightness *)
    injection Hs as <-.
    destruct (quiet_result [] d (dev_brightness d level) (quiet_brightness d level)) as (G & X & C).
    split; [exact G|]. split; [exact X|]. intros r c _ _ _. apply C.
  - (* glyph *)
    destruct (zlen bitmap =? 8); [|discriminate]. injection Hs as <-.
    destruct (quiet_result [] d _ (quiet_create_char d slot (dev_glyph_rows bitmap))) as (G & X & C).
    split; [exact G|]. split; [exact X|]. intros r c _ _ _. apply C.
Qed.

(* ====================================================================== *)
(* never off-row: the host, every call, every argument                     *)
(* ====================================================================== *)
Lemma hrow_set h row line r : 0 <= r -> r <> row -> hrow (set_buf h (zupd row line (h_buf h))) r = hrow h r.
Proof.
  intros Hr Hne. unfold hrow. cbn [h_buf set_buf]. rewrite znth_zupd by exact Hr.
  destruct (Z.eqb_spec r row); [contradiction|reflexivity].
Qed.

Lemma hplace_other h row text align start r : 0 <= r -> r <> row ->
  hrow (fst (hplace h row text align start)) r = hrow h r.
Proof.
  intros Hr Hne. unfold hplace. destruct (negb (row_ok h row)); [reflexivity|].
  destruct (negb (align_ok align)); [reflexivity|].
  destruct (Z.max 0 (h_cols h - Z.max 0 start) <=? 0); [reflexivity|]. cbn [fst]. apply hrow_set; assumption.
Qed.

Lemma hwrite_other h col row text clear align r : 0 <= r -> r <> row ->
  hrow (fst (hwrite h col row text clear align)) r = hrow h r.
Proof.
  intros Hr Hne. unfold hwrite. destruct (negb (row_ok h row)); [reflexivity|].
  rewrite hplace_other by assumption. destruct clear; [apply hrow_set; assumption|reflexivity].
Qed.

Lemma host_other_rows : forall h op r,
  0 <= r < h_rows h -> ~ In r (touched (h_g h) op) -> hrow (fst (hstep h op)) r = hrow h r.
Proof.
  intros h op r Hr Hn. destruct op; cbn [hstep touched] in *.
  - apply hwrite_other; [lia|]. intros ->. apply Hn. left; reflexivity.
  - rewrite hline_hwrite. apply hwrite_other; [lia|]. intros ->. apply Hn. left; reflexivity.
  - unfold hmessage.
    set (p1 := match top with Some t => hline h 0 t top_align clear | None => (h, HOk) end).
    assert (H1 : hrow (fst p1) r = hrow h r).
    { subst p1. destruct top as [t|]; [|reflexivity]. rewrite hline_hwrite. apply hwrite_other; [lia|].
      intros ->. apply Hn. cbn [is_none]. apply in_or_app. left. left. reflexivity. }
    destruct p1 as [h1 r1] eqn:Ep1. cbn [fst] in H1. destruct r1 as [|k]; [|exact H1].
    assert (G1 : h_rows h1 = h_rows h).
    { unfold h_rows. replace h1 with (fst p1) by (rewrite Ep1; reflexivity). subst p1.
      destruct top as [t|]; [rewrite hline_hwrite, hwrite_g|]; reflexivity. }
    destruct bottom as [b|]; [|exact H1]. rewrite G1, Z.gtb_ltb. destruct (Z.ltb_spec 1 (h_rows h)) as [Hb|Hb]; [|exact H1].
    rewrite hline_hwrite, hwrite_other; [exact H1|lia|].
    intros ->. apply Hn. cbn [is_none orb]. fold (h_rows h). destruct (Z.leb_spec (h_rows h) 1); [lia|].
    apply in_or_app. right. left. reflexivity.
  - exfalso. apply Hn. apply In_zseq. exact Hr.
  - unfold hprogress. destruct (negb (style_ok style)); [reflexivity|].
    destruct (negb (row_ok h row)); [reflexivity|]. cbn [fst]. apply hrow_set; [lia|].
    intros ->. apply Hn. left; reflexivity.
  - reflexivity.
  - reflexivity.
  - unfold hbrightness. destruct (g_i2c (h_g h)); [reflexivity|]. destruct (g_blpin (h_g h)); [|reflexivity].
    destruct (negb ((0 <=? level) && (level <=? 255))); reflexivity.
  - unfold hglyph. destruct (negb ((0 <=? slot) && (slot <=? 7))); [reflexivity|].
    destruct (negb (zlen (glyph_rows bitmap) =? 8)); reflexivity.
Qed.

(* ====================================================================== *)
(* backlight                                                               *)
(* ====================================================================== *)
Lemma dstep'_g d op : d_g (dstep' d op) = d_g d.
Proof.
  unfold dstep', dstep. destruct op.
  - destruct (align_ok align); [|reflexivity]. apply textual_write_aligned.
  - destruct (align_ok align); [|reflexivity]. apply textual_write_aligned.
  - destruct (align_ok top_align && align_ok bottom_align); [|reflexivity].
    set (d1 := match option_map utf8 top with Some t => _ | None => d end).
    assert (G1 : d_g d1 = d_g d) by (subst d1; destruct top; [apply textual_write_aligned|reflexivity]).
    destruct bottom; [|exact G1]. destruct (d_rows d >? 1); [|exact G1]. rewrite <- G1. apply textual_write_aligned.
  - reflexivity.
  - destruct (style_ok style); [|reflexivity]. apply textual_progress.
  - apply (quiet_trans d (log d (EvDISP on)) _ (quiet_log d (EvDISP on) I) (quiet_bl_switch _ on)).
  - apply quiet_bl_switch.
  - apply quiet_brightness.
  - destruct (zlen bitmap =? 8); reflexivity.
Qed.

Lemma drun_g ops : forall d, d_g (drun d ops) = d_g d.
Proof. induction ops as [|op r IH]; intros d; cbn [drun]; [reflexivity|]. rewrite IH. apply dstep'_g. Qed.

(* every history of the firmware, whatever the arguments: the pin carries 0 when the
   backlight is off and the stored brightness (always within 0..255) when it is on *)
Lemma top_backlight : forall g ops p,
  g_i2c g = false -> g_blpin g = Some p ->
  last_aw p (d_log (drun (dinit g) ops)) =
    Some (if d_blstate (drun (dinit g) ops) then d_bright (drun (dinit g) ops) else 0) /\
  0 <= d_bright (drun (dinit g) ops) <= 255.
Proof.
  intros g ops p Hi Hp. pose proof (pin_inv_run ops (dinit g) (pin_inv_init g)) as I.
  unfold pin_inv in I. rewrite drun_g, dinit_g, Hp in I. apply I. exact Hi.
Qed.

Definition clamp255 (x : Z) : Z := Z.max 0 (Z.min 255 x).

(* what each command stores: the state follows display/backlight, the brightness follows
   brightness(level) clamped to 0..255 *)
Lemma top_backlight_cmds : forall d p,
  g_i2c (d_g d) = false -> g_blpin (d_g d) = Some p ->
  (forall on, d_blstate (dstep' d (OBacklight on)) = on /\ d_bright (dstep' d (OBacklight on)) = d_bright d) /\
  (forall on, d_blstate (dstep' d (ODisplay on)) = on /\ d_bright (dstep' d (ODisplay on)) = d_bright d) /\
  (forall level, d_blstate (dstep' d (OBrightness level)) = d_blstate d /\
                 d_bright (dstep' d (OBrightness level)) = clamp255 level).
Proof.
  intros d p Hi Hp. unfold dstep', dstep, dev_backlight, dev_display, bl_switch, dev_brightness.
  cbn [d_g log]. rewrite Hi, Hp. split; [|split].
  - intros on. split; reflexivity.
  - intros on. split; reflexivity.
  - intros level. unfold clamp255.
    destruct (d_blstate d) eqn:Es; cbn [d_blstate d_bright log set_bl]; (split; [congruence|]);
      destruct (Z.ltb_spec level 0); rewrite Z.gtb_ltb; zb.
Qed.

(* I2C backpack: the last backlight command sent is the requested state *)
Lemma top_backlight_i2c : forall d on,
  g_i2c (d_g d) = true ->
  last_bl (d_log (dstep' d (OBacklight on))) = Some on /\ last_bl (d_log (dstep' d (ODisplay on))) = Some on.
Proof.
  intros d on Hi. unfold dstep', dstep, dev_backlight, dev_display, bl_switch. cbn [d_g log]. rewrite Hi.
  split; reflexivity.
Qed.

(* ====================================================================== *)
(* glyphs                                                                  *)
(* ====================================================================== *)
Lemma top_glyph : forall h d slot bitmap,
  0 <= slot <= 7 -> zlen bitmap = 8 ->
  exists h' d' rows,
    hstep h (OGlyph slot bitmap) = (h', HOk) /\ dstep d (OGlyph slot bitmap) = Some d' /\
    gget slot (h_glyphs h') = Some rows /\ last_cg slot (d_log d') = Some rows /\
    rows = map (fun v => Z.land v 31) bitmap /\ zlen rows = 8 /\ Forall (fun v => 0 <= v <= 31) rows.
Proof.
  intros h d slot bitmap Hs Hl. destruct (glyph_rows_8 bitmap Hl) as (Eg & Lg & Rg).
  cbn [hstep dstep]. unfold hglyph.
  destruct (Z.leb_spec 0 slot); [|lia]. destruct (Z.leb_spec slot 7); [|lia]. cbn [andb negb].
  rewrite Lg, Hl. cbn [Z.eqb Pos.eqb negb].
  eexists; eexists; exists (glyph_rows bitmap). split; [reflexivity|]. split; [reflexivity|].
  cbn [h_glyphs d_log create_char last_cg]. rewrite gget_gset, land_slot, !Z.eqb_refl by lia.
  split; [reflexivity|]. split; [rewrite Eg; reflexivity|]. split; [exact Eg|]. split; [exact Lg|exact Rg].
Qed.

(* ====================================================================== *)
(* refutations (witnesses replayed on the real code by the harness)        *)
(* ====================================================================== *)
Definition g41 : geom := {| g_cols := 4; g_rows := 1; g_i2c := false; g_blpin := None |}.
Definition msgAB : lop := OMessage (Some [65]) (Some [66]) 0 0 true.

(* message(top, bottom) on a one-row display (formerly F-C17-message-one-row, repaired in
   the emitter: the bottom write is emitted under `if (rows > 1)`): both sides skip bottom,
   i.e. the call is message(top, None) *)
Lemma top_message_one_row_skips : forall h d top bottom ta ba clear,
  (h_rows h <= 1 -> hstep h (OMessage top bottom ta ba clear) = hstep h (OMessage top None ta ba clear)) /\
  (d_rows d <= 1 -> dstep d (OMessage top bottom ta ba clear) = dstep d (OMessage top None ta ba clear)).
Proof.
  intros h d top bottom ta ba clear. split; intros Hr; cbn [hstep dstep].
  - unfold hmessage.
    set (p1 := match top with Some t => hline h 0 t ta clear | None => (h, HOk) end).
    assert (G1 : h_rows (fst p1) = h_rows h).
    { unfold h_rows. subst p1. destruct top as [t|]; [rewrite hline_hwrite, hwrite_g|]; reflexivity. }
    destruct p1 as [h1 r1]. cbn [fst] in G1. destruct r1; [|reflexivity].
    destruct bottom; [|reflexivity]. rewrite G1, Z.gtb_ltb. destruct (Z.ltb_spec 1 (h_rows h)); [lia|reflexivity].
  - destruct (align_ok ta && align_ok ba); [|reflexivity].
    destruct bottom; cbn [option_map]; [|reflexivity].
    rewrite Z.gtb_ltb. destruct (Z.ltb_spec 1 (d_rows d)); [lia|reflexivity].
Qed.

(* the statement F-C17-message-one-row contradicted, for every one-row geometry, every pair
   of texts, alignments and clear flag, from the declaration on *)
Lemma top_message_one_row : forall g h0 t b ta ba c,
  fitsb g = true -> g_rows g = 1 -> hinit g = Some h0 ->
  asciib t = true -> asciib b = true -> align_ok ta = true -> align_ok ba = true ->
  let op := OMessage (Some t) (Some b) ta ba c in
  snd (hstep h0 op) = HOk /\ dstep (dinit g) op <> None /\
  cells (dstep' (dinit g) op) = map (map canon) (h_buf (fst (hstep h0 op))) /\
  hstep h0 op = hstep h0 (OLine 0 t ta c).
Proof.
  intros g h0 t b ta ba c Hf Hr Hi Ht Hb Hta Hba op.
  destruct (top_init_agrees g h0 Hf Hi) as (Sh & _).
  assert (Hf' : fitsb (d_g (dinit g)) = true) by (rewrite dinit_g; exact Hf).
  destruct (top_message_refines h0 (dinit g) (Some t) (Some b) ta ba c Hf' Sh Ht Hb Hta Hba) as (h' & d' & Eh & Ed & Sh').
  fold op in Eh, Ed. unfold dstep'. rewrite Eh, Ed. cbn [fst snd].
  split; [reflexivity|]. split; [discriminate|]. split; [apply Sh'|].
  rewrite <- Eh.
  assert (Hr0 : h_rows h0 <= 1).
  { unfold hinit in Hi. destruct ((g_cols g <=? 0) || (g_rows g <=? 0)); [discriminate|]. injection Hi as <-.
    unfold h_rows. cbn [h_g]. lia. }
  destruct (top_message_one_row_skips h0 (dinit g) (Some t) (Some b) ta ba c) as [Hh _].
  subst op. rewrite (Hh Hr0). cbn [hstep]. unfold hmessage.
  destruct (hline h0 0 t ta c) as [h1 r1]. destruct r1; reflexivity.
Qed.

(* a geometry of the quantifier (cols <= 40, rows <= 4) that does not fit the DDRAM of one
   HD44780: rows alias.  21x3 on the I2C library: row 2 starts at address 20 = row 0, column 20 *)
Definition g213 : geom := {| g_cols := 21; g_rows := 3; g_i2c := true; g_blpin := None |}.
Lemma top_geometry_refuted :
  exists g col row text,
    1 <= g_cols g <= 40 /\ 1 <= g_rows g <= 4 /\ fitsb g = false /\
    row_in g row = true /\ col_in g col = true /\ asciib text = true /\
    match hinit g with
    | Some h0 =>
        let op := OWrite col row text false 0 in
        snd (hstep h0 op) = HOk /\ dstep (dinit g) op <> None /\
        cells (dstep' (dinit g) op) <> map (map canon) (h_buf (fst (hstep h0 op)))
    | None => False
    end.
Proof.
  exists g213, 0, 2, [88]. split; [cbn; lia|]. split; [cbn; lia|].
  split; [reflexivity|]. split; [reflexivity|]. split; [reflexivity|]. split; [reflexivity|].
  vm_compute. split; [reflexivity|]. split; intros H; discriminate H.
Qed.

Definition bar_gap (cols value maxv : Z) (width : option Z) : Z :=
  Z.abs (hfilled value maxv (hwidth cols width) - dfilled value maxv (dwidth cols width)).

(* the statements F-C17-progress-width (width <= 0) and F-C17-progress-max (max_value <= 0)
   contradicted, for every width argument (None, <= 0, 1..cols, > cols) and every max_value:
   identical bars whenever value*width is a multiple of max_value, never more than one cell
   apart (repaired in __redu_lcd_progress: width clamped into 1..cols, empty bar for
   max_value <= 0, as the host does) *)
Lemma top_progress_same_bar : forall cols value maxv width, 1 <= cols ->
  (maxv | value * hwidth cols width) -> bar_gap cols value maxv width = 0.
Proof.
  intros cols value maxv width Hc Hdiv. unfold bar_gap.
  destruct (width_agree cols width Hc) as [Ew Hwr]. rewrite Ew.
  rewrite (progress_exact value maxv (hwidth cols width)) by (try lia; exact Hdiv). rewrite Z.sub_diag. reflexivity.
Qed.

Lemma top_progress_bar_within_one : forall cols value maxv width, 1 <= cols ->
  bar_gap cols value maxv width <= 1.
Proof.
  intros cols value maxv width Hc. unfold bar_gap.
  destruct (width_agree cols width Hc) as [Ew Hwr]. rewrite Ew.
  pose proof (progress_within_one value maxv (hwidth cols width) ltac:(lia)). lia.
Qed.

(* non-ASCII text: the firmware counts and prints UTF-8 bytes, the host code points, so
   alignment and truncation differ.  "25(degree)C" right-aligned on 8 columns *)
Definition g82 : geom := {| g_cols := 8; g_rows := 2; g_i2c := false; g_blpin := None |}.
Lemma top_non_ascii_refuted :
  exists g col row text align,
    fitsb g = true /\ row_in g row = true /\ col_in g col = true /\ align_ok align = true /\ asciib text = false /\
    match hinit g with
    | Some h0 =>
        let op := OWrite col row text true align in
        snd (hstep h0 op) = HOk /\ dstep (dinit g) op <> None /\
        cells (dstep' (dinit g) op) <> map (map canon) (h_buf (fst (hstep h0 op)))
    | None => False
    end.
Proof.
  exists g82, 0, 0, [50; 53; 176; 67], 2.
  split; [reflexivity|]. split; [reflexivity|]. split; [reflexivity|]. split; [reflexivity|]. split; [reflexivity|].
  vm_compute. split; [reflexivity|]. split; intros H; discriminate H.
Qed.
