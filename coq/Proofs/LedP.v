(* Proofs about Host/Led.v. *)
From Coq Require Import ZArith QArith Qround Lia Lqa List Bool.
From RV Require Import Base.Wire Base.Num Host.Led Proofs.NumP.
Import ListNotations.
Import Num.
Local Open Scope Q_scope.

(* ------------------------------------------------------------------ *)
(* sequencing                                                          *)
(* ------------------------------------------------------------------ *)
Lemma andthen_ok : forall s e r k,
  andthen (s, e, Ok r) k = (st (k s), e ++ evs (k s), res (k s)).
Proof. intros. unfold andthen, st, evs, res. destruct (k s) as [[s' e'] r']. reflexivity. Qed.

Lemma andthen_raised : forall s e x k, andthen (s, e, Raised x) k = (s, e, Raised x).
Proof. reflexivity. Qed.

Lemma andthen_st : forall (P : led -> Prop) a k,
  P (st a) -> (forall s1, P s1 -> P (st (k s1))) -> P (st (andthen a k)).
Proof.
  intros P [[s e] [r|x]] k Ha Hk.
  - rewrite andthen_ok. cbn [st fst]. apply Hk. exact Ha.
  - exact Ha.
Qed.

Lemma outcome_eta : forall o : outcome, o = (st o, evs o, res o).
Proof. intros [[s e] r]. reflexivity. Qed.

Lemma st_andthen_ok : forall s e r k, st (andthen (s, e, Ok r) k) = st (k s).
Proof. intros. rewrite andthen_ok. reflexivity. Qed.
Lemma evs_andthen_ok : forall s e r k, evs (andthen (s, e, Ok r) k) = e ++ evs (k s).
Proof. intros. rewrite andthen_ok. reflexivity. Qed.
Lemma res_andthen_ok : forall s e r k, res (andthen (s, e, Ok r) k) = res (k s).
Proof. intros. rewrite andthen_ok. reflexivity. Qed.

Lemma outcome_ext : forall (o : outcome) s e r, st o = s -> evs o = e -> res o = r -> o = (s, e, r).
Proof. intros [[s0 e0] r0] s e r; cbn; intros; subst; reflexivity. Qed.

(* ------------------------------------------------------------------ *)
(* set_brightness                                                      *)
(* ------------------------------------------------------------------ *)
Definition lit_of (p : pynum) (b : Z) : led := mkLed p (0 <? b)%Z b.

Lemma sb_ok : forall s v, num_between 0 255 v = Some true ->
  set_brightness s v = (lit_of (pin s) (zval v), [Lvl [zval v]], Ok RNone).
Proof. intros s v H. unfold set_brightness. rewrite H. reflexivity. Qed.

Lemma sb_cases : forall s v,
  (set_brightness s v = (lit_of (pin s) (zval v), [Lvl [zval v]], Ok RNone) /\ (0 <= zval v <= 255)%Z)
  \/ (exists k, set_brightness s v = (s, [], Raised k)).
Proof.
  intros s v. destruct (num_between 0 255 v) as [[|]|] eqn:E.
  - left. split; [apply sb_ok; exact E | apply between_zval; exact E].
  - right. exists ValueError. unfold set_brightness. rewrite E. reflexivity.
  - right. exists TypeError. unfold set_brightness. rewrite E. reflexivity.
Qed.

Lemma between_PI : forall z, (0 <= z <= 255)%Z -> num_between 0 255 (PI z) = Some true.
Proof.
  intros z [H0 H1]. unfold num_between. cbn [is_obj qval]. f_equal.
  apply andb_true_iff. split; apply Qle_bool_iff.
  - change 0 with (inject_Z 0). rewrite <- Zle_Qle. exact H0.
  - change 255 with (inject_Z 255). rewrite <- Zle_Qle. exact H1.
Qed.

Lemma between_PF : forall q, 0 <= q -> q <= 255 -> num_between 0 255 (PF q) = Some true.
Proof.
  intros q H0 H1. unfold num_between. cbn [is_obj qval]. f_equal.
  apply andb_true_iff. split; apply Qle_bool_iff; assumption.
Qed.

Lemma on_eq : forall s, on s = (mkLed (pin s) true 255, [Lvl [255%Z]], Ok RNone).
Proof. intro s. reflexivity. Qed.

Lemma off_eq : forall s, off s = (mkLed (pin s) false 0, [Lvl [0%Z]], Ok RNone).
Proof. intro s. reflexivity. Qed.

Ltac norm :=
  repeat first
    [ rewrite on_eq | rewrite off_eq
    | rewrite st_andthen_ok | rewrite evs_andthen_ok | rewrite res_andthen_ok
    | progress unfold sleep, done
    | progress cbv beta ].

Lemma inv_lit_of : forall p b, (0 <= b <= 255)%Z -> Inv_led (lit_of p b).
Proof. intros p b H. split; cbn; [exact H | reflexivity]. Qed.

Lemma sb_inv : forall s v, Inv_led s -> Inv_led (st (set_brightness s v)).
Proof.
  intros s v Hs. destruct (sb_cases s v) as [[E Hb]|[k E]]; rewrite E; cbn [st fst].
  - apply inv_lit_of. exact Hb.
  - exact Hs.
Qed.

Lemma reject_if_st : forall (P : led -> Prop) s c k,
  P s -> (c = Some false -> P (st (k s))) -> P (st (reject_if s c k)).
Proof.
  intros P s [[|]|] k Hs Hk; cbn; auto.
Qed.

(* ------------------------------------------------------------------ *)
(* blink                                                               *)
(* ------------------------------------------------------------------ *)
Definition blink_block (d : Q) : list ev := [Lvl [255%Z]; Sleep d; Lvl [0%Z]; Sleep d].

Fixpoint blink_evs (n : nat) (d : Q) : list ev :=
  match n with O => [] | S n' => blink_block d ++ blink_evs n' d end.

Lemma blink_loop_eq : forall n d s,
  blink_loop n d s =
  (match n with O => s | S _ => mkLed (pin s) false 0 end, blink_evs n d, Ok RNone).
Proof.
  induction n as [|n IH]; intros d s.
  - reflexivity.
  - apply outcome_ext; cbn [blink_loop]; norm; rewrite IH; cbn [st evs res fst snd pin].
    + destruct n; reflexivity.
    + reflexivity.
    + reflexivity.
Qed.

Lemma blink_evs_sleeps : forall n d, sleeps (blink_evs n d) = repeat d (2 * n).
Proof.
  induction n as [|n IH]; intro d; [reflexivity|].
  cbn [blink_evs blink_block app sleeps]. rewrite IH.
  replace (2 * S n)%nat with (S (S (2 * n))) by lia. reflexivity.
Qed.

Lemma blink_evs_levels : forall n d,
  chan 0 (levels (blink_evs n d)) = concat (repeat [255%Z; 0%Z] n).
Proof.
  induction n as [|n IH]; intro d; [reflexivity|].
  cbn [blink_evs blink_block app levels chan map nth repeat concat].
  f_equal. f_equal. apply IH.
Qed.

Lemma qsum_repeat : forall (d : Q) n, qsum (repeat d n) == inject_Z (Z.of_nat n) * d.
Proof.
  intros d n. induction n as [|n IH].
  - cbn [repeat qsum Z.of_nat]. change (inject_Z 0) with 0. lra.
  - cbn [repeat qsum]. rewrite IH, Nat2Z.inj_succ. unfold Z.succ. rewrite inject_Z_plus.
    change (inject_Z 1) with 1. lra.
Qed.

Lemma range_count_pos : forall t n, num_le t 0 = Some false -> range_count t = Some n ->
  (0 < n)%Z /\ qval t = inject_Z n /\ zval t = n.
Proof.
  intros t n Hle Hr. destruct t as [z|q|b|]; cbn in Hr; try discriminate; injection Hr as <-.
  - cbn in Hle. injection Hle as Hle. apply Qle_bool_false in Hle.
    change 0 with (inject_Z 0) in Hle. rewrite <- Zlt_Qlt in Hle. cbn. auto.
  - destruct b; cbn in *; [split; [lia|auto] | discriminate].
Qed.

Lemma blink_spec : forall s d t s' e r,
  step s (Blink d t) = (s', e, Ok r) ->
  s' = mkLed (pin s) false 0 /\
  sleeps e = repeat (qval d) (2 * Z.to_nat (zval t)) /\
  qsum (sleeps e) == 2 * qval t * qval d /\
  chan 0 (levels e) = concat (repeat [255%Z; 0%Z] (Z.to_nat (zval t))) /\
  (0 < zval t)%Z /\ 0 <= qval d.
Proof.
  intros s d t s' e r H. cbn [step] in H. unfold blink in H.
  destruct (num_lt d 0) as [[|]|] eqn:Ed; cbn [reject_if] in H; try discriminate.
  destruct (num_le t 0) as [[|]|] eqn:Et; cbn [reject_if] in H; try discriminate.
  destruct (range_count t) as [n|] eqn:Er; [|discriminate].
  destruct (range_count_pos _ _ Et Er) as (Hn & Hq & Hz).
  rewrite blink_loop_eq in H. injection H as Hs He _.
  rewrite Hz. subst e.
  assert (Hd : 0 <= qval d).
  { unfold num_lt in Ed. destruct (is_obj d); [discriminate|]. injection Ed as Ed.
    apply Qltb_false in Ed. exact Ed. }
  split; [|split; [|split; [|split; [|split]]]].
  - destruct (Z.to_nat n) eqn:En; [lia| symmetry; exact Hs].
  - apply blink_evs_sleeps.
  - rewrite blink_evs_sleeps, qsum_repeat, Hq.
    rewrite Nat2Z.inj_mul, Z2Nat.id by lia. rewrite inject_Z_mult.
    change (inject_Z (Z.of_nat 2)) with 2. lra.
  - apply blink_evs_levels.
  - exact Hn.
  - exact Hd.
Qed.

(* ------------------------------------------------------------------ *)
(* fade_in / fade_out                                                  *)
(* ------------------------------------------------------------------ *)
Fixpoint fin_levels (fuel : nat) (cur stp : Q) : list Z :=
  match fuel with
  | O => []
  | S f => if Qltb cur 255 then py_int_trunc cur :: fin_levels f (qmin_c 255 (cur + stp)) stp else []
  end.

Fixpoint fout_levels (fuel : nat) (cur stp : Q) : list Z :=
  match fuel with
  | O => []
  | S f => if Qltb 0 cur then py_int_trunc cur :: fout_levels f (qmax_c 0 (cur - stp)) stp else []
  end.

Definition after (lv : list Z) (s : led) : led :=
  match lv with [] => s | _ => lit_of (pin s) (last lv 0%Z) end.

Fixpoint fade_evs (d : Q) (lv : list Z) : list ev :=
  match lv with [] => [] | b :: r => Lvl [b] :: Sleep d :: fade_evs d r end.

Lemma after_cons : forall b r s, after r (lit_of (pin s) b) = after (b :: r) s.
Proof. intros b r s. destruct r; reflexivity. Qed.

Lemma qmin_c_cases : forall c x, (x < c /\ qmin_c c x = x) \/ (c <= x /\ qmin_c c x = c).
Proof.
  intros c x. unfold qmin_c. destruct (Qltb x c) eqn:E.
  - left. apply Qltb_true in E. auto.
  - right. apply Qltb_false in E. auto.
Qed.

Lemma qmax_c_cases : forall c x, (c < x /\ qmax_c c x = x) \/ (x <= c /\ qmax_c c x = c).
Proof.
  intros c x. unfold qmax_c. destruct (Qltb c x) eqn:E.
  - left. apply Qltb_true in E. auto.
  - right. apply Qltb_false in E. auto.
Qed.

Lemma fade_in_loop_eq : forall stp d, 0 <= stp -> forall fuel cur s, 0 <= cur ->
  fade_in_loop fuel cur stp d s =
  (after (fin_levels fuel cur stp) s, fade_evs d (fin_levels fuel cur stp), Ok RNone).
Proof.
  intros stp d Hstp. induction fuel as [|f IH]; intros cur s Hcur.
  - reflexivity.
  - cbn [fade_in_loop fin_levels]. destruct (Qltb cur 255) eqn:E; [|reflexivity].
    apply Qltb_true in E.
    assert (Hn : 0 <= qmin_c 255 (cur + stp)).
    { destruct (qmin_c_cases 255 (cur + stp)) as [[_ ->]|[_ ->]]; lra. }
    apply outcome_ext; rewrite sb_ok by (apply between_PF; lra); norm;
      rewrite (IH _ _ Hn); cbn [st evs res fst snd zval fade_evs app].
    + apply after_cons.
    + reflexivity.
    + reflexivity.
Qed.

Lemma fade_out_loop_eq : forall stp d, 0 <= stp -> forall fuel cur s, cur <= 255 ->
  fade_out_loop fuel cur stp d s =
  (after (fout_levels fuel cur stp) s, fade_evs d (fout_levels fuel cur stp), Ok RNone).
Proof.
  intros stp d Hstp. induction fuel as [|f IH]; intros cur s Hcur.
  - reflexivity.
  - cbn [fade_out_loop fout_levels]. destruct (Qltb 0 cur) eqn:E; [|reflexivity].
    apply Qltb_true in E.
    assert (Hn : qmax_c 0 (cur - stp) <= 255).
    { destruct (qmax_c_cases 0 (cur - stp)) as [[_ ->]|[_ ->]]; lra. }
    apply outcome_ext; rewrite sb_ok by (apply between_PF; lra); norm;
      rewrite (IH _ _ Hn); cbn [st evs res fst snd zval fade_evs app].
    + apply after_cons.
    + reflexivity.
    + reflexivity.
Qed.

Lemma fade_evs_sleeps : forall d lv, sleeps (fade_evs d lv) = repeat d (length lv).
Proof. intros d lv. induction lv as [|b r IH]; [reflexivity|]. cbn. rewrite IH. reflexivity. Qed.

Lemma fade_evs_levels : forall d lv, chan 0 (levels (fade_evs d lv)) = lv.
Proof. intros d lv. induction lv as [|b r IH]; [reflexivity|]. cbn. f_equal. exact IH. Qed.

Lemma sleeps_app : forall a b, sleeps (a ++ b) = sleeps a ++ sleeps b.
Proof. induction a as [|[q|l] a IH]; intro b; cbn; rewrite ?IH; reflexivity. Qed.

Lemma levels_app : forall a b, levels (a ++ b) = levels a ++ levels b.
Proof. induction a as [|[q|l] a IH]; intro b; cbn; rewrite ?IH; reflexivity. Qed.

(* monotone lists *)
Lemma mono_le_cons : forall a l, Forall (fun z => (a <= z)%Z) l -> mono_le l -> mono_le (a :: l).
Proof.
  intros a [|b t] HF Hm; [exact I|]. split; [|exact Hm]. inversion HF; assumption.
Qed.

Lemma mono_ge_cons : forall a l, Forall (fun z => (z <= a)%Z) l -> mono_ge l -> mono_ge (a :: l).
Proof.
  intros a [|b t] HF Hm; [exact I|]. split; [|exact Hm]. inversion HF; assumption.
Qed.

Lemma mono_le_snoc : forall l x, mono_le l -> Forall (fun z => (z <= x)%Z) l -> mono_le (l ++ [x]).
Proof.
  induction l as [|a t IH]; intros x Hm HF; [exact I|].
  inversion HF as [|? ? Ha Ht]; subst.
  destruct t as [|b t'].
  - cbn. split; [exact Ha|exact I].
  - destruct Hm as [Hab Hm]. change ((a :: b :: t') ++ [x]) with (a :: ((b :: t') ++ [x])).
    change ((b :: t') ++ [x]) with (b :: (t' ++ [x])) at 1.
    split; [exact Hab|]. change (b :: t' ++ [x]) with ((b :: t') ++ [x]). apply IH; assumption.
Qed.

Lemma mono_ge_snoc : forall l x, mono_ge l -> Forall (fun z => (x <= z)%Z) l -> mono_ge (l ++ [x]).
Proof.
  induction l as [|a t IH]; intros x Hm HF; [exact I|].
  inversion HF as [|? ? Ha Ht]; subst.
  destruct t as [|b t'].
  - cbn. split; [exact Ha|exact I].
  - destruct Hm as [Hab Hm]. change ((a :: b :: t') ++ [x]) with (a :: ((b :: t') ++ [x])).
    change ((b :: t') ++ [x]) with (b :: (t' ++ [x])) at 1.
    split; [exact Hab|]. change (b :: t' ++ [x]) with ((b :: t') ++ [x]). apply IH; assumption.
Qed.

(* levels of the upward loop: all between int(cur) and 254, non-decreasing *)
Lemma fin_levels_bounds : forall stp, 0 <= stp -> forall fuel cur, 0 <= cur ->
  Forall (fun z => (py_int_trunc cur <= z <= 254)%Z) (fin_levels fuel cur stp).
Proof.
  intros stp Hstp. induction fuel as [|f IH]; intros cur Hcur; [constructor|].
  cbn [fin_levels]. destruct (Qltb cur 255) eqn:E; [|constructor].
  apply Qltb_true in E.
  assert (Hlt : (py_int_trunc cur < 255)%Z) by (apply trunc_lt; assumption).
  constructor; [lia|].
  assert (Hn : 0 <= qmin_c 255 (cur + stp) /\ cur <= qmin_c 255 (cur + stp)).
  { destruct (qmin_c_cases 255 (cur + stp)) as [[_ ->]|[_ ->]]; lra. }
  destruct Hn as [Hn0 Hn1].
  eapply Forall_impl; [|apply (IH _ Hn0)].
  intros z Hz. cbn beta in Hz. pose proof (trunc_mono _ _ Hcur Hn1). lia.
Qed.

Lemma fin_levels_mono : forall stp, 0 <= stp -> forall fuel cur, 0 <= cur ->
  mono_le (fin_levels fuel cur stp).
Proof.
  intros stp Hstp. induction fuel as [|f IH]; intros cur Hcur; [exact I|].
  cbn [fin_levels]. destruct (Qltb cur 255) eqn:E; [|exact I].
  assert (Hn : 0 <= qmin_c 255 (cur + stp) /\ cur <= qmin_c 255 (cur + stp)).
  { destruct (qmin_c_cases 255 (cur + stp)) as [[_ ->]|[_ ->]]; apply Qltb_true in E; lra. }
  destruct Hn as [Hn0 Hn1].
  apply mono_le_cons; [|apply IH; exact Hn0].
  eapply Forall_impl; [|apply (fin_levels_bounds stp Hstp f _ Hn0)].
  intros z Hz. cbn beta in Hz. pose proof (trunc_mono _ _ Hcur Hn1). lia.
Qed.

(* levels of the downward loop: all between 1.. no: between 0 and int(cur), non-increasing *)
Lemma fout_levels_bounds : forall stp, 0 <= stp -> forall fuel cur,
  Forall (fun z => (0 <= z <= py_int_trunc cur)%Z) (fout_levels fuel cur stp).
Proof.
  intros stp Hstp. induction fuel as [|f IH]; intros cur; [constructor|].
  cbn [fout_levels]. destruct (Qltb 0 cur) eqn:E; [|constructor].
  apply Qltb_true in E.
  assert (H0 : (0 <= py_int_trunc cur)%Z).
  { rewrite trunc_floor by lra. apply Qfloor_nonneg. lra. }
  constructor; [lia|].
  assert (Hn : 0 <= qmax_c 0 (cur - stp) /\ qmax_c 0 (cur - stp) <= cur).
  { destruct (qmax_c_cases 0 (cur - stp)) as [[? ->]|[_ ->]]; lra. }
  destruct Hn as [Hn0 Hn1].
  eapply Forall_impl; [|apply IH].
  intros z Hz. cbn beta in Hz. pose proof (trunc_mono _ _ Hn0 Hn1). lia.
Qed.

Lemma fout_levels_mono : forall stp, 0 <= stp -> forall fuel cur, mono_ge (fout_levels fuel cur stp).
Proof.
  intros stp Hstp. induction fuel as [|f IH]; intros cur; [exact I|].
  cbn [fout_levels]. destruct (Qltb 0 cur) eqn:E; [|exact I].
  apply Qltb_true in E.
  assert (Hn : 0 <= qmax_c 0 (cur - stp) /\ qmax_c 0 (cur - stp) <= cur).
  { destruct (qmax_c_cases 0 (cur - stp)) as [[? ->]|[_ ->]]; lra. }
  destruct Hn as [Hn0 Hn1].
  apply mono_ge_cons; [|apply IH].
  eapply Forall_impl; [|apply (fout_levels_bounds stp Hstp f)].
  intros z Hz. cbn beta in Hz. pose proof (trunc_mono _ _ Hn0 Hn1). lia.
Qed.

(* number of iterations: the least n with cur + n*stp >= 255 (resp. cur - n*stp <= 0) *)
Lemma inject_succ : forall n : nat, inject_Z (Z.of_nat (S n)) == inject_Z (Z.of_nat n) + 1.
Proof.
  intro n. rewrite Nat2Z.inj_succ. unfold Z.succ. rewrite inject_Z_plus. reflexivity.
Qed.

Lemma fin_levels_len : forall stp, 0 < stp -> forall fuel cur,
  255 - cur <= inject_Z (Z.of_nat fuel) * stp ->
  (255 <= cur -> fin_levels fuel cur stp = []) /\
  (cur < 255 ->
     let n := inject_Z (Z.of_nat (length (fin_levels fuel cur stp))) in
     cur + (n - 1) * stp < 255 /\ 255 <= cur + n * stp).
Proof.
  intros stp Hstp. induction fuel as [|f IH]; intros cur Hfuel.
  - cbn [Z.of_nat] in Hfuel. change (inject_Z 0) with 0 in Hfuel.
    split; [reflexivity|]. intro Hc. exfalso. lra.
  - split.
    + intro Hc. cbn [fin_levels]. apply Qltb_false in Hc. rewrite Hc. reflexivity.
    + intro Hc. cbn [fin_levels]. pose proof Hc as Hb. apply Qltb_true in Hb. rewrite Hb.
      cbn [length]. cbv zeta. rewrite inject_succ. rewrite inject_succ in Hfuel.
      destruct (qmin_c_cases 255 (cur + stp)) as [[Hlt Hq]|[Hge Hq]]; rewrite Hq.
      * destruct (IH (cur + stp)) as [_ IH2]; [lra|].
        specialize (IH2 Hlt). cbv zeta in IH2. destruct IH2 as [I1 I2].
        split; lra.
      * destruct (IH 255) as [IH1 _].
        { assert (0 <= inject_Z (Z.of_nat f) * stp).
          { apply Qmult_le_0_compat; [|lra]. change 0 with (inject_Z 0). rewrite <- Zle_Qle. lia. }
          lra. }
        rewrite IH1 by lra. cbn [length Z.of_nat]. change (inject_Z 0) with 0. split; lra.
Qed.

Lemma fout_levels_len : forall stp, 0 < stp -> forall fuel cur,
  cur <= inject_Z (Z.of_nat fuel) * stp ->
  (cur <= 0 -> fout_levels fuel cur stp = []) /\
  (0 < cur ->
     let n := inject_Z (Z.of_nat (length (fout_levels fuel cur stp))) in
     0 < cur - (n - 1) * stp /\ cur - n * stp <= 0).
Proof.
  intros stp Hstp. induction fuel as [|f IH]; intros cur Hfuel.
  - cbn [Z.of_nat] in Hfuel. change (inject_Z 0) with 0 in Hfuel.
    split; [reflexivity|]. intro Hc. exfalso. lra.
  - split.
    + intro Hc. cbn [fout_levels]. apply Qltb_false in Hc. rewrite Hc. reflexivity.
    + intro Hc. cbn [fout_levels]. pose proof Hc as Hb. apply Qltb_true in Hb. rewrite Hb.
      cbn [length]. cbv zeta. rewrite inject_succ. rewrite inject_succ in Hfuel.
      destruct (qmax_c_cases 0 (cur - stp)) as [[Hlt Hq]|[Hge Hq]]; rewrite Hq.
      * destruct (IH (cur - stp)) as [_ IH2]; [lra|].
        specialize (IH2 Hlt). cbv zeta in IH2. destruct IH2 as [I1 I2].
        split; lra.
      * destruct (IH 0) as [IH1 _].
        { apply Qmult_le_0_compat; [|lra]. change 0 with (inject_Z 0). rewrite <- Zle_Qle. lia. }
        rewrite IH1 by lra. cbn [length Z.of_nat]. change (inject_Z 0) with 0. split; lra.
Qed.

(* the fuel computed by the model is enough *)
Lemma fuel_enough : forall x stp, 0 < stp ->
  x <= inject_Z (Z.of_nat (S (Z.to_nat (Qceiling (x / stp))))) * stp.
Proof.
  intros x stp Hstp.
  set (c := Qceiling (x / stp)).
  assert (Hc : x / stp <= inject_Z c) by apply Qle_ceiling.
  assert (Hn : inject_Z c <= inject_Z (Z.of_nat (S (Z.to_nat c)))).
  { rewrite <- Zle_Qle. lia. }
  assert (Hx : x == (x / stp) * stp) by (field; lra).
  rewrite Hx at 1. apply Qmult_le_compat_r; lra.
Qed.

Lemma ceil_count : forall x stp (n : nat), 0 < stp ->
  (inject_Z (Z.of_nat n) - 1) * stp < x -> x <= inject_Z (Z.of_nat n) * stp ->
  Qceiling (x / stp) = Z.of_nat n.
Proof.
  intros x stp n Hstp Hlo Hhi. apply Qceiling_unique.
  - apply Qlt_shift_div_l; assumption.
  - apply Qle_shift_div_r; assumption.
Qed.

Lemma num_le_false_pos : forall v, num_le v 0 = Some false -> 0 < qval v.
Proof.
  intros v H. unfold num_le in H. destruct (is_obj v); [discriminate|].
  injection H as H. apply Qle_bool_false in H. exact H.
Qed.

Lemma num_lt_false_nonneg : forall v, num_lt v 0 = Some false -> 0 <= qval v.
Proof.
  intros v H. unfold num_lt in H. destruct (is_obj v); [discriminate|].
  injection H as H. apply Qltb_false in H. exact H.
Qed.

Lemma fade_start_range : forall s, 0 <= fade_start s /\ fade_start s <= 255.
Proof.
  intro s. unfold fade_start, clampZ. change 0 with (inject_Z 0). change 255 with (inject_Z 255).
  rewrite <- !Zle_Qle. lia.
Qed.

Lemma chan_app : forall i a b, chan i (a ++ b) = chan i a ++ chan i b.
Proof. intros. unfold chan. apply map_app. Qed.

Lemma last_snoc : forall (l : list Z) x d, last (l ++ [x]) d = x.
Proof. intros. apply last_last. Qed.

Lemma fade_in_spec : forall s stp d s' e r,
  step s (FadeIn stp d) = (s', e, Ok r) ->
  let b0 := clampZ 0 255 (bright s) in
  let lv := chan 0 (levels e) in
  let n := (length lv - 1)%nat in
  s' = mkLed (pin s) true 255 /\
  mono_le (b0 :: lv) /\
  Forall (fun z => (0 <= z <= 255)%Z) lv /\
  last lv 0%Z = 255%Z /\
  sleeps e = repeat (qval d) n /\
  qsum (sleeps e) == inject_Z (Z.of_nat n) * qval d /\
  Z.of_nat n = Qceiling ((255 - inject_Z b0) / qval stp) /\
  0 < qval stp /\ 0 <= qval d.
Proof.
  intros s stp d s' e r H. cbn [step] in H. unfold fade_in in H.
  destruct (num_le stp 0) as [[|]|] eqn:Es; cbn [reject_if] in H; try discriminate.
  destruct (num_lt d 0) as [[|]|] eqn:Ed; cbn [reject_if] in H; try discriminate.
  pose proof (num_le_false_pos _ Es) as Hstp. pose proof (num_lt_false_nonneg _ Ed) as Hd.
  destruct (fade_start_range s) as [Hc0 Hc255].
  rewrite (fade_in_loop_eq (qval stp) (qval d)) in H by lra.
  rewrite andthen_ok in H. change (set_brightness ?x (PI 255)) with (on x) in H.
  rewrite on_eq in H. cbn [st evs res fst snd pin] in H.
  set (lv0 := fin_levels (fade_in_fuel (fade_start s) (qval stp)) (fade_start s) (qval stp)) in *.
  injection H as Hs He _. subst e.
  assert (Hlv : chan 0 (levels (fade_evs (qval d) lv0 ++ [Lvl [255%Z]])) = lv0 ++ [255%Z]).
  { rewrite levels_app, chan_app, fade_evs_levels. reflexivity. }
  cbv zeta. rewrite Hlv. rewrite sleeps_app, fade_evs_sleeps. cbn [sleeps]. rewrite app_nil_r.
  rewrite app_length. cbn [length]. replace (length lv0 + 1 - 1)%nat with (length lv0) by lia.
  pose proof (fin_levels_bounds (qval stp) ltac:(lra) (fade_in_fuel (fade_start s) (qval stp)) (fade_start s) Hc0) as HB.
  fold lv0 in HB. unfold fade_start in HB at 1. rewrite trunc_inject in HB.
  pose proof (fin_levels_mono (qval stp) ltac:(lra) (fade_in_fuel (fade_start s) (qval stp)) (fade_start s) Hc0) as HM.
  fold lv0 in HM.
  assert (Hb0 : (0 <= clampZ 0 255 (bright s) <= 255)%Z) by (unfold clampZ; lia).
  split; [|split; [|split; [|split; [|split; [|split; [|split; [|split]]]]]]].
  - rewrite <- Hs. destruct lv0; reflexivity.
  - change (clampZ 0 255 (bright s) :: lv0 ++ [255%Z]) with ((clampZ 0 255 (bright s) :: lv0) ++ [255%Z]).
    apply mono_le_snoc.
    + apply mono_le_cons; [|exact HM]. eapply Forall_impl; [|exact HB]. intros z Hz; cbn beta in Hz; lia.
    + constructor; [lia|]. eapply Forall_impl; [|exact HB]. intros z Hz; cbn beta in Hz; lia.
  - apply Forall_app. split.
    + eapply Forall_impl; [|exact HB]. intros z Hz; cbn beta in Hz; lia.
    + constructor; [lia|constructor].
  - apply last_snoc.
  - reflexivity.
  - apply qsum_repeat.
  - destruct (fin_levels_len (qval stp) Hstp (fade_in_fuel (fade_start s) (qval stp)) (fade_start s)) as [L0 L1].
    { unfold fade_in_fuel. apply fuel_enough. exact Hstp. }
    fold lv0 in L0, L1. fold (fade_start s).
    destruct (Qlt_le_dec (fade_start s) 255) as [Hlt|Hge].
    + specialize (L1 Hlt). cbv zeta in L1. destruct L1 as [L1 L2].
      symmetry. apply ceil_count; [exact Hstp| lra | lra].
    + rewrite (L0 Hge). cbn [length Z.of_nat]. symmetry. apply Qceiling_unique.
      * change (inject_Z 0) with 0. apply Qlt_le_trans with 0; [lra|].
        apply Qle_shift_div_l; [exact Hstp|lra].
      * change (inject_Z 0) with 0. apply Qle_shift_div_r; [exact Hstp|lra].
  - exact Hstp.
  - exact Hd.
Qed.

Lemma fade_out_spec : forall s stp d s' e r,
  step s (FadeOut stp d) = (s', e, Ok r) ->
  let b0 := clampZ 0 255 (bright s) in
  let lv := chan 0 (levels e) in
  let n := (length lv - 1)%nat in
  s' = mkLed (pin s) false 0 /\
  mono_ge (b0 :: lv) /\
  Forall (fun z => (0 <= z <= 255)%Z) lv /\
  last lv 255%Z = 0%Z /\
  sleeps e = repeat (qval d) n /\
  qsum (sleeps e) == inject_Z (Z.of_nat n) * qval d /\
  Z.of_nat n = Qceiling (inject_Z b0 / qval stp) /\
  0 < qval stp /\ 0 <= qval d.
Proof.
  intros s stp d s' e r H. cbn [step] in H. unfold fade_out in H.
  destruct (num_le stp 0) as [[|]|] eqn:Es; cbn [reject_if] in H; try discriminate.
  destruct (num_lt d 0) as [[|]|] eqn:Ed; cbn [reject_if] in H; try discriminate.
  pose proof (num_le_false_pos _ Es) as Hstp. pose proof (num_lt_false_nonneg _ Ed) as Hd.
  destruct (fade_start_range s) as [Hc0 Hc255].
  rewrite (fade_out_loop_eq (qval stp) (qval d)) in H by lra.
  rewrite andthen_ok in H. change (set_brightness ?x (PI 0)) with (off x) in H.
  rewrite off_eq in H. cbn [st evs res fst snd pin] in H.
  set (lv0 := fout_levels (fade_out_fuel (fade_start s) (qval stp)) (fade_start s) (qval stp)) in *.
  injection H as Hs He _. subst e.
  assert (Hlv : chan 0 (levels (fade_evs (qval d) lv0 ++ [Lvl [0%Z]])) = lv0 ++ [0%Z]).
  { rewrite levels_app, chan_app, fade_evs_levels. reflexivity. }
  cbv zeta. rewrite Hlv. rewrite sleeps_app, fade_evs_sleeps. cbn [sleeps]. rewrite app_nil_r.
  rewrite app_length. cbn [length]. replace (length lv0 + 1 - 1)%nat with (length lv0) by lia.
  pose proof (fout_levels_bounds (qval stp) ltac:(lra) (fade_out_fuel (fade_start s) (qval stp)) (fade_start s)) as HB.
  fold lv0 in HB. unfold fade_start in HB at 1. rewrite trunc_inject in HB.
  pose proof (fout_levels_mono (qval stp) ltac:(lra) (fade_out_fuel (fade_start s) (qval stp)) (fade_start s)) as HM.
  fold lv0 in HM.
  assert (Hb0 : (0 <= clampZ 0 255 (bright s) <= 255)%Z) by (unfold clampZ; lia).
  split; [|split; [|split; [|split; [|split; [|split; [|split; [|split]]]]]]].
  - rewrite <- Hs. destruct lv0; reflexivity.
  - change (clampZ 0 255 (bright s) :: lv0 ++ [0%Z]) with ((clampZ 0 255 (bright s) :: lv0) ++ [0%Z]).
    apply mono_ge_snoc.
    + apply mono_ge_cons; [|exact HM]. eapply Forall_impl; [|exact HB]. intros z Hz; cbn beta in Hz; lia.
    + constructor; [lia|]. eapply Forall_impl; [|exact HB]. intros z Hz; cbn beta in Hz; lia.
  - apply Forall_app. split.
    + eapply Forall_impl; [|exact HB]. intros z Hz; cbn beta in Hz; lia.
    + constructor; [lia|constructor].
  - apply last_snoc.
  - reflexivity.
  - apply qsum_repeat.
  - destruct (fout_levels_len (qval stp) Hstp (fade_out_fuel (fade_start s) (qval stp)) (fade_start s)) as [L0 L1].
    { unfold fade_out_fuel. apply fuel_enough. exact Hstp. }
    fold lv0 in L0, L1. fold (fade_start s).
    destruct (Qlt_le_dec 0 (fade_start s)) as [Hlt|Hge].
    + specialize (L1 Hlt). cbv zeta in L1. destruct L1 as [L1 L2].
      symmetry. apply ceil_count; [exact Hstp| lra | lra].
    + rewrite (L0 Hge). cbn [length Z.of_nat]. symmetry. apply Qceiling_unique.
      * change (inject_Z 0) with 0. apply Qlt_le_trans with 0; [lra|].
        apply Qle_shift_div_l; [exact Hstp|lra].
      * change (inject_Z 0) with 0. apply Qle_shift_div_r; [exact Hstp|lra].
  - exact Hstp.
  - exact Hd.
Qed.

(* ------------------------------------------------------------------ *)
(* flash_pattern                                                       *)
(* ------------------------------------------------------------------ *)
Lemma flash_entry_ok : forall s e, num_between 0 255 e = Some true ->
  exists b, (0 <= b <= 255)%Z /\
    (if num_eq e 0 then off s else if num_eq e 1 then on s else set_brightness s (PI (zval e)))
    = (lit_of (pin s) b, [Lvl [b]], Ok RNone).
Proof.
  intros s e H. destruct (num_eq e 0).
  - exists 0%Z. split; [lia|apply off_eq].
  - destruct (num_eq e 1).
    + exists 255%Z. split; [lia|apply on_eq].
    + exists (zval e). pose proof (between_zval _ H) as Hz. split; [exact Hz|].
      rewrite sb_ok by (apply between_PI; exact Hz). reflexivity.
Qed.

Lemma flash_loop_inv : forall p d s, Inv_led s -> Inv_led (st (flash_loop p d s)).
Proof.
  induction p as [|e rest IH]; intros d s Hs; [exact Hs|].
  cbn [flash_loop]. apply reject_if_st; [exact Hs|]. intro Hc.
  assert (Hb : num_between 0 255 e = Some true).
  { destruct (num_between 0 255 e) as [[|]|]; cbn in Hc; congruence. }
  destruct (flash_entry_ok s e Hb) as (b & Hb255 & Hcall). rewrite Hcall.
  apply andthen_st.
  - cbn [st fst]. apply inv_lit_of. exact Hb255.
  - intros s1 Hs1. destruct rest as [|e2 rest2]; [exact Hs1|].
    apply andthen_st; [exact Hs1|]. intros s2 Hs2. apply IH. exact Hs2.
Qed.

Lemma flash_loop_ok : forall p d s, forallb entry_ok p = true ->
  res (flash_loop p d s) = Ok RNone /\
  sleeps (evs (flash_loop p d s)) = repeat d (length p - 1) /\
  length (levels (evs (flash_loop p d s))) = length p.
Proof.
  induction p as [|e rest IH]; intros d s Hp; [repeat split|].
  cbn [forallb] in Hp. apply andb_true_iff in Hp as [He Hrest].
  assert (Hb : num_between 0 255 e = Some true).
  { unfold entry_ok in He. destruct (num_between 0 255 e) as [[|]|]; congruence. }
  cbn [flash_loop]. rewrite Hb. cbn [option_map negb reject_if].
  destruct (flash_entry_ok s e Hb) as (b & Hb255 & Hcall). rewrite Hcall.
  destruct rest as [|e2 rest2].
  - norm. cbn. repeat split.
  - specialize (IH d (lit_of (pin s) b) Hrest). destruct IH as (I1 & I2 & I3).
    norm. rewrite I1. cbn [length] in *.
    split; [reflexivity|]. split.
    + rewrite sleeps_app. cbn [sleeps app]. rewrite I2.
      replace (S (S (length rest2)) - 1)%nat with (S (S (length rest2) - 1)) by lia. reflexivity.
    + rewrite levels_app. cbn [levels app length]. rewrite I3. reflexivity.
Qed.

(* ------------------------------------------------------------------ *)
(* invariant                                                           *)
(* ------------------------------------------------------------------ *)
Lemma inv_init : forall p, Inv_led (init p).
Proof. intro p. split; cbn; [lia|reflexivity]. Qed.

Lemma inv_on : forall p, Inv_led (mkLed p true 255).
Proof. intro p. split; cbn; [lia|reflexivity]. Qed.

Lemma inv_off : forall p, Inv_led (mkLed p false 0).
Proof. intro p. split; cbn; [lia|reflexivity]. Qed.

Lemma step_inv : forall s o, Inv_led s -> Inv_led (st (step s o)).
Proof.
  intros s o Hs. destruct o as [| | | |v| |d t|a b|a b|p d]; cbn [step].
  - rewrite on_eq. apply inv_on.
  - rewrite off_eq. apply inv_off.
  - exact Hs.
  - exact Hs.
  - apply sb_inv. exact Hs.
  - unfold toggle. destruct (Led.lit s); [rewrite off_eq; apply inv_off | rewrite on_eq; apply inv_on].
  - unfold blink. apply reject_if_st; [exact Hs|]. intros _.
    apply reject_if_st; [exact Hs|]. intros _.
    destruct (range_count t) as [n|]; [|exact Hs].
    rewrite blink_loop_eq. cbn [st fst]. destruct (Z.to_nat n); [exact Hs|apply inv_off].
  - unfold fade_in. apply reject_if_st; [exact Hs|]. intros Es.
    apply reject_if_st; [exact Hs|]. intros _.
    pose proof (num_le_false_pos _ Es) as Hstp. destruct (fade_start_range s) as [Hc0 _].
    rewrite (fade_in_loop_eq (qval a) (qval b)) by lra.
    rewrite st_andthen_ok. change (set_brightness ?x (PI 255)) with (on x). rewrite on_eq. apply inv_on.
  - unfold fade_out. apply reject_if_st; [exact Hs|]. intros Es.
    apply reject_if_st; [exact Hs|]. intros _.
    pose proof (num_le_false_pos _ Es) as Hstp. destruct (fade_start_range s) as [_ Hc1].
    rewrite (fade_out_loop_eq (qval a) (qval b)) by lra.
    rewrite st_andthen_ok. change (set_brightness ?x (PI 0)) with (off x). rewrite off_eq. apply inv_off.
  - unfold flash_pattern. apply reject_if_st; [exact Hs|]. intros _. apply flash_loop_inv. exact Hs.
Qed.

Lemma run_inv : forall ops s, Inv_led s -> Inv_led (run s ops).
Proof.
  induction ops as [|o ops IH]; intros s Hs; [exact Hs|].
  cbn [run fold_left]. apply IH. apply step_inv. exact Hs.
Qed.

Lemma inv_reachable : forall p ops, Inv_led (run (init p) ops).
Proof. intros. apply run_inv, inv_init. Qed.

(* the invariant also holds at every intermediate level a method passes through *)
Lemma pin_constant : forall s o, pin (st (step s o)) = pin s.
Proof.
  intros s o. 
  assert (Hsb : forall s v, pin (st (set_brightness s v)) = pin s).
  { intros s0 v. destruct (sb_cases s0 v) as [[E _]|[k E]]; rewrite E; reflexivity. }
  assert (Hfl : forall p d s, pin (st (flash_loop p d s)) = pin s).
  { induction p as [|e rest IH]; intros d s0; [reflexivity|].
    cbn [flash_loop]. apply (reject_if_st (fun x => pin x = pin s0)); [reflexivity|]. intro Hc.
    assert (Hb : num_between 0 255 e = Some true).
    { destruct (num_between 0 255 e) as [[|]|]; cbn in Hc; congruence. }
    destruct (flash_entry_ok s0 e Hb) as (b & _ & Hcall). rewrite Hcall.
    apply (andthen_st (fun x => pin x = pin s0)); [reflexivity|].
    intros s1 Hs1. destruct rest as [|e2 rest2]; [exact Hs1|].
    apply (andthen_st (fun x => pin x = pin s0)); [exact Hs1|]. intros s2 Hs2. rewrite IH. exact Hs2. }
  destruct o as [| | | |v| |d t|a b|a b|p d]; cbn [step]; try reflexivity.
  - apply Hsb.
  - unfold toggle. destruct (Led.lit s); reflexivity.
  - unfold blink. apply (reject_if_st (fun x => pin x = pin s)); [reflexivity|]. intros _.
    apply (reject_if_st (fun x => pin x = pin s)); [reflexivity|]. intros _.
    destruct (range_count t) as [n|]; [|reflexivity].
    rewrite blink_loop_eq. cbn [st fst]. destruct (Z.to_nat n); reflexivity.
  - unfold fade_in. apply (reject_if_st (fun x => pin x = pin s)); [reflexivity|]. intros Es.
    apply (reject_if_st (fun x => pin x = pin s)); [reflexivity|]. intros _.
    pose proof (num_le_false_pos _ Es) as Hstp. destruct (fade_start_range s) as [Hc0 _].
    rewrite (fade_in_loop_eq (qval a) (qval b)) by lra.
    rewrite st_andthen_ok. change (set_brightness ?x (PI 255)) with (on x). rewrite on_eq.
    cbn [st fst pin]. destruct (fin_levels _ _ _); reflexivity.
  - unfold fade_out. apply (reject_if_st (fun x => pin x = pin s)); [reflexivity|]. intros Es.
    apply (reject_if_st (fun x => pin x = pin s)); [reflexivity|]. intros _.
    pose proof (num_le_false_pos _ Es) as Hstp. destruct (fade_start_range s) as [_ Hc1].
    rewrite (fade_out_loop_eq (qval a) (qval b)) by lra.
    rewrite st_andthen_ok. change (set_brightness ?x (PI 0)) with (off x). rewrite off_eq.
    cbn [st fst pin]. destruct (fout_levels _ _ _); reflexivity.
  - unfold flash_pattern. apply (reject_if_st (fun x => pin x = pin s)); [reflexivity|]. intros _. apply Hfl.
Qed.

(* ------------------------------------------------------------------ *)
(* atomicity of failing calls                                          *)
(* ------------------------------------------------------------------ *)
Lemma reject_if_raised : forall s c k s' e x,
  reject_if s c k = (s', e, Raised x) ->
  (s' = s /\ e = []) \/ (c = Some false /\ k s = (s', e, Raised x)).
Proof.
  intros s [[|]|] k s' e x H; cbn in H.
  - left. injection H as <- <- _. auto.
  - right. auto.
  - left. injection H as <- <- _. auto.
Qed.

Lemma failed_call_atomic : forall s o s' e k,
  scalar_args o = true -> step s o = (s', e, Raised k) -> s' = s /\ e = [].
Proof.
  intros s o s' e k Hsc H.
  destruct o as [| | | |v| |d t|a b|a b|p d]; cbn [step] in H.
  - rewrite on_eq in H. discriminate.
  - rewrite off_eq in H. discriminate.
  - discriminate.
  - discriminate.
  - destruct (sb_cases s v) as [[E _]|[k' E]]; rewrite E in H; [discriminate|].
    injection H as <- <- _. auto.
  - unfold toggle in H. destruct (Led.lit s); [rewrite off_eq in H|rewrite on_eq in H]; discriminate.
  - unfold blink in H. apply reject_if_raised in H as [H|[_ H]]; [exact H|].
    apply reject_if_raised in H as [H|[_ H]]; [exact H|].
    destruct (range_count t) as [n|].
    + rewrite blink_loop_eq in H. discriminate.
    + injection H as <- <- _. auto.
  - unfold fade_in in H. apply reject_if_raised in H as [H|[Es H]]; [exact H|].
    apply reject_if_raised in H as [H|[_ H]]; [exact H|].
    pose proof (num_le_false_pos _ Es) as Hstp. destruct (fade_start_range s) as [Hc0 _].
    rewrite (fade_in_loop_eq (qval a) (qval b)) in H by lra.
    rewrite andthen_ok in H. change (set_brightness ?x (PI 255)) with (on x) in H.
    rewrite on_eq in H. discriminate.
  - unfold fade_out in H. apply reject_if_raised in H as [H|[Es H]]; [exact H|].
    apply reject_if_raised in H as [H|[_ H]]; [exact H|].
    pose proof (num_le_false_pos _ Es) as Hstp. destruct (fade_start_range s) as [_ Hc1].
    rewrite (fade_out_loop_eq (qval a) (qval b)) in H by lra.
    rewrite andthen_ok in H. change (set_brightness ?x (PI 0)) with (off x) in H.
    rewrite off_eq in H. discriminate.
  - unfold flash_pattern in H. apply reject_if_raised in H as [H|[_ H]]; [exact H|].
    cbn [scalar_args] in Hsc. destruct (flash_loop_ok p (qval d) s Hsc) as [Hr _].
    rewrite H in Hr. discriminate.
Qed.

Lemma flash_loop_ok_entries : forall p q s r,
  res (flash_loop p q s) = Ok r -> forallb entry_ok p = true.
Proof.
  induction p as [|x rest IH]; intros q s r H; [reflexivity|].
  cbn [flash_loop] in H. cbn [forallb]. unfold entry_ok at 1.
  destruct (num_between 0 255 x) as [[|]|] eqn:Eb; cbn [option_map negb reject_if] in H;
    try (cbn in H; discriminate).
  cbn [andb]. destruct (flash_entry_ok s x Eb) as (b & _ & Hcall). rewrite Hcall in H.
  rewrite res_andthen_ok in H. destruct rest as [|x2 rest2]; [reflexivity|].
  unfold sleep in H. rewrite res_andthen_ok in H.
  exact (IH q _ r H).
Qed.

Lemma flash_pattern_spec : forall s p d s' e r,
  step s (FlashPattern p d) = (s', e, Ok r) ->
  forallb entry_ok p = true /\
  sleeps e = repeat (qval d) (length p - 1) /\
  length (levels e) = length p /\ 0 <= qval d.
Proof.
  intros s p d s' e r H. cbn [step] in H. unfold flash_pattern in H.
  destruct (num_lt d 0) as [[|]|] eqn:Ed; cbn [reject_if] in H; try discriminate.
  pose proof (num_lt_false_nonneg _ Ed) as Hd.
  assert (Hp : forallb entry_ok p = true).
  { apply (flash_loop_ok_entries p (qval d) s r). rewrite H. reflexivity. }
  destruct (flash_loop_ok p (qval d) s Hp) as (_ & I2 & I3).
  rewrite H in I2, I3. cbn [evs fst snd] in I2, I3. auto.
Qed.

(* ------------------------------------------------------------------ *)
(* final forms used by Props/C19_led.v                                 *)
(* ------------------------------------------------------------------ *)
Lemma clamp_inv : forall s, Inv_led s -> clampZ 0 255 (bright s) = bright s.
Proof. intros s [H _]. unfold clampZ. lia. Qed.

Lemma failed_call_atomic_run : forall p ops o s' e k,
  scalar_args o = true -> step (run (init p) ops) o = (s', e, Raised k) ->
  s' = run (init p) ops /\ e = [].
Proof. intros p ops o s' e k. apply failed_call_atomic. Qed.

Lemma led_blink_final : forall s d t s' e r,
  step s (Blink d t) = (s', e, Ok r) ->
  qsum (sleeps e) == 2 * qval t * qval d /\
  sleeps e = repeat (qval d) (2 * Z.to_nat (zval t)) /\
  chan 0 (levels e) = concat (repeat [255%Z; 0%Z] (Z.to_nat (zval t))) /\
  s' = mkLed (pin s) false 0.
Proof.
  intros s d t s' e r H. destruct (blink_spec _ _ _ _ _ _ H) as (H1 & H2 & H3 & H4 & _). auto.
Qed.

Lemma led_fade_in_final : forall s stp d s' e r,
  Inv_led s -> step s (FadeIn stp d) = (s', e, Ok r) ->
  let lv := chan 0 (levels e) in
  let n := (length lv - 1)%nat in
  s' = mkLed (pin s) true 255 /\
  mono_le (bright s :: lv) /\
  Forall (fun z => (0 <= z <= 255)%Z) lv /\
  last lv 0%Z = 255%Z /\
  sleeps e = repeat (qval d) n /\
  qsum (sleeps e) == inject_Z (Z.of_nat n) * qval d /\
  Z.of_nat n = Qceiling ((255 - inject_Z (bright s)) / qval stp).
Proof.
  intros s stp d s' e r Hinv H. pose proof (fade_in_spec _ _ _ _ _ _ H) as S.
  cbv zeta in S. rewrite (clamp_inv _ Hinv) in S. cbv zeta. tauto.
Qed.

Lemma led_fade_out_final : forall s stp d s' e r,
  Inv_led s -> step s (FadeOut stp d) = (s', e, Ok r) ->
  let lv := chan 0 (levels e) in
  let n := (length lv - 1)%nat in
  s' = mkLed (pin s) false 0 /\
  mono_ge (bright s :: lv) /\
  Forall (fun z => (0 <= z <= 255)%Z) lv /\
  last lv 255%Z = 0%Z /\
  sleeps e = repeat (qval d) n /\
  qsum (sleeps e) == inject_Z (Z.of_nat n) * qval d /\
  Z.of_nat n = Qceiling (inject_Z (bright s) / qval stp).
Proof.
  intros s stp d s' e r Hinv H. pose proof (fade_out_spec _ _ _ _ _ _ H) as S.
  cbv zeta in S. rewrite (clamp_inv _ Hinv) in S. cbv zeta. tauto.
Qed.

Lemma led_flash_final : forall s p d s' e r,
  step s (FlashPattern p d) = (s', e, Ok r) ->
  sleeps e = repeat (qval d) (length p - 1) /\ length (levels e) = length p.
Proof.
  intros s p d s' e r H. destruct (flash_pattern_spec _ _ _ _ _ _ H) as (_ & H1 & H2 & _). auto.
Qed.

Lemma led_toggle_final : forall s, Inv_led s ->
  Led.lit (st (step s Toggle)) = negb (Led.lit s) /\
  bright (st (step s Toggle)) = (if Led.lit s then 0 else 255)%Z.
Proof.
  intros s _. cbn [step]. unfold toggle. destruct (Led.lit s); [rewrite off_eq|rewrite on_eq]; auto.
Qed.

Lemma led_getters_final : forall s,
  step s GetState = (s, [], Ok (RBool (Led.lit s))) /\
  step s GetBrightness = (s, [], Ok (RInt (bright s))).
Proof. intro s. split; reflexivity. Qed.
