(* Proofs about the lexical layer (Lang/Lex.v) against Python's layout rules (Lang/PyLayout.v)
   and the re-layout relation (Lang/Layout.v). *)
From Coq Require Import ZArith List Bool Lia Arith.
From RV Require Import Base.Wire Base.Text Lang.Lex Lang.PyLayout Lang.Layout.
Import ListNotations.
Open Scope Z_scope.

(* ================================================================ 1. comments *)

Inductive st_rel : pystate -> bool -> bool -> bool -> Prop :=
| R_code : st_rel PCode false false false
| R_s : st_rel (PStr 39 false) true false false
| R_d : st_rel (PStr 34 false) false true false
| R_se : st_rel (PStrEsc 39 false) true false true
| R_de : st_rel (PStrEsc 34 false) false true true.

Lemma ntq_tail c r : no_triple_quote (c :: r) = true -> no_triple_quote r = true.
Proof. cbn [no_triple_quote]. intro H. apply andb_true_iff in H. tauto. Qed.

Lemma sic_py_agree : forall t st s d e,
  st_rel st s d e ->
  no_triple_quote t = true -> no_code_backslash st t = true ->
  sic_cut s d e t = py_cut st t.
Proof.
  induction t as [|c r IH]; intros st s d e HR Hq Hb; [destruct HR; reflexivity|].
  pose proof (ntq_tail _ _ Hq) as Hq'.
  destruct HR.
  - (* code *)
    cbn [sic_cut py_cut no_code_backslash] in *.
    unfold ch_bslash, ch_squote, ch_dquote, ch_hash, is_quote in *.
    destruct (Z.eqb_spec c 35) as [->|N35]; [reflexivity|].
    destruct (Z.eqb_spec c 92) as [->|N92]; [discriminate|].
    destruct (Z.eqb_spec c 39) as [->|N39].
    + cbn [andb negb orb].
      assert (Hn : match r with c1 :: c2 :: _ => (c1 =? 39) && (c2 =? 39) | _ => false end = false).
      { cbn [no_triple_quote] in Hq. unfold is_quote in Hq. cbn in Hq.
        apply andb_true_iff in Hq as [Hq _]. apply negb_true_iff in Hq. exact Hq. }
      cbn in Hb.
      rewrite (IH (PStr 39 false) true false false R_s Hq' Hb).
      destruct r as [|c1 [|c2 r']]; try reflexivity. rewrite Hn. reflexivity.
    + destruct (Z.eqb_spec c 34) as [->|N34].
      * cbn [andb negb orb].
        assert (Hn : match r with c1 :: c2 :: _ => (c1 =? 34) && (c2 =? 34) | _ => false end = false).
        { cbn [no_triple_quote] in Hq. unfold is_quote in Hq. cbn in Hq.
          apply andb_true_iff in Hq as [Hq _]. apply negb_true_iff in Hq. exact Hq. }
        cbn in Hb.
        rewrite (IH (PStr 34 false) false true false R_d Hq' Hb).
        destruct r as [|c1 [|c2 r']]; try reflexivity. rewrite Hn. reflexivity.
      * cbn [andb negb orb] in *.
        rewrite (IH PCode false false false R_code Hq' Hb). reflexivity.
  - (* in '...' *)
    cbn [sic_cut py_cut no_code_backslash] in *.
    unfold ch_bslash, ch_squote, ch_dquote, ch_hash in *.
    destruct (Z.eqb_spec c 92) as [->|N92].
    + rewrite (IH (PStrEsc 39 false) true false true R_se Hq' Hb). reflexivity.
    + destruct (Z.eqb_spec c 39) as [->|N39].
      * cbn [andb negb]. rewrite (IH PCode false false false R_code Hq' Hb). reflexivity.
      * cbn [andb negb]. rewrite !andb_false_r.
        rewrite (IH (PStr 39 false) true false false R_s Hq' Hb). reflexivity.
  - (* in "..." *)
    cbn [sic_cut py_cut no_code_backslash] in *.
    unfold ch_bslash, ch_squote, ch_dquote, ch_hash in *.
    destruct (Z.eqb_spec c 92) as [->|N92].
    + rewrite (IH (PStrEsc 34 false) false true true R_de Hq' Hb). reflexivity.
    + destruct (Z.eqb_spec c 34) as [->|N34].
      * cbn [andb negb]. rewrite (IH PCode false false false R_code Hq' Hb). reflexivity.
      * cbn [andb negb]. rewrite !andb_false_r.
        destruct (Z.eqb_spec c 39) as [->|N39]; cbn [andb negb];
        rewrite ?andb_false_r; rewrite (IH (PStr 34 false) false true false R_d Hq' Hb); reflexivity.
  - cbn [sic_cut py_cut no_code_backslash] in *.
    rewrite (IH (PStr 39 false) true false false R_s Hq' Hb). reflexivity.
  - cbn [sic_cut py_cut no_code_backslash] in *.
    rewrite (IH (PStr 34 false) false true false R_d Hq' Hb). reflexivity.
Qed.

(* _strip_inline_comment removes exactly Python's comment (and then trailing blanks - but only
   when there was a comment) *)
Lemma strip_comment_correct : forall line,
  no_triple_quote line = true -> no_code_backslash PCode line = true ->
  strip_inline_comment line = if py_has_comment line then rstrip (py_strip_comment line) else line.
Proof.
  intros line Hq Hb. unfold strip_inline_comment, py_has_comment, py_strip_comment.
  rewrite (sic_py_agree line PCode false false false R_code Hq Hb).
  destruct (py_cut PCode line); reflexivity.
Qed.

Lemma rstrip_idem t : rstrip (rstrip t) = rstrip t.
Proof.
  induction t as [|c r IH]; [reflexivity|].
  cbn [rstrip]. destruct (is_space c && is_nil (rstrip r)) eqn:E; [reflexivity|].
  cbn [rstrip]. rewrite IH, E. reflexivity.
Qed.

Lemma strip_comment_correct_stripped : forall line,
  no_triple_quote line = true -> no_code_backslash PCode line = true ->
  rstrip (strip_inline_comment line) = rstrip (py_strip_comment line).
Proof.
  intros line Hq Hb. rewrite (strip_comment_correct line Hq Hb).
  unfold py_has_comment, py_strip_comment. destruct (py_cut PCode line); [apply rstrip_idem|reflexivity].
Qed.

(* ================================================================ 2. indentation *)

Lemma indent_space_py : forall l col, lead_all 32 l = true -> py_indent_from col l = (col + indent_of l)%nat.
Proof.
  induction l as [|c r IH]; intros col H; cbn [py_indent_from indent_of]; [lia|].
  cbn [lead_all] in H. unfold py_ws, ch_space, ch_tab in *.
  destruct (Z.eqb_spec c 32) as [->|N32].
  - cbn in H. rewrite (IH (S col) H). lia.
  - destruct (Z.eqb_spec c 9) as [->|N9]; [cbn in H; discriminate|]. lia.
Qed.

Lemma indent_tab_py : forall l k, lead_all 9 l = true -> py_indent_from (8 * k) l = (8 * k + 2 * indent_of l)%nat.
Proof.
  induction l as [|c r IH]; intros k H; cbn [py_indent_from indent_of]; [lia|].
  cbn [lead_all] in H. unfold py_ws, ch_space, ch_tab in *.
  destruct (Z.eqb_spec c 32) as [->|N32]; [cbn in H; discriminate|].
  destruct (Z.eqb_spec c 9) as [->|N9]; [|lia].
  cbn in H.
  replace ((8 * k / 8 + 1) * 8)%nat with (8 * (k + 1))%nat.
  - rewrite (IH (k + 1)%nat H). lia.
  - rewrite (Nat.mul_comm 8 k), Nat.div_mul by lia. lia.
Qed.

Lemma py_indent_space l : lead_all 32 l = true -> py_indent l = indent_of l.
Proof. intro H. unfold py_indent. rewrite (indent_space_py l 0%nat H). lia. Qed.
Lemma py_indent_tab l : lead_all 9 l = true -> py_indent l = (2 * indent_of l)%nat.
Proof. intro H. unfold py_indent. change 0%nat with (8 * 0)%nat. rewrite (indent_tab_py l 0%nat H). lia. Qed.

(* pure-space or pure-tab indentation: _indent_of orders lines exactly as Python does *)
Lemma indent_order : forall a b,
  (lead_all 32 a && lead_all 32 b) || (lead_all 9 a && lead_all 9 b) = true ->
  Nat.compare (indent_of a) (indent_of b) = Nat.compare (py_indent a) (py_indent b).
Proof.
  intros a b H. apply orb_true_iff in H as [H|H]; apply andb_true_iff in H as [Ha Hb].
  - rewrite (py_indent_space a Ha), (py_indent_space b Hb). reflexivity.
  - rewrite (py_indent_tab a Ha), (py_indent_tab b Hb).
    destruct (Nat.compare_spec (indent_of a) (indent_of b)) as [E|E|E]; symmetry.
    + apply Nat.compare_eq_iff. lia.
    + apply Nat.compare_lt_iff. lia.
    + apply Nat.compare_gt_iff. lia.
Qed.

(* ================================================================ 3. _collect_block = Python's block *)

Lemma plain_blank_lskip : forall l, plain_ws l = true -> is_blank l = true -> py_lskip l = [].
Proof.
  induction l as [|c r IH]; intros Hp Hb; [reflexivity|].
  cbn [plain_ws forallb is_blank py_lskip] in *.
  apply andb_true_iff in Hp as [Hc Hp]. apply andb_true_iff in Hb as [Hs Hb].
  rewrite Hs in Hc. cbn in Hc. rewrite Hc. apply IH; assumption.
Qed.

Lemma plain_nonblank_lskip : forall l, plain_ws l = true -> is_blank l = false ->
  exists c r, py_lskip l = c :: r /\ py_ws c = false /\ is_space c = false.
Proof.
  induction l as [|c r IH]; intros Hp Hb; [discriminate|].
  cbn [plain_ws forallb is_blank py_lskip] in *.
  apply andb_true_iff in Hp as [Hc Hp].
  destruct (py_ws c) eqn:Ew.
  - assert (Hs : is_space c = true).
    { unfold py_ws in Ew. apply orb_true_iff in Ew as [E|E]; apply Z.eqb_eq in E; subst; reflexivity. }
    rewrite Hs in Hb. cbn in Hb. apply IH; assumption.
  - exists c, r. split; [reflexivity|]. split; [exact Ew|].
    destruct (is_space c); [cbn in Hc; discriminate|reflexivity].
Qed.

(* under plain_ws, str.lstrip and Python's own skipping of layout characters coincide *)
Lemma plain_lstrip : forall l, plain_ws l = true -> lstrip l = py_lskip l.
Proof.
  induction l as [|c r IH]; intro Hp; [reflexivity|].
  cbn [plain_ws forallb lstrip py_lskip] in *. apply andb_true_iff in Hp as [Hc Hp].
  destruct (is_space c) eqn:Es.
  - cbn in Hc. rewrite Hc. apply IH. exact Hp.
  - destruct (py_ws c) eqn:Ew; [|reflexivity].
    unfold py_ws in Ew. apply orb_true_iff in Ew as [E|E]; apply Z.eqb_eq in E; subst; discriminate.
Qed.

(* a line is junk for _collect_block exactly when it is not a logical line of Python *)
Lemma plain_junk_logical : forall l, plain_ws l = true -> junk l = negb (py_logical l).
Proof.
  intros l Hp. unfold junk, comment_only, py_logical. rewrite (plain_lstrip l Hp).
  destruct (is_blank l) eqn:Eb.
  - rewrite (plain_blank_lskip l Hp Eb). reflexivity.
  - destruct (plain_nonblank_lskip l Hp Eb) as (c & q & Hs & _ & _). rewrite Hs.
    cbn [orb starts_hash]. unfold ch_hash. rewrite negb_involutive. reflexivity.
Qed.

Section BlockProof.
  Variable k : nat.              (* 1 for space-indented scripts, 2 for tab-indented ones *)
  Hypothesis k_pos : (0 < k)%nat.

  Lemma take_block_py : forall ls bm,
    Forall (fun l => plain_ws l = true) ls ->
    Forall (fun l => is_blank l = false -> py_indent l = (k * indent_of l)%nat) ls ->
    take_block bm ls = py_take (k * bm) ls.
  Proof.
    induction ls as [|l r IH]; intros bm Hp Hk; [reflexivity|].
    inversion Hp as [|? ? Hpl Hpr]; subst. inversion Hk as [|? ? Hkl Hkr]; subst.
    cbn [take_block py_take]. rewrite (plain_junk_logical l Hpl).
    destruct (py_logical l) eqn:El; cbn [negb andb].
    - assert (Eb : is_blank l = false).
      { destruct (is_blank l) eqn:E; [|reflexivity].
        unfold py_logical in El. rewrite (plain_blank_lskip l Hpl E) in El. discriminate. }
      rewrite (Hkl Eb).
      destruct (Nat.leb_spec (indent_of l) bm) as [Hle|Hgt];
        destruct (Nat.leb_spec (k * indent_of l) (k * bm)) as [Hle'|Hgt']; try nia; [reflexivity|].
      f_equal. apply IH; assumption.
    - f_equal. apply IH; assumption.
  Qed.
End BlockProof.

Lemma uniform_scale : forall lines, uniform_indent lines = true ->
  exists k, (0 < k)%nat /\ forall l, In l lines -> is_blank l = false -> py_indent l = (k * indent_of l)%nat.
Proof.
  intros lines H. unfold uniform_indent in H. apply orb_true_iff in H as [H|H]; rewrite forallb_forall in H.
  - exists 1%nat. split; [lia|]. intros l Hin Hb. specialize (H l Hin). rewrite Hb in H. cbn in H.
    rewrite (py_indent_space l H). lia.
  - exists 2%nat. split; [lia|]. intros l Hin Hb. specialize (H l Hin). rewrite Hb in H. cbn in H.
    apply (py_indent_tab l H).
Qed.

Lemma In_skipn {A} (x : A) n l : In x (skipn n l) -> In x l.
Proof.
  revert l; induction n as [|n IH]; intros l H; [exact H|].
  destruct l as [|a l]; [destruct H|]. right. apply IH. exact H.
Qed.

Lemma collect_block_is_py_block : forall lines start,
  block_guard lines start = true -> collect_block lines start = py_block lines start.
Proof.
  intros lines start G. unfold block_guard in G.
  repeat (apply andb_true_iff in G as [G ?]).
  rename H into Hlog, H0 into Hun, H1 into Hpl. apply Nat.ltb_lt in G.
  destruct (uniform_scale lines Hun) as (k & Kpos & Hk).
  rewrite forallb_forall in Hpl.
  set (hd := nth start lines []) in *.
  assert (Hin : In hd lines) by (apply nth_In; exact G).
  assert (Hnb : is_blank hd = false).
  { destruct (is_blank hd) eqn:E; [|reflexivity].
    unfold py_logical in Hlog. rewrite (plain_blank_lskip hd (Hpl hd Hin) E) in Hlog. discriminate. }
  assert (Hbase : py_indent hd = (k * indent_of hd)%nat) by (apply Hk; assumption).
  unfold collect_block, py_block. fold hd. rewrite Hbase.
  rewrite (take_block_py k Kpos (skipn (S start) lines) (indent_of hd)); [reflexivity| |].
  - apply Forall_forall. intros l Hl. apply Hpl. eapply In_skipn; exact Hl.
  - apply Forall_forall. intros l Hl. apply Hk. eapply In_skipn; exact Hl.
Qed.

(* in particular: the logical lines of the block are Python's, wherever the comment-only lines
   of the block stand (column 0 included) *)
Lemma collect_block_logical : forall lines start,
  block_guard lines start = true ->
  filter py_logical (fst (collect_block lines start)) = py_block_logical lines start.
Proof.
  intros lines start G. rewrite (collect_block_is_py_block lines start G). reflexivity.
Qed.
