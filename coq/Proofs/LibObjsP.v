(* Proofs about Tool/LibObjs.v (C14, growth round): the text of the library-object definitions,
   their initialisation lines, and the name -> current display object resolution. *)
From Coq Require Import ZArith QArith List Bool Lia.
From RV Require Import Base.Wire Base.Text Base.TextC Base.Num Proofs.NumCP Tool.Libs Proofs.LibsP Tool.LibObjs.
Import ListNotations.
Open Scope Z_scope.

(* ================================================================== identifiers *)
Definition base : text := [95; 95; 114; 101; 100; 117; 95; 108; 99; 100].   (* "__redu_lcd" *)

(* the digits between "__redu_lcd" and "_<name>" *)
Definition idx_digits (k : Z) : text := if k =? 0 then [] else str_Z (k + 1).

Lemma lcd_ident_shape k n : lcd_ident k n = base ++ idx_digits k ++ 95 :: n.
Proof.
  unfold lcd_ident, lcd_prefix, idx_digits, base. destruct (k =? 0).
  - reflexivity.
  - rewrite <- !app_assoc. reflexivity.
Qed.

Lemma str_Z_all_digits z : 0 <= z -> forallb is_digit (str_Z z) = true.
Proof.
  intro Hz. destruct (str_Z_digits z Hz) as [H _]. unfold all_digits in H.
  destruct (str_Z z); [discriminate | exact H].
Qed.

Lemma idx_digits_digits k : 0 <= k -> forallb is_digit (idx_digits k) = true.
Proof.
  intro Hk. unfold idx_digits. destruct (k =? 0); [reflexivity | apply str_Z_all_digits; lia].
Qed.

(* two digit strings followed by '_' : the first non-digit is in the same place *)
Lemma digits_split (d d' n n' : text) :
  forallb is_digit d = true -> forallb is_digit d' = true ->
  d ++ 95 :: n = d' ++ 95 :: n' -> d = d' /\ n = n'.
Proof.
  revert d'. induction d as [| c r IH]; intros [| c' r'] Hd Hd' E; cbn [app] in E.
  - injection E as E. auto.
  - injection E as Ec _. subst c'. cbn in Hd'. discriminate.
  - injection E as Ec _. subst c. cbn in Hd. discriminate.
  - injection E as Ec E. subst c'.
    cbn [forallb] in Hd, Hd'. apply andb_true_iff in Hd as [_ Hd]. apply andb_true_iff in Hd' as [_ Hd'].
    destruct (IH _ Hd Hd' E) as [-> ->]. auto.
Qed.

Lemma idx_digits_inj k k' : 0 <= k -> 0 <= k' -> idx_digits k = idx_digits k' -> k = k'.
Proof.
  intros Hk Hk' E. unfold idx_digits in E.
  destruct (k =? 0) eqn:Ek; destruct (k' =? 0) eqn:Ek'.
  - apply Z.eqb_eq in Ek, Ek'. lia.
  - apply Z.eqb_neq in Ek'. assert (H : 0 <= k' + 1) by lia.
    destruct (str_Z_digits _ H) as [_ D]. rewrite <- E in D. cbn in D. lia.
  - apply Z.eqb_neq in Ek. assert (H : 0 <= k + 1) by lia.
    destruct (str_Z_digits _ H) as [_ D]. rewrite E in D. cbn in D. lia.
  - assert (H : 0 <= k + 1) by lia. assert (H' : 0 <= k' + 1) by lia.
    destruct (str_Z_digits _ H) as [_ D]. destruct (str_Z_digits _ H') as [_ D'].
    rewrite E in D. lia.
Qed.

(* distinct (index, name) pairs are distinct C++ identifiers - for arbitrary name texts *)
Theorem lcd_ident_inj k n k' n' :
  0 <= k -> 0 <= k' -> lcd_ident k n = lcd_ident k' n' -> k = k' /\ n = n'.
Proof.
  intros Hk Hk' E. rewrite !lcd_ident_shape in E. apply app_inv_head in E.
  destruct (digits_split _ _ _ _ (idx_digits_digits k Hk) (idx_digits_digits k' Hk') E) as [Ed En].
  split; [apply idx_digits_inj; assumption | exact En].
Qed.

(* ================================================================== counting names *)
Lemma count_t_nonneg x l : 0 <= count_t x l.
Proof. induction l as [| y r IH]; cbn [count_t]; [lia |]. destruct (text_eqb x y); lia. Qed.

Lemma count_t_app x a b : count_t x (a ++ b) = count_t x a + count_t x b.
Proof. induction a as [| y r IH]; cbn [count_t app]; [lia |]. rewrite IH. lia. Qed.

Lemma count_t_cons_same x l : count_t x (x :: l) = 1 + count_t x l.
Proof. cbn [count_t]. now rewrite text_eqb_refl. Qed.

Lemma count_t_cons_le x y l : count_t x l <= count_t x (y :: l).
Proof. cbn [count_t]. destruct (text_eqb x y); lia. Qed.

Lemma count_t_cons_other x y l : x <> y -> count_t x (y :: l) = count_t x l.
Proof.
  intro H. cbn [count_t]. destruct (text_eqb x y) eqn:E; [apply text_eqb_eq in E; contradiction | lia].
Qed.

(* ================================================================== pass 1: the definitions *)
Definition def_key (dk : lcdd * Z) : text * Z := (l_name (fst dk), snd dk).
Definition def_ident (dk : lcdd * Z) : text := lcd_ident (snd dk) (l_name (fst dk)).

Lemma lcd_defs_index_ge seen l dk :
  In dk (lcd_defs_from seen l) -> count_t (l_name (fst dk)) seen <= snd dk.
Proof.
  revert seen. induction l as [| x r IH]; intros seen Hin; [destruct Hin |].
  destruct x; cbn [lcd_defs_from] in Hin; try (apply IH; exact Hin).
  destruct Hin as [<- | Hin]; [cbn [fst snd]; lia |].
  specialize (IH _ Hin). pose proof (count_t_cons_le (l_name (fst dk)) (l_name d) seen). lia.
Qed.

Lemma lcd_defs_index_nonneg seen l dk : In dk (lcd_defs_from seen l) -> 0 <= snd dk.
Proof.
  intro H. apply lcd_defs_index_ge in H. pose proof (count_t_nonneg (l_name (fst dk)) seen). lia.
Qed.

Lemma lcd_defs_keys_nodup seen l : NoDup (map def_key (lcd_defs_from seen l)).
Proof.
  revert seen. induction l as [| x r IH]; intro seen; [constructor |].
  destruct x; cbn [lcd_defs_from map]; try apply IH.
  constructor; [| apply IH].
  intro Hin. apply in_map_iff in Hin as [dk [Hk Hin]].
  unfold def_key in Hk. cbn [fst snd] in Hk. injection Hk as Hn Hi.
  apply lcd_defs_index_ge in Hin. rewrite Hn, count_t_cons_same in Hin. lia.
Qed.

Lemma NoDup_map_inj_in {A B C} (f : A -> B) (g : A -> C) (l : list A) :
  (forall a b, In a l -> In b l -> g a = g b -> f a = f b) ->
  NoDup (map f l) -> NoDup (map g l).
Proof.
  induction l as [| a r IH]; intros Hinj Hnd; [constructor |].
  cbn [map] in *. inversion Hnd as [| ? ? Hnot Hnd']; subst. constructor.
  - intro Hin. apply in_map_iff in Hin as [b [Hb Hin]]. apply Hnot.
    apply in_map_iff. exists b. split; [| exact Hin].
    apply Hinj; [right; exact Hin | left; reflexivity | exact Hb].
  - apply IH; [| exact Hnd']. intros x y Hx Hy. apply Hinj; right; assumption.
Qed.

(* the objects of distinct declarations have distinct identifiers (as texts) *)
Lemma lcd_defs_idents_nodup seen l : NoDup (map def_ident (lcd_defs_from seen l)).
Proof.
  apply NoDup_map_inj_in with (f := def_key); [| apply lcd_defs_keys_nodup].
  intros a b Ha Hb E. unfold def_ident in E. unfold def_key.
  apply lcd_ident_inj in E; [destruct E as [-> ->]; reflexivity | |];
    eapply lcd_defs_index_nonneg; eassumption.
Qed.

(* scanning a concatenation *)
Lemma lcd_defs_from_app a : forall seen b,
  exists seen', lcd_defs_from seen (a ++ b) = lcd_defs_from seen a ++ lcd_defs_from seen' b /\
                forall x, count_t x seen' = count_t x (top_lcd_names a) + count_t x seen.
Proof.
  induction a as [| n r IH]; intros seen b.
  - exists seen. split; [reflexivity | intro x; cbn; lia].
  - destruct n; cbn [app lcd_defs_from top_lcd_names];
      try (destruct (IH seen b) as [s' [E C]]; exists s'; split; [exact E | exact C]).
    destruct (IH (l_name d :: seen) b) as [s' [E C]]. exists s'. split; [now rewrite E |].
    intro x. rewrite C. cbn [count_t]. lia.
Qed.

Lemma lcd_defs_from_count_ext l : forall s1 s2,
  (forall x, count_t x s1 = count_t x s2) -> lcd_defs_from s1 l = lcd_defs_from s2 l.
Proof.
  induction l as [| n r IH]; intros s1 s2 H; [reflexivity |].
  destruct n; cbn [lcd_defs_from]; try (apply IH; exact H).
  rewrite (H (l_name d)). f_equal. apply IH. intro x. cbn [count_t]. rewrite H. reflexivity.
Qed.

(* the declaration at a given place defines the object whose index is the number of earlier
   top-level declarations of its name *)
Theorem lcd_defs_at p pre d post :
  d_setup p = pre ++ ILcd d :: post ->
  In (d, count_t (l_name d) (top_lcd_names pre)) (lcd_defs p).
Proof.
  intro E. unfold lcd_defs. rewrite E.
  destruct (lcd_defs_from_app pre [] (ILcd d :: post)) as [s' [Es C]].
  rewrite Es. apply in_or_app. right. cbn [lcd_defs_from]. left.
  rewrite C. cbn [count_t]. now rewrite Z.add_0_r.
Qed.

(* and every definition comes from such a place *)
Theorem lcd_defs_origin l : forall seen dk,
  In dk (lcd_defs_from seen l) ->
  exists pre post, l = pre ++ ILcd (fst dk) :: post /\
                   snd dk = count_t (l_name (fst dk)) (top_lcd_names pre) + count_t (l_name (fst dk)) seen.
Proof.
  induction l as [| x r IH]; intros seen dk Hin; [destruct Hin |].
  assert (Hskip : In dk (lcd_defs_from seen r) -> top_lcd_names [x] = [] ->
                  exists pre post, x :: r = pre ++ ILcd (fst dk) :: post /\
                    snd dk = count_t (l_name (fst dk)) (top_lcd_names pre) + count_t (l_name (fst dk)) seen).
  { intros H Hx. destruct (IH _ _ H) as [pre [post [E C]]]. exists (x :: pre), post. split; [now rewrite E |].
    rewrite C. destruct x; cbn [top_lcd_names] in *; try reflexivity. discriminate. }
  destruct x; cbn [lcd_defs_from] in Hin.
  1, 3-6: (apply Hskip; [exact Hin | reflexivity]).
  destruct Hin as [<- | Hin].
  - exists [], r. cbn [fst snd app top_lcd_names count_t]. split; [reflexivity | lia].
  - destruct (IH _ _ Hin) as [pre [post [E C]]]. exists (ILcd d :: pre), post. split; [now rewrite E |].
    rewrite C. cbn [top_lcd_names count_t]. lia.
Qed.

(* ================================================================== globals_ *)
Lemma add_lines_In g ls l : In l (add_lines g ls) <-> In l g \/ In l ls.
Proof.
  revert g. induction ls as [| x r IH]; intro g; cbn [add_lines].
  - split; [auto | intros [H | []]; exact H].
  - rewrite IH. destruct (tmem x g) eqn:E.
    + apply tmem_In in E. cbn [In]. intuition (subst; auto).
    + rewrite in_app_iff. cbn [In]. intuition (subst; auto).
Qed.

Lemma add_lines_NoDup g ls : NoDup g -> NoDup (add_lines g ls).
Proof.
  revert g. induction ls as [| x r IH]; intros g Hg; cbn [add_lines]; [exact Hg |].
  apply IH. destruct (tmem x g) eqn:E; [exact Hg |].
  assert (Hx : ~ In x g) by (intro H; apply tmem_In in H; congruence).
  clear E. induction g as [| y g IHg]; cbn [app].
  - constructor; [intros [] | constructor].
  - inversion Hg as [| ? ? Hy Hg']; subst. constructor.
    + rewrite in_app_iff. intros [H | [H | []]]; [exact (Hy H) | apply Hx; left; now subst].
    + apply IHg; [exact Hg' | intro H; apply Hx; right; exact H].
Qed.

Lemma scan_globals_NoDup lcd l : forall seen g, NoDup g -> NoDup (scan_globals lcd seen g l).
Proof.
  induction l as [| x r IH]; intros seen g Hg; cbn [scan_globals]; [exact Hg |].
  destruct x; try (apply IH; exact Hg).
  - apply IH. apply add_lines_NoDup. exact Hg.
  - destruct lcd; apply IH; [apply add_lines_NoDup |]; exact Hg.
Qed.

Lemma scan_globals_In lcd l : forall seen g ln,
  In ln (scan_globals lcd seen g l) <->
  In ln g \/
  (exists d, In d (top_servos l) /\ ln = servo_obj_line (s_name d)) \/
  (lcd = true /\ exists dk, In dk (lcd_defs_from seen l) /\ In ln (lcd_global_lines (fst dk) (snd dk))).
Proof.
  induction l as [| x r IH]; intros seen g ln; cbn [scan_globals top_servos lcd_defs_from].
  - split; [auto |]. intros [H | [[d [[] _]] | [_ [dk [[] _]]]]]. exact H.
  - destruct x; try apply IH.
    + rewrite IH, add_lines_In. cbn [In]. split.
      * intros [[H | [H | []]] | [[d' [H1 H2]] | H]].
        -- left; exact H.
        -- right; left; exists d; split; [left; reflexivity | symmetry; exact H].
        -- right; left; exists d'; split; [right; exact H1 | exact H2].
        -- right; right; exact H.
      * intros [H | [[d' [[E | H1] H2]] | H]].
        -- left; left; exact H.
        -- left; right; left. subst d'. symmetry; exact H2.
        -- right; left; exists d'; split; assumption.
        -- right; right; exact H.
    + destruct lcd.
      * rewrite IH, add_lines_In. split.
        -- intros [[H | H] | [H | [_ [dk [H1 H2]]]]].
           ++ left; exact H.
           ++ right; right; split; [reflexivity |]. exists (d, count_t (l_name d) seen).
              split; [left; reflexivity | exact H].
           ++ right; left; exact H.
           ++ right; right; split; [reflexivity |]. exists dk. split; [right; exact H1 | exact H2].
        -- intros [H | [H | [_ [dk [[E | H1] H2]]]]].
           ++ left; left; exact H.
           ++ right; left; exact H.
           ++ left; right. subst dk. exact H2.
           ++ right; right; split; [reflexivity |]. exists dk; split; assumption.
      * rewrite IH. split; (intros [H | [H | [H _]]]; [left; exact H | right; left; exact H | discriminate]).
Qed.

Theorem lib_globals_NoDup p : NoDup (lib_globals p).
Proof. unfold lib_globals. apply scan_globals_NoDup. apply scan_globals_NoDup. constructor. Qed.

Lemma top_servos_app a b : top_servos (a ++ b) = top_servos a ++ top_servos b.
Proof.
  induction a as [| x r IH]; [reflexivity |]. destruct x; cbn [app top_servos]; try exact IH.
  now rewrite IH.
Qed.

(* every library-object line of globals_ is the object line of a scanned Servo declaration or
   one of the lines of a top-level LCD declaration of setup_body, and conversely *)
Theorem lib_globals_In p ln :
  In ln (lib_globals p) <->
  (exists d, In d (servo_decls p) /\ ln = servo_obj_line (s_name d)) \/
  (exists dk, In dk (lcd_defs p) /\ In ln (lcd_global_lines (fst dk) (snd dk))).
Proof.
  unfold lib_globals, servo_decls, lcd_defs. rewrite scan_globals_In, scan_globals_In. cbn [In]. split.
  - intros [[[] | [[d [H1 H2]] | [_ H]]] | [[d [H1 H2]] | [H _]]]; auto.
    + left. exists d. split; [apply in_or_app; left; exact H1 | exact H2].
    + left. exists d. split; [apply in_or_app; right; exact H1 | exact H2].
    + discriminate.
  - intros [[d [H1 H2]] | H].
    + apply in_app_or in H1 as [H1 | H1].
      * left. right. left. exists d. auto.
      * right. left. exists d. auto.
    + left. right. right. auto.
Qed.

(* ================================================================== setup_lines of pass 1 *)
Lemma fst_let {A B} (X : list A * B) l : fst (let '(o, a) := X in (l ++ o, a)) = l ++ fst X.
Proof. destruct X; reflexivity. Qed.
Lemma snd_let {A B} (X : list A * B) l : snd (let '(o, a) := X in (l ++ o, a)) = snd X.
Proof. destruct X; reflexivity. Qed.

Lemma lib_init_eq p :
  lib_init p = fst (scan_init true [] [] (d_setup p)) ++
               fst (scan_init false [] (snd (scan_init true [] [] (d_setup p))) (d_loop p)).
Proof.
  unfold lib_init. destruct (scan_init true [] [] (d_setup p)) as [o1 a1]. cbn [fst snd].
  destruct (scan_init false [] a1 (d_loop p)); reflexivity.
Qed.

Lemma scan_init_app lcd a : forall seen att b,
  exists seen',
    fst (scan_init lcd seen att (a ++ b)) =
      fst (scan_init lcd seen att a) ++ fst (scan_init lcd seen' (snd (scan_init lcd seen att a)) b) /\
    snd (scan_init lcd seen att (a ++ b)) = snd (scan_init lcd seen' (snd (scan_init lcd seen att a)) b) /\
    (forall x, count_t x seen' = (if lcd then count_t x (top_lcd_names a) else 0) + count_t x seen).
Proof.
  induction a as [| n r IH]; intros seen att b.
  - exists seen. cbn [app scan_init fst snd]. repeat split. intro x. destruct lcd; cbn; lia.
  - destruct n; cbn [app scan_init top_lcd_names]; try apply IH.
    + destruct (tmem (s_name d) att); [apply IH |].
      destruct (IH seen (s_name d :: att) b) as [s' [E1 [E2 C]]]. exists s'.
      rewrite !fst_let, !snd_let. rewrite E1, E2, <- app_assoc. repeat split. exact C.
    + destruct lcd; [| apply IH].
      destruct (IH (l_name d :: seen) att b) as [s' [E1 [E2 C]]]. exists s'.
      rewrite !fst_let, !snd_let. rewrite E1, E2, <- app_assoc. repeat split.
      intro x. rewrite C. cbn [count_t]. lia.
Qed.

Lemma scan_init_att lcd l : forall seen att x,
  In x (snd (scan_init lcd seen att l)) <-> In x att \/ In x (map s_name (top_servos l)).
Proof.
  induction l as [| n r IH]; intros seen att x; cbn [scan_init top_servos map snd In]; [tauto |].
  destruct n; try apply IH.
  - destruct (tmem (s_name d) att) eqn:E.
    + apply tmem_In in E. rewrite IH. cbn [map In]. intuition (subst; auto).
    + rewrite snd_let, IH. cbn [map In]. intuition (subst; auto).
  - destruct lcd; [rewrite snd_let |]; apply IH.
Qed.

(* every display declared before the main loop is initialised with a block of lines that names
   ITS object (index = earlier declarations of the name) and its own backlight pin *)
Theorem lcd_init_block p pre d post :
  d_setup p = pre ++ ILcd d :: post ->
  exists a b, lib_init p = a ++ lcd_init_lines d (count_t (l_name d) (top_lcd_names pre)) ++ b.
Proof.
  intro E. rewrite lib_init_eq, E.
  destruct (scan_init_app true pre [] [] (ILcd d :: post)) as [s' [E1 [_ C]]].
  rewrite E1. cbn [scan_init]. rewrite fst_let. rewrite C. cbn [count_t]. rewrite Z.add_0_r.
  rewrite <- !app_assoc. eexists. eexists. reflexivity.
Qed.

(* the first declaration of a servo name is attached with ITS pin and pulse bounds *)
Theorem servo_init_block_setup p pre d post :
  d_setup p = pre ++ IServo d :: post -> ~ In (s_name d) (map s_name (top_servos pre)) ->
  exists a b, lib_init p = a ++ servo_init_lines d ++ b.
Proof.
  intros E Hfirst. rewrite lib_init_eq, E.
  destruct (scan_init_app true pre [] [] (IServo d :: post)) as [s' [E1 _]].
  rewrite E1. cbn [scan_init].
  destruct (tmem (s_name d) (snd (scan_init true [] [] pre))) eqn:Em.
  - apply tmem_In in Em. apply scan_init_att in Em as [[] | Em]. contradiction.
  - rewrite fst_let. rewrite <- !app_assoc. eexists. eexists. reflexivity.
Qed.

Theorem servo_init_block_loop p pre d post :
  d_loop p = pre ++ IServo d :: post ->
  ~ In (s_name d) (map s_name (top_servos (d_setup p))) -> ~ In (s_name d) (map s_name (top_servos pre)) ->
  exists a b, lib_init p = a ++ servo_init_lines d ++ b.
Proof.
  intros E Hs Hfirst. rewrite lib_init_eq, E.
  destruct (scan_init_app false pre [] (snd (scan_init true [] [] (d_setup p))) (IServo d :: post)) as [s' [E1 _]].
  rewrite E1. cbn [scan_init].
  destruct (tmem (s_name d) (snd (scan_init false [] (snd (scan_init true [] [] (d_setup p))) pre))) eqn:Em.
  - apply tmem_In in Em. apply scan_init_att in Em as [Em | Em]; [| contradiction].
    apply scan_init_att in Em as [[] | Em]. contradiction.
  - rewrite fst_let. rewrite app_assoc.
    exists (fst (scan_init true [] [] (d_setup p)) ++
            fst (scan_init false [] (snd (scan_init true [] [] (d_setup p))) pre)). eexists. reflexivity.
Qed.

(* a servo name is attached once: no initialisation lines for a further declaration of the name *)
Theorem servo_attached_once lcd l : forall seen att d,
  In (s_name d) att -> scan_init lcd seen att (IServo d :: l) = scan_init lcd seen att l.
Proof.
  intros seen att d H. cbn [scan_init]. apply tmem_In in H. now rewrite H.
Qed.

(* ================================================================== class, header, library *)
Lemma erase_par seen l dk :
  In dk (lcd_defs_from seen l) -> l_i2c (fst dk) = false -> existsb is_par (map erase l) = true.
Proof.
  revert seen. induction l as [| x r IH]; intros seen Hin Hc; [destruct Hin |].
  cbn [map existsb]. destruct x; cbn [lcd_defs_from] in Hin;
    try (rewrite (IH _ Hin Hc); apply orb_true_r).
  destruct Hin as [<- | Hin].
  - cbn [fst] in Hc. cbn [erase]. rewrite Hc. reflexivity.
  - rewrite (IH _ Hin Hc). apply orb_true_r.
Qed.

Lemma erase_i2c seen l dk :
  In dk (lcd_defs_from seen l) -> l_i2c (fst dk) = true -> existsb is_i2c (map erase l) = true.
Proof.
  revert seen. induction l as [| x r IH]; intros seen Hin Hc; [destruct Hin |].
  cbn [map existsb]. destruct x; cbn [lcd_defs_from] in Hin;
    try (rewrite (IH _ Hin Hc); apply orb_true_r).
  destruct Hin as [<- | Hin].
  - cbn [fst] in Hc. cbn [erase]. rewrite Hc. reflexivity.
  - rewrite (IH _ Hin Hc). apply orb_true_r.
Qed.

Lemma erase_servo l d : In d (top_servos l) -> existsb is_servo (map erase l) = true.
Proof.
  induction l as [| x r IH]; intro Hin; [destruct Hin |].
  cbn [map existsb]. destruct x; cbn [top_servos] in Hin; try (rewrite (IH Hin); apply orb_true_r).
  reflexivity.
Qed.

Lemma par_erase_def seen l :
  existsb is_par (map erase l) = true -> exists dk, In dk (lcd_defs_from seen l) /\ l_i2c (fst dk) = false.
Proof.
  revert seen. induction l as [| x r IH]; intros seen H; [discriminate |].
  cbn [map existsb] in H. destruct x; cbn [erase is_par orb lcd_defs_from] in *;
    try (destruct (IH seen H) as [dk [H1 H2]]; exists dk; auto; fail).
  - destruct (l_i2c d) eqn:Ei.
    + cbn in H. destruct (IH (l_name d :: seen) H) as [dk [H1 H2]]. exists dk. split; [right; exact H1 | exact H2].
    + exists (d, count_t (l_name d) seen). split; [left; reflexivity | exact Ei].
Qed.

Lemma i2c_erase_def seen l :
  existsb is_i2c (map erase l) = true -> exists dk, In dk (lcd_defs_from seen l) /\ l_i2c (fst dk) = true.
Proof.
  revert seen. induction l as [| x r IH]; intros seen H; [discriminate |].
  cbn [map existsb] in H. destruct x; cbn [erase is_i2c orb lcd_defs_from] in *;
    try (destruct (IH seen H) as [dk [H1 H2]]; exists dk; auto; fail).
  - destruct (l_i2c d) eqn:Ei.
    + exists (d, count_t (l_name d) seen). split; [left; reflexivity | exact Ei].
    + cbn in H. destruct (IH (l_name d :: seen) H) as [dk [H1 H2]]. exists dk. split; [right; exact H1 | exact H2].
Qed.

Lemma servo_erase_decl l : existsb is_servo (map erase l) = true -> exists d, In d (top_servos l).
Proof.
  induction l as [| x r IH]; intro H; [discriminate |].
  cbn [map existsb] in H. destruct x; cbn [erase is_servo orb top_servos] in *;
    try (destruct (IH H) as [d' Hd]; exists d'; auto; fail).
  - exists d. left. reflexivity.
  - destruct (l_i2c d); cbn in H; destruct (IH H) as [d' Hd]; exists d'; exact Hd.
Qed.

Lemma In_headers h p :
  In h (headers p) <->
  match h with
  | HServo => servo_used p = true
  | HLiquidCrystal => par_used p = true
  | HWire | HLiquidCrystalI2C => i2c_used p = true
  end.
Proof.
  unfold headers. destruct (servo_used p), (par_used p), (i2c_used p), h; cbn;
    intuition (try discriminate; auto).
Qed.

(* the header(s) of the class of every defined object are among the #include lines *)
Theorem class_header_included p dk :
  In dk (lcd_defs p) -> incl (headers_of (class_of (fst dk))) (headers (erase_prog p)).
Proof.
  intros Hin h Hh. apply In_headers. unfold class_of in Hh. unfold lcd_defs in Hin.
  destruct (l_i2c (fst dk)) eqn:Ei; cbn [headers_of In] in Hh.
  - assert (Hu : i2c_used (erase_prog p) = true)
      by (rewrite i2c_used_top; cbn [erase_prog setup]; eapply erase_i2c; eassumption).
    destruct Hh as [<- | [<- | []]]; exact Hu.
  - destruct Hh as [<- | []]. rewrite par_used_top. cbn [erase_prog setup]. eapply erase_par; eassumption.
Qed.

Theorem servo_header_included p d : In d (servo_decls p) -> In HServo (headers (erase_prog p)).
Proof.
  intro Hin. apply In_headers. unfold servo_used, servo_decls in *. cbn [erase_prog setup loop].
  apply in_app_or in Hin as [H | H]; apply erase_servo in H; rewrite H; [reflexivity | apply orb_true_r].
Qed.

(* and no header is included without an object of its class being defined *)
Theorem header_has_object p h :
  In h (headers (erase_prog p)) ->
  match h with
  | HServo => exists d, In d (servo_decls p)
  | HLiquidCrystal => exists dk, In dk (lcd_defs p) /\ l_i2c (fst dk) = false
  | HWire | HLiquidCrystalI2C => exists dk, In dk (lcd_defs p) /\ l_i2c (fst dk) = true
  end.
Proof.
  intro H. apply In_headers in H. unfold lcd_defs, servo_decls.
  destruct h.
  - unfold servo_used in H. cbn [erase_prog setup loop] in H. apply orb_true_iff in H as [H | H];
      apply servo_erase_decl in H as [d Hd]; exists d; apply in_or_app; [left | right]; exact Hd.
  - rewrite par_used_top in H. apply par_erase_def. exact H.
  - rewrite i2c_used_top in H. apply i2c_erase_def. exact H.
  - rewrite i2c_used_top in H. apply i2c_erase_def. exact H.
Qed.

(* the object line starts with the class name and the identifier of that binding, followed by
   the constructor arguments of that declaration *)
Theorem lcd_obj_line_shape d k :
  lcd_obj_line d k =
  class_text (class_of d) ++ [32] ++ lcd_ident k (l_name d) ++ [40] ++ commas (lcd_ctor_args d) ++ [41; 59].
Proof. unfold lcd_obj_line, lcd_class, class_of. destruct (l_i2c d); reflexivity. Qed.

(* ================================================================== pass 2: name -> display object *)
Section ItemInd.
  Variable P : item -> Prop.
  Hypothesis Hservo : forall d, P (IServo d).
  Hypothesis Hlcd : forall d, P (ILcd d).
  Hypothesis Hother : P IOther.
  Hypothesis Hplain : P IPlain.
  Hypothesis Hcmd : forall n, P (ICmd n).
  Hypothesis Hblock : forall bl, Forall (Forall P) bl -> P (IBlock bl).

  Fixpoint item_ind' (it : item) : P it :=
    let fix go (l : list item) : Forall P l :=
      match l with [] => Forall_nil _ | x :: r => Forall_cons _ (item_ind' x) (go r) end in
    let fix gos (ls : list (list item)) : Forall (Forall P) ls :=
      match ls with [] => Forall_nil _ | l :: r => Forall_cons _ (go l) (gos r) end in
    match it with
    | IServo d => Hservo d
    | ILcd d => Hlcd d
    | IOther => Hother
    | IPlain => Hplain
    | ICmd n => Hcmd n
    | IBlock bl => Hblock bl (gos bl)
    end.
End ItemInd.

Lemma thread_cons {A S O} (f : S -> A -> list O * S) st x r :
  thread f st (x :: r) = let '(o, s) := f st x in let '(o', s') := thread f s r in (o ++ o', s').
Proof. reflexivity. Qed.

(* a step that leaves the state alone on every element: the outputs are concatenated *)
Lemma thread_pure {A S O} (f : S -> A -> list O * S) (g : A -> list O) st l :
  Forall (fun x => f st x = (g x, st)) l -> thread f st l = (flat_map g l, st).
Proof.
  induction 1 as [| x r Hx _ IH]; [reflexivity |].
  rewrite thread_cons, Hx, IH. reflexivity.
Qed.

(* the entries of lcd_state agree with the reference: a name declared c > 0 times so far maps to
   the object with index c - 1 *)
Definition inv (seen : list text) (c : cur) : Prop :=
  forall n, 0 < count_t n seen -> tlookup n c = Some (count_t n seen - 1).

(* lcd_state knows only names that were declared *)
Definition dom (seen : list text) (c : cur) : Prop :=
  forall n k, tlookup n c = Some k -> 0 < count_t n seen.

(* an item without LCD declarations leaves lcd_state alone, and its commands address the
   reference objects *)
Lemma res_item_free bs seen c : forall it top o,
  lcd_free it = true -> inv seen c ->
  cmds_declared seen it = true \/ dom seen c ->
  res_item bs top (mkR c o) it = (spec_item seen it, mkR c o).
Proof.
  intro it. induction it as [d | d | | | n | bl IH] using item_ind'; intros top o Hfree Hinv Hok;
    try reflexivity.
  - discriminate.
  - cbn [res_item spec_item r_cur].
    destruct (0 <? count_t n seen) eqn:Ec.
    + apply Z.ltb_lt in Ec. rewrite (Hinv n Ec). reflexivity.
    + destruct (tlookup n c) as [k |] eqn:El; [| reflexivity].
      destruct Hok as [Hd | Hd].
      * cbn [cmds_declared] in Hd. congruence.
      * apply Hd in El. apply Z.ltb_lt in El. congruence.
  - cbn [res_item spec_item]. cbn [lcd_free] in Hfree.
    apply thread_pure. rewrite Forall_forall. intros b Hb.
    apply thread_pure. rewrite Forall_forall. intros x Hx.
    rewrite Forall_forall in IH. specialize (IH b Hb). rewrite Forall_forall in IH.
    rewrite forallb_forall in Hfree. specialize (Hfree b Hb). rewrite forallb_forall in Hfree.
    apply IH; [exact Hx | apply Hfree; exact Hx | exact Hinv |].
    destruct Hok as [Hd | Hd]; [left | right; exact Hd].
    cbn [cmds_declared] in Hd. rewrite forallb_forall in Hd. specialize (Hd b Hb).
    rewrite forallb_forall in Hd. apply Hd. exact Hx.
Qed.

Lemma res_items_free bs seen c top o l :
  forallb lcd_free l = true -> inv seen c -> dom seen c ->
  res_items bs top (mkR c o) l = (flat_map (spec_item seen) l, mkR c o).
Proof.
  intros Hfree Hinv Hdom. unfold res_items. apply thread_pure. rewrite Forall_forall. intros x Hx.
  rewrite forallb_forall in Hfree. apply res_item_free; auto.
Qed.

(* ---- the bindings of pass 1 *)
Lemma top_lcd_names_app a b : top_lcd_names (a ++ b) = top_lcd_names a ++ top_lcd_names b.
Proof.
  induction a as [| x r IH]; [reflexivity |]. destruct x; cbn [app top_lcd_names]; try exact IH.
  now rewrite IH.
Qed.

Definition nlcd (l : list item) : Z := Z.of_nat (length (top_lcd_names l)).

Lemma nlcd_nonneg l : 0 <= nlcd l.
Proof. unfold nlcd. lia. Qed.

Lemma bindings_from_ord l : forall o seen b,
  In b (bindings_from o seen l) -> o <= b_ord b < o + nlcd l.
Proof.
  unfold nlcd. induction l as [| x r IH]; intros o seen b Hin; [destruct Hin |].
  destruct x; cbn [bindings_from top_lcd_names] in *; try (apply IH in Hin; exact Hin).
  cbn [length]. rewrite Nat2Z.inj_succ. destruct Hin as [<- | Hin]; [cbn [b_ord]; lia |].
  apply IH in Hin. lia.
Qed.

Lemma bindings_from_names l : forall o seen, map b_name (bindings_from o seen l) = top_lcd_names l.
Proof.
  induction l as [| x r IH]; intros o seen; [reflexivity |].
  destruct x; cbn [bindings_from top_lcd_names map b_name]; try apply IH. now rewrite IH.
Qed.

Lemma bindings_from_app a : forall o seen b,
  exists seen', bindings_from o seen (a ++ b) = bindings_from o seen a ++ bindings_from (o + nlcd a) seen' b /\
                forall x, count_t x seen' = count_t x (top_lcd_names a) + count_t x seen.
Proof.
  unfold nlcd. induction a as [| n r IH]; intros o seen b.
  - exists seen. cbn [app bindings_from top_lcd_names length]. rewrite Z.add_0_r.
    split; [reflexivity | intro x; cbn; lia].
  - destruct n; cbn [app bindings_from top_lcd_names];
      try (destruct (IH o seen b) as [s' [E C]]; exists s'; split; [exact E | exact C]).
    destruct (IH (o + 1) (l_name d :: seen) b) as [s' [E C]]. exists s'. split.
    + rewrite E. cbn [length app]. rewrite Nat2Z.inj_succ.
      replace (o + Z.succ (Z.of_nat (length (top_lcd_names r)))) with (o + 1 + Z.of_nat (length (top_lcd_names r))) by lia.
      reflexivity.
    + intro x. rewrite C. cbn [count_t]. lia.
Qed.

Lemma find_skip {A} (f : A -> bool) a b :
  (forall x, In x a -> f x = false) -> find f (a ++ b) = find f b.
Proof.
  induction a as [| y r IH]; intro H; [reflexivity |].
  cbn [app find]. rewrite (H y (or_introl eq_refl)). apply IH. intros x Hx. apply H. right. exact Hx.
Qed.

(* _register_lcd finds the binding pass 1 made for this very declaration *)
Lemma find_binding pre d post :
  find (fun b => text_eqb (b_name b) (l_name d) && (b_ord b =? nlcd pre))
       (bindings_from 0 [] (pre ++ ILcd d :: post)) =
  Some (mkB (nlcd pre) (l_name d) (count_t (l_name d) (top_lcd_names pre))).
Proof.
  destruct (bindings_from_app pre 0 [] (ILcd d :: post)) as [s' [E C]]. rewrite E.
  rewrite find_skip.
  - cbn [bindings_from find b_name b_ord]. rewrite text_eqb_refl, Z.add_0_l, Z.eqb_refl. cbn [andb].
    rewrite C. cbn [count_t]. rewrite Z.add_0_r. reflexivity.
  - intros b Hb. apply bindings_from_ord in Hb.
    replace (b_ord b =? nlcd pre) with false; [apply andb_false_r |]. symmetry. apply Z.eqb_neq. lia.
Qed.

Lemma tlookup_cons_same {A} n (k : A) c : tlookup n ((n, k) :: c) = Some k.
Proof. cbn [tlookup]. now rewrite text_eqb_refl. Qed.

Lemma tlookup_cons_other {A} n m (k : A) c : n <> m -> tlookup n ((m, k) :: c) = tlookup n c.
Proof.
  intro H. cbn [tlookup]. destruct (text_eqb n m) eqn:E; [apply text_eqb_eq in E; contradiction | reflexivity].
Qed.

Lemma tlookup_In {A} n (k : A) c : tlookup n c = Some k -> In n (map fst c).
Proof.
  induction c as [| [m v] r IH]; cbn [tlookup map fst]; [discriminate |].
  destruct (text_eqb n m) eqn:E; [apply text_eqb_eq in E; left; now subst | right; auto].
Qed.

Lemma spec_items_nonlcd seen x r :
  (forall d, x <> ILcd d) -> spec_items seen (x :: r) = spec_item seen x ++ spec_items seen r.
Proof. intro H. destruct x; try reflexivity. exfalso. exact (H d eq_refl). Qed.

(* the top-level statements of setup_body: every command addresses the object of the latest
   declaration of its name, and the invariant is re-established after every declaration *)
Lemma res_items_setup N : forall l pre seen c,
  lcd_top_only l = true -> cmds_follow_decl seen l = true ->
  (forall x, count_t x seen = count_t x (top_lcd_names pre)) ->
  inv seen c -> (forall n k, tlookup n c = Some k -> In n N) -> incl (top_lcd_names l) N ->
  exists c',
    res_items (bindings_from 0 [] (pre ++ l)) true (mkR c (nlcd pre)) l =
      (spec_items seen l, mkR c' (nlcd (pre ++ l))) /\
    inv (rev (top_lcd_names l) ++ seen) c' /\ (forall n k, tlookup n c' = Some k -> In n N).
Proof.
  induction l as [| x r IH]; intros pre seen c Htop Hcmd Hcount Hinv Hdom HN.
  - exists c. rewrite app_nil_r. cbn. auto.
  - cbn [lcd_top_only forallb] in Htop. apply andb_true_iff in Htop as [Hx Htop].
    assert (Eapp : pre ++ x :: r = (pre ++ [x]) ++ r) by (rewrite <- app_assoc; reflexivity).
    destruct x as [d | d | | | n | bl].
    2: { (* a declaration *)
      cbn [cmds_follow_decl] in Hcmd. cbn [top_lcd_names] in HN.
      set (k := count_t (l_name d) seen).
      assert (Ereg : register_top (bindings_from 0 [] (pre ++ ILcd d :: r)) (nlcd pre) (l_name d) c = (l_name d, k) :: c).
      { unfold register_top. destruct (tlookup (l_name d) c) as [k0 |] eqn:El.
        - rewrite find_binding. cbn [b_index]. unfold k. now rewrite Hcount.
        - unfold k. destruct (Z.eq_dec (count_t (l_name d) seen) 0) as [-> | Hne]; [reflexivity |].
          pose proof (count_t_nonneg (l_name d) seen).
          rewrite (Hinv (l_name d)) in El by lia. discriminate. }
      destruct (IH (pre ++ [ILcd d]) (l_name d :: seen) ((l_name d, k) :: c)) as [c' [E [Hinv' Hdom']]].
      - exact Htop.
      - exact Hcmd.
      - intro x. rewrite top_lcd_names_app, count_t_app. cbn [top_lcd_names count_t]. rewrite Hcount. lia.
      - intros m Hm. destruct (text_eqb m (l_name d)) eqn:Em.
        + apply text_eqb_eq in Em. subst m. rewrite tlookup_cons_same, count_t_cons_same. unfold k. f_equal. lia.
        + assert (Hne : m <> l_name d) by (intro H; apply text_eqb_eq in H; congruence).
          rewrite tlookup_cons_other by exact Hne. rewrite count_t_cons_other in * by exact Hne. apply Hinv. exact Hm.
      - intros m v Hm. destruct (text_eqb m (l_name d)) eqn:Em.
        + apply text_eqb_eq in Em. subst m. apply HN. left. reflexivity.
        + assert (Hne : m <> l_name d) by (intro H; apply text_eqb_eq in H; congruence).
          rewrite tlookup_cons_other in Hm by exact Hne. eapply Hdom. exact Hm.
      - intros m Hm. apply HN. right. exact Hm.
      - exists c'. split; [| split; [| exact Hdom']].
        + unfold res_items in *. rewrite thread_cons. cbn [res_item r_cur r_ord]. rewrite Ereg.
          rewrite Eapp. replace (nlcd pre + 1) with (nlcd (pre ++ [ILcd d])).
          * rewrite <- Eapp at 1. rewrite Eapp. rewrite E. reflexivity.
          * unfold nlcd. rewrite top_lcd_names_app, app_length. cbn [top_lcd_names length]. lia.
        + cbn [top_lcd_names rev]. rewrite <- app_assoc. exact Hinv'. }
    all: (* not a declaration *)
      cbn [cmds_follow_decl] in Hcmd; apply andb_true_iff in Hcmd as [Hc Hcmd];
      match goal with |- context [res_items _ true _ (?y :: _)] => set (x := y) in * end;
      assert (Hn : top_lcd_names [x] = []) by reflexivity;
      (destruct (IH (pre ++ [x]) seen c) as [c' [E [Hinv' Hdom']]];
       [ exact Htop | exact Hcmd
       | intro z; rewrite top_lcd_names_app, Hn, app_nil_r; apply Hcount
       | exact Hinv | exact Hdom | exact HN | ]);
      exists c'; (split; [| split; [exact Hinv' | exact Hdom']]);
      unfold res_items in *; rewrite thread_cons;
      rewrite (res_item_free _ seen c x true (nlcd pre) Hx Hinv (or_introl Hc));
      rewrite Eapp;
      replace (nlcd pre) with (nlcd (pre ++ [x])) by (unfold nlcd; rewrite top_lcd_names_app, Hn, app_nil_r; reflexivity);
      rewrite E; rewrite spec_items_nonlcd by (intros d' Hd'; discriminate Hd'); reflexivity.
Qed.

Lemma count_t_rev x l : count_t x (rev l) = count_t x l.
Proof.
  induction l as [| y r IH]; [reflexivity |]. cbn [rev]. rewrite count_t_app, IH. cbn [count_t]. lia.
Qed.

Lemma count_t_In x l : In x l -> 0 < count_t x l.
Proof.
  induction l as [| y r IH]; intro H; [destruct H | destruct H as [<- | H]].
  - rewrite count_t_cons_same. pose proof (count_t_nonneg y r). lia.
  - specialize (IH H). pose proof (count_t_cons_le x y r). lia.
Qed.

(* (b) inside the quantifier (displays declared at the top level before the main loop; the parser
   never produces a command before the first declaration of its name) every emitted LCD command
   - in setup(), at any nesting depth; in loop(); in every function body - addresses the display
   object of the reference semantics *)
Theorem resolve_spec p :
  lcds_at_top p = true -> cmds_follow_decl [] (d_setup p) = true ->
  let names := rev (top_lcd_names (d_setup p)) in
  resolve p = (spec_items [] (d_setup p),
               flat_map (spec_item names) (d_loop p),
               map (fun f => flat_map (spec_item names) f) (d_functions p)).
Proof.
  intros Hg Hc names. unfold lcds_at_top in Hg.
  apply andb_true_iff in Hg as [Hg Hfn]. apply andb_true_iff in Hg as [Hs Hl].
  unfold resolve. set (bs := bindings_from 0 [] (d_setup p)).
  destruct (res_items_setup (top_lcd_names (d_setup p)) (d_setup p) [] [] (cur_after_pass1 bs))
    as [c' [E [Hinv Hdom]]].
  - exact Hs.
  - exact Hc.
  - reflexivity.
  - intros n Hn. cbn in Hn. lia.
  - intros n k Hl'. apply tlookup_In in Hl'.
    assert (Em : map fst (cur_after_pass1 bs) = rev (map b_name bs))
      by (unfold cur_after_pass1; rewrite map_rev, map_map; reflexivity).
    rewrite Em in Hl'. apply in_rev in Hl'.
    unfold bs in Hl'. rewrite (bindings_from_names (d_setup p) 0 []) in Hl'. exact Hl'.
  - apply incl_refl.
  - cbn [app] in E. change (nlcd []) with 0 in E. fold bs in E. rewrite E.
    rewrite app_nil_r in Hinv.
    assert (Hd : dom names c').
    { intros n k Hn. unfold names. rewrite count_t_rev. apply count_t_In. eapply Hdom. exact Hn. }
    rewrite (res_items_free bs names c' false _ (d_loop p) Hl Hinv Hd).
    f_equal. apply map_ext_in. intros f Hf.
    rewrite forallb_forall in Hfn.
    rewrite (res_items_free bs names c' false _ f (Hfn f Hf) Hinv Hd). reflexivity.
Qed.

Lemma spec_items_app a : forall seen b,
  spec_items seen (a ++ b) = spec_items seen a ++ spec_items (rev (top_lcd_names a) ++ seen) b.
Proof.
  induction a as [| x r IH]; intros seen b; [reflexivity |].
  destruct x; cbn [app spec_items top_lcd_names]; try (rewrite IH, <- app_assoc; reflexivity).
  rewrite IH. cbn [rev]. rewrite <- app_assoc. reflexivity.
Qed.

(* the reference semantics, said in the words of the task: a command on n that follows c > 0
   top-level declarations of n addresses the object of the c-th one (index c - 1) *)
Theorem spec_command_after_kth_binding seen pre n post :
  let c := count_t n (top_lcd_names pre) + count_t n seen in
  0 < c ->
  spec_items seen (pre ++ ICmd n :: post) =
  spec_items seen pre ++ recv (c - 1) n :: spec_items (rev (top_lcd_names pre) ++ seen) post.
Proof.
  intros c Hc. rewrite spec_items_app. f_equal. cbn [spec_items spec_item].
  rewrite count_t_app, count_t_rev. fold c.
  replace (0 <? c) with true by (symmetry; apply Z.ltb_lt; exact Hc). reflexivity.
Qed.

(* ... and that object is the one defined, with the constructor arguments of that declaration,
   by the latest declaration of the name before the command *)
Theorem command_addresses_its_declaration p pre d mid post :
  d_setup p = pre ++ ILcd d :: mid ++ ICmd (l_name d) :: post ->
  count_t (l_name d) (top_lcd_names mid) = 0 ->
  let k := count_t (l_name d) (top_lcd_names pre) in
  In (d, k) (lcd_defs p) /\
  In (lcd_obj_line d k) (lib_globals p) /\
  spec_items [] (d_setup p) =
    spec_items [] (pre ++ ILcd d :: mid) ++
    (lcd_ident k (l_name d), lcd_cols_var k (l_name d)) ::
    spec_items (rev (top_lcd_names (pre ++ ILcd d :: mid))) post.
Proof.
  intros E Hmid k.
  assert (Hin : In (d, k) (lcd_defs p)) by (eapply lcd_defs_at; exact E).
  split; [exact Hin | split].
  - apply lib_globals_In. right. exists (d, k). split; [exact Hin |]. cbn [fst snd lcd_global_lines]. left. reflexivity.
  - rewrite E. replace (pre ++ ILcd d :: mid ++ ICmd (l_name d) :: post)
      with ((pre ++ ILcd d :: mid) ++ ICmd (l_name d) :: post) by (rewrite <- app_assoc; reflexivity).
    rewrite spec_command_after_kth_binding.
    + rewrite app_nil_r. f_equal. f_equal. unfold recv. f_equal; f_equal;
        rewrite top_lcd_names_app; cbn [top_lcd_names]; rewrite count_t_app, count_t_cons_same, Hmid; cbn [count_t]; unfold k; lia.
    + rewrite top_lcd_names_app. cbn [top_lcd_names]. rewrite count_t_app, count_t_cons_same, Hmid.
      pose proof (count_t_nonneg (l_name d) (top_lcd_names pre)). cbn [count_t]. lia.
Qed.

(* ================================================================== non-vacuity *)
Definition ex_par (n : text) (rs : Z) (bl : val) : lcdd :=
  mkLcd n false (VInt 16) (VInt 2) (VInt rs) (VInt 11) (VInt 5) (VInt 4) (VInt 3) (VInt 2) VNone bl VNone.
Definition ex_i2c (n : text) (addr : Z) : lcdd :=
  mkLcd n true (VInt 20) (VInt 4) VNone VNone VNone VNone VNone VNone VNone VNone (VInt addr).

(* lcd = LCD(rs=12..); lcd.x; if ..: lcd.x; lcd = LCD(i2c_addr=39); lcd.x; sv = Servo(9, 600.5, 2400)
   loop: lcd.x    def f(): lcd.x *)
Definition ex_prog : dprog :=
  mkDProg [ILcd (ex_par [108] 12 (VInt 44)); ICmd [108]; IBlock [[ICmd [108]]; []];
           ILcd (ex_i2c [108] 39); ICmd [108];
           IServo (mkServo [115] (VInt 9) (PFloat (1201 # 2)) (PInt 2400))]
          [ICmd [108]; IPlain] [[ICmd [108]]] [].

Lemma ex_prog_facts :
  lcds_at_top ex_prog = true /\ cmds_follow_decl [] (d_setup ex_prog) = true /\
  map snd (lcd_defs ex_prog) = [0; 1] /\
  resolve ex_prog =
    ([recv 0 [108]; recv 0 [108]; recv 1 [108]], [recv 1 [108]], [[recv 1 [108]]]) /\
  headers (erase_prog ex_prog) = [HServo; HLiquidCrystal; HWire; HLiquidCrystalI2C] /\
  length (lib_globals ex_prog) = 9%nat /\ length (lib_init ex_prog) = 9%nat /\
  nearest (1201 # 2) = 601.
Proof. vm_compute. repeat split; reflexivity. Qed.

(* composition with the library lists of Tool/Libs.v: the class of every defined object is
   included and requested *)
Theorem defined_class_requested p dk :
  In dk (lcd_defs p) ->
  In (class_of (fst dk)) (includes (erase_prog p)) /\ In (class_of (fst dk)) (required (erase_prog p)).
Proof.
  intro Hin.
  assert (Hi : In (class_of (fst dk)) (includes (erase_prog p))).
  { apply includes_iff_top. unfold class_of, lcd_defs in *. cbn [erase_prog setup].
    destruct (l_i2c (fst dk)) eqn:Ei; [eapply erase_i2c | eapply erase_par]; eassumption. }
  split; [exact Hi | apply includes_incl_required; exact Hi].
Qed.

Theorem servo_class_requested p d :
  In d (servo_decls p) ->
  In LServo (includes (erase_prog p)) /\ In LServo (required (erase_prog p)).
Proof.
  intro Hin.
  assert (Hi : In LServo (includes (erase_prog p))).
  { apply includes_iff_top. unfold servo_decls in Hin. cbn [erase_prog setup loop].
    apply in_app_or in Hin as [H | H]; apply erase_servo in H; auto. }
  split; [exact Hi | apply includes_incl_required; exact Hi].
Qed.

Theorem every_object_has_a_declaration (p : dprog) (dk : lcdd * Z) :
  In dk (lcd_defs p) ->
  exists pre post, d_setup p = pre ++ ILcd (fst dk) :: post /\
                   snd dk = count_t (l_name (fst dk)) (top_lcd_names pre).
Proof.
  intro H. destruct (lcd_defs_origin _ _ _ H) as [pre [post [E C]]].
  exists pre, post. split; [exact E |]. rewrite C. cbn [count_t]. apply Z.add_0_r.
Qed.

Theorem servo_attached_as_declared (p : dprog) (pre post : list item) (d : servod) :
  (d_setup p = pre ++ IServo d :: post /\ ~ In (s_name d) (map s_name (top_servos pre))) \/
  (d_loop p = pre ++ IServo d :: post /\ ~ In (s_name d) (map s_name (top_servos (d_setup p))) /\
   ~ In (s_name d) (map s_name (top_servos pre))) ->
  exists a b, lib_init p = a ++ servo_init_lines d ++ b.
Proof.
  intros [[E H] | [E [H1 H2]]];
    [eapply servo_init_block_setup | eapply servo_init_block_loop]; eassumption.
Qed.

(* remark (not a finding of C14, whose statement is about libraries): a servo variable bound twice
   shares ONE object "Servo __servo_<n>;" and is attached once, with the pin and pulse bounds of
   its FIRST declaration - the hypothesis "first declaration of the name" of
   servo_attached_as_declared cannot be dropped *)
Lemma servo_rebind_first_wins :
  exists p d1 d2,
    d_setup p = [IServo d1; IServo d2] /\ s_name d1 = s_name d2 /\ s_pin d1 <> s_pin d2 /\
    lib_init p = servo_init_lines d1 /\ lib_globals p = [servo_obj_line (s_name d1)].
Proof.
  exists (mkDProg [IServo (mkServo [115] (VInt 9) (PInt 544) (PInt 2400));
                   IServo (mkServo [115] (VInt 10) (PInt 544) (PInt 2400))] [] [] []),
         (mkServo [115] (VInt 9) (PInt 544) (PInt 2400)), (mkServo [115] (VInt 10) (PInt 544) (PInt 2400)).
  repeat split; try reflexivity. cbn. discriminate.
Qed.

(* ================================================================== order of the sections *)
(* every display object is defined exactly where it should be: after the #include line of the
   header of its class and before setup(); its initialisation block comes after "void setup() {" *)
Theorem object_defined_before_setup p pre d post :
  d_setup p = pre ++ ILcd d :: post ->
  let k := count_t (l_name d) (top_lcd_names pre) in
  exists a b c e,
    lib_sketch p = a ++ [lcd_obj_line d k] ++ b ++ [setup_start] ++ c ++ lcd_init_lines d k ++ e /\
    (forall h, In h (headers_of (class_of d)) -> In (include_line h) a).
Proof.
  intros E k.
  assert (Hin : In (d, k) (lcd_defs p)) by (eapply lcd_defs_at; exact E).
  assert (Hg : In (lcd_obj_line d k) (lib_globals p)).
  { apply lib_globals_In. right. exists (d, k). split; [exact Hin | left; reflexivity]. }
  apply in_split in Hg as [g1 [g2 Hg]].
  destruct (lcd_init_block p pre d post E) as [i1 [i2 Hi]]. fold k in Hi.
  exists (map include_line (headers (erase_prog p)) ++ g1), g2, i1, i2. split.
  - unfold lib_sketch. rewrite Hg, Hi. rewrite <- !app_assoc. reflexivity.
  - intros h Hh. apply in_or_app. left. apply in_map.
    apply (class_header_included p (d, k) Hin). exact Hh.
Qed.

Theorem servo_defined_before_setup p d :
  In d (servo_decls p) ->
  exists a b c,
    lib_sketch p = a ++ [servo_obj_line (s_name d)] ++ b ++ [setup_start] ++ c /\
    In (include_line HServo) a.
Proof.
  intro Hin.
  assert (Hg : In (servo_obj_line (s_name d)) (lib_globals p)).
  { apply lib_globals_In. left. exists d. split; [exact Hin | reflexivity]. }
  apply in_split in Hg as [g1 [g2 Hg]].
  exists (map include_line (headers (erase_prog p)) ++ g1), g2, (lib_init p). split.
  - unfold lib_sketch. rewrite Hg. rewrite <- !app_assoc. reflexivity.
  - apply in_or_app. left. apply in_map. exact (servo_header_included p d Hin).
Qed.
