(* C14: the regenerated class -> header / declaration -> library tables (Gen/LibTable.v, printed by
   harness/gen/c14_libs.py from the current emitter.py and __init__.py) are the model's. *)
From Coq Require Import ZArith List Bool.
From RV Require Import Base.Wire Base.Text Tool.Libs Tool.LibObjs Gen.LibTable.
Import ListNotations.
Open Scope Z_scope.

(* the tie: re-checked by coqc against what the source says on every run *)
Lemma tables_are_the_models :
  gen_class_headers = model_class_headers /\
  gen_interface_class = model_interface_class /\
  gen_required = model_required /\
  gen_collected_attr = interface_attr_text.
Proof. vm_compute. repeat split; reflexivity. Qed.

(* for every library class: the library requested for it carries the class name, the emitter
   includes the model's headers for it, and the last of them is "<class>.h" *)
Lemma library_name_is_class_name (l : lib) :
  In (class_text l) (map snd gen_required) /\
  In (class_text l, map header_text (headers_of l)) gen_class_headers /\
  last (map header_text (headers_of l)) [] = class_text l ++ dot_h.
Proof.
  destruct tables_are_the_models as [E1 [_ [E3 _]]]. rewrite E1, E3.
  destruct l; vm_compute; repeat split; auto 10.
Qed.

(* the class with which the emitted definition line of a display starts is the class the
   regenerated table gives for the interface of its declaration, with the model's headers *)
Lemma emitted_class_in_table (d : lcdd) :
  In ((if l_i2c d then iface_i2c_text else []), lcd_class d) gen_interface_class /\
  In (lcd_class d, map header_text (headers_of (class_of d))) gen_class_headers /\
  In (lcd_class d) (map snd gen_required).
Proof.
  destruct tables_are_the_models as [E1 [E2 [E3 _]]]. rewrite E1, E2, E3.
  unfold lcd_class, class_of. destruct (l_i2c d); vm_compute; repeat split; auto 10.
Qed.

(* the rows of the regenerated table are pairwise different classes: no library twice *)
Lemma table_classes_nodup : NoDup (map fst gen_class_headers) /\ NoDup (map snd gen_required).
Proof.
  destruct tables_are_the_models as [E1 [_ [E3 _]]]. rewrite E1, E3.
  split; vm_compute; repeat constructor; cbn; intuition discriminate.
Qed.
