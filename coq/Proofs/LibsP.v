(* Proofs about Tool/Libs.v (C14).  Structural induction over the nested node lists. *)
From Coq Require Import ZArith List Bool Lia Sorting.Sorted.
From RV Require Import Tool.Libs.
Import ListNotations.
Open Scope Z_scope.

(* ------------------------------------------------------------------ induction principle *)
Section Ind.
  Variable P : node -> Prop.
  Hypothesis Hstep : forall n, Forall (Forall P) (children n) -> P n.

  Fixpoint node_ind' (n : node) : P n :=
    let fix go (l : list node) : Forall P l :=
      match l with [] => Forall_nil _ | x :: r => Forall_cons _ (node_ind' x) (go r) end in
    let fix gos (ls : list (list node)) : Forall (Forall P) ls :=
      match ls with [] => Forall_nil _ | l :: r => Forall_cons _ (go l) (gos r) end in
    Hstep n
      (match n return Forall (Forall P) (children n) with
       | NIf bs => gos bs
       | NTry bs => gos bs
       | NWhile b => Forall_cons _ (go b) (Forall_nil _)
       | NFor b => Forall_cons _ (go b) (Forall_nil _)
       | NServo _ => Forall_nil _
       | NLcdPar _ => Forall_nil _
       | NLcdI2c _ => Forall_nil _
       | NOtherDecl => Forall_nil _
       | NPlain => Forall_nil _
       end).
End Ind.

(* ------------------------------------------------------------------ occurrence *)
(* [occurs_in m n]: the node m is n itself or sits at any depth below n *)
Inductive occurs_in (m : node) : node -> Prop :=
| occ_here : occurs_in m m
| occ_child : forall n b c, In b (children n) -> In c b -> occurs_in m c -> occurs_in m n.

(* m occurs somewhere in the program (setup, loop, globals, any function; any depth) *)
Definition occurs (m : node) (p : prog) : Prop :=
  exists l c, In l (all_lists p) /\ In c l /\ occurs_in m c.

(* m is a top-level statement of the list *)
Definition declared (l : lib) (p : prog) : Prop :=
  exists n, occurs n p /\ needs n = Some l.

Lemma any_node_unfold f n :
  any_node f n = f n || existsb (any_list f) (children n).
Proof.
  destruct n; cbn [any_node children existsb]; try reflexivity.
  - unfold any_list. now rewrite orb_false_r.
  - unfold any_list. now rewrite orb_false_r.
Qed.

Lemma any_node_spec f n :
  any_node f n = true <-> exists m, occurs_in m n /\ f m = true.
Proof.
  split.
  - revert n. apply (node_ind' (fun n => any_node f n = true -> exists m, occurs_in m n /\ f m = true)).
    intros n IH Hn. rewrite any_node_unfold in Hn. apply orb_true_iff in Hn as [Hn | Hn].
    + exists n. split; [constructor | exact Hn].
    + apply existsb_exists in Hn as [b [Hb Hab]].
      unfold any_list in Hab. apply existsb_exists in Hab as [c [Hc Hac]].
      rewrite Forall_forall in IH. specialize (IH b Hb). rewrite Forall_forall in IH.
      destruct (IH c Hc Hac) as [m [Hm Hfm]].
      exists m. split; [eapply occ_child; eauto | exact Hfm].
  - intros [m [Hm Hfm]]. induction Hm as [| n b c Hb Hc Hm IH].
    + rewrite any_node_unfold, Hfm. reflexivity.
    + rewrite any_node_unfold. apply orb_true_iff. right.
      apply existsb_exists. exists b. split; [exact Hb |].
      unfold any_list. apply existsb_exists. exists c. split; [exact Hc | exact IH].
Qed.

Lemma any_list_spec f l :
  any_list f l = true <-> exists c m, In c l /\ occurs_in m c /\ f m = true.
Proof.
  unfold any_list. rewrite existsb_exists. split.
  - intros [c [Hc H]]. apply any_node_spec in H as [m [Hm Hf]]. eauto.
  - intros [c [m [Hc [Hm Hf]]]]. exists c. split; [exact Hc |]. apply any_node_spec. eauto.
Qed.

Lemma deep_spec f p :
  deep f p = true <-> exists m, occurs m p /\ f m = true.
Proof.
  unfold deep, occurs. rewrite existsb_exists. split.
  - intros [l [Hl H]]. apply any_list_spec in H as [c [m [Hc [Hm Hf]]]].
    exists m. split; [exists l, c; auto | exact Hf].
  - intros [m [[l [c [Hl [Hc Hm]]]] Hf]]. exists l. split; [exact Hl |].
    apply any_list_spec. eauto.
Qed.

Lemma any_list_mono (f g : node -> bool) l :
  (forall n, g n = true -> f n = true) -> any_list g l = true -> any_list f l = true.
Proof.
  intros Hgf H. apply any_list_spec in H as [c [m [Hc [Hm Hg]]]].
  apply any_list_spec. exists c, m. auto.
Qed.

Lemma absent_mono (f g : node -> bool) l :
  (forall n, g n = true -> f n = true) -> absent f l = true -> absent g l = true.
Proof.
  unfold absent. intros Hgf H. apply negb_true_iff in H. apply negb_true_iff.
  destruct (any_list g l) eqn:E; [| reflexivity].
  apply (any_list_mono f g l Hgf) in E. congruence.
Qed.

Lemma nested_free_mono (f g : node -> bool) l :
  (forall n, g n = true -> f n = true) -> nested_free f l = true -> nested_free g l = true.
Proof.
  unfold nested_free. intros Hgf H. rewrite forallb_forall in *. intros n Hn.
  specialize (H n Hn). apply negb_true_iff in H. apply negb_true_iff.
  destruct (existsb (any_list g) (children n)) eqn:E; [| reflexivity].
  apply existsb_exists in E as [b [Hb Hgb]].
  assert (Hc : existsb (any_list f) (children n) = true).
  { apply existsb_exists. exists b. split; [exact Hb | eapply any_list_mono; eauto]. }
  congruence.
Qed.

Lemma forallb_absent_mono (f g : node -> bool) fs :
  (forall n, g n = true -> f n = true) ->
  forallb (absent f) fs = true -> forallb (absent g) fs = true.
Proof.
  intros Hgf H. rewrite forallb_forall in *. intros l Hl.
  eapply absent_mono; eauto.
Qed.

(* ------------------------------------------------------------------ shape of the three lists *)
Definition canonical (l : list lib) : Prop :=
  exists a b c : bool,
    l = opt_lib a LServo ++ opt_lib b LLiquidCrystal ++ opt_lib c LLiquidCrystalI2C.

Lemma canonical_sorted l : canonical l -> StronglySorted lib_lt l.
Proof.
  intros [a [b [c ->]]]. destruct a, b, c; cbn;
    repeat (constructor; try (unfold lib_lt; cbn; lia)).
Qed.

Lemma sorted_nodup l : StronglySorted lib_lt l -> NoDup l.
Proof.
  induction 1 as [| x l Hs IH Hall]; constructor; [| exact IH].
  intro Hin. rewrite Forall_forall in Hall. specialize (Hall x Hin).
  unfold lib_lt in Hall. lia.
Qed.

Lemma required_canonical p : canonical (required p).
Proof. unfold required. eexists _, _, _. reflexivity. Qed.
Lemma includes_canonical p : canonical (includes p).
Proof. unfold includes. eexists _, _, _. reflexivity. Qed.
Lemma instantiated_canonical p : canonical (instantiated p).
Proof. unfold instantiated. eexists _, _, _. reflexivity. Qed.

Lemma headers_sorted p : StronglySorted header_lt (headers p).
Proof.
  unfold headers. destruct (servo_used p), (par_used p), (i2c_used p); cbn;
    repeat (constructor; try (unfold header_lt; cbn; lia)).
Qed.

Lemma headers_nodup p : NoDup (headers p).
Proof.
  pose proof (headers_sorted p) as H. induction H as [| x l Hs IH Hall]; constructor; [| exact IH].
  intro Hin. rewrite Forall_forall in Hall. specialize (Hall x Hin).
  unfold header_lt in Hall. lia.
Qed.

Fixpoint filter_map {A B} (f : A -> option B) (l : list A) : list B :=
  match l with
  | [] => []
  | x :: r => match f x with Some y => y :: filter_map f r | None => filter_map f r end
  end.

(* the libraries of the emitted #include lines are exactly [includes] *)
Lemma includes_of_headers p : includes p = filter_map lib_of_header (headers p).
Proof.
  unfold includes, headers. destruct (servo_used p), (par_used p), (i2c_used p); reflexivity.
Qed.

(* Wire.h accompanies the I2C header, and only it *)
Lemma wire_iff_i2c p : In HWire (headers p) <-> In HLiquidCrystalI2C (headers p).
Proof.
  unfold headers. destruct (servo_used p), (par_used p), (i2c_used p); cbn; intuition congruence.
Qed.

Theorem no_duplicates p :
  (NoDup (required p) /\ StronglySorted lib_lt (required p)) /\
  (NoDup (includes p) /\ StronglySorted lib_lt (includes p)) /\
  (NoDup (instantiated p) /\ StronglySorted lib_lt (instantiated p)) /\
  (NoDup (headers p) /\ StronglySorted header_lt (headers p)).
Proof.
  pose proof (canonical_sorted _ (required_canonical p)) as H1.
  pose proof (canonical_sorted _ (includes_canonical p)) as H2.
  pose proof (canonical_sorted _ (instantiated_canonical p)) as H3.
  repeat split; auto using sorted_nodup, headers_nodup, headers_sorted.
Qed.

(* ------------------------------------------------------------------ membership in a canonical list *)
Lemma In_opt_lib b k l : In l (opt_lib b k) <-> b = true /\ l = k.
Proof. destruct b; cbn; intuition congruence. Qed.

Lemma In_canon a b c l :
  In l (opt_lib a LServo ++ opt_lib b LLiquidCrystal ++ opt_lib c LLiquidCrystalI2C) <->
  match l with LServo => a = true | LLiquidCrystal => b = true | LLiquidCrystalI2C => c = true end.
Proof.
  rewrite !in_app_iff, !In_opt_lib. destruct l; intuition congruence.
Qed.

Lemma is_servo_needs n : is_servo n = true <-> needs n = Some LServo.
Proof. destruct n; cbn; intuition congruence. Qed.
Lemma is_par_needs n : is_par n = true <-> needs n = Some LLiquidCrystal.
Proof. destruct n; cbn; intuition congruence. Qed.
Lemma is_i2c_needs n : is_i2c n = true <-> needs n = Some LLiquidCrystalI2C.
Proof. destruct n; cbn; intuition congruence. Qed.

Lemma deep_declared f k p :
  (forall n, f n = true <-> needs n = Some k) ->
  (deep f p = true <-> declared k p).
Proof.
  intros Hf. rewrite deep_spec. unfold declared. split; intros [m [Hm H]]; exists m; split; auto; apply Hf; exact H.
Qed.

(* requested  <->  some declaration needing the library occurs anywhere in the program *)
Theorem required_iff_declared p l : In l (required p) <-> declared l p.
Proof.
  unfold required. rewrite In_canon. destruct l.
  - apply deep_declared, is_servo_needs.
  - apply deep_declared, is_par_needs.
  - apply deep_declared, is_i2c_needs.
Qed.

(* ------------------------------------------------------------------ includes = instantiated *)
Lemma nonempty_app {A} (a b : list A) : nonempty (a ++ b) = nonempty a || nonempty b.
Proof. destruct a; reflexivity. Qed.

Lemma nonempty_dedup_nil l : nonempty (dedup [] l) = nonempty l.
Proof. destruct l; reflexivity. Qed.

Lemma nonempty_servo_names l : nonempty (servo_names l) = existsb is_servo l.
Proof.
  induction l as [| n r IH]; [reflexivity |].
  destruct n; cbn [servo_names existsb is_servo orb]; try exact IH. reflexivity.
Qed.

Lemma servo_objs_used p : nonempty (servo_objs p) = servo_used p.
Proof.
  unfold servo_objs, servo_used.
  now rewrite nonempty_dedup_nil, nonempty_app, !nonempty_servo_names.
Qed.

Lemma lcd_scan_flags seen l :
  (existsb (fun o => negb (o_i2c o)) (lcd_scan seen l), existsb o_i2c (lcd_scan seen l))
  = lcd_flags l.
Proof.
  revert seen. induction l as [| n r IH]; intro seen; [reflexivity |].
  destruct n as [x | x | x | | | bs | b | b | bs]; cbn [lcd_scan lcd_flags]; try apply IH.
  - cbn [existsb o_i2c negb orb]. specialize (IH (x :: seen)).
    destruct (lcd_flags r) as [a b]. inversion IH; subst. reflexivity.
  - cbn [existsb o_i2c negb orb]. specialize (IH (x :: seen)).
    destruct (lcd_flags r) as [a b]. inversion IH; subst. reflexivity.
Qed.

Lemma lcd_objs_par p : existsb (fun o => negb (o_i2c o)) (lcd_objs p) = par_used p.
Proof.
  unfold lcd_objs, par_used. now rewrite <- (lcd_scan_flags [] (setup p)).
Qed.
Lemma lcd_objs_i2c p : existsb o_i2c (lcd_objs p) = i2c_used p.
Proof.
  unfold lcd_objs, i2c_used. now rewrite <- (lcd_scan_flags [] (setup p)).
Qed.

(* a header is included exactly when an object of its class is defined: for every program *)
Theorem includes_eq_instantiated p : includes p = instantiated p.
Proof.
  unfold includes, instantiated.
  now rewrite servo_objs_used, lcd_objs_par, lcd_objs_i2c.
Qed.

(* ------------------------------------------------------------------ includes is contained in required *)
Lemma top_in_deep_list f l : existsb f l = true -> any_list f l = true.
Proof.
  intro H. apply existsb_exists in H as [n [Hn Hf]].
  unfold any_list. apply existsb_exists. exists n. split; [exact Hn |].
  rewrite any_node_unfold, Hf. reflexivity.
Qed.

Lemma deep_setup f p : any_list f (setup p) = true -> deep f p = true.
Proof. intro H. unfold deep, all_lists. cbn [existsb]. now rewrite H. Qed.
Lemma deep_loop f p : any_list f (loop p) = true -> deep f p = true.
Proof. intro H. unfold deep, all_lists. cbn [existsb]. rewrite H. now rewrite orb_true_r. Qed.

(* every top-level LCD declaration of setup sets the flag of its interface *)
Lemma lcd_flags_spec l : lcd_flags l = (existsb is_par l, existsb is_i2c l).
Proof.
  induction l as [| n r IH]; [reflexivity |].
  destruct n as [x | x | x | | | bs | b | b | bs];
    cbn [lcd_flags existsb is_par is_i2c orb]; try exact IH.
  - rewrite IH. reflexivity.
  - rewrite IH. reflexivity.
Qed.

Lemma par_used_top p : par_used p = existsb is_par (setup p).
Proof. unfold par_used. now rewrite lcd_flags_spec. Qed.
Lemma i2c_used_top p : i2c_used p = existsb is_i2c (setup p).
Proof. unfold i2c_used. now rewrite lcd_flags_spec. Qed.

Lemma servo_used_deep p : servo_used p = true -> deep is_servo p = true.
Proof.
  unfold servo_used. intro H. apply orb_true_iff in H as [H | H].
  - apply deep_setup, top_in_deep_list, H.
  - apply deep_loop, top_in_deep_list, H.
Qed.
Lemma par_used_deep p : par_used p = true -> deep is_par p = true.
Proof.
  rewrite par_used_top. intro H. apply deep_setup, top_in_deep_list, H.
Qed.
Lemma i2c_used_deep p : i2c_used p = true -> deep is_i2c p = true.
Proof.
  rewrite i2c_used_top. intro H. apply deep_setup, top_in_deep_list, H.
Qed.

(* whatever is included is also requested: for every program *)
Theorem includes_incl_required p : incl (includes p) (required p).
Proof.
  intros l H. unfold includes in H. unfold required. rewrite In_canon in *.
  destruct l; auto using servo_used_deep, par_used_deep, i2c_used_deep.
Qed.

(* nothing is requested, included or instantiated for a library no declared device needs *)
Theorem needless_none p l :
  ~ declared l p ->
  ~ In l (required p) /\ ~ In l (includes p) /\ ~ In l (instantiated p).
Proof.
  intro Hn. assert (H1 : ~ In l (required p)) by (rewrite required_iff_declared; exact Hn).
  assert (H2 : ~ In l (includes p)) by (intro H; apply H1, includes_incl_required, H).
  repeat split; auto. rewrite <- includes_eq_instantiated. exact H2.
Qed.

Lemma no_member_nil {A} (l : list A) : (forall x, ~ In x l) -> l = [].
Proof. destruct l as [| a r]; [reflexivity |]. intro H. exfalso. apply (H a). now left. Qed.

Theorem needless_none_all p :
  (forall n, occurs n p -> needs n = None) ->
  required p = [] /\ includes p = [] /\ instantiated p = [] /\ headers p = [].
Proof.
  intro H.
  assert (Hd : forall l, ~ declared l p).
  { intros l [n [Hn Hl]]. rewrite (H n Hn) in Hl. discriminate. }
  assert (Hi : includes p = []).
  { apply no_member_nil. intros l. exact (proj1 (proj2 (needless_none p l (Hd l)))). }
  repeat split.
  - apply no_member_nil. intros l. exact (proj1 (needless_none p l (Hd l))).
  - exact Hi.
  - rewrite <- includes_eq_instantiated. exact Hi.
  - unfold includes in Hi. unfold headers.
    destruct (servo_used p), (par_used p), (i2c_used p); cbn in Hi; try discriminate. reflexivity.
Qed.

(* ------------------------------------------------------------------ agreement under the guard *)
Lemma nested_free_any_list f l : nested_free f l = true -> any_list f l = existsb f l.
Proof.
  unfold nested_free. induction l as [| n r IH]; [reflexivity |].
  cbn [forallb]. intro H. apply andb_true_iff in H as [Hn Hr].
  apply negb_true_iff in Hn.
  change (any_list f (n :: r)) with (any_node f n || any_list f r).
  rewrite any_node_unfold, Hn, orb_false_r, (IH Hr). reflexivity.
Qed.

Lemma absent_any_list f l : absent f l = true -> any_list f l = false.
Proof. unfold absent. apply negb_true_iff. Qed.

Lemma forallb_absent f fs : forallb (absent f) fs = true -> existsb (any_list f) fs = false.
Proof.
  induction fs as [| l r IH]; [reflexivity |]. cbn [forallb existsb]. intro H.
  apply andb_true_iff in H as [Hl Hr]. now rewrite (absent_any_list _ _ Hl), (IH Hr).
Qed.

Lemma deep_unfold f p :
  deep f p = any_list f (setup p) || (any_list f (loop p) || (any_list f (globals p) || existsb (any_list f) (functions p))).
Proof. reflexivity. Qed.

Lemma servos_documented_deep p :
  servos_documented p = true -> deep is_servo p = servo_used p.
Proof.
  unfold servos_documented, servo_used. intro H.
  apply andb_true_iff in H as [H Hf]. apply andb_true_iff in H as [H Hg].
  apply andb_true_iff in H as [Hs Hl].
  rewrite deep_unfold, (nested_free_any_list _ _ Hs), (nested_free_any_list _ _ Hl),
    (absent_any_list _ _ Hg), (forallb_absent _ _ Hf). now rewrite !orb_false_r.
Qed.

Lemma is_par_lcd n : is_par n = true -> is_lcd n = true.
Proof. unfold is_lcd. intros ->. reflexivity. Qed.
Lemma is_i2c_lcd n : is_i2c n = true -> is_lcd n = true.
Proof. unfold is_lcd. intros ->. apply orb_true_r. Qed.

Lemma lcds_documented_deep f p :
  (forall n, f n = true -> is_lcd n = true) ->
  lcds_documented p = true -> deep f p = existsb f (setup p).
Proof.
  unfold lcds_documented. intros Hf H.
  apply andb_true_iff in H as [H Hfn]. apply andb_true_iff in H as [H Hg].
  apply andb_true_iff in H as [Hs Hl].
  apply (nested_free_mono _ f _ Hf) in Hs. apply (absent_mono _ f _ Hf) in Hl.
  apply (absent_mono _ f _ Hf) in Hg. apply (forallb_absent_mono _ f _ Hf) in Hfn.
  rewrite deep_unfold, (nested_free_any_list _ _ Hs), (absent_any_list _ _ Hl),
    (absent_any_list _ _ Hg), (forallb_absent _ _ Hfn). now rewrite !orb_false_r.
Qed.

(* consistency as a proposition *)
Definition consistent (l : list node) : Prop :=
  forall y, In y (par_names l) -> ~ In y (i2c_names l).

Lemma zmem_In x l : zmem x l = true <-> In x l.
Proof.
  induction l as [| y r IH]; cbn; [split; [discriminate | tauto] |].
  rewrite orb_true_iff, Z.eqb_eq, IH. intuition congruence.
Qed.

Lemma lcd_names_consistent_spec l : lcd_names_consistent l = true <-> consistent l.
Proof.
  unfold lcd_names_consistent, consistent. rewrite forallb_forall. split; intros H y Hy.
  - specialize (H y Hy). apply negb_true_iff in H. intro Hin. apply zmem_In in Hin. congruence.
  - apply negb_true_iff. destruct (zmem y (i2c_names l)) eqn:E; [| reflexivity].
    apply zmem_In in E. exfalso. exact (H y Hy E).
Qed.

(* the guarded agreement: the three lists are equal as lists *)
Theorem agree_partial p :
  decls_at_documented_positions p = true ->
  required p = includes p /\ includes p = instantiated p.
Proof.
  unfold decls_at_documented_positions. intro H.
  apply andb_true_iff in H as [Hs Hl].
  split; [| apply includes_eq_instantiated].
  unfold required, includes.
  rewrite (servos_documented_deep p Hs),
    (lcds_documented_deep is_par p is_par_lcd Hl),
    (lcds_documented_deep is_i2c p is_i2c_lcd Hl),
    par_used_top, i2c_used_top.
  reflexivity.
Qed.

(* the region the repaired finding F-C14-lcd-rebind used to exclude (a name bound to both
   interfaces) is inside the agreement now *)
Theorem lcd_rebind_agree p :
  servos_documented p = true -> lcds_documented p = true ->
  lcd_names_consistent (setup p) = false ->
  required p = includes p /\ includes p = instantiated p.
Proof.
  intros Hs Hl _. apply agree_partial. unfold decls_at_documented_positions.
  now rewrite Hs, Hl.
Qed.

(* a library header is included exactly when a declaration needing it is a top-level statement
   of the code before the main loop (LCD) / of that code or of the loop body (Servo) *)
Theorem includes_iff_top p l :
  In l (includes p) <->
  match l with
  | LServo => existsb is_servo (setup p) = true \/ existsb is_servo (loop p) = true
  | LLiquidCrystal => existsb is_par (setup p) = true
  | LLiquidCrystalI2C => existsb is_i2c (setup p) = true
  end.
Proof.
  unfold includes. rewrite In_canon. destruct l.
  - unfold servo_used. apply orb_true_iff.
  - now rewrite par_used_top.
  - now rewrite i2c_used_top.
Qed.

(* ------------------------------------------------------------------ one object per LCD declaration *)
Definition obj_decl (o : lcd_obj) : bool * Z := (o_i2c o, o_name o).
Definition obj_ident (o : lcd_obj) : Z * Z := (o_name o, o_index o).
Definition lcd_names (l : list node) : list Z := map snd (lcd_decls l).

Lemma lcd_scan_decls seen l : map obj_decl (lcd_scan seen l) = lcd_decls l.
Proof.
  revert seen. induction l as [| n r IH]; intro seen; [reflexivity |].
  destruct n as [x | x | x | | | bs | b | b | bs]; cbn [lcd_scan lcd_decls map]; try apply IH.
  - unfold obj_decl at 1. cbn [o_i2c o_name]. now rewrite IH.
  - unfold obj_decl at 1. cbn [o_i2c o_name]. now rewrite IH.
Qed.

Lemma count_nonneg x l : 0 <= count x l.
Proof. induction l as [| y r IH]; cbn [count]; [lia |]. destruct (x =? y); lia. Qed.

Lemma count_cons_same x l : count x (x :: l) = 1 + count x l.
Proof. cbn [count]. now rewrite Z.eqb_refl. Qed.

Lemma count_cons_le x y l : count x l <= count x (y :: l).
Proof. cbn [count]. destruct (x =? y); lia. Qed.

Lemma count_app x a b : count x (a ++ b) = count x a + count x b.
Proof. induction a as [| y r IH]; cbn [count app]; [lia |]. rewrite IH. lia. Qed.

(* the binding index of an object is at least the number of declarations seen before *)
Lemma lcd_scan_index_ge seen l o :
  In o (lcd_scan seen l) -> count (o_name o) seen <= o_index o.
Proof.
  revert seen. induction l as [| n r IH]; intros seen Hin; [destruct Hin |].
  destruct n as [x | x | x | | | bs | b | b | bs]; cbn [lcd_scan] in Hin; try (apply IH; exact Hin).
  - destruct Hin as [<- | Hin]; [cbn [o_name o_index]; lia |].
    specialize (IH _ Hin). pose proof (count_cons_le (o_name o) x seen). lia.
  - destruct Hin as [<- | Hin]; [cbn [o_name o_index]; lia |].
    specialize (IH _ Hin). pose proof (count_cons_le (o_name o) x seen). lia.
Qed.

Lemma lcd_scan_idents_nodup seen l : NoDup (map obj_ident (lcd_scan seen l)).
Proof.
  revert seen. induction l as [| n r IH]; intro seen; [constructor |].
  assert (Hfresh : forall x, ~ In (x, count x seen) (map obj_ident (lcd_scan (x :: seen) r))).
  { intros x Hin. apply in_map_iff in Hin as [o [Ho Hin]].
    unfold obj_ident in Ho. injection Ho as Hn Hi. apply lcd_scan_index_ge in Hin.
    rewrite Hn, count_cons_same in Hin. lia. }
  destruct n as [x | x | x | | | bs | b | b | bs]; cbn [lcd_scan map]; try apply IH.
  - constructor; [exact (Hfresh x) | apply IH].
  - constructor; [exact (Hfresh x) | apply IH].
Qed.

(* scanning a concatenation: the second part continues with the counts of the first *)
Lemma lcd_scan_app a : forall seen b,
  exists seen', lcd_scan seen (a ++ b) = lcd_scan seen a ++ lcd_scan seen' b /\
                forall x, count x seen' = count x (lcd_names a) + count x seen.
Proof.
  induction a as [| n r IH]; intros seen b.
  - exists seen. split; [reflexivity | intro x; cbn; lia].
  - destruct n as [y | y | y | | | bs | bd | bd | bs]; cbn [app lcd_scan];
      try (destruct (IH seen b) as [s' [E C]]; exists s'; split; [exact E | exact C]).
    + destruct (IH (y :: seen) b) as [s' [E C]]. exists s'. split; [now rewrite E |].
      intro x. rewrite C. unfold lcd_names. cbn [lcd_decls map snd count]. lia.
    + destruct (IH (y :: seen) b) as [s' [E C]]. exists s'. split; [now rewrite E |].
      intro x. rewrite C. unfold lcd_names. cbn [lcd_decls map snd count]. lia.
Qed.

(* every LCD declaration before the main loop defines an object of the class of its interface,
   and the objects are pairwise distinct identifiers *)
Theorem lcd_object_per_declaration p :
  map obj_decl (lcd_objs p) = lcd_decls (setup p) /\
  NoDup (map obj_ident (lcd_objs p)).
Proof.
  unfold lcd_objs. split; [apply lcd_scan_decls | apply lcd_scan_idents_nodup].
Qed.

(* the object a declaration defines carries, as its binding index, the number of earlier
   declarations of the same name: a re-bound name gets a further object *)
Theorem lcd_binding_index p pre post x :
  setup p = pre ++ NLcdPar x :: post \/ setup p = pre ++ NLcdI2c x :: post ->
  exists i2c, In (mkObj i2c x (count x (lcd_names pre))) (lcd_objs p) /\
              (i2c = true <-> setup p = pre ++ NLcdI2c x :: post).
Proof.
  unfold lcd_objs. intros [E | E]; rewrite E.
  - exists false. destruct (lcd_scan_app pre [] (NLcdPar x :: post)) as [s' [Es C]].
    split.
    + rewrite Es. apply in_or_app. right. cbn [lcd_scan]. left.
      rewrite C. cbn [count]. now rewrite Z.add_0_r.
    + split; [discriminate |]. intro H. apply app_inv_head in H. discriminate.
  - exists true. destruct (lcd_scan_app pre [] (NLcdI2c x :: post)) as [s' [Es C]].
    split.
    + rewrite Es. apply in_or_app. right. cbn [lcd_scan]. left.
      rewrite C. cbn [count]. now rewrite Z.add_0_r.
    + split; [intros _; reflexivity | reflexivity].
Qed.

(* boolean form of the relation *)
Lemma lib_eqb_eq a b : lib_eqb a b = true <-> a = b.
Proof. destruct a, b; cbn; intuition congruence. Qed.

Lemma libs_eqb_eq a b : libs_eqb a b = true <-> a = b.
Proof.
  revert b. induction a as [| x a IH]; intros [| y b]; cbn; split; intro H;
    try reflexivity; try discriminate.
  - apply andb_true_iff in H as [H1 H2]. apply lib_eqb_eq in H1. apply IH in H2. congruence.
  - inversion H; subst. apply andb_true_iff. split; [now apply lib_eqb_eq | now apply IH].
Qed.

Lemma agree_spec p :
  agree p = true <-> required p = includes p /\ includes p = instantiated p.
Proof. unfold agree. now rewrite andb_true_iff, !libs_eqb_eq. Qed.

(* ------------------------------------------------------------------ the quantifier lies inside the guard *)
Definition is_leaf (n : node) : Prop := children n = [].

(* "servos at the top of the loop body": a prefix of leaf statements, and no servo after it *)
Definition servos_at_top (l : list node) : Prop :=
  exists pre rest, l = pre ++ rest /\ Forall is_leaf pre /\ absent is_servo rest = true.

Lemma absent_nested_free f l : absent f l = true -> nested_free f l = true.
Proof.
  unfold absent, nested_free. intro H. apply negb_true_iff in H.
  apply forallb_forall. intros n Hn. apply negb_true_iff.
  destruct (existsb (any_list f) (children n)) eqn:E; [| reflexivity].
  assert (Hx : any_list f l = true).
  { unfold any_list. apply existsb_exists. exists n. split; [exact Hn |].
    rewrite any_node_unfold, E. apply orb_true_r. }
  congruence.
Qed.

Lemma servos_at_top_nested_free l : servos_at_top l -> nested_free is_servo l = true.
Proof.
  intros [pre [rest [-> [Hpre Hrest]]]]. unfold nested_free. rewrite forallb_app.
  apply andb_true_iff. split.
  - apply forallb_forall. intros n Hn. rewrite Forall_forall in Hpre.
    rewrite (Hpre n Hn). reflexivity.
  - apply absent_nested_free, Hrest.
Qed.

(* ------------------------------------------------------------------ refutations outside the guard *)
(* a Servo declared inside an if-branch of setup: requested, not included, not instantiated *)
Definition w_servo_in_if : prog := mkProg [NOtherDecl; NIf [[NServo 0; NPlain]; []]] [NPlain] [] [].
(* a Servo declared inside a function *)
Definition w_servo_in_fn : prog := mkProg [NPlain] [] [[NServo 0; NPlain]] [].
(* an LCD declared at the top of the main loop body *)
Definition w_lcd_in_loop : prog := mkProg [] [NLcdPar 0; NPlain] [] [].
(* one LCD variable bound first to a parallel, then to an I2C display, both before the loop *)
Definition w_lcd_rebind : prog := mkProg [NLcdPar 0; NLcdI2c 0; NPlain] [] [] [].

Theorem nested_decl_refuted :
  exists p, In LServo (required p) /\ ~ In LServo (includes p) /\ ~ In LServo (instantiated p) /\
            servos_documented p = false.
Proof.
  exists w_servo_in_if. vm_compute. repeat split; auto; intros [H | []]; discriminate.
Qed.

Theorem fn_decl_refuted :
  exists p, In LServo (required p) /\ includes p = [] /\ instantiated p = [] /\
            servos_documented p = false.
Proof. exists w_servo_in_fn. vm_compute. repeat split; auto. Qed.

Theorem lcd_in_loop_refuted :
  exists p, required p = [LLiquidCrystal] /\ includes p = [] /\ instantiated p = [] /\
            lcds_documented p = false.
Proof. exists w_lcd_in_loop. vm_compute. repeat split; auto. Qed.

(* the witness of the repaired finding: inside the documented positions, one name bound to both
   interfaces - both libraries are requested, included and instantiated, two objects *)
Lemma lcd_rebind_nonvacuous :
  let p := w_lcd_rebind in
  servos_documented p = true /\ lcds_documented p = true /\
  lcd_names_consistent (setup p) = false /\
  required p = [LLiquidCrystal; LLiquidCrystalI2C] /\
  headers p = [HLiquidCrystal; HWire; HLiquidCrystalI2C] /\
  instantiated p = [LLiquidCrystal; LLiquidCrystalI2C] /\
  lcd_objs p = [mkObj false 0 0; mkObj true 0 1].
Proof. vm_compute. repeat split; reflexivity. Qed.

(* ------------------------------------------------------------------ non-vacuity witnesses *)
Lemma guard_nonvacuous :
  let p := mkProg
    [NOtherDecl; NServo 0; NLcdPar 1; NServo 2; NLcdI2c 3; NLcdPar 4; NLcdPar 1;
     NIf [[NPlain; NWhile [NPlain]]; [NFor [NPlain]]; []]; NTry [[NPlain]; [NPlain]]]
    [NPlain; NOtherDecl; NServo 5; NServo 0; NIf [[NPlain]; []]]
    [[NPlain; NIf [[NPlain]]]; []]
    [NPlain] in
  decls_at_documented_positions p = true /\
  required p = [LServo; LLiquidCrystal; LLiquidCrystalI2C] /\
  headers p = [HServo; HLiquidCrystal; HWire; HLiquidCrystalI2C] /\
  servo_objs p = [0; 2; 5] /\
  lcd_objs p = [mkObj false 1 0; mkObj true 3 0; mkObj false 4 0; mkObj false 1 1].
Proof. vm_compute. repeat split; reflexivity. Qed.

Lemma needless_nonvacuous :
  let p := mkProg [NOtherDecl; NIf [[NPlain]; []]] [NPlain] [[NPlain]] [] in
  (forall n, occurs n p -> needs n = None) /\
  declared LServo (mkProg [NIf [[NWhile [NServo 7]]]] [] [] []) /\
  servos_at_top [NOtherDecl; NServo 1; NServo 2; NPlain; NIf [[NPlain]]].
Proof.
  split; [| split].
  - intros n [l [c [Hl [Hc Hn]]]]. cbn in Hl.
    assert (Hleaf : forall m, occurs_in n m -> children m = [] -> n = m).
    { intros m Hm. destruct Hm as [| m b c' Hb]; [reflexivity |]. intro E. rewrite E in Hb. destruct Hb. }
    destruct Hl as [<- | [<- | [<- | [<- | []]]]]; cbn in Hc.
    + destruct Hc as [<- | [<- | []]].
      * rewrite (Hleaf _ Hn eq_refl). reflexivity.
      * inversion Hn as [| m b c' Hb Hc' Hm]; subst; [reflexivity |].
        cbn in Hb. destruct Hb as [<- | [<- | []]]; cbn in Hc'; [| destruct Hc'].
        destruct Hc' as [<- | []]. rewrite (Hleaf _ Hm eq_refl). reflexivity.
    + destruct Hc as [<- | []]. rewrite (Hleaf _ Hn eq_refl). reflexivity.
    + destruct Hc.
    + destruct Hc as [<- | []]. rewrite (Hleaf _ Hn eq_refl). reflexivity.
  - exists (NServo 7). split; [| reflexivity].
    exists [NIf [[NWhile [NServo 7]]]], (NIf [[NWhile [NServo 7]]]).
    split; [now left | split; [now left |]].
    eapply occ_child; [now left | now left |].
    eapply occ_child; [now left | now left | constructor].
  - exists [NOtherDecl; NServo 1; NServo 2], [NPlain; NIf [[NPlain]]].
    split; [reflexivity | split; [repeat constructor | reflexivity]].
Qed.
