(* The dispatch loop of _parse_simple_lines as a theorem about the CURRENT source: the order of the
   recognisers and their device-set guards (DESIGN.md Appendix B.5) is pinned, and the two spacing
   findings are refuted inside the model. *)
From Coq Require Import ZArith List Bool Lia.
From RV Require Import Base.Wire Base.Text Lang.Rx Lang.Lex Lang.LineShapes Lang.LineDispatch Proofs.RxP Proofs.LineShapesP Gen.LineRx.
Import ListNotations.
Open Scope Z_scope.

(* the chain without the table positions of the patterns *)
Definition strip_id (s : step) : step :=
  match s with
  | StImports rs => StImports (map (fun p => (0, snd p)) rs)
  | StRx _ r g => StRx 0 r g
  | StSearch _ r => StSearch 0 r
  | x => x
  end.

(* Appendix B.5, written down once: first match wins.  Guards: 0 rgb_led_names, 1 buzzer_names,
   2 servo_names, 3 dc_motor_names, 4 lcd_names *)
Definition expected_chain : list step := [
  StImports [(0, RE_IMPORT_ANY)];       (* since the repair of the silent drops: _import_end, ONE pattern for every import statement *)
  StEq [98;114;101;97;107];
  StEq [99;111;110;116;105;110;117;101];
  StPrefix [114;101;116;117;114;110];
  StRx 0 RE_TARGET_CALL None;
  StSearch 0 RE_TARGET_INLINE_body;
  StRx 0 RE_POTENTIOMETER_DECL None;
  StRx 0 RE_BUTTON_DECL None;
  StAssign;
  StRx 0 RE_IF None;
  StRx 0 RE_TRY None;
  StRx 0 RE_WHILE None;
  StRx 0 RE_FOR_RANGE None;
  StRx 0 RE_LCD_DECL None;
  StRx 0 RE_LED_DECL None;
  StRx 0 RE_BUZZER_DECL None;
  StRx 0 RE_SERVO_DECL None;
  StRx 0 RE_DC_MOTOR_DECL None;
  StRx 0 RE_RGB_LED_DECL None;
  StRx 0 RE_ULTRASONIC_DECL None;
  StRx 0 RE_SERIAL_DECL None;
  StRx 0 RE_RGB_LED_SET_COLOR (Some 0%nat);
  StRx 0 RE_RGB_LED_ON (Some 0%nat);
  StRx 0 RE_RGB_LED_OFF (Some 0%nat);
  StRx 0 RE_RGB_LED_FADE (Some 0%nat);
  StRx 0 RE_RGB_LED_BLINK (Some 0%nat);
  StRx 0 RE_LED_ON None;
  StRx 0 RE_LED_OFF None;
  StRx 0 RE_LED_TOGGLE None;
  StRx 0 RE_LED_SET_BRIGHTNESS None;
  StRx 0 RE_LED_BLINK None;
  StRx 0 RE_LED_FADE_IN None;
  StRx 0 RE_LED_FADE_OUT None;
  StRx 0 RE_LED_FLASH_PATTERN None;
  StRx 0 RE_BUZZER_PLAY_TONE None;
  StRx 0 RE_BUZZER_STOP (Some 1%nat);
  StRx 0 RE_BUZZER_BEEP None;
  StRx 0 RE_BUZZER_SWEEP None;
  StRx 0 RE_BUZZER_MELODY None;
  StRx 0 RE_SERVO_WRITE (Some 2%nat);
  StRx 0 RE_SERVO_WRITE_US (Some 2%nat);
  StRx 0 RE_DC_MOTOR_SET_SPEED (Some 3%nat);
  StRx 0 RE_DC_MOTOR_BACKWARD (Some 3%nat);
  StRx 0 RE_DC_MOTOR_STOP (Some 3%nat);
  StRx 0 RE_DC_MOTOR_COAST (Some 3%nat);
  StRx 0 RE_DC_MOTOR_INVERT (Some 3%nat);
  StRx 0 RE_DC_MOTOR_RAMP (Some 3%nat);
  StRx 0 RE_DC_MOTOR_RUN_FOR (Some 3%nat);
  StRx 0 RE_LCD_WRITE (Some 4%nat);
  StRx 0 RE_LCD_LINE (Some 4%nat);
  StRx 0 RE_LCD_MESSAGE (Some 4%nat);
  StRx 0 RE_LCD_CLEAR (Some 4%nat);
  StRx 0 RE_LCD_DISPLAY (Some 4%nat);
  StRx 0 RE_LCD_BACKLIGHT (Some 4%nat);
  StRx 0 RE_LCD_BRIGHTNESS (Some 4%nat);
  StRx 0 RE_LCD_GLYPH (Some 4%nat);
  StRx 0 RE_LCD_PROGRESS (Some 4%nat);
  StRx 0 RE_LCD_ANIMATE (Some 4%nat);
  StRx 0 RE_SERIAL_WRITE None;
  StRx 0 RE_SLEEP_EXPR None;
  StTail
].

Lemma chain_order_pinned : map strip_id chain = expected_chain /\ n_guard_sets = 5%nat.
Proof.
  split; [|reflexivity].
  assert (H : chain_eqb (map strip_id chain) expected_chain = true) by (vm_compute; reflexivity).
  revert H. generalize (map strip_id chain) expected_chain.
  assert (I : forall a b, imports_eqb a b = true -> a = b).
  { induction a as [|[i r] a IH]; destruct b as [|[j q] b]; cbn; try discriminate; [reflexivity|].
    intro H. apply andb_true_iff in H as [H H3]. apply andb_true_iff in H as [H1 H2].
    apply Z.eqb_eq in H1. apply rx_eqb_eq in H2. apply IH in H3. subst. reflexivity. }
  assert (S : forall a b, step_eqb a b = true -> a = b).
  { destruct a, b; cbn; try discriminate; try reflexivity; intro H.
    - apply I in H. subst. reflexivity.
    - apply text_eqb_eq in H. subst. reflexivity.
    - apply text_eqb_eq in H. subst. reflexivity.
    - apply andb_true_iff in H as [H H3]. apply andb_true_iff in H as [H1 H2].
      apply Z.eqb_eq in H1. apply rx_eqb_eq in H2. subst.
      destruct guard, guard0; cbn in H3; try discriminate; [apply Nat.eqb_eq in H3; subst|]; reflexivity.
    - apply andb_true_iff in H as [H1 H2]. apply Z.eqb_eq in H1. apply rx_eqb_eq in H2. subst. reflexivity. }
  intro a0. induction a0 as [|x a IH]; intros [|y b]; cbn; try discriminate; [reflexivity|].
  intro H. apply andb_true_iff in H as [H1 H2]. apply S in H1. apply IH in H2. subst. reflexivity.
Qed.

(* every id of the chain names the pattern the chain carries *)
Definition step_ids_ok (s : step) : bool :=
  match s with
  | StImports rs => forallb (fun p => rx_eqb (rx_of rx_table (fst p)) (snd p)) rs
  | StRx i r _ => rx_eqb (rx_of rx_table i) r
  | StSearch i r => rx_eqb (rx_of rx_table i) r
  | _ => true
  end.
Lemma chain_ids_ok : forallb step_ids_ok chain = true.
Proof. vm_compute. reflexivity. Qed.

(* ================================================================ the spacing findings, inside the model *)
Definition s_led : text := [108;101;100].           Definition s_on : text := [111;110].
Definition s_mon : text := [109;111;110].           Definition s_write : text := [119;114;105;116;101].
Definition s_arg : text := [34;120;34].             (* "x" *)
Definition hd_of (r : list (Z * bool) * handler) : handler := snd r.
Definition is_rx_handler (r : rx) (h : handler) : bool :=
  match h with HRx i => rx_eqb (rx_of rx_table i) r | _ => false end.
Definition is_tail (h : handler) : bool := match h with HTail => true | _ => false end.

(* F-C07-call-paren-space: a blank between the method name and `(`, or between `.` and the method name -
   the same token sequence for Python - is not recognised; the line falls through the whole chain *)
Lemma call_paren_space_refuted :
  exists name meth g0 g1 g2 g3,
    is_ident name = true /\ gap g0 = true /\ gap g1 = true /\ gap g2 = true /\ gap g3 = true /\
    rx_match (sh_method0 meth) (line_call0 name meth [] [] [] []) = true /\
    rx_match (sh_method0 meth) (line_call0 name meth g0 g1 g2 g3) = false /\
    is_rx_handler RE_LED_ON (hd_of (dispatch chain false [] (line_call0 name meth [] [] [] []))) = true /\
    is_tail (hd_of (dispatch chain false [] (line_call0 name meth g0 g1 g2 g3))) = true.
Proof. exists s_led, s_on, [], [], [32], []. repeat split; vm_compute; reflexivity. Qed.

Lemma call_dot_space_refuted :
  exists name meth g1, is_ident name = true /\ gap g1 = true /\
    rx_match (sh_method0 meth) (line_call0 name meth [] g1 [] []) = false /\
    is_tail (hd_of (dispatch chain false [] (line_call0 name meth [] g1 [] []))) = true.
Proof. exists s_led, s_on, [32]. repeat split; vm_compute; reflexivity. Qed.

Lemma call_args_paren_space_refuted :
  exists name meth args g2, is_ident name = true /\ one_line args = true /\ gap g2 = true /\
    is_rx_handler RE_SERIAL_WRITE (hd_of (dispatch chain false [] (line_call name meth args [] [] [] [] []))) = true /\
    rx_match (sh_method meth) (line_call name meth args [] [] g2 [] []) = false /\
    is_tail (hd_of (dispatch chain false [] (line_call name meth args [] [] g2 [] []))) = true.
Proof. exists s_mon, s_write, s_arg, [32]. repeat split; vm_compute; reflexivity. Qed.

(* F-C07-keyword-paren: `if(x>1):` is Python's `if (x>1):`; RE_IF wants a blank after the keyword, so the
   header is not seen as a block header (hand model Lex.re_if and regenerated RE_IF agree on that) and the
   line falls through the whole chain *)
Definition s_if_paren : text := [105;102;40;120;62;49;41;58].          (* if(x>1): *)
Definition s_if_blank : text := [105;102;32;40;120;62;49;41;58].       (* if (x>1): *)
Lemma keyword_paren_refuted :
  rx_match RE_IF s_if_blank = true /\ re_if s_if_blank = true /\
  rx_match RE_IF s_if_paren = false /\ re_if s_if_paren = false /\
  is_rx_handler RE_IF (hd_of (dispatch chain false [] s_if_blank)) = true /\
  is_tail (hd_of (dispatch chain false [] s_if_paren)) = true.
Proof. repeat split; vm_compute; reflexivity. Qed.

(* the hand-written header recognisers of Lang/Lex.v and the regenerated patterns: same verdict on a
   finite family of header texts (the full comparison runs in the correspondence on generated lines) *)
Definition header_samples : list text :=
  [s_if_paren; s_if_blank; [105;102;32;120;58]; [101;108;115;101;58]; [101;108;115;101;32;58]; [116;114;121;58];
   [119;104;105;108;101;32;84;114;117;101;58]; [119;104;105;108;101;32;120;60;51;32;58]; [101;108;105;102;32;120;58];
   [101;120;99;101;112;116;58]; [101;120;99;101;112;116;32;69;32;97;115;32;101;58];
   [102;111;114;32;105;32;105;110;32;114;97;110;103;101;40;51;41;58]; [102;111;114;32;105;32;105;110;32;114;97;110;103;101;32;40;51;41;58];
   [100;101;102;32;102;40;41;58]; [100;101;102;32;102;32;40;97;41;32;58]; [105;102;58]; [119;104;105;108;101;40;120;41;58]].
Lemma header_models_agree :
  forallb (fun t => Bool.eqb (rx_match RE_IF t) (re_if t) && Bool.eqb (rx_match RE_ELIF t) (re_elif t)
                    && Bool.eqb (rx_match RE_ELSE t) (re_else t) && Bool.eqb (rx_match RE_TRY t) (re_try t)
                    && Bool.eqb (rx_match RE_EXCEPT t) (re_except t) && Bool.eqb (rx_match RE_WHILE t) (re_while t)
                    && Bool.eqb (rx_match RE_WHILE_TRUE t) (re_while_true t) && Bool.eqb (rx_match RE_FOR_RANGE t) (re_for_range t)
                    && Bool.eqb (rx_match RE_DEF t) (re_def t)) header_samples = true.
Proof. vm_compute. reflexivity. Qed.

(* unguarded handlers: the Led recognisers take ANY receiver that is not a declared RGB LED - here a
   name that was never declared *)
Lemma led_handler_unguarded :
  is_rx_handler RE_LED_ON (hd_of (dispatch chain false [[]; []; []; []; []] (line_call0 [120;121;122] s_on [] [] [] []))) = true /\
  is_rx_handler RE_RGB_LED_ON (hd_of (dispatch chain false [[[120;121;122]]; []; []; []; []] (line_call0 [120;121;122] s_on [] [] [] []))) = true.
Proof. split; vm_compute; reflexivity. Qed.

(* ================================================================ the end of the loop (repaired: nothing is dropped) *)
Definition s_pass : text := [112;97;115;115].

(* what the CURRENT source does at the end of the loop, read by the translator: `pass` and global declarations are
   skipped, a failed expression translation raises, anything else raises *)
Lemma tail_pinned :
  tail_benign_eq = [s_pass] /\ map snd tail_benign_rx = [RE_GLOBAL] /\ tail_rejects = true /\ tail_expr_failure_rejects = true.
Proof. repeat split; vm_compute; reflexivity. Qed.

(* REPAIRED (was: every line reaching the tail that is not an expression is dropped): no line is dropped *)
Lemma tail_never_drops : forall isexpr line,
  tail_class_of tail_benign_eq tail_benign_rx tail_rejects isexpr line <> TDropped.
Proof.
  intros isexpr line. unfold tail_class_of. change tail_rejects with true.
  destruct isexpr; [discriminate|]. destruct (tail_benign tail_benign_eq tail_benign_rx line); discriminate.
Qed.

(* ... a line that no recogniser took and that is not an expression is rejected unless it is exactly `pass` or a
   global declaration *)
Lemma tail_rejects_unrecognised : forall line,
  tail_class_of tail_benign_eq tail_benign_rx tail_rejects false line = TReject
  <-> (line <> s_pass /\ rx_match RE_GLOBAL line = false).
Proof.
  intro line. unfold tail_class_of, tail_benign.
  assert (Q : existsb (text_eqb line) tail_benign_eq = text_eqb line s_pass || false) by reflexivity.
  assert (R : existsb (fun p => rx_match (snd p) line) tail_benign_rx = rx_match RE_GLOBAL line || false) by reflexivity.
  rewrite Q, R, !orb_false_r. change tail_rejects with true.
  destruct (text_eqb line s_pass) eqn:E.
  - apply text_eqb_eq in E. cbn [orb]. split; [discriminate|]. intros [H _]. contradiction.
  - assert (N : line <> s_pass).
    { intro H. subst line. vm_compute in E. discriminate. }
    cbn [orb]. destruct (rx_match RE_GLOBAL line); split; try discriminate; auto.
    intros [_ H]. discriminate.
Qed.

(* `global x`, `global a ,b_2` are skipped; `globalx`, `global`, `global x; y = 5`, `del x`, `pass x`, `if(x>1):` are rejected *)
Lemma tail_examples :
  tail_class_of tail_benign_eq tail_benign_rx tail_rejects false s_pass = TBenign /\
  tail_class_of tail_benign_eq tail_benign_rx tail_rejects false [103;108;111;98;97;108;32;120] = TBenign /\
  tail_class_of tail_benign_eq tail_benign_rx tail_rejects false [103;108;111;98;97;108;32;97;32;44;98;95;50] = TBenign /\
  tail_class_of tail_benign_eq tail_benign_rx tail_rejects false [103;108;111;98;97;108;120] = TReject /\
  tail_class_of tail_benign_eq tail_benign_rx tail_rejects false [103;108;111;98;97;108] = TReject /\
  tail_class_of tail_benign_eq tail_benign_rx tail_rejects false [103;108;111;98;97;108;32;120;59;32;121;32;61;32;53] = TReject /\
  tail_class_of tail_benign_eq tail_benign_rx tail_rejects false [100;101;108;32;120] = TReject /\        (* del x *)
  tail_class_of tail_benign_eq tail_benign_rx tail_rejects false [112;97;115;115;32;120] = TReject /\     (* pass x *)
  tail_class_of tail_benign_eq tail_benign_rx tail_rejects false s_if_paren = TReject.
Proof. repeat split; vm_compute; reflexivity. Qed.
