(* Spacing theorems for the statement recognisers: for which optional white space between the tokens
   of a statement the RE_* pattern (as regenerated from parser.py) still recognises the statement. *)
From Coq Require Import ZArith List Bool Lia.
From RV Require Import Base.Wire Base.Text Lang.Rx Lang.Lex Lang.LineShapes Lang.LineDispatch Proofs.RxP Gen.LineRx.
Import ListNotations.
Open Scope Z_scope.

(* ================================================================ each regenerated pattern IS its shape *)
Definition shape_table : list (rx * rx) := [
  (RE_LED_ON, sh_method0 [111;110]); (RE_LED_OFF, sh_method0 [111;102;102]); (RE_LED_TOGGLE, sh_method0 [116;111;103;103;108;101]);
  (RE_BUZZER_STOP, sh_method0 [115;116;111;112]); (RE_DC_MOTOR_STOP, sh_method0 [115;116;111;112]);
  (RE_DC_MOTOR_COAST, sh_method0 [99;111;97;115;116]); (RE_DC_MOTOR_INVERT, sh_method0 [105;110;118;101;114;116]);
  (RE_LCD_CLEAR, sh_method0 [99;108;101;97;114]); (RE_RGB_LED_OFF, sh_method0 [111;102;102]);
  (RE_BUZZER_BEEP, sh_method [98;101;101;112]); (RE_BUZZER_MELODY, sh_method [109;101;108;111;100;121]);
  (RE_BUZZER_PLAY_TONE, sh_method [112;108;97;121;95;116;111;110;101]); (RE_BUZZER_SWEEP, sh_method [115;119;101;101;112]);
  (RE_DC_MOTOR_BACKWARD, sh_method [98;97;99;107;119;97;114;100]); (RE_DC_MOTOR_RAMP, sh_method [114;97;109;112]);
  (RE_DC_MOTOR_RUN_FOR, sh_method [114;117;110;95;102;111;114]); (RE_DC_MOTOR_SET_SPEED, sh_method [115;101;116;95;115;112;101;101;100]);
  (RE_LCD_ANIMATE, sh_method [97;110;105;109;97;116;101]); (RE_LCD_BACKLIGHT, sh_method [98;97;99;107;108;105;103;104;116]);
  (RE_LCD_BRIGHTNESS, sh_method [98;114;105;103;104;116;110;101;115;115]); (RE_LCD_DISPLAY, sh_method [100;105;115;112;108;97;121]);
  (RE_LCD_GLYPH, sh_method [103;108;121;112;104]); (RE_LCD_LINE, sh_method [108;105;110;101]);
  (RE_LCD_MESSAGE, sh_method [109;101;115;115;97;103;101]); (RE_LCD_PROGRESS, sh_method [112;114;111;103;114;101;115;115]);
  (RE_LCD_WRITE, sh_method [119;114;105;116;101]); (RE_LED_BLINK, sh_method [98;108;105;110;107]);
  (RE_LED_FADE_IN, sh_method [102;97;100;101;95;105;110]); (RE_LED_FADE_OUT, sh_method [102;97;100;101;95;111;117;116]);
  (RE_LED_FLASH_PATTERN, sh_method [102;108;97;115;104;95;112;97;116;116;101;114;110]);
  (RE_LED_SET_BRIGHTNESS, sh_method [115;101;116;95;98;114;105;103;104;116;110;101;115;115]);
  (RE_RGB_LED_BLINK, sh_method [98;108;105;110;107]); (RE_RGB_LED_FADE, sh_method [102;97;100;101]);
  (RE_RGB_LED_ON, sh_method [111;110]); (RE_RGB_LED_SET_COLOR, sh_method [115;101;116;95;99;111;108;111;114]);
  (RE_SERIAL_WRITE, sh_method [119;114;105;116;101]); (RE_SERVO_WRITE, sh_method [119;114;105;116;101]);
  (RE_SERVO_WRITE_US, sh_method [119;114;105;116;101;95;117;115]);
  (RE_BUTTON_DECL, sh_decl [66;117;116;116;111;110]); (RE_BUZZER_DECL, sh_decl [66;117;122;122;101;114]);
  (RE_DC_MOTOR_DECL, sh_decl [68;67;77;111;116;111;114]); (RE_LCD_DECL, sh_decl [76;67;68]); (RE_LED_DECL, sh_decl [76;101;100]);
  (RE_POTENTIOMETER_DECL, sh_decl [80;111;116;101;110;116;105;111;109;101;116;101;114]); (RE_RGB_LED_DECL, sh_decl [82;71;66;76;101;100]);
  (RE_SERIAL_DECL, sh_decl [83;101;114;105;97;108;77;111;110;105;116;111;114]); (RE_SERVO_DECL, sh_decl [83;101;114;118;111]);
  (RE_ULTRASONIC_DECL, sh_decl [85;108;116;114;97;115;111;110;105;99]);
  (RE_IMPORT_BUTTON, sh_import [82;101;100;117;105;110;111;46;83;101;110;115;111;114;115] [66;117;116;116;111;110]);
  (RE_IMPORT_BUZZER, sh_import [82;101;100;117;105;110;111;46;65;99;116;117;97;116;111;114;115] [66;117;122;122;101;114]);
  (RE_IMPORT_DC_MOTOR, sh_import [82;101;100;117;105;110;111;46;65;99;116;117;97;116;111;114;115] [68;67;77;111;116;111;114]);
  (RE_IMPORT_LCD, sh_import [82;101;100;117;105;110;111;46;68;105;115;112;108;97;121;115] [76;67;68]);
  (RE_IMPORT_LED, sh_import [82;101;100;117;105;110;111;46;65;99;116;117;97;116;111;114;115] [76;101;100]);
  (RE_IMPORT_POTENTIOMETER, sh_import [82;101;100;117;105;110;111;46;83;101;110;115;111;114;115] [80;111;116;101;110;116;105;111;109;101;116;101;114]);
  (RE_IMPORT_RGB_LED, sh_import [82;101;100;117;105;110;111;46;65;99;116;117;97;116;111;114;115] [82;71;66;76;101;100]);
  (RE_IMPORT_SERIAL, sh_import [82;101;100;117;105;110;111;46;67;111;109;109;117;110;105;99;97;116;105;111;110] [83;101;114;105;97;108;77;111;110;105;116;111;114]);
  (RE_IMPORT_SERVO, sh_import [82;101;100;117;105;110;111;46;65;99;116;117;97;116;111;114;115] [83;101;114;118;111]);
  (RE_IMPORT_SLEEP, sh_import [82;101;100;117;105;110;111;46;85;116;105;108;115] [115;108;101;101;112]);
  (RE_IMPORT_TARGET, sh_import [82;101;100;117;105;110;111] [116;97;114;103;101;116]);
  (RE_IMPORT_ULTRASONIC, sh_import [82;101;100;117;105;110;111;46;83;101;110;115;111;114;115] [85;108;116;114;97;115;111;110;105;99]);
  (RE_SLEEP_EXPR, sh_sleep);
  (RE_TARGET_CALL, rx_target_call); (RE_TARGET_INLINE_body, rx_target_inline_body)
].

Lemma shapes_agree : forall p, In p shape_table -> fst p = snd p.
Proof.
  assert (H : forallb (fun p => rx_eqb (fst p) (snd p)) shape_table = true) by (vm_compute; reflexivity).
  intros p Hp. apply rx_eqb_eq. exact (proj1 (forallb_forall _ _) H p Hp).
Qed.

(* every pattern the dispatch loop tries is one of the regenerated patterns, and 63 of the 76 have a shape
   (RE_IMPORT_ANY and RE_GLOBAL came with the repair of the silent drops) *)
Lemma shape_table_size : length shape_table = 63%nat /\ length rx_table = 76%nat.
Proof. split; vm_compute; reflexivity. Qed.

(* ================================================================ building members of the language *)
Lemma cat_list_cons r rs s1 s2 : lang r s1 -> lang (cat_list rs) s2 -> lang (cat_list (r :: rs)) (s1 ++ s2).
Proof.
  intros H1 H2. destruct rs as [|r2 q].
  - cbn [cat_list lang] in *. subst. rewrite app_nil_r. exact H1.
  - change (cat_list (r :: r2 :: q)) with (RCat r (cat_list (r2 :: q))). exists s1, s2. auto.
Qed.
Lemma cat_list_cons_inv r rs s : lang (cat_list (r :: rs)) s -> exists s1 s2, s = s1 ++ s2 /\ lang r s1 /\ lang (cat_list rs) s2.
Proof.
  destruct rs as [|r2 q]; intro H.
  - exists s, []. rewrite app_nil_r. cbn [cat_list lang]. auto.
  - exact H.
Qed.
Lemma cat_list_app : forall rs1 rs2 s1 s2, lang (cat_list rs1) s1 -> lang (cat_list rs2) s2 -> lang (cat_list (rs1 ++ rs2)) (s1 ++ s2).
Proof.
  induction rs1 as [|r q IH]; intros rs2 s1 s2 H1 H2.
  - cbn [cat_list lang] in H1. subst. exact H2.
  - apply cat_list_cons_inv in H1 as (t1 & t2 & -> & Hr & Hq). rewrite <- app_assoc. cbn [app].
    apply cat_list_cons; [exact Hr|]. apply IH; assumption.
Qed.
Lemma cat_list_one r s : lang r s -> lang (cat_list [r]) s.
Proof. intro H. exact H. Qed.

Lemma lang_lit c : lang (lit c) [c].
Proof. exists c. split; [reflexivity|]. cbn. rewrite !Z.leb_refl. reflexivity. Qed.
Lemma lang_lits : forall t, lang (cat_list (lits t)) t.
Proof.
  induction t as [|c q IH]; [reflexivity|]. change (lits (c :: q)) with (lit c :: lits q).
  change (c :: q) with ([c] ++ q). apply cat_list_cons; [apply lang_lit|exact IH].
Qed.

Lemma lang_star_cls k : forall t, forallb (cc_mem k) t = true -> lang (RStar (RC k)) t.
Proof.
  intros t H. exists (map (fun c => [c]) t). split.
  - clear H. induction t as [|c q IH]; [reflexivity|]. cbn. rewrite <- IH. reflexivity.
  - induction t as [|c q IH]; cbn; constructor.
    + cbn in H. apply andb_true_iff in H as [Hc _]. exists c. auto.
    + apply IH. cbn in H. apply andb_true_iff in H as [_ Hq]. exact Hq.
Qed.

Lemma gap_space g : gap g = true -> forallb (cc_mem (CC false [ISpace])) g = true.
Proof.
  unfold gap. intro H. rewrite forallb_forall in *. intros c Hc. specialize (H c Hc).
  cbn. rewrite orb_false_r.
  apply orb_true_iff in H as [H|H]; [apply orb_true_iff in H as [H|H]|]; apply Z.eqb_eq in H; subst c; reflexivity.
Qed.
Lemma lang_gap g : gap g = true -> lang (RStar rsp) g.
Proof. intro H. apply lang_star_cls. apply gap_space. exact H. Qed.

Lemma lang_args a : one_line a = true -> lang (RStar rany) a.
Proof. intro H. apply lang_star_cls. exact H. Qed.

Lemma lang_ident n : is_ident n = true -> lang (cat_list rx_ident) n.
Proof.
  destruct n as [|c r]; [discriminate|]. cbn [is_ident]. intro H. apply andb_true_iff in H as [Hc Hr].
  unfold rx_ident. change (c :: r) with ([c] ++ r). apply cat_list_cons; [exists c; auto|].
  apply cat_list_one. apply lang_star_cls. rewrite forallb_forall in *. intros x Hx. cbn. rewrite (Hr x Hx). reflexivity.
Qed.

Lemma lang_nil_star r : lang (RStar r) [].
Proof. exists []. split; [reflexivity|constructor]. Qed.

Ltac one := apply cat_list_one.
Ltac step := first [ apply cat_list_cons | apply cat_list_one ].

(* ================================================================ NAME . METH ( ) *)
Theorem method0_accepts : forall meth name g0 g3,
  is_ident name = true -> gap g0 = true -> gap g3 = true ->
  rx_match (sh_method0 meth) (line_call0 name meth g0 [] [] g3) = true.
Proof.
  intros meth name g0 g3 Hn H0 H3. apply rx_match_ok. unfold sh_method0, line_call0.
  change (name ++ (g0 ++ [46]) ++ [] ++ meth ++ [] ++ 40 :: g3 ++ [41])
    with ([] ++ name ++ (g0 ++ [46]) ++ meth ++ ([40] ++ g3 ++ [41] ++ [])).
  apply cat_list_cons; [apply lang_nil_star|].
  apply cat_list_app; [apply lang_ident; exact Hn|].
  apply cat_list_app.
  { apply cat_list_cons; [apply lang_gap; exact H0|]. one. apply lang_lit. }
  apply cat_list_app; [apply lang_lits|].
  apply cat_list_cons; [apply lang_lit|]. apply cat_list_cons; [apply lang_gap; exact H3|].
  apply cat_list_cons; [apply lang_lit|]. one. apply lang_nil_star.
Qed.

(* ================================================================ NAME . METH ( ARGS ) *)
Theorem method_accepts : forall meth name args g0 g3 g4,
  is_ident name = true -> one_line args = true -> gap g0 = true -> gap g3 = true -> gap g4 = true ->
  rx_match (sh_method meth) (line_call name meth args g0 [] [] g3 g4) = true.
Proof.
  intros meth name args g0 g3 g4 Hn Ha H0 H3 H4. apply rx_match_ok. unfold sh_method, line_call.
  change (name ++ (g0 ++ [46]) ++ [] ++ meth ++ [] ++ 40 :: g3 ++ args ++ g4 ++ [41])
    with ([] ++ name ++ (g0 ++ [46]) ++ meth ++ ([40] ++ g3 ++ args ++ g4 ++ [41] ++ [])).
  apply cat_list_cons; [apply lang_nil_star|].
  apply cat_list_app; [apply lang_ident; exact Hn|].
  apply cat_list_app.
  { apply cat_list_cons; [apply lang_gap; exact H0|]. one. apply lang_lit. }
  apply cat_list_app; [apply lang_lits|].
  apply cat_list_cons; [apply lang_lit|]. apply cat_list_cons; [apply lang_gap; exact H3|].
  apply cat_list_cons; [apply lang_args; exact Ha|]. apply cat_list_cons; [apply lang_gap; exact H4|].
  apply cat_list_cons; [apply lang_lit|]. one. apply lang_nil_star.
Qed.

(* ================================================================ NAME = CLS ( ARGS ): every gap is optional *)
Theorem decl_accepts : forall cls name args g0 g1 g2 g3 g4,
  is_ident name = true -> one_line args = true ->
  gap g0 = true -> gap g1 = true -> gap g2 = true -> gap g3 = true -> gap g4 = true ->
  rx_match (sh_decl cls) (line_decl name cls args g0 g1 g2 g3 g4) = true.
Proof.
  intros cls name args g0 g1 g2 g3 g4 Hn Ha H0 H1 H2 H3 H4. apply rx_match_ok. unfold sh_decl, line_decl.
  change (name ++ (g0 ++ 61 :: g1) ++ cls ++ g2 ++ 40 :: g3 ++ args ++ g4 ++ [41])
    with ([] ++ name ++ (g0 ++ [61] ++ g1) ++ cls ++ (g2 ++ [40] ++ g3 ++ args ++ g4 ++ [41] ++ [])).
  apply cat_list_cons; [apply lang_nil_star|].
  apply cat_list_app; [apply lang_ident; exact Hn|].
  apply cat_list_app.
  { apply cat_list_cons; [apply lang_gap; exact H0|]. apply cat_list_cons; [apply lang_lit|]. one. apply lang_gap; exact H1. }
  apply cat_list_app; [apply lang_lits|].
  apply cat_list_cons; [apply lang_gap; exact H2|].
  apply cat_list_cons; [apply lang_lit|]. apply cat_list_cons; [apply lang_gap; exact H3|].
  apply cat_list_cons; [apply lang_args; exact Ha|]. apply cat_list_cons; [apply lang_gap; exact H4|].
  apply cat_list_cons; [apply lang_lit|]. one. apply lang_nil_star.
Qed.

(* ================================================================ sleep ( ARGS ): every gap is optional *)
Theorem sleep_accepts : forall args g0 g1 g2,
  one_line args = true -> args <> [] -> gap g0 = true -> gap g1 = true -> gap g2 = true ->
  rx_match sh_sleep (line_sleep args g0 g1 g2) = true.
Proof.
  intros args g0 g1 g2 Ha Hne H0 H1 H2. apply rx_match_ok. unfold sh_sleep, line_sleep.
  change (w_sleep_ ++ g0 ++ 40 :: g1 ++ args ++ g2 ++ [41])
    with ([] ++ w_sleep_ ++ (g0 ++ [40] ++ g1 ++ args ++ g2 ++ [41] ++ [])).
  apply cat_list_cons; [apply lang_nil_star|].
  apply cat_list_app; [apply lang_lits|].
  apply cat_list_cons; [apply lang_gap; exact H0|].
  apply cat_list_cons; [apply lang_lit|]. apply cat_list_cons; [apply lang_gap; exact H1|].
  apply cat_list_cons.
  { destruct args as [|c q]; [contradiction|]. cbn [one_line forallb] in Ha. apply andb_true_iff in Ha as [Hc Hq].
    exists [c], q. split; [reflexivity|]. split; [exists c; auto|]. apply lang_star_cls. exact Hq. }
  apply cat_list_cons; [apply lang_gap; exact H2|].
  apply cat_list_cons; [apply lang_lit|]. one. apply lang_nil_star.
Qed.
