(* C10 - a memo table in front of a pure helper is invisible iff the keys it identifies have one result. *)
From Coq Require Import ZArith QArith Qround Qreduction List Bool String Lia.
From RV Require Import Base.Wire Base.Text Base.Num Lang.Order Lang.MemoSession.
Import ListNotations.
Open Scope Z_scope.

Section MemoP.
  Variable keq : hcall -> hcall -> bool.
  Variable cached : hcall -> bool.
  Variable after_hit after_miss : table -> table.

  Notation lookup := (lookup keq).
  Notation call := (call keq cached after_hit after_miss).
  Notation run_prog := (run_prog keq cached after_hit after_miss).
  Notation session := (session keq cached after_hit after_miss).

  (* no call goes through a table: nothing to thread *)
  Lemma uncached_run t p : (forall c, cached c = false) -> run_prog t p = (map spec p, t).
  Proof.
    intros Hn. revert t. induction p as [|k r IH]; intros t; cbn; [reflexivity|].
    unfold MemoSession.call. rewrite Hn. rewrite IH. reflexivity.
  Qed.

  Lemma uncached_session t ps : (forall c, cached c = false) -> session t ps = map (map spec) ps.
  Proof.
    intros Hn. revert t. induction ps as [|p r IH]; intros t; cbn; [reflexivity|].
    rewrite (uncached_run t p Hn). rewrite IH. reflexivity.
  Qed.

  Hypothesis Href : key_refines keq cached.
  Hypothesis Hhit : policy_ok after_hit.
  Hypothesis Hmiss : policy_ok after_miss.

  Lemma lookup_spec k t v : table_ok t -> cached k = true -> lookup k t = Some v -> v = spec k.
  Proof.
    intros Hok Hc. induction t as [|[k' v'] r IH]; cbn; [discriminate|].
    destruct (keq k k') eqn:E.
    - intros H. inversion H; subst v'. rewrite (Hok k' v (or_introl eq_refl)). symmetry. apply Href; assumption.
    - apply IH. intros k0 v0 Hin. apply Hok. right. exact Hin.
  Qed.

  Lemma call_spec t k : table_ok t -> fst (call t k) = spec k /\ table_ok (snd (call t k)).
  Proof.
    intros Hok. unfold MemoSession.call. destruct (cached k) eqn:Hc; [|split; [reflexivity|exact Hok]].
    destruct (lookup k t) as [v|] eqn:El; cbn [fst snd].
    - split; [eapply lookup_spec; eauto|]. intros k0 v0 Hin. apply Hok. apply Hhit. exact Hin.
    - split; [reflexivity|]. intros k0 v0 Hin. apply Hmiss in Hin. destruct Hin as [Hin|Hin].
      + inversion Hin; reflexivity.
      + apply Hok. exact Hin.
  Qed.

  Lemma run_prog_spec p : forall t, table_ok t -> fst (run_prog t p) = map spec p /\ table_ok (snd (run_prog t p)).
  Proof.
    induction p as [|k r IH]; intros t Hok; cbn; [split; [reflexivity|exact Hok]|].
    destruct (call_spec t k Hok) as [H1 H2].
    destruct (call t k) as [v t1] eqn:Ec. cbn [fst snd] in H1, H2.
    destruct (IH t1 H2) as [H3 H4].
    destruct (run_prog t1 r) as [vs t2] eqn:Er. cbn [fst snd] in *. subst. split; [reflexivity|exact H4].
  Qed.

  Lemma session_spec ps : forall t, table_ok t -> session t ps = map (map spec) ps.
  Proof.
    induction ps as [|p r IH]; intros t Hok; cbn; [reflexivity|].
    destruct (run_prog_spec p t Hok) as [H1 H2].
    destruct (run_prog t p) as [o t1] eqn:Er. cbn [fst snd] in *. subst o. rewrite (IH t1 H2). reflexivity.
  Qed.

  (* every program comes out as its own specification, whatever was emitted before and after it and whatever the table holds *)
  Lemma memo_stateless t before p after : table_ok t ->
    nth_error (session t (before ++ p :: after)) (List.length before) = Some (map spec p).
  Proof.
    intros Hok. rewrite (session_spec _ t Hok). rewrite map_app. rewrite nth_error_app2; rewrite map_length; [|lia].
    rewrite Nat.sub_diag. reflexivity.
  Qed.
End MemoP.

Lemma table_ok_nil : table_ok [].
Proof. intros k v []. Qed.

Lemma keep_ok : policy_ok keep.
Proof. intros t e H. exact H. Qed.

(* one conflation suffices: the second program is printed with the first one's result *)
Lemma conflation_refutes keq cached a b :
  cached a = true -> cached b = true -> keq b a = true -> spec a <> spec b ->
  session keq cached keep keep [] [[a]; [b]] = [[spec a]; [spec a]] /\
  nth_error (session keq cached keep keep [] ([[a]] ++ [[b]])) 1 <> Some (map spec [b]).
Proof.
  intros Ha Hb Hk Hne.
  assert (E : session keq cached keep keep [] [[a]; [b]] = [[spec a]; [spec a]]).
  { cbn. unfold MemoSession.call. rewrite Ha. cbn. unfold keep. cbn. unfold MemoSession.call. rewrite Hb. cbn. rewrite Hk. reflexivity. }
  split; [exact E|]. change ([[a]] ++ [[b]]) with [[a]; [b]]. rewrite E. cbn. intros H. inversion H. auto.
Qed.

(* ---------------------------------------------------------------- Python's == on the keys *)
Lemma duration_conflated : py_keq beep_explicit beep_default = true /\ spec beep_default <> spec beep_explicit.
Proof. split; [vm_compute; reflexivity|]. vm_compute. intros H. discriminate H. Qed.

Lemma lru_cache_on_duration_refuted :
  exists before p, nth_error (session py_keq cache_all keep keep [] (before ++ [p])) (List.length before) <> Some (map spec p).
Proof.
  exists [[beep_default]], [beep_explicit].
  destruct duration_conflated as [Hk Hne].
  exact (proj2 (conflation_refutes py_keq cache_all beep_default beep_explicit eq_refl eq_refl Hk Hne)).
Qed.

Lemma duration_witness :
  session py_keq cache_all keep keep [] [[beep_default]; [beep_explicit]] =
    [[ODurLit ind4 v_on_ms (VI 100)]; [ODurLit ind4 v_on_ms (VI 100)]] /\
  session py_keq cache_all keep keep [] [[beep_explicit]; [beep_default]] =
    [[ODurLit ind4 v_on_ms (VF (100 # 1))]; [ODurLit ind4 v_on_ms (VF (100 # 1))]] /\
  map (map spec) [[beep_default]; [beep_explicit]] = [[ODurLit ind4 v_on_ms (VI 100)]; [ODurLit ind4 v_on_ms (VF (100 # 1))]].
Proof. repeat split; vm_compute; reflexivity. Qed.

Lemma py_round_comp x y : (x == y)%Q -> Num.py_round x = Num.py_round y.
Proof.
  intros H. unfold Num.py_round. rewrite (Qfloor_comp x y H).
  assert (E : ((x - inject_Z (Qfloor y)) ?= (1 # 2))%Q = ((y - inject_Z (Qfloor y)) ?= (1 # 2))%Q) by (rewrite H; reflexivity).
  rewrite E. reflexivity.
Qed.

Lemma py_eqb_num a b : py_eqb a b = true ->
  (exists s, a = VS s /\ b = VS s) \/ (exists x y, num_of a = Some x /\ num_of b = Some y /\ (x == y)%Q).
Proof.
  destruct a as [n|q|c|s]; destruct b as [m|r|d|t]; cbn; intros H; try discriminate;
    try (right; eexists; eexists; split; [reflexivity|split; [reflexivity|apply Qeq_bool_iff; exact H]]).
  left. apply text_eqb_eq in H. subst. eauto.
Qed.

(* a cache in front of _format_float cannot be seen: float(value) forgets what == identifies *)
Lemma format_float_refines a b : py_keq (CFmt a) (CFmt b) = true -> spec (CFmt a) = spec (CFmt b).
Proof.
  cbn [py_keq keq_with]. intros H. apply py_eqb_num in H as [[s [-> ->]]|[x [y [Ha [Hb E]]]]]; [reflexivity|].
  cbn [spec]. rewrite Ha, Hb. f_equal. apply py_round_comp. rewrite E. reflexivity.
Qed.

Lemma cache_fmt_refines : key_refines py_keq cache_fmt.
Proof.
  intros a b Hc Hk. destruct a as [i x v|v]; [discriminate|]. destruct b as [j y w|w]; [discriminate|].
  apply format_float_refines. exact Hk.
Qed.

Lemma format_float_cache_harmless t before p after : table_ok t ->
  nth_error (session py_keq cache_fmt keep keep t (before ++ p :: after)) (List.length before) = Some (map spec p).
Proof. apply memo_stateless; [exact cache_fmt_refines|exact keep_ok|exact keep_ok]. Qed.

(* typed=True: the key is as fine as the result *)
Lemma inject_Z_eq n m : (inject_Z n == inject_Z m)%Q -> n = m.
Proof. unfold Qeq. cbn. lia. Qed.

Lemma typed_value_refines v w : typed_eqb v w = true -> norm v = norm w /\ clamp0 v = clamp0 w.
Proof.
  unfold typed_eqb. intros H. apply andb_true_iff in H as [Ht He].
  destruct v as [n|q|c|s]; destruct w as [m|r|d|t]; try discriminate Ht; cbn in He.
  - apply Qeq_bool_iff in He. apply inject_Z_eq in He. subst. split; reflexivity.
  - apply Qeq_bool_iff in He. assert (Er : Qred q = Qred r) by (apply Qred_complete; exact He).
    unfold clamp0. cbn [num_of norm]. rewrite Er.
    assert (Eb : Qle_bool 0 q = Qle_bool 0 r) by (rewrite He; reflexivity). rewrite Eb. split; reflexivity.
  - apply Qeq_bool_iff in He. apply inject_Z_eq in He. destruct c, d; try discriminate He; split; reflexivity.
  - apply text_eqb_eq in He. subst. split; reflexivity.
Qed.

Lemma typed_refines cached : key_refines typed_keq cached.
Proof.
  intros a b _ Hk. destruct a as [i x v|v]; destruct b as [j y w|w]; try discriminate Hk; cbn [typed_keq keq_with] in Hk.
  - apply andb_true_iff in Hk as [Hk Hv]. apply andb_true_iff in Hk as [Hi Hx].
    apply text_eqb_eq in Hi. apply text_eqb_eq in Hx. subst j y.
    destruct (typed_value_refines v w Hv) as [_ Hc].
    destruct v as [n|q|c|s]; destruct w as [m|r|d|t]; try (unfold typed_eqb in Hv; cbn in Hv; discriminate Hv); cbn [spec].
    + rewrite Hc. reflexivity.
    + rewrite Hc. reflexivity.
    + rewrite Hc. reflexivity.
    + unfold typed_eqb in Hv. cbn in Hv. apply text_eqb_eq in Hv. subst. reflexivity.
  - apply format_float_refines. unfold typed_eqb in Hk. apply andb_true_iff in Hk as [_ Hk]. exact Hk.
Qed.

Lemma typed_cache_harmless cached t before p after : table_ok t ->
  nth_error (session typed_keq cached keep keep t (before ++ p :: after)) (List.length before) = Some (map spec p).
Proof. apply memo_stateless; [apply typed_refines|exact keep_ok|exact keep_ok]. Qed.

(* the guard of the partial theorem is satisfiable by a table that really caches: _format_float memoised, 1 / 1.0 / True *)
Lemma memo_nonvacuous :
  key_refines py_keq cache_fmt /\ cache_fmt (CFmt (VB true)) = true /\ py_keq (CFmt (VF (1 # 1))) (CFmt (VB true)) = true /\
  session py_keq cache_fmt keep keep [] [[CFmt (VB true)]; [CFmt (VF (1 # 1)); CFmt (VI 1)]] = [[OFix 1000000]; [OFix 1000000; OFix 1000000]].
Proof. split; [exact cache_fmt_refines|]. repeat split; vm_compute; reflexivity. Qed.

Lemma helper_names_spelled :
  helper_name (CDur [] [] (VI 0)) = txt "_emit_duration_ms"%string /\ helper_name (CFmt (VI 0)) = txt "_format_float"%string.
Proof. split; vm_compute; reflexivity. Qed.
