From Coq Require Import ZArith List Bool.
From RV Require Import Base.Wire Base.Text Gen.SetSites Gen.SafeCasts Lang.NameSession.
Import ListNotations.
Open Scope Z_scope.

Definition local_mode (mode : shadow_mode) : bool := match mode with ShModule => false | _ => true end.

Lemma nstep_keeps_wl : forall mode s st, local_mode mode = true -> ns_wl (fst (nstep mode s st)) = ns_wl s.
Proof. intros mode s st Hm. destruct st as [f|f lit]; destruct mode; simpl in *; try discriminate; reflexivity. Qed.

Lemma nrun_keeps_wl : forall mode p s, local_mode mode = true -> ns_wl (fst (nrun mode s p)) = ns_wl s.
Proof.
  intros mode p. induction p as [|st q IH]; intros s Hm; simpl; [reflexivity|].
  pose proof (nstep_keeps_wl mode s st Hm) as H1.
  destruct (nstep mode s st) as [s1 o1]. simpl in H1.
  pose proof (IH s1 Hm) as H2.
  destruct (nrun mode s1 q) as [s2 o2]. simpl in *. congruence.
Qed.

Theorem nparse_leaves_whitelist : forall mode wl p, local_mode mode = true -> snd (nparse1 mode wl p) = wl.
Proof.
  intros mode wl p Hm. unfold nparse1.
  pose proof (nrun_keeps_wl mode p (mk_ns [] wl) Hm) as H.
  destruct (nrun mode (mk_ns [] wl) p) as [s o]. simpl in *. exact H.
Qed.

Theorem nsession_stateless : forall mode, local_mode mode = true -> forall before wl p after,
  nth_error (nsession mode wl (before ++ p :: after)) (length before) = Some (fst (nparse1 mode wl p)).
Proof.
  intros mode Hm. induction before as [|b before IH]; intros wl p after; simpl.
  - destruct (nparse1 mode wl p) as [o wl']. reflexivity.
  - pose proof (nparse_leaves_whitelist mode wl b Hm) as H.
    destruct (nparse1 mode wl b) as [o wl']. simpl in H. subst wl'. simpl. apply IH.
Qed.

Theorem nsession_stateless_alone : forall mode, local_mode mode = true -> forall before p after,
  nth_error (nsession mode safe_name_references (before ++ p :: after)) (length before) = Some (nalone mode p).
Proof. intros mode Hm before p after. unfold nalone. apply nsession_stateless. exact Hm. Qed.

(* the guard is tight: discarding the bound name from the module-level set outlives the parse *)
Lemma shadow_leaks :
  nalone ShModule shadow_B = [NFolded n_len 3; NFolded n_str 12] /\
  nsession ShModule safe_name_references [shadow_B; shadow_A; shadow_B] =
    [[NFolded n_len 3; NFolded n_str 12]; [NRuntime n_len 3]; [NRuntime n_len 3; NFolded n_str 12]].
Proof. vm_compute. split; reflexivity. Qed.

Theorem shadow_module_refutes : exists A B, nth_error (nsession ShModule safe_name_references [A; B]) 1 <> Some (nalone ShModule B).
Proof. exists shadow_A, shadow_B. vm_compute. intros H. discriminate H. Qed.

(* a per-parse record shadows inside the script and nowhere else *)
Lemma shadow_per_parse :
  nsession ShPerParse safe_name_references [shadow_B; shadow_A; shadow_B] =
    [[NFolded n_len 3; NFolded n_str 12]; [NRuntime n_len 3]; [NFolded n_len 3; NFolded n_str 12]] /\
  nsession ShNone safe_name_references [shadow_A; shadow_B] = [[NFolded n_len 3]; [NFolded n_len 3; NFolded n_str 12]].
Proof. vm_compute. split; reflexivity. Qed.

(* the current source: the whitelist object is listed in the inventory, never mutated and only used in membership tests *)
Lemma whitelist_confined : wl_listed = true /\ whitelist_escapes = false.
Proof. vm_compute. split; reflexivity. Qed.

Theorem nsession_stateless_current_source : forall before p after,
  nth_error (nsession current_mode safe_name_references (before ++ p :: after)) (length before) = Some (nalone current_mode p).
Proof.
  unfold current_mode. destruct whitelist_confined as [_ H]. rewrite H.
  apply nsession_stateless_alone. reflexivity.
Qed.
