(* Proofs about near-miss names (Tool/NearMiss.v): what exact lookup does on the twins of the
   registered ids, and which inputs separate it from lookup through a keyed index. *)
From Coq Require Import String ZArith List Bool Lia.
From RV Require Import Base.Wire Base.Text Gen.Registry Gen.PioInventory Tool.Registry Tool.Ini Tool.NearMiss.
From RV Require Import Proofs.RegistryP Proofs.IniP.
Import ListNotations.
Open Scope Z_scope.

(* ---------------------------------------------------------------- lists of texts *)
Lemma nodup_textb_inj {A} (f : A -> text) (l : list A) :
  nodup_textb (map f l) = true ->
  forall x y, In x l -> In y l -> f x = f y -> x = y.
Proof.
  induction l as [|a r IH]; cbn [map nodup_textb]; [intros _ x y []|].
  intros H x y Hx Hy E. apply andb_true_iff in H as [H1 H2]. apply negb_true_iff in H1.
  assert (forall z, In z r -> f z = f a -> False) as No.
  { intros z Hz Ez. assert (tmem (f a) (map f r) = true) as M.
    { apply tmem_In. apply in_map_iff. exists z. auto. }
    congruence. }
  destruct Hx as [<-|Hx], Hy as [<-|Hy].
  - reflexivity.
  - exfalso. apply (No y Hy). auto.
  - exfalso. apply (No x Hx). auto.
  - apply IH; assumption.
Qed.

Lemma tlookup_None_notin {A} a (l : list (text * A)) : tlookup a l = None <-> ~ In a (map fst l).
Proof.
  induction l as [|[k v] r IH]; cbn; [tauto|].
  destruct (text_eqb a k) eqn:E.
  - apply text_eqb_eq in E. subst. split; [discriminate|]. intro H. exfalso. apply H. auto.
  - rewrite IH. split.
    + intros H [X|X]; [|tauto]. subst. rewrite text_eqb_refl in E. discriminate.
    + intros H X. apply H. auto.
Qed.

Lemma tlookup_some_in {A} a (l : list (text * A)) v : tlookup a l = Some v -> In a (map fst l).
Proof. intro H. apply tlookup_In in H. apply in_map_iff. exists (a, v). auto. Qed.

Lemma tlookup_app {A} a (l1 l2 : list (text * A)) :
  tlookup a (l1 ++ l2) = match tlookup a l1 with Some v => Some v | None => tlookup a l2 end.
Proof.
  induction l1 as [|[k v] r IH]; cbn; [reflexivity|].
  destruct (text_eqb a k); [reflexivity|exact IH].
Qed.

(* in a table without duplicate keys the lookup finds every listed entry, in any order *)
Lemma tlookup_rev_nodup {A} a (l : list (text * A)) :
  nodup_textb (map fst l) = true -> tlookup a (rev l) = tlookup a l.
Proof.
  induction l as [|[k v] r IH]; [reflexivity|].
  cbn [map fst nodup_textb rev]. intro H. apply andb_true_iff in H as [H1 H2]. apply negb_true_iff in H1.
  rewrite tlookup_app, IH by exact H2. cbn [tlookup].
  destruct (text_eqb a k) eqn:E.
  - apply text_eqb_eq in E. subst.
    destruct (tlookup k r) as [w|] eqn:L; [|reflexivity].
    apply tlookup_some_in in L. apply tmem_In in L. congruence.
  - destruct (tlookup a r); reflexivity.
Qed.

Lemma tlookup_map_key {A} (k : text -> text) (l : list (text * A)) b v :
  nodup_textb (map k (map fst l)) = true -> In (b, v) l ->
  tlookup (k b) (map (fun kv => (k (fst kv), snd kv)) l) = Some v.
Proof.
  induction l as [|[c w] r IH]; cbn [map fst snd nodup_textb tlookup]; [intros _ []|].
  intros H I. apply andb_true_iff in H as [H1 H2]. apply negb_true_iff in H1.
  destruct I as [I|I].
  - inversion I; subst. rewrite text_eqb_refl. reflexivity.
  - destruct (text_eqb (k b) (k c)) eqn:E.
    + apply text_eqb_eq in E. exfalso.
      assert (tmem (k c) (map k (map fst r)) = true) as M.
      { apply tmem_In. rewrite <- E. apply in_map. apply in_map_iff. exists (b, v). auto. }
      congruence.
    + apply IH; assumption.
Qed.

Lemma tlookup_map_key_inv {A} (k : text -> text) (l : list (text * A)) x v :
  tlookup x (map (fun kv => (k (fst kv), snd kv)) l) = Some v ->
  exists b, In (b, v) l /\ k b = x.
Proof.
  induction l as [|[c w] r IH]; cbn [map fst snd tlookup]; [discriminate|].
  destruct (text_eqb x (k c)) eqn:E.
  - intros [= <-]. apply text_eqb_eq in E. exists c. split; [left; reflexivity|auto].
  - intro H. destruct (IH H) as (b & I & Kb). exists b. split; [right; exact I|exact Kb].
Qed.

(* ---------------------------------------------------------------- any tables, any normaliser *)
Section Keyed.
  Variable plats : list (text * list text).
  Variable b2p : list (text * text).
  Variable k : text -> text.
  Hypothesis OK : tables_ok plats b2p = true.
  (* the assertion the regression ships with: no two registered ids share a key *)
  Hypothesis SEP : separates_registry k b2p = true.

  Lemma registered_listed pl b : registered_in plats pl b <-> In (b, pl) b2p.
  Proof.
    split.
    - intro R. apply tlookup_In. apply (inverse_faithful plats b2p OK). exact R.
    - intro I. destruct (ok_parts plats b2p OK) as (_ & S & _).
      unfold tab_inv_sound in S. rewrite forallb_forall in S. specialize (S _ I). cbn [fst snd] in S.
      apply tmem_In in S. unfold boards_of in S.
      destruct (tlookup pl plats) as [bs|] eqn:E; [|contradiction].
      exists bs. split; [apply tlookup_In; exact E|exact S].
  Qed.

  Lemma sep_inj b b' : In b (board_ids b2p) -> In b' (board_ids b2p) -> k b = k b' -> b = b'.
  Proof. apply (nodup_textb_inj k). exact SEP. Qed.

  Lemma registered_board_id pl b : registered_in plats pl b -> In b (board_ids b2p).
  Proof. intro R. apply registered_listed in R. apply in_map_iff. exists (b, pl). auto. Qed.

  (* 1. what the code does on a twin: a string that shares its key with a registered id but is
        another string is not registered anywhere, and is refused as an unknown board *)
  Lemma twin_not_registered b b' p' :
    registered_in plats p' b' -> k b = k b' -> b <> b' -> forall p, ~ registered_in plats p b.
  Proof.
    intros R' E N p R. apply N. apply sep_inj; [eapply registered_board_id; eassumption| |exact E].
    eapply registered_board_id; eassumption.
  Qed.

  Lemma twin_rejected pl b b' p' :
    registered_in plats p' b' -> k b = k b' -> b <> b' ->
    validate_in plats b2p pl b =
      if tmem pl (map fst plats) then Some UnsupportedBoard else Some UnsupportedPlatform.
  Proof.
    intros R' E N. pose proof (validate_kinds plats b2p OK pl b) as K.
    pose proof (twin_not_registered b b' p' R' E N) as NR.
    destruct (validate_in plats b2p pl b) as [[| |]|] eqn:V.
    - destruct (tmem pl (map fst plats)) eqn:M; [|reflexivity].
      apply tmem_In in M. contradiction.
    - destruct K as [K _]. apply tmem_In in K. rewrite K. reflexivity.
    - destruct K as [_ (p & _ & R)]. exfalso. exact (NR p R).
    - exfalso. exact (NR pl K).
  Qed.

  (* 2. what lookup through the keyed index does: it accepts exactly the strings that share
        their key with an id registered for the platform *)
  Lemma keyed_lookup x :
    tlookup x (keyed_index k b2p) = tlookup x (map (fun kv => (k (fst kv), snd kv)) b2p).
  Proof.
    unfold keyed_index. apply tlookup_rev_nodup.
    rewrite map_map. cbn [fst]. unfold separates_registry, board_ids in SEP. rewrite map_map in SEP. exact SEP.
  Qed.

  Lemma keyed_accepts pl b :
    validate_keyed_in k plats b2p pl b = None <-> exists b', registered_in plats pl b' /\ k b' = k b.
  Proof.
    unfold validate_keyed_in, validate_keyed_with. rewrite keyed_lookup. split.
    - destruct (tmem pl (map fst plats)) eqn:M; cbn [negb]; [|discriminate].
      destruct (tlookup (k b) _) as [req|] eqn:L; [|discriminate].
      destruct (text_eqb req pl) eqn:E; [|discriminate]. intros _.
      apply text_eqb_eq in E. subst req.
      destruct (tlookup_map_key_inv k b2p (k b) pl L) as (b' & I & Kb).
      exists b'. split; [apply registered_listed; exact I|exact Kb].
    - intros (b' & R & E). pose proof R as (bs & I1 & _).
      assert (tmem pl (map fst plats) = true) as M.
      { apply tmem_In. apply in_map_iff. exists (pl, bs). auto. }
      rewrite M. cbn [negb]. rewrite <- E.
      rewrite (tlookup_map_key k b2p b' pl); [rewrite text_eqb_refl; reflexivity| |apply registered_listed; exact R].
      unfold separates_registry, board_ids in SEP. exact SEP.
  Qed.

  (* 3. the two agree on every input exactly when no registered id has a twin *)
  Definition no_twin : Prop :=
    forall b b', In b' (board_ids b2p) -> k b = k b' -> b = b'.

  Lemma keyed_agrees_of_no_twin : no_twin -> forall pl b,
    validate_keyed_in k plats b2p pl b = validate_in plats b2p pl b.
  Proof.
    intros NT pl b. unfold validate_keyed_in, validate_keyed_with, validate_in. rewrite keyed_lookup.
    destruct (tmem pl (map fst plats)); cbn [negb]; [|reflexivity].
    destruct (tlookup b b2p) as [p|] eqn:L.
    - rewrite (tlookup_map_key k b2p b p); [reflexivity| |apply tlookup_In; exact L].
      unfold separates_registry, board_ids in SEP. exact SEP.
    - destruct (tlookup (k b) _) as [req|] eqn:L2; [|reflexivity]. exfalso.
      destruct (tlookup_map_key_inv k b2p (k b) req L2) as (b' & I & Kb).
      assert (b = b') as ->.
      { apply NT; [apply in_map_iff; exists (b', req); auto|auto]. }
      apply tlookup_None_notin in L. apply L. apply in_map_iff. exists (b', req). auto.
  Qed.

  Lemma no_twin_of_keyed_accepts_only_registered :
    (forall pl b, validate_keyed_in k plats b2p pl b = None -> registered_in plats pl b) -> no_twin.
  Proof.
    intros H b b' I E. apply in_map_iff in I as ([c p] & Ec & I). cbn in Ec. subst c.
    assert (registered_in plats p b') as R' by (apply registered_listed; exact I).
    assert (registered_in plats p b) as R.
    { apply H. apply keyed_accepts. exists b'. auto. }
    apply sep_inj; [eapply registered_board_id; eassumption| |exact E].
    eapply registered_board_id; eassumption.
  Qed.

  Lemma keyed_exact_iff_no_twin :
    (forall pl b, validate_keyed_in k plats b2p pl b = None <-> registered_in plats pl b) <-> no_twin.
  Proof.
    split.
    - intro H. apply no_twin_of_keyed_accepts_only_registered. intros pl b V. apply H. exact V.
    - intros NT pl b. rewrite (keyed_agrees_of_no_twin NT). apply (validate_exact plats b2p OK).
  Qed.

  (* 4. the executable near-miss test is the specification's *)
  Lemma near_miss_spec b :
    near_miss_in k b2p b = true <-> exists b', In b' (board_ids b2p) /\ k b' = k b /\ b' <> b.
  Proof.
    unfold near_miss_in, twins_in. rewrite existsb_exists. split.
    - intros (b' & F & N). apply filter_In in F as [I E]. apply text_eqb_eq in E.
      exists b'. repeat split; [exact I|exact E|].
      intro X. subst. rewrite text_eqb_refl in N. discriminate.
    - intros (b' & I & E & N). exists b'. split.
      + apply filter_In. split; [exact I|]. apply text_eqb_eq. exact E.
      + destruct (text_eqb b' b) eqn:X; [apply text_eqb_eq in X; contradiction|reflexivity].
  Qed.

  (* every near-miss is accepted by the keyed variant for the twin's platform and refused by the code *)
  Lemma near_miss_separates b :
    near_miss_in k b2p b = true ->
    exists pl, validate_keyed_in k plats b2p pl b = None /\ validate_in plats b2p pl b = Some UnsupportedBoard.
  Proof.
    intro NM. apply near_miss_spec in NM as (b' & I & E & N).
    apply in_map_iff in I as ([c p] & Ec & I). cbn in Ec. subst c.
    assert (registered_in plats p b') as R' by (apply registered_listed; exact I).
    exists p. split.
    - apply keyed_accepts. exists b'. auto.
    - rewrite (twin_rejected p b b' p R' (eq_sym E) (fun X => N (eq_sym X))).
      pose proof R' as (bs & I1 & _).
      assert (tmem p (map fst plats) = true) as M.
      { apply tmem_In. apply in_map_iff. exists (p, bs). auto. }
      rewrite M. reflexivity.
  Qed.
End Keyed.

(* ---------------------------------------------------------------- the generated registry *)
Lemma env_separates : separates_registry norm_env board_to_platform = true.
Proof. vm_compute. reflexivity. Qed.
Lemma lower_separates : separates_registry norm_lower board_to_platform = true.
Proof. vm_compute. reflexivity. Qed.
Lemma strip_separates : separates_registry norm_strip board_to_platform = true.
Proof. vm_compute. reflexivity. Qed.
Lemma squash_separates : separates_registry norm_squash board_to_platform = true.
Proof. vm_compute. reflexivity. Qed.

Definition known_code (c : Z) : bool := (0 <=? c) && (c <=? 3).

Lemma normaliser_separates c : known_code c = true -> separates_registry (normaliser c) board_to_platform = true.
Proof.
  unfold known_code. intro H. apply andb_true_iff in H as [H1 H2].
  apply Z.leb_le in H1. apply Z.leb_le in H2.
  assert (c = 0 \/ c = 1 \/ c = 2 \/ c = 3) as C4 by lia.
  destruct C4 as [E | [E | [E | E]]]; subst c.
  - exact env_separates.
  - exact lower_separates.
  - exact strip_separates.
  - exact squash_separates.
Qed.

(* the code refuses every twin of a registered id under the four normalisers *)
Lemma twin_rejected_generated c pl b b' p' :
  known_code c = true -> registered p' b' -> normaliser c b = normaliser c b' -> b <> b' ->
  validate pl b = if tmem pl (map fst platforms) then Some UnsupportedBoard else Some UnsupportedPlatform.
Proof.
  intros Hc. apply (twin_rejected platforms board_to_platform (normaliser c) generated_tables_ok
                                  (normaliser_separates c Hc)).
Qed.

Lemma twin_never_registered c b b' p' :
  known_code c = true -> registered p' b' -> normaliser c b = normaliser c b' -> b <> b' ->
  forall p, ~ registered p b.
Proof.
  intros Hc. apply (twin_not_registered platforms board_to_platform (normaliser c) generated_tables_ok
                                        (normaliser_separates c Hc)).
Qed.

Lemma keyed_accepts_generated c pl b :
  known_code c = true ->
  (validate_keyed (normaliser c) pl b = None <-> exists b', registered pl b' /\ normaliser c b' = normaliser c b).
Proof.
  intro Hc. apply (keyed_accepts platforms board_to_platform (normaliser c) generated_tables_ok
                                 (normaliser_separates c Hc)).
Qed.

Lemma keyed_exact_iff_no_twin_generated c :
  known_code c = true ->
  ((forall pl b, validate_keyed (normaliser c) pl b = None <-> registered pl b) <->
   (forall b b', In b' (board_ids board_to_platform) -> normaliser c b = normaliser c b' -> b = b')).
Proof.
  intro Hc. apply (keyed_exact_iff_no_twin platforms board_to_platform (normaliser c) generated_tables_ok
                                           (normaliser_separates c Hc)).
Qed.

Lemma near_miss_separates_generated c b :
  known_code c = true -> near_miss (normaliser c) b = true ->
  exists pl, validate_keyed (normaliser c) pl b = None /\ validate pl b = Some UnsupportedBoard.
Proof.
  intro Hc. apply (near_miss_separates platforms board_to_platform (normaliser c) generated_tables_ok
                                       (normaliser_separates c Hc)).
Qed.

(* ---------------------------------------------------------------- the keyed variants are inexact:
   one witness per normaliser (a registered id with its separator, case, padding changed) *)
Definition w_digi_us : text := Eval vm_compute in txt "digispark_tiny".     (* registered: digispark-tiny *)
Definition w_uno_up : text := Eval vm_compute in txt "UNO".
Definition w_uno_pad : text := Eval vm_compute in txt " uno".
Definition w_nanoevery : text := Eval vm_compute in txt "NanoEvery".        (* registered: nano_every *)
Definition w_megaavr : text := Eval vm_compute in txt "atmelmegaavr".

Lemma not_registered_of_validate pl b e : validate pl b = Some e -> ~ registered pl b.
Proof.
  intros V R. apply (validate_exact _ _ generated_tables_ok) in R.
  unfold validate in V. rewrite R in V. discriminate.
Qed.

Lemma keyed_refuted :
  (validate_keyed norm_env w_avr w_digi_us = None /\ ~ registered w_avr w_digi_us) /\
  (validate_keyed norm_lower w_avr w_uno_up = None /\ ~ registered w_avr w_uno_up) /\
  (validate_keyed norm_strip w_avr w_uno_pad = None /\ ~ registered w_avr w_uno_pad) /\
  (validate_keyed norm_squash w_megaavr w_nanoevery = None /\ ~ registered w_megaavr w_nanoevery).
Proof.
  repeat split; try (vm_compute; reflexivity);
    eapply not_registered_of_validate; vm_compute; reflexivity.
Qed.

(* non-vacuity of the twin theorems: each normaliser has a twin of a registered id *)
Lemma twins_exist :
  near_miss norm_env w_digi_us = true /\ near_miss norm_lower w_uno_up = true /\
  near_miss norm_strip w_uno_pad = true /\ near_miss norm_squash w_nanoevery = true /\
  near_miss norm_env w_uno = false.
Proof. vm_compute. repeat split; reflexivity. Qed.

(* a platform name that is not listed (every near-miss of a platform name) is refused first,
   whatever the board *)
Lemma unknown_platform_first pl b :
  ~ In pl (map fst platforms) -> validate pl b = Some UnsupportedPlatform.
Proof.
  intro N. unfold validate, validate_in.
  destruct (tmem pl (map fst platforms)) eqn:M; [apply tmem_In in M; contradiction|reflexivity].
Qed.

(* ---------------------------------------------------------------- write_project on a twin *)
Lemma twin_writes_nothing c pl b b' p' port libs :
  known_code c = true -> registered p' b' -> normaliser c b = normaliser c b' -> b <> b' ->
  exists e, write_ini pl b port libs = inl e.
Proof.
  intros Hc R E N. unfold write_ini. rewrite (twin_rejected_generated c pl b b' p' Hc R E N).
  destruct (tmem pl (map fst platforms)); eexists; reflexivity.
Qed.

(* what is written names the board exactly as given, and that board is registered *)
Lemma written_board_verbatim pl b port libs t :
  write_ini pl b port libs = inr t -> value_ok port = true -> forallb lib_ok libs = true ->
  registered pl b /\
  exists sec opts, ini_read t = Some [(sec, opts)] /\ tlookup k_board opts = Some b /\ tlookup k_platform opts = Some pl.
Proof.
  intros W Hport Hlibs. unfold write_ini in W.
  destruct (validate pl b) as [e|] eqn:V; [discriminate|]. inversion W; subst t. clear W.
  split; [apply (validate_exact _ _ generated_tables_ok); exact V|].
  destruct (roundtrip_registered pl b port libs V Hport Hlibs) as (t & W & Rd).
  unfold write_ini in W. rewrite V in W. inversion W; subst t.
  unfold expected_ini in Rd. eexists. eexists. split; [exact Rd|].
  split; vm_compute; reflexivity.
Qed.

(* ---------------------------------------------------------------- source inventory obligations *)
Definition n_supported_platforms : text := Eval vm_compute in txt "SUPPORTED_PLATFORMS".
Definition n_board_to_platform : text := Eval vm_compute in txt "BOARD_TO_PLATFORM".
Definition n_pio_ini : text := Eval vm_compute in txt "PIO_INI".
Definition n_validate : text := Eval vm_compute in txt "validate_platform_board".
Definition n_libsec : text := Eval vm_compute in txt "_format_lib_section".
Definition n_sanitize : text := Eval vm_compute in txt "_sanitize_env_name".
Definition n_re : text := Eval vm_compute in txt "re".

(* the model of validate consults these two tables and nothing else *)
Definition validate_reads_ok : bool :=
  subset_textb validate_globals [n_supported_platforms; n_board_to_platform] &&
  match validate_imports with [] => true | _ => false end.

(* the model of write_project: validate, then the three rendering pieces *)
Definition write_project_reads_ok : bool :=
  subset_textb write_project_globals [n_validate; n_libsec; n_sanitize; n_pio_ini] &&
  tmem n_validate write_project_globals &&
  match write_project_imports with [] => true | _ => false end.

Definition helpers_read_ok : bool :=
  subset_textb libsec_globals [] && subset_textb sanitize_globals [n_re] &&
  match libsec_imports, sanitize_imports with [], [] => true | _, _ => false end.

(* the module holds no data next to the registry: the board sets SUPPORTED_PLATFORMS lists (kind 4,
   whatever they are called), the platform table, its inverse and the ini template *)
Definition module_data_ok : bool :=
  forallb (fun nk =>
             if snd nk =? 4 then true
             else if snd nk =? 1 then text_eqb (fst nk) n_pio_ini
             else if snd nk =? 2 then tmem (fst nk) [n_supported_platforms; n_board_to_platform]
             else false)
          module_data.

Lemma inventory_ok :
  validate_reads_ok = true /\ write_project_reads_ok = true /\ helpers_read_ok = true /\ module_data_ok = true.
Proof. vm_compute. repeat split; reflexivity. Qed.
