(* Proofs about Lang/NestDepth.v: the stack need of emit() against the stack need of parse(), for every program tree and
   every pair of constant tables. *)
From Coq Require Import ZArith List Bool Lia.
From RV Require Import Lang.NestDepth.
Import ListNotations.
Open Scope Z_scope.

Section StmtInd.
  Variable P : stmt -> Prop.
  Hypothesis HL : forall l, P (Leaf l).
  Hypothesis HB : forall k body, Forall P body -> P (Block k body).
  Fixpoint stmt_ind' (t : stmt) : P t :=
    match t with
    | Leaf l => HL l
    | Block k body =>
        HB k body ((fix go (b : list stmt) : Forall P b :=
                      match b with [] => Forall_nil P | x :: r => Forall_cons x (stmt_ind' x) (go r) end) body)
    end.
End StmtInd.

Lemma need_block : forall s k body,
  need s (Block k body) = Z.max (getz (st_header s) k) (getz (st_frames s) k + needs s body).
Proof.
  intros s k body. cbn [need]. f_equal. f_equal.
  induction body as [|x r IH]; cbn [needs]; [reflexivity|]. rewrite IH. reflexivity.
Qed.

Lemma leaves_block : forall k body, leaves_of (Block k body) = leaves_of_list body.
Proof.
  intros k body. cbn [leaves_of]. induction body as [|x r IH]; cbn [leaves_of_list]; [reflexivity|]. rewrite IH. reflexivity.
Qed.

Lemma needs_nonneg : forall s b, 0 <= needs s b.
Proof. intros s b. induction b as [|x r IH]; cbn [needs]; lia. Qed.

Lemma le_all_nth : forall a b, le_all a b = true -> length a = length b -> forall n, nth n a 0 <= nth n b 0.
Proof.
  induction a as [|x r IH]; intros [|y s] H HL n; cbn in *; try discriminate.
  - destruct n; lia.
  - apply andb_prop in H. destruct H as [H1 H2]. apply Z.leb_le in H1.
    destruct n as [|n]; [exact H1|]. apply IH; [exact H2|lia].
Qed.

Lemma nonneg_nth : forall a, nonneg_all a = true -> forall n, 0 <= nth n a 0.
Proof.
  induction a as [|x r IH]; intros H n; cbn in *.
  - destruct n; lia.
  - apply andb_prop in H. destruct H as [H1 H2]. apply Z.leb_le in H1. destruct n as [|n]; [exact H1|]. apply IH. exact H2.
Qed.

Record dominated_facts (ps es : stage) : Prop := {
  df_head : st_head es <= st_head ps;
  df_frames : forall k, getz (st_frames es) k <= getz (st_frames ps) k;
  df_header : forall k, getz (st_header es) k <= getz (st_header ps) k;
  df_frames_nn : forall k, 0 <= getz (st_frames es) k }.

Lemma dominated_spec : forall ps es, blocks_dominated ps es = true -> dominated_facts ps es.
Proof.
  intros ps es H. unfold blocks_dominated in H.
  repeat (apply andb_prop in H; let H' := fresh "H" in destruct H as [H H']).
  apply Nat.eqb_eq in H0. apply Nat.eqb_eq in H1. apply Z.leb_le in H.
  constructor.
  - exact H.
  - intro k. unfold getz. apply le_all_nth; assumption.
  - intro k. unfold getz. apply le_all_nth; assumption.
  - intro k. unfold getz. apply nonneg_nth. assumption.
Qed.

(* the statement-level comparison: for every tree whose simple statements are thin, emit needs no more frames than parse *)
Lemma need_dominated : forall ps es, blocks_dominated ps es = true ->
  forall t, (forall l, In l (leaves_of t) -> thin ps es l = true) -> need es t <= need ps t.
Proof.
  intros ps es HD. pose proof (dominated_spec _ _ HD) as F.
  induction t as [l|k body IH] using stmt_ind'; intro HT.
  - cbn [need]. apply Z.leb_le. apply HT. cbn. left. reflexivity.
  - rewrite !need_block. rewrite leaves_block in HT.
    assert (HN : needs es body <= needs ps body).
    { clear -IH HT. induction body as [|x r IHr]; cbn [needs]; [lia|].
      inversion IH as [|? ? Hx Hr]; subst.
      assert (need es x <= need ps x) by (apply Hx; intros l Hl; apply HT; cbn [leaves_of_list]; apply in_or_app; left; exact Hl).
      assert (needs es r <= needs ps r) by (apply IHr; [exact Hr|intros l Hl; apply HT; cbn [leaves_of_list]; apply in_or_app; right; exact Hl]).
      lia. }
    pose proof (df_frames _ _ F k). pose proof (df_header _ _ F k). lia.
Qed.

Lemma needs_dominated : forall ps es, blocks_dominated ps es = true ->
  forall b, (forall l, In l (leaves_of_list b) -> thin ps es l = true) -> needs es b <= needs ps b.
Proof.
  intros ps es HD b. induction b as [|x r IH]; intro HT; cbn [needs]; [lia|].
  assert (need es x <= need ps x) by (apply need_dominated; [exact HD|intros l Hl; apply HT; cbn [leaves_of_list]; apply in_or_app; left; exact Hl]).
  assert (needs es r <= needs ps r) by (apply IH; intros l Hl; apply HT; cbn [leaves_of_list]; apply in_or_app; right; exact Hl).
  lia.
Qed.

Theorem prog_dominated : forall ps es, blocks_dominated ps es = true ->
  forall p, (forall l, In l (leaves_of_list p) -> thin ps es l = true) -> need_prog es p <= need_prog ps p.
Proof.
  intros ps es HD p HT. unfold need_prog.
  pose proof (needs_dominated _ _ HD p HT). pose proof (df_head _ _ (dominated_spec _ _ HD)). lia.
Qed.

(* what parse() accepts, emit() can emit - with whatever room the caller leaves *)
Theorem accepted_fits : forall ps es, blocks_dominated ps es = true ->
  forall room p, (forall l, In l (leaves_of_list p) -> thin ps es l = true) -> fits ps room p = true -> fits es room p = true.
Proof.
  intros ps es HD room p HT H. unfold fits in *. apply Z.leb_le in H. apply Z.leb_le.
  pose proof (prog_dominated _ _ HD p HT). lia.
Qed.

(* the outcome of the pipeline, case by case *)
Theorem pipeline_cases : forall g ps es room p,
  (pipeline g ps es room p = 0 <-> (need_prog ps p <= room /\ need_prog es p <= room)) /\
  (pipeline g ps es room p = 1 <-> room < need_prog ps p) /\
  (pipeline g ps es room p = 2 <-> (g = false /\ need_prog ps p <= room /\ room < need_prog es p)) /\
  (pipeline g ps es room p = 3 <-> (g = true /\ need_prog ps p <= room /\ room < need_prog es p)).
Proof.
  intros g ps es room p. unfold pipeline, fits.
  destruct (need_prog ps p <=? room) eqn:E1; destruct (need_prog es p <=? room) eqn:E2; destruct g;
    try apply Z.leb_le in E1; try apply Z.leb_le in E2; try apply Z.leb_gt in E1; try apply Z.leb_gt in E2;
    repeat split; intros; try discriminate; try lia; try reflexivity;
    match goal with H : _ /\ _ |- _ => destruct H as [? ?]; try discriminate; try lia end.
Qed.

(* an internal error exactly when emit() is unguarded and the script lies in the window parse's need <= room < emit's need *)
Theorem pipeline_crash_iff : forall g ps es room p,
  pipeline g ps es room p = 2 <-> (g = false /\ need_prog ps p <= room /\ room < need_prog es p).
Proof. intros g ps es room p. apply (pipeline_cases g ps es room p). Qed.

(* a guarded emit(): for EVERY pair of constant tables, every tree, every room - never an internal error, and the only
   outcomes are firmware or a clean rejection by one of the two stages *)
Theorem guarded_pipeline_clean : forall ps es room p, pipeline true ps es room p <> 2.
Proof.
  intros ps es room p H. apply pipeline_crash_iff in H. destruct H as [H _]. discriminate.
Qed.

Theorem guarded_pipeline_outcomes : forall ps es room p,
  pipeline true ps es room p = 0 \/ pipeline true ps es room p = 1 \/ pipeline true ps es room p = 3.
Proof.
  intros ps es room p. unfold pipeline.
  destruct (fits ps room p); [destruct (fits es room p)|]; auto.
Qed.

(* the former window is a clean rejection by emit() *)
Theorem guarded_window_rejects : forall ps es room p,
  need_prog ps p <= room -> room < need_prog es p -> pipeline true ps es room p = 3.
Proof. intros ps es room p H1 H2. apply (pipeline_cases true ps es room p). auto. Qed.

(* ... and the guard is what makes it so: the same script without it *)
Theorem unguarded_window_crashes : forall ps es room p,
  need_prog ps p <= room -> room < need_prog es p -> pipeline false ps es room p = 2.
Proof. intros ps es room p H1 H2. apply pipeline_crash_iff. auto. Qed.

(* the guard changes nothing but the kind of the failure: firmware and rejection by parse() are the same with and without *)
Theorem guard_only_changes_the_kind : forall ps es room p,
  (pipeline true ps es room p = 0 <-> pipeline false ps es room p = 0) /\
  (pipeline true ps es room p = 1 <-> pipeline false ps es room p = 1) /\
  (pipeline true ps es room p = 3 <-> pipeline false ps es room p = 2).
Proof.
  intros ps es room p. unfold pipeline.
  destruct (fits ps room p); [destruct (fits es room p)|]; repeat split; intros; try discriminate; reflexivity.
Qed.

(* which scripts still yield firmware: under dominance (and thin simple statements) everything parse() accepts *)
Theorem accepted_yields_firmware : forall g ps es, blocks_dominated ps es = true ->
  forall room p, (forall l, In l (leaves_of_list p) -> thin ps es l = true) -> fits ps room p = true -> pipeline g ps es room p = 0.
Proof.
  intros g ps es HD room p HT H. unfold pipeline. rewrite H. rewrite (accepted_fits _ _ HD room p HT H). reflexivity.
Qed.

(* ---- ladders *)
Lemma ladder_lower : forall s k d l, Z.of_nat d * getz (st_frames s) k + getz (st_leaf s) l <= need s (ladder k d l).
Proof.
  intros s k d l. induction d as [|d IH].
  - cbn [ladder need]. lia.
  - cbn [ladder]. rewrite need_block. cbn [needs]. rewrite Nat2Z.inj_succ.
    replace (Z.succ (Z.of_nat d) * getz (st_frames s) k) with (Z.of_nat d * getz (st_frames s) k + getz (st_frames s) k) by ring.
    lia.
Qed.

Lemma ladder_upper : forall s k d l, 0 <= getz (st_frames s) k ->
  need s (ladder k d l) <= Z.of_nat d * getz (st_frames s) k + Z.max (getz (st_header s) k) (Z.max (getz (st_leaf s) l) 0).
Proof.
  intros s k d l Hf. induction d as [|d IH].
  - cbn [ladder need]. lia.
  - cbn [ladder]. rewrite need_block. cbn [needs]. rewrite Nat2Z.inj_succ.
    replace (Z.succ (Z.of_nat d) * getz (st_frames s) k) with (Z.of_nat d * getz (st_frames s) k + getz (st_frames s) k) by ring.
    assert (0 <= Z.of_nat d * getz (st_frames s) k) by (apply Z.mul_nonneg_nonneg; lia).
    lia.
Qed.

Lemma bump_get : forall l k extra, (k < length l)%nat -> getz (bump k extra l) k = getz l k + extra.
Proof.
  unfold getz. induction l as [|x r IH]; intros k extra H; cbn in *; [lia|].
  destruct k as [|k]; cbn; [reflexivity|]. apply IH. lia.
Qed.

(* NECESSITY of the guard: a stage that needs even one frame more per level than parse, in any slot, around any simple
   statement, fails on some ladder parse() accepts - with an internal error when unguarded, cleanly when guarded *)
Theorem extra_frame_opens_window : forall ps es k l extra,
  (k < length (st_frames es))%nat -> 0 < extra ->
  0 <= getz (st_frames ps) k -> getz (st_frames ps) k <= getz (st_frames es) k ->
  exists d room, pipeline false ps (bump_frames es k extra) room [ladder k d l] = 2
                 /\ pipeline true ps (bump_frames es k extra) room [ladder k d l] = 3.
Proof.
  intros ps es k l extra Hk Hx Hp Hpe.
  set (fp := getz (st_frames ps) k) in *. set (fe := getz (st_frames es) k) in *.
  set (Mp := Z.max (getz (st_header ps) k) (Z.max (getz (st_leaf ps) l) 0)).
  set (ce := getz (st_leaf es) l).
  set (D := Z.max 0 (Mp - ce) + Z.max 0 (st_head ps - ce) + 1).
  exists (Z.to_nat D). exists (Z.max (st_head ps) (Z.max (D * fp + Mp) 0)).
  cut (need_prog ps [ladder k (Z.to_nat D) l] <= Z.max (st_head ps) (Z.max (D * fp + Mp) 0)
       /\ Z.max (st_head ps) (Z.max (D * fp + Mp) 0) < need_prog (bump_frames es k extra) [ladder k (Z.to_nat D) l]).
  { intros [W1 W2]. split; [apply unguarded_window_crashes|apply guarded_window_rejects]; assumption. }
  assert (HD : 0 <= D) by (unfold D; lia).
  assert (HDn : Z.of_nat (Z.to_nat D) = D) by (apply Z2Nat.id; exact HD).
  split.
  - unfold need_prog. cbn [needs].
    pose proof (ladder_upper ps k (Z.to_nat D) l Hp) as U. rewrite HDn in U. fold fp in U. fold Mp in U. lia.
  - unfold need_prog. cbn [needs].
    pose proof (ladder_lower (bump_frames es k extra) k (Z.to_nat D) l) as L. rewrite HDn in L.
    cbn [bump_frames st_frames st_leaf] in L. rewrite (bump_get _ _ _ Hk) in L. fold fe in L. fold ce in L.
    assert (D * fp <= D * fe) by (apply Z.mul_le_mono_nonneg_l; lia).
    assert (D * 1 <= D * extra) by (apply Z.mul_le_mono_nonneg_l; lia).
    assert (0 <= D * fp) by (apply Z.mul_nonneg_nonneg; lia).
    rewrite Z.mul_add_distr_l in L.
    assert (Mp - ce < D) by (unfold D; lia). assert (st_head ps - ce < D) by (unfold D; lia).
    assert (0 <= Mp) by (unfold Mp; lia).
    lia.
Qed.

(* every tree is transpiled when the caller leaves enough room; the guard plays no part in that *)
Theorem enough_room_yields_firmware : forall g ps es p room,
  need_prog ps p <= room -> need_prog es p <= room -> pipeline g ps es room p = 0.
Proof. intros g ps es p room H1 H2. apply (pipeline_cases g ps es room p). auto. Qed.

(* ---- non-vacuity on a small pair of tables that does not depend on the source: two slots, three simple statements, the
   third one needs two frames more in emit than in parse *)
Definition toy_ps : stage := mkstage 3 [1; 1] [2; 4] [2; 1; 1].
Definition toy_es : stage := mkstage 2 [1; 1] [2; 2] [1; 1; 3].

Example toy_tables :
  blocks_dominated toy_ps toy_es = true /\ thin toy_ps toy_es 0 = true /\ thin toy_ps toy_es 1 = true /\ thin toy_ps toy_es 2 = false.
Proof. vm_compute. repeat split; reflexivity. Qed.

(* 10 frames of room: 7 levels around the fat statement are emitted, 8 and 9 levels are accepted by parse and rejected by a
   guarded emit (an internal error without the guard), 10 levels are rejected by parse *)
Example toy_window :
  pipeline true toy_ps toy_es 10 [ladder 0 7 2] = 0 /\
  pipeline true toy_ps toy_es 10 [ladder 0 8 2] = 3 /\ pipeline true toy_ps toy_es 10 [ladder 0 9 2] = 3 /\
  pipeline false toy_ps toy_es 10 [ladder 0 8 2] = 2 /\ pipeline false toy_ps toy_es 10 [ladder 0 9 2] = 2 /\
  pipeline true toy_ps toy_es 10 [ladder 0 10 2] = 1 /\ pipeline false toy_ps toy_es 10 [ladder 0 10 2] = 1.
Proof. vm_compute. repeat split; reflexivity. Qed.

Example toy_thin_tree_yields_firmware :
  let p := [ladder 0 9 1; Block 1 [Leaf 0; Block 0 [Leaf 1]; Leaf 1]] in
  (forall l, In l (leaves_of_list p) -> thin toy_ps toy_es l = true) /\ fits toy_ps 10 p = true /\ pipeline true toy_ps toy_es 10 p = 0
  /\ fits toy_ps 9 p = false.
Proof.
  cbv zeta. split.
  - intros l Hl. vm_compute in Hl. repeat (destruct Hl as [Hl|Hl]; [subst l; vm_compute; reflexivity|]). contradiction.
  - vm_compute. repeat split; reflexivity.
Qed.

Example toy_extra_frame : exists d room,
  pipeline false toy_ps (bump_frames toy_es 0 1) room [ladder 0 d 0] = 2 /\ pipeline true toy_ps (bump_frames toy_es 0 1) room [ladder 0 d 0] = 3.
Proof. apply extra_frame_opens_window; vm_compute; try reflexivity; try discriminate; lia. Qed.
