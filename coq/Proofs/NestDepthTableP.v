(* The stack constants of the CURRENT source (Gen/NestDepth.v, measured by harness/gen/nestdepth.py on every run) against
   the conditions of Proofs/NestDepthP.v.  Every lemma here is re-checked by the kernel against what the code does now. *)
From Coq Require Import ZArith List Bool Lia.
From RV Require Import Lang.NestDepth Proofs.NestDepthP Gen.NestDepth.
Import ListNotations.
Open Scope Z_scope.

(* emit() needs no more frames than parse() for the prelude, per level of every block slot, and for every block header *)
Lemma nest_blocks_dominated : blocks_dominated parse_stage emit_stage = true.
Proof. vm_compute. reflexivity. Qed.

(* the simple statements on which emit() needs MORE frames than parse() (finding F-C11-emit-stack-window):
   rgb.on() / rgb.off() / motor.backward() / motor.invert() - their emitter branch goes through one more helper
   (_emit_rgb_update, _emit_motor_drive_lines -> _ensure_*_tracking) than the parser needs to recognise the line *)
Definition known_fat : list nat := [54; 55; 56; 57]%nat.

Lemma nest_fat_leaves_pinned : fat_leaves parse_stage emit_stage = known_fat.
Proof. vm_compute. reflexivity. Qed.

Definition in_nat (l : nat) (xs : list nat) : bool := existsb (Nat.eqb l) xs.

Lemma nest_thin_iff_not_known_fat :
  forallb (fun l => Bool.eqb (thin parse_stage emit_stage l) (negb (in_nat l known_fat))) (seq 0 (length (st_leaf emit_stage))) = true.
Proof. vm_compute. reflexivity. Qed.

Lemma nest_same_leaf_count : length (st_leaf emit_stage) = length (st_leaf parse_stage).
Proof. vm_compute. reflexivity. Qed.

Lemma thin_of_not_fat : forall l, (l < length (st_leaf emit_stage))%nat -> ~ In l known_fat -> thin parse_stage emit_stage l = true.
Proof.
  intros l Hl Hn. pose proof nest_thin_iff_not_known_fat as H. rewrite forallb_forall in H.
  specialize (H l). assert (HI : In l (seq 0 (length (st_leaf emit_stage)))) by (apply in_seq; lia).
  specialize (H HI). apply Bool.eqb_prop in H. rewrite H.
  assert (E : in_nat l known_fat = false).
  { unfold in_nat. apply Bool.not_true_is_false. intro C. apply existsb_exists in C. destruct C as [x [Hx Hx2]].
    apply Nat.eqb_eq in Hx2. subst. contradiction. }
  rewrite E. reflexivity.
Qed.

(* the pipeline on the current source: for every room the caller leaves and every program tree over the measured
   statements that avoids the four fat ones - never a RecursionError from emit() *)
Theorem nest_pipeline_clean_partial : forall room p,
  (forall l, In l (leaves_of_list p) -> (l < length (st_leaf emit_stage))%nat /\ ~ In l known_fat) ->
  pipeline parse_stage emit_stage room p <> 2.
Proof.
  intros room p H. apply pipeline_clean; [exact nest_blocks_dominated|].
  intros l Hl. destruct (H l Hl) as [A B]. apply thin_of_not_fat; assumption.
Qed.

Theorem nest_accepted_fits_partial : forall room p,
  (forall l, In l (leaves_of_list p) -> (l < length (st_leaf emit_stage))%nat /\ ~ In l known_fat) ->
  fits parse_stage room p = true -> fits emit_stage room p = true.
Proof.
  intros room p H. apply accepted_fits; [exact nest_blocks_dominated|].
  intros l Hl. destruct (H l Hl) as [A B]. apply thin_of_not_fat; assumption.
Qed.

(* ... and with a fat one the unguarded statement is false: 75 nested `if` around rgb.off() (leaf 55) with 80 frames of room
   - parse() accepts (75 + 5 frames), emit() needs 75 + 6 *)
Theorem nest_emit_window_refuted : exists room p, pipeline parse_stage emit_stage room p = 2.
Proof. exists 80. exists [ladder 0 75 55]. vm_compute. reflexivity. Qed.

(* the window is exactly one level wide for these statements: one level less is emitted, one level more is rejected cleanly *)
Example nest_window_one_level :
  pipeline parse_stage emit_stage 80 [ladder 0 74 55] = 0 /\ pipeline parse_stage emit_stage 80 [ladder 0 76 55] = 1.
Proof. vm_compute. split; reflexivity. Qed.

(* non-vacuity of the guard: a thin statement at the deepest accepted level is emitted, one level deeper is a clean ValueError *)
Example nest_guard_inhabited :
  pipeline parse_stage emit_stage 80 [ladder 0 75 1; Block 4 [Block 5 [Leaf 6; Leaf 30]; Leaf 19]] = 0
  /\ pipeline parse_stage emit_stage 80 [ladder 0 76 1] = 1
  /\ (forall l, In l (leaves_of_list [ladder 0 75 1; Block 4 [Block 5 [Leaf 6; Leaf 30]; Leaf 19]]) ->
        (l < length (st_leaf emit_stage))%nat /\ ~ In l known_fat).
Proof.
  split; [vm_compute; reflexivity|]. split; [vm_compute; reflexivity|].
  intros l Hl. vm_compute in Hl.
  repeat (destruct Hl as [Hl|Hl]; [subst l; split; [vm_compute; lia|intro C; vm_compute in C; intuition discriminate]|]).
  contradiction.
Qed.

(* the seeded shape: one more frame per level in ANY inner slot of the current emitter (a recursive call moved into a local
   helper) opens a window around every simple statement *)
Lemma nest_inner_frames_equal : forall k, (k < 7)%nat ->
  0 <= getz (st_frames parse_stage) k /\ getz (st_frames parse_stage) k <= getz (st_frames emit_stage) k
  /\ (k < length (st_frames emit_stage))%nat.
Proof.
  intros k Hk. do 7 (destruct k as [|k]; [vm_compute; repeat split; try discriminate; lia|]). lia.
Qed.

Theorem nest_helper_frame_opens_window : forall k l extra, (k < 7)%nat -> 0 < extra ->
  exists d room, pipeline parse_stage (bump_frames emit_stage k extra) room [ladder k d l] = 2.
Proof.
  intros k l extra Hk Hx. destruct (nest_inner_frames_equal k Hk) as [A [B C]].
  apply extra_frame_opens_window; assumption.
Qed.
