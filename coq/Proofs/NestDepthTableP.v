(* The stack model of the CURRENT source (Gen/NestDepth.v: constants measured, guard of emit() observed by
   harness/gen/nestdepth.py on every run) against Proofs/NestDepthP.v.  Every lemma here is re-checked by the kernel against
   what the code does now. *)
From Coq Require Import ZArith List Bool Lia.
From RV Require Import Lang.NestDepth Proofs.NestDepthP Gen.NestDepth.
Import ListNotations.
Open Scope Z_scope.

(* emit() reports its own exhausted nesting as ValueError, like parse() (the repair of F-C11-emit-stack-window): the
   obligation on the current source - without the wrapper the translator writes false and this lemma fails *)
Lemma nest_emit_guarded : emit_guarded = true.
Proof. vm_compute. reflexivity. Qed.

(* the pipeline on the current source: for every room the caller leaves and EVERY program tree (any statements, any block
   slots, any width and depth) - never a RecursionError from emit() *)
Theorem nest_pipeline_clean : forall room p, pipeline emit_guarded parse_stage emit_stage room p <> 2.
Proof. intros room p. rewrite nest_emit_guarded. apply guarded_pipeline_clean. Qed.

Theorem nest_pipeline_outcomes : forall room p,
  pipeline emit_guarded parse_stage emit_stage room p = 0 \/ pipeline emit_guarded parse_stage emit_stage room p = 1
  \/ pipeline emit_guarded parse_stage emit_stage room p = 3.
Proof. intros room p. rewrite nest_emit_guarded. apply guarded_pipeline_outcomes. Qed.

(* what parse() accepts and emit() cannot hold is rejected by emit() with ValueError: the former window of the finding *)
Theorem nest_window_rejects : forall room p,
  need_prog parse_stage p <= room -> room < need_prog emit_stage p -> pipeline emit_guarded parse_stage emit_stage room p = 3.
Proof. intros room p. rewrite nest_emit_guarded. apply guarded_window_rejects. Qed.

(* which scripts still yield firmware on the current source: everything parse() accepts, as far as the measured constants of
   emit() are dominated by those of parse() (a fact about the tables the evidence reports; not an obligation - a deeper
   emitter now costs accepted depth, not cleanliness) *)
Theorem nest_accepted_yields_firmware : blocks_dominated parse_stage emit_stage = true ->
  forall room p, (forall l, In l (leaves_of_list p) -> thin parse_stage emit_stage l = true) ->
  fits parse_stage room p = true -> pipeline emit_guarded parse_stage emit_stage room p = 0.
Proof. intros HD room p HT H. apply accepted_yields_firmware; assumption. Qed.
