(* C01 - the translated program is default-free (Lang/NoReinit.v): the hoisted declarations promo_decls leaves in front
   of a nested block are all dropped again by the enclosing block's rewrite, and at the two outermost levels
   (setup depth 0, body of the main loop) they are global declarations, not nodes. *)
From Coq Require Import ZArith List Bool Lia.
From RV Require Import Base.Wire Base.Text Lang.StmtAst Lang.Transl Lang.NoReinit.
From RV Require Import Proofs.SkeletonP Lang.Scope Proofs.ScopeP.
Import ListNotations.
Open Scope Z_scope.

Lemma nodef_n_unfold n :
  nodef_n n = match n with
              | NDecl _ _ e _ => negb (is_def e)
              | NDeclTmp _ _ e => negb (is_def e)
              | NAssign _ e => negb (is_def e)
              | NIf bs els => nodef_bs bs && nodef_l els
              | NWhile _ b => nodef_l b
              | NFor _ _ b => nodef_l b
              | _ => true end.
Proof.
  assert (G : forall l, (fix go (l : list cnode) : bool := match l with [] => true | x :: r => nodef_n x && go r end) l = nodef_l l).
  { intro l. reflexivity. }
  destruct n; try reflexivity; cbn; rewrite ?G; try reflexivity.
  all: f_equal; induction branches as [|[c b] r IH]; [reflexivity|]; cbn; rewrite G; f_equal; exact IH.
Qed.

Lemma nodef_app a b : nodef_l (a ++ b) = nodef_l a && nodef_l b.
Proof. induction a as [|x a IH]; cbn; [reflexivity|]. rewrite IH, andb_assoc. reflexivity. Qed.

(* ---- the rewriters keep a node list default-free ---- *)
Lemma nodef_map (f : cnode -> cnode) l :
  Forall (fun n => nodef_n n = true -> nodef_n (f n) = true) l -> nodef_l l = true -> nodef_l (map f l) = true.
Proof.
  induction 1 as [|x l Hx _ IH]; intro H; [reflexivity|]. cbn in *. apply andb_true_iff in H as [H1 H2].
  rewrite (Hx H1), (IH H2). reflexivity.
Qed.

Lemma nodef_map_bs (f : cnode -> cnode) bs :
  Forall (fun cb => Forall (fun n => nodef_n n = true -> nodef_n (f n) = true) (snd cb)) bs ->
  nodef_bs bs = true -> nodef_bs (map (fun cb => (fst cb, map f (snd cb))) bs) = true.
Proof.
  induction 1 as [|[c b] l Hx _ IH]; intro H; [reflexivity|]. cbn in *. apply andb_true_iff in H as [H1 H2].
  rewrite (nodef_map f b Hx H1), (IH H2). reflexivity.
Qed.

Lemma nodef_rewrite_if pn n : nodef_n n = true -> nodef_n (rewrite_if pn n) = true.
Proof.
  induction n using cnode_ind'; rewrite rewrite_if_unfold; intro Hn; try exact Hn.
  - destruct g; [exact Hn|]. destruct (tmem x pn); [|exact Hn]. rewrite nodef_n_unfold in *. exact Hn.
  - rewrite nodef_n_unfold in *. apply andb_true_iff in Hn as [A B].
    rewrite (nodef_map_bs _ bs H A), (nodef_map _ els H0 B). reflexivity.
Qed.

Lemma nodef_rewrite_deep pn n : nodef_n n = true -> nodef_n (rewrite_deep pn n) = true.
Proof.
  induction n using cnode_ind'; rewrite rewrite_deep_unfold; intro Hn; try exact Hn.
  - destruct g; [exact Hn|]. destruct (tmem x pn); [|exact Hn]. rewrite nodef_n_unfold in *. exact Hn.
  - rewrite nodef_n_unfold in *. apply andb_true_iff in Hn as [A B].
    rewrite (nodef_map_bs _ bs H A), (nodef_map _ els H0 B). reflexivity.
  - rewrite nodef_n_unfold in *. exact (nodef_map _ b H Hn).
  - rewrite nodef_n_unfold in *. exact (nodef_map _ b H Hn).
Qed.

Lemma nodef_map_rewrite_if pn l : nodef_l l = true -> nodef_l (map (rewrite_if pn) l) = true.
Proof. apply nodef_map. apply Forall_forall. intros n _. apply nodef_rewrite_if. Qed.
Lemma nodef_map_rewrite_deep pn l : nodef_l l = true -> nodef_l (map (rewrite_deep pn) l) = true.
Proof. apply nodef_map. apply Forall_forall. intros n _. apply nodef_rewrite_deep. Qed.

(* ---- hoisted-or-clean: a node is default-free, or it is the hoisted declaration of a name with property P ---- *)
Definition hoc (P : ident -> Prop) (n : cnode) : Prop :=
  nodef_n n = true \/ exists x t t', n = NDecl x t (XDefault t') false /\ P x.

Lemma hoc_impl (P Q : ident -> Prop) n : (forall x, P x -> Q x) -> hoc P n -> hoc Q n.
Proof. intros H [A|(x & t & t' & E & Hp)]; [left; exact A|right; exists x, t, t'; split; [exact E|apply H; exact Hp]]. Qed.

(* dropping the hoisted declarations of the promoted names leaves a default-free list *)
Lemma drop_clean pn (P : ident -> Prop) l :
  Forall (hoc P) l -> (forall x, P x -> tmem x pn = true) -> nodef_l (drop_hoisted pn l) = true.
Proof.
  intros HF HP. unfold drop_hoisted. induction HF as [|n l Hn _ IH]; [reflexivity|]. cbn [filter].
  destruct Hn as [A|(x & t & t' & E & Hp)].
  - destruct (is_hoisted pn n); cbn [negb]; [exact IH|]. cbn [nodef_l]. rewrite A, IH. reflexivity.
  - subst n. cbn [is_hoisted]. rewrite (HP x Hp). cbn [negb]. exact IH.
Qed.

(* ---- what promo_decls emits ---- *)
Lemma promo_hoisted glob : forall names s decls s3,
  promo_decls glob names s = (decls, s3) ->
  Forall (fun n => exists x t, n = NDecl x t (XDefault t) false /\ In x (map fst names)) decls /\
  (glob = true -> decls = []).
Proof.
  induction names as [|[x t] r IH]; intros s decls s3 H.
  - cbn in H. inversion H; subst. split; [constructor|reflexivity].
  - rewrite promo_cons in H. cbv zeta in H. destruct glob.
    + destruct (IH _ _ _ H) as [A B]. split; [|exact B].
      eapply Forall_impl; [|exact A]. intros n (y & u & E & Hy). exists y, u. split; [exact E|right; exact Hy].
    + match type of H with (let '(_, _) := promo_decls false r ?S in _) = _ => destruct (promo_decls false r S) as [rest s2] eqn:Er end.
      inversion H; subst decls s3. destruct (IH _ _ _ Er) as [A _]. split; [|discriminate].
      constructor.
      * exists x, t. split; [reflexivity|left; reflexivity].
      * eapply Forall_impl; [|exact A]. intros n (y & u & E & Hy). exists y, u. split; [exact E|right; exact Hy].
Qed.

(* ---- what one translated block guarantees ---- *)
Definition newin (s s' : tst) (x : ident) : Prop := ~ In x (declared s) /\ In x (declared s').

(* [inv]: declared names only grow; every node is default-free or the hoisted declaration of a name this very block
   introduced.  [P]: ... and at a level whose declarations are globals there is no hoisted declaration at all. *)
Definition inv (s : tst) (ns : list cnode) (s' : tst) : Prop :=
  incl (declared s) (declared s') /\ Forall (hoc (newin s s')) ns.
Definition P (glob : bool) (s : tst) (ns : list cnode) (s' : tst) : Prop :=
  inv s ns s' /\ (glob = true -> nodef_l ns = true).

Lemma nodef_Forall l : nodef_l l = true -> Forall (fun n => nodef_n n = true) l.
Proof. induction l as [|x l IH]; cbn; intro H; [constructor|]. apply andb_true_iff in H as [A B]. constructor; auto. Qed.

Lemma P_clean glob s ns s' : incl (declared s) (declared s') -> nodef_l ns = true -> P glob s ns s'.
Proof.
  intros I H. split; [|intros _; exact H]. split; [exact I|].
  eapply Forall_impl; [|apply nodef_Forall; exact H]. intros n Hn. left. exact Hn.
Qed.

Lemma P_nil glob s : P glob s [] s.
Proof. apply P_clean; [apply incl_refl|reflexivity]. Qed.

Lemma P_seq glob s a s1 b s2 : P glob s a s1 -> P glob s1 b s2 -> P glob s (a ++ b) s2.
Proof.
  intros [[I1 F1] G1] [[I2 F2] G2]. split; [split|].
  - eapply incl_tran; eauto.
  - apply Forall_app. split.
    + eapply Forall_impl; [|exact F1]. intros n. apply hoc_impl. intros x [A B]. split; [exact A|apply I2; exact B].
    + eapply Forall_impl; [|exact F2]. intros n. apply hoc_impl. intros x [A B]. split; [|exact B].
      intro Hx. apply A. apply I1. exact Hx.
  - intro Hg. rewrite nodef_app, (G1 Hg), (G2 Hg). reflexivity.
Qed.

Lemma P_ext glob s0 s ns s' : declared s = declared s0 -> P glob s0 ns s' -> P glob s ns s'.
Proof. unfold P, inv, newin. intros ->. tauto. Qed.

(* ---- leaves ---- *)
Lemma tr_assign_P glob x e s : P glob s (fst (tr_assign glob x e s)) (snd (tr_assign glob x e s)).
Proof.
  unfold tr_assign. destruct (is_declared x s).
  - cbn [fst snd]. apply P_clean; [apply incl_refl|reflexivity].
  - destruct glob; [destruct (closed_const e)|]; cbn [fst snd]; apply P_clean; try reflexivity;
      cbn [add_global declare with_ty declared]; apply incl_appl, incl_refl.
Qed.

Lemma tuple_global_clean : forall xs es s,
  nodef_l (fst (tuple_global xs es s)) = true /\ incl (declared s) (declared (snd (tuple_global xs es s))).
Proof.
  induction xs as [|x xr IH]; intros [|e er] s; cbn [tuple_global fst snd]; try (split; [reflexivity|apply incl_refl]).
  destruct (closed_const e);
    match goal with |- context [tuple_global xr er ?S] => destruct (IH er S) as [A B]; destruct (tuple_global xr er S) as [rest s3] end;
    cbn [fst snd app nodef_l] in *; (split; [try rewrite A; reflexivity|]);
    (eapply incl_tran; [|exact B]); cbn [add_global declare declared]; apply incl_appl, incl_refl.
Qed.

Lemma tuple_tmps_clean es : forall k, nodef_l (tuple_tmps es k) = true.
Proof. induction es as [|e er IH]; intro k; cbn; [reflexivity|apply IH]. Qed.

Lemma tuple_binds_clean : forall xs es k s,
  nodef_l (fst (tuple_binds xs es k s)) = true /\ incl (declared s) (declared (snd (tuple_binds xs es k s))).
Proof.
  induction xs as [|x xr IH]; intros [|e er] k s; cbn [tuple_binds fst snd]; try (split; [reflexivity|apply incl_refl]).
  destruct (is_declared x s);
    match goal with |- context [tuple_binds xr er ?K ?S] => destruct (IH er K S) as [A B]; destruct (tuple_binds xr er K S) as [rest s3] end;
    cbn [fst snd nodef_l] in *; (split; [rewrite A; reflexivity|]); [exact B|].
  eapply incl_tran; [|exact B]. cbn [declare declared]. apply incl_appl, incl_refl.
Qed.

Lemma tuple_binds_main_clean : forall xs es k s,
  nodef_l (fst (tuple_binds_main xs es k s)) = true /\ incl (declared s) (declared (snd (tuple_binds_main xs es k s))).
Proof.
  induction xs as [|x xr IH]; intros [|e er] k s; cbn [tuple_binds_main fst snd]; try (split; [reflexivity|apply incl_refl]).
  match goal with |- context [tuple_binds_main xr er ?K ?S] => destruct (IH er K S) as [A B]; destruct (tuple_binds_main xr er K S) as [rest s3] end.
  cbn [fst snd nodef_l] in *. split; [rewrite A; reflexivity|].
  eapply incl_tran; [|exact B]. destruct (is_declared x s); [apply incl_refl|].
  cbn [add_global declare declared]. apply incl_appl, incl_refl.
Qed.

Lemma tr_tuple_P glob xs es s ns s' : tr_tuple glob xs es s = Some (ns, s') -> P glob s ns s'.
Proof.
  unfold tr_tuple. destruct (negb _); [discriminate|].
  set (es' := firstn (length xs) es).
  destruct (set_tys_same xs es' s) as [SD _].
  destruct (_ && glob).
  - intros [= E]. destruct (tuple_global_clean xs es' (set_tys xs es' s)) as [A B]. rewrite E in A, B. cbn [fst snd] in A, B.
    apply P_clean; [rewrite <- SD; exact B|exact A].
  - set (k := tmpc (set_tys xs es' s)).
    set (s2 := with_tmpc (k + Z.of_nat (length es')) (set_tys xs es' s)).
    destruct (tuple_binds_clean xs es' k s2) as [A B].
    destruct (tuple_binds xs es' k s2) as [binds s3]. cbn [fst snd] in A, B.
    intros [= <- <-]. apply P_clean.
    + rewrite <- SD. exact B.
    + rewrite nodef_app, tuple_tmps_clean, A. reflexivity.
Qed.

Lemma tr_tuple_main_P glob xs es s ns s' : tr_tuple_main xs es s = Some (ns, s') -> P glob s ns s'.
Proof.
  unfold tr_tuple_main. destruct (negb _); [discriminate|].
  set (es' := firstn (length xs) es).
  destruct (set_tys_same xs es' s) as [SD _].
  set (k := tmpc (set_tys xs es' s)).
  set (s2 := with_tmpc (k + Z.of_nat (length es')) (set_tys xs es' s)).
  destruct (tuple_binds_main_clean xs es' k s2) as [A B].
  destruct (tuple_binds_main xs es' k s2) as [binds s3]. cbn [fst snd] in A, B.
  intros [= <- <-]. apply P_clean.
  - rewrite <- SD. exact B.
  - rewrite nodef_app, tuple_tmps_clean, A. reflexivity.
Qed.

(* ---- a control node with the declarations promoted out of it ---- *)
Lemma wrap_P glob s sA prom decls s3 node :
  promo_decls glob prom sA = (decls, s3) ->
  declared sA = declared s ->
  (forall x, In x (map fst prom) -> ~ In x (declared s)) ->
  nodef_n node = true ->
  P glob s (decls ++ [node]) s3.
Proof.
  intros Ep DA NEW HN.
  destruct (promo_spec _ _ _ _ _ Ep) as (A & _ & _ & _).
  destruct (promo_hoisted _ _ _ _ _ Ep) as [HH HG].
  split; [split|].
  - intros y Hy. apply A. left. rewrite DA. exact Hy.
  - apply Forall_app. split.
    + eapply Forall_impl; [|exact HH]. intros n (x & t & E & Hx). right. exists x, t, t. split; [exact E|].
      split; [apply NEW; exact Hx|apply A; right; exact Hx].
    + constructor; [left; exact HN|constructor].
  - intro Hg. rewrite (HG Hg). cbn [app nodef_l]. rewrite HN. reflexivity.
Qed.

(* ---- the promoted names cover everything a child context introduced ---- *)
Lemma tmem_app' x a b : tmem x (a ++ b) = tmem x a || tmem x b.
Proof. induction a as [|y r IH]; [reflexivity|]. cbn [app tmem]. rewrite IH, orb_assoc. reflexivity. Qed.

Lemma new_names_In child parent x : In x (new_names child parent) <-> In x child /\ ~ In x parent.
Proof.
  unfold new_names. rewrite filter_In. split; intros [A B]; (split; [exact A|]).
  - intro H. apply tmem_In in H. rewrite H in B. discriminate.
  - destruct (tmem x parent) eqn:E; [|reflexivity]. apply tmem_In in E. contradiction.
Qed.

Lemma dedup_incl : forall l seen x, In x (dedup l seen) -> In x l.
Proof.
  induction l as [|y r IH]; intros seen x H; [destruct H|]. cbn [dedup] in H.
  destruct (tmem y seen); [right; eapply IH; exact H|]. destruct H as [<-|H]; [left; reflexivity|right; eapply IH; exact H].
Qed.

Lemma pn_covers (ordered pset : list ident) x :
  In x pset -> tmem x (ordered ++ filter (fun y => negb (tmem y ordered)) pset) = true.
Proof.
  intro H. rewrite tmem_app'. destruct (tmem x ordered) eqn:E; [reflexivity|]. cbn [orb].
  apply tmem_In. apply filter_In. split; [exact H|rewrite E; reflexivity].
Qed.

Lemma pn_within (ns : list cnode) (pset : list ident) x :
  In x (dedup (filter (fun y => tmem y pset) (flat_map decl_order ns)) [] ++
        filter (fun y => negb (tmem y (dedup (filter (fun y => tmem y pset) (flat_map decl_order ns)) []))) pset) ->
  In x pset.
Proof.
  intro H. apply in_app_or in H as [H|H].
  - apply dedup_incl in H. apply filter_In in H as [_ H]. apply tmem_In. exact H.
  - apply filter_In in H as [H _]. exact H.
Qed.

(* ---- the main induction ---- *)
Lemma tr_block_P ml : forall fuel glob ld s ps ns s',
  tr_block ml fuel glob ld s ps = Some (ns, s') -> P glob s ns s'.
Proof.
  induction fuel as [|f IH]; intros glob ld s ps ns s' H; [discriminate|].
  destruct ps as [|p rest]; [inversion H; subst; apply P_nil|].
  assert (K : forall ns0 s1,
             match tr_block ml f glob ld s1 rest with
             | None => None | Some (ms, s2) => Some (ns0 ++ ms, s2) end = Some (ns, s') ->
             P glob s ns0 s1 -> P glob s ns s').
  { intros ns0 s1 Hr Hp.
    destruct (tr_block ml f glob ld s1 rest) as [[ms s2]|] eqn:E; [|discriminate].
    inversion Hr; subst. eapply P_seq; [exact Hp|]. eapply IH; eauto. }
  assert (LEAF : forall ns0, nodef_l ns0 = true -> P glob s ns0 s) by (intros; apply P_clean; [apply incl_refl|assumption]).
  destruct p; cbn [tr_block] in H.
  - (* PAssign *)
    pose proof (tr_assign_P glob x (rt_ann ml e) s) as Hs.
    destruct (tr_assign glob x (rt_ann ml e) s) as [a0 a1]. eapply K; [exact H|exact Hs].
  - (* PAug *)
    eapply K; [exact H|]. apply P_clean; [apply incl_refl|reflexivity].
  - (* PTuple *)
    head_opt H a0 a1 E. eapply K; [exact H|].
    destruct (glob && ml); [eapply tr_tuple_main_P; exact E|eapply tr_tuple_P; exact E].
  - (* PIf *)
    head_opt H a0 a1 E. eapply K; [exact H|]. clear H K LEAF.
    destruct (tr_block ml f false ld (child_of s (globals s)) body) as [[ns1 cs1]|] eqn:E1; [|discriminate].
    match type of E with
    | context [?B (globals cs1) elifs] => set (BR := B) in *
    end.
    assert (HB : forall l gl brs gl', BR gl l = Some (brs, gl') ->
                 Forall (fun x => Forall (hoc (fun y => ~ In y (declared s) /\ In y (declared (snd x)))) (snd (fst x))) brs).
    { induction l as [|[c' b] r IHl]; intros gl brs gl' Hb; cbn in Hb.
      - inversion Hb; subst. constructor.
      - destruct (tr_block ml f false ld (child_of s gl) b) as [[nsb cs]|] eqn:Eb; [|discriminate].
        destruct (BR (globals cs) r) as [[rest' gl'']|] eqn:Er; [|discriminate].
        inversion Hb; subst. constructor; [|eapply IHl; exact Er]. cbn [fst snd].
        destruct (IH _ _ _ _ _ _ Eb) as [[_ Fb] _]. exact Fb. }
    destruct (BR (globals cs1) elifs) as [[brs0 gl1]|] eqn:Ebr; [|discriminate].
    pose proof (HB _ _ _ _ Ebr) as F0.
    destruct (IH _ _ _ _ _ _ E1) as [[_ F1] _].
    (* the promoted names: every name a branch context introduced, and only such names *)
    assert (HC1 : forall cl seen x,
              In x (map fst ((fix collect (cl : list tst) (seen : list ident) {struct cl} : list (ident * ty) :=
                    match cl with
                    | [] => []
                    | cs :: r =>
                        map (fun x : ident => (x, get_ty x (vtypes cs)))
                          (filter (fun x : text => negb (tmem x seen)) (new_names (declared cs) (declared s))) ++
                        collect r (seen ++ filter (fun x : text => negb (tmem x seen)) (new_names (declared cs) (declared s)))
                    end) cl seen)) -> ~ In x (declared s)).
    { induction cl as [|cs r IHc]; intros seen x Hx; [destruct Hx|].
      rewrite map_app, map_fst_pair in Hx. apply in_app_or in Hx as [Hx|Hx]; [|eapply IHc; exact Hx].
      apply filter_In in Hx as [Hx _]. apply new_names_In in Hx as [_ Hx]. exact Hx. }
    assert (HC2 : forall cl seen cs x, In cs cl -> In x (new_names (declared cs) (declared s)) ->
              In x seen \/
              In x (map fst ((fix collect (cl : list tst) (seen : list ident) {struct cl} : list (ident * ty) :=
                    match cl with
                    | [] => []
                    | cs :: r =>
                        map (fun x : ident => (x, get_ty x (vtypes cs)))
                          (filter (fun x : text => negb (tmem x seen)) (new_names (declared cs) (declared s))) ++
                        collect r (seen ++ filter (fun x : text => negb (tmem x seen)) (new_names (declared cs) (declared s)))
                    end) cl seen))).
    { induction cl as [|c0 r IHc]; intros seen cs x Hin Hx; [destruct Hin|].
      rewrite map_app, map_fst_pair. destruct Hin as [->|Hin].
      - destruct (tmem x seen) eqn:Es; [left; apply tmem_In; exact Es|].
        right. apply in_or_app. left. apply filter_In. split; [exact Hx|rewrite Es; reflexivity].
      - destruct (IHc (seen ++ filter (fun x0 : text => negb (tmem x0 seen)) (new_names (declared c0) (declared s))) cs x Hin Hx) as [A|A].
        + apply in_app_or in A as [A|A]; [left; exact A|right; apply in_or_app; left; exact A].
        + right. apply in_or_app. right. exact A. }
    assert (FIN : forall (brs : list (Z * list cnode * tst)) (elsn : list cnode) (ctxs : list tst) (gl2 : list gdecl)
                         (COL : list tst -> list ident -> list (ident * ty)),
               (forall x, In x (map fst (COL ctxs [])) -> ~ In x (declared s)) ->
               (forall cs x, In cs ctxs -> In x (new_names (declared cs) (declared s)) -> In x [] \/ In x (map fst (COL ctxs []))) ->
               Forall (fun x => In (snd x) ctxs /\
                                Forall (hoc (fun y => ~ In y (declared s) /\ In y (declared (snd x)))) (snd (fst x))) brs ->
               (elsn = [] \/ exists cs, In cs ctxs /\ Forall (hoc (fun y => ~ In y (declared s) /\ In y (declared cs))) elsn) ->
               (let '(decls, s3) :=
                  promo_decls glob (COL ctxs [])
                    (fold_left (fun acc xt => with_ty (fst xt) (snd xt) acc) (COL ctxs [])
                       {| declared := declared s; vtypes := vtypes s; globals := gl2; tmpc := tmpc s |}) in
                Some (decls ++ [NIf (map (fun x : Z * list cnode * tst =>
                                            (fst (fst x), map (rewrite_if (map fst (COL ctxs []))) (drop_hoisted (map fst (COL ctxs [])) (snd (fst x))))) brs)
                                    (map (rewrite_if (map fst (COL ctxs []))) (drop_hoisted (map fst (COL ctxs [])) elsn))], s3)) = Some (a0, a1) ->
               P glob s a0 a1).
    { intros brs elsn ctxs gl2 COL S1 S2 HBR HEL HE.
      set (prom := COL ctxs []) in *. set (pn := map fst prom) in *.
      assert (COV : forall cs y, In cs ctxs -> ~ In y (declared s) /\ In y (declared cs) -> tmem y pn = true).
      { intros cs y Hcs [A B]. apply tmem_In. destruct (S2 cs y Hcs) as [[]|S]; [|exact S]. apply new_names_In. split; assumption. }
      match type of HE with context [promo_decls _ _ ?S] => remember S as sA eqn:ES end.
      destruct (promo_decls glob prom sA) as [decls s3] eqn:Ep. injection HE as <- <-.
      apply (wrap_P glob s sA prom decls s3); [exact Ep| |exact S1|].
      - rewrite ES. exact (proj1 (fold_with_ty prom _)).
      - rewrite nodef_n_unfold. apply andb_true_iff. split.
        + clear -HBR COV. induction HBR as [|x r [Hin Hx] _ IHr]; [reflexivity|].
          cbn [map nodef_bs fst snd]. rewrite IHr, andb_true_r.
          apply nodef_map_rewrite_if. apply (drop_clean pn _ _ Hx). intros y Hy. exact (COV _ y Hin Hy).
        + destruct HEL as [->|(cs & Hin & Hx)]; [reflexivity|].
          apply nodef_map_rewrite_if. apply (drop_clean pn _ _ Hx). intros y Hy. exact (COV _ y Hin Hy). }
    destruct els as [|e0 els'].
    + eapply (FIN ((a_id c, ns1, cs1) :: brs0) [] (map (fun x : Z * list cnode * tst => snd x) ((a_id c, ns1, cs1) :: brs0) ++ []) _ _
                  (HC1 _ []) (HC2 _ [])); [| |exact E].
      * constructor.
        -- cbn [fst snd map]. split; [left; reflexivity|exact F1].
        -- apply Forall_forall. intros x Hx. rewrite Forall_forall in F0. split; [|exact (F0 x Hx)].
           apply in_or_app. left. apply (in_map (fun x : Z * list cnode * tst => snd x)). right. exact Hx.
      * left. reflexivity.
    + destruct (tr_block ml f false ld (child_of s gl1) (e0 :: els')) as [[nse cse]|] eqn:Ee; [|discriminate].
      destruct (IH _ _ _ _ _ _ Ee) as [[_ Fe] _].
      eapply (FIN ((a_id c, ns1, cs1) :: brs0) nse (map (fun x : Z * list cnode * tst => snd x) ((a_id c, ns1, cs1) :: brs0) ++ [cse]) _ _
                  (HC1 _ []) (HC2 _ [])); [| |exact E].
      * constructor.
        -- cbn [fst snd map]. split; [left; reflexivity|exact F1].
        -- apply Forall_forall. intros x Hx. rewrite Forall_forall in F0. split; [|exact (F0 x Hx)].
           apply in_or_app. left. apply (in_map (fun x : Z * list cnode * tst => snd x)). right. exact Hx.
      * right. exists cse. split; [apply in_or_app; right; left; reflexivity|exact Fe].
  - (* PWhile *)
    head_opt H a0 a1 E. eapply K; [exact H|]. clear H K LEAF.
    destruct (tr_block ml f false (S ld) (child_of s (globals s)) body) as [[nsb cs]|] eqn:Eb; [|discriminate].
    destruct (IH _ _ _ _ _ _ Eb) as [[_ Fb] _].
    match type of E with context [NWhile _ (map (rewrite_deep ?PN) _)] => remember PN as pn eqn:EPN end.
    match type of E with context [promo_decls _ ?N _] => remember N as prom eqn:EN end.
    match type of E with context [promo_decls _ _ ?S] => remember S as sA eqn:ES end.
    destruct (promo_decls glob prom sA) as [decls s3] eqn:Ep.
    injection E as <- <-.
    apply (wrap_P glob s sA prom decls s3); [exact Ep| | |].
    + rewrite ES. exact (proj1 (fold_with_ty prom _)).
    + intros x Hx. rewrite EN, map_fst_pair, EPN in Hx. apply pn_within in Hx. apply new_names_In in Hx as [_ Hx]. exact Hx.
    + rewrite nodef_n_unfold. apply nodef_map_rewrite_deep. apply (drop_clean pn _ _ Fb).
      intros x [A B]. rewrite EPN. apply pn_covers. apply new_names_In. split; [exact B|exact A].
  - (* PFor *)
    head_opt H a0 a1 E. eapply K; [exact H|]. clear H K LEAF.
    match type of E with match tr_block ml f false (S ld) ?B body with _ => _ end = _ =>
      set (base := B) in *; destruct (tr_block ml f false (S ld) base body) as [[nsb cs]|] eqn:Eb; [|discriminate] end.
    destruct (IH _ _ _ _ _ _ Eb) as [[_ Fb] _].
    match type of E with context [NFor _ _ (map (rewrite_deep ?PN) _)] => remember PN as pn eqn:EPN end.
    match type of E with context [promo_decls _ ?N _] => remember N as prom eqn:EN end.
    match type of E with context [promo_decls _ _ ?S] => remember S as sA eqn:ES end.
    destruct (promo_decls glob prom sA) as [decls s3] eqn:Ep.
    injection E as <- <-.
    apply (wrap_P glob s sA prom decls s3); [exact Ep| | |].
    + rewrite ES. exact (proj1 (fold_with_ty prom _)).
    + intros y Hy. rewrite EN, map_fst_pair, EPN in Hy. apply pn_within in Hy. apply new_names_In in Hy as [_ Hy].
      intro Hs. apply Hy. unfold base. cbn [declared]. apply in_or_app. left. exact Hs.
    + rewrite nodef_n_unfold. apply nodef_map_rewrite_deep. apply (drop_clean pn _ _ Fb).
      intros y [A B]. rewrite EPN. apply pn_covers. apply new_names_In. split; [exact B|exact A].
  - (* PBreak *)
    destruct ld as [|[|ld']]; [discriminate| |].
    + destruct ml; [discriminate|]. eapply K; [exact H|]. apply LEAF. reflexivity.
    + eapply K; [exact H|]. apply LEAF. reflexivity.
  - (* PContinue *)
    destruct ld as [|[|ld']]; [discriminate| |].
    + destruct ml; (eapply K; [exact H|]); apply LEAF; reflexivity.
    + eapply K; [exact H|]. apply LEAF. reflexivity.
  - eapply K; [exact H|]. apply LEAF. reflexivity.
  - eapply K; [exact H|]. apply LEAF. reflexivity.
  - destruct (closed_const e); eapply K; try exact H; apply LEAF; reflexivity.
Qed.

(* ---- the whole program ---- *)
Theorem transl_default_free p c : transl p = Some c -> nodef_prog c = true.
Proof.
  intros H. unfold transl in H. unfold nodef_prog.
  destruct (tr_block false (bsize (p_pre p)) true 0 st0 (p_pre p)) as [[setup s1]|] eqn:E1; [|discriminate].
  destruct (tr_block_P _ _ _ _ _ _ _ _ E1) as [_ G1].
  destruct (p_main p) as [body|].
  - destruct (tr_block true (bsize body) true 1 s1 body) as [[loop s2]|] eqn:E2; [|discriminate].
    destruct (tr_block_P _ _ _ _ _ _ _ _ E2) as [_ G2].
    inversion H; subst; cbn [c_setup c_loop]. rewrite (G1 eq_refl), (G2 eq_refl). reflexivity.
  - inversion H; subst; cbn [c_setup c_loop]. rewrite (G1 eq_refl). reflexivity.
Qed.

(* non-vacuity: the two witnesses of the repaired findings are accepted, default-free, and DO have a default
   initialiser - in a global declaration *)
From RV Require Import Lang.StmtSem Lang.StmtGuard Lang.SemFacts Lang.StmtDemo.
Lemma default_free_demo :
  (exists c, transl looplocal = Some c /\ nodef_prog c = true /\ existsb (fun g => is_def (g_init g)) (c_globals c) = true) /\
  (exists c, transl reinit = Some c /\ nodef_prog c = true /\ existsb (fun g => is_def (g_init g)) (c_globals c) = true).
Proof. split; eexists; (split; [vm_compute; reflexivity|split; vm_compute; reflexivity]). Qed.
