(* Lemmas about Base/NumC.v and Base/TextC.v: rounding, decimal text. *)
From Coq Require Import ZArith QArith List Bool Lia DecimalPos.
From RV Require Import Base.Wire Base.Text Base.NumC Base.TextC.
Import ListNotations.
Open Scope Z_scope.

(* ---------------------------------------------------- round half even *)

(* in integers: |n - round(n/d) * d| <= d/2, and on a tie the result is even *)
Lemma q_round_spec_Z (n : Z) (d : positive) :
  let r := q_round (Qmake n d) in
  - Zpos d <= 2 * (n - r * Zpos d) <= Zpos d /\
  (Z.abs (2 * (n - r * Zpos d)) = Zpos d -> Z.even r = true).
Proof.
  cbn zeta. unfold q_round. cbn [Qnum Qden].
  pose proof (Z.div_mod n (Zpos d) ltac:(lia)) as Hdm.
  pose proof (Z.mod_pos_bound n (Zpos d) ltac:(lia)) as Hb.
  set (f := n / Zpos d) in *. set (m := n mod Zpos d) in *. clearbody f m.
  set (D := Zpos d) in *. assert (HD : 0 < D) by (unfold D; lia). clearbody D.
  subst n. destruct (Z.compare_spec (2 * m) D) as [C|C|C].
  - destruct (Z.even f) eqn:Ev.
    + split; [nia|]. intros _. exact Ev.
    + split; [nia|]. intros _. rewrite Z.even_add. rewrite Ev. reflexivity.
  - split; [nia|]. intro H. exfalso. nia.
  - split; [nia|]. intro H. exfalso. nia.
Qed.

(* in rationals: round(q) is within 1/2 of q *)
Lemma q_round_near (q : Q) :
  (inject_Z (q_round q) - (1 # 2) <= q /\ q <= inject_Z (q_round q) + (1 # 2))%Q.
Proof.
  destruct q as [n d].
  destruct (q_round_spec_Z n d) as [[H1 H2] _]. cbn zeta in *.
  set (r := q_round (n # d)) in *.
  unfold Qle, Qminus, Qplus, Qopp, inject_Z. cbn [Qnum Qden].
  split; nia.
Qed.

(* whole numbers round to themselves *)
Lemma q_round_int z : q_round (inject_Z z) = z.
Proof.
  unfold q_round, inject_Z. cbn [Qnum Qden].
  rewrite Z.div_1_r, Z.mod_1_r. reflexivity.
Qed.

(* ------------------------------------------------------- decimal text *)

Lemma uint_text_digits u : forallb is_digit (uint_text u) = true.
Proof. induction u; cbn; auto. Qed.

Lemma dec_acc_pos u : forall acc : positive,
  dec_acc (Zpos acc) (uint_text u) = Zpos (Pos.of_uint_acc u acc).
Proof.
  induction u as [|u IH|u IH|u IH|u IH|u IH|u IH|u IH|u IH|u IH|u IH]; intro acc;
    cbn [uint_text dec_acc Pos.of_uint_acc]; [reflexivity|..];
    match goal with
    | |- dec_acc ?a _ = Zpos (Pos.of_uint_acc _ ?b) =>
        replace a with (Zpos b) by lia; apply IH
    end.
Qed.

Lemma dec_uint u : dec (uint_text u) = Z.of_N (Pos.of_uint u).
Proof.
  unfold dec.
  induction u as [|u IH|u IH|u IH|u IH|u IH|u IH|u IH|u IH|u IH|u IH];
    cbn [uint_text dec_acc Pos.of_uint]; [reflexivity|exact IH|..];
    match goal with
    | |- dec_acc ?a _ = Z.of_N (N.pos (Pos.of_uint_acc _ ?b)) =>
        replace a with (Zpos b) by lia; apply dec_acc_pos
    end.
Qed.

(* str(z) of a non-negative int is a digit string that denotes z *)
Lemma str_Z_digits z : 0 <= z -> all_digits (str_Z z) = true /\ dec (str_Z z) = z.
Proof.
  intro Hz. destruct z as [|p|p]; [vm_compute; auto| |lia].
  unfold str_Z. cbn [Z.to_int]. split.
  - unfold all_digits.
    destruct (uint_text (Pos.to_uint p)) eqn:E.
    + pose proof (Unsigned.to_uint_nonnil p) as Hn.
      destruct (Pos.to_uint p); cbn in E; try discriminate. contradiction.
    + rewrite <- E. apply uint_text_digits.
  - rewrite dec_uint. rewrite Unsigned.of_to. reflexivity.
Qed.

(* str(z) of a negative int starts with '-' and is therefore not a digit string *)
Lemma str_Z_negative z : z < 0 -> all_digits (str_Z z) = false.
Proof.
  intro Hz. destruct z as [|p|p]; try lia. unfold str_Z. cbn [Z.to_int]. reflexivity.
Qed.
