(* Lemmas about Base/NumM.v: boolean comparisons on Q reflect the order, clamp facts. *)
From Coq Require Import ZArith QArith Lia Lqa List Bool.
From RV Require Import Base.Wire Base.NumM.
Import ListNotations.
Open Scope Q_scope.

Lemma Qleb_true x y : Qleb x y = true <-> x <= y.
Proof. unfold Qleb. apply Qle_bool_iff. Qed.

Lemma Qleb_false x y : Qleb x y = false <-> y < x.
Proof.
  unfold Qleb. split; intro H.
  - apply Qnot_le_lt. intro Hle. apply Qle_bool_iff in Hle. congruence.
  - destruct (Qle_bool x y) eqn:E; [|reflexivity].
    apply Qle_bool_iff in E. exfalso. apply (Qlt_not_le _ _ H E).
Qed.

Lemma Qltb_true x y : Qltb x y = true <-> x < y.
Proof. unfold Qltb. rewrite negb_true_iff. apply Qleb_false. Qed.

Lemma Qltb_false x y : Qltb x y = false <-> y <= x.
Proof. unfold Qltb. rewrite negb_false_iff. apply Qleb_true. Qed.

(* on numbers (no NaN in this model)  not x < y  is  x >= y *)
Lemma py_not_lt_ge x y : py_not_lt x y = py_ge x y.
Proof.
  unfold py_not_lt, py_lt, py_ge, py_le. destruct (qof x) as [a|]; destruct (qof y) as [b|]; try reflexivity.
  unfold Qltb, Qleb. rewrite negb_involutive. reflexivity.
Qed.

Lemma Qeqb_true x y : Qeqb x y = true <-> x == y.
Proof. unfold Qeqb. apply Qeq_bool_iff. Qed.

Lemma Qeqb_false x y : Qeqb x y = false <-> ~ x == y.
Proof.
  split; intro H.
  - intro E. apply Qeqb_true in E. congruence.
  - destruct (Qeqb x y) eqn:E; [|reflexivity]. apply Qeqb_true in E. contradiction.
Qed.

Lemma Qeqb_compat x x' y : x == x' -> Qeqb x y = Qeqb x' y.
Proof.
  intro E. destruct (Qeqb x y) eqn:A; destruct (Qeqb x' y) eqn:B; try reflexivity.
  - apply Qeqb_true in A. apply Qeqb_false in B. exfalso. apply B. rewrite <- E. exact A.
  - apply Qeqb_false in A. apply Qeqb_true in B. exfalso. apply A. rewrite E. exact B.
Qed.

Lemma qclamp_bounds lo hi x : lo <= hi -> lo <= qclamp lo hi x <= hi.
Proof.
  intro H. unfold qclamp.
  destruct (Qltb hi x) eqn:A.
  - split; [exact H | apply Qle_refl].
  - apply Qltb_false in A. destruct (Qltb x lo) eqn:B.
    + split; [apply Qle_refl | exact H].
    + apply Qltb_false in B. split; assumption.
Qed.

Lemma qclamp_id lo hi x : lo <= x <= hi -> qclamp lo hi x = x.
Proof.
  intros [H1 H2]. unfold qclamp.
  destruct (Qltb hi x) eqn:A.
  - apply Qltb_true in A. exfalso. apply (Qlt_not_le _ _ A H2).
  - destruct (Qltb x lo) eqn:B; [|reflexivity].
    apply Qltb_true in B. exfalso. apply (Qlt_not_le _ _ B H1).
Qed.

Lemma qclamp_mono lo hi x y : lo <= hi -> x <= y -> qclamp lo hi x <= qclamp lo hi y.
Proof.
  intros Hlh Hxy. unfold qclamp.
  destruct (Qltb hi x) eqn:A; destruct (Qltb hi y) eqn:B;
    destruct (Qltb x lo) eqn:C; destruct (Qltb y lo) eqn:D;
    try apply Qltb_true in A; try apply Qltb_false in A;
    try apply Qltb_true in B; try apply Qltb_false in B;
    try apply Qltb_true in C; try apply Qltb_false in C;
    try apply Qltb_true in D; try apply Qltb_false in D; lra.
Qed.

Lemma qclamp_compat lo hi x y : x == y -> qclamp lo hi x == qclamp lo hi y.
Proof.
  intro E. unfold qclamp.
  destruct (Qltb hi x) eqn:A; destruct (Qltb hi y) eqn:B;
    destruct (Qltb x lo) eqn:C; destruct (Qltb y lo) eqn:D;
    try apply Qltb_true in A; try apply Qltb_false in A;
    try apply Qltb_true in B; try apply Qltb_false in B;
    try apply Qltb_true in C; try apply Qltb_false in C;
    try apply Qltb_true in D; try apply Qltb_false in D; lra.
Qed.

Lemma qabs_spec x : (0 <= x -> qabs x = x) /\ (x < 0 -> qabs x = - x) /\ 0 <= qabs x.
Proof.
  unfold qabs. destruct (Qltb x 0) eqn:A.
  - apply Qltb_true in A. repeat split; intros; try lra.
  - apply Qltb_false in A. repeat split; intros; try lra.
Qed.

Lemma qabs_le1 x : -(1) <= x <= 1 -> 0 <= qabs x <= 1.
Proof.
  intros [H1 H2]. unfold qabs. destruct (Qltb x 0) eqn:A.
  - apply Qltb_true in A. lra.
  - apply Qltb_false in A. lra.
Qed.

Lemma qsum_app a b : qsum (a ++ b) == qsum a + qsum b.
Proof. induction a as [|x a IH]; cbn [qsum app]; [lra | rewrite IH; lra]. Qed.

Lemma qsum_repeat x n : qsum (repeat x n) == inject_Z (Z.of_nat n) * x.
Proof.
  induction n as [|n IH].
  - cbn [repeat qsum Z.of_nat]. change (inject_Z 0) with 0. ring.
  - cbn [repeat qsum]. rewrite IH. rewrite Nat2Z.inj_succ. unfold Z.succ.
    rewrite inject_Z_plus. ring.
Qed.
