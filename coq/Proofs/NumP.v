(* Lemmas about Base/Num.v: comparisons, truncation, round-half-even. *)
From Coq Require Import ZArith QArith Qround Lia Lqa List Bool.
From RV Require Import Base.Wire Base.Num.
Import ListNotations.
Import Num.
Local Open Scope Q_scope.

Lemma Qltb_true : forall x y, Qltb x y = true <-> x < y.
Proof.
  intros x y. unfold Qltb. rewrite negb_true_iff. split; intro H.
  - apply Qnot_le_lt. intro Hle. apply Qle_bool_iff in Hle. congruence.
  - destruct (Qle_bool y x) eqn:E; [|reflexivity].
    apply Qle_bool_iff in E. exfalso. apply (Qlt_not_le _ _ H E).
Qed.

Lemma Qltb_false : forall x y, Qltb x y = false <-> y <= x.
Proof.
  intros x y. unfold Qltb. rewrite negb_false_iff. apply Qle_bool_iff.
Qed.

Lemma Qle_bool_false : forall x y, Qle_bool x y = false <-> y < x.
Proof.
  intros x y. split; intro H.
  - apply Qnot_le_lt. intro Hle. apply Qle_bool_iff in Hle. congruence.
  - destruct (Qle_bool x y) eqn:E; [|reflexivity].
    apply Qle_bool_iff in E. exfalso. apply (Qlt_not_le _ _ H E).
Qed.

Lemma inject_Z_le : forall a b : Z, (a <= b)%Z <-> inject_Z a <= inject_Z b.
Proof. intros. rewrite Zle_Qle. tauto. Qed.

Lemma inject_Z_lt : forall a b : Z, (a < b)%Z <-> inject_Z a < inject_Z b.
Proof. intros. rewrite Zlt_Qlt. tauto. Qed.

(* ---- floor / ceiling characterisations ---- *)
Lemma Qfloor_unique : forall (q : Q) (z : Z),
  inject_Z z <= q -> q < inject_Z z + 1 -> Qfloor q = z.
Proof.
  intros q z Hlo Hhi.
  pose proof (Qfloor_le q) as H1. pose proof (Qlt_floor q) as H2.
  rewrite inject_Z_plus in H2. change (inject_Z 1) with 1 in H2.
  assert (Hz1 : (z < Qfloor q + 1)%Z).
  { apply inject_Z_lt. rewrite inject_Z_plus. change (inject_Z 1) with 1. lra. }
  assert (Hz2 : (Qfloor q < z + 1)%Z).
  { apply inject_Z_lt. rewrite inject_Z_plus. change (inject_Z 1) with 1. lra. }
  lia.
Qed.

Lemma Qceiling_unique : forall (q : Q) (z : Z),
  inject_Z z - 1 < q -> q <= inject_Z z -> Qceiling q = z.
Proof.
  intros q z Hlo Hhi. unfold Qceiling.
  assert (H : Qfloor (- q) = (- z)%Z).
  { apply Qfloor_unique; rewrite inject_Z_opp; lra. }
  rewrite H. lia.
Qed.

Lemma Qfloor_nonneg : forall q, 0 <= q -> (0 <= Qfloor q)%Z.
Proof.
  intros q H. change 0%Z with (Qfloor 0). apply Qfloor_resp_le. exact H.
Qed.

(* ---- int(): truncation ---- *)
Lemma trunc_floor : forall q, 0 <= q -> py_int_trunc q = Qfloor q.
Proof.
  intros [n d] H. unfold py_int_trunc, Qfloor. cbn [Qnum Qden].
  apply Z.quot_div_nonneg.
  - unfold Qle in H. cbn in H. lia.
  - reflexivity.
Qed.

Lemma trunc_inject : forall z, py_int_trunc (inject_Z z) = z.
Proof. intro z. unfold py_int_trunc, inject_Z. cbn. apply Z.quot_1_r. Qed.

Lemma trunc_bounds : forall q (n : Z), 0 <= q -> q <= inject_Z n ->
  (0 <= py_int_trunc q <= n)%Z.
Proof.
  intros q n H0 Hn. rewrite trunc_floor by exact H0. split.
  - apply Qfloor_nonneg; exact H0.
  - rewrite <- (Qfloor_Z n). apply Qfloor_resp_le. exact Hn.
Qed.

Lemma trunc_mono : forall x y, 0 <= x -> x <= y -> (py_int_trunc x <= py_int_trunc y)%Z.
Proof.
  intros x y H0 H. rewrite !trunc_floor by lra. apply Qfloor_resp_le. exact H.
Qed.

Lemma trunc_lt : forall q (n : Z), 0 <= q -> q < inject_Z n -> (py_int_trunc q < n)%Z.
Proof.
  intros q n H0 H. rewrite trunc_floor by exact H0.
  rewrite Zlt_Qlt. pose proof (Qfloor_le q) as Hf. lra.
Qed.

(* ---- round(): half to even ---- *)
Lemma py_round_Z : forall q z, q == inject_Z z -> py_round q = z.
Proof.
  intros q z H. unfold py_round.
  assert (Hf : Qfloor q = z) by (rewrite H; apply Qfloor_Z).
  rewrite Hf.
  assert (Hc : (q - inject_Z z ?= 1 # 2) = Lt).
  { rewrite <- Qlt_alt. rewrite H. lra. }
  rewrite Hc. reflexivity.
Qed.

Lemma py_round_range : forall q, (Qfloor q <= py_round q <= Qfloor q + 1)%Z.
Proof.
  intro q. unfold py_round.
  destruct (q - inject_Z (Qfloor q) ?= 1 # 2); [destruct (Z.even (Qfloor q))| |]; lia.
Qed.

Lemma py_round_mono : forall x y, x <= y -> (py_round x <= py_round y)%Z.
Proof.
  intros x y H.
  pose proof (Qfloor_resp_le _ _ H) as Hf.
  destruct (Z.eq_dec (Qfloor x) (Qfloor y)) as [E|NE].
  - unfold py_round. rewrite E.
    destruct (x - inject_Z (Qfloor y) ?= 1 # 2) eqn:Cx;
    destruct (y - inject_Z (Qfloor y) ?= 1 # 2) eqn:Cy;
    try (destruct (Z.even (Qfloor y))); try lia;
    try (rewrite <- Qeq_alt in Cx); try (rewrite <- Qlt_alt in Cx); try (rewrite <- Qgt_alt in Cx);
    try (rewrite <- Qeq_alt in Cy); try (rewrite <- Qlt_alt in Cy); try (rewrite <- Qgt_alt in Cy);
    exfalso; lra.
  - pose proof (py_round_range x). pose proof (py_round_range y). lia.
Qed.

Lemma py_round_between : forall q (a b : Z), inject_Z a <= q -> q <= inject_Z b ->
  (a <= py_round q <= b)%Z.
Proof.
  intros q a b Ha Hb. split.
  - pose proof (py_round_mono _ _ Ha) as Hm.
    rewrite (py_round_Z (inject_Z a) a) in Hm by reflexivity. exact Hm.
  - pose proof (py_round_mono _ _ Hb) as Hm.
    rewrite (py_round_Z (inject_Z b) b) in Hm by reflexivity. exact Hm.
Qed.

(* ---- values ---- *)
Lemma between_zval : forall v, num_between 0 255 v = Some true -> (0 <= zval v <= 255)%Z.
Proof.
  intros v H. unfold num_between in H. destruct v as [z|q|b|]; cbn in H; try discriminate.
  - injection H as H. apply andb_true_iff in H as [H1 H2].
    apply Qle_bool_iff in H1, H2. cbn [zval].
    change 0 with (inject_Z 0) in H1. change 255 with (inject_Z 255) in H2.
    apply inject_Z_le in H1, H2. lia.
  - injection H as H. apply andb_true_iff in H as [H1 H2].
    apply Qle_bool_iff in H1, H2. cbn [zval]. apply trunc_bounds; assumption.
  - destruct b; cbn; lia.
Qed.
