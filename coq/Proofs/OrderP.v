(* proofs for Lang/Order.v (C10) *)
From Coq Require Import ZArith List Bool Permutation Lia.
From RV Require Import Base.Wire Base.Text Lang.Order.
Import ListNotations.
Open Scope Z_scope.

Lemma session_pure sigma before p after :
  nth_error (session sigma (before ++ p :: after)) (List.length before) = Some (transl sigma p).
Proof.
  unfold session. rewrite map_app. cbn [map].
  rewrite nth_error_app2 by (rewrite map_length; lia).
  rewrite map_length, Nat.sub_diag. reflexivity.
Qed.
