(* proofs for Lang/Order.v (C10) *)
From Coq Require Import ZArith List Bool Permutation Sorted Lia.
From RV Require Import Base.Wire Base.Text Lang.Order.
Import ListNotations.
Open Scope Z_scope.

(* ================================================================ statelessness *)
Lemma session_pure sigma before p after :
  nth_error (session sigma (before ++ p :: after)) (List.length before) = Some (transl sigma p).
Proof.
  unfold session. rewrite map_app. cbn [map].
  rewrite nth_error_app2 by (rewrite map_length; lia).
  rewrite map_length, Nat.sub_diag. reflexivity.
Qed.

(* the output for a program in a session does not depend on the other programs of the session *)
Lemma session_independent sigma before1 after1 before2 after2 p :
  nth_error (session sigma (before1 ++ p :: after1)) (List.length before1) =
  nth_error (session sigma (before2 ++ p :: after2)) (List.length before2).
Proof. rewrite !session_pure. reflexivity. Qed.

(* ================================================================ the order on names *)
Lemma text_leb_refl a : text_leb a a = true.
Proof. induction a as [|x a IH]; cbn; [reflexivity|]. rewrite Z.ltb_irrefl. exact IH. Qed.

Lemma text_leb_total a b : text_leb a b = true \/ text_leb b a = true.
Proof.
  revert b; induction a as [|x a IH]; intros [|y b]; cbn; auto.
  destruct (x <? y) eqn:E1; auto.
  destruct (y <? x) eqn:E2; auto.
Qed.

Lemma text_leb_antisym a b : text_leb a b = true -> text_leb b a = true -> a = b.
Proof.
  revert b; induction a as [|x a IH]; intros [|y b]; cbn; try discriminate; auto.
  destruct (x <? y) eqn:E1; destruct (y <? x) eqn:E2; try discriminate.
  - apply Z.ltb_lt in E1. apply Z.ltb_lt in E2. lia.
  - intros H1 H2. apply Z.ltb_ge in E1. apply Z.ltb_ge in E2.
    assert (x = y) by lia. subst. f_equal. auto.
Qed.

Lemma text_leb_trans a b c : text_leb a b = true -> text_leb b c = true -> text_leb a c = true.
Proof.
  revert b c; induction a as [|x a IH]; intros [|y b] [|z c]; cbn; try discriminate; auto.
  destruct (x <? y) eqn:E1.
  - apply Z.ltb_lt in E1. intros _.
    destruct (y <? z) eqn:E2.
    + apply Z.ltb_lt in E2. intros _. assert (x <? z = true) as -> by (apply Z.ltb_lt; lia). reflexivity.
    + destruct (z <? y) eqn:E3; [discriminate|]. apply Z.ltb_ge in E2. apply Z.ltb_ge in E3.
      intros _. assert (x <? z = true) as -> by (apply Z.ltb_lt; lia). reflexivity.
  - destruct (y <? x) eqn:E1'; [discriminate|]. apply Z.ltb_ge in E1. apply Z.ltb_ge in E1'.
    assert (x = y) by lia. subst y. intros H1.
    destruct (x <? z) eqn:E2; [reflexivity|].
    destruct (z <? x) eqn:E3; [discriminate|]. eauto.
Qed.

Definition tle (a b : text) : Prop := text_leb a b = true.

(* ================================================================ insertion sort *)
Lemma insert_perm x l : Permutation (insert x l) (x :: l).
Proof.
  induction l as [|y r IH]; cbn; [reflexivity|].
  destruct (text_leb x y); [reflexivity|].
  rewrite IH. apply perm_swap.
Qed.

Lemma sort_perm l : Permutation (sort l) l.
Proof.
  induction l as [|x r IH]; cbn; [reflexivity|].
  rewrite insert_perm. constructor. exact IH.
Qed.

Lemma insert_sorted x l : StronglySorted tle l -> StronglySorted tle (insert x l).
Proof.
  induction l as [|y r IH]; cbn; intros H.
  - constructor; constructor.
  - destruct (text_leb x y) eqn:E.
    + constructor; [exact H|]. constructor; [exact E|].
      inversion H as [|? ? _ Hall]; subst.
      eapply Forall_impl; [|exact Hall]. intros z Hz. eapply text_leb_trans; eauto.
    + inversion H as [|? ? Hr Hall]; subst.
      constructor; [auto|].
      assert (tle y x) as Hyx by (destruct (text_leb_total x y) as [A|A]; [congruence|exact A]).
      eapply Permutation_Forall; [symmetry; apply insert_perm|].
      constructor; assumption.
Qed.

Lemma sort_sorted l : StronglySorted tle (sort l).
Proof. induction l as [|x r IH]; cbn; [constructor|apply insert_sorted; exact IH]. Qed.

Lemma sorted_perm_unique l1 : forall l2,
  StronglySorted tle l1 -> StronglySorted tle l2 -> Permutation l1 l2 -> l1 = l2.
Proof.
  induction l1 as [|x r1 IH]; intros l2 H1 H2 HP.
  - apply Permutation_nil in HP. auto.
  - destruct l2 as [|y r2]; [symmetry in HP; apply Permutation_nil in HP; discriminate|].
    inversion H1 as [|? ? Hr1 Ha1]; subst. inversion H2 as [|? ? Hr2 Ha2]; subst.
    assert (x = y) as ->.
    { assert (In x (y :: r2)) as Ix by (eapply Permutation_in; [exact HP|left; reflexivity]).
      assert (In y (x :: r1)) as Iy by (eapply Permutation_in; [symmetry; exact HP|left; reflexivity]).
      destruct Ix as [->|Ix]; [reflexivity|]. destruct Iy as [->|Iy]; [reflexivity|].
      rewrite Forall_forall in Ha1, Ha2. apply text_leb_antisym; [apply Ha1|apply Ha2]; assumption. }
    f_equal. apply IH; auto. eapply Permutation_cons_inv; exact HP.
Qed.

Lemma sort_of_perm l1 l2 : Permutation l1 l2 -> sort l1 = sort l2.
Proof.
  intros HP. apply sorted_perm_unique; try apply sort_sorted.
  rewrite !sort_perm. exact HP.
Qed.

(* sorted(<set>) does not depend on the iteration order of the set *)
Lemma sorted_site_independent s1 s2 l :
  perm_oracle s1 -> perm_oracle s2 -> sorted_site s1 l = sorted_site s2 l.
Proof.
  intros H1 H2. unfold sorted_site. apply sort_of_perm.
  rewrite (H1 l), (H2 l). reflexivity.
Qed.

(* ... and is the sorted arrangement of the elements *)
Lemma sorted_site_spec s l :
  perm_oracle s -> StronglySorted tle (sorted_site s l) /\ Permutation (sorted_site s l) l.
Proof.
  intros H. unfold sorted_site. split; [apply sort_sorted|]. rewrite sort_perm. apply H.
Qed.

(* <set>.pop() on a one-element set *)
Lemma pop_site_singleton s x : perm_oracle s -> pop_site s [x] = Some x.
Proof.
  intros H. unfold pop_site. specialize (H [x]).
  apply Permutation_sym, Permutation_length_1_inv in H. rewrite H. reflexivity.
Qed.

(* ================================================================ small lists have one order *)
Lemma perm_small (l l' : list ident) : (List.length l <= 1)%nat -> Permutation l' l -> l' = l.
Proof.
  destruct l as [|x [|y r]]; cbn; intros HL HP.
  - apply Permutation_sym, Permutation_nil in HP. exact HP.
  - apply Permutation_sym, Permutation_length_1_inv in HP. exact HP.
  - lia.
Qed.

Lemma fold_left_ext_in {A B} (f g : A -> B -> A) l : forall a,
  (forall a b, In b l -> f a b = g a b) -> fold_left f l a = fold_left g l a.
Proof.
  induction l as [|b r IH]; cbn; intros a H; [reflexivity|].
  rewrite H by (left; reflexivity). apply IH. intros; apply H; right; assumption.
Qed.

(* ================================================================ construct level, UNSORTED walk ([promote_with sigma], the code before the
   repair of F-C10-promotion-order): independent of the order inside [guard] *)
Lemma tmem_app x l1 l2 : tmem x (l1 ++ l2) = tmem x l1 || tmem x l2.
Proof. induction l1 as [|y r IH]; cbn; [reflexivity|]. rewrite IH, orb_assoc. reflexivity. Qed.

Lemma promote_branch_small s1 s2 parent acc br :
  perm_oracle s1 -> perm_oracle s2 -> (List.length br <= 1)%nat ->
  promote_branch s1 parent acc br = promote_branch s2 parent acc br.
Proof.
  intros H1 H2 HL. unfold promote_branch.
  assert (List.length (map fst br) <= 1)%nat as HL' by (rewrite map_length; exact HL).
  rewrite (perm_small _ _ HL' (H1 _)), (perm_small _ _ HL' (H2 _)). reflexivity.
Qed.

Lemma add_new_keeps acc x y : In y acc -> In y (add_new acc x).
Proof. unfold add_new. destruct (tmem x acc); [auto|]. intros; apply in_or_app; auto. Qed.

Lemma add_new_has acc x : In x (add_new acc x).
Proof.
  unfold add_new. destruct (tmem x acc) eqn:E.
  - apply tmem_In; exact E.
  - apply in_or_app; right; left; reflexivity.
Qed.

Lemma fold_add_new_keeps l : forall acc y, In y acc -> In y (fold_left add_new l acc).
Proof. induction l as [|x r IH]; cbn; intros; [assumption|]. apply IH, add_new_keeps; assumption. Qed.

Lemma fold_add_new_has l : forall acc y, In y l -> In y (fold_left add_new l acc).
Proof.
  induction l as [|x r IH]; cbn; intros acc y H; [contradiction|].
  destruct H as [->|H].
  - apply fold_add_new_keeps, add_new_has.
  - apply IH; assumption.
Qed.

Lemma fold_add_new_known l : forall acc, (forall y, In y l -> In y acc) -> fold_left add_new l acc = acc.
Proof.
  induction l as [|x r IH]; cbn; intros acc H; [reflexivity|].
  assert (add_new acc x = acc) as ->.
  { unfold add_new. assert (tmem x acc = true) as -> by (apply tmem_In; apply H; left; reflexivity). reflexivity. }
  apply IH. intros; apply H; right; assumption.
Qed.

Lemma loop_order_guarded s d names :
  perm_oracle s -> forallb (fun x => tmem x d) names = true ->
  loop_order s d names = fold_left add_new (filter (fun x => tmem x names) d) [].
Proof.
  intros HP HG. unfold loop_order. apply fold_add_new_known.
  intros y Hy. apply fold_add_new_has. apply filter_In.
  assert (In y names) as Hn by (eapply Permutation_in; [apply HP|exact Hy]).
  rewrite forallb_forall in HG. split; [apply tmem_In, HG, Hn|apply tmem_In, Hn].
Qed.

(* --- if / try: a branch with at most one effective name yields the same list under every order *)
Lemma filter_perm {A} (f : A -> bool) l l' : Permutation l l' -> Permutation (filter f l) (filter f l').
Proof.
  induction 1 as [|x l l' _ IH|x y l|l l' l'' _ IH1 _ IH2]; cbn.
  - reflexivity.
  - destruct (f x); [constructor|]; exact IH.
  - destruct (f x), (f y); try reflexivity. apply perm_swap.
  - etransitivity; eassumption.
Qed.

Definition fresh (parent : list ident) (acc : list decl) (x : ident) : bool :=
  negb (tmem x parent || tmem x (map fst acc)).

Lemma record_fresh parent br acc x : fresh parent acc x = true ->
  record parent br acc x = acc ++ [(x, type_in br x)].
Proof. unfold fresh, record. intros H. apply negb_true_iff in H. rewrite H. reflexivity. Qed.

Lemma record_stale parent br acc x : fresh parent acc x = false -> record parent br acc x = acc.
Proof. unfold fresh, record. intros H. apply negb_false_iff in H. rewrite H. reflexivity. Qed.

Lemma fresh_mono parent acc d x : fresh parent acc x = false -> fresh parent (acc ++ d) x = false.
Proof.
  unfold fresh, decl in *. intros H. apply negb_false_iff in H. apply negb_false_iff.
  apply orb_true_iff in H as [H|H]; [rewrite H; reflexivity|].
  rewrite map_app, tmem_app, H. cbn. apply orb_true_r.
Qed.

Lemma filter_fresh_nil parent acc d l :
  filter (fresh parent acc) l = [] -> filter (fresh parent (acc ++ d)) l = [].
Proof.
  induction l as [|y r IH]; cbn; [reflexivity|].
  destruct (fresh parent acc y) eqn:E; [discriminate|].
  rewrite (fresh_mono parent acc d y E). exact IH.
Qed.

Lemma fold_record_eff parent br l : forall acc,
  (List.length (filter (fresh parent acc) l) <= 1)%nat ->
  fold_left (record parent br) l acc = acc ++ map (fun x => (x, type_in br x)) (filter (fresh parent acc) l).
Proof.
  induction l as [|y r IH]; cbn [fold_left filter]; intros acc HL.
  - cbn. rewrite app_nil_r. reflexivity.
  - destruct (fresh parent acc y) eqn:E.
    + rewrite (record_fresh _ _ _ _ E). cbn [List.length] in HL.
      assert (filter (fresh parent acc) r = []) as Hnil.
      { destruct (filter (fresh parent acc) r); [reflexivity|cbn in HL; lia]. }
      rewrite IH.
      * rewrite (filter_fresh_nil _ _ _ _ Hnil), Hnil. cbn. rewrite app_nil_r. reflexivity.
      * rewrite (filter_fresh_nil _ _ _ _ Hnil). cbn. lia.
    + rewrite (record_stale _ _ _ _ E). apply IH. exact HL.
Qed.

Lemma effective_fresh parent acc br :
  effective parent (map fst acc) br = filter (fresh parent acc) (map fst br).
Proof. reflexivity. Qed.

Lemma promote_branch_eff s parent acc br :
  perm_oracle s -> (List.length (effective parent (map fst acc) br) <= 1)%nat ->
  promote_branch s parent acc br =
  acc ++ map (fun x => (x, type_in br x)) (effective parent (map fst acc) br).
Proof.
  intros HP HL. unfold promote_branch. rewrite effective_fresh in *.
  assert (filter (fresh parent acc) (s (map fst br)) = filter (fresh parent acc) (map fst br)) as HE.
  { apply perm_small; [exact HL|]. apply filter_perm, HP. }
  rewrite fold_record_eff; rewrite HE; [reflexivity|exact HL].
Qed.

Lemma promote_if_guarded s1 s2 parent brs : perm_oracle s1 -> perm_oracle s2 ->
  forall acc, guard_if parent (map fst acc) brs = true ->
  fold_left (promote_branch s1 parent) brs acc = fold_left (promote_branch s2 parent) brs acc.
Proof.
  intros H1 H2. induction brs as [|br r IH]; cbn [fold_left guard_if]; intros acc HG; [reflexivity|].
  apply andb_true_iff in HG as [HL HG]. apply Nat.leb_le in HL.
  rewrite (promote_branch_eff s1 _ _ _ H1 HL), (promote_branch_eff s2 _ _ _ H2 HL).
  apply IH. rewrite map_app, map_map. cbn [fst]. rewrite map_id. exact HG.
Qed.

Lemma promote_guarded s1 s2 c :
  perm_oracle s1 -> perm_oracle s2 -> guard c = true -> promote_with s1 c = promote_with s2 c.
Proof.
  intros H1 H2 HG. destruct c as [parent brs|d pr]; cbn in *.
  - unfold promote_if. apply promote_if_guarded; assumption.
  - unfold promote_loop. rewrite (loop_order_guarded s1), (loop_order_guarded s2) by assumption.
    reflexivity.
Qed.

Lemma filter_len_le {A} (f : A -> bool) l : (List.length (filter f l) <= List.length l)%nat.
Proof. induction l as [|x r IH]; cbn; [lia|]. destruct (f x); cbn; lia. Qed.

(* the simple sufficient condition: at most one new name per branch *)
Lemma guard_if_small parent brs : forall acc,
  forallb (fun br : list decl => (List.length br <=? 1)%nat) brs = true -> guard_if parent acc brs = true.
Proof.
  induction brs as [|br r IH]; cbn [forallb guard_if]; intros acc H; [reflexivity|].
  apply andb_true_iff in H as [HL HR]. apply Nat.leb_le in HL.
  apply andb_true_iff. split; [|apply IH, HR].
  apply Nat.leb_le. unfold effective.
  eapply Nat.le_trans; [apply filter_len_le|]. rewrite map_length. exact HL.
Qed.

(* ================================================================ construct level, unsorted walk: order dependent outside [guard] *)
Definition sid (l : list ident) : list ident := l.
Definition srev (l : list ident) : list ident := rev l.

Lemma sid_perm : perm_oracle sid.
Proof. intros l. reflexivity. Qed.

Lemma srev_perm : perm_oracle srev.
Proof. intros l. symmetry. apply Permutation_rev. Qed.

(* two distinct new names in one branch: the two oracles give two different orders, whatever the names and types *)
Lemma promote_if_two_names parent x y tx ty :
  x <> y -> tmem x parent = false -> tmem y parent = false ->
  promote_with sid (CIf parent [[(x, tx); (y, ty)]]) <> promote_with srev (CIf parent [[(x, tx); (y, ty)]]).
Proof.
  intros Hxy Hx Hy.
  assert (text_eqb y x = false) as Eyx.
  { destruct (text_eqb y x) eqn:E; [|reflexivity]. apply text_eqb_eq in E. congruence. }
  assert (text_eqb x y = false) as Exy.
  { destruct (text_eqb x y) eqn:E; [|reflexivity]. apply text_eqb_eq in E. congruence. }
  cbn. unfold promote_if, promote_branch, record, sid, srev, type_in. cbn.
  rewrite ?Hx, ?Hy, ?text_eqb_refl, ?Exy, ?Eyx. cbn.
  rewrite ?Hx, ?Hy, ?text_eqb_refl, ?Exy, ?Eyx. cbn.
  rewrite ?Hx, ?Hy, ?text_eqb_refl, ?Exy, ?Eyx. cbn.
  intros [= E _]. congruence.
Qed.

(* a loop body that declares two new names which _collect_order does not meet (they sit in a try statement) *)
Lemma promote_loop_two_names x y tx ty :
  x <> y ->
  promote_with sid (CLoop [] [(x, tx); (y, ty)]) <> promote_with srev (CLoop [] [(x, tx); (y, ty)]).
Proof.
  intros Hxy.
  assert (text_eqb y x = false) as Eyx.
  { destruct (text_eqb y x) eqn:E; [|reflexivity]. apply text_eqb_eq in E. congruence. }
  assert (text_eqb x y = false) as Exy.
  { destruct (text_eqb x y) eqn:E; [|reflexivity]. apply text_eqb_eq in E. congruence. }
  cbn. unfold promote_loop, loop_order, sid, srev, add_new, type_in. cbn.
  rewrite ?text_eqb_refl, ?Exy, ?Eyx. cbn. rewrite ?text_eqb_refl, ?Exy, ?Eyx. cbn.
  intros [= E _]. congruence.
Qed.

(* ================================================================ program level *)
(* induction over statements with nested lists of bodies *)
Section StmtInd.
  Variable Q : stmt -> Prop.
  Hypothesis HA : forall x t, Q (SAssign x t).
  Hypothesis HIf : forall o brs, Forall (Forall Q) brs -> Q (SIf o brs).
  Hypothesis HWh : forall o body, Forall Q body -> Q (SWhile o body).
  Hypothesis HFor : forall o v body, Forall Q body -> Q (SFor o v body).
  Hypothesis HTry : forall o brs, Forall (Forall Q) brs -> Q (STry o brs).

  Fixpoint stmt_ind' (s : stmt) : Q s :=
    let fix blk (l : list stmt) : Forall Q l :=
      match l with
      | [] => Forall_nil Q
      | x :: r => Forall_cons x (stmt_ind' x) (blk r)
      end in
    let fix blks (l : list (list stmt)) : Forall (Forall Q) l :=
      match l with
      | [] => Forall_nil (Forall Q)
      | b :: r => Forall_cons b (blk b) (blks r)
      end in
    match s with
    | SAssign x t => HA x t
    | SIf o brs => HIf o brs (blks brs)
    | SWhile o body => HWh o body (blk body)
    | SFor o v body => HFor o v body (blk body)
    | STry o brs => HTry o brs (blks brs)
    end.
End StmtInd.

(* walk_stmt with its local block walker replaced by walk_block *)
Lemma walk_stmt_eq P glob s c :
  walk_stmt P glob s c =
  match s with
  | SAssign x t =>
      let tys := (x, t) :: types c in
      if tmem x (declared c) then mk_wres [NAssign x] (mk_pctx (declared c) tys) [] true
      else if glob then mk_wres [] (mk_pctx (declared c ++ [x]) tys) [(x, t)] true
      else mk_wres [NDecl x t] (mk_pctx (declared c ++ [x]) tys) [] true
  | SIf o brs =>
      let rs := map (fun b => walk_block P b c) brs in
      finish P glob c o (CIf (declared c) (map (fun r => new_decls c (w_ctx r)) rs))
             (forallb w_ok rs)
             (fun ps => NIf (map (fun r => map (rw_if ps) (drop_h ps (w_nodes r))) rs))
  | STry o brs =>
      let rs := map (fun b => walk_block P b c) brs in
      finish P glob c o (CIf (declared c) (map (fun r => new_decls c (w_ctx r)) rs))
             (forallb w_ok rs)
             (fun ps => NTry (map (fun r => map (rw_all ps) (drop_h ps (w_nodes r))) rs))
  | SWhile o body =>
      let r := walk_block P body c in
      finish P glob c o (CLoop (flat_map decl_names (w_nodes r)) (new_decls c (w_ctx r)))
             (w_ok r)
             (fun ps => NWhile (map (rw_all ps) (drop_h ps (w_nodes r))))
  | SFor o v body =>
      let cv := mk_pctx (declared c ++ [v]) ((v, 0) :: types c) in
      let r := walk_block P body cv in
      finish P glob c o (CLoop (flat_map decl_names (w_nodes r)) (new_decls cv (w_ctx r)))
             (w_ok r)
             (fun ps => NFor v (map (rw_all ps) (drop_h ps (w_nodes r))))
  end.
Proof. destruct s; reflexivity. Qed.

Section Agree.
  Variables P1 P2 : otag -> construct -> list decl.
  Hypothesis HP : forall o c, guard c = true -> P1 o c = P2 o c.

  Definition agree_stmt (s : stmt) : Prop :=
    forall glob c, w_ok (walk_stmt P1 glob s c) = true -> walk_stmt P1 glob s c = walk_stmt P2 glob s c.

  Lemma walk_block_agree l : Forall agree_stmt l ->
    forall c, w_ok (walk_block P1 l c) = true -> walk_block P1 l c = walk_block P2 l c.
  Proof.
    induction 1 as [|s r Hs Hr IH]; intros c Hok; [reflexivity|].
    cbn [walk_block] in *. cbn [w_ok] in Hok. apply andb_true_iff in Hok as [H1 H2].
    rewrite <- (Hs false c H1). rewrite <- (IH _ H2). reflexivity.
  Qed.

  Lemma map_walk_agree brs c : Forall (Forall agree_stmt) brs ->
    forallb w_ok (map (fun b => walk_block P1 b c) brs) = true ->
    map (fun b => walk_block P1 b c) brs = map (fun b => walk_block P2 b c) brs.
  Proof.
    induction 1 as [|b r Hb Hr IH]; cbn; intros Hok; [reflexivity|].
    apply andb_true_iff in Hok as [H1 H2].
    rewrite (walk_block_agree b Hb c H1), (IH H2). reflexivity.
  Qed.

  Lemma finish_agree glob base o c inner mk :
    inner && guard c = true -> finish P1 glob base o c inner mk = finish P2 glob base o c inner mk.
  Proof.
    intros H. apply andb_true_iff in H as [_ HG]. unfold finish. rewrite (HP o c HG). reflexivity.
  Qed.

  Lemma walk_stmt_agree s : agree_stmt s.
  Proof.
    induction s as [x t|o brs IH|o body IH|o v body IH|o brs IH] using stmt_ind';
      intros glob c; rewrite !walk_stmt_eq; cbv zeta.
    - reflexivity.
    - intros Hok. unfold finish in Hok at 1. cbn [w_ok] in Hok.
      pose proof Hok as Hok'. apply andb_true_iff in Hok' as [Hin _].
      rewrite <- (map_walk_agree brs c IH Hin). apply finish_agree. exact Hok.
    - intros Hok. unfold finish in Hok at 1. cbn [w_ok] in Hok.
      pose proof Hok as Hok'. apply andb_true_iff in Hok' as [Hin _].
      rewrite <- (walk_block_agree body IH c Hin). apply finish_agree. exact Hok.
    - intros Hok. unfold finish in Hok at 1. cbn [w_ok] in Hok.
      pose proof Hok as Hok'. apply andb_true_iff in Hok' as [Hin _].
      rewrite <- (walk_block_agree body IH _ Hin). apply finish_agree. exact Hok.
    - intros Hok. unfold finish in Hok at 1. cbn [w_ok] in Hok.
      pose proof Hok as Hok'. apply andb_true_iff in Hok' as [Hin _].
      rewrite <- (map_walk_agree brs c IH Hin). apply finish_agree. exact Hok.
  Qed.

  Lemma walk_block_agree' l c :
    w_ok (walk_block P1 l c) = true -> walk_block P1 l c = walk_block P2 l c.
  Proof. apply walk_block_agree. apply Forall_forall. intros s _. apply walk_stmt_agree. Qed.

  Lemma walk_stmt_main_agree s c :
    w_ok (walk_stmt_main P1 s c) = true -> walk_stmt_main P1 s c = walk_stmt_main P2 s c.
  Proof.
    destruct s; cbn [walk_stmt_main]; try (apply walk_stmt_agree).
    destruct (tmem x (declared c)); [apply walk_stmt_agree|reflexivity].
  Qed.

  Lemma walk_main_agree l : forall c, w_ok (walk_main P1 l c) = true -> walk_main P1 l c = walk_main P2 l c.
  Proof.
    induction l as [|s r IH]; intros c Hok; [reflexivity|].
    cbn [walk_main] in *. cbn [w_ok] in Hok. apply andb_true_iff in Hok as [H1 H2].
    rewrite <- (walk_stmt_main_agree s c H1), <- (IH _ H2). reflexivity.
  Qed.

  Lemma walk_item_agree st it :
    o_ok (p_out (walk_item P1 st it)) = true -> walk_item P1 st it = walk_item P2 st it.
  Proof.
    destruct it as [s|f body|body]; cbn [walk_item p_out o_ok]; intros Hok;
      apply andb_true_iff in Hok as [_ Hr].
    - rewrite <- (walk_stmt_agree s true _ Hr). reflexivity.
    - rewrite <- (walk_block_agree' body _ Hr). reflexivity.
    - rewrite <- (walk_main_agree body _ Hr). reflexivity.
  Qed.

  Lemma walk_item_ok_mono P st it : o_ok (p_out (walk_item P st it)) = true -> o_ok (p_out st) = true.
  Proof.
    destruct it; cbn [walk_item p_out o_ok]; intros H; apply andb_true_iff in H as [H _]; exact H.
  Qed.

  Lemma fold_walk_ok_mono P p : forall st,
    o_ok (p_out (fold_left (walk_item P) p st)) = true -> o_ok (p_out st) = true.
  Proof.
    induction p as [|it r IH]; cbn [fold_left]; intros st H; [exact H|].
    eapply walk_item_ok_mono. apply IH. exact H.
  Qed.

  Lemma fold_walk_agree p : forall st,
    o_ok (p_out (fold_left (walk_item P1) p st)) = true ->
    fold_left (walk_item P1) p st = fold_left (walk_item P2) p st.
  Proof.
    induction p as [|it r IH]; cbn [fold_left]; intros st H; [reflexivity|].
    pose proof (fold_walk_ok_mono P1 r _ H) as H1.
    rewrite <- (walk_item_agree st it H1). apply IH. exact H.
  Qed.

  Lemma walk_prog_agree p : o_ok (walk_prog P1 p) = true -> walk_prog P1 p = walk_prog P2 p.
  Proof. unfold walk_prog. intros H. rewrite (fold_walk_agree p _ H). reflexivity. Qed.
End Agree.

(* whole programs of the modelled fragment under the unsorted walk: if every construct met is inside the guard,
   the translation does not depend on the iteration orders *)
Lemma transl_guarded s1 s2 p :
  perm_family s1 -> perm_family s2 -> o_ok (transl_with s1 p) = true -> transl_with s1 p = transl_with s2 p.
Proof.
  intros H1 H2. unfold transl_with. apply walk_prog_agree.
  intros o c HG. apply promote_guarded; [apply H1|apply H2|exact HG].
Qed.

(* ================================================================ only the ORDER can vary *)
Section FoldPerm.
  Variables A B : Type.
  Variable f : list A -> B -> list A.
  Hypothesis Hresp : forall a a' b, Permutation a a' -> Permutation (f a b) (f a' b).
  Hypothesis Hcomm : forall a b1 b2, Permutation (f (f a b1) b2) (f (f a b2) b1).

  Lemma fold_resp l : forall a a', Permutation a a' -> Permutation (fold_left f l a) (fold_left f l a').
  Proof. induction l as [|b r IH]; cbn; intros a a' H; [exact H|]. apply IH, Hresp, H. Qed.

  Lemma fold_perm l l' : Permutation l l' ->
    forall a a', Permutation a a' -> Permutation (fold_left f l a) (fold_left f l' a').
  Proof.
    induction 1 as [|x l l' _ IH|x y l|l l' l'' _ IH1 _ IH2]; intros a a' Ha.
    - exact Ha.
    - cbn. apply IH, Hresp, Ha.
    - cbn. apply fold_resp. rewrite Hcomm. apply Hresp, Hresp, Ha.
    - rewrite (IH1 a a (Permutation_refl a)). apply IH2. exact Ha.
  Qed.
End FoldPerm.

Lemma tmem_perm x l l' : Permutation l l' -> tmem x l = tmem x l'.
Proof.
  intros H. destruct (tmem x l) eqn:E1; destruct (tmem x l') eqn:E2; try reflexivity.
  - apply tmem_In in E1. assert (In x l') as I by (eapply Permutation_in; eauto).
    apply tmem_In in I. congruence.
  - apply tmem_In in E2. assert (In x l) as I by (eapply Permutation_in; [symmetry|]; eauto).
    apply tmem_In in I. congruence.
Qed.


Lemma text_eqb_sym a b : text_eqb a b = text_eqb b a.
Proof.
  destruct (text_eqb a b) eqn:E1; destruct (text_eqb b a) eqn:E2; try reflexivity.
  - apply text_eqb_eq in E1. subst. rewrite text_eqb_refl in E2. discriminate.
  - apply text_eqb_eq in E2. subst. rewrite text_eqb_refl in E1. discriminate.
Qed.

Lemma record_resp parent br a a' x :
  Permutation a a' -> Permutation (record parent br a x) (record parent br a' x).
Proof.
  intros H. unfold record. rewrite (tmem_perm x (map fst a) (map fst a')) by (apply Permutation_map, H).
  destruct (tmem x parent || tmem x (map fst a')); [exact H|]. apply Permutation_app_tail, H.
Qed.

Lemma record_comm parent br a x y :
  Permutation (record parent br (record parent br a x) y) (record parent br (record parent br a y) x).
Proof.
  unfold record, decl in *.
  destruct (tmem x parent) eqn:Px; destruct (tmem y parent) eqn:Py; cbn [orb];
    rewrite ?Px, ?Py; cbn [orb]; try reflexivity.
  destruct (tmem x (map fst a)) eqn:Ax; destruct (tmem y (map fst a)) eqn:Ay;
      rewrite ?Px, ?Py, ?Ax, ?Ay; cbn [orb]; rewrite ?map_app, ?tmem_app, ?Ax, ?Ay; cbn;
      rewrite ?Ax, ?Ay; cbn; try reflexivity.
  rewrite (text_eqb_sym y x). destruct (text_eqb x y) eqn:Exy; cbn.
  - apply text_eqb_eq in Exy. subst. reflexivity.
  - rewrite <- !app_assoc. apply Permutation_app_head. apply perm_swap.
Qed.

Lemma add_new_resp a a' x : Permutation a a' -> Permutation (add_new a x) (add_new a' x).
Proof.
  intros H. unfold add_new. rewrite (tmem_perm x a a' H).
  destruct (tmem x a'); [exact H|]. apply Permutation_app_tail, H.
Qed.

Lemma add_new_comm a x y : Permutation (add_new (add_new a x) y) (add_new (add_new a y) x).
Proof.
  unfold add_new.
  destruct (tmem x a) eqn:Ax; destruct (tmem y a) eqn:Ay;
    rewrite ?Ax, ?Ay, ?tmem_app, ?Ax, ?Ay; cbn; try reflexivity.
  rewrite (text_eqb_sym y x). destruct (text_eqb x y) eqn:Exy; cbn.
  - apply text_eqb_eq in Exy. subst. reflexivity.
  - rewrite <- !app_assoc. apply Permutation_app_head. apply perm_swap.
Qed.

Lemma promote_branch_perm s1 s2 parent br a a' :
  perm_oracle s1 -> perm_oracle s2 -> Permutation a a' ->
  Permutation (promote_branch s1 parent a br) (promote_branch s2 parent a' br).
Proof.
  intros H1 H2 Ha. unfold promote_branch.
  apply fold_perm; [apply record_resp|apply record_comm| |exact Ha].
  rewrite (H1 _), (H2 _). reflexivity.
Qed.

Lemma promote_if_perm_aux s1 s2 parent brs :
  perm_oracle s1 -> perm_oracle s2 -> forall a a', Permutation a a' ->
  Permutation (fold_left (promote_branch s1 parent) brs a) (fold_left (promote_branch s2 parent) brs a').
Proof.
  intros H1 H2. induction brs as [|br r IH]; cbn; intros a a' Ha; [exact Ha|].
  apply IH. apply promote_branch_perm; assumption.
Qed.

Lemma promote_permutation s1 s2 c :
  perm_oracle s1 -> perm_oracle s2 -> Permutation (promote_with s1 c) (promote_with s2 c).
Proof.
  intros H1 H2. destruct c as [parent brs|d pr]; cbn.
  - unfold promote_if. apply promote_if_perm_aux; auto.
  - unfold promote_loop. apply Permutation_map. unfold loop_order.
    apply fold_perm; [apply add_new_resp|apply add_new_comm| |reflexivity].
    rewrite (H1 _), (H2 _). reflexivity.
Qed.

(* ================================================================ the oracles the harness uses are permutation oracles *)
Lemma insert_by_perm rk x l : Permutation (insert_by rk x l) (x :: l).
Proof.
  induction l as [|y r IH]; cbn; [reflexivity|].
  destruct (rk x <=? rk y)%nat; [reflexivity|].
  rewrite IH. apply perm_swap.
Qed.

Lemma sort_by_perm rk l : Permutation (sort_by rk l) l.
Proof.
  induction l as [|x r IH]; cbn; [reflexivity|].
  rewrite insert_by_perm. constructor. exact IH.
Qed.

Lemma sigma_rank_perm : perm_family sigma_rank.
Proof. intros o l. apply sort_by_perm. Qed.

(* ================================================================ program level, unsorted walk: order dependent *)
From Coq Require Import String.

Definition n_cnd := txt "cnd"%string.
Definition n_a := txt "alpha"%string.
Definition n_b := txt "beta"%string.
Definition n_c := txt "gamma"%string.
Definition n_d := txt "delta"%string.
Definition n_e := txt "epsilon"%string.

(* cnd = 1 / if cnd > 0: alpha = 1; beta = 2; gamma = 3; delta = 4; epsilon = 5 *)
Definition witness_prog : list item :=
  [ IStmt (SAssign n_cnd 0);
    IStmt (SIf [] [[SAssign n_a 0; SAssign n_b 0; SAssign n_c 0; SAssign n_d 0; SAssign n_e 0]]) ].

Lemma witness_differs : transl_with (fun _ => sid) witness_prog <> transl_with (fun _ => srev) witness_prog.
Proof. intros H. vm_compute in H. discriminate H. Qed.

Lemma witness_globals :
  map fst (o_globals (transl_with (fun _ => sid) witness_prog)) = [n_cnd; n_a; n_b; n_d; n_e; n_c] /\
  map fst (o_globals (transl_with (fun _ => srev) witness_prog)) = [n_cnd; n_c; n_e; n_d; n_b; n_a].
Proof. split; vm_compute; reflexivity. Qed.

Lemma order_dependence_exists :
  exists s1 s2 p, perm_family s1 /\ perm_family s2 /\ transl_with s1 p <> transl_with s2 p.
Proof.
  exists (fun _ => sid), (fun _ => srev), witness_prog. split; [|split].
  - intros _. apply sid_perm.
  - intros _. apply srev_perm.
  - apply witness_differs.
Qed.

(* the same inside a function body (local declarations) and inside a while body whose declarations sit in a try *)
Definition witness_prog_local : list item :=
  [ IStmt (SAssign n_cnd 0);
    IDef (txt "fn"%string) [SIf [] [[SAssign n_a 0; SAssign n_b 1]]] ].

Lemma witness_local_differs :
  transl_with (fun _ => sid) witness_prog_local <> transl_with (fun _ => srev) witness_prog_local.
Proof. intros H. vm_compute in H. discriminate H. Qed.

(* ================================================================ non-vacuity of the guarded theorem *)
(* cnd = 1 / if cnd > 0: alpha = 1 / else: beta = 2.5 / while True: while cnd < 3: gamma = 1; delta = "s"
   hoists alpha, beta and gamma, delta (all sketch globals: the latter two out of a while inside the main loop) and is inside the guard *)
Definition guarded_prog : list item :=
  [ IStmt (SAssign n_cnd 0);
    IStmt (SIf [] [[SAssign n_a 0]; [SAssign n_b 1]]);
    IMain [SWhile [] [SAssign n_c 0; SAssign n_d 3]] ].

Lemma guarded_prog_ok :
  o_ok (transl_with (fun _ => sid) guarded_prog) = true /\
  o_globals (transl_with (fun _ => sid) guarded_prog) = [(n_cnd, 0); (n_a, 0); (n_b, 1); (n_c, 0); (n_d, 3)] /\
  o_loop (transl_with (fun _ => sid) guarded_prog) = [NWhile [NAssign n_c; NAssign n_d]].
Proof. repeat split; vm_compute; reflexivity. Qed.

Lemma witness_outside_guard : o_ok (transl_with (fun _ => sid) witness_prog) = false.
Proof. vm_compute. reflexivity. Qed.

(* ================================================================ the guard does not depend on the oracle *)
Lemma guard_oracle_independent s1 s2 p :
  perm_family s1 -> perm_family s2 -> o_ok (transl_with s1 p) = o_ok (transl_with s2 p).
Proof.
  intros H1 H2.
  destruct (o_ok (transl_with s1 p)) eqn:E1; destruct (o_ok (transl_with s2 p)) eqn:E2; try reflexivity.
  - rewrite (transl_guarded s1 s2 p H1 H2 E1) in E1. congruence.
  - rewrite (transl_guarded s2 s1 p H2 H1 E2) in E2. congruence.
Qed.

(* ================================================================ the code as it is (sorted walk): order independent, no guard *)
Section Ext.
  Variables P1 P2 : otag -> construct -> list decl.
  Hypothesis HP : forall o c, P1 o c = P2 o c.

  Lemma walk_block_ext l : Forall (fun s => forall glob c, walk_stmt P1 glob s c = walk_stmt P2 glob s c) l ->
    forall c, walk_block P1 l c = walk_block P2 l c.
  Proof.
    induction 1 as [|s r Hs Hr IH]; intros c; [reflexivity|].
    cbn [walk_block]. rewrite (Hs false c), IH. reflexivity.
  Qed.

  Lemma map_walk_ext brs c :
    Forall (Forall (fun s => forall glob c, walk_stmt P1 glob s c = walk_stmt P2 glob s c)) brs ->
    map (fun b => walk_block P1 b c) brs = map (fun b => walk_block P2 b c) brs.
  Proof.
    induction 1 as [|b r Hb Hr IH]; cbn; [reflexivity|].
    rewrite (walk_block_ext b Hb c), IH. reflexivity.
  Qed.

  Lemma finish_ext glob base o c inner mk : finish P1 glob base o c inner mk = finish P2 glob base o c inner mk.
  Proof. unfold finish. rewrite HP. reflexivity. Qed.

  Lemma walk_stmt_ext s : forall glob c, walk_stmt P1 glob s c = walk_stmt P2 glob s c.
  Proof.
    induction s as [x t|o brs IH|o body IH|o v body IH|o brs IH] using stmt_ind';
      intros glob c; rewrite !walk_stmt_eq; cbv zeta.
    - reflexivity.
    - rewrite (map_walk_ext brs c IH). apply finish_ext.
    - rewrite (walk_block_ext body IH c). apply finish_ext.
    - rewrite (walk_block_ext body IH _). apply finish_ext.
    - rewrite (map_walk_ext brs c IH). apply finish_ext.
  Qed.

  Lemma walk_block_ext' l c : walk_block P1 l c = walk_block P2 l c.
  Proof. apply walk_block_ext. apply Forall_forall. intros s _. apply walk_stmt_ext. Qed.

  Lemma walk_stmt_main_ext s c : walk_stmt_main P1 s c = walk_stmt_main P2 s c.
  Proof.
    destruct s; cbn [walk_stmt_main]; try (apply walk_stmt_ext).
    destruct (tmem x (declared c)); [apply walk_stmt_ext|reflexivity].
  Qed.

  Lemma walk_main_ext l : forall c, walk_main P1 l c = walk_main P2 l c.
  Proof.
    induction l as [|s r IH]; intro c; [reflexivity|]. cbn [walk_main]. rewrite (walk_stmt_main_ext s c), IH. reflexivity.
  Qed.

  Lemma walk_item_ext st it : walk_item P1 st it = walk_item P2 st it.
  Proof.
    destruct it as [s|f body|body]; cbn [walk_item].
    - rewrite (walk_stmt_ext s). reflexivity.
    - rewrite (walk_block_ext' body). reflexivity.
    - rewrite (walk_main_ext body). reflexivity.
  Qed.

  Lemma walk_prog_ext p : walk_prog P1 p = walk_prog P2 p.
  Proof.
    unfold walk_prog. generalize (mk_ps (mk_pctx [] []) (mk_out [] [] [] [] true)).
    induction p as [|it r IH]; cbn [fold_left]; intros st; [reflexivity|].
    rewrite walk_item_ext. apply IH.
  Qed.
End Ext.

Lemma sorted_oracle_canonical s1 s2 l : perm_oracle s1 -> perm_oracle s2 -> sorted_oracle s1 l = sorted_oracle s2 l.
Proof. intros H1 H2. unfold sorted_oracle. apply sort_of_perm. rewrite (H1 l), (H2 l). reflexivity. Qed.

Lemma sorted_oracle_perm s : perm_oracle s -> perm_oracle (sorted_oracle s).
Proof. intros H l. unfold sorted_oracle. rewrite sort_perm. apply H. Qed.

Lemma promote_independent s1 s2 c :
  perm_oracle s1 -> perm_oracle s2 -> promote s1 c = promote s2 c.
Proof.
  intros H1 H2. unfold promote.
  destruct c as [parent brs|d pr]; cbn.
  - unfold promote_if. apply fold_left_ext_in. intros acc br _. unfold promote_branch.
    rewrite (sorted_oracle_canonical s1 s2 _ H1 H2). reflexivity.
  - unfold promote_loop, loop_order. rewrite (sorted_oracle_canonical s1 s2 _ H1 H2). reflexivity.
Qed.

Lemma transl_independent s1 s2 p :
  perm_family s1 -> perm_family s2 -> transl s1 p = transl s2 p.
Proof.
  intros H1 H2. unfold transl. apply walk_prog_ext.
  intros o c. apply promote_independent; [apply H1|apply H2].
Qed.

(* the repair changed nothing inside the guard: there the sorted walk emits what the unsorted walk emitted *)
Lemma transl_conservative s p :
  perm_family s -> o_ok (transl_with s p) = true -> transl s p = transl_with s p.
Proof.
  intros H Hok. unfold transl.
  change (walk_prog (fun o c => promote (s o) c) p) with (transl_with (fun o => sorted_oracle (s o)) p).
  symmetry. apply transl_guarded; [exact H| |exact Hok].
  intros o. apply sorted_oracle_perm, H.
Qed.

Lemma witness_fixed :
  transl (fun _ => sid) witness_prog = transl (fun _ => srev) witness_prog /\
  map fst (o_globals (transl (fun _ => srev) witness_prog)) = [n_cnd; n_a; n_b; n_d; n_e; n_c] /\
  o_ok (transl (fun _ => srev) witness_prog) = false.
Proof. split; [|split]; vm_compute; reflexivity. Qed.

Lemma two_oracles :
  perm_family (fun _ => sid) /\ perm_family (fun _ => srev) /\ sid [n_a; n_b] <> srev [n_a; n_b].
Proof.
  split; [intros _; apply sid_perm|]. split; [intros _; apply srev_perm|].
  intros H. vm_compute in H. discriminate H.
Qed.

(* sessions *)
Lemma session_order_independent s1 s2 ps :
  perm_family s1 -> perm_family s2 -> session s1 ps = session s2 ps.
Proof. intros H1 H2. unfold session. apply map_ext. intros p. apply transl_independent; assumption. Qed.

(* the hoisted order is canonical: what a walk in code-point order yields, branch by branch *)
Lemma sorted_oracle_is_sort s l : perm_oracle s -> sorted_oracle s l = sort l.
Proof. intros H. unfold sorted_oracle. apply sort_of_perm. apply H. Qed.

Lemma promote_canonical s c : perm_oracle s -> promote s c = promote_with sort c.
Proof.
  intros H. unfold promote. destruct c as [parent brs|d pr]; cbn.
  - unfold promote_if. apply fold_left_ext_in. intros acc br _. unfold promote_branch.
    rewrite (sorted_oracle_is_sort s _ H). reflexivity.
  - unfold promote_loop, loop_order. rewrite (sorted_oracle_is_sort s _ H). reflexivity.
Qed.

Lemma transl_canonical s p : perm_family s -> transl s p = transl_with (fun _ => sort) p.
Proof.
  intros H. unfold transl, transl_with. apply walk_prog_ext. intros o c. apply promote_canonical, H.
Qed.

(* the two construct shapes that separated two oracles before the repair no longer do *)
Lemma promote_two_names_in_a_branch parent x y tx ty :
  promote sid (CIf parent [[(x, tx); (y, ty)]]) = promote srev (CIf parent [[(x, tx); (y, ty)]]).
Proof. apply promote_independent; [apply sid_perm|apply srev_perm]. Qed.

Lemma promote_two_unmet_names_in_a_loop x y tx ty :
  promote sid (CLoop [] [(x, tx); (y, ty)]) = promote srev (CLoop [] [(x, tx); (y, ty)]).
Proof. apply promote_independent; [apply sid_perm|apply srev_perm]. Qed.

(* a program outside the old guard whose hoisted declarations are typed and placed: two names in one branch of a
   function, three in a while body of the main loop (met by _collect_order: source order), two in an except clause *)
Definition open_prog : list item :=
  [ IStmt (SAssign n_cnd 0);
    IDef (txt "fn"%string) [SIf [] [[SAssign n_e 1; SAssign n_a 0]; [SAssign n_d 3; SAssign n_a 0; SAssign n_b 2]]];
    IMain [STry [] [[SAssign n_cnd 0]; [SAssign n_c 1; SAssign n_b 3]]] ].

Lemma open_prog_ok :
  o_ok (transl (fun _ => srev) open_prog) = false /\
  transl (fun _ => sid) open_prog = transl (fun _ => srev) open_prog /\
  o_funs (transl (fun _ => srev) open_prog) =
    [(txt "fn"%string, [NHoist n_a 0; NHoist n_e 1; NHoist n_b 2; NHoist n_d 3;
                        NIf [[NAssign n_e; NAssign n_a]; [NAssign n_d; NAssign n_a; NAssign n_b]]])] /\
  o_loop (transl (fun _ => srev) open_prog) =
    [NTry [[NAssign n_cnd]; [NAssign n_c; NAssign n_b]]] /\
  o_globals (transl (fun _ => srev) open_prog) = [(n_cnd, 0); (n_b, 3); (n_c, 1)].
Proof. split; [|split; [|split; [|split]]]; vm_compute; reflexivity. Qed.

(* a branch may declare two new names when an earlier branch has already recorded one of them *)
Definition guarded_prog2 : list item :=
  [ IStmt (SAssign n_cnd 0);
    IDef (txt "fn"%string) [SIf [] [[SAssign n_a 0]; [SAssign n_b 1; SAssign n_a 0]]] ].

Lemma guarded_prog2_ok :
  o_ok (transl_with (fun _ => sid) guarded_prog2) = true /\
  o_funs (transl_with (fun _ => srev) guarded_prog2) =
    [(txt "fn"%string, [NHoist n_a 0; NHoist n_b 1; NIf [[NAssign n_a]; [NAssign n_b; NAssign n_a]]])].
Proof. split; vm_compute; reflexivity. Qed.

(* ================================================================ the rank oracles reach every order *)
(* every iteration order of a finite set is [sigma_rank o] for some o (o = that order) *)
Lemma index_of_lt x o : In x o -> (index_of x o < List.length o)%nat.
Proof.
  induction o as [|y r IH]; cbn; [tauto|]. intros H.
  destruct (text_eqb x y) eqn:E; [lia|].
  destruct H as [H|H]; [subst; rewrite text_eqb_refl in E; discriminate|]. apply IH in H. lia.
Qed.

Lemma index_of_inj x y o : In x o -> index_of x o = index_of y o -> x = y.
Proof.
  induction o as [|z r IH]; cbn; [tauto|]. intros H.
  destruct (text_eqb x z) eqn:Ex; destruct (text_eqb y z) eqn:Ey; intros E; try discriminate.
  - apply text_eqb_eq in Ex, Ey. congruence.
  - destruct H as [H|H]; [subst; rewrite text_eqb_refl in Ex; discriminate|].
    apply IH; [exact H|lia].
Qed.

Definition rle (o : list ident) (a b : ident) : Prop := (index_of a o <= index_of b o)%nat.

Lemma insert_by_sorted o x l :
  StronglySorted (rle o) l -> StronglySorted (rle o) (insert_by (fun y => index_of y o) x l).
Proof.
  induction l as [|y r IH]; cbn; intros H.
  - constructor; constructor.
  - destruct (index_of x o <=? index_of y o)%nat eqn:E.
    + apply Nat.leb_le in E. constructor; [exact H|]. constructor; [exact E|].
      inversion H as [|? ? _ Hall]; subst.
      eapply Forall_impl; [|exact Hall]. intros z Hz. unfold rle in *. lia.
    + apply Nat.leb_gt in E. inversion H as [|? ? Hr Hall]; subst.
      constructor; [auto|].
      eapply Permutation_Forall; [symmetry; apply insert_by_perm|].
      constructor; [unfold rle; lia|assumption].
Qed.

Lemma sort_by_sorted o l : StronglySorted (rle o) (sort_by (fun y => index_of y o) l).
Proof. induction l as [|x r IH]; cbn; [constructor|apply insert_by_sorted; exact IH]. Qed.

Lemma rank_sorted_unique o l1 : forall l2,
  (forall x, In x l1 -> In x o) ->
  StronglySorted (rle o) l1 -> StronglySorted (rle o) l2 -> Permutation l1 l2 -> l1 = l2.
Proof.
  induction l1 as [|x r1 IH]; intros l2 Hin H1 H2 HP.
  - apply Permutation_nil in HP. auto.
  - destruct l2 as [|y r2]; [symmetry in HP; apply Permutation_nil in HP; discriminate|].
    inversion H1 as [|? ? Hr1 Ha1]; subst. inversion H2 as [|? ? Hr2 Ha2]; subst.
    assert (x = y) as ->.
    { assert (In x (y :: r2)) as Ix by (eapply Permutation_in; [exact HP|left; reflexivity]).
      assert (In y (x :: r1)) as Iy by (eapply Permutation_in; [symmetry; exact HP|left; reflexivity]).
      destruct Ix as [->|Ix]; [reflexivity|]. destruct Iy as [->|Iy]; [reflexivity|].
      rewrite Forall_forall in Ha1, Ha2. specialize (Ha1 y Iy). specialize (Ha2 x Ix). unfold rle in *.
      apply (index_of_inj x y o); [apply Hin; left; reflexivity|lia]. }
    f_equal. apply IH; auto.
    + intros z Hz. apply Hin. right. exact Hz.
    + eapply Permutation_cons_inv; exact HP.
Qed.

Lemma index_of_cons_other h t a : a <> h -> index_of a (h :: t) = S (index_of a t).
Proof.
  intros Hne. cbn. destruct (text_eqb a h) eqn:E; [apply text_eqb_eq in E; congruence|reflexivity].
Qed.

Lemma sorted_lift h t v : ~ In h t -> (forall a, In a v -> In a t) ->
  StronglySorted (rle t) v -> StronglySorted (rle (h :: t)) v.
Proof.
  intros Hnotin. induction v as [|a v IHv]; intros Hsub Hs; [constructor|].
  inversion Hs as [|? ? Hs' Hall]; subst. constructor.
  - apply IHv; [intros b Hb; apply Hsub; right; exact Hb|exact Hs'].
  - rewrite Forall_forall in *. intros b Hb. specialize (Hall b Hb). unfold rle in *.
    assert (a <> h) by (intros ->; apply Hnotin, Hsub; left; reflexivity).
    assert (b <> h) by (intros ->; apply Hnotin, Hsub; right; exact Hb).
    rewrite !index_of_cons_other by assumption. lia.
Qed.

Lemma self_sorted o : NoDup o -> StronglySorted (rle o) o.
Proof.
  induction o as [|h t IH]; intros HN; [constructor|].
  inversion HN as [|? ? Hnotin HNt]; subst. specialize (IH HNt).
  constructor.
  - apply sorted_lift; auto.
  - apply Forall_forall. intros b _. unfold rle. cbn. rewrite text_eqb_refl. lia.
Qed.

(* every iteration order [l'] of the set with elements [l] is the one [sigma_rank l'] produces *)
Lemma sigma_rank_complete l l' : NoDup l' -> Permutation l' l -> sigma_rank l' l = l'.
Proof.
  intros HN HP. unfold sigma_rank. symmetry.
  apply (rank_sorted_unique l'); [auto|apply self_sorted, HN|apply sort_by_sorted|].
  rewrite sort_by_perm. exact HP.
Qed.

(* ================================================================ the loop sites never matter in the fragment *)
Lemma decl_names_of_decls (ds : list decl) :
  flat_map decl_names (map (fun d => NHoist (fst d) (snd d)) ds) = map fst ds.
Proof. induction ds as [|d r IH]; cbn; [reflexivity|]. rewrite IH. reflexivity. Qed.

Lemma finish_declares P base o c inner mk x :
  In x (declared (w_ctx (finish P false base o c inner mk))) ->
  In x (declared base) \/ In x (flat_map decl_names (w_nodes (finish P false base o c inner mk))).
Proof.
  unfold finish. cbn [w_ctx w_nodes declared]. intros H. apply in_app_or in H as [H|H]; [left; exact H|].
  right. rewrite flat_map_app. apply in_or_app. left. rewrite decl_names_of_decls. exact H.
Qed.

Lemma walk_stmt_declares P s c x :
  In x (declared (w_ctx (walk_stmt P false s c))) ->
  In x (declared c) \/ In x (flat_map decl_names (w_nodes (walk_stmt P false s c))).
Proof.
  rewrite walk_stmt_eq. destruct s as [y t|o brs|o body|o v body|o brs]; cbv zeta.
  - destruct (tmem y (declared c)); cbn; [tauto|].
    intros H. apply in_app_or in H as [H|[H|[]]]; [left; exact H|right; left; exact H].
  - apply finish_declares.
  - apply finish_declares.
  - apply finish_declares.
  - apply finish_declares.
Qed.

Lemma walk_block_declares P l : forall c x,
  In x (declared (w_ctx (walk_block P l c))) ->
  In x (declared c) \/ In x (flat_map decl_names (w_nodes (walk_block P l c))).
Proof.
  induction l as [|s r IH]; intros c x; cbn [walk_block w_ctx w_nodes].
  - cbn. tauto.
  - intros H. rewrite flat_map_app. apply IH in H as [H|H].
    + apply walk_stmt_declares in H as [H|H]; [left; exact H|right; apply in_or_app; left; exact H].
    + right. apply in_or_app. right. exact H.
Qed.

Lemma new_decls_names base child x :
  In x (map fst (new_decls base child)) -> In x (declared child) /\ ~ In x (declared base).
Proof.
  unfold new_decls. rewrite map_map. cbn [fst]. rewrite map_id. intros H.
  assert (In x (filter (fun x => negb (tmem x (declared base))) (declared child))) as H'
    by (eapply Permutation_in; [apply sort_perm|exact H]).
  apply filter_In in H' as [H1 H2]. split; [exact H1|].
  intros Hb. apply tmem_In in Hb. rewrite Hb in H2. discriminate.
Qed.

(* the construct the while / for handlers build always satisfies the loop clause of the guard *)
Lemma loop_guard_holds P body c :
  guard (CLoop (flat_map decl_names (w_nodes (walk_block P body c))) (new_decls c (w_ctx (walk_block P body c)))) = true.
Proof.
  cbn [guard]. apply forallb_forall. intros x Hx. apply tmem_In.
  apply new_decls_names in Hx as [H1 H2]. apply walk_block_declares in H1 as [H1|H1]; [contradiction|exact H1].
Qed.

(* hence whatever the oracle does at a loop site is invisible *)
Lemma loop_site_independent s1 s2 P body c :
  perm_oracle s1 -> perm_oracle s2 ->
  let r := walk_block P body c in
  promote_with s1 (CLoop (flat_map decl_names (w_nodes r)) (new_decls c (w_ctx r))) =
  promote_with s2 (CLoop (flat_map decl_names (w_nodes r)) (new_decls c (w_ctx r))).
Proof. intros H1 H2 r. apply promote_guarded; auto. apply loop_guard_holds. Qed.
