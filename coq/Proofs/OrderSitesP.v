(* finite obligations on the regenerated inventory (re-checked on every run against the current source) *)
From Coq Require Import ZArith List Bool String.
From RV Require Import Base.Wire Base.Text Lang.Order Lang.DevSession Proofs.DevSessionP Lang.MemoSession Proofs.MemoSessionP Gen.SetSites Lang.OrderSites.
Import ListNotations.
Open Scope Z_scope.

Lemma sites_accounted_b : forallb site_accounted sites = true.
Proof. vm_compute. reflexivity. Qed.

Lemma sites_accounted : forall s, In s sites -> s_class s <> 0.
Proof.
  intros s Hs. pose proof sites_accounted_b as H. rewrite forallb_forall in H. specialize (H s Hs).
  unfold site_accounted in H. apply negb_true_iff in H. apply Z.eqb_neq. exact H.
Qed.

(* every iteration of a set in the source is either sorted or order-insensitive *)
Lemma sites_sorted_or_insensitive_b : forallb (fun s => (s_class s =? 1) || (s_class s =? 2)) sites = true.
Proof. vm_compute. reflexivity. Qed.

Lemma sites_sorted_or_insensitive : forall s, In s sites -> s_class s = 1 \/ s_class s = 2.
Proof.
  intros s Hs. pose proof sites_sorted_or_insensitive_b as H. rewrite forallb_forall in H. specialize (H s Hs).
  apply orb_true_iff in H as [H|H]; apply Z.eqb_eq in H; [left|right]; exact H.
Qed.

(* each of the four repaired loops is there, sorted: two `new_names` sites, two `promoted_set` sites *)
Definition count_sorted (fn it : text) : nat :=
  List.length (filter (fun s => text_eqb (s_fn s) fn && text_eqb (s_iter s) it && (s_class s =? 1)) sites).

Lemma repaired_sites_counted :
  count_sorted (txt "_promote_branch_decls"%string) (txt "new_names"%string) = 2%nat /\
  count_sorted (txt "_parse_simple_lines"%string) (txt "promoted_set"%string) = 2%nat.
Proof. split; vm_compute; reflexivity. Qed.

Lemma no_module_state_b : forallb mstate_accounted module_state = true.
Proof. vm_compute. reflexivity. Qed.

Lemma no_module_state : forall m, In m module_state -> m_mutated m = true -> m_name m = hook_log.
Proof.
  intros m Hm Hmut. pose proof no_module_state_b as H. rewrite forallb_forall in H. specialize (H m Hm).
  unfold mstate_accounted in H. rewrite Hmut in H. cbn [negb orb] in H. apply text_eqb_eq. exact H.
Qed.

Lemma sorted_sites_present_b :
  forallb (fun r => existsb (is_sorted_site r) sites) required_sorted_sites = true.
Proof. vm_compute. reflexivity. Qed.

Lemma sorted_sites_present : forall r, In r required_sorted_sites ->
  exists s, In s sites /\ s_file s = fst (fst r) /\ s_fn s = snd (fst r) /\ s_iter s = snd r /\ s_class s = 1.
Proof.
  intros r Hr. pose proof sorted_sites_present_b as H. rewrite forallb_forall in H. specialize (H r Hr).
  apply existsb_exists in H as [s [Hs Hb]]. unfold is_sorted_site in Hb.
  apply andb_true_iff in Hb as [Hb H4]. apply andb_true_iff in Hb as [Hb H3]. apply andb_true_iff in Hb as [H1 H2].
  exists s. split; [exact Hs|]. repeat split; try (apply text_eqb_eq; assumption). apply Z.eqb_eq. exact H4.
Qed.

Lemma imports_accounted_b : forallb import_accounted imports = true.
Proof. vm_compute. reflexivity. Qed.

Lemma imports_accounted : forall i, In i imports ->
  In (i_module i) allowed_modules \/ (i_module i = txt "os"%string /\ i_fn i = hook_fn).
Proof.
  intros i Hi. pose proof imports_accounted_b as H. rewrite forallb_forall in H. specialize (H i Hi).
  unfold import_accounted in H. apply orb_true_iff in H as [H|H].
  - left. apply tmem_In. exact H.
  - right. apply andb_true_iff in H as [H1 H2]. split; apply text_eqb_eq; assumption.
Qed.

Lemma no_ambient_calls : ambient_calls = [].
Proof. vm_compute. reflexivity. Qed.

(* ---------------------------------------------------------------- module-level mutable objects never escape *)
Lemma module_uses_accounted_b : forallb muse_accounted module_uses = true.
Proof. vm_compute. reflexivity. Qed.

Lemma module_uses_accounted : forall u, In u module_uses -> u_class u <> 0 -> u_name u = hook_log /\ u_class u = 2.
Proof.
  intros u Hu Hc. pose proof module_uses_accounted_b as H. rewrite forallb_forall in H. specialize (H u Hu).
  unfold muse_accounted in H. apply orb_true_iff in H as [H|H].
  - apply Z.eqb_eq in H. contradiction.
  - apply andb_true_iff in H as [H1 H2]. split; [apply text_eqb_eq; exact H1 | apply Z.eqb_eq; exact H2].
Qed.

Lemma default_sites_accounted_b : forallb dsite_accounted default_sites = true.
Proof. vm_compute. reflexivity. Qed.

Lemma default_sites_accounted : forall d, In d default_sites -> d_class d <> 2.
Proof.
  intros d Hd. pose proof default_sites_accounted_b as H. rewrite forallb_forall in H. specialize (H d Hd).
  unfold dsite_accounted in H. apply negb_true_iff in H. apply Z.eqb_neq. exact H.
Qed.

Lemma preseeded_fresh_b : forallb preseed_accounted ctx_preseeded = true.
Proof. vm_compute. reflexivity. Qed.

Lemma preseeded_fresh : forall e, In e ctx_preseeded -> snd e = true.
Proof.
  intros e He. pose proof preseeded_fresh_b as H. rewrite forallb_forall in H. exact (H e He).
Qed.

(* the configuration read off the current source is inside the guard of the statelessness theorem *)
Lemma cfg_gen_ok : cfg_ok cfg_gen = true.
Proof. vm_compute. reflexivity. Qed.

Lemma session_stateless_current_source : forall ms before p after,
  nth_error (dsession cfg_gen ms (before ++ p :: after)) (List.length before) = Some (transl_dev p).
Proof. intros ms before p after. apply dsession_stateless. exact cfg_gen_ok. Qed.

(* ---------------------------------------------------------------- no sorted() over a set takes a key *)
Lemma sorted_sites_keyless_b : forallb site_keyless sites = true.
Proof. vm_compute. reflexivity. Qed.

Lemma sorted_sites_keyless : forall s, In s sites -> s_keyed s = false.
Proof.
  intros s Hs. pose proof sorted_sites_keyless_b as H. rewrite forallb_forall in H. specialize (H s Hs).
  unfold site_keyless in H. apply negb_true_iff in H. exact H.
Qed.

(* ---------------------------------------------------------------- no helper of the current source is memoised *)
Lemma no_cached_helper : cache_sites = [].
Proof. vm_compute. reflexivity. Qed.

Lemma cached_gen_false : forall c, cached_gen c = false.
Proof. intros c. unfold cached_gen. rewrite no_cached_helper. reflexivity. Qed.

Lemma helpers_stateless_current_source : forall keq hit miss t before p after,
  nth_error (session keq cached_gen hit miss t (before ++ p :: after)) (List.length before) = Some (map spec p).
Proof.
  intros keq hit miss t before p after. rewrite (uncached_session keq cached_gen hit miss t _ cached_gen_false).
  rewrite map_app. rewrite nth_error_app2; rewrite map_length; [|apply le_n].
  rewrite PeanoNat.Nat.sub_diag. reflexivity.
Qed.
