(* finite obligations on the regenerated inventory (re-checked on every run against the current source) *)
From Coq Require Import ZArith List Bool String.
From RV Require Import Base.Wire Base.Text Lang.Order Gen.SetSites Lang.OrderSites.
Import ListNotations.
Open Scope Z_scope.

Lemma sites_accounted_b : forallb site_accounted sites = true.
Proof. vm_compute. reflexivity. Qed.

Lemma sites_accounted : forall s, In s sites -> s_class s = 0 ->
  exists m, In m modelled_sites /\ s_fn s = fst m /\ s_iter s = snd m.
Proof.
  intros s Hs Hc. pose proof sites_accounted_b as H. rewrite forallb_forall in H. specialize (H s Hs).
  unfold site_accounted in H. rewrite Hc, Z.eqb_refl in H. cbn [negb orb] in H. unfold site_modelled in H.
  apply existsb_exists in H as [m [Hm Hb]]. apply andb_true_iff in Hb as [H1 H2].
  exists m. split; [exact Hm|]. split; apply text_eqb_eq; assumption.
Qed.

Lemma no_module_state_b : forallb mstate_accounted module_state = true.
Proof. vm_compute. reflexivity. Qed.

Lemma no_module_state : forall m, In m module_state -> m_mutated m = true -> m_name m = hook_log.
Proof.
  intros m Hm Hmut. pose proof no_module_state_b as H. rewrite forallb_forall in H. specialize (H m Hm).
  unfold mstate_accounted in H. rewrite Hmut in H. cbn [negb orb] in H. apply text_eqb_eq. exact H.
Qed.

Lemma sorted_sites_present_b :
  forallb (fun r => existsb (is_sorted_site r) sites) required_sorted_sites = true.
Proof. vm_compute. reflexivity. Qed.

Lemma sorted_sites_present : forall r, In r required_sorted_sites ->
  exists s, In s sites /\ s_file s = fst (fst r) /\ s_fn s = snd (fst r) /\ s_iter s = snd r /\ s_class s = 1.
Proof.
  intros r Hr. pose proof sorted_sites_present_b as H. rewrite forallb_forall in H. specialize (H r Hr).
  apply existsb_exists in H as [s [Hs Hb]]. unfold is_sorted_site in Hb.
  apply andb_true_iff in Hb as [Hb H4]. apply andb_true_iff in Hb as [Hb H3]. apply andb_true_iff in Hb as [H1 H2].
  exists s. split; [exact Hs|]. repeat split; try (apply text_eqb_eq; assumption). apply Z.eqb_eq. exact H4.
Qed.

Lemma imports_accounted_b : forallb import_accounted imports = true.
Proof. vm_compute. reflexivity. Qed.

Lemma imports_accounted : forall i, In i imports ->
  In (i_module i) allowed_modules \/ (i_module i = txt "os"%string /\ i_fn i = hook_fn).
Proof.
  intros i Hi. pose proof imports_accounted_b as H. rewrite forallb_forall in H. specialize (H i Hi).
  unfold import_accounted in H. apply orb_true_iff in H as [H|H].
  - left. apply tmem_In. exact H.
  - right. apply andb_true_iff in H as [H1 H2]. split; apply text_eqb_eq; assumption.
Qed.

Lemma no_ambient_calls : ambient_calls = [].
Proof. vm_compute. reflexivity. Qed.
