(* C07 - variable promotion keeps every statement of the script, in its block. *)
From Coq Require Import ZArith List Bool Lia.
From RV Require Import Base.Wire Base.Text Lang.Promote.
Import ListNotations.
Open Scope Z_scope.

Section PnInd.
  Variable P : pn -> Prop.
  Hypothesis HD : forall n t e g, P (PDecl n t e g).
  Hypothesis HA : forall n e, P (PAssign n e).
  Hypothesis HO : forall cl, P (PSimple cl).
  Hypothesis HC : forall h b, Forall P b -> P (PCtl h b).
  Fixpoint pn_ind' (n : pn) : P n :=
    let fix all (l : list pn) : Forall P l :=
      match l with [] => Forall_nil _ | x :: r => Forall_cons x (pn_ind' x) (all r) end in
    match n with
    | PDecl a b c d => HD a b c d
    | PAssign a b => HA a b
    | PSimple cl => HO cl
    | PCtl h b => HC h b (all b)
    end.
End PnInd.

Lemma map_ext_Forall {A B} (f g : A -> B) l : Forall (fun x => f x = g x) l -> map f l = map g l.
Proof. induction 1; cbn; congruence. Qed.

Lemma flat_map_ext_Forall {A B} (f g : A -> list B) l : Forall (fun x => f x = g x) l -> flat_map f l = flat_map g l.
Proof. induction 1; cbn; congruence. Qed.

(* ---------------------------------------------------------------- the rewrite changes no statement *)

Lemma as_assign_rw p n : as_assign (rw p n) = as_assign n.
Proof.
  induction n as [name t e g | name e | cl | h b IH] using pn_ind'; cbn; try reflexivity.
  - destruct (tmem name p); reflexivity.
  - f_equal. rewrite map_map. apply map_ext_Forall. exact IH.
Qed.

Lemma rewrite_keeps_statements : forall p ns, map as_assign (rewrite p ns) = map as_assign ns.
Proof.
  intros p ns. unfold rewrite. rewrite map_map. apply map_ext_Forall.
  apply Forall_forall. intros x _. apply as_assign_rw.
Qed.

Lemma as_assign_rw_if p n : as_assign (rw_if p n) = as_assign n.
Proof.
  induction n as [name t e g | name e | cl | h b IH] using pn_ind'; cbn; try reflexivity.
  - destruct (tmem name p); reflexivity.
  - destruct (is_if_hdr h); cbn; [|reflexivity].
    f_equal. rewrite map_map. apply map_ext_Forall. exact IH.
Qed.

Lemma rewrite_if_keeps_statements : forall p ns, map as_assign (rewrite_if p ns) = map as_assign ns.
Proof.
  intros p ns. unfold rewrite_if. rewrite map_map. apply map_ext_Forall.
  apply Forall_forall. intros x _. apply as_assign_rw_if.
Qed.

(* the items of a list of nodes only depend on the statements made *)
Lemma items_n_as_assign : forall n pre, items_n pre (as_assign n) = items_n pre n.
Proof.
  induction n as [name t e g | name e | cl | h b IH] using pn_ind'; intro pre; cbn; try reflexivity.
  rewrite flat_map_concat_map, map_map, <- flat_map_concat_map.
  apply flat_map_ext_Forall. eapply Forall_impl; [|exact IH]. intros a Ha. apply Ha.
Qed.

Lemma items_as_assign pre ns : items pre (map as_assign ns) = items pre ns.
Proof.
  unfold items. rewrite flat_map_concat_map, map_map, <- flat_map_concat_map.
  apply flat_map_ext_Forall. apply Forall_forall. intros x _. apply items_n_as_assign.
Qed.

Lemma same_statements_same_items pre a b : map as_assign a = map as_assign b -> items pre a = items pre b.
Proof. intro H. rewrite <- (items_as_assign pre a), <- (items_as_assign pre b), H. reflexivity. Qed.

Lemma rewrite_keeps_items : forall p pre ns, items pre (rewrite p ns) = items pre ns.
Proof. intros. apply same_statements_same_items, rewrite_keeps_statements. Qed.

Lemma rewrite_if_keeps_items : forall p pre ns, items pre (rewrite_if p ns) = items pre ns.
Proof. intros. apply same_statements_same_items, rewrite_if_keeps_statements. Qed.

(* ---------------------------------------------------------------- no promoted name stays declared *)

Lemma decl_names_rw p n : forallb (fun x => negb (tmem x p)) (decl_names_n (rw p n)) = true.
Proof.
  induction n as [name t e g | name e | cl | h b IH] using pn_ind'; cbn; try reflexivity.
  - destruct (tmem name p) eqn:E; cbn; [reflexivity | now rewrite E].
  - induction IH as [|x r Hx _ IHr]; cbn; [reflexivity|].
    rewrite forallb_app, Hx. exact IHr.
Qed.

Lemma rewrite_assigns_promoted : forall p ns,
  forallb (fun x => negb (tmem x p)) (decl_names (rewrite p ns)) = true.
Proof.
  intros p ns. unfold decl_names, rewrite. induction ns as [|x r IH]; cbn; [reflexivity|].
  rewrite forallb_app, decl_names_rw. exact IH.
Qed.

(* the if variant reaches every declaration that is not below a loop / try *)
Lemma decl_names_rw_if p n : forall inside,
  if_reach_n p inside n = true -> inside = false ->
  forallb (fun x => negb (tmem x p)) (decl_names_n (rw_if p n)) = true
with decl_names_keep p n : if_reach_n p true n = true ->
  forallb (fun x => negb (tmem x p)) (decl_names_n n) = true.
Proof.
  - induction n as [name t e g | name e | cl | h b IH] using pn_ind'; intros inside Hr Hi; subst inside; cbn; try reflexivity.
    + destruct (tmem name p) eqn:E; cbn; [reflexivity | now rewrite E].
    + cbn in Hr. destruct (is_if_hdr h) eqn:Eh; cbn in *.
      * induction IH as [|x r Hx _ IHr]; cbn; [reflexivity|].
        cbn in Hr. apply andb_true_iff in Hr as [H1 H2].
        rewrite forallb_app, (Hx false H1 eq_refl). now apply IHr.
      * clear IH. induction b as [|x r IHr]; cbn; [reflexivity|].
        cbn in Hr. apply andb_true_iff in Hr as [H1 H2].
        rewrite forallb_app, (decl_names_keep p x H1). now apply IHr.
  - induction n as [name t e g | name e | cl | h b IH] using pn_ind'; intro Hr; cbn; try reflexivity.
    + cbn in Hr. now rewrite Hr.
    + cbn in Hr. induction IH as [|x r Hx _ IHr]; cbn; [reflexivity|].
      cbn in Hr. apply andb_true_iff in Hr as [H1 H2].
      rewrite forallb_app, (Hx H1). now apply IHr.
Qed.

Lemma rewrite_if_assigns_promoted : forall p ns, if_reach p ns = true ->
  forallb (fun x => negb (tmem x p)) (decl_names (rewrite_if p ns)) = true.
Proof.
  intros p ns. unfold decl_names, rewrite_if, if_reach. induction ns as [|x r IH]; cbn; intro H; [reflexivity|].
  apply andb_true_iff in H as [H1 H2].
  rewrite forallb_app, (decl_names_rw_if p x false H1 eq_refl). now apply IH.
Qed.

(* ---------------------------------------------------------------- what the handlers append *)

Lemma make_decls_placeholders names tys top : forallb is_placeholder (make_decls names tys top) = true.
Proof.
  unfold make_decls. destruct top; [reflexivity|].
  induction names as [|x r IH]; cbn; [reflexivity|].
  now rewrite text_eqb_refl, IH.
Qed.

Lemma make_decls_names names tys top : decl_names (make_decls names tys top) = if top then [] else names.
Proof.
  unfold make_decls, decl_names. destruct top; [reflexivity|].
  induction names as [|x r IH]; cbn; [reflexivity | now rewrite IH].
Qed.

(* the loop handlers: in front of the loop only synthetic declarations (one per promoted name, none at the
   top level of the sketch, where the declaration becomes a global); then the loop, under its own header,
   with every statement of its body in place *)
Lemma promote_loop_spec : forall names tys top h b,
  exists decls b',
    promote_loop names tys top h b = decls ++ [PCtl h b']
    /\ forallb is_placeholder decls = true
    /\ decl_names decls = (if top then [] else names)
    /\ map as_assign b' = map as_assign b
    /\ forallb (fun x => negb (tmem x names)) (decl_names b') = true.
Proof.
  intros. destruct names as [|n0 r].
  - exists [], b. cbn. repeat split; try (destruct top; reflexivity).
    apply forallb_forall. reflexivity.
  - exists (make_decls (n0 :: r) tys top), (rewrite (n0 :: r) b). unfold promote_loop.
    split; [reflexivity|]. split; [apply make_decls_placeholders|]. split; [apply make_decls_names|].
    split; [apply rewrite_keeps_statements | apply rewrite_assigns_promoted].
Qed.

Lemma promote_loop_statements : forall names tys (top : bool) h b pre,
  exists decls,
    forallb is_placeholder decls = true /\ length decls = (if top then O else length names) /\
    items pre (promote_loop names tys top h b) = items pre decls ++ items pre [PCtl h b].
Proof.
  intros. destruct names as [|n0 r].
  - exists []. cbn. destruct top; repeat split; reflexivity.
  - exists (make_decls (n0 :: r) tys top). split; [apply make_decls_placeholders|]. split.
    + unfold make_decls. destruct top; [reflexivity|]. now rewrite map_length.
    + unfold promote_loop, items. rewrite flat_map_app. f_equal.
      cbn. rewrite !app_nil_r.
      exact (rewrite_keeps_items (n0 :: r) (pre ++ [h]) b).
Qed.

Lemma on_bodies_keeps f parts :
  (forall b, map as_assign (f b) = map as_assign b) ->
  map as_assign (on_bodies f parts) = map as_assign parts.
Proof.
  intro Hf. unfold on_bodies. rewrite map_map. apply map_ext_Forall, Forall_forall. intros x _.
  destruct x; cbn; try reflexivity. now rewrite Hf.
Qed.

Lemma promote_try_statements : forall names tys (top : bool) parts pre,
  exists decls,
    forallb is_placeholder decls = true /\ length decls = (if top then O else length names) /\
    items pre (promote_try names tys top parts) = items pre decls ++ items pre parts.
Proof.
  intros. destruct names as [|n0 r].
  - exists []. cbn. destruct top; repeat split; reflexivity.
  - exists (make_decls (n0 :: r) tys top). split; [apply make_decls_placeholders|]. split.
    + unfold make_decls. destruct top; [reflexivity|]. now rewrite map_length.
    + unfold promote_try, items. rewrite flat_map_app. f_equal.
      apply same_statements_same_items, on_bodies_keeps, rewrite_keeps_statements.
Qed.

Lemma promote_if_statements : forall names tys (top : bool) parts pre,
  exists decls,
    forallb is_placeholder decls = true /\ length decls = (if top then O else length names) /\
    items pre (promote_if names tys top parts) = items pre decls ++ items pre parts.
Proof.
  intros. destruct names as [|n0 r].
  - exists []. cbn. destruct top; repeat split; reflexivity.
  - exists (make_decls (n0 :: r) tys top). split; [apply make_decls_placeholders|]. split.
    + unfold make_decls. destruct top; [reflexivity|]. now rewrite map_length.
    + unfold promote_if, items. rewrite flat_map_app. f_equal.
      apply same_statements_same_items, on_bodies_keeps, rewrite_if_keeps_statements.
Qed.

(* ---------------------------------------------------------------- the shape at stake *)
(* `count = 0` at the top of a for body in front of an inner while that first assigns nothing new: the name
   is promoted out of the for loop; the reset stays the first statement of the for body *)
Definition t_count := [99;111;117;110;116].
Definition t_lt2 := [40;99;111;117;110;116;32;60;32;50;41].
Definition t_i := [105].
Definition t_3 := [51].
Definition t_inc := [40;99;111;117;110;116;32;43;32;49;41].
Definition ex_loop_body : list pn :=
  [PDecl t_count s_int s_0 false; PCtl (HWhile t_lt2) [PSimple [[116;59]]; PAssign t_count t_inc]].

Lemma reset_stays_in_loop :
  promote_loop [t_count] [(t_count, s_int)] false (HFor t_i t_3) ex_loop_body
  = [PDecl t_count s_int s_0 false;
     PCtl (HFor t_i t_3) [PAssign t_count s_0; PCtl (HWhile t_lt2) [PSimple [[116;59]]; PAssign t_count t_inc]]]
  /\ is_placeholder (PDecl t_count s_int s_0 false) = true
  /\ items [] (promote_loop [t_count] [(t_count, s_int)] false (HFor t_i t_3) ex_loop_body)
     = [([], ItAssign t_count s_0);
        ([HFor t_i t_3], ItAssign t_count s_0);
        ([HFor t_i t_3; HWhile t_lt2], ItOther [[116;59]]);
        ([HFor t_i t_3; HWhile t_lt2], ItAssign t_count t_inc)].
Proof. repeat split; vm_compute; reflexivity. Qed.

(* a rewrite that takes a default-valued declaration in front of a compound statement for a synthetic
   placeholder and drops it (as a C++ reader sees the result) loses a statement of the script *)
Definition ex_reset_dropped : list pn :=
  [PDecl t_count s_int s_0 false;
   PCtl (HFor t_i t_3) [PCtl (HWhile t_lt2) [PSimple [[116;59]]; PAssign t_count t_inc]]].
Lemma dropped_reset_loses_statement :
  items [] ex_reset_dropped <> items [] (promote_loop [t_count] [(t_count, s_int)] false (HFor t_i t_3) ex_loop_body).
Proof. vm_compute. discriminate. Qed.
