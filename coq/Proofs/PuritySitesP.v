(* finite obligations on the regenerated inventory Gen/PuritySites.v (re-checked on every run against the current source) *)
From Coq Require Import ZArith List Bool String.
From RV Require Import Base.Wire Base.Text Lang.Order Lang.EmitSession Proofs.EmitSessionP Lang.VariantSession Proofs.VariantSessionP.
From RV Require Import Gen.PuritySites Lang.PuritySites.
Import ListNotations.
Open Scope Z_scope.

Lemma names_spelled : t_LCDGlyph = txt "LCDGlyph"%string /\ t_ensure_function_variant = txt "_ensure_function_variant"%string.
Proof. split; vm_compute; reflexivity. Qed.

Lemma lazy_sites_accounted_b : forallb lsite_accounted lazy_sites = true.
Proof. vm_compute. reflexivity. Qed.

Lemma lazy_sites_accounted : forall s, In s lazy_sites -> l_class s = 1.
Proof.
  intros s Hs. pose proof lazy_sites_accounted_b as H. rewrite forallb_forall in H. specialize (H s Hs).
  apply Z.eqb_eq. exact H.
Qed.

Lemma no_lazy_ir_field : node_lazy_args = [].
Proof. vm_compute. reflexivity. Qed.

Lemma no_emit_arg_mutation : emit_arg_mutations = [].
Proof. vm_compute. reflexivity. Qed.

Lemma glyph_rows_not_lazy : glyph_rows_lazy = false.
Proof. vm_compute. reflexivity. Qed.

Lemma mk_gen_faithful : faithful mk_gen.
Proof. unfold mk_gen. rewrite glyph_rows_not_lazy. exact faithful_plain. Qed.

Lemma emit_stateless_current_source : forall srcs ops, esession mk_gen srcs ops [] = espec srcs ops [].
Proof. intros srcs ops. apply emit_session_stateless. exact mk_gen_faithful. Qed.

Lemma guards_safe_b : forallb gsite_safe guard_sites = true.
Proof. vm_compute. reflexivity. Qed.

Lemma guards_safe : forall g, In g guard_sites -> g_scope g = 0 \/ g_release g = 0.
Proof.
  intros g Hg. pose proof guards_safe_b as H. rewrite forallb_forall in H. specialize (H g Hg).
  apply orb_true_iff in H as [H|H]; apply Z.eqb_eq in H; [left|right]; exact H.
Qed.

Lemma variant_guard_found : variant_guards <> [].
Proof. vm_compute. discriminate. Qed.

Lemma vcfg_gen_safe : cfg_safe vcfg_gen = true.
Proof. vm_compute. reflexivity. Qed.

Lemma variant_session_stateless_current_source : forall before p after,
  nth_error (vsession vcfg_gen [] (before ++ p :: after)) (List.length before) = Some (vspec p).
Proof. intros. apply vsession_stateless. exact vcfg_gen_safe. Qed.
