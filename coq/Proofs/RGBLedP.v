(* Proofs about Host/RGBLed.v. *)
From Coq Require Import ZArith QArith Qround Lia Lqa List Bool.
From RV Require Import Base.Wire Base.Num Host.Led Host.RGBLed Proofs.NumP Proofs.LedP.
Import ListNotations.
Import Num.
Local Open Scope Q_scope.

(* ------------------------------------------------------------------ *)
(* sequencing                                                          *)
(* ------------------------------------------------------------------ *)
Lemma r_andthen_ok : forall s e r k,
  andthen (s, e, Ok r) k = (st (k s), e ++ evs (k s), res (k s)).
Proof. intros. unfold andthen, st, evs, res. destruct (k s) as [[s' e'] r']. reflexivity. Qed.

Lemma r_st_andthen_ok : forall s e r k, st (andthen (s, e, Ok r) k) = st (k s).
Proof. intros. rewrite r_andthen_ok. reflexivity. Qed.
Lemma r_evs_andthen_ok : forall s e r k, evs (andthen (s, e, Ok r) k) = e ++ evs (k s).
Proof. intros. rewrite r_andthen_ok. reflexivity. Qed.
Lemma r_res_andthen_ok : forall s e r k, res (andthen (s, e, Ok r) k) = res (k s).
Proof. intros. rewrite r_andthen_ok. reflexivity. Qed.

Lemma r_outcome_eta : forall o : outcome, o = (st o, evs o, res o).
Proof. intros [[s e] r]. reflexivity. Qed.

Lemma r_outcome_ext : forall (o : outcome) s e r, st o = s -> evs o = e -> res o = r -> o = (s, e, r).
Proof. intros [[s0 e0] r0] s e r; cbn; intros; subst; reflexivity. Qed.

Lemma r_reject_if_raised : forall s c k s' e x,
  reject_if s c k = (s', e, Raised x) ->
  (s' = s /\ e = []) \/ (c = Some false /\ k s = (s', e, Raised x)).
Proof.
  intros s [[|]|] k s' e x H; cbn in H.
  - left. injection H as <- <- _. auto.
  - right. auto.
  - left. injection H as <- <- _. auto.
Qed.

(* ------------------------------------------------------------------ *)
(* validation, set_color                                               *)
(* ------------------------------------------------------------------ *)
Definition ok3 (c : triple) : Prop :=
  let '(r, g, b) := c in chan_ok r /\ chan_ok g /\ chan_ok b.

Definition painted (p : pynum * pynum * pynum) (c : triple) : rgb := mkRgb p c (any_on c).

Lemma validate_component_none : forall v, validate_component v = None ->
  is_intlike v = true /\ chan_ok (zval v).
Proof.
  intros v H. unfold validate_component in H.
  destruct (is_intlike v) eqn:Ei; cbn [negb] in H; [|discriminate].
  destruct (Qle_bool 0 (qval v) && Qle_bool (qval v) 255) eqn:Er; cbn [negb] in H; [|discriminate].
  split; [reflexivity|]. apply andb_true_iff in Er as [H0 H1]. apply Qle_bool_iff in H0, H1.
  destruct v as [z|q|b|]; cbn in Ei; try discriminate; cbn [zval qval] in *.
  - change 0 with (inject_Z 0) in H0. change 255 with (inject_Z 255) in H1.
    rewrite <- Zle_Qle in H0, H1. split; assumption.
  - destruct b; cbn; split; lia.
Qed.

Lemma validate_component_PI : forall z, chan_ok z -> validate_component (PI z) = None.
Proof.
  intros z [H0 H1]. unfold validate_component. cbn [is_intlike negb qval].
  assert (E : Qle_bool 0 (inject_Z z) && Qle_bool (inject_Z z) 255 = true).
  { apply andb_true_iff. split; apply Qle_bool_iff.
    - change 0 with (inject_Z 0). rewrite <- Zle_Qle. exact H0.
    - change 255 with (inject_Z 255). rewrite <- Zle_Qle. exact H1. }
  rewrite E. reflexivity.
Qed.

Lemma first_error_none : forall a b c, first_error a b c = None -> a = None /\ b = None /\ c = None.
Proof. intros [k|] [k'|] [k''|]; cbn; intro H; try discriminate; auto. Qed.

Lemma sc_cases : forall s r g b,
  (set_color s r g b = (painted (pins s) (target_of r g b), [Lvl (l3 (target_of r g b))], Ok RNone)
   /\ ok3 (target_of r g b))
  \/ (exists k, set_color s r g b = (s, [], Raised k)).
Proof.
  intros s r g b. unfold set_color.
  destruct (first_error (validate_component r) (validate_component g) (validate_component b)) as [k|] eqn:E.
  - right. exists k. reflexivity.
  - left. apply first_error_none in E as (Er & Eg & Eb).
    apply validate_component_none in Er as [_ Er], Eg as [_ Eg], Eb as [_ Eb].
    split; [reflexivity|]. cbn. auto.
Qed.

Lemma set_triple_ok : forall s c, ok3 c ->
  set_triple s c = (painted (pins s) c, [Lvl (l3 c)], Ok RNone).
Proof.
  intros s [[r g] b] (Hr & Hg & Hb). unfold set_triple, set_color.
  rewrite !validate_component_PI by assumption. reflexivity.
Qed.

Lemma off_eq : forall s, off s = (mkRgb (pins s) (0, 0, 0)%Z false, [Lvl [0; 0; 0]%Z], Ok RNone).
Proof. intro s. reflexivity. Qed.

Lemma inv_painted : forall p c, ok3 c -> Inv_rgb (painted p c).
Proof.
  intros p [[r g] b] (Hr & Hg & Hb). unfold Inv_rgb, painted. cbn [color RGBLed.lit].
  split; [exact Hr|]. split; [exact Hg|]. split; [exact Hb|].
  unfold any_on, chan_ok in *. rewrite !orb_true_iff, !Z.ltb_lt. lia.
Qed.

Lemma inv_ok3 : forall s, Inv_rgb s -> ok3 (color s).
Proof.
  intros s H. unfold Inv_rgb in H. destruct (color s) as [[r g] b]. cbn. tauto.
Qed.

Lemma inv_lit : forall s, Inv_rgb s -> RGBLed.lit s = any_on (color s).
Proof.
  intros s H. unfold Inv_rgb in H. destruct (color s) as [[r g] b].
  destruct H as (Hr & Hg & Hb & Hl). unfold any_on, chan_ok in *.
  destruct (RGBLed.lit s) eqn:E.
  - symmetry. rewrite !orb_true_iff, !Z.ltb_lt. destruct Hl as [Hl _]. specialize (Hl eq_refl). lia.
  - symmetry. apply not_true_is_false. rewrite !orb_true_iff, !Z.ltb_lt. intro Hc.
    destruct Hl as [_ Hl]. assert (true = false) by (rewrite <- Hl by lia; reflexivity). discriminate.
Qed.

Lemma painted_self : forall s, Inv_rgb s -> painted (pins s) (color s) = s.
Proof.
  intros s H. unfold painted. rewrite <- (inv_lit s H). destruct s; reflexivity.
Qed.

Ltac rnorm :=
  repeat first
    [ rewrite off_eq
    | rewrite r_st_andthen_ok | rewrite r_evs_andthen_ok | rewrite r_res_andthen_ok
    | progress unfold sleep, done
    | progress cbv beta ].

(* ------------------------------------------------------------------ *)
(* blink                                                               *)
(* ------------------------------------------------------------------ *)
Fixpoint rblink_evs (k : nat) (c : triple) (d : Q) : list ev :=
  match k with
  | O => []
  | S k' => Lvl (l3 c) :: Sleep d :: Lvl [0; 0; 0]%Z :: Sleep d :: rblink_evs k' c d
  end.

Lemma rblink_loop_eq : forall c d, ok3 c -> forall k s,
  blink_loop k c d s =
  (match k with O => s | S _ => mkRgb (pins s) (0, 0, 0)%Z false end, rblink_evs k c d, Ok RNone).
Proof.
  intros c d Hc. induction k as [|k IH]; intro s; [reflexivity|].
  apply r_outcome_ext; cbn [blink_loop]; rewrite (set_triple_ok _ _ Hc); rnorm; rewrite IH;
    cbn [st evs res fst snd pins painted].
  - destruct k; reflexivity.
  - reflexivity.
  - reflexivity.
Qed.

Lemma rblink_evs_sleeps : forall k c d, sleeps (rblink_evs k c d) = repeat d (2 * k).
Proof.
  induction k as [|k IH]; intros c d; [reflexivity|].
  cbn [rblink_evs sleeps]. rewrite IH.
  replace (2 * S k)%nat with (S (S (2 * k))) by lia. reflexivity.
Qed.

Lemma rblink_evs_levels : forall k c d,
  levels (rblink_evs k c d) = concat (repeat [l3 c; [0; 0; 0]%Z] k).
Proof.
  induction k as [|k IH]; intros c d; [reflexivity|].
  cbn [rblink_evs levels repeat concat app]. rewrite IH. reflexivity.
Qed.

Lemma r_range_count_pos : forall t n, num_le t 0 = Some false -> range_count t = Some n ->
  (0 < n)%Z /\ qval t = inject_Z n /\ zval t = n.
Proof. exact range_count_pos. Qed.

Lemma blink_spec : forall s r g b t d s' e x,
  step s (Blink r g b t d) = (s', e, Ok x) ->
  s' = painted (pins s) (color s) /\
  sleeps e = repeat (qval d) (2 * Z.to_nat (zval t)) /\
  qsum (sleeps e) == 2 * qval t * qval d /\
  levels e = concat (repeat [l3 (target_of r g b); [0; 0; 0]%Z] (Z.to_nat (zval t))) ++ [l3 (color s)] /\
  (0 < zval t)%Z /\ 0 <= qval d /\ ok3 (target_of r g b) /\ ok3 (color s).
Proof.
  intros s r g b t d s' e x H. cbn [step] in H. unfold blink in H.
  destruct (num_le t 0) as [[|]|] eqn:Et; cbn [reject_if] in H; try discriminate.
  destruct (num_lt d 0) as [[|]|] eqn:Ed; cbn [reject_if] in H; try discriminate.
  destruct (first_error (validate_component r) (validate_component g) (validate_component b)) as [k|] eqn:E;
    [discriminate|].
  apply first_error_none in E as (Er & Eg & Eb).
  apply validate_component_none in Er as [_ Er], Eg as [_ Eg], Eb as [_ Eb].
  assert (Hc : ok3 (zval r, zval g, zval b)) by (cbn; auto).
  destruct (range_count t) as [n|] eqn:En; [|discriminate].
  destruct (r_range_count_pos _ _ Et En) as (Hn & Hq & Hz).
  pose proof (num_lt_false_nonneg _ Ed) as Hd.
  rewrite (rblink_loop_eq _ _ Hc) in H. rewrite r_andthen_ok in H.
  set (s1 := match Z.to_nat n with O => s | S _ => mkRgb (pins s) (0, 0, 0)%Z false end) in *.
  assert (Hp : pins s1 = pins s) by (unfold s1; destruct (Z.to_nat n); reflexivity).
  assert (Hcol : ok3 (color s)).
  { destruct (color s) as [[cr cg] cb] eqn:Ecol. unfold set_triple in H.
    destruct (sc_cases s1 (PI cr) (PI cg) (PI cb)) as [[_ Hok]|[k Hk]].
    - exact Hok.
    - rewrite Hk in H. discriminate. }
  rewrite (set_triple_ok _ _ Hcol) in H. cbn [st evs res fst snd] in H.
  injection H as Hs He _. rewrite Hp in Hs. subst e. rewrite Hz.
  split; [symmetry; exact Hs|].
  rewrite sleeps_app, levels_app, rblink_evs_sleeps, rblink_evs_levels. cbn [sleeps levels].
  rewrite app_nil_r.
  split; [reflexivity|]. split.
  { rewrite qsum_repeat, Hq. rewrite Nat2Z.inj_mul, Z2Nat.id by lia. rewrite inject_Z_mult.
    change (inject_Z (Z.of_nat 2)) with 2. lra. }
  split; [reflexivity|]. auto.
Qed.

(* ------------------------------------------------------------------ *)
(* fade: interpolation                                                 *)
(* ------------------------------------------------------------------ *)
Lemma div_le_r : forall a b n : Z, (0 < n)%Z -> (a <= b * n)%Z -> inject_Z a / inject_Z n <= inject_Z b.
Proof.
  intros a b n Hn H. apply Qle_shift_div_r.
  - change 0 with (inject_Z 0). rewrite <- Zlt_Qlt. exact Hn.
  - rewrite <- inject_Z_mult, <- Zle_Qle. exact H.
Qed.

Lemma div_le_l : forall a b n : Z, (0 < n)%Z -> (b * n <= a)%Z -> inject_Z b <= inject_Z a / inject_Z n.
Proof.
  intros a b n Hn H. apply Qle_shift_div_l.
  - change 0 with (inject_Z 0). rewrite <- Zlt_Qlt. exact Hn.
  - rewrite <- inject_Z_mult, <- Zle_Qle. exact H.
Qed.

Lemma div_mono : forall a b n : Z, (0 < n)%Z -> (a <= b)%Z ->
  inject_Z a / inject_Z n <= inject_Z b / inject_Z n.
Proof.
  intros a b n Hn H. unfold Qdiv. apply Qmult_le_compat_r.
  - rewrite <- Zle_Qle. exact H.
  - apply Qinv_le_0_compat. change 0 with (inject_Z 0). rewrite <- Zle_Qle. lia.
Qed.

Section Interp.
  Variable nz : Z.
  Hypothesis Hnz : (0 < nz)%Z.
  Let nq := inject_Z nz.

  Lemma interp_mono_up : forall c g i j, (c <= g)%Z -> (i <= j)%Z ->
    (interp nq c g i <= interp nq c g j)%Z.
  Proof.
    intros c g i j Hcg Hij. unfold interp. apply py_round_mono.
    apply Qplus_le_r. apply div_mono; [exact Hnz|].
    apply Z.mul_le_mono_nonneg_l; lia.
  Qed.

  Lemma interp_mono_down : forall c g i j, (g <= c)%Z -> (i <= j)%Z ->
    (interp nq c g j <= interp nq c g i)%Z.
  Proof.
    intros c g i j Hcg Hij. unfold interp. apply py_round_mono.
    apply Qplus_le_r. apply div_mono; [exact Hnz|].
    apply Z.mul_le_mono_nonpos_l; lia.
  Qed.

  Lemma interp_0 : forall c g, interp nq c g 0 = c.
  Proof.
    intros c g. unfold interp. apply py_round_Z. rewrite Z.mul_0_r.
    unfold Qdiv. change (inject_Z 0) with 0. lra.
  Qed.

  Lemma interp_end : forall c g, interp nq c g nz = g.
  Proof.
    intros c g. unfold interp. apply py_round_Z.
    rewrite inject_Z_mult. fold nq.
    assert (Hq : ~ nq == 0).
    { unfold nq. intro E.
      assert (Hlt : inject_Z 0 < inject_Z nz) by (rewrite <- Zlt_Qlt; exact Hnz).
      change (inject_Z 0) with 0 in Hlt. lra. }
    unfold Zminus. rewrite inject_Z_plus, inject_Z_opp. field. exact Hq.
  Qed.

  Lemma interp_range : forall c g i, (0 <= i <= nz)%Z ->
    (Z.min c g <= interp nq c g i <= Z.max c g)%Z.
  Proof.
    intros c g i Hi. destruct (Z.le_ge_cases c g) as [Hcg|Hgc].
    - pose proof (interp_mono_up c g 0 i Hcg ltac:(lia)) as H1.
      pose proof (interp_mono_up c g i nz Hcg ltac:(lia)) as H2.
      rewrite interp_0 in H1. rewrite interp_end in H2. lia.
    - pose proof (interp_mono_down c g 0 i Hgc ltac:(lia)) as H1.
      pose proof (interp_mono_down c g i nz Hgc ltac:(lia)) as H2.
      rewrite interp_0 in H1. rewrite interp_end in H2. lia.
  Qed.

  Lemma interp_chan_ok : forall c g i, chan_ok c -> chan_ok g -> (0 <= i <= nz)%Z ->
    chan_ok (interp nq c g i).
  Proof.
    intros c g i Hc Hg Hi. pose proof (interp_range c g i Hi). unfold chan_ok in *. lia.
  Qed.

  Lemma interp3_ok : forall start target i, ok3 start -> ok3 target -> (0 <= i <= nz)%Z ->
    ok3 (interp3 nq start target i).
  Proof.
    intros [[c1 c2] c3] [[g1 g2] g3] i (H1 & H2 & H3) (G1 & G2 & G3) Hi. cbn.
    repeat split; apply interp_chan_ok; assumption.
  Qed.

  Lemma interp3_end : forall start target, interp3 nq start target nz = target.
  Proof.
    intros [[c1 c2] c3] [[g1 g2] g3]. cbn. rewrite !interp_end. reflexivity.
  Qed.

  (* the loop *)
  Variables (start target : triple) (delay : Q).
  Hypothesis Hstart : ok3 start.
  Hypothesis Htarget : ok3 target.

  Lemma fade_loop_spec : forall k idx s, (1 <= idx)%Z -> (idx + Z.of_nat k = nz + 1)%Z ->
    let o := fade_loop k idx nz nq start target delay s in
    res o = Ok RNone /\
    levels (evs o) = map (fun i => l3 (interp3 nq start target i)) (zseq idx k) /\
    sleeps (evs o) = repeat delay (k - 1) /\
    st o = match k with O => s | S _ => painted (pins s) target end.
  Proof.
    induction k as [|k IH]; intros idx s Hidx Hsum; cbv zeta.
    - cbn. auto.
    - cbn [fade_loop zseq map].
      assert (Hi : (0 <= idx <= nz)%Z) by lia.
      rewrite (set_triple_ok _ _ (interp3_ok _ _ _ Hstart Htarget Hi)).
      destruct (idx =? nz)%Z eqn:E.
      + apply Z.eqb_eq in E. assert (k = O) by lia. subst k. subst idx.
        rnorm. cbn [fade_loop]. unfold done. cbn [st evs res fst snd app levels sleeps zseq map repeat Nat.sub].
        rewrite interp3_end. auto.
      + apply Z.eqb_neq in E.
        specialize (IH (idx + 1)%Z (painted (pins s) (interp3 nq start target idx)) ltac:(lia) ltac:(lia)).
        cbv zeta in IH. destruct IH as (I1 & I2 & I3 & I4).
        rnorm. rewrite I1. rewrite !levels_app, !sleeps_app. cbn [levels sleeps app].
        rewrite I2, I3, I4. cbn [pins painted].
        split; [reflexivity|]. split; [reflexivity|]. split.
        * destruct k as [|k']; [lia|]. cbn [Nat.sub repeat]. rewrite Nat.sub_0_r. reflexivity.
        * destruct k; [lia|reflexivity].
  Qed.

  (* a channel of the recorded levels *)
  Lemma chan_levels : forall c idx k,
    chan c (map (fun i => l3 (interp3 nq start target i)) (zseq idx k)) =
    map (fun i => ch c (interp3 nq start target i)) (zseq idx k).
  Proof. intros. unfold chan, ch. rewrite map_map. reflexivity. Qed.
End Interp.

(* monotone maps over an index range *)
Lemma mono_le_map_zseq : forall (f : Z -> Z) k idx,
  (forall i j, (idx <= i)%Z -> (i <= j)%Z -> (f i <= f j)%Z) -> mono_le (map f (zseq idx k)).
Proof.
  intros f. induction k as [|k IH]; intros idx Hf; [exact I|].
  cbn [zseq map]. destruct k as [|k'].
  - exact I.
  - cbn [zseq map]. split.
    + apply Hf; lia.
    + apply (IH (idx + 1)%Z). intros i j Hi Hij. apply Hf; lia.
Qed.

Lemma mono_ge_map_zseq : forall (f : Z -> Z) k idx,
  (forall i j, (idx <= i)%Z -> (i <= j)%Z -> (f j <= f i)%Z) -> mono_ge (map f (zseq idx k)).
Proof.
  intros f. induction k as [|k IH]; intros idx Hf; [exact I|].
  cbn [zseq map]. destruct k as [|k'].
  - exact I.
  - cbn [zseq map]. split.
    + apply Hf; lia.
    + apply (IH (idx + 1)%Z). intros i j Hi Hij. apply Hf; lia.
Qed.

Lemma zseq_bounds : forall k idx i, In i (zseq idx k) -> (idx <= i < idx + Z.of_nat k)%Z.
Proof.
  induction k as [|k IH]; intros idx i Hin; [destruct Hin|].
  cbn [zseq] in Hin. destruct Hin as [<-|Hin]; [lia|]. apply IH in Hin. lia.
Qed.

Lemma zseq_length : forall k idx, length (zseq idx k) = k.
Proof. induction k as [|k IH]; intro idx; [reflexivity|]. cbn. rewrite IH. reflexivity. Qed.

Lemma toward_interp : forall nz c g, (0 < nz)%Z ->
  toward c g (map (interp (inject_Z nz) c g) (zseq 1 (Z.to_nat nz))).
Proof.
  intros nz c g Hnz. unfold toward. split; intro Hcg.
  - split.
    + rewrite <- (interp_0 nz c g) at 1.
      change (interp (inject_Z nz) c g 0 :: map (interp (inject_Z nz) c g) (zseq 1 (Z.to_nat nz)))
        with (map (interp (inject_Z nz) c g) (zseq 0 (S (Z.to_nat nz)))).
      apply mono_le_map_zseq. intros i j _ Hij. apply interp_mono_up; assumption.
    + apply Forall_forall. intros z Hin. apply in_map_iff in Hin as (i & <- & Hin).
      apply zseq_bounds in Hin. rewrite <- (interp_end nz Hnz c g) at 2.
      apply interp_mono_up; [assumption|assumption|lia].
  - split.
    + rewrite <- (interp_0 nz c g) at 1.
      change (interp (inject_Z nz) c g 0 :: map (interp (inject_Z nz) c g) (zseq 1 (Z.to_nat nz)))
        with (map (interp (inject_Z nz) c g) (zseq 0 (S (Z.to_nat nz)))).
      apply mono_ge_map_zseq. intros i j _ Hij. apply interp_mono_down; assumption.
    + apply Forall_forall. intros z Hin. apply in_map_iff in Hin as (i & <- & Hin).
      apply zseq_bounds in Hin. rewrite <- (interp_end nz Hnz c g) at 1.
      apply interp_mono_down; [assumption|assumption|lia].
Qed.

Lemma toward_single : forall c g, toward c g [g].
Proof.
  intros c g. unfold toward. split; intro H; (split; [cbn; auto|constructor; [lia|constructor]]).
Qed.

Lemma ch_interp3 : forall nq start target i c,
  (c < 3)%nat -> ch c (interp3 nq start target i) = interp nq (ch c start) (ch c target) i.
Proof.
  intros nq [[c1 c2] c3] [[g1 g2] g3] i c Hc.
  destruct c as [|[|[|c]]]; try reflexivity; lia.
Qed.

Lemma triple_eqb_eq : forall a b, triple_eqb a b = true <-> a = b.
Proof.
  intros [[a1 a2] a3] [[b1 b2] b3]. unfold triple_eqb.
  rewrite !andb_true_iff, !Z.eqb_eq. split.
  - intros [[-> ->] ->]. reflexivity.
  - intro H. injection H as -> -> ->. auto.
Qed.

(* what a successful fade did *)
Lemma fade_spec : forall s r g b d n s' e x,
  Inv_rgb s ->
  step s (Fade r g b d n) = (s', e, Ok x) ->
  let target := target_of r g b in
  s' = painted (pins s) target /\ ok3 target /\ 0 <= qval d /\ 0 < qval n /\
  (fade_shortcut s r g b d = true -> levels e = [l3 target] /\ sleeps e = []) /\
  (fade_shortcut s r g b d = false ->
     (0 < zval n)%Z /\ qval n = inject_Z (zval n) /\
     levels e = map (fun i => l3 (interp3 (qval n) (color s) target i)) (zseq 1 (Z.to_nat (zval n))) /\
     sleeps e = repeat (qval d / qval n) (Z.to_nat (zval n) - 1)).
Proof.
  intros s r g b d n s' e x Hinv H. cbn [step] in H. unfold fade in H.
  destruct (num_lt d 0) as [[|]|] eqn:Ed; cbn [reject_if] in H; try discriminate.
  destruct (num_le n 0) as [[|]|] eqn:En; cbn [reject_if] in H; try discriminate.
  destruct (first_error (validate_component r) (validate_component g) (validate_component b)) as [k|] eqn:E;
    [discriminate|].
  apply first_error_none in E as (Er & Eg & Eb).
  apply validate_component_none in Er as [_ Er], Eg as [_ Eg], Eb as [_ Eb].
  assert (Ht : ok3 (target_of r g b)) by (cbn; auto).
  pose proof (num_lt_false_nonneg _ Ed) as Hd. pose proof (num_le_false_pos _ En) as Hn.
  fold (target_of r g b) in H. fold (fade_shortcut s r g b d) in H.
  cbv zeta. destruct (fade_shortcut s r g b d) eqn:Esc.
  - rewrite (set_triple_ok _ _ Ht) in H. injection H as <- <- _.
    split; [reflexivity|]. split; [exact Ht|]. split; [exact Hd|]. split; [exact Hn|].
    split; [auto|discriminate].
  - destruct (range_count n) as [nz|] eqn:Ern; [|discriminate].
    destruct (r_range_count_pos _ _ En Ern) as (Hnz & Hq & Hz).
    rewrite Hq in H.
    destruct (fade_loop_spec nz Hnz (color s) (target_of r g b) (qval d / inject_Z nz)
                (inv_ok3 _ Hinv) Ht (Z.to_nat nz) 1%Z s ltac:(lia) ltac:(lia)) as (I1 & I2 & I3 & I4).
    rewrite H in I1, I2, I3, I4. cbn [st evs res fst snd] in I1, I2, I3, I4.
    rewrite Hz, Hq.
    split. { rewrite I4. destruct (Z.to_nat nz) eqn:E0; [lia|reflexivity]. }
    split; [exact Ht|]. split; [exact Hd|]. split; [rewrite <- Hq; exact Hn|].
    split; [discriminate|]. intros _. auto.
Qed.

Lemma fade_sleep_bound : forall (d : Q) (nz : Z), 0 <= d -> (0 < nz)%Z ->
  qsum (repeat (d / inject_Z nz) (Z.to_nat nz - 1)) <= d.
Proof.
  intros d nz Hd Hnz. rewrite qsum_repeat.
  replace (Z.of_nat (Z.to_nat nz - 1)) with (nz - 1)%Z by lia.
  assert (Hq : 0 < inject_Z nz) by (change 0 with (inject_Z 0); rewrite <- Zlt_Qlt; exact Hnz).
  assert (E : inject_Z (nz - 1) * (d / inject_Z nz) == (inject_Z (nz - 1) * d) / inject_Z nz).
  { field. lra. }
  rewrite E. apply Qle_shift_div_r; [exact Hq|].
  rewrite (Qmult_comm d). apply Qmult_le_compat_r; [|exact Hd].
  rewrite <- Zle_Qle. lia.
Qed.

(* ------------------------------------------------------------------ *)
(* atomicity, invariant                                                *)
(* ------------------------------------------------------------------ *)
Lemma failed_call_atomic : forall s o s' e k,
  Inv_rgb s -> step s o = (s', e, Raised k) -> s' = s /\ e = [].
Proof.
  intros s o s' e k Hinv H.
  assert (Hsc : forall r g b, set_color s r g b = (s', e, Raised k) -> s' = s /\ e = []).
  { intros r g b Hc. destruct (sc_cases s r g b) as [[E _]|[k' E]]; rewrite E in Hc; [discriminate|].
    injection Hc as <- <- _. auto. }
  destruct o as [| | |r g b|r g b| |r g b d n|r g b t d]; cbn [step] in H.
  - destruct (pins s) as [[p1 p2] p3]. discriminate.
  - discriminate.
  - discriminate.
  - eapply Hsc; exact H.
  - eapply Hsc; exact H.
  - rewrite off_eq in H. discriminate.
  - unfold fade in H.
    apply r_reject_if_raised in H as [H|[Ed H]]; [exact H|].
    apply r_reject_if_raised in H as [H|[En H]]; [exact H|].
    destruct (first_error (validate_component r) (validate_component g) (validate_component b)) as [k'|] eqn:E.
    { injection H as <- <- _. auto. }
    apply first_error_none in E as (Er & Eg & Eb).
    apply validate_component_none in Er as [_ Er], Eg as [_ Eg], Eb as [_ Eb].
    assert (Ht : ok3 (zval r, zval g, zval b)) by (cbn; auto).
    destruct (num_eq d 0 || triple_eqb (color s) (zval r, zval g, zval b)).
    + rewrite (set_triple_ok _ _ Ht) in H. discriminate.
    + destruct (range_count n) as [nz|] eqn:Ern.
      * destruct (r_range_count_pos _ _ En Ern) as (Hnz & Hq & Hz). rewrite Hq in H.
        destruct (fade_loop_spec nz Hnz (color s) (zval r, zval g, zval b) (qval d / inject_Z nz)
                    (inv_ok3 _ Hinv) Ht (Z.to_nat nz) 1%Z s ltac:(lia) ltac:(lia)) as (I1 & _).
        rewrite H in I1. discriminate.
      * injection H as <- <- _. auto.
  - unfold blink in H.
    apply r_reject_if_raised in H as [H|[Et H]]; [exact H|].
    apply r_reject_if_raised in H as [H|[Ed H]]; [exact H|].
    destruct (first_error (validate_component r) (validate_component g) (validate_component b)) as [k'|] eqn:E.
    { injection H as <- <- _. auto. }
    apply first_error_none in E as (Er & Eg & Eb).
    apply validate_component_none in Er as [_ Er], Eg as [_ Eg], Eb as [_ Eb].
    assert (Hc : ok3 (zval r, zval g, zval b)) by (cbn; auto).
    destruct (range_count t) as [tz|].
    + rewrite (rblink_loop_eq _ _ Hc) in H. rewrite r_andthen_ok in H.
      rewrite (set_triple_ok _ _ (inv_ok3 _ Hinv)) in H. discriminate.
    + injection H as <- <- _. auto.
Qed.

Lemma step_inv : forall s o, Inv_rgb s -> Inv_rgb (st (step s o)).
Proof.
  intros s o Hinv.
  destruct (step s o) as [[s' e] [x|k]] eqn:H; cbn [st fst].
  2:{ destruct (failed_call_atomic _ _ _ _ _ Hinv H) as [-> _]. exact Hinv. }
  assert (Hsc : forall r g b, set_color s r g b = (s', e, Ok x) -> Inv_rgb s').
  { intros r g b Hc. destruct (sc_cases s r g b) as [[E Hok]|[k' E]]; rewrite E in Hc; [|discriminate].
    injection Hc as <- _ _. apply inv_painted. exact Hok. }
  destruct o as [| | |r g b|r g b| |r g b d n|r g b t d]; cbn [step] in H.
  - destruct (pins s) as [[p1 p2] p3]. injection H as <- _ _. exact Hinv.
  - injection H as <- _ _. exact Hinv.
  - injection H as <- _ _. exact Hinv.
  - eapply Hsc; exact H.
  - eapply Hsc; exact H.
  - eapply (Hsc (PI 0) (PI 0) (PI 0)); exact H.
  - destruct (fade_spec _ _ _ _ _ _ _ _ _ Hinv H) as (-> & Hok & _). apply inv_painted. exact Hok.
  - destruct (blink_spec _ _ _ _ _ _ _ _ _ H) as (-> & _ & _ & _ & _ & _ & _ & Hok).
    apply inv_painted. exact Hok.
Qed.

Lemma run_inv : forall ops s, Inv_rgb s -> Inv_rgb (run s ops).
Proof.
  induction ops as [|o ops IH]; intros s Hs; [exact Hs|].
  cbn [run fold_left]. apply IH. apply step_inv. exact Hs.
Qed.

Lemma create_inv : forall r g b s0, create r g b = inl s0 -> Inv_rgb s0.
Proof.
  intros r g b s0 H. unfold create in H.
  destruct (first_error (validate_pin r) (validate_pin g) (validate_pin b)); [discriminate|].
  injection H as <-. unfold Inv_rgb, chan_ok. cbn [color RGBLed.lit].
  split; [lia|]. split; [lia|]. split; [lia|]. split; [discriminate|].
  intros [?|[?|?]]; lia.
Qed.

Lemma inv_reachable : forall r g b s0 ops, create r g b = inl s0 -> Inv_rgb (run s0 ops).
Proof. intros r g b s0 ops H. apply run_inv. exact (create_inv _ _ _ _ H). Qed.

Lemma step_pins : forall s o, Inv_rgb s -> pins (st (step s o)) = pins s.
Proof.
  intros s o Hinv.
  destruct (step s o) as [[s' e] [x|k]] eqn:H; cbn [st fst].
  2:{ destruct (failed_call_atomic _ _ _ _ _ Hinv H) as [-> _]. reflexivity. }
  assert (Hsc : forall r g b, set_color s r g b = (s', e, Ok x) -> pins s' = pins s).
  { intros r g b Hc. destruct (sc_cases s r g b) as [[E Hok]|[k' E]]; rewrite E in Hc; [|discriminate].
    injection Hc as <- _ _. reflexivity. }
  destruct o as [| | |r g b|r g b| |r g b d n|r g b t d]; cbn [step] in H.
  - destruct (pins s) as [[p1 p2] p3] eqn:Ep. injection H as <- _ _. exact Ep.
  - injection H as <- _ _. reflexivity.
  - injection H as <- _ _. reflexivity.
  - eapply Hsc; exact H.
  - eapply Hsc; exact H.
  - eapply (Hsc (PI 0) (PI 0) (PI 0)); exact H.
  - destruct (fade_spec _ _ _ _ _ _ _ _ _ Hinv H) as (-> & _). reflexivity.
  - destruct (blink_spec _ _ _ _ _ _ _ _ _ H) as (-> & _). reflexivity.
Qed.

(* constructor validation *)
Lemma validate_pin_spec : forall p,
  validate_pin p = (if negb (is_intlike p) then Some TypeError
                    else if Qltb (qval p) 0 then Some ValueError else None).
Proof. reflexivity. Qed.

Lemma create_spec : forall r g b,
  match create r g b with
  | inl s0 => s0 = mkRgb (r, g, b) (0, 0, 0)%Z false /\
              Forall (fun p => is_intlike p = true /\ 0 <= qval p) [r; g; b]
  | inr _ => exists p, In p [r; g; b] /\ (is_intlike p = false \/ qval p < 0)
  end.
Proof.
  intros r g b. unfold create.
  assert (V : forall p, match validate_pin p with
                        | None => is_intlike p = true /\ 0 <= qval p
                        | Some _ => is_intlike p = false \/ qval p < 0 end).
  { intro p. unfold validate_pin. destruct (is_intlike p); cbn [negb]; [|auto].
    destruct (Qltb (qval p) 0) eqn:E.
    - apply Qltb_true in E. auto.
    - apply Qltb_false in E. auto. }
  pose proof (V r) as Vr. pose proof (V g) as Vg. pose proof (V b) as Vb.
  destruct (validate_pin r); cbn [first_error].
  { exists r. split; [left; reflexivity|exact Vr]. }
  destruct (validate_pin g).
  { exists g. split; [right; left; reflexivity|exact Vg]. }
  destruct (validate_pin b).
  { exists b. split; [right; right; left; reflexivity|exact Vb]. }
  split; [reflexivity|]. repeat constructor; tauto.
Qed.

(* ------------------------------------------------------------------ *)
(* final forms used by Props/C19_led.v                                 *)
(* ------------------------------------------------------------------ *)
Lemma zseq_last : forall k idx d, last (zseq idx (S k)) d = (idx + Z.of_nat k)%Z.
Proof.
  induction k as [|k IH]; intros idx d.
  - cbn. lia.
  - change (zseq idx (S (S k))) with (idx :: zseq (idx + 1) (S k)).
    change (last (idx :: zseq (idx + 1) (S k)) d) with (last (zseq (idx + 1) (S k)) d).
    rewrite IH. lia.
Qed.

Lemma last_map_zseq : forall (B : Type) (f : Z -> B) k idx (d : B),
  last (map f (zseq idx (S k))) d = f (idx + Z.of_nat k)%Z.
Proof.
  intros B f. induction k as [|k IH]; intros idx d.
  - cbn. f_equal. lia.
  - change (zseq idx (S (S k))) with (idx :: zseq (idx + 1) (S k)).
    change (map f (idx :: zseq (idx + 1) (S k))) with (f idx :: map f (zseq (idx + 1) (S k))).
    assert (Hne : exists a l, map f (zseq (idx + 1) (S k)) = a :: l) by (cbn; eauto).
    destruct Hne as (a & l & Hne). rewrite Hne. change (last (f idx :: a :: l) d) with (last (a :: l) d).
    rewrite <- Hne. rewrite IH. f_equal. lia.
Qed.

Lemma rgb_failed_call_atomic_run : forall r g b s0 ops o s' e k,
  create r g b = inl s0 -> step (run s0 ops) o = (s', e, Raised k) ->
  s' = run s0 ops /\ e = [].
Proof.
  intros r g b s0 ops o s' e k Hc H.
  exact (failed_call_atomic _ _ _ _ _ (inv_reachable _ _ _ _ ops Hc) H).
Qed.

Lemma rgb_inv_reachable_final : forall r g b s0 ops,
  create r g b = inl s0 -> Inv_rgb (run s0 ops) /\ pins (run s0 ops) = (r, g, b).
Proof.
  intros r g b s0 ops Hc. split; [exact (inv_reachable _ _ _ _ ops Hc)|].
  assert (Hp : pins s0 = (r, g, b)).
  { unfold create in Hc. destruct (first_error _ _ _); [discriminate|]. injection Hc as <-. reflexivity. }
  pose proof (create_inv _ _ _ _ Hc) as Hinv. clear Hc. rewrite <- Hp. clear Hp.
  revert s0 Hinv. induction ops as [|o ops IH]; intros s0 Hinv; [reflexivity|].
  cbn [run fold_left]. fold (run (st (step s0 o)) ops).
  rewrite IH by (apply step_inv; exact Hinv). apply step_pins. exact Hinv.
Qed.

Lemma rgb_blink_final : forall s r g b t d s' e x,
  Inv_rgb s -> step s (Blink r g b t d) = (s', e, Ok x) ->
  qsum (sleeps e) == 2 * qval t * qval d /\
  sleeps e = repeat (qval d) (2 * Z.to_nat (zval t)) /\
  levels e = concat (repeat [l3 (target_of r g b); [0; 0; 0]%Z] (Z.to_nat (zval t))) ++ [l3 (color s)] /\
  s' = s.
Proof.
  intros s r g b t d s' e x Hinv H.
  destruct (blink_spec _ _ _ _ _ _ _ _ _ H) as (H1 & H2 & H3 & H4 & _).
  rewrite (painted_self _ Hinv) in H1. auto.
Qed.

Lemma blink_sleep_final :
  (forall s d t s' e r,
     Led.step s (Led.Blink d t) = (s', e, Ok r) ->
     qsum (sleeps e) == 2 * qval t * qval d /\
     sleeps e = repeat (qval d) (2 * Z.to_nat (zval t)) /\
     chan 0 (levels e) = concat (repeat [255%Z; 0%Z] (Z.to_nat (zval t))) /\
     s' = mkLed (pin s) false 0) /\
  (forall s r g b t d s' e x,
     Inv_rgb s -> step s (Blink r g b t d) = (s', e, Ok x) ->
     qsum (sleeps e) == 2 * qval t * qval d /\
     sleeps e = repeat (qval d) (2 * Z.to_nat (zval t)) /\
     levels e = concat (repeat [l3 (target_of r g b); [0; 0; 0]%Z] (Z.to_nat (zval t))) ++ [l3 (color s)] /\
     s' = s).
Proof. split; [exact led_blink_final | exact rgb_blink_final]. Qed.

Lemma fade_final : forall s r g b d n s' e x,
  Inv_rgb s -> step s (Fade r g b d n) = (s', e, Ok x) ->
  let target := target_of r g b in
  let lv := levels e in
  color s' = target /\ pins s' = pins s /\
  last lv [] = l3 target /\
  length lv = (if fade_shortcut s r g b d then 1%nat else Z.to_nat (zval n)) /\
  (forall c, (c < 3)%nat -> toward (ch c (color s)) (ch c target) (chan c lv)) /\
  qsum (sleeps e) <= qval d /\
  (fade_shortcut s r g b d = false ->
     lv = map (fun i => l3 (interp3 (qval n) (color s) target i)) (zseq 1 (Z.to_nat (zval n))) /\
     sleeps e = repeat (qval d / qval n) (Z.to_nat (zval n) - 1)).
Proof.
  intros s r g b d n s' e x Hinv H.
  destruct (fade_spec _ _ _ _ _ _ _ _ _ Hinv H) as (Hs & Hok & Hd & Hn & Hsc & Hlong).
  cbv zeta in *. subst s'. cbn [color pins painted].
  split; [reflexivity|]. split; [reflexivity|].
  destruct (fade_shortcut s r g b d) eqn:E.
  - destruct (Hsc eq_refl) as [Hl Hsl]. rewrite Hl, Hsl.
    split; [reflexivity|]. split; [reflexivity|]. split.
    { intros c Hc. unfold chan. cbn [map]. apply toward_single. }
    split; [cbn [qsum]; exact Hd|]. discriminate.
  - destruct (Hlong eq_refl) as (Hnz & Hq & Hl & Hsl). rewrite Hl, Hsl.
    destruct (Z.to_nat (zval n)) as [|k] eqn:Ek; [lia|].
    split.
    { rewrite last_map_zseq.
      replace (1 + Z.of_nat k)%Z with (zval n) by lia. rewrite Hq.
      rewrite (interp3_end (zval n) Hnz). reflexivity. }
    split; [rewrite map_length, zseq_length; reflexivity|].
    split.
    { intros c Hc. rewrite Hq. rewrite chan_levels.
      rewrite (map_ext _ (interp (inject_Z (zval n)) (ch c (color s)) (ch c (target_of r g b))))
        by (intro i; apply ch_interp3; exact Hc).
      rewrite <- Ek. apply toward_interp. exact Hnz. }
    split.
    { rewrite Hq. rewrite <- Ek. apply fade_sleep_bound; assumption. }
    intros _. split; reflexivity.
Qed.
