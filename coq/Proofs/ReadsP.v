(* the reference evaluation of an expression only depends on the names [reads_ok] checks *)
From Coq Require Import ZArith QArith List Bool.
From RV Require Import Base.Wire Base.Text Lang.PyAst Lang.PySem Lang.Reads Proofs.InferP.
Import ListNotations.

Lemma lookup_mask ok rho x : ok x = true -> lookup x (mask ok rho) = lookup x rho.
Proof.
  intro Hx. unfold lookup, mask. induction rho as [|[k v] r IH]; cbn [filter tlookup fst]; [reflexivity|].
  destruct (ok k) eqn:Ek; cbn [tlookup].
  - rewrite IH. reflexivity.
  - rewrite IH. destruct (text_eqb x k) eqn:E; [|reflexivity].
    apply text_eqb_eq in E. subst. rewrite Hx in Ek. discriminate.
Qed.

Lemma lookup_mask_some ok rho x v : lookup x (mask ok rho) = Some v -> ok x = true /\ lookup x rho = Some v.
Proof.
  intro H. destruct (ok x) eqn:E.
  - split; [reflexivity|]. rewrite <- (lookup_mask ok rho x E). exact H.
  - exfalso. unfold lookup, mask in H. induction rho as [|[k w] r IH]; cbn [filter tlookup fst] in H; [discriminate|].
    destruct (ok k) eqn:Ek.
    + cbn [tlookup] in H. destruct (text_eqb x k) eqn:Exk; [|exact (IH H)].
      apply text_eqb_eq in Exk. subst. rewrite E in Ek. discriminate.
    + exact (IH H).
Qed.

Section Frame.
  Variable ok : ident -> bool.
  Variables rho rho' : env.
  Hypothesis Hagree : forall x, ok x = true -> lookup x rho = lookup x rho'.

  Definition frame_at (e : pexpr) : Prop := reads_ok ok e = true -> peval rho e = peval rho' e.

  Lemma evals_frame l : Forall frame_at l -> forallb (reads_ok ok) l = true ->
    evals_f (peval rho) l = evals_f (peval rho') l.
  Proof.
    induction 1 as [|a l Ha Hl IH]; intro Hr; cbn [evals_f]; [reflexivity|].
    cbn [forallb] in Hr. apply andb_true_iff in Hr as [H1 H2]. rewrite (Ha H1), (IH H2). reflexivity.
  Qed.
  Lemma evand_frame l : Forall frame_at l -> forallb (reads_ok ok) l = true -> forall last,
    evand_f (peval rho) l last = evand_f (peval rho') l last.
  Proof.
    induction 1 as [|a l Ha Hl IH]; intros Hr last; cbn [evand_f]; [reflexivity|].
    cbn [forallb] in Hr. apply andb_true_iff in Hr as [H1 H2]. rewrite (Ha H1).
    destruct (peval rho' a) as [v|]; cbn [bind]; [|reflexivity]. destruct (truthy v); [apply IH; exact H2 | reflexivity].
  Qed.
  Lemma evor_frame l : Forall frame_at l -> forallb (reads_ok ok) l = true -> forall last,
    evor_f (peval rho) l last = evor_f (peval rho') l last.
  Proof.
    induction 1 as [|a l Ha Hl IH]; intros Hr last; cbn [evor_f]; [reflexivity|].
    cbn [forallb] in Hr. apply andb_true_iff in Hr as [H1 H2]. rewrite (Ha H1).
    destruct (peval rho' a) as [v|]; cbn [bind]; [|reflexivity]. destruct (truthy v); [reflexivity | apply IH; exact H2].
  Qed.
  Lemma chain_frame rs : Forall frame_at rs -> forallb (reads_ok ok) rs = true -> forall lv ops,
    chain_f (peval rho) lv ops rs = chain_f (peval rho') lv ops rs.
  Proof.
    induction 1 as [|a l Ha Hl IH]; intros Hr lv ops; cbn [chain_f]; [destruct ops; reflexivity|].
    cbn [forallb] in Hr. apply andb_true_iff in Hr as [H1 H2]. destruct ops as [|o ops]; [reflexivity|]. cbn [chain_f].
    rewrite (Ha H1). destruct (peval rho' a) as [rv|]; cbn [bind]; [|reflexivity].
    destruct (py_cmp o lv rv) as [c|]; cbn [bind]; [|reflexivity]. destruct c; [apply IH; exact H2 | reflexivity].
  Qed.

  Theorem peval_frame e : frame_at e.
  Proof.
    induction e using pexpr_ind'; unfold frame_at; intro Hr; try reflexivity; try discriminate Hr.
    - (* EName *) cbn [reads_ok] in Hr. cbn [peval]. rewrite (Hagree x Hr). reflexivity.
    - (* EBin *) cbn [reads_ok] in Hr. apply andb_true_iff in Hr as [H1 H2]. cbn [peval]. rewrite (IHe1 H1), (IHe2 H2). reflexivity.
    - (* EUn *) cbn [reads_ok] in Hr. cbn [peval]. rewrite (IHe Hr). reflexivity.
    - (* EBoolOp *) cbn [reads_ok] in Hr. destruct op.
      + rewrite !peval_and. apply evand_frame; assumption.
      + rewrite !peval_or. apply evor_frame; assumption.
    - (* ECompare *) cbn [reads_ok] in Hr. apply andb_true_iff in Hr as [H1 H2]. rewrite !peval_compare.
      destruct ops; [reflexivity|]. rewrite (IHe H1). destruct (peval rho' e) as [lv|]; cbn [bind]; [|reflexivity].
      apply chain_frame; assumption.
    - (* EIfExp *) cbn [reads_ok] in Hr. apply andb_true_iff in Hr as [Hr H3]. apply andb_true_iff in Hr as [H1 H2].
      cbn [peval]. rewrite (IHe1 H1). destruct (peval rho' e1) as [cv|]; cbn [bind]; [|reflexivity].
      destruct (truthy cv); [apply IHe2; exact H2 | apply IHe3; exact H3].
    - (* ECall *) destruct kws as [|kw kws]; [|reflexivity].
      cbn [reads_ok] in Hr. apply andb_true_iff in Hr as [H1 H2]. rewrite !peval_call, (Hagree f H1).
      destruct (lookup f rho'); [reflexivity|]. rewrite (evals_frame args H H2). reflexivity.
    - (* EList *) cbn [reads_ok] in Hr. rewrite !peval_list, (evals_frame es H Hr). reflexivity.
    - (* ESubscript *) cbn [reads_ok] in Hr. apply andb_true_iff in Hr as [H1 H2]. cbn [peval]. rewrite (IHe1 H1), (IHe2 H2). reflexivity.
  Qed.
End Frame.

(* masking the names that fail [ok] does not change what an expression that reads only ok names evaluates to *)
Corollary peval_mask ok rho e : reads_ok ok e = true -> peval (mask ok rho) e = peval rho e.
Proof. intro Hr. apply (peval_frame ok (mask ok rho) rho); [intros x Hx; apply lookup_mask; exact Hx | exact Hr]. Qed.
