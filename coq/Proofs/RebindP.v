(* Proofs about Device/DRebind.v (C15: a sensor name bound more than once). *)
From Coq Require Import List Bool Arith ZArith Lia.
From RV Require Import Device.DButton Device.DRebind Proofs.InputsP.
Import ListNotations.

Section RebindP.
  Variable D : Type.
  Variable deqb : D -> D -> bool.
  Hypothesis deqb_spec : forall a b, deqb a b = true <-> a = b.

  Notation item := (item D).
  Notation mode := (mode D).

  Lemma walk_cur (m : mode) (l : list item) : forall cur fs, w_cur (walk m cur fs l) = after l cur.
  Proof.
    induction l as [|it r IH]; intros cur fs; [reflexivity|].
    destruct it as [d| |f|f]; cbn [walk after fold_left].
    - apply IH.
    - specialize (IH cur fs). destruct (walk m cur fs r) as [[c e] o]. exact IH.
    - apply IH.
    - specialize (IH cur fs). destruct (walk m cur fs r) as [[c e] o]. exact IH.
  Qed.

  (* a piece of text either ends with one fixed binding or leaves the binding as it found it *)
  Lemma after_shape (l : list item) : (exists d, forall c, after l c = Some d) \/ (forall c, after l c = c).
  Proof.
    induction l as [|it r IH]; [right; reflexivity|].
    destruct IH as [[d Hd]|Hid].
    - left. exists d. intros c. cbn [after fold_left]. apply Hd.
    - destruct it as [d| |f|f].
      + left. exists d. intros c. cbn [after fold_left]. apply Hid.
      + right. intros c. cbn [after fold_left]. apply Hid.
      + right. intros c. cbn [after fold_left]. apply Hid.
      + right. intros c. cbn [after fold_left]. apply Hid.
  Qed.

  Lemma after_idem (l : list item) c : after l (after l c) = after l c.
  Proof.
    destruct (after_shape l) as [[d Hd]|Hid].
    - rewrite (Hd c). apply Hd.
    - rewrite !Hid. reflexivity.
  Qed.

  Lemma dyn_passes_fix n : forall c fs (l : list item),
    after l c = c -> dyn_passes n c fs l = repeat (w_out (walk dynM c fs l)) n.
  Proof.
    induction n as [|n IH]; intros c fs l H; [reflexivity|].
    cbn [dyn_passes repeat]. rewrite H. rewrite (IH c fs l H). reflexivity.
  Qed.

  (* pass 1 is every later pass *)
  Lemma dyn_passes_S n c fs (l : list item) :
    dyn_passes (S n) c fs l = w_out (walk dynM c fs l) :: repeat (w_out (walk dynM (after l c) fs l)) n.
  Proof.
    cbn [dyn_passes]. f_equal. apply dyn_passes_fix. apply after_idem.
  Qed.

  Lemma oeqb_spec a b : oeqb deqb a b = true <-> a = b.
  Proof.
    destruct a as [x|], b as [y|]; cbn [oeqb].
    - rewrite deqb_spec. split; [intros ->; reflexivity|intros H; inversion H; reflexivity].
    - split; discriminate.
    - split; discriminate.
    - split; reflexivity.
  Qed.

  Lemma leqb_spec a : forall b, leqb deqb a b = true <-> a = b.
  Proof.
    induction a as [|x r IH]; intros [|y s]; cbn [leqb].
    - split; reflexivity.
    - split; discriminate.
    - split; discriminate.
    - rewrite andb_true_iff, oeqb_spec, IH. split.
      + intros [-> ->]. reflexivity.
      + intros H. inversion H. split; reflexivity.
  Qed.

  (* a transpile-time discipline runs the same resolved loop text in every pass; it is Python's for every number of passes
     exactly when it is for the part before the loop, pass 0 and pass 1 *)
  Lemma rep_exact (s L : list (option D)) (t : btext D) :
    (forall n, (s, repeat L n) = run_dyn n t) <->
    (s = fst (run_dyn 2 t) /\ [L; L] = snd (run_dyn 2 t)).
  Proof.
    split.
    - intros H. specialize (H 2%nat). cbn [repeat] in H. rewrite <- H. split; reflexivity.
    - intros [Hs HL] n. unfold run_dyn in *. cbn [fst snd] in *.
      rewrite Hs. f_equal.
      rewrite (dyn_passes_S 1) in HL. cbn [repeat] in HL.
      inversion HL as [[H0 H1]].
      destruct n as [|n]; [reflexivity|].
      rewrite dyn_passes_S. cbn [repeat]. rewrite <- H1. rewrite <- H0 at 2. rewrite <- H0. reflexivity.
  Qed.

  Lemma agree2_rep (r : nat -> btext D -> list (option D) * list (list (option D))) (s L : btext D -> list (option D)) t :
    (forall n, r n t = (s t, repeat (L t) n)) ->
    ((forall n, r n t = run_dyn n t) <-> agree2 deqb r t = true).
  Proof.
    intros Hr. unfold agree2. rewrite (Hr 2%nat). cbn [fst snd repeat].
    assert (Hd : exists b0 b1, snd (run_dyn 2 t) = [b0; b1]).
    { unfold run_dyn. cbn [snd dyn_passes]. eauto. }
    destruct Hd as (b0 & b1 & Hd). rewrite Hd.
    rewrite !andb_true_iff, !leqb_spec.
    split.
    - intros H. assert (H2 : forall n, (s t, repeat (L t) n) = run_dyn n t) by (intros n; rewrite <- Hr; apply H).
      apply rep_exact in H2. destruct H2 as [Hs HL]. rewrite Hd in HL. inversion HL. repeat split; assumption.
    - intros (Hs & H0 & H1) n. rewrite Hr. apply rep_exact. rewrite Hd. split; [exact Hs|]. rewrite <- H0, <- H1. reflexivity.
  Qed.

  Lemma lex_exact t : (forall n, run_lex n t = run_dyn n t) <-> lex_ok deqb t = true.
  Proof.
    unfold lex_ok.
    apply (agree2_rep (@run_lex D)
             (fun t => w_out (walk lexM None [] (t_setup t)))
             (fun t => w_out (walk lexM (w_cur (walk lexM None [] (t_setup t))) (w_fs (walk lexM None [] (t_setup t))) (t_loop t)))).
    intros n. reflexivity.
  Qed.

  Lemma last_exact t : (forall n, run_last n t = run_dyn n t) <-> last_ok deqb t = true.
  Proof.
    unfold last_ok.
    apply (agree2_rep (@run_last D)
             (fun t => w_out (walk (lastM (last_decl t)) None [] (t_setup t)))
             (fun t => w_out (walk (lastM (last_decl t)) (w_cur (walk (lastM (last_decl t)) None [] (t_setup t)))
                                   (w_fs (walk (lastM (last_decl t)) None [] (t_setup t))) (t_loop t)))).
    intros n. reflexivity.
  Qed.

  Lemma last_loop_exact t : (forall n, snd (run_last n t) = snd (run_dyn n t)) <-> last_ok_loop deqb t = true.
  Proof.
    unfold last_ok_loop.
    set (L := w_out (walk (lastM (last_decl t)) (w_cur (walk (lastM (last_decl t)) None [] (t_setup t)))
                          (w_fs (walk (lastM (last_decl t)) None [] (t_setup t))) (t_loop t))).
    assert (Hr : forall n, snd (run_last n t) = repeat L n) by (intros n; reflexivity).
    rewrite (Hr 2%nat). cbn [repeat].
    unfold run_dyn. cbn [snd].
    set (s := walk dynM None [] (t_setup t)).
    rewrite (dyn_passes_S 1). cbn [repeat].
    rewrite !andb_true_iff, !leqb_spec.
    split.
    - intros H. specialize (H 2%nat). rewrite Hr in H. cbn [repeat snd] in H. rewrite (dyn_passes_S 1) in H. cbn [repeat] in H.
      injection H as H0 H1. split; [exact H0|exact H1].
    - intros [H0 H1] n. rewrite Hr. cbn [snd]. destruct n as [|n]; [reflexivity|].
      rewrite dyn_passes_S. cbn [repeat]. rewrite <- H0. rewrite <- H1. reflexivity.
  Qed.

  (* ---- the syntactic class: all declarations above everything else, in both parts *)
  Lemma walk_decls (m : mode) (ds : list D) : forall cur fs rest,
    walk m cur fs (map IDecl ds ++ rest) = walk m (after (map IDecl ds) cur) fs rest.
  Proof.
    induction ds as [|d r IH]; intros cur fs rest; [reflexivity|].
    cbn [map app walk after fold_left]. apply IH.
  Qed.

  Definition captured_all (c : option D) (fs : fenv D) : Prop := forall f b, flook f fs = Some b -> b = c.

  (* below the declarations nothing re-binds the name: a function's recorded binding is the current one *)
  Lemma walk_nodecl_same (rest : list item) : forall c fs,
    forallb (fun it => negb (is_decl it)) rest = true ->
    captured_all c fs ->
    w_out (walk lexM c fs rest) = w_out (walk dynM c fs rest) /\
    w_cur (walk lexM c fs rest) = c /\
    w_fs (walk lexM c fs rest) = w_fs (walk dynM c fs rest) /\
    captured_all c (w_fs (walk lexM c fs rest)).
  Proof.
    induction rest as [|it r IH]; intros c fs Hn Hc; [cbn; repeat split; assumption|].
    cbn [forallb] in Hn. apply andb_true_iff in Hn. destruct Hn as [Hi Hn].
    destruct it as [d| |f|f]; cbn [is_decl negb] in Hi; [discriminate| | |].
    - cbn [walk]. destruct (IH c fs Hn Hc) as (Ho & Hcur & Hfs & Hcap).
      destruct (walk lexM c fs r) as [[c1 e1] o1]. destruct (walk dynM c fs r) as [[c2 e2] o2].
      unfold w_out, w_cur, w_fs in *. cbn [fst snd] in *. subst. repeat split; try reflexivity. exact Hcap.
    - cbn [walk]. apply IH; [exact Hn|].
      intros g b. cbn [flook]. destruct (Nat.eqb g f); [intros H; inversion H; reflexivity|apply Hc].
    - cbn [walk]. destruct (IH c fs Hn Hc) as (Ho & Hcur & Hfs & Hcap).
      destruct (walk lexM c fs r) as [[c1 e1] o1]. destruct (walk dynM c fs r) as [[c2 e2] o2].
      unfold w_out, w_cur, w_fs in *. cbn [fst snd] in *. subst. repeat split; try reflexivity; [|exact Hcap].
      f_equal. cbn [lexM dynM m_call]. destruct (flook f fs) as [b|] eqn:E; [|reflexivity]. apply (Hc f b E).
  Qed.

  Lemma captured_nil c : captured_all c [].
  Proof. intros f b H. discriminate. Qed.

  (* no function at all: calls of functions resolve to nothing under either discipline *)
  Lemma walk_nodef_same (rest : list item) : forall c,
    forallb (fun it => negb (is_decl it)) rest = true -> no_def rest = true ->
    w_out (walk lexM c [] rest) = w_out (walk dynM c [] rest) /\ w_fs (walk lexM c [] rest) = [] /\ w_fs (walk dynM c [] rest) = [].
  Proof.
    induction rest as [|it r IH]; intros c Hn Hd; [cbn; repeat split|].
    cbn [forallb no_def] in Hn, Hd. apply andb_true_iff in Hn. destruct Hn as [Hi Hn].
    unfold no_def in IH. apply andb_true_iff in Hd. destruct Hd as [Hd1 Hd].
    destruct it as [d| |f|f]; cbn [is_decl negb] in Hi; try discriminate.
    - cbn [walk]. destruct (IH c Hn Hd) as (Ho & H1 & H2).
      destruct (walk lexM c [] r) as [[c1 e1] o1]. destruct (walk dynM c [] r) as [[c2 e2] o2].
      unfold w_out, w_fs in *. cbn [fst snd] in *. subst. repeat split.
    - cbn [walk]. destruct (IH c Hn Hd) as (Ho & H1 & H2).
      destruct (walk lexM c [] r) as [[c1 e1] o1]. destruct (walk dynM c [] r) as [[c2 e2] o2].
      unfold w_out, w_fs in *. cbn [fst snd] in *. subst. repeat split.
  Qed.

  Lemma after_nodecl (rest : list item) : forall c, forallb (fun it => negb (is_decl it)) rest = true -> after rest c = c.
  Proof.
    induction rest as [|it r IH]; intros c Hn; [reflexivity|].
    cbn [forallb] in Hn. apply andb_true_iff in Hn. destruct Hn as [Hi Hn].
    destruct it; cbn [is_decl negb] in Hi; try discriminate; cbn [after fold_left]; apply IH; exact Hn.
  Qed.

  Lemma after_app (a b : list item) c : after (a ++ b) c = after b (after a c).
  Proof. unfold after. apply fold_left_app. Qed.

  (* re-declared before the loop, at the loop top, or both - every declaration above every call: the lexical discipline is Python's
     (with functions when the loop top does not re-declare; without functions when it does) *)
  Lemma lex_decls_first (t : btext D) :
    decls_first (t_setup t) -> decls_first (t_loop t) ->
    (forallb (fun it => negb (is_decl it)) (t_loop t) = true \/ (no_def (t_setup t) = true /\ no_def (t_loop t) = true)) ->
    forall n, run_lex n t = run_dyn n t.
  Proof.
    intros (ds & rest & Hs & Hrs) (dl & restl & Hl & Hrl) Hcase n.
    assert (Hsetup : w_out (walk lexM None [] (t_setup t)) = w_out (walk dynM None [] (t_setup t)) /\
                     w_cur (walk lexM None [] (t_setup t)) = after (t_setup t) None /\
                     w_fs (walk lexM None [] (t_setup t)) = w_fs (walk dynM None [] (t_setup t)) /\
                     captured_all (after (t_setup t) None) (w_fs (walk lexM None [] (t_setup t)))).
    { rewrite Hs, !walk_decls, after_app, (after_nodecl rest _ Hrs).
      destruct (walk_nodecl_same rest (after (map IDecl ds) None) [] Hrs (captured_nil _)) as (A & B & C & E).
      repeat split; assumption. }
    destruct Hsetup as (Ho & Hc & Hf & Hcap).
    unfold run_lex, run_dyn. rewrite Ho. f_equal.
    rewrite Hc, <- (walk_cur dynM (t_setup t) None []), Hf.
    set (c0 := w_cur (walk dynM None [] (t_setup t))).
    set (fs := w_fs (walk dynM None [] (t_setup t))).
    assert (Hc0 : c0 = after (t_setup t) None) by apply walk_cur.
    destruct n as [|n]; [reflexivity|].
    rewrite dyn_passes_S. cbn [repeat].
    destruct Hcase as [Hnl|[Hnd Hndl]].
    - (* the loop part declares nothing: the binding never changes *)
      rewrite (after_nodecl _ c0 Hnl).
      assert (Hcapd : captured_all c0 fs) by (unfold fs; rewrite <- Hf, Hc0; exact Hcap).
      destruct (walk_nodecl_same (t_loop t) c0 fs Hnl Hcapd) as (A & _).
      rewrite A. reflexivity.
    - (* no function anywhere *)
      assert (Hfs : fs = []).
      { unfold fs. rewrite Hs, walk_decls.
        assert (Hr : no_def rest = true).
        { unfold no_def in *. rewrite Hs, forallb_app in Hnd. apply andb_true_iff in Hnd. apply Hnd. }
        apply (walk_nodef_same rest _ Hrs Hr). }
      rewrite Hfs, Hl, !walk_decls, after_app, (after_nodecl restl _ Hrl).
      assert (Hr : no_def restl = true).
      { unfold no_def in *. rewrite Hl, forallb_app in Hndl. apply andb_true_iff in Hndl. apply Hndl. }
      destruct (walk_nodef_same restl (after (map IDecl dl) c0) Hrl Hr) as (A & _).
      destruct (walk_nodef_same restl (after (map IDecl dl) (after (map IDecl dl) c0)) Hrl Hr) as (B & _).
      rewrite after_idem in B. rewrite after_idem. rewrite A. reflexivity.
  Qed.
End RebindP.

(* ---------------------------------------------------------------- Button *)
Lemma rb_samples_fst first last input calls :
  map fst (rb_samples first last input calls) =
  map (fun k => input (bl_pin last) (rb_index first last k)) (seq 0 (length calls)).
Proof. unfold rb_samples. rewrite map_map. reflexivity. Qed.

(* the one sample of every pass is taken on the pin of the LAST declaration *)
Lemma rb_reads d0 ds input calls :
  map reads (rb_run d0 ds input calls) = map (fun x => [x]) (rb_signal d0 ds input (length calls)).
Proof.
  unfold rb_run, rb_signal. rewrite one_sample_per_pass. unfold rb_samples. rewrite !map_map. reflexivity.
Qed.

Lemma rb_body_values d0 ds input calls :
  map body_values (rb_run d0 ds input calls) =
  map (fun k => repeat (input (bl_pin (last ds d0)) (rb_index d0 (last ds d0) k)) (nth k calls O)) (seq 0 (length calls)).
Proof.
  unfold rb_run. rewrite sample_stable. unfold rb_samples. rewrite map_map. reflexivity.
Qed.

(* the edge detector starts from the level the FIRST declaration's pin had in setup() *)
Lemma rb_clicks d0 ds input calls n :
  bl_h (last ds d0) = Some n ->
  map clicks (rb_run d0 ds input calls) =
  map b2n (edges (input (bl_pin d0) O) (rb_signal d0 ds input (length calls))).
Proof.
  intros Hh. unfold rb_run, rb_signal. rewrite Hh, clicks_dev, rb_samples_fst. reflexivity.
Qed.

Lemma seq_shift_map {A} (f : nat -> A) n : map f (seq 1 n) = map (fun k => f (S k)) (seq 0 n).
Proof. rewrite <- seq_shift, map_map. reflexivity. Qed.

(* all declarations on one pin: the rising edges of that pin's own sampled signal, start-up sample first *)
Lemma rb_clicks_same_pin d0 ds input calls n :
  bl_h (last ds d0) = Some n -> bl_pin d0 = bl_pin (last ds d0) ->
  map clicks (rb_run d0 ds input calls) =
  map b2n (edges (input (bl_pin d0) O) (map (fun k => input (bl_pin d0) (S k)) (seq 0 (length calls)))).
Proof.
  intros Hh Hp. rewrite (rb_clicks _ _ _ _ n Hh). unfold rb_signal, rb_index. rewrite <- Hp, Z.eqb_refl. reflexivity.
Qed.

(* another pin, inside the guard: no click in pass 0, then the rising edges of the polled pin's own signal *)
Lemma rb_clicks_guarded d0 ds input calls n :
  bl_h (last ds d0) = Some n ->
  (input (bl_pin d0) O = true \/ hd false (rb_signal d0 ds input (length calls)) = false) ->
  map clicks (rb_run d0 ds input calls) =
  match rb_signal d0 ds input (length calls) with
  | [] => []
  | x :: r => O :: map b2n (edges x r)
  end.
Proof.
  intros Hh Hg. rewrite (rb_clicks _ _ _ _ n Hh).
  destruct (rb_signal d0 ds input (length calls)) as [|x r]; [reflexivity|].
  cbn [edges map hd] in *. f_equal.
  destruct Hg as [H|H]; rewrite H; [rewrite andb_false_r|]; reflexivity.
Qed.
