(* Proofs about Lang/Regex.v: a flat regular expression (every unbounded repeat over one character set) has
   polynomially many backtracking paths on every text; the nested-quantifier shape has exponentially many. *)
From Coq Require Import ZArith List Bool Arith Lia.
From RV Require Import Base.Wire Lang.Regex.
Import ListNotations.

(* ------------------------------------------------------------------ generalities *)
Lemma flat_map_length_le : forall {A B} (f : A -> list B) (l : list A) (k : nat),
  (forall x, In x l -> (length (f x) <= k)%nat) -> (length (flat_map f l) <= length l * k)%nat.
Proof.
  intros A B f l k. induction l as [|a l IH]; intros H; simpl.
  - lia.
  - rewrite app_length. assert (Ha : (length (f a) <= k)%nat) by (apply H; left; reflexivity).
    assert (Hl : (length (flat_map f l) <= length l * k)%nat) by (apply IH; intros x Hx; apply H; right; exact Hx).
    lia.
Qed.

Lemma star_ends_shorter : forall step f w w', In w' (star_ends step f w) -> (length w' <= length w)%nat.
Proof.
  intros step f. induction f as [|f IH]; intros w w' H; simpl in H.
  - destruct H as [H|[]]. subst. lia.
  - destruct H as [H|H]; [subst; lia|].
    apply in_flat_map in H. destruct H as [u [_ Hu]].
    destruct (length u <? length w)%nat eqn:E; [|destruct Hu].
    apply Nat.ltb_lt in E. apply IH in Hu. lia.
Qed.

Lemma ends_shorter : forall r w w', In w' (ends r w) -> (length w' <= length w)%nat.
Proof.
  induction r as [|s|a IHa b IHb|a IHa b IHb|a IHa]; intros w w' H; simpl in H.
  - destruct H as [H|[]]; subst; lia.
  - destruct w as [|x w]; [destruct H|]. destruct (cmem s x); [|destruct H].
    destruct H as [H|[]]; subst; simpl; lia.
  - apply in_flat_map in H. destruct H as [u [Hu Hw]]. apply IHa in Hu. apply IHb in Hw. lia.
  - apply in_app_or in H. destruct H as [H|H]; [apply IHa in H|apply IHb in H]; lia.
  - eapply star_ends_shorter; exact H.
Qed.

Lemma width_pos : forall r n, (1 <= width r n)%nat.
Proof.
  induction r as [|s|a IHa b IHb|a IHa b IHb|a IHa]; intros n; simpl; try lia.
  - specialize (IHa n). specialize (IHb n). nia.
  - specialize (IHa n). lia.
Qed.

Lemma width_mono : forall r n m, (n <= m)%nat -> (width r n <= width r m)%nat.
Proof.
  induction r as [|s|a IHa b IHb|a IHa b IHb|a IHa]; intros n m H; simpl; try lia.
  - apply Nat.mul_le_mono; auto.
  - apply Nat.add_le_mono; auto.
Qed.

(* a run over one character set: at most one end per position *)
Lemma star_set_length : forall s f w, (length (star_ends (ends (RSet s)) f w) <= S (length w))%nat.
Proof.
  intros s f. induction f as [|f IH]; intros w; simpl.
  - lia.
  - destruct w as [|x w']; simpl; [lia|].
    destruct (cmem s x); simpl; [|lia].
    rewrite app_nil_r.
    destruct (length w' <? S (length w'))%nat eqn:E.
    + specialize (IH w'). simpl in IH. lia.
    + simpl. lia.
Qed.

(* ------------------------------------------------------------------ flat => polynomial *)
Lemma flat_paths_bounded : forall r w, flat r = true -> (paths r w <= width r (length w))%nat.
Proof.
  unfold paths.
  induction r as [|s|a IHa b IHb|a IHa b IHb|a IHa]; intros w F; simpl in F |- *.
  - lia.
  - destruct w as [|x w]; simpl; [lia|]. destruct (cmem s x); simpl; lia.
  - apply andb_prop in F. destruct F as [Fa Fb].
    assert (H1 : (length (flat_map (ends b) (ends a w)) <= length (ends a w) * width b (length w))%nat).
    { apply flat_map_length_le. intros u Hu. apply ends_shorter in Hu.
      specialize (IHb u Fb). pose proof (width_mono b _ _ Hu). lia. }
    specialize (IHa w Fa). pose proof (width_pos b (length w)). nia.
  - apply andb_prop in F. destruct F as [Fa Fb]. rewrite app_length.
    specialize (IHa w Fa). specialize (IHb w Fb). lia.
  - destruct a as [|s|?|?|?]; try discriminate F. apply star_set_length.
Qed.

Lemma pow_ge_1 : forall x k, (1 <= x)%nat -> (1 <= x ^ k)%nat.
Proof. intros x k H. induction k; simpl; nia. Qed.

Lemma pow_mono_exp : forall x a b, (1 <= x)%nat -> (a <= b)%nat -> (x ^ a <= x ^ b)%nat.
Proof. intros x a b Hx Hab. apply Nat.pow_le_mono_r; lia. Qed.

(* ... and [width] is a polynomial: below (n + 2) ^ size *)
Lemma width_polynomial : forall r n, (width r n <= (n + 2) ^ rsize r)%nat.
Proof.
  induction r as [|s|a IHa b IHb|a IHa b IHb|a IHa]; intros n; simpl width; simpl rsize.
  - rewrite Nat.pow_1_r. lia.
  - rewrite Nat.pow_1_r. lia.
  - specialize (IHa n). specialize (IHb n).
    assert (H : (width a n * width b n <= (n + 2) ^ rsize a * (n + 2) ^ rsize b)%nat) by (apply Nat.mul_le_mono; assumption).
    rewrite <- Nat.pow_add_r in H. rewrite Nat.pow_succ_r'.
    pose proof (pow_ge_1 (n + 2) (rsize a + rsize b)). nia.
  - specialize (IHa n). specialize (IHb n). rewrite Nat.pow_succ_r'.
    assert (Ha : ((n + 2) ^ rsize a <= (n + 2) ^ (rsize a + rsize b))%nat) by (apply pow_mono_exp; lia).
    assert (Hb : ((n + 2) ^ rsize b <= (n + 2) ^ (rsize a + rsize b))%nat) by (apply pow_mono_exp; lia).
    nia.
  - rewrite Nat.pow_succ_r'. pose proof (pow_ge_1 (n + 2) (rsize a)). nia.
Qed.

Theorem flat_paths_polynomial : forall r w, flat r = true -> (paths r w <= (length w + 2) ^ rsize r)%nat.
Proof.
  intros r w F. pose proof (flat_paths_bounded r w F). pose proof (width_polynomial r (length w)). lia.
Qed.

Lemma flat_star_height : forall r, flat r = true -> (star_height r <= 1)%nat.
Proof.
  induction r as [|s|a IHa b IHb|a IHa b IHb|a IHa]; intros F; simpl in *; try lia.
  - apply andb_prop in F. destruct F as [Fa Fb]. specialize (IHa Fa). specialize (IHb Fb). lia.
  - apply andb_prop in F. destruct F as [Fa Fb]. specialize (IHa Fa). specialize (IHb Fb). lia.
  - destruct a; try discriminate F. simpl. lia.
Qed.

(* ------------------------------------------------------------------ the nested quantifier is exponential *)
Section Nested.
  Variables (S N : cset) (x : Z).
  Hypothesis xN : cmem N x = true.
  Hypothesis xS : cmem S x = false.

  Fixpoint down (n : nat) : list (list Z) :=
    match n with O => [] | Datatypes.S k => repeat x k :: down k end.

  Lemma run_star : forall f m, (m <= f)%nat -> star_ends (ends (RSet N)) f (repeat x m) = repeat x m :: down m.
  Proof.
    induction f as [|f IH]; intros m H.
    - assert (m = O) by lia. subst. reflexivity.
    - destruct m as [|m]; [reflexivity|].
      simpl. rewrite xN. simpl. rewrite app_nil_r.
      rewrite repeat_length. rewrite (proj2 (Nat.ltb_lt m (Datatypes.S m))) by lia.
      rewrite IH by lia. reflexivity.
  Qed.

  Lemma seps_skip : forall w0, w0 = [] \/ (exists w1, w0 = x :: w1) -> ends (RStar (RSet S)) w0 = [w0].
  Proof.
    intros w0 [H|[w1 H]]; subst; simpl.
    - reflexivity.
    - rewrite xS. reflexivity.
  Qed.

  Lemma segment_ends : forall n, ends (segment S N) (repeat x n) = down n.
  Proof.
    intros n. unfold segment, rplus.
    change (ends (RSeq (RStar (RSet S)) (RSeq (RSet N) (RStar (RSet N)))) (repeat x n))
      with (flat_map (ends (RSeq (RSet N) (RStar (RSet N)))) (ends (RStar (RSet S)) (repeat x n))).
    rewrite seps_skip by (destruct n; [left; reflexivity|right; eexists; reflexivity]).
    simpl flat_map. rewrite app_nil_r.
    destruct n as [|n]; [reflexivity|].
    simpl. rewrite xN. simpl. rewrite app_nil_r.
    rewrite repeat_length. rewrite run_star by lia. reflexivity.
  Qed.

  Lemma sum_down : forall (g : list Z -> list (list Z)) n,
    (forall k, (k < n)%nat -> (2 ^ k <= length (g (repeat x k)))%nat) ->
    (2 ^ n <= Datatypes.S (length (flat_map g (down n))))%nat.
  Proof.
    intros g. induction n as [|n IH]; intros H.
    - simpl. lia.
    - simpl down. simpl flat_map. rewrite app_length.
      assert (H1 : (2 ^ n <= length (g (repeat x n)))%nat) by (apply H; lia).
      assert (H2 : (2 ^ n <= Datatypes.S (length (flat_map g (down n))))%nat) by (apply IH; intros k Hk; apply H; lia).
      rewrite Nat.pow_succ_r'. lia.
  Qed.

  Lemma segments_star : forall f n, (n <= f)%nat ->
    (2 ^ n <= length (star_ends (ends (segment S N)) f (repeat x n)))%nat.
  Proof.
    induction f as [|f IH]; intros n H.
    - assert (n = O) by lia. subst. simpl. lia.
    - cbn [star_ends]. rewrite segment_ends. cbn [length].
      apply sum_down. intros k Hk.
      rewrite !repeat_length. rewrite (proj2 (Nat.ltb_lt k n)) by lia.
      apply IH. lia.
  Qed.

  (* (?:[S]*[N]+)* on a run of n name characters: at least 2^n backtracking paths *)
  Theorem segments_exponential : forall n, (2 ^ n <= paths (segments S N) (repeat x n))%nat.
  Proof.
    intros n. unfold paths, segments. cbn [ends]. rewrite repeat_length. apply segments_star. lia.
  Qed.

  (* the whole port fragment (?:[S]*[N]+)+[S]* : at least 2^(n-1) *)
  Theorem port_fragment_exponential : forall n, (2 ^ n <= paths (port_fragment S N) (repeat x (Datatypes.S n)))%nat.
  Proof.
    intros n. unfold paths, port_fragment, rplus.
    change (ends (RSeq (RSeq (segment S N) (RStar (segment S N))) (RStar (RSet S))) (repeat x (Datatypes.S n)))
      with (flat_map (ends (RStar (RSet S)))
              (flat_map (ends (RStar (segment S N))) (ends (segment S N) (repeat x (Datatypes.S n))))).
    rewrite segment_ends. cbn [down flat_map]. rewrite flat_map_app. rewrite !app_length.
    assert (H : (2 ^ n <= length (flat_map (ends (RStar (RSet S))) (ends (RStar (segment S N)) (repeat x n))))%nat).
    { pose proof (segments_exponential n) as E. unfold paths, segments in E.
      remember (ends (RStar (segment S N)) (repeat x n)) as l eqn:Hl.
      assert (Hall : forall u, In u l -> (1 <= length (ends (RStar (RSet S)) u))%nat).
      { intros u _. cbn [ends]. destruct (length u); simpl; lia. }
      clear Hl. revert E Hall. generalize (2 ^ n)%nat as k. induction l as [|u l IHl]; intros k E Hall.
      - simpl in *. lia.
      - cbn [flat_map]. rewrite app_length. cbn [length] in E.
        assert (H1 : (1 <= length (ends (RStar (RSet S)) u))%nat) by (apply Hall; left; reflexivity).
        destruct k as [|k]; [lia|].
        assert (H2 : (k <= length (flat_map (ends (RStar (RSet S))) l))%nat)
          by (apply IHl; [lia|intros v Hv; apply Hall; right; exact Hv]).
        lia. }
    lia.
  Qed.
End Nested.

(* the port fragment is not flat: star height 2 *)
Lemma port_fragment_height : forall S N, star_height (port_fragment S N) = 2%nat /\ flat (port_fragment S N) = false.
Proof. intros S N. split; reflexivity. Qed.

(* concrete classes: the separators and name characters of the target() port *)
Definition cs_sep : cset := mk_cset [(46, 47); (92, 92); (126, 126)]%Z false.
Definition cs_name : cset := mk_cset [(45, 45); (48, 58); (65, 90); (95, 95); (97, 122)]%Z false.
Definition cs_port : cset := mk_cset [(45, 58); (65, 90); (92, 92); (95, 95); (97, 122); (126, 126)]%Z false.

Lemma port_examples :
  paths (port_fragment cs_sep cs_name) (repeat 97%Z 12) = 4095%nat /\
  paths (rplus (RSet cs_port)) (repeat 97%Z 12) = 12%nat /\
  flat (rplus (RSet cs_port)) = true /\
  paths (rplus (rplus (RSet cs_name))) (repeat 97%Z 10) = 1023%nat.
Proof. vm_compute. repeat split. Qed.

(* F-C11-blank-run-cubic: three adjacent runs that all accept a blank -  \s* (.*?) \s*  between the parentheses of every
   declaration / method pattern - are flat, hence polynomial, but of degree 3: C(n + 3, 3) paths on n blanks *)
Definition cs_space : cset := mk_cset [(9, 13); (28, 32)]%Z true.
Definition cs_any : cset := mk_cset [(0, 9); (11, 127)]%Z true.
Definition blank_args : rx := RSeq (RStar (RSet cs_space)) (RSeq (RStar (RSet cs_any)) (RStar (RSet cs_space))).

Lemma blank_args_cubic :
  flat blank_args = true /\
  Z.of_nat (paths blank_args (repeat 32%Z 8)) = 165%Z /\
  Z.of_nat (paths blank_args (repeat 32%Z 16)) = 969%Z /\
  Z.of_nat (paths blank_args (repeat 32%Z 32)) = 6545%Z /\
  Z.of_nat (paths blank_args (repeat 32%Z 64)) = 47905%Z.
Proof. vm_compute. repeat split. Qed.
