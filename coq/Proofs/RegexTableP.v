(* The regenerated inventory of the transpiler's regular expressions (Gen/Regexes.v) satisfies the structural
   obligation of Lang/Regex.v; with Proofs/RegexP.v that bounds the backtracking of every one of them on every text. *)
From Coq Require Import ZArith List Bool Arith Lia.
From RV Require Import Base.Wire Lang.Regex Proofs.RegexP Gen.Regexes.
Import ListNotations.

Lemma table_flat_b : forallb (fun e => flat (re_rx e)) regex_table = true.
Proof. vm_compute. reflexivity. Qed.

Theorem regex_table_flat : forall e, In e regex_table -> flat (re_rx e) = true.
Proof. intros e H. exact (proj1 (forallb_forall _ _) table_flat_b e H). Qed.

Theorem regex_table_star_height : forall e, In e regex_table -> (star_height (re_rx e) <= 1)%nat.
Proof. intros e H. apply flat_star_height. apply regex_table_flat. exact H. Qed.

Theorem regex_table_paths_bounded : forall e w, In e regex_table ->
  (paths (re_rx e) w <= width (re_rx e) (length w))%nat.
Proof. intros e w H. apply flat_paths_bounded. apply regex_table_flat. exact H. Qed.

Theorem regex_table_polynomial : forall e w, In e regex_table ->
  (paths (re_rx e) w <= (length w + 2) ^ rsize (re_rx e))%nat.
Proof. intros e w H. apply flat_paths_polynomial. apply regex_table_flat. exact H. Qed.

(* the inventory is not empty, holds no pattern with run-time parts, and the build directive is in it *)
Definition name_is (s : text) (e : rentry) : bool :=
  if list_eq_dec Z.eq_dec (re_name e) s then true else false.

Lemma table_sane :
  (60 <= length regex_table)%nat /\ regex_dynamic = [] /\
  existsb (name_is [82;69;95;84;65;82;71;69;84;95;67;65;76;76]%Z) regex_table = true /\
  existsb (name_is [82;69;95;84;65;82;71;69;84;95;73;78;76;73;78;69]%Z) regex_table = true.
Proof. vm_compute. repeat split; intros; discriminate || (repeat constructor). Qed.
