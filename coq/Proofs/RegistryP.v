From Coq Require Import ZArith List Bool.
From RV Require Import Base.Wire Base.Text Gen.Registry Tool.Registry.
Import ListNotations.
Open Scope Z_scope.

Lemma tlookup_In {A} a (l : list (text * A)) v : tlookup a l = Some v -> In (a, v) l.
Proof.
  induction l as [|[k w] r IH]; cbn; [discriminate|].
  destruct (text_eqb a k) eqn:E.
  - intros [= <-]. apply text_eqb_eq in E. subst. auto.
  - auto.
Qed.

Fixpoint nodupb (l : list text) : bool :=
  match l with [] => true | a :: r => negb (tmem a r) && nodupb r end.

Lemma In_tlookup_nodup {A} a (v : A) l :
  nodupb (map fst l) = true -> In (a, v) l -> tlookup a l = Some v.
Proof.
  induction l as [|[k w] r IH]; cbn; [tauto|].
  intros H [E|I]; apply andb_true_iff in H as [H1 H2].
  - inversion E; subst. rewrite text_eqb_refl. reflexivity.
  - destruct (text_eqb a k) eqn:E.
    + apply text_eqb_eq in E. subst. apply negb_true_iff in H1.
      assert (tmem k (map fst r) = true) as X.
      { apply tmem_In. apply in_map_iff. exists (k, v). auto. }
      congruence.
    + auto.
Qed.

(* ---- the three finite table obligations, parametrised so they can be re-checked
        on whatever the translator generated ---- *)
Section Tables.
  Variable plats : list (text * list text).
  Variable b2p : list (text * text).

  Definition boards_of (pl : text) : list text :=
    match tlookup pl plats with Some bs => bs | None => [] end.

  Definition tab_keys : bool := nodupb (map fst plats).
  Definition tab_inv_sound : bool :=
    forallb (fun kv => tmem (fst kv) (boards_of (snd kv))) b2p.
  Definition tab_inv_complete : bool :=
    forallb (fun pb => forallb (fun b => match tlookup b b2p with
                                        | Some p => text_eqb p (fst pb) | None => false end)
                              (snd pb)) plats.
  Definition tables_ok : bool := tab_keys && tab_inv_sound && tab_inv_complete.

  Hypothesis OK : tables_ok = true.

  Lemma ok_parts : tab_keys = true /\ tab_inv_sound = true /\ tab_inv_complete = true.
  Proof.
    unfold tables_ok in OK. apply andb_true_iff in OK as [H12 H3].
    apply andb_true_iff in H12 as [H1 H2]. auto.
  Qed.

  Lemma inverse_faithful pl b :
    tlookup b b2p = Some pl <-> registered_in plats pl b.
  Proof.
    destruct ok_parts as (K & S & C). split.
    - intro L. apply tlookup_In in L.
      unfold tab_inv_sound in S. rewrite forallb_forall in S.
      specialize (S _ L). cbn in S. apply tmem_In in S.
      unfold boards_of in S. destruct (tlookup pl plats) as [bs|] eqn:E; [|contradiction].
      exists bs. split; [apply tlookup_In; exact E | exact S].
    - intros (bs & I1 & I2).
      unfold tab_inv_complete in C. rewrite forallb_forall in C.
      specialize (C _ I1). cbn in C. rewrite forallb_forall in C. specialize (C _ I2).
      destruct (tlookup b b2p) as [p|]; [|discriminate].
      apply text_eqb_eq in C. congruence.
  Qed.

  Lemma validate_exact pl b :
    validate_in plats b2p pl b = None <-> registered_in plats pl b.
  Proof.
    unfold validate_in. split.
    - destruct (tmem pl (map fst plats)) eqn:M; cbn; [|discriminate].
      destruct (tlookup b b2p) as [req|] eqn:L; [|discriminate].
      destruct (text_eqb req pl) eqn:E; [|discriminate].
      intros _. apply text_eqb_eq in E. subst. apply inverse_faithful. exact L.
    - intro R. pose proof R as (bs & I1 & I2).
      assert (tmem pl (map fst plats) = true) as M.
      { apply tmem_In. apply in_map_iff. exists (pl, bs). auto. }
      rewrite M. cbn. apply inverse_faithful in R. rewrite R.
      rewrite text_eqb_refl. reflexivity.
  Qed.

  Lemma one_platform p1 p2 b :
    registered_in plats p1 b -> registered_in plats p2 b -> p1 = p2.
  Proof.
    intros R1 R2. apply inverse_faithful in R1. apply inverse_faithful in R2. congruence.
  Qed.

  (* rejection kinds are exact too *)
  Lemma validate_kinds pl b :
    match validate_in plats b2p pl b with
    | None => registered_in plats pl b
    | Some UnsupportedPlatform => ~ In pl (map fst plats)
    | Some UnsupportedBoard => In pl (map fst plats) /\ forall p, ~ registered_in plats p b
    | Some Mismatch => In pl (map fst plats) /\ exists p, p <> pl /\ registered_in plats p b
    end.
  Proof.
    destruct (validate_in plats b2p pl b) as [e|] eqn:V.
    - unfold validate_in in V.
      destruct (tmem pl (map fst plats)) eqn:M; cbn in V.
      + apply tmem_In in M.
        destruct (tlookup b b2p) as [req|] eqn:L.
        * destruct (text_eqb req pl) eqn:E; [discriminate|]. inversion V; subst.
          split; [exact M|]. exists req. split.
          -- intro X. subst. rewrite text_eqb_refl in E. discriminate.
          -- apply inverse_faithful. exact L.
        * inversion V; subst. split; [exact M|]. intros p R.
          apply inverse_faithful in R. congruence.
      + inversion V; subst. intro I. apply tmem_In in I. congruence.
    - apply validate_exact. exact V.
  Qed.
End Tables.

(* the generated registry satisfies the obligations: decided by computation on the
   tables the translator printed from the current source *)
Lemma generated_tables_ok : tables_ok platforms board_to_platform = true.
Proof. vm_compute. reflexivity. Qed.

Lemma all_boards_nodup :
  nodupb (concat (map snd platforms)) = true.
Proof. vm_compute. reflexivity. Qed.
