(* Proofs about Host/RelArgs.v: closed forms of RGBLed.blink / fade / set_color as functions of
   (state, arguments), and what they say about calls whose arguments are derived from the state. *)
From Coq Require Import ZArith QArith Qround Lia Lqa List Bool.
From RV Require Import Base.Wire Base.Num Host.Led Host.RGBLed Host.RelArgs
  Proofs.NumP Proofs.LedP Proofs.RGBLedP.
Import ListNotations.
Import Num.
Local Open Scope Q_scope.

(* ------------------------------------------------------------------ *)
(* argument classes                                                    *)
(* ------------------------------------------------------------------ *)
Lemma times_ok_true : forall t, times_ok t = true ->
  num_le t 0 = Some false /\ range_count t = Some (zval t) /\ (0 < zval t)%Z.
Proof.
  intros t H. unfold times_ok in H.
  destruct t as [z|q|b|]; cbn [range_count] in H; try discriminate.
  - apply Z.ltb_lt in H. cbn [zval range_count]. split; [|auto].
    unfold num_le. cbn [is_obj qval].
    destruct (Qle_bool (inject_Z z) 0) eqn:E; [|reflexivity].
    apply Qle_bool_iff in E. change 0 with (inject_Z 0) in E. rewrite <- Zle_Qle in E. lia.
  - destruct b; [|vm_compute in H; discriminate]. vm_compute. repeat split; reflexivity.
Qed.

Lemma times_ok_false : forall t n, times_ok t = false ->
  num_le t 0 = Some false -> range_count t = Some n -> False.
Proof.
  intros t n H Hle Hr. destruct (range_count_pos _ _ Hle Hr) as (Hn & _ & _).
  unfold times_ok in H. rewrite Hr in H. apply Z.ltb_ge in H. lia.
Qed.

Lemma nonneg_num_lt : forall d,
  num_lt d 0 = (if is_obj d then None else Some (negb (Qle_bool 0 (qval d)))).
Proof. intro d. unfold num_lt, Qltb. reflexivity. Qed.

Lemma nonneg_num_true : forall d, nonneg_num d = true -> num_lt d 0 = Some false.
Proof.
  intros d H. unfold nonneg_num in H. apply andb_true_iff in H as [Ho Hq].
  rewrite nonneg_num_lt. apply negb_true_iff in Ho. rewrite Ho, Hq. reflexivity.
Qed.

Lemma nonneg_num_false : forall d, nonneg_num d = false -> num_lt d 0 <> Some false.
Proof.
  intros d H. rewrite nonneg_num_lt. unfold nonneg_num in H.
  destruct (is_obj d); [discriminate|]. cbn [negb andb] in H. rewrite H. discriminate.
Qed.

Lemma components_ok_true : forall r g b, components_ok r g b = true ->
  first_error (validate_component r) (validate_component g) (validate_component b) = None /\
  ok3 (target_of r g b).
Proof.
  intros r g b H. unfold components_ok in H.
  destruct (first_error (validate_component r) (validate_component g) (validate_component b)) eqn:E;
    [discriminate|].
  split; [reflexivity|].
  apply first_error_none in E as (Er & Eg & Eb).
  apply validate_component_none in Er as [_ Er], Eg as [_ Eg], Eb as [_ Eb]. cbn. auto.
Qed.

Lemma components_ok_false : forall r g b, components_ok r g b = false ->
  exists k, first_error (validate_component r) (validate_component g) (validate_component b) = Some k.
Proof.
  intros r g b H. unfold components_ok in H.
  destruct (first_error (validate_component r) (validate_component g) (validate_component b)) as [k|];
    [exists k; reflexivity | discriminate].
Qed.

(* ------------------------------------------------------------------ *)
(* blink: total closed form                                            *)
(* ------------------------------------------------------------------ *)
Lemma rblink_evs_concat : forall k c d,
  rblink_evs k c d = concat (repeat [Lvl (l3 c); Sleep d; Lvl [0; 0; 0]%Z; Sleep d] k).
Proof.
  induction k as [|k IH]; intros c d; [reflexivity|].
  cbn [rblink_evs repeat concat app]. rewrite IH. reflexivity.
Qed.

Lemma blink_total : forall s r g b t d, Inv_rgb s ->
  if blink_accepts r g b t d
  then step s (Blink r g b t d) =
       (s, blink_trace (Z.to_nat (zval t)) (target_of r g b) (qval d) (color s), Ok RNone)
  else exists k, step s (Blink r g b t d) = (s, [], Raised k).
Proof.
  intros s r g b t d Hinv. unfold blink_accepts.
  cbn [step]. unfold blink.
  destruct (times_ok t) eqn:Et; cbn [andb].
  - destruct (times_ok_true _ Et) as (Hle & Hr & Hz). rewrite Hle. cbn [reject_if].
    destruct (nonneg_num d) eqn:Ed; cbn [andb].
    + rewrite (nonneg_num_true _ Ed). cbn [reject_if].
      destruct (components_ok r g b) eqn:Ec.
      * destruct (components_ok_true _ _ _ Ec) as (Ef & Hc). rewrite Ef, Hr.
        unfold target_of in Hc. rewrite (rblink_loop_eq _ _ Hc). rewrite r_andthen_ok.
        rewrite (set_triple_ok _ _ (inv_ok3 _ Hinv)). cbn [st evs res fst snd].
        unfold blink_trace. rewrite <- rblink_evs_concat.
        replace (pins (match Z.to_nat (zval t) with
                       | O => s
                       | S _ => mkRgb (pins s) (0, 0, 0)%Z false
                       end)) with (pins s) by (destruct (Z.to_nat (zval t)); reflexivity).
        rewrite (painted_self _ Hinv). reflexivity.
      * destruct (components_ok_false _ _ _ Ec) as (k & Ef). rewrite Ef. exists k. reflexivity.
    + pose proof (nonneg_num_false _ Ed) as Hd.
      destruct (num_lt d 0) as [[|]|]; cbn [reject_if].
      * exists ValueError. reflexivity.
      * exfalso. apply Hd. reflexivity.
      * exists TypeError. reflexivity.
  - destruct (num_le t 0) as [[|]|] eqn:Hle; cbn [reject_if].
    + exists ValueError. reflexivity.
    + destruct (num_lt d 0) as [[|]|]; cbn [reject_if].
      * exists ValueError. reflexivity.
      * destruct (first_error (validate_component r) (validate_component g) (validate_component b)) as [k|].
        { exists k. reflexivity. }
        destruct (range_count t) as [n|] eqn:Hr.
        { exfalso. exact (times_ok_false _ _ Et Hle Hr). }
        exists TypeError. reflexivity.
      * exists TypeError. reflexivity.
    + exists TypeError. reflexivity.
Qed.

(* a blink - accepted or refused, whatever its arguments - leaves the object exactly as it was *)
Lemma blink_state_neutral : forall s r g b t d, Inv_rgb s ->
  st (step s (Blink r g b t d)) = s.
Proof.
  intros s r g b t d Hinv. pose proof (blink_total s r g b t d Hinv) as H.
  destruct (blink_accepts r g b t d).
  - rewrite H. reflexivity.
  - destruct H as [k H]. rewrite H. reflexivity.
Qed.

Lemma run_app : forall ops1 ops2 s, run s (ops1 ++ ops2) = run (run s ops1) ops2.
Proof. intros. unfold run. apply fold_left_app. Qed.

Lemma blink_history_neutral : forall r0 g0 b0 s0 ops r g b t d,
  create r0 g0 b0 = inl s0 ->
  run s0 (ops ++ [Blink r g b t d]) = run s0 ops.
Proof.
  intros r0 g0 b0 s0 ops r g b t d Hc. rewrite run_app. cbn [run fold_left].
  apply blink_state_neutral. exact (inv_reachable _ _ _ _ ops Hc).
Qed.

(* the current colour, passed back as the blink colour, is always a valid colour *)
Lemma cur_components_ok : forall s, Inv_rgb s -> components_ok (cur s 0) (cur s 1) (cur s 2) = true.
Proof.
  intros s Hinv. pose proof (inv_ok3 _ Hinv) as Hok. unfold components_ok, cur, ch.
  destruct (color s) as [[cr cg] cb]. destruct Hok as (Hr & Hg & Hb). cbn [l3 nth].
  rewrite !validate_component_PI by assumption. reflexivity.
Qed.

Lemma cur_target : forall s, target_of (cur s 0) (cur s 1) (cur s 2) = color s.
Proof. intro s. unfold target_of, cur, ch. destruct (color s) as [[cr cg] cb]. reflexivity. Qed.

(* blink in the colour currently shown: always accepted (for valid times/delay), ends on that colour *)
Lemma blink_own_colour : forall s t d, Inv_rgb s -> times_ok t = true -> nonneg_num d = true ->
  step s (Blink (cur s 0) (cur s 1) (cur s 2) t d) =
    (s, blink_trace (Z.to_nat (zval t)) (color s) (qval d) (color s), Ok RNone).
Proof.
  intros s t d Hinv Ht Hd. pose proof (blink_total s (cur s 0) (cur s 1) (cur s 2) t d Hinv) as H.
  unfold blink_accepts in H.
  rewrite Ht, Hd, (cur_components_ok _ Hinv) in H. cbn [andb] in H. rewrite cur_target in H. exact H.
Qed.

Lemma blink_trace_last : forall k c d orig, last (levels (blink_trace k c d orig)) [] = l3 orig.
Proof.
  intros k c d orig. unfold blink_trace. rewrite levels_app. cbn [levels].
  rewrite last_last. reflexivity.
Qed.

(* the level written last is the original colour, and it is written AFTER the last "off":
   the levels are k x (colour, black) followed by the original *)
Lemma blink_trace_levels : forall k c d orig,
  levels (blink_trace k c d orig) = concat (repeat [l3 c; [0; 0; 0]%Z] k) ++ [l3 orig].
Proof.
  intros k c d orig. unfold blink_trace. rewrite <- rblink_evs_concat, levels_app, rblink_evs_levels.
  reflexivity.
Qed.

Lemma blink_trace_sleeps : forall k c d orig, sleeps (blink_trace k c d orig) = repeat d (2 * k).
Proof.
  intros k c d orig. unfold blink_trace. rewrite <- rblink_evs_concat, sleeps_app, rblink_evs_sleeps.
  cbn [sleeps]. apply app_nil_r.
Qed.

(* ------------------------------------------------------------------ *)
(* set_color / on / fade with the colour currently shown               *)
(* ------------------------------------------------------------------ *)
Lemma set_color_own_colour : forall s, Inv_rgb s ->
  step s (SetColor (cur s 0) (cur s 1) (cur s 2)) = (s, [Lvl (l3 (color s))], Ok RNone) /\
  step s (On (cur s 0) (cur s 1) (cur s 2)) = (s, [Lvl (l3 (color s))], Ok RNone).
Proof.
  intros s Hinv. cbn [step].
  assert (E : set_color s (cur s 0) (cur s 1) (cur s 2) = set_triple s (color s)).
  { unfold set_triple, cur, ch. destruct (color s) as [[cr cg] cb]. reflexivity. }
  rewrite E, (set_triple_ok _ _ (inv_ok3 _ Hinv)), (painted_self _ Hinv). auto.
Qed.

(* fade: total closed form of the acceptance; an accepted fade ends painted with the target *)
Lemma fade_total : forall s r g b d n, Inv_rgb s ->
  if fade_accepts s r g b d n
  then exists e, step s (Fade r g b d n) = (painted (pins s) (target_of r g b), e, Ok RNone)
  else exists k, step s (Fade r g b d n) = (s, [], Raised k).
Proof.
  intros s r g b d n Hinv. unfold fade_accepts. cbn [step]. unfold fade.
  fold (target_of r g b). fold (fade_shortcut s r g b d).
  destruct (nonneg_num d) eqn:Ed; cbn [andb].
  2:{ pose proof (nonneg_num_false _ Ed) as Hd.
      destruct (num_lt d 0) as [[|]|]; cbn [reject_if].
      - exists ValueError. reflexivity.
      - exfalso. apply Hd. reflexivity.
      - exists TypeError. reflexivity. }
  rewrite (nonneg_num_true _ Ed). cbn [reject_if].
  unfold num_le. destruct (is_obj n) eqn:Eo; cbn [negb andb reject_if].
  { exists TypeError. reflexivity. }
  destruct (Qle_bool (qval n) 0) eqn:En; cbn [negb andb reject_if].
  { exists ValueError. reflexivity. }
  destruct (components_ok r g b) eqn:Ec; cbn [andb].
  2:{ destruct (components_ok_false _ _ _ Ec) as (k & Ef). rewrite Ef. exists k. reflexivity. }
  destruct (components_ok_true _ _ _ Ec) as (Ef & Ht). rewrite Ef.
  destruct (fade_shortcut s r g b d) eqn:Esc; cbn [orb].
  - rewrite (set_triple_ok _ _ Ht). eexists. reflexivity.
  - destruct (range_count n) as [nz|] eqn:Ern.
    + assert (Hle : num_le n 0 = Some false) by (unfold num_le; rewrite Eo, En; reflexivity).
      destruct (r_range_count_pos _ _ Hle Ern) as (Hnz & Hq & Hz). rewrite Hq.
      destruct (fade_loop_spec nz Hnz (color s) (target_of r g b) (qval d / inject_Z nz)
                  (inv_ok3 _ Hinv) Ht (Z.to_nat nz) 1%Z s ltac:(lia) ltac:(lia)) as (I1 & _ & _ & I4).
      exists (evs (fade_loop (Z.to_nat nz) 1 nz (inject_Z nz) (color s) (target_of r g b)
                     (qval d / inject_Z nz) s)).
      apply r_outcome_ext; [|reflexivity|exact I1].
      rewrite I4. destruct (Z.to_nat nz) eqn:E0; [lia|reflexivity].
    + exists TypeError. reflexivity.
Qed.

(* fade to the colour currently shown: the shortcut - one level, no sleep, nothing changes, and
   [steps] is never looked at beyond "steps > 0" (so 2.5 is accepted here and only here) *)
Lemma fade_own_colour : forall s d n, Inv_rgb s -> nonneg_num d = true ->
  num_le n 0 = Some false ->
  step s (Fade (cur s 0) (cur s 1) (cur s 2) d n) = (s, [Lvl (l3 (color s))], Ok RNone).
Proof.
  intros s d n Hinv Hd Hn. cbn [step]. unfold fade.
  rewrite (nonneg_num_true _ Hd), Hn. cbn [reject_if].
  pose proof (cur_components_ok _ Hinv) as Hc.
  destruct (components_ok_true _ _ _ Hc) as (Ef & _). rewrite Ef.
  fold (target_of (cur s 0) (cur s 1) (cur s 2)). rewrite cur_target.
  assert (E : triple_eqb (color s) (color s) = true) by (apply triple_eqb_eq; reflexivity).
  rewrite E, orb_true_r, (set_triple_ok _ _ (inv_ok3 _ Hinv)), (painted_self _ Hinv). reflexivity.
Qed.

(* the state decides: the same call with a float [steps] is refused from any other colour *)
Lemma fade_float_steps_elsewhere : forall s r g b d q, Inv_rgb s ->
  fade_shortcut s r g b d = false ->
  exists k, step s (Fade r g b d (PF q)) = (s, [], Raised k).
Proof.
  intros s r g b d q Hinv Hsc. pose proof (fade_total s r g b d (PF q) Hinv) as H.
  unfold fade_accepts in H. rewrite Hsc in H. cbn [range_count orb] in H.
  rewrite andb_false_r in H. exact H.
Qed.

(* ------------------------------------------------------------------ *)
(* relative arguments                                                  *)
(* ------------------------------------------------------------------ *)
Lemma resolve_cur_int : forall s i, resolve_rgb s (CCur i 0 SpInt) = cur s i.
Proof. intros. unfold resolve_rgb, cur, spell. rewrite Z.add_0_r. reflexivity. Qed.

(* the bool spelling of a channel is the same number to every validation and to int() *)
Lemma spell_bool_same_number : forall z,
  qval (spell SpBool z) = inject_Z z /\ zval (spell SpBool z) = z /\ is_intlike (spell SpBool z) = true.
Proof.
  intro z. unfold spell. destruct (z =? 0)%Z eqn:E0.
  - apply Z.eqb_eq in E0. subst z. cbn. auto.
  - destruct (z =? 1)%Z eqn:E1.
    + apply Z.eqb_eq in E1. subst z. cbn. auto.
    + cbn. auto.
Qed.

(* the float spelling is refused by every colour argument, in every state *)
Lemma spell_float_refused : forall z, validate_component (spell SpFloat z) = Some TypeError.
Proof. intro z. reflexivity. Qed.

(* a neighbour of the current channel is accepted iff it is still inside 0..255 *)
Lemma neighbour_component : forall s i dz, Inv_rgb s ->
  validate_component (resolve_rgb s (CCur i dz SpInt)) =
    (if (0 <=? ch i (color s) + dz)%Z && (ch i (color s) + dz <=? 255)%Z then None else Some ValueError).
Proof.
  intros s i dz _. unfold resolve_rgb, spell, validate_component. cbn [is_intlike negb qval].
  set (z := (ch i (color s) + dz)%Z).
  assert (E0 : Qle_bool 0 (inject_Z z) = (0 <=? z)%Z).
  { destruct (0 <=? z)%Z eqn:E.
    - apply Qle_bool_iff. change 0 with (inject_Z 0). rewrite <- Zle_Qle. apply Z.leb_le. exact E.
    - destruct (Qle_bool 0 (inject_Z z)) eqn:E'; [|reflexivity].
      apply Qle_bool_iff in E'. change 0 with (inject_Z 0) in E'. rewrite <- Zle_Qle in E'.
      apply Z.leb_gt in E. lia. }
  assert (E1 : Qle_bool (inject_Z z) 255 = (z <=? 255)%Z).
  { destruct (z <=? 255)%Z eqn:E.
    - apply Qle_bool_iff. change 255 with (inject_Z 255). rewrite <- Zle_Qle. apply Z.leb_le. exact E.
    - destruct (Qle_bool (inject_Z z) 255) eqn:E'; [|reflexivity].
      apply Qle_bool_iff in E'. change 255 with (inject_Z 255) in E'. rewrite <- Zle_Qle in E'.
      apply Z.leb_gt in E. lia. }
  rewrite E0, E1. destruct ((0 <=? z)%Z && (z <=? 255)%Z); reflexivity.
Qed.

(* ------------------------------------------------------------------ *)
(* statements as they appear in Props/C19_led.v                        *)
(* ------------------------------------------------------------------ *)
Lemma blink_trace_shape : forall k c d orig,
  levels (blink_trace k c d orig) = concat (repeat [l3 c; [0; 0; 0]%Z] k) ++ [l3 orig] /\
  last (levels (blink_trace k c d orig)) [] = l3 orig /\
  sleeps (blink_trace k c d orig) = repeat d (2 * k).
Proof.
  intros. split; [apply blink_trace_levels|].
  split; [apply blink_trace_last | apply blink_trace_sleeps].
Qed.

Lemma relative_arguments_final : forall s i dz, Inv_rgb s ->
  resolve_rgb s (CCur i 0 SpInt) = cur s i /\
  (let v := resolve_rgb s (CCur i dz SpBool) in
   qval v = inject_Z (ch i (color s) + dz) /\ zval v = (ch i (color s) + dz)%Z /\ is_intlike v = true) /\
  validate_component (resolve_rgb s (CCur i dz SpFloat)) = Some TypeError /\
  validate_component (resolve_rgb s (CCur i dz SpInt)) =
    (if (0 <=? ch i (color s) + dz)%Z && (ch i (color s) + dz <=? 255)%Z then None else Some ValueError).
Proof.
  intros s i dz Hinv. split; [apply resolve_cur_int|].
  split; [apply spell_bool_same_number|].
  split; [apply spell_float_refused | apply neighbour_component; exact Hinv].
Qed.

(* ------------------------------------------------------------------ *)
(* Led: set_brightness with the brightness the Led already has          *)
(* ------------------------------------------------------------------ *)
Lemma led_own_brightness : forall s i sp, Inv_led s ->
  Led.step s (Led.SetBrightness (resolve_led s (CCur i 0 sp))) = (s, [Lvl [Led.bright s]], Ok RNone).
Proof.
  intros s i sp [Hb Hl]. cbn [Led.step]. unfold resolve_led. rewrite Z.add_0_r.
  assert (Hself : LedP.lit_of (Led.pin s) (Led.bright s) = s).
  { unfold LedP.lit_of. rewrite <- Hl. destruct s; reflexivity. }
  assert (Hq0 : 0 <= inject_Z (Led.bright s)).
  { change 0 with (inject_Z 0). rewrite <- Zle_Qle. lia. }
  assert (Hq1 : inject_Z (Led.bright s) <= 255).
  { change 255 with (inject_Z 255). rewrite <- Zle_Qle. lia. }
  destruct sp; unfold spell.
  - rewrite (LedP.sb_ok _ _ (LedP.between_PI _ Hb)). cbn [zval]. rewrite Hself. reflexivity.
  - destruct (Led.bright s =? 0)%Z eqn:E0.
    + apply Z.eqb_eq in E0. rewrite LedP.sb_ok by reflexivity. cbn [zval b2z].
      rewrite <- E0 at 1 2. rewrite Hself. reflexivity.
    + destruct (Led.bright s =? 1)%Z eqn:E1.
      * apply Z.eqb_eq in E1. rewrite LedP.sb_ok by reflexivity. cbn [zval b2z].
        rewrite <- E1 at 1 2. rewrite Hself. reflexivity.
      * rewrite (LedP.sb_ok _ _ (LedP.between_PI _ Hb)). cbn [zval]. rewrite Hself. reflexivity.
  - rewrite (LedP.sb_ok _ _ (LedP.between_PF _ Hq0 Hq1)).
    assert (Ez : zval (PF (inject_Z (Led.bright s))) = Led.bright s).
    { cbn [zval]. unfold py_int_trunc, inject_Z. cbn [Qnum Qden]. apply Z.quot_1_r. }
    rewrite Ez, Hself. reflexivity.
Qed.
