(* Round trip: the lexical skeleton parser of Lang/Lex.v applied to ANY layout (Lang/Layout.v)
   of a block tree inside the guard gives back the block tree.  Hence re-layout invariance. *)
From Coq Require Import ZArith List Bool Lia Arith.
From RV Require Import Base.Wire Base.Text Lang.Lex Lang.PyLayout Lang.Layout.
Import ListNotations.
Open Scope Z_scope.

(* ================================================================ blanks, strip *)

Lemma is_blank_cons c r : is_blank (c :: r) = is_space c && is_blank r.
Proof. reflexivity. Qed.

Lemma ws_only_blank w : ws_only w = true -> is_blank w = true.
Proof.
  induction w as [|c r IH]; [reflexivity|]. rewrite is_blank_cons. cbn [ws_only forallb]. intro H.
  apply andb_true_iff in H as [Hc Hr]. rewrite (IH Hr), andb_true_r.
  unfold ch_space, ch_tab in Hc. apply orb_true_iff in Hc as [E|E]; apply Z.eqb_eq in E; subst; reflexivity.
Qed.

Lemma is_blank_app a b : is_blank (a ++ b) = is_blank a && is_blank b.
Proof. unfold is_blank. apply forallb_app. Qed.

Lemma lstrip_blank_app w x : is_blank w = true -> lstrip (w ++ x) = lstrip x.
Proof.
  induction w as [|c r IH]; [reflexivity|]. rewrite is_blank_cons. cbn [app lstrip]. intro H.
  apply andb_true_iff in H as [Hc Hr]. rewrite Hc. apply IH. exact Hr.
Qed.

Lemma lstrip_blank w : is_blank w = true -> lstrip w = [].
Proof. intro H. rewrite <- (app_nil_r w). rewrite (lstrip_blank_app w [] H). reflexivity. Qed.

Lemma rstrip_nil_blank t : rstrip t = [] <-> is_blank t = true.
Proof.
  induction t as [|c r IH]; [cbn; tauto|].
  rewrite is_blank_cons. cbn [rstrip]. destruct (is_space c) eqn:Ec; cbn [andb].
  - destruct (rstrip r) eqn:Er; cbn [is_nil].
    + split; [intros _; apply IH; reflexivity|reflexivity].
    + split; [discriminate|]. intro H. apply IH in H. discriminate.
  - split; discriminate.
Qed.

Lemma rstrip_app_blank a b : is_blank b = true -> rstrip (a ++ b) = rstrip a.
Proof.
  intro Hb. induction a as [|c r IH]; [cbn [app]; apply rstrip_nil_blank; exact Hb|].
  cbn [app rstrip]. rewrite IH. reflexivity.
Qed.

(* a text whose rstrip is itself keeps every character when something is appended *)
Lemma rstrip_app_keep : forall a b, rstrip a = a -> exists y, rstrip (a ++ b) = a ++ y.
Proof.
  induction a as [|c r IH]; intros b H; [exists (rstrip b); reflexivity|].
  cbn [rstrip] in H. cbn [app rstrip].
  destruct (is_space c && is_nil (rstrip r)) eqn:E; [discriminate|].
  injection H as Hr. destruct (IH b Hr) as [y Hy]. rewrite Hy.
  destruct (is_space c && is_nil (r ++ y)) eqn:E2.
  - apply andb_true_iff in E2 as [Ec En]. rewrite Ec in E. cbn in E.
    destruct r; [|discriminate]. cbn in E. discriminate.
  - exists y. reflexivity.
Qed.

Lemma lstrip_nonspace c r : is_space c = false -> lstrip (c :: r) = c :: r.
Proof. intro H. cbn [lstrip]. rewrite H. reflexivity. Qed.

Lemma is_blank_nonspace_in c a b : is_space c = false -> is_blank (a ++ c :: b) = false.
Proof.
  intro H. rewrite is_blank_app, is_blank_cons. rewrite H. cbn. apply andb_false_r.
Qed.

(* ================================================================ indentation *)

Lemma indent_of_ws_app w x : ws_only w = true -> indent_of (w ++ x) = (indent_of w + indent_of x)%nat.
Proof.
  induction w as [|c r IH]; [reflexivity|]. cbn [ws_only forallb app indent_of]. intro H.
  apply andb_true_iff in H as [Hc Hr]. rewrite (IH Hr).
  destruct (c =? ch_space); [lia|]. destruct (c =? ch_tab); [lia|]. cbn in Hc. discriminate.
Qed.

Lemma indent_of_nonspace c r : is_space c = false -> indent_of (c :: r) = 0%nat.
Proof.
  intro H. cbn [indent_of]. unfold ch_space, ch_tab.
  destruct (Z.eqb_spec c 32) as [->|_]; [discriminate|].
  destruct (Z.eqb_spec c 9) as [->|_]; [discriminate|]. reflexivity.
Qed.

(* ================================================================ _strip_inline_comment *)

Definition special (c : Z) : bool := (c =? ch_bslash) || (c =? ch_squote) || (c =? ch_dquote) || (c =? ch_hash).

Lemma space_not_special c : is_space c = true -> special c = false.
Proof.
  unfold special, ch_bslash, ch_squote, ch_dquote, ch_hash. intro H.
  destruct (Z.eqb_spec c 92) as [->|_]; [discriminate|].
  destruct (Z.eqb_spec c 39) as [->|_]; [discriminate|].
  destruct (Z.eqb_spec c 34) as [->|_]; [discriminate|].
  destruct (Z.eqb_spec c 35) as [->|_]; [discriminate|]. reflexivity.
Qed.

Lemma sic_cut_blank_app : forall w x, is_blank w = true ->
  sic_cut false false false (w ++ x) = option_map (app w) (sic_cut false false false x).
Proof.
  induction w as [|c r IH]; intros x H.
  - cbn [app]. destruct (sic_cut false false false x); reflexivity.
  - rewrite is_blank_cons in H. apply andb_true_iff in H as [Hc Hr].
    pose proof (space_not_special c Hc) as Hs. unfold special in Hs.
    apply orb_false_iff in Hs as [Hs H4]. apply orb_false_iff in Hs as [Hs H3]. apply orb_false_iff in Hs as [H1 H2].
    cbn [app sic_cut]. rewrite H1, H2, H3, H4. cbn [andb].
    rewrite (IH x Hr). destruct (sic_cut false false false x); reflexivity.
Qed.

Lemma sic_cut_blank w : is_blank w = true -> sic_cut false false false w = None.
Proof. intro H. rewrite <- (app_nil_r w). rewrite (sic_cut_blank_app w [] H). reflexivity. Qed.

Lemma sic_cut_app : forall a b s d e,
  sic_cut s d e a = None ->
  sic_cut s d e (a ++ b) =
  option_map (app a) (match sic_st s d e a with (s', d', e') => sic_cut s' d' e' b end).
Proof.
  induction a as [|c r IH]; intros b s d e H.
  - cbn [app sic_st]. destruct (sic_cut s d e b); reflexivity.
  - cbn [app sic_cut sic_st] in *.
    destruct e.
    { destruct (sic_cut s d false r) eqn:E; [discriminate|]. rewrite (IH b _ _ _ E).
      destruct (sic_st s d false r) as [[s' d'] e']. destruct (sic_cut s' d' e' b); reflexivity. }
    destruct (c =? ch_bslash).
    { destruct (sic_cut s d true r) eqn:E; [discriminate|]. rewrite (IH b _ _ _ E).
      destruct (sic_st s d true r) as [[s' d'] e']. destruct (sic_cut s' d' e' b); reflexivity. }
    destruct ((c =? ch_squote) && negb d).
    { destruct (sic_cut (negb s) d false r) eqn:E; [discriminate|]. rewrite (IH b _ _ _ E).
      destruct (sic_st (negb s) d false r) as [[s' d'] e']. destruct (sic_cut s' d' e' b); reflexivity. }
    destruct ((c =? ch_dquote) && negb s).
    { destruct (sic_cut s (negb d) false r) eqn:E; [discriminate|]. rewrite (IH b _ _ _ E).
      destruct (sic_st s (negb d) false r) as [[s' d'] e']. destruct (sic_cut s' d' e' b); reflexivity. }
    destruct ((c =? ch_hash) && negb s && negb d); [discriminate|].
    destruct (sic_cut s d false r) eqn:E; [discriminate|]. rewrite (IH b _ _ _ E).
    destruct (sic_st s d false r) as [[s' d'] e']. destruct (sic_cut s' d' e' b); reflexivity.
Qed.

Lemma code_clean_app s b : code_clean s = true ->
  sic_cut false false false (s ++ b) = option_map (app s) (sic_cut false false false b).
Proof.
  unfold code_clean. intro H. apply andb_true_iff in H as [Hn Hs].
  destruct (sic_cut false false false s) eqn:E; [discriminate|].
  rewrite (sic_cut_app s b _ _ _ E).
  destruct (sic_st false false false s) as [[x y] z].
  destruct x; [discriminate|]. destruct y; [discriminate|]. destruct z; [discriminate|]. reflexivity.
Qed.

Lemma lstrip_split t : exists w, is_blank w = true /\ t = w ++ lstrip t.
Proof.
  induction t as [|c r IH]; [exists []; split; reflexivity|].
  cbn [lstrip]. destruct (is_space c) eqn:E.
  - destruct IH as (w & Hw & Hr). exists (c :: w). split; [rewrite is_blank_cons, E; exact Hw|].
    cbn [app]. f_equal. exact Hr.
  - exists []. split; reflexivity.
Qed.

(* the trailing part of a statement line is invisible after comment stripping *)
Lemma sic_trail : forall tr, trail_ok true tr = true ->
  exists w, is_blank w = true /\
   (sic_cut false false false tr = None /\ tr = w \/ sic_cut false false false tr = Some w).
Proof.
  intros tr H. unfold trail_ok in H. cbn [andb] in H.
  destruct (is_blank tr) eqn:Eb.
  - exists tr. split; [exact Eb|]. left. split; [apply sic_cut_blank; exact Eb|reflexivity].
  - cbn [orb] in H. destruct (lstrip_split tr) as (w & Hw & Ht).
    exists w. split; [exact Hw|]. right. rewrite Ht. rewrite (sic_cut_blank_app w _ Hw).
    destruct (lstrip tr) as [|c q]; [discriminate|]. cbn [starts_hash] in H.
    cbn [sic_cut]. unfold ch_bslash, ch_squote, ch_dquote in *. apply Z.eqb_eq in H. subst c.
    cbn. rewrite app_nil_r. reflexivity.
Qed.

Section Stmt.
  Variables (w s tr : text).
  Hypothesis Hw : ws_only w = true.
  Hypothesis Hs : stmt_ok s = true.

  Lemma stmt_parts : exists c q, s = c :: q /\ is_space c = false /\ c <> ch_hash /\ rstrip s = s /\ code_clean s = true.
  Proof.
    unfold stmt_ok in Hs. destruct s as [|c q]; [discriminate|].
    apply andb_true_iff in Hs as [H1 Hc]. apply andb_true_iff in H1 as [H1 Hr].
    apply andb_true_iff in H1 as [Hsp Hh]. apply negb_true_iff in Hsp. apply negb_true_iff in Hh.
    apply text_eqb_eq in Hr. exists c, q. repeat split; try assumption.
    intro E. subst c. unfold ch_hash in Hh. discriminate.
  Qed.

  Lemma lstrip_s_app : forall x, lstrip (s ++ x) = s ++ x.
  Proof.
    intro x. destruct stmt_parts as (c & q & E & Hsp & _). rewrite E. cbn [app]. apply lstrip_nonspace. exact Hsp.
  Qed.

  Lemma line_indent : indent_of (w ++ s ++ tr) = indent_of w.
  Proof.
    destruct stmt_parts as (c & q & -> & Hsp & _). rewrite (indent_of_ws_app w _ Hw).
    cbn [app]. rewrite (indent_of_nonspace c _ Hsp). lia.
  Qed.

  Lemma line_not_blank : is_blank (w ++ s ++ tr) = false.
  Proof.
    destruct stmt_parts as (c & q & -> & Hsp & _). cbn [app]. apply is_blank_nonspace_in. exact Hsp.
  Qed.

  Lemma line_strip_prefix : exists y, strip (w ++ s ++ tr) = s ++ y.
  Proof.
    destruct stmt_parts as (c & q & E & Hsp & _ & Hr & _). unfold strip.
    rewrite (lstrip_blank_app w _ (ws_only_blank w Hw)). rewrite lstrip_s_app.
    apply rstrip_app_keep. exact Hr.
  Qed.

  Lemma line_strip_blank_trail : is_blank tr = true -> strip (w ++ s ++ tr) = s.
  Proof.
    intro Hb. destruct stmt_parts as (c & q & E & Hsp & _ & Hr & _). unfold strip.
    rewrite (lstrip_blank_app w _ (ws_only_blank w Hw)). rewrite lstrip_s_app.
    rewrite (rstrip_app_blank s tr Hb). exact Hr.
  Qed.

  Lemma line_code : trail_ok true tr = true -> strip (strip_inline_comment (w ++ s ++ tr)) = s.
  Proof.
    intro Ht. destruct stmt_parts as (c & q & E & Hsp & _ & Hr & Hc).
    destruct (sic_trail tr Ht) as (b & Hb & [[Hn Hb2]|Hsome]).
    - subst b. unfold strip_inline_comment.
      rewrite (sic_cut_blank_app w _ (ws_only_blank w Hw)), (code_clean_app s tr Hc), Hn. cbn [option_map].
      apply line_strip_blank_trail. exact Hb.
    - unfold strip_inline_comment.
      rewrite (sic_cut_blank_app w _ (ws_only_blank w Hw)), (code_clean_app s tr Hc), Hsome. cbn [option_map].
      unfold strip.
      assert (Hrs : rstrip (w ++ s ++ b) = w ++ s).
      { rewrite app_assoc. rewrite (rstrip_app_blank (w ++ s) b Hb).
        (* rstrip (w ++ s) = w ++ s because s ends with a non-blank *)
        clear - Hr E Hsp. induction w as [|x r IH]; [exact Hr|].
        cbn [app rstrip]. rewrite IH. destruct (r ++ s) eqn:Ers.
        - destruct r; [cbn in Ers; subst s; discriminate|discriminate].
        - cbn [is_nil]. rewrite andb_false_r. reflexivity. }
      rewrite Hrs. rewrite (lstrip_blank_app w _ (ws_only_blank w Hw)).
      rewrite <- (app_nil_r s) at 1. rewrite lstrip_s_app. rewrite app_nil_r. exact Hr.
  Qed.
End Stmt.

(* ================================================================ the probing loops skip exactly the junk lines *)
(* the probing loops of _collect_if/try_structure and of _parse_simple_lines skip a line when
   _strip_inline_comment(raw).strip() is empty: exactly the junk lines of _collect_block *)

Lemma lstrip_nil_is_blank t : lstrip t = [] -> is_blank t = true.
Proof.
  induction t as [|c r IH]; [reflexivity|]. rewrite is_blank_cons. cbn [lstrip].
  destruct (is_space c); [exact IH|discriminate].
Qed.
Lemma rstrip_blank_inv t : is_blank (rstrip t) = true -> is_blank t = true.
Proof.
  induction t as [|c r IH]; [reflexivity|]. cbn [rstrip]. rewrite is_blank_cons.
  destruct (is_space c && is_nil (rstrip r)) eqn:E.
  - intros _. apply andb_true_iff in E as [Ec En]. rewrite Ec. cbn [andb].
    apply rstrip_nil_blank. destruct (rstrip r); [reflexivity|discriminate].
  - rewrite is_blank_cons. intro H. apply andb_true_iff in H as [Hc Hr]. rewrite Hc, (IH Hr). reflexivity.
Qed.
Lemma strip_nil_is_blank t : strip t = [] -> is_blank t = true.
Proof.
  unfold strip. intro H. apply rstrip_nil_blank in H.
  destruct (lstrip_split t) as (w & Hw & E). rewrite E, is_blank_app, Hw, H. reflexivity.
Qed.

Lemma sic_cut_prefix : forall t s d e p, sic_cut s d e t = Some p -> exists q, t = p ++ ch_hash :: q.
Proof.
  induction t as [|c r IH]; intros s d e p H; [discriminate|].
  cbn [sic_cut] in H.
  assert (K : forall s' d' e', option_map (cons c) (sic_cut s' d' e' r) = Some p -> exists q, c :: r = p ++ ch_hash :: q).
  { intros s' d' e' H'. destruct (sic_cut s' d' e' r) as [p'|] eqn:E; [|discriminate].
    injection H' as <-. destruct (IH _ _ _ _ E) as [q Eq]. exists q. cbn [app]. f_equal. exact Eq. }
  destruct e; [exact (K _ _ _ H)|].
  destruct (c =? ch_bslash); [exact (K _ _ _ H)|].
  destruct ((c =? ch_squote) && negb d); [exact (K _ _ _ H)|].
  destruct ((c =? ch_dquote) && negb s); [exact (K _ _ _ H)|].
  destruct ((c =? ch_hash) && negb s && negb d) eqn:Eh; [|exact (K _ _ _ H)].
  injection H as <-. apply andb_true_iff in Eh as [Eh _]. apply andb_true_iff in Eh as [Eh _].
  apply Z.eqb_eq in Eh. subst c. exists r. reflexivity.
Qed.

Lemma lstrip_head_nonspace t c q : lstrip t = c :: q -> is_space c = false.
Proof.
  induction t as [|x r IH]; [discriminate|]. cbn [lstrip]. destruct (is_space x) eqn:Ex; [exact IH|].
  intro H. injection H as <- _. exact Ex.
Qed.

Lemma probe_blank_is_junk : forall l, is_nil (strip (strip_inline_comment l)) = junk l.
Proof.
  intro l. unfold junk, comment_only.
  destruct (lstrip_split l) as (w & Hw & E).
  destruct (is_blank l) eqn:Eb.
  - cbn [orb]. unfold strip_inline_comment. rewrite (sic_cut_blank l Eb).
    unfold strip. rewrite (lstrip_blank l Eb). reflexivity.
  - cbn [orb]. unfold strip_inline_comment.
    destruct (lstrip l) as [|c q] eqn:El.
    { rewrite app_nil_r in E. subst w. rewrite Hw in Eb. discriminate. }
    pose proof (lstrip_head_nonspace l c q El) as Hc.
    cbn [starts_hash]. rewrite E at 1. rewrite (sic_cut_blank_app w (c :: q) Hw).
    destruct (Z.eqb_spec c ch_hash) as [->|Nh].
    + cbn [sic_cut]. unfold ch_bslash, ch_squote, ch_dquote, ch_hash. cbn [Z.eqb Pos.eqb andb negb option_map].
      rewrite app_nil_r.
      assert (Hr : rstrip w = []) by (apply rstrip_nil_blank; exact Hw).
      rewrite Hr. reflexivity.
    + destruct (sic_cut false false false (c :: q)) as [p|] eqn:Ec.
      * cbn [option_map]. destruct (sic_cut_prefix _ _ _ _ _ Ec) as [q' Eq].
        destruct p as [|x p'].
        { cbn [app] in Eq. injection Eq as Eq _. contradiction. }
        cbn [app] in Eq. injection Eq as <- _.
        destruct (strip (rstrip (w ++ c :: p'))) eqn:Es; [|reflexivity].
        apply strip_nil_is_blank in Es. apply rstrip_blank_inv in Es.
        rewrite (is_blank_nonspace_in c w p' Hc) in Es. discriminate.
      * cbn [option_map].
        destruct (strip l) eqn:Es; [|reflexivity].
        apply strip_nil_is_blank in Es. rewrite Es in Eb. discriminate.
Qed.
