(* C06: the reserved-identifier check.  The table comes from the current parser; the lists it has to cover are fixed in Lang/Reserved.v. *)
From Coq Require Import ZArith List Bool Lia.
From RV Require Import Base.Wire Base.Text Gen.Reserved Lang.Reserved.
Import ListNotations.
Open Scope Z_scope.

(* finite domain, bound in the statement: every name of the fixed lists is in the regenerated table *)
Lemma covered_b : forallb Lang.Reserved.reserved must_be_reserved = true.
Proof. vm_compute. reflexivity. Qed.

Lemma must_be_reserved_covered n : In n must_be_reserved -> Lang.Reserved.reserved n = true.
Proof. intro H. exact (proj1 (forallb_forall _ _) covered_b n H). Qed.

Lemma keywords_reserved n : In n cpp_keywords -> Lang.Reserved.reserved n = true.
Proof. intro H. apply must_be_reserved_covered. unfold must_be_reserved. apply in_or_app. left. exact H. Qed.

Lemma entry_points_reserved n : In n sketch_entry_points -> Lang.Reserved.reserved n = true.
Proof. intro H. apply must_be_reserved_covered. unfold must_be_reserved. apply in_or_app. right. apply in_or_app. left. exact H. Qed.

Lemma core_names_reserved n : In n core_names_emitted -> Lang.Reserved.reserved n = true.
Proof. intro H. apply must_be_reserved_covered. unfold must_be_reserved. apply in_or_app. right. apply in_or_app. right. exact H. Qed.

Lemma rule_on : Reserved.reserved_rule =? 1 = true.
Proof. vm_compute. reflexivity. Qed.

(* A followed by one or more digits: every analog pin name, of any length *)
Lemma analog_pins_reserved d ds : forallb is_digit (d :: ds) = true -> Lang.Reserved.reserved (65 :: d :: ds) = true.
Proof.
  intro H. unfold Lang.Reserved.reserved. rewrite rule_on. cbn [andb]. apply orb_true_iff. right.
  unfold is_analog_pin. exact H.
Qed.

Lemma check_identifier_spec n : check_identifier n = (if Lang.Reserved.reserved n then None else Some n).
Proof. reflexivity. Qed.

Lemma check_identifier_some n m : check_identifier n = Some m -> m = n /\ Lang.Reserved.reserved n = false.
Proof. unfold check_identifier. destruct (Lang.Reserved.reserved n); intro H; inversion H. auto. Qed.

Lemma check_all_spec ns : check_all ns = true <-> (forall n, In n ns -> check_identifier n = Some n).
Proof.
  unfold check_all. rewrite forallb_forall. split; intros H n Hn.
  - specialize (H n Hn). apply negb_true_iff in H. unfold check_identifier. rewrite H. reflexivity.
  - specialize (H n Hn). unfold check_identifier in H. destruct (Lang.Reserved.reserved n); [discriminate|reflexivity].
Qed.

(* what the repair is for: a script whose declarations are all accepted declares no keyword, no entry point, no core name the
   emitter writes, no analog pin *)
Lemma accepted_declares_nothing_reserved ns : check_all ns = true ->
  forall n, In n ns -> ~ In n cpp_keywords /\ ~ In n sketch_entry_points /\ ~ In n core_names_emitted /\ is_analog_pin n = false.
Proof.
  intros H n Hn. unfold check_all in H. rewrite forallb_forall in H. specialize (H n Hn). apply negb_true_iff in H.
  repeat split.
  - intro K. rewrite (keywords_reserved n K) in H. discriminate.
  - intro K. rewrite (entry_points_reserved n K) in H. discriminate.
  - intro K. rewrite (core_names_reserved n K) in H. discriminate.
  - unfold Lang.Reserved.reserved in H. rewrite rule_on in H. cbn [andb] in H. apply orb_false_iff in H. tauto.
Qed.

(* one reserved name anywhere among the declarations: the script is rejected *)
Lemma one_reserved_rejects pre n post : Lang.Reserved.reserved n = true -> check_all (pre ++ n :: post) = false.
Proof.
  intro H. unfold check_all. rewrite forallb_app. cbn [forallb]. rewrite H. cbn [negb andb]. apply andb_false_r.
Qed.

(* the check is about whole names: names that merely contain a keyword are ordinary identifiers *)
Lemma near_misses_free :
  map Lang.Reserved.reserved [ [100;111;117;98;108;101;50]; [76;111;111;112]; [99;108;97;115;115;95]; [105;110;116;95]; [65]; [65;48;120]; [97;48];
                 [100;101;108;97;121;95;109;115]; [120]; [99;111;117;110;116] ] = repeat false 10.
Proof. vm_compute. reflexivity. Qed.

Lemma witnesses_reserved :
  Lang.Reserved.reserved [100;111;117;98;108;101] = true /\ Lang.Reserved.reserved [99;108;97;115;115] = true /\ Lang.Reserved.reserved [110;101;119] = true /\
  Lang.Reserved.reserved [108;111;111;112] = true /\ Lang.Reserved.reserved [65;48] = true /\ Lang.Reserved.reserved [65;49;53] = true /\
  check_all [[120]; [99;111;117;110;116]; [100;111;117;98;108;101;50]] = true /\
  check_all [[120]; [100;111;117;98;108;101]; [99;111;117;110;116]] = false /\
  length cpp_keywords = 84%nat /\ Nat.leb (length must_be_reserved) (length Reserved.reserved_names) = true.
Proof. vm_compute. repeat split; try reflexivity. Qed.
