From Coq Require Import ZArith List Bool Permutation Lia String.
From RV Require Import Base.Wire Base.Text Lang.Order Lang.RetJoin Proofs.OrderP.
Import ListNotations.
Open Scope Z_scope.

Lemma pop_or_int_len1 s1 s2 u u' :
  perm_oracle s1 -> perm_oracle s2 -> Permutation u u' -> Z.of_nat (List.length u) =? 1 = true ->
  pop_or_int s1 u = pop_or_int s2 u'.
Proof.
  intros H1 H2 HP HL. apply Z.eqb_eq in HL.
  destruct u as [|x [|y r]]; cbn in HL; try lia.
  apply Permutation_length_1_inv in HP. subst u'.
  unfold pop_or_int. rewrite !pop_site_singleton by assumption. reflexivity.
Qed.

Lemma merge_head_indep (t1 t2 : list ident -> jres) u u' hv :
  Permutation u u' -> (u <> [] -> t1 u = t2 u') -> merge_head t1 u hv = merge_head t2 u' hv.
Proof.
  intros HP HT. unfold merge_head.
  assert (HL : List.length u = List.length u') by (apply Permutation_length; exact HP).
  destruct u as [|x r].
  - apply Permutation_nil in HP. subst u'. reflexivity.
  - destruct u' as [|x' r']; [cbn in HL; lia|].
    rewrite <- HL. rewrite <- !(tmem_perm _ _ _ HP).
    rewrite HT by discriminate. reflexivity.
Qed.

(* the code as it is: the merged label depends neither on the enumeration of the set nor on its iteration order *)
Lemma merge_ret_independent s1 s2 u u' hv :
  perm_oracle s1 -> perm_oracle s2 -> Permutation u u' -> merge_ret s1 u hv = merge_ret s2 u' hv.
Proof.
  intros H1 H2 HP. unfold merge_ret. apply merge_head_indep; [exact HP|]. intros _.
  rewrite <- (Permutation_length HP).
  destruct (Z.of_nat (List.length u) =? 1) eqn:E; [|reflexivity].
  apply pop_or_int_len1; assumption.
Qed.

Definition rev_oracle (l : list ident) : list ident := rev l.
Definition id_oracle (l : list ident) : list ident := l.

Lemma rev_oracle_perm : perm_oracle rev_oracle.
Proof. intro l. apply Permutation_sym, Permutation_rev. Qed.

Lemma id_oracle_perm : perm_oracle id_oracle.
Proof. intro l. apply Permutation_refl. Qed.

(* the unconditional pop(): two list types, no scalar - the label follows the iteration order *)
Lemma merge_ret_pop_refuted :
  exists s1 s2 u, perm_oracle s1 /\ perm_oracle s2 /\ NoDup u /\
    merge_ret_pop s1 u false = JTy (txt "list[int]") /\ merge_ret_pop s2 u false = JTy (txt "list[float]") /\
    merge_ret s1 u false = JTy l_int /\ merge_ret s2 u false = JTy l_int.
Proof.
  exists id_oracle, rev_oracle, [txt "list[int]"; txt "list[float]"].
  split; [exact id_oracle_perm|]. split; [exact rev_oracle_perm|].
  split.
  - constructor; [|constructor; [intros []|constructor]].
    intros [H|[]]. vm_compute in H. discriminate.
  - repeat split; vm_compute; reflexivity.
Qed.

(* ... and is harmless exactly where at most one list type is left *)
Lemma merge_ret_pop_partial s1 s2 u u' hv :
  perm_oracle s1 -> perm_oracle s2 -> Permutation u u' -> one_list_type u = true ->
  merge_ret_pop s1 u hv = merge_ret_pop s2 u' hv.
Proof.
  intros H1 H2 HP HG. unfold merge_ret_pop.
  unfold merge_head.
  assert (HL : List.length u = List.length u') by (apply Permutation_length; exact HP).
  destruct u as [|x r].
  - apply Permutation_nil in HP. subst u'. reflexivity.
  - destruct u' as [|x' r']; [cbn in HL; lia|].
    rewrite <- HL. rewrite <- !(tmem_perm _ _ _ HP).
    unfold one_list_type in HG.
    destruct hv; [reflexivity|].
    destruct (tmem l_string (x :: r)); [reflexivity|].
    destruct (tmem l_float (x :: r)); [reflexivity|].
    destruct (tmem l_bool (x :: r) && (Z.of_nat (List.length (x :: r)) =? 1)); [reflexivity|].
    destruct (tmem l_int (x :: r)); [reflexivity|].
    cbn [orb] in HG. apply Z.leb_le in HG.
    apply pop_or_int_len1; try assumption.
    apply Z.eqb_eq. cbn [List.length] in *. lia.
Qed.

Lemma one_list_type_example : one_list_type [txt "list[int]"; txt "int"; txt "bool"] = true /\ one_list_type [txt "list[int]"; txt "list[bool]"] = false.
Proof. split; vm_compute; reflexivity. Qed.
