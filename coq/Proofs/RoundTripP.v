(* Round trip, nested level: the block-skeleton parser of Lang/Lex.v ([parse_m], the model of
   _parse_simple_lines) applied to ANY layout inside the guard of Lang/Layout.v gives back the
   skeleton.  Hence two layouts of the same skeleton are parsed alike. *)
From Coq Require Import ZArith List Bool Lia Arith.
From RV Require Import Base.Wire Base.Text Lang.Lex Lang.PyLayout Lang.Layout Proofs.RelayoutP.
Import ListNotations.
Open Scope Z_scope.

(* ================================================================ unfolding parse_m *)

Lemma parse_m_nil f m : parse_m (S f) m [] = [].
Proof. reflexivity. Qed.

Lemma parse_m_cons f m raw rest :
  parse_m (S f) m (raw :: rest) =
  match probe m raw (strip raw) with
  | PSkip => parse_m (S f) m rest
  | PBranch k next =>
      let blk := take_block (indent_of raw) rest in
      NBlock k (strip raw) blk (parse_m f MMain blk) :: parse_m f next (skipn (length blk) rest)
  | PNone =>
      let s := strip (strip_inline_comment raw) in
      if is_nil s || starts_hash s then parse_m (S f) MMain rest
      else match classify s with
           | Some k =>
               let blk := take_block (indent_of raw) rest in
               NBlock k s blk (parse_m f MMain blk)
                 :: parse_m f (mode_after k (indent_of raw)) (skipn (length blk) rest)
           | None => NLeaf s :: parse_m (S f) MMain rest
           end
  end.
Proof. reflexivity. Qed.

(* ================================================================ take_block = longest prefix of deep lines *)

Fixpoint drop_block (base : nat) (ls : list text) : list text :=
  match ls with
  | [] => []
  | l :: r => if deep base l then drop_block base r else ls
  end.

Lemma take_block_deep b l r : take_block b (l :: r) = if deep b l then l :: take_block b r else [].
Proof.
  cbn [take_block]. unfold deep. destruct (is_blank l); [reflexivity|]. cbn [orb].
  destruct (Nat.leb_spec (indent_of l) b) as [H|H]; destruct (Nat.ltb_spec b (indent_of l)) as [H'|H']; try lia; reflexivity.
Qed.

Lemma skipn_take_block b ls : skipn (length (take_block b ls)) ls = drop_block b ls.
Proof.
  induction ls as [|l r IH]; [reflexivity|].
  rewrite take_block_deep. cbn [drop_block]. destruct (deep b l); [cbn [length skipn]; exact IH|reflexivity].
Qed.

Lemma take_block_app b X Y : forallb (deep b) X = true -> take_block b (X ++ Y) = X ++ take_block b Y.
Proof.
  induction X as [|x r IH]; intro H; [reflexivity|].
  cbn [forallb] in H. apply andb_true_iff in H as [Hx Hr].
  cbn [app]. rewrite take_block_deep, Hx, (IH Hr). reflexivity.
Qed.

Lemma drop_block_app b X Y : forallb (deep b) X = true -> drop_block b (X ++ Y) = drop_block b Y.
Proof.
  induction X as [|x r IH]; intro H; [reflexivity|].
  cbn [forallb] in H. apply andb_true_iff in H as [Hx Hr].
  cbn [app drop_block]. rewrite Hx. exact (IH Hr).
Qed.

(* a list of junk lines followed by a line that is not deep (or by nothing): how take_block splits it *)
Lemma split_pre b (P : text -> bool) : forall pre, forallb P pre = true ->
  exists A B, pre = A ++ B /\ forallb (deep b) A = true /\ forallb P A = true /\ forallb P B = true /\
    (forallb (deep b) pre = true -> B = []) /\
    (take_block b pre = A /\ drop_block b pre = B) /\
    (forall l X, deep b l = false -> take_block b (pre ++ l :: X) = A /\ drop_block b (pre ++ l :: X) = B ++ l :: X).
Proof.
  induction pre as [|x r IH]; intro HP.
  - exists [], []. repeat split; try reflexivity.
    + cbn [app]. rewrite take_block_deep, H. reflexivity.
    + cbn [app drop_block]. rewrite H. reflexivity.
  - cbn [forallb] in HP. apply andb_true_iff in HP as [Hx Hr].
    destruct (deep b x) eqn:Ed.
    + destruct (IH Hr) as (A & B & E & HA & HPA & HPB & Hall & [Ht Hd] & Hs).
      exists (x :: A), B. repeat split.
      * cbn [app]. rewrite E. reflexivity.
      * cbn [forallb]. rewrite Ed, HA. reflexivity.
      * cbn [forallb]. rewrite Hx, HPA. reflexivity.
      * exact HPB.
      * intro H. cbn [forallb] in H. apply andb_true_iff in H as [_ H]. exact (Hall H).
      * rewrite take_block_deep, Ed, Ht. reflexivity.
      * cbn [drop_block]. rewrite Ed. exact Hd.
      * cbn [app]. rewrite take_block_deep, Ed. destruct (Hs l X H) as [-> _]. reflexivity.
      * cbn [app drop_block]. rewrite Ed. destruct (Hs l X H) as [_ ->]. reflexivity.
    + exists [], (x :: r). repeat split; try reflexivity.
      * cbn [forallb]. rewrite Hx, Hr. reflexivity.
      * intro H. cbn [forallb] in H. rewrite Ed in H. discriminate.
      * rewrite take_block_deep, Ed. reflexivity.
      * cbn [drop_block]. rewrite Ed. reflexivity.
      * cbn [app]. rewrite take_block_deep, Ed. reflexivity.
      * cbn [app drop_block]. rewrite Ed. reflexivity.
Qed.

(* ================================================================ junk lines are skipped *)

Lemma starts_hash_lstrip_sic l : comment_only l = true -> strip (strip_inline_comment l) = [].
Proof.
  unfold comment_only. intro H. destruct (lstrip_split l) as (w & Hw & E).
  destruct (lstrip l) as [|c q] eqn:El; [discriminate|]. cbn [starts_hash] in H. apply Z.eqb_eq in H. subst c.
  unfold strip_inline_comment. rewrite E, (sic_cut_blank_app w _ Hw).
  cbn [sic_cut]. unfold ch_bslash, ch_squote, ch_dquote, ch_hash. cbn [Z.eqb Pos.eqb andb negb option_map].
  rewrite app_nil_r. unfold strip.
  assert (Hr : rstrip w = []) by (apply rstrip_nil_blank; exact Hw).
  rewrite Hr. reflexivity.
Qed.

Lemma blank_strip l : is_blank l = true -> strip l = [].
Proof. intro H. unfold strip. rewrite (lstrip_blank l H). reflexivity. Qed.

Lemma blank_sic l : is_blank l = true -> strip_inline_comment l = l.
Proof. intro H. unfold strip_inline_comment. rewrite (sic_cut_blank l H). reflexivity. Qed.

Lemma re_kw_cond_first kw t c q : kw = c :: q ->
  match t with x :: _ => (x =? c) = false | [] => True end -> re_kw_cond kw t = false.
Proof.
  intros -> H. unfold re_kw_cond. destruct t as [|x r]; [reflexivity|]. cbn [drop_prefix].
  rewrite Z.eqb_sym, H. reflexivity.
Qed.
Lemma re_kw_colon_first kw t c q : kw = c :: q ->
  match t with x :: _ => (x =? c) = false | [] => True end -> re_kw_colon kw t = false.
Proof.
  intros -> H. unfold re_kw_colon. destruct t as [|x r]; [reflexivity|]. cbn [drop_prefix].
  rewrite Z.eqb_sym, H. reflexivity.
Qed.

Lemma strip_comment_head l : comment_only l = true -> exists q, strip l = ch_hash :: q.
Proof.
  unfold comment_only. intro H. unfold strip. destruct (lstrip l) as [|c q]; [discriminate|].
  cbn [starts_hash] in H. apply Z.eqb_eq in H. subst c.
  cbn [rstrip]. unfold ch_hash at 1. cbn [is_space Z.leb Z.eqb Z.compare Pos.compare Pos.compare_cont andb orb].
  eexists. reflexivity.
Qed.

Lemma probe_comment m l : comment_only l = true -> probe m l (strip l) = PNone.
Proof.
  intro H. destruct (strip_comment_head l H) as [q E]. rewrite E.
  destruct m as [|base|base]; [reflexivity| |]; cbn [probe is_nil].
  - destruct (negb (indent_of l =? base)%nat); [reflexivity|].
    unfold re_elif, re_else, kw_elif, kw_else, ch_hash. cbn. reflexivity.
  - destruct (negb (indent_of l =? base)%nat); [reflexivity|].
    unfold re_except, kw_except, ch_hash. cbn. reflexivity.
Qed.

Lemma skip_junk f m l rest : junk l = true ->
  exists m', (m' = m \/ m' = MMain) /\ parse_m (S f) m (l :: rest) = parse_m (S f) m' rest.
Proof.
  unfold junk. intro H. rewrite parse_m_cons.
  destruct (is_blank l) eqn:Eb.
  - rewrite (blank_strip l Eb), (blank_sic l Eb), (blank_strip l Eb).
    destruct m as [|base|base]; cbn [probe is_nil orb].
    + exists MMain. split; [left; reflexivity|reflexivity].
    + exists (MIf base). split; [left; reflexivity|reflexivity].
    + exists (MTry base). split; [left; reflexivity|reflexivity].
  - cbn [orb] in H. rewrite (probe_comment m l H), (starts_hash_lstrip_sic l H). cbn [is_nil orb].
    exists MMain. split; [right; reflexivity|reflexivity].
Qed.

Lemma parse_all_junk f : forall js m, forallb junk js = true -> parse_m f m js = [].
Proof.
  destruct f as [|f]; [reflexivity|].
  induction js as [|l r IH]; intros m H; [reflexivity|].
  cbn [forallb] in H. apply andb_true_iff in H as [Hl Hr].
  destruct (skip_junk f m l r Hl) as (m' & _ & E). rewrite E. apply IH. exact Hr.
Qed.

(* skipping the junk lines in front of a statement: the mode stays or falls back to MMain;
   it stays when there is no junk line *)
Lemma skip_pre f : forall pre m L, forallb junk pre = true ->
  exists m', (m' = m \/ m' = MMain) /\ (pre = [] -> m' = m) /\ parse_m (S f) m (pre ++ L) = parse_m (S f) m' L.
Proof.
  induction pre as [|l r IH]; intros m L H.
  - exists m. split; [left; reflexivity|split; [reflexivity|reflexivity]].
  - cbn [forallb] in H. apply andb_true_iff in H as [Hl Hr].
    destruct (skip_junk f m l (r ++ L) Hl) as (m1 & Hm1 & E1).
    destruct (IH m1 L Hr) as (m2 & Hm2 & _ & E2).
    exists m2. split; [|split; [discriminate|]].
    + destruct Hm2 as [Hm2|Hm2]; subst m2; [exact Hm1|right; reflexivity].
    + cbn [app]. rewrite E1. exact E2.
Qed.

(* ================================================================ sizes, guard unfolding *)

Fixpoint tsize (n : ltree) : nat :=
  match n with
  | LLeaf _ _ _ => 1%nat
  | LBlock _ _ _ _ body => S ((fix ls (l : list ltree) : nat := match l with [] => O | x :: r => (tsize x + ls r)%nat end) body)
  end.
Fixpoint lsize (ns : list ltree) : nat := match ns with [] => O | x :: r => (tsize x + lsize r)%nat end.

Lemma tsize_block pre k h tr body : tsize (LBlock pre k h tr body) = S (lsize body).
Proof. reflexivity. Qed.

Lemma tsize_pos n : (1 <= tsize n)%nat.
Proof. destruct n; [cbn; lia|rewrite tsize_block; lia]. Qed.

Lemma wf_tree_block ind top d pre k h tr body :
  wf_tree ind top d (LBlock pre k h tr body) =
  forallb (junk_ok (if is_cont k then Some (iind ind d) else jbound ind d)) pre
  && stmt_ok h && hdr_ok k h && trail_ok (negb (is_cont k) && negb top) tr
  && wf_seq ind false (S d) CNone body.
Proof.
  cbn [wf_tree]. f_equal. generalize CNone. induction body as [|m r IH]; intro c; [reflexivity|].
  cbn [wf_seq]. rewrite <- IH. reflexivity.
Qed.

Lemma junk_ok_junk b l : junk_ok b l = true -> junk l = true.
Proof. unfold junk_ok. intro H. apply andb_true_iff in H as [H _]. exact H. Qed.

Lemma forallb_impl {A} (P Q : A -> bool) l : (forall x, P x = true -> Q x = true) -> forallb P l = true -> forallb Q l = true.
Proof. intros H HP. rewrite forallb_forall in *. intros x Hx. apply H, HP, Hx. Qed.

Lemma deep_weaken b b' l : (b <= b')%nat -> deep b' l = true -> deep b l = true.
Proof.
  unfold deep. intros Hle H. destruct (is_blank l); [reflexivity|]. cbn [orb] in *.
  apply Nat.ltb_lt in H. apply Nat.ltb_lt. lia.
Qed.

Lemma clash_drop p : forall s y, clash p s = true -> drop_prefix p (s ++ y) = None.
Proof.
  induction p as [|a p IH]; intros s y H; [destruct s; discriminate|].
  destruct s as [|b s]; [discriminate|]. cbn [clash] in H. cbn [app drop_prefix].
  destruct (a =? b); [apply IH; exact H|reflexivity].
Qed.

(* ================================================================ one statement line *)

Section Line.
  Variables (w s tr : text).
  Hypothesis Hw : ws_only w = true.
  Hypothesis Hs : stmt_ok s = true.
  Hypothesis Hnc : no_cont s = true.

  Lemma probe_stmt m : probe m (w ++ s ++ tr) (strip (w ++ s ++ tr)) = PNone.
  Proof.
    destruct (line_strip_prefix w s tr Hw Hs) as [y Ey]. rewrite Ey.
    destruct (stmt_parts s Hs) as (c & q & E & _).
    unfold no_cont in Hnc. apply andb_true_iff in Hnc as [H12 H3]. apply andb_true_iff in H12 as [H1 H2].
    destruct m as [|base|base]; [reflexivity| |]; cbn [probe].
    - replace (is_nil (s ++ y)) with false by (rewrite E; reflexivity).
      destruct (negb (indent_of (w ++ s ++ tr) =? base)%nat); [reflexivity|].
      unfold re_elif, re_else, re_kw_cond, re_kw_colon. rewrite (clash_drop _ s y H1), (clash_drop _ s y H2). reflexivity.
    - replace (is_nil (s ++ y)) with false by (rewrite E; reflexivity).
      destruct (negb (indent_of (w ++ s ++ tr) =? base)%nat); [reflexivity|].
      unfold re_except. rewrite (clash_drop _ s y H3). reflexivity.
  Qed.

  Lemma stmt_not_nil_hash : is_nil s || starts_hash s = false.
  Proof.
    destruct (stmt_parts s Hs) as (c & q & E & _ & Hh & _). rewrite E. cbn [is_nil starts_hash orb].
    apply Z.eqb_neq. exact Hh.
  Qed.

  Lemma leaf_step f m rest : trail_ok true tr = true -> classify s = None ->
    parse_m (S f) m ((w ++ s ++ tr) :: rest) = NLeaf s :: parse_m (S f) MMain rest.
  Proof.
    intros Ht Hc. rewrite parse_m_cons, probe_stmt. cbv zeta.
    rewrite (line_code w s tr Hw Hs Ht), stmt_not_nil_hash, Hc. reflexivity.
  Qed.

  Lemma block_step f m rest k : trail_ok true tr = true -> classify s = Some k ->
    parse_m (S f) m ((w ++ s ++ tr) :: rest) =
    NBlock k s (take_block (indent_of w) rest) (parse_m f MMain (take_block (indent_of w) rest))
      :: parse_m f (mode_after k (indent_of w)) (skipn (length (take_block (indent_of w) rest)) rest).
  Proof.
    intros Ht Hc. rewrite parse_m_cons, probe_stmt. cbv zeta.
    rewrite (line_code w s tr Hw Hs Ht), stmt_not_nil_hash, Hc, (line_indent w s tr Hw Hs). reflexivity.
  Qed.
End Line.

Definition mode_of_c (c : cstate) (base : nat) : pmode :=
  match c with CNone => MMain | CIf => MIf base | CTry => MTry base end.

(* an elif / else / except line in the mode left by the preceding branch *)
Lemma cont_step w h tr k c f rest :
  ws_only w = true -> stmt_ok h = true -> is_blank tr = true ->
  is_cont k = true -> hdr_ok k h = true -> accepts c k = true ->
  parse_m (S f) (mode_of_c c (indent_of w)) ((w ++ h ++ tr) :: rest) =
  NBlock k h (take_block (indent_of w) rest) (parse_m f MMain (take_block (indent_of w) rest))
    :: parse_m f (mode_of_c (after_kind k) (indent_of w)) (skipn (length (take_block (indent_of w) rest)) rest).
Proof.
  intros Hw Hs Hb Hk Hh Ha. rewrite parse_m_cons.
  rewrite (line_strip_blank_trail w h tr Hw Hs Hb), (line_indent w h tr Hw Hs).
  destruct (stmt_parts h Hs) as (x & q & E & _).
  destruct k; try discriminate; destruct c; try discriminate; cbn [mode_of_c probe after_kind hdr_ok] in *.
  - replace (is_nil h) with false by (rewrite E; reflexivity). rewrite ?(line_indent w h tr Hw Hs), Nat.eqb_refl. cbn [negb]. rewrite Hh. reflexivity.
  - replace (is_nil h) with false by (rewrite E; reflexivity). rewrite ?(line_indent w h tr Hw Hs), Nat.eqb_refl. cbn [negb].
    apply andb_true_iff in Hh as [He Hne]. apply negb_true_iff in Hne. rewrite Hne, He. reflexivity.
  - replace (is_nil h) with false by (rewrite E; reflexivity). rewrite ?(line_indent w h tr Hw Hs), Nat.eqb_refl. cbn [negb]. rewrite Hh. reflexivity.
Qed.

(* ================================================================ indentation of depth d *)

Section Unit.
  Variable u : text.
  Hypothesis Hu : unit_ok u = true.
  Let ind := ind_unit u.
  Let I (d : nat) : nat := iind ind d.

  Lemma u_ws : ws_only u = true.
  Proof. unfold unit_ok in Hu. apply andb_true_iff in Hu as [_ H]. exact H. Qed.

  Lemma ws_only_app a b : ws_only a = true -> ws_only b = true -> ws_only (a ++ b) = true.
  Proof. unfold ws_only. intros Ha Hb. rewrite forallb_app, Ha, Hb. reflexivity. Qed.

  Lemma ind_ws d : ws_only (ind d) = true.
  Proof. induction d as [|d IH]; [reflexivity|]. cbn [ind ind_unit]. apply ws_only_app; [exact u_ws|exact IH]. Qed.

  Lemma u_indent_pos : (1 <= indent_of u)%nat.
  Proof.
    unfold unit_ok in Hu. apply andb_true_iff in Hu as [Hn Hw]. destruct u as [|c r]; [discriminate|].
    cbn [ws_only forallb] in Hw. apply andb_true_iff in Hw as [Hc _]. cbn [indent_of].
    destruct (c =? ch_space); [lia|]. destruct (c =? ch_tab); [lia|]. discriminate.
  Qed.

  Lemma I_S d : I (S d) = (indent_of u + I d)%nat.
  Proof. unfold I, iind. cbn [ind ind_unit]. apply indent_of_ws_app. exact u_ws. Qed.

  Lemma I_lt d : (I d < I (S d))%nat.
  Proof. rewrite I_S. pose proof u_indent_pos. lia. Qed.

  Lemma I_mono a b : (a <= b)%nat -> (I a <= I b)%nat.
  Proof. induction 1 as [|b Hle IH]; [lia|]. pose proof (I_lt b). lia. Qed.

  (* a statement line at depth d' > d is deep w.r.t. the header at depth d *)
  Lemma stmt_line_deep d d' s tr : stmt_ok s = true -> (d < d')%nat -> deep (I d) (ind d' ++ s ++ tr) = true.
  Proof.
    intros Hs Hlt. unfold deep. rewrite (line_indent (ind d') s tr (ind_ws d') Hs).
    fold (iind ind d'). fold (I d'). pose proof (I_lt d). pose proof (I_mono (S d) d' Hlt).
    destruct (Nat.ltb_spec (I d) (I d')); [apply orb_true_r|lia].
  Qed.
  Lemma stmt_line_not_deep d s tr : stmt_ok s = true -> deep (I d) (ind d ++ s ++ tr) = false.
  Proof.
    intro Hs. unfold deep. rewrite (line_indent (ind d) s tr (ind_ws d) Hs), (line_not_blank (ind d) s tr Hs).
    fold (iind ind d). fold (I d). cbn [orb]. apply Nat.ltb_irrefl.
  Qed.

  Lemma junk_ok_deep d d' l : (d < d')%nat -> junk_ok (jbound ind d') l = true -> deep (I d) l = true.
  Proof.
    intros Hlt H. destruct d' as [|d'']; [lia|]. cbn [jbound] in H. unfold junk_ok in H.
    apply andb_true_iff in H as [_ H]. apply (deep_weaken (I d) (iind ind d'')); [|exact H].
    apply I_mono. lia.
  Qed.

  (* every rendered line of a sequence at depth d' > d is deep w.r.t. depth d *)
  Lemma render_deep d : forall n ns d' c top, (lsize ns <= n)%nat -> (d < d')%nat ->
    wf_seq ind top d' c ns = true -> forallb (deep (I d)) (render_list ind d' ns) = true.
  Proof.
    induction n as [|n IH]; intros ns d' c top Hsz Hlt Hwf.
    - destruct ns as [|x r]; [reflexivity|]. cbn [lsize] in Hsz. pose proof (tsize_pos x). lia.
    - revert c Hsz Hwf. induction ns as [|x r IHr]; intros c Hsz Hwf; [reflexivity|].
      cbn [wf_seq] in Hwf. apply andb_true_iff in Hwf as [Hwf Hr]. apply andb_true_iff in Hwf as [Hx _].
      cbn [lsize] in Hsz. pose proof (tsize_pos x) as Hpos.
      unfold render_list. cbn [flat_map]. rewrite forallb_app. apply andb_true_iff. split.
      + destruct x as [pre s tr|pre k h tr body].
        * cbn [wf_tree] in Hx. repeat (apply andb_true_iff in Hx as [Hx ?]).
          cbn [render]. rewrite forallb_app. apply andb_true_iff. split.
          -- eapply forallb_impl; [|exact Hx]. intros l Hl. exact (junk_ok_deep d d' l Hlt Hl).
          -- cbn [forallb]. rewrite (stmt_line_deep d d' s tr); [reflexivity|assumption|exact Hlt].
        * rewrite wf_tree_block in Hx. repeat (apply andb_true_iff in Hx as [Hx ?]).
          cbn [render]. rewrite forallb_app. apply andb_true_iff. split.
          -- eapply forallb_impl; [|exact Hx]. intros l Hl. destruct (is_cont k).
             ++ unfold junk_ok in Hl. apply andb_true_iff in Hl as [_ Hl].
                apply (deep_weaken (I d) (iind ind d')); [|exact Hl]. apply I_mono. lia.
             ++ exact (junk_ok_deep d d' l Hlt Hl).
          -- cbn [forallb]. rewrite (stmt_line_deep d d' h tr); [|assumption|exact Hlt]. cbn [andb].
             rewrite tsize_block in Hsz.
             apply (IH body (S d') CNone false); [lia|lia|assumption].
      + apply (IHr (after_node x)); [lia|exact Hr].
  Qed.

  (* ================================================================ nodes *)
  Definition set_pre (p : list text) (n : ltree) : ltree :=
    match n with LLeaf _ s tr => LLeaf p s tr | LBlock _ k h tr body => LBlock p k h tr body end.
  Definition node_pre (n : ltree) : list text := match n with LLeaf p _ _ => p | LBlock p _ _ _ _ => p end.
  Definition node_stmt (n : ltree) : text := match n with LLeaf _ s _ => s | LBlock _ _ h _ _ => h end.
  Definition node_tr (n : ltree) : text := match n with LLeaf _ _ tr => tr | LBlock _ _ _ tr _ => tr end.
  Definition node_rest (d : nat) (n : ltree) : list text :=
    match n with LLeaf _ _ _ => [] | LBlock _ _ _ _ body => render_list ind (S d) body end.
  Definition node_cont (n : ltree) : bool := match n with LBlock _ k _ _ _ => is_cont k | _ => false end.
  Definition node_bound (d : nat) (n : ltree) : option nat := if node_cont n then Some (I d) else jbound ind d.

  Lemma render_node d n : render ind d n = node_pre n ++ (ind d ++ node_stmt n ++ node_tr n) :: node_rest d n.
  Proof. destruct n; reflexivity. Qed.

  Lemma wf_node top d n : wf_tree ind top d n = true ->
    forallb (junk_ok (node_bound d n)) (node_pre n) = true /\ stmt_ok (node_stmt n) = true /\
    forall B, forallb (junk_ok (node_bound d n)) B = true -> wf_tree ind top d (set_pre B n) = true.
  Proof.
    destruct n as [pre s tr|pre k h tr body]; intro H.
    - cbn [wf_tree] in H. apply andb_true_iff in H as [H H5]. apply andb_true_iff in H as [H H4].
      apply andb_true_iff in H as [H H3]. apply andb_true_iff in H as [H1 H2].
      unfold node_bound. cbn [node_cont node_pre node_stmt set_pre]. split; [exact H1|]. split; [exact H2|].
      intros B HB. cbn [wf_tree]. rewrite HB, H2, H3, H4, H5. reflexivity.
    - rewrite wf_tree_block in H. apply andb_true_iff in H as [H H5]. apply andb_true_iff in H as [H H4].
      apply andb_true_iff in H as [H H3]. apply andb_true_iff in H as [H1 H2].
      unfold node_bound. cbn [node_cont node_pre node_stmt set_pre]. fold (I d). split; [exact H1|]. split; [exact H2|].
      intros B HB. rewrite wf_tree_block. fold (I d). rewrite HB, H2, H3, H4, H5. reflexivity.
  Qed.

  Lemma lerase_set_pre B n : lerase (set_pre B n) = lerase n.
  Proof. destruct n; reflexivity. Qed.
  Lemma tsize_set_pre B n : tsize (set_pre B n) = tsize n.
  Proof. destruct n; [reflexivity|rewrite !tsize_block; reflexivity]. Qed.
  Lemma accepts_set_pre c B n : accepts_node c (set_pre B n) = accepts_node c n.
  Proof. destruct n; reflexivity. Qed.
  Lemma after_set_pre B n : after_node (set_pre B n) = after_node n.
  Proof. destruct n; reflexivity. Qed.
  Lemma cont_set_pre B n : node_cont (set_pre B n) = node_cont n.
  Proof. destruct n; reflexivity. Qed.
  Lemma pre_set_pre B n : node_pre (set_pre B n) = B.
  Proof. destruct n; reflexivity. Qed.

  Definition first_ok (m : pmode) (c : cstate) (d : nat) (ns : list ltree) : Prop :=
    match ns with
    | n :: _ => node_cont n = true -> node_pre n = [] /\ m = mode_of_c c (I d)
    | [] => True
    end.

  Lemma first_ok_CNone top d m ns : wf_seq ind top d CNone ns = true -> first_ok m CNone d ns.
  Proof.
    destruct ns as [|n r]; [exact (fun _ => Logic.I)|]. cbn [wf_seq first_ok]. intros H Hc.
    apply andb_true_iff in H as [H _]. apply andb_true_iff in H as [_ Ha].
    destruct n as [|pre k h tr body]; [discriminate|]. cbn [node_cont accepts_node] in *.
    destruct k; discriminate.
  Qed.

  Lemma forallb_and {A} (P Q R : A -> bool) l :
    (forall x, P x = true -> Q x = true -> R x = true) -> forallb P l = true -> forallb Q l = true -> forallb R l = true.
  Proof. intros H HP HQ. rewrite forallb_forall in *. intros x Hx. apply H; [apply HP|apply HQ]; exact Hx. Qed.

  Lemma junk_deep_ok d b l : junk_ok b l = true -> deep (I d) l = true -> junk_ok (jbound ind (S d)) l = true.
  Proof.
    intros Hj Hd. cbn [jbound]. unfold junk_ok. rewrite (junk_ok_junk b l Hj). fold (I d). rewrite Hd. reflexivity.
  Qed.

  Definition main_stmt (f : nat) : Prop :=
    forall ns d c m js,
      (lsize ns <= f)%nat ->
      wf_seq ind false d c ns = true ->
      forallb (junk_ok (jbound ind d)) js = true ->
      (m = MMain \/ m = mode_of_c c (I d)) ->
      first_ok m c d ns ->
      map erase (parse_m f m (render_list ind d ns ++ js)) = map lerase ns.

  Lemma block_tail f (IH : main_stmt f) d c' body r js :
    (lsize body <= f)%nat -> (lsize r <= f)%nat ->
    wf_seq ind false (S d) CNone body = true ->
    wf_seq ind false d c' r = true ->
    forallb (junk_ok (jbound ind d)) js = true ->
    let rest := render_list ind (S d) body ++ render_list ind d r ++ js in
    let blk := take_block (I d) rest in
    map erase (parse_m f MMain blk) = map lerase body /\
    map erase (parse_m f (mode_of_c c' (I d)) (skipn (length blk) rest)) = map lerase r.
  Proof.
    intros Hsb Hsr Hwb Hwr Hjs rest blk. subst blk. rewrite skipn_take_block. subst rest.
    pose proof (render_deep d (lsize body) body (S d) CNone false (le_n _) (Nat.lt_succ_diag_r d) Hwb) as Hdeep.
    rewrite (take_block_app _ _ _ Hdeep), (drop_block_app _ _ _ Hdeep).
    destruct r as [|n2 r2].
    - cbn [render_list flat_map app].
      destruct (split_pre (I d) (junk_ok (jbound ind d)) js Hjs) as (A & B & E & HA & HPA & HPB & _ & [Ht Hd] & _).
      rewrite Ht, Hd. split.
      + apply (IH body (S d) CNone MMain); [exact Hsb|exact Hwb| |left; reflexivity|exact (first_ok_CNone false (S d) MMain body Hwb)].
        eapply forallb_and; [|exact HPA|exact HA]. intros x Hx Hdx. exact (junk_deep_ok d _ x Hx Hdx).
      + rewrite parse_all_junk; [reflexivity|]. eapply forallb_impl; [|exact HPB]. intros x Hx. exact (junk_ok_junk _ x Hx).
    - cbn [wf_seq] in Hwr. apply andb_true_iff in Hwr as [Hw2 Hwr2]. apply andb_true_iff in Hw2 as [Hw2 Hacc].
      destruct (wf_node false d n2 Hw2) as (Hpre2 & Hst2 & Hset).
      assert (EW : render_list ind d (n2 :: r2) ++ js =
                   node_pre n2 ++ (ind d ++ node_stmt n2 ++ node_tr n2) :: node_rest d n2 ++ render_list ind d r2 ++ js).
      { unfold render_list. cbn [flat_map]. rewrite render_node. rewrite <- !app_assoc. cbn [app]. rewrite <- ?app_assoc. reflexivity. }
      rewrite EW.
      destruct (split_pre (I d) (junk_ok (node_bound d n2)) (node_pre n2) Hpre2) as (A & B & E & HA & HPA & HPB & Hall & _ & Hs).
      destruct (Hs (ind d ++ node_stmt n2 ++ node_tr n2) (node_rest d n2 ++ render_list ind d r2 ++ js)
                   (stmt_line_not_deep d _ _ Hst2)) as [Ht Hd].
      unfold text in *. rewrite Ht, Hd. split.
      + apply (IH body (S d) CNone MMain); [exact Hsb|exact Hwb| |left; reflexivity|exact (first_ok_CNone false (S d) MMain body Hwb)].
        eapply forallb_and; [|exact HPA|exact HA]. intros x Hx Hdx. exact (junk_deep_ok d _ x Hx Hdx).
      + assert (ER : B ++ (ind d ++ node_stmt n2 ++ node_tr n2) :: node_rest d n2 ++ render_list ind d r2 ++ js
                     = render_list ind d (set_pre B n2 :: r2) ++ js).
        { unfold render_list. cbn [flat_map]. rewrite render_node.
          replace (node_pre (set_pre B n2)) with B by (destruct n2; reflexivity).
          replace (node_stmt (set_pre B n2)) with (node_stmt n2) by (destruct n2; reflexivity).
          replace (node_tr (set_pre B n2)) with (node_tr n2) by (destruct n2; reflexivity).
          replace (node_rest d (set_pre B n2)) with (node_rest d n2) by (destruct n2; reflexivity).
          rewrite <- !app_assoc. cbn [app]. rewrite <- ?app_assoc. reflexivity. }
        unfold text in *. rewrite ER.
        replace (map lerase (n2 :: r2)) with (map lerase (set_pre B n2 :: r2)) by (cbn [map]; rewrite lerase_set_pre; reflexivity).
        apply (IH (set_pre B n2 :: r2) d c' (mode_of_c c' (I d)) js).
        * cbn [lsize] in *. rewrite tsize_set_pre. exact Hsr.
        * cbn [wf_seq]. rewrite (Hset B HPB), accepts_set_pre, Hacc, after_set_pre, Hwr2. reflexivity.
        * exact Hjs.
        * right. reflexivity.
        * cbn [first_ok]. rewrite cont_set_pre, pre_set_pre. intro Hc. split; [|reflexivity].
          apply Hall. unfold node_bound in Hpre2. rewrite Hc in Hpre2.
          eapply forallb_impl; [|exact Hpre2]. intros x Hx. unfold junk_ok in Hx. apply andb_true_iff in Hx as [_ Hx]. exact Hx.
  Qed.

  Lemma mode_after_nc k b : is_cont k = false -> mode_after k b = mode_of_c (after_kind k) b.
  Proof. destruct k; try discriminate; reflexivity. Qed.

  Lemma hdr_ok_nc k h : is_cont k = false -> hdr_ok k h = true -> classify h = Some k.
  Proof.
    intros Hk H. destruct k; try discriminate; cbn [hdr_ok] in H; apply andb_true_iff in H as [H _];
      destruct (classify h) as [k'|]; try discriminate; destruct k'; try discriminate; reflexivity.
  Qed.
  Lemma hdr_ok_nc_nocont k h : is_cont k = false -> hdr_ok k h = true -> no_cont h = true.
  Proof.
    intros Hk H. destruct k; try discriminate; cbn [hdr_ok] in H; apply andb_true_iff in H as [_ H]; exact H.
  Qed.

  Lemma main_all : forall f, main_stmt f.
  Proof.
    induction f as [|f IHf]; unfold main_stmt; intros ns d c m js Hsz Hwf Hjs Hm Hfirst.
    - destruct ns as [|x r]; [reflexivity|]. cbn [lsize] in Hsz. pose proof (tsize_pos x). lia.
    - revert c m Hsz Hwf Hm Hfirst. induction ns as [|x r IHr]; intros c m Hsz Hwf Hm Hfirst.
      + cbn [render_list flat_map app map]. rewrite parse_all_junk; [reflexivity|].
        eapply forallb_impl; [|exact Hjs]. intros l Hl. exact (junk_ok_junk _ l Hl).
      + cbn [wf_seq] in Hwf. apply andb_true_iff in Hwf as [Hwf Hr]. apply andb_true_iff in Hwf as [Hx Hacc].
        cbn [lsize] in Hsz.
        assert (EW : render_list ind d (x :: r) ++ js =
                     node_pre x ++ (ind d ++ node_stmt x ++ node_tr x) :: node_rest d x ++ render_list ind d r ++ js).
        { unfold render_list. cbn [flat_map]. rewrite render_node. rewrite <- !app_assoc. cbn [app]. rewrite <- ?app_assoc. reflexivity. }
        rewrite EW. clear EW.
        destruct x as [pre s tr|pre k h tr body].
        * (* a simple statement *)
          cbn [wf_tree] in Hx. apply andb_true_iff in Hx as [Hx H5]. apply andb_true_iff in Hx as [Hx H4].
          apply andb_true_iff in Hx as [Hx H3]. apply andb_true_iff in Hx as [H1 H2].
          cbn [node_pre node_stmt node_tr node_rest app].
          assert (Hjunk : forallb junk pre = true).
          { eapply forallb_impl; [|exact H1]. intros l Hl. exact (junk_ok_junk _ l Hl). }
          destruct (skip_pre f pre m ((ind d ++ s ++ tr) :: render_list ind d r ++ js) Hjunk) as (m' & _ & _ & E).
          rewrite E. rewrite (leaf_step (ind d) s tr (ind_ws d) H2 H4 f m' _ H5).
          2:{ destruct (classify s); [discriminate|reflexivity]. }
          cbn [map erase lerase]. f_equal.
          apply (IHr CNone MMain); [pose proof (tsize_pos (LLeaf pre s tr)); cbn [tsize] in *; lia|exact Hr|left; reflexivity|].
          exact (first_ok_CNone false d MMain r Hr).
        * (* a block *)
          rewrite wf_tree_block in Hx. apply andb_true_iff in Hx as [Hx H5]. apply andb_true_iff in Hx as [Hx H4].
          apply andb_true_iff in Hx as [Hx H3]. apply andb_true_iff in Hx as [H1 H2].
          rewrite tsize_block in Hsz.
          cbn [node_pre node_stmt node_tr node_rest].
          cbn [after_node] in Hr. cbn [accepts_node] in Hacc.
          assert (Htail := block_tail f IHf d (after_kind k) body r js ltac:(lia) ltac:(lia) H5 Hr Hjs).
          cbv zeta in Htail. destruct Htail as [Hb Hc].
          destruct (is_cont k) eqn:Ek.
          -- (* elif / else / except *)
             cbn [first_ok node_cont node_pre] in Hfirst. destruct (Hfirst Ek) as [Hp Hmm]. subst pre m.
             cbn [app]. cbn [negb andb] in H4.
             assert (Hbl : is_blank tr = true).
             { unfold trail_ok in H4. cbn [andb] in H4. rewrite orb_false_r in H4. exact H4. }
             change (I d) with (indent_of (ind d)).
             rewrite (cont_step (ind d) h tr k c f _ (ind_ws d) H2 Hbl Ek H3 Hacc).
             cbn [map erase lerase]. change (indent_of (ind d)) with (I d). unfold text in *. rewrite Hb, Hc. reflexivity.
          -- assert (Hjunk : forallb junk pre = true).
             { eapply forallb_impl; [|exact H1]. intros l Hl. exact (junk_ok_junk _ l Hl). }
             destruct (skip_pre f pre m ((ind d ++ h ++ tr) :: render_list ind (S d) body ++ render_list ind d r ++ js) Hjunk)
               as (m' & _ & _ & E).
             rewrite E. cbn [negb andb] in H4.
             rewrite (block_step (ind d) h tr (ind_ws d) H2 (hdr_ok_nc_nocont k h Ek H3) f m' _ k H4 (hdr_ok_nc k h Ek H3)).
             rewrite (mode_after_nc k _ Ek).
             cbn [map erase lerase]. change (indent_of (ind d)) with (I d). unfold text in *. rewrite Hb, Hc. reflexivity.
  Qed.

  Lemma lsize_le_length : forall n ns d, (lsize ns <= n)%nat -> (lsize ns <= length (render_list ind d ns))%nat.
  Proof.
    induction n as [|n IH]; intros ns d Hsz.
    - lia.
    - revert Hsz. induction ns as [|x r IHr]; intro Hsz; [cbn; lia|].
      cbn [lsize] in *. pose proof (tsize_pos x) as Hpos.
      unfold render_list. cbn [flat_map]. rewrite app_length. fold (render_list ind d r).
      assert (Hr : (lsize r <= length (render_list ind d r))%nat) by (apply IHr; lia).
      destruct x as [pre s tr|pre k h tr body].
      + cbn [render tsize]. rewrite app_length. cbn [length]. lia.
      + rewrite tsize_block in *. cbn [render]. rewrite app_length. cbn [length].
        fold (render_list ind (S d) body).
        assert (Hb : (lsize body <= length (render_list ind (S d) body))%nat) by (apply IH; lia). lia.
  Qed.

  (* the round trip for a snippet handed to _parse_simple_lines *)
  Lemma parse_render_nested : forall ns,
    wf_seq ind false O CNone ns = true ->
    map erase (parse_lines (render_list ind O ns)) = map lerase ns.
  Proof.
    intros ns Hwf. unfold parse_lines.
    rewrite <- (app_nil_r (render_list ind 0 ns)) at 2.
    apply (main_all (S (length (render_list ind 0 ns))) ns O CNone MMain []).
    - pose proof (lsize_le_length (lsize ns) ns O (le_n _)). lia.
    - exact Hwf.
    - reflexivity.
    - left. reflexivity.
    - exact (first_ok_CNone false O MMain ns Hwf).
  Qed.
End Unit.

Theorem parse_render_roundtrip : forall u ns,
  layout_ok u ns = true ->
  map erase (parse_lines (render_list (ind_unit u) O ns)) = map lerase ns.
Proof.
  intros u ns H. unfold layout_ok in H. apply andb_true_iff in H as [Hu Hwf].
  exact (parse_render_nested u Hu ns Hwf).
Qed.

(* re-layout invariance: two layouts (junk lines, trailing blanks / comments, indentation unit)
   of the same skeleton are parsed into the same block tree *)
Theorem relayout_invariant : forall u1 u2 ns1 ns2,
  layout_ok u1 ns1 = true -> layout_ok u2 ns2 = true -> map lerase ns1 = map lerase ns2 ->
  map erase (parse_lines (render_list (ind_unit u1) O ns1)) = map erase (parse_lines (render_list (ind_unit u2) O ns2)).
Proof.
  intros u1 u2 ns1 ns2 H1 H2 E.
  rewrite (parse_render_roundtrip u1 ns1 H1), (parse_render_roundtrip u2 ns2 H2). exact E.
Qed.
