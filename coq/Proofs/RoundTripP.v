(* Round trip, nested level: the block-skeleton parser of Lang/Lex.v ([parse_m], the model of
   _parse_simple_lines) applied to ANY layout inside the guard of Lang/Layout.v gives back the
   skeleton.  Hence two layouts of the same skeleton are parsed alike.  Column 0 of the script
   (parse()): a trailing comment on any line is invisible. *)
From Coq Require Import ZArith List Bool Lia Arith.
From RV Require Import Base.Wire Base.Text Lang.Lex Lang.PyLayout Lang.Layout Proofs.RelayoutP.
Import ListNotations.
Open Scope Z_scope.

(* ================================================================ unfolding parse_m *)

Lemma parse_m_nil f m : parse_m (S f) m [] = [].
Proof. reflexivity. Qed.

Lemma parse_m_cons f m raw rest :
  parse_m (S f) m (raw :: rest) =
  let s := strip (strip_inline_comment raw) in
  match probe m raw s with
  | PSkip => parse_m (S f) m rest
  | PBranch k next =>
      let blk := take_block (indent_of raw) rest in
      NBlock k s blk (parse_m f MMain blk) :: parse_m f next (skipn (length blk) rest)
  | PNone =>
      if is_nil s || starts_hash s then parse_m (S f) MMain rest
      else match classify s with
           | Some k =>
               let blk := take_block (indent_of raw) rest in
               NBlock k s blk (parse_m f MMain blk)
                 :: parse_m f (mode_after k (indent_of raw)) (skipn (length blk) rest)
           | None => NLeaf s :: parse_m (S f) MMain rest
           end
  end.
Proof. reflexivity. Qed.

(* ================================================================ take_block = longest prefix of deep lines *)

(* deep b l: the line cannot end a block whose header has indentation b *)
Definition deep (b : nat) (l : text) : bool := junk l || (b <? indent_of l)%nat.

Fixpoint drop_block (base : nat) (ls : list text) : list text :=
  match ls with
  | [] => []
  | l :: r => if deep base l then drop_block base r else ls
  end.

Lemma take_block_deep b l r : take_block b (l :: r) = if deep b l then l :: take_block b r else [].
Proof.
  cbn [take_block]. unfold deep. destruct (junk l); [reflexivity|]. cbn [orb].
  destruct (Nat.leb_spec (indent_of l) b) as [H|H]; destruct (Nat.ltb_spec b (indent_of l)) as [H'|H']; try lia; reflexivity.
Qed.

Lemma skipn_take_block b ls : skipn (length (take_block b ls)) ls = drop_block b ls.
Proof.
  induction ls as [|l r IH]; [reflexivity|].
  rewrite take_block_deep. cbn [drop_block]. destruct (deep b l); [cbn [length skipn]; exact IH|reflexivity].
Qed.

Lemma take_block_app b X Y : forallb (deep b) X = true -> take_block b (X ++ Y) = X ++ take_block b Y.
Proof.
  induction X as [|x r IH]; intro H; [reflexivity|].
  cbn [forallb] in H. apply andb_true_iff in H as [Hx Hr].
  cbn [app]. rewrite take_block_deep, Hx, (IH Hr). reflexivity.
Qed.

Lemma drop_block_app b X Y : forallb (deep b) X = true -> drop_block b (X ++ Y) = drop_block b Y.
Proof.
  induction X as [|x r IH]; intro H; [reflexivity|].
  cbn [forallb] in H. apply andb_true_iff in H as [Hx Hr].
  cbn [app drop_block]. rewrite Hx. exact (IH Hr).
Qed.

Lemma forallb_impl {A} (P Q : A -> bool) l : (forall x, P x = true -> Q x = true) -> forallb P l = true -> forallb Q l = true.
Proof. intros H HP. rewrite forallb_forall in *. intros x Hx. apply H, HP, Hx. Qed.

(* a junk line (blank or comment-only, at any column) never ends a block *)
Lemma junk_deep b l : junk l = true -> deep b l = true.
Proof. unfold deep. intros ->. reflexivity. Qed.

Lemma junk_all_deep b ls : forallb junk ls = true -> forallb (deep b) ls = true.
Proof. apply forallb_impl. intros x Hx. exact (junk_deep b x Hx). Qed.

Lemma take_block_all b X : forallb (deep b) X = true -> take_block b X = X /\ drop_block b X = [].
Proof.
  intro H. rewrite <- (app_nil_r X) at 1 3. rewrite (take_block_app b X [] H), (drop_block_app b X [] H).
  cbn [take_block drop_block]. rewrite app_nil_r. split; reflexivity.
Qed.

(* ================================================================ junk lines are skipped, the mode is kept *)

Lemma skip_junk f m l rest : junk l = true -> parse_m (S f) m (l :: rest) = parse_m (S f) m rest.
Proof.
  intro H. rewrite parse_m_cons. cbv zeta.
  pose proof (probe_blank_is_junk l) as E. rewrite H in E.
  destruct (strip (strip_inline_comment l)) as [|c q]; [|discriminate].
  destruct m; reflexivity.
Qed.

Lemma parse_all_junk f : forall js m, forallb junk js = true -> parse_m f m js = [].
Proof.
  destruct f as [|f]; [reflexivity|].
  induction js as [|l r IH]; intros m H; [reflexivity|].
  cbn [forallb] in H. apply andb_true_iff in H as [Hl Hr].
  rewrite (skip_junk f m l r Hl). apply IH. exact Hr.
Qed.

Lemma skip_pre f : forall pre m L, forallb junk pre = true ->
  parse_m (S f) m (pre ++ L) = parse_m (S f) m L.
Proof.
  induction pre as [|l r IH]; intros m L H; [reflexivity|].
  cbn [forallb] in H. apply andb_true_iff in H as [Hl Hr].
  cbn [app]. rewrite (skip_junk f m l (r ++ L) Hl). exact (IH m L Hr).
Qed.

(* ================================================================ sizes, guard unfolding *)

Fixpoint tsize (n : ltree) : nat :=
  match n with
  | LLeaf _ _ _ => 1%nat
  | LBlock _ _ _ _ body => S ((fix ls (l : list ltree) : nat := match l with [] => O | x :: r => (tsize x + ls r)%nat end) body)
  end.
Fixpoint lsize (ns : list ltree) : nat := match ns with [] => O | x :: r => (tsize x + lsize r)%nat end.

Lemma tsize_block pre k h tr body : tsize (LBlock pre k h tr body) = S (lsize body).
Proof. reflexivity. Qed.

Lemma tsize_pos n : (1 <= tsize n)%nat.
Proof. destruct n; [cbn; lia|rewrite tsize_block; lia]. Qed.

Lemma wf_tree_block pre k h tr body :
  wf_tree (LBlock pre k h tr body) =
  forallb junk pre && stmt_ok h && hdr_ok k h && trail_ok true tr && wf_seq CNone body.
Proof.
  cbn [wf_tree]. f_equal.
  all: generalize CNone; induction body as [|m r IH]; intro c; [reflexivity|];
       cbn [wf_seq]; rewrite <- IH; reflexivity.
Qed.

Lemma clash_drop p : forall s y, clash p s = true -> drop_prefix p (s ++ y) = None.
Proof.
  induction p as [|a p IH]; intros s y H; [destruct s; discriminate|].
  destruct s as [|b s]; [discriminate|]. cbn [clash] in H. cbn [app drop_prefix].
  destruct (a =? b); [apply IH; exact H|reflexivity].
Qed.

(* ================================================================ one statement line *)

Lemma line_not_junk w s tr : ws_only w = true -> stmt_ok s = true -> junk (w ++ s ++ tr) = false.
Proof.
  intros Hw Hs. unfold junk, comment_only. rewrite (line_not_blank w s tr Hs). cbn [orb].
  rewrite (lstrip_blank_app w _ (ws_only_blank w Hw)).
  destruct (stmt_parts s Hs) as (c & q & E & Hsp & Hh & _). rewrite E. cbn [app]. rewrite (lstrip_nonspace c _ Hsp).
  cbn [starts_hash]. apply Z.eqb_neq. exact Hh.
Qed.

Section Line.
  Variables (w s tr : text).
  Hypothesis Hw : ws_only w = true.
  Hypothesis Hs : stmt_ok s = true.
  Hypothesis Hnc : no_cont s = true.
  Hypothesis Ht : trail_ok true tr = true.

  (* an ordinary statement is never taken for elif / else / except *)
  Lemma probe_stmt m raw : probe m raw s = PNone.
  Proof.
    destruct (stmt_parts s Hs) as (c & q & E & _).
    unfold no_cont in Hnc. apply andb_true_iff in Hnc as [H12 H3]. apply andb_true_iff in H12 as [H1 H2].
    pose proof (clash_drop _ s [] H1) as D1. pose proof (clash_drop _ s [] H2) as D2. pose proof (clash_drop _ s [] H3) as D3.
    rewrite app_nil_r in D1, D2, D3.
    destruct m as [|base|base]; [reflexivity| |]; cbn [probe].
    - replace (is_nil s) with false by (rewrite E; reflexivity).
      destruct (negb (indent_of raw =? base)%nat); [reflexivity|].
      unfold re_elif, re_else, re_kw_cond, re_kw_colon. rewrite D1, D2. reflexivity.
    - replace (is_nil s) with false by (rewrite E; reflexivity).
      destruct (negb (indent_of raw =? base)%nat); [reflexivity|].
      unfold re_except. rewrite D3. reflexivity.
  Qed.

  Lemma stmt_not_nil_hash : is_nil s || starts_hash s = false.
  Proof.
    destruct (stmt_parts s Hs) as (c & q & E & _ & Hh & _). rewrite E. cbn [is_nil starts_hash orb].
    apply Z.eqb_neq. exact Hh.
  Qed.

  Lemma leaf_step f m rest : classify s = None ->
    parse_m (S f) m ((w ++ s ++ tr) :: rest) = NLeaf s :: parse_m (S f) MMain rest.
  Proof.
    intros Hc. rewrite parse_m_cons. cbv zeta.
    rewrite (line_code w s tr Hw Hs Ht), probe_stmt, stmt_not_nil_hash, Hc. reflexivity.
  Qed.

  Lemma block_step f m rest k : classify s = Some k ->
    parse_m (S f) m ((w ++ s ++ tr) :: rest) =
    NBlock k s (take_block (indent_of w) rest) (parse_m f MMain (take_block (indent_of w) rest))
      :: parse_m f (mode_after k (indent_of w)) (skipn (length (take_block (indent_of w) rest)) rest).
  Proof.
    intros Hc. rewrite parse_m_cons. cbv zeta.
    rewrite (line_code w s tr Hw Hs Ht), probe_stmt, stmt_not_nil_hash, Hc, (line_indent w s tr Hw Hs). reflexivity.
  Qed.
End Line.

Definition mode_of_c (c : cstate) (base : nat) : pmode :=
  match c with CNone => MMain | CIf => MIf base | CTry => MTry base end.

(* an elif / else / except line - with or without a trailing comment - in the mode left by the
   preceding branch *)
Lemma cont_step w h tr k c f rest :
  ws_only w = true -> stmt_ok h = true -> trail_ok true tr = true ->
  is_cont k = true -> hdr_ok k h = true -> accepts c k = true ->
  parse_m (S f) (mode_of_c c (indent_of w)) ((w ++ h ++ tr) :: rest) =
  NBlock k h (take_block (indent_of w) rest) (parse_m f MMain (take_block (indent_of w) rest))
    :: parse_m f (mode_of_c (after_kind k) (indent_of w)) (skipn (length (take_block (indent_of w) rest)) rest).
Proof.
  intros Hw Hs Ht Hk Hh Ha. rewrite parse_m_cons. cbv zeta.
  rewrite (line_code w h tr Hw Hs Ht).
  destruct (stmt_parts h Hs) as (x & q & E & _).
  destruct k; try discriminate; destruct c; try discriminate; cbn [mode_of_c probe after_kind hdr_ok] in *.
  - replace (is_nil h) with false by (rewrite E; reflexivity). rewrite !(line_indent w h tr Hw Hs), Nat.eqb_refl. cbn [negb]. rewrite Hh. reflexivity.
  - replace (is_nil h) with false by (rewrite E; reflexivity). rewrite !(line_indent w h tr Hw Hs), Nat.eqb_refl. cbn [negb].
    apply andb_true_iff in Hh as [He Hne]. apply negb_true_iff in Hne. rewrite Hne, He. reflexivity.
  - replace (is_nil h) with false by (rewrite E; reflexivity). rewrite !(line_indent w h tr Hw Hs), Nat.eqb_refl. cbn [negb]. rewrite Hh. reflexivity.
Qed.

(* ================================================================ indentation of depth d *)

Definition iind (ind : nat -> text) (d : nat) : nat := indent_of (ind d).

Section Unit.
  Variable u : text.
  Hypothesis Hu : unit_ok u = true.
  Let ind := ind_unit u.
  Let I (d : nat) : nat := iind ind d.

  Lemma u_ws : ws_only u = true.
  Proof. unfold unit_ok in Hu. apply andb_true_iff in Hu as [_ H]. exact H. Qed.

  Lemma ws_only_app a b : ws_only a = true -> ws_only b = true -> ws_only (a ++ b) = true.
  Proof. unfold ws_only. intros Ha Hb. rewrite forallb_app, Ha, Hb. reflexivity. Qed.

  Lemma ind_ws d : ws_only (ind d) = true.
  Proof. induction d as [|d IH]; [reflexivity|]. cbn [ind ind_unit]. apply ws_only_app; [exact u_ws|exact IH]. Qed.

  Lemma u_indent_pos : (1 <= indent_of u)%nat.
  Proof.
    unfold unit_ok in Hu. apply andb_true_iff in Hu as [Hn Hw]. destruct u as [|c r]; [discriminate|].
    cbn [ws_only forallb] in Hw. apply andb_true_iff in Hw as [Hc _]. cbn [indent_of].
    destruct (c =? ch_space); [lia|]. destruct (c =? ch_tab); [lia|]. discriminate.
  Qed.

  Lemma I_S d : I (S d) = (indent_of u + I d)%nat.
  Proof. unfold I, iind. cbn [ind ind_unit]. apply indent_of_ws_app. exact u_ws. Qed.

  Lemma I_lt d : (I d < I (S d))%nat.
  Proof. rewrite I_S. pose proof u_indent_pos. lia. Qed.

  Lemma I_mono a b : (a <= b)%nat -> (I a <= I b)%nat.
  Proof. induction 1 as [|b Hle IH]; [lia|]. pose proof (I_lt b). lia. Qed.

  (* a statement line at depth d' > d is deep w.r.t. the header at depth d *)
  Lemma stmt_line_deep d d' s tr : stmt_ok s = true -> (d < d')%nat -> deep (I d) (ind d' ++ s ++ tr) = true.
  Proof.
    intros Hs Hlt. unfold deep. rewrite (line_indent (ind d') s tr (ind_ws d') Hs).
    fold (iind ind d'). fold (I d'). pose proof (I_lt d). pose proof (I_mono (S d) d' Hlt).
    destruct (Nat.ltb_spec (I d) (I d')); [apply orb_true_r|lia].
  Qed.
  Lemma stmt_line_not_deep d s tr : stmt_ok s = true -> deep (I d) (ind d ++ s ++ tr) = false.
  Proof.
    intro Hs. unfold deep. rewrite (line_indent (ind d) s tr (ind_ws d) Hs), (line_not_junk (ind d) s tr (ind_ws d) Hs).
    fold (iind ind d). fold (I d). cbn [orb]. apply Nat.ltb_irrefl.
  Qed.

  (* every rendered line of a sequence at depth d' > d is deep w.r.t. depth d *)
  Lemma render_deep d : forall n ns d' c, (lsize ns <= n)%nat -> (d < d')%nat ->
    wf_seq c ns = true -> forallb (deep (I d)) (render_list ind d' ns) = true.
  Proof.
    induction n as [|n IH]; intros ns d' c Hsz Hlt Hwf.
    - destruct ns as [|x r]; [reflexivity|]. cbn [lsize] in Hsz. pose proof (tsize_pos x). lia.
    - revert c Hsz Hwf. induction ns as [|x r IHr]; intros c Hsz Hwf; [reflexivity|].
      cbn [wf_seq] in Hwf. apply andb_true_iff in Hwf as [Hwf Hr]. apply andb_true_iff in Hwf as [Hx _].
      cbn [lsize] in Hsz. pose proof (tsize_pos x) as Hpos.
      unfold render_list. cbn [flat_map]. rewrite forallb_app. apply andb_true_iff. split.
      + destruct x as [pre s tr|pre k h tr body].
        * cbn [wf_tree] in Hx. repeat (apply andb_true_iff in Hx as [Hx ?]).
          cbn [render]. rewrite forallb_app. apply andb_true_iff. split.
          -- apply junk_all_deep. exact Hx.
          -- cbn [forallb]. rewrite (stmt_line_deep d d' s tr); [reflexivity|assumption|exact Hlt].
        * rewrite wf_tree_block in Hx. repeat (apply andb_true_iff in Hx as [Hx ?]).
          cbn [render]. rewrite forallb_app. apply andb_true_iff. split.
          -- apply junk_all_deep. exact Hx.
          -- cbn [forallb]. rewrite (stmt_line_deep d d' h tr); [|assumption|exact Hlt]. cbn [andb].
             rewrite tsize_block in Hsz.
             apply (IH body (S d') CNone); [lia|lia|assumption].
      + apply (IHr (after_node x)); [lia|exact Hr].
  Qed.

  (* ================================================================ nodes *)
  Definition set_pre (p : list text) (n : ltree) : ltree :=
    match n with LLeaf _ s tr => LLeaf p s tr | LBlock _ k h tr body => LBlock p k h tr body end.
  Definition node_pre (n : ltree) : list text := match n with LLeaf p _ _ => p | LBlock p _ _ _ _ => p end.
  Definition node_stmt (n : ltree) : text := match n with LLeaf _ s _ => s | LBlock _ _ h _ _ => h end.
  Definition node_tr (n : ltree) : text := match n with LLeaf _ _ tr => tr | LBlock _ _ _ tr _ => tr end.
  Definition node_rest (d : nat) (n : ltree) : list text :=
    match n with LLeaf _ _ _ => [] | LBlock _ _ _ _ body => render_list ind (S d) body end.

  Lemma render_node d n : render ind d n = node_pre n ++ (ind d ++ node_stmt n ++ node_tr n) :: node_rest d n.
  Proof. destruct n; reflexivity. Qed.

  Lemma wf_node n : wf_tree n = true ->
    forallb junk (node_pre n) = true /\ stmt_ok (node_stmt n) = true /\ wf_tree (set_pre [] n) = true.
  Proof.
    destruct n as [pre s tr|pre k h tr body]; intro H.
    - cbn [wf_tree] in H. apply andb_true_iff in H as [H H5]. apply andb_true_iff in H as [H H4].
      apply andb_true_iff in H as [H H3]. apply andb_true_iff in H as [H1 H2].
      cbn [node_pre node_stmt set_pre]. split; [exact H1|]. split; [exact H2|].
      cbn [wf_tree forallb]. rewrite H2, H3, H4, H5. reflexivity.
    - rewrite wf_tree_block in H. apply andb_true_iff in H as [H H5]. apply andb_true_iff in H as [H H4].
      apply andb_true_iff in H as [H H3]. apply andb_true_iff in H as [H1 H2].
      cbn [node_pre node_stmt set_pre]. split; [exact H1|]. split; [exact H2|].
      rewrite wf_tree_block. cbn [forallb]. rewrite H2, H3, H4, H5. reflexivity.
  Qed.

  Lemma lerase_set_pre B n : lerase (set_pre B n) = lerase n.
  Proof. destruct n; reflexivity. Qed.
  Lemma tsize_set_pre B n : tsize (set_pre B n) = tsize n.
  Proof. destruct n; [reflexivity|rewrite !tsize_block; reflexivity]. Qed.
  Lemma accepts_set_pre c B n : accepts_node c (set_pre B n) = accepts_node c n.
  Proof. destruct n; reflexivity. Qed.
  Lemma after_set_pre B n : after_node (set_pre B n) = after_node n.
  Proof. destruct n; reflexivity. Qed.

  (* the statement proved by induction on the fuel: a sequence at depth d, followed by junk lines,
     parsed in the mode left by what precedes it (after an if / elif branch: the elif/else probe;
     after a try / except branch: the except probe) *)
  Definition main_stmt (f : nat) : Prop :=
    forall ns d c js,
      (lsize ns <= f)%nat ->
      wf_seq c ns = true ->
      forallb junk js = true ->
      map erase (parse_m f (mode_of_c c (I d)) (render_list ind d ns ++ js)) = map lerase ns.

  Lemma block_tail f (IH : main_stmt f) d c' body r js :
    (lsize body <= f)%nat -> (lsize r <= f)%nat ->
    wf_seq CNone body = true ->
    wf_seq c' r = true ->
    forallb junk js = true ->
    let rest := render_list ind (S d) body ++ render_list ind d r ++ js in
    let blk := take_block (I d) rest in
    map erase (parse_m f MMain blk) = map lerase body /\
    map erase (parse_m f (mode_of_c c' (I d)) (skipn (length blk) rest)) = map lerase r.
  Proof.
    intros Hsb Hsr Hwb Hwr Hjs rest blk. subst blk. rewrite skipn_take_block. subst rest.
    pose proof (render_deep d (lsize body) body (S d) CNone (le_n _) (Nat.lt_succ_diag_r d) Hwb) as Hdeep.
    rewrite (take_block_app _ _ _ Hdeep), (drop_block_app _ _ _ Hdeep).
    destruct r as [|n2 r2].
    - cbn [render_list flat_map app].
      destruct (take_block_all (I d) js (junk_all_deep _ _ Hjs)) as [Ht Hd].
      rewrite Ht, Hd. split.
      + exact (IH body (S d) CNone js Hsb Hwb Hjs).
      + rewrite parse_all_junk; reflexivity.
    - cbn [wf_seq] in Hwr. apply andb_true_iff in Hwr as [Hw2 Hwr2]. apply andb_true_iff in Hw2 as [Hw2 Hacc].
      destruct (wf_node n2 Hw2) as (Hpre2 & Hst2 & Hset).
      assert (EW : render_list ind d (n2 :: r2) ++ js =
                   node_pre n2 ++ (ind d ++ node_stmt n2 ++ node_tr n2) :: node_rest d n2 ++ render_list ind d r2 ++ js).
      { unfold render_list. cbn [flat_map]. rewrite render_node. rewrite <- !app_assoc. cbn [app]. rewrite <- ?app_assoc. reflexivity. }
      rewrite EW.
      pose proof (junk_all_deep (I d) _ Hpre2) as Hpd.
      rewrite (take_block_app _ _ _ Hpd), (drop_block_app _ _ _ Hpd).
      rewrite take_block_deep. cbn [drop_block]. rewrite (stmt_line_not_deep d _ _ Hst2). rewrite app_nil_r.
      split.
      + exact (IH body (S d) CNone (node_pre n2) Hsb Hwb Hpre2).
      + assert (ER : (ind d ++ node_stmt n2 ++ node_tr n2) :: node_rest d n2 ++ render_list ind d r2 ++ js
                     = render_list ind d (set_pre [] n2 :: r2) ++ js).
        { unfold render_list. cbn [flat_map]. rewrite render_node.
          replace (node_pre (set_pre [] n2)) with (@nil text) by (destruct n2; reflexivity).
          replace (node_stmt (set_pre [] n2)) with (node_stmt n2) by (destruct n2; reflexivity).
          replace (node_tr (set_pre [] n2)) with (node_tr n2) by (destruct n2; reflexivity).
          replace (node_rest d (set_pre [] n2)) with (node_rest d n2) by (destruct n2; reflexivity).
          cbn [app]. rewrite <- ?app_assoc. reflexivity. }
        unfold text in *. rewrite ER.
        replace (map lerase (n2 :: r2)) with (map lerase (set_pre [] n2 :: r2)) by (cbn [map]; rewrite lerase_set_pre; reflexivity).
        apply (IH (set_pre [] n2 :: r2) d c' js).
        * cbn [lsize] in *. rewrite tsize_set_pre. exact Hsr.
        * cbn [wf_seq]. rewrite accepts_set_pre, Hacc, after_set_pre, Hwr2, !andb_true_r. exact Hset.
        * exact Hjs.
  Qed.

  Lemma mode_after_nc k b : is_cont k = false -> mode_after k b = mode_of_c (after_kind k) b.
  Proof. destruct k; try discriminate; reflexivity. Qed.

  Lemma hdr_ok_nc k h : is_cont k = false -> hdr_ok k h = true -> classify h = Some k.
  Proof.
    intros Hk H. destruct k; try discriminate; cbn [hdr_ok] in H; apply andb_true_iff in H as [H _];
      destruct (classify h) as [k'|]; try discriminate; destruct k'; try discriminate; reflexivity.
  Qed.
  Lemma hdr_ok_nc_nocont k h : is_cont k = false -> hdr_ok k h = true -> no_cont h = true.
  Proof.
    intros Hk H. destruct k; try discriminate; cbn [hdr_ok] in H; apply andb_true_iff in H as [_ H]; exact H.
  Qed.

  Lemma main_all : forall f, main_stmt f.
  Proof.
    induction f as [|f IHf]; unfold main_stmt; intros ns d c js Hsz Hwf Hjs.
    - destruct ns as [|x r]; [reflexivity|]. cbn [lsize] in Hsz. pose proof (tsize_pos x). lia.
    - revert c Hsz Hwf. induction ns as [|x r IHr]; intros c Hsz Hwf.
      + cbn [render_list flat_map app map]. rewrite parse_all_junk; [reflexivity|exact Hjs].
      + cbn [wf_seq] in Hwf. apply andb_true_iff in Hwf as [Hwf Hr]. apply andb_true_iff in Hwf as [Hx Hacc].
        cbn [lsize] in Hsz.
        assert (EW : render_list ind d (x :: r) ++ js =
                     node_pre x ++ (ind d ++ node_stmt x ++ node_tr x) :: node_rest d x ++ render_list ind d r ++ js).
        { unfold render_list. cbn [flat_map]. rewrite render_node. rewrite <- !app_assoc. cbn [app]. rewrite <- ?app_assoc. reflexivity. }
        rewrite EW. clear EW.
        destruct x as [pre s tr|pre k h tr body].
        * (* a simple statement *)
          cbn [wf_tree] in Hx. apply andb_true_iff in Hx as [Hx H5]. apply andb_true_iff in Hx as [Hx H4].
          apply andb_true_iff in Hx as [Hx H3]. apply andb_true_iff in Hx as [H1 H2].
          cbn [node_pre node_stmt node_tr node_rest app].
          rewrite (skip_pre f pre _ _ H1).
          rewrite (leaf_step (ind d) s tr (ind_ws d) H2 H4 H5 f _ _).
          2:{ destruct (classify s); [discriminate|reflexivity]. }
          cbn [map erase lerase]. f_equal.
          apply (IHr CNone); [pose proof (tsize_pos (LLeaf pre s tr)); cbn [tsize] in *; lia|exact Hr].
        * (* a block *)
          rewrite wf_tree_block in Hx. apply andb_true_iff in Hx as [Hx H5]. apply andb_true_iff in Hx as [Hx H4].
          apply andb_true_iff in Hx as [Hx H3]. apply andb_true_iff in Hx as [H1 H2].
          rewrite tsize_block in Hsz.
          cbn [node_pre node_stmt node_tr node_rest].
          cbn [after_node] in Hr. cbn [accepts_node] in Hacc.
          assert (Htail := block_tail f IHf d (after_kind k) body r js ltac:(lia) ltac:(lia) H5 Hr Hjs).
          cbv zeta in Htail. destruct Htail as [Hb Hc].
          rewrite (skip_pre f pre _ _ H1).
          destruct (is_cont k) eqn:Ek.
          -- (* elif / else / except, reached in the mode of the preceding branch *)
             change (I d) with (indent_of (ind d)).
             rewrite (cont_step (ind d) h tr k c f _ (ind_ws d) H2 H4 Ek H3 Hacc).
             cbn [map erase lerase]. change (indent_of (ind d)) with (I d). unfold text in *. rewrite Hb, Hc. reflexivity.
          -- rewrite (block_step (ind d) h tr (ind_ws d) H2 (hdr_ok_nc_nocont k h Ek H3) H4 f _ _ k (hdr_ok_nc k h Ek H3)).
             rewrite (mode_after_nc k _ Ek).
             cbn [map erase lerase]. change (indent_of (ind d)) with (I d). unfold text in *. rewrite Hb, Hc. reflexivity.
  Qed.

  Lemma lsize_le_length : forall n ns d, (lsize ns <= n)%nat -> (lsize ns <= length (render_list ind d ns))%nat.
  Proof.
    induction n as [|n IH]; intros ns d Hsz.
    - lia.
    - revert Hsz. induction ns as [|x r IHr]; intro Hsz; [cbn; lia|].
      cbn [lsize] in *. pose proof (tsize_pos x) as Hpos.
      unfold render_list. cbn [flat_map]. rewrite app_length. fold (render_list ind d r).
      assert (Hr : (lsize r <= length (render_list ind d r))%nat) by (apply IHr; lia).
      destruct x as [pre s tr|pre k h tr body].
      + cbn [render tsize]. rewrite app_length. cbn [length]. lia.
      + rewrite tsize_block in *. cbn [render]. rewrite app_length. cbn [length].
        fold (render_list ind (S d) body).
        assert (Hb : (lsize body <= length (render_list ind (S d) body))%nat) by (apply IH; lia). lia.
  Qed.

  (* the round trip for a snippet handed to _parse_simple_lines *)
  Lemma parse_render_nested : forall ns,
    wf_seq CNone ns = true ->
    map erase (parse_lines (render_list ind O ns)) = map lerase ns.
  Proof.
    intros ns Hwf. unfold parse_lines.
    rewrite <- (app_nil_r (render_list ind 0 ns)) at 2.
    apply (main_all (S (length (render_list ind 0 ns))) ns O CNone []).
    - pose proof (lsize_le_length (lsize ns) ns O (le_n _)). lia.
    - exact Hwf.
    - reflexivity.
  Qed.
End Unit.

Theorem parse_render_roundtrip : forall u ns,
  layout_ok u ns = true ->
  map erase (parse_lines (render_list (ind_unit u) O ns)) = map lerase ns.
Proof.
  intros u ns H. unfold layout_ok in H. apply andb_true_iff in H as [Hu Hwf].
  exact (parse_render_nested u Hu ns Hwf).
Qed.

(* re-layout invariance: two layouts (junk lines, trailing blanks / comments, indentation unit)
   of the same skeleton are parsed into the same block tree *)
Theorem relayout_invariant : forall u1 u2 ns1 ns2,
  layout_ok u1 ns1 = true -> layout_ok u2 ns2 = true -> map lerase ns1 = map lerase ns2 ->
  map erase (parse_lines (render_list (ind_unit u1) O ns1)) = map erase (parse_lines (render_list (ind_unit u2) O ns2)).
Proof.
  intros u1 u2 ns1 ns2 H1 H2 E.
  rewrite (parse_render_roundtrip u1 ns1 H1), (parse_render_roundtrip u2 ns2 H2). exact E.
Qed.

(* ================================================================ column 0 of the script: parse() *)

Lemma top_parse_cons f raw rest :
  top_parse (S f) (raw :: rest) =
  let t := strip (strip_inline_comment raw) in
  if is_nil t || starts_hash t then top_parse f rest
  else if top_target t then top_parse f rest
  else if top_import t then top_parse f rest
  else if (indent_of raw =? 0)%nat && re_while_true t then
    let blk := take_block O rest in
    TLoop blk (parse_lines blk) :: top_parse f (skipn (length blk) rest)
  else if (indent_of raw =? 0)%nat && re_while t then
    let blk := take_block O rest in
    TSetup (raw :: blk) (parse_lines (raw :: blk)) :: top_parse f (skipn (length blk) rest)
  else if (indent_of raw =? 0)%nat && re_def t then
    let blk := take_block O rest in
    TDef t blk (parse_lines blk) :: top_parse f (skipn (length blk) rest)
  else if (indent_of raw =? 0)%nat && re_for_range t then
    let blk := take_block O rest in
    TSetup (raw :: blk) (parse_lines (raw :: blk)) :: top_parse f (skipn (length blk) rest)
  else if re_if t then
    let sn := struct_scan re_elif_or_else (indent_of raw) true rest in
    TSetup (raw :: sn) (parse_lines (raw :: sn)) :: top_parse f (skipn (length sn) rest)
  else if re_try t then
    let sn := struct_scan re_except (indent_of raw) true rest in
    TSetup (raw :: sn) (parse_lines (raw :: sn)) :: top_parse f (skipn (length sn) rest)
  else TSetup [raw] (parse_lines [raw]) :: top_parse f rest.
Proof. reflexivity. Qed.

Lemma trail_ok_nil : trail_ok true [] = true.
Proof. reflexivity. Qed.

Section TopLine.
  Variables (h tr : text).
  Hypothesis Hs : stmt_ok h = true.
  Hypothesis Ht : trail_ok true tr = true.

  Lemma raw_code : strip (strip_inline_comment (h ++ tr)) = h.
  Proof. exact (line_code [] h tr eq_refl Hs Ht). Qed.
  Lemma raw_code_plain : strip (strip_inline_comment h) = h.
  Proof. pose proof (line_code [] h [] eq_refl Hs trail_ok_nil) as E. cbn [app] in E. rewrite app_nil_r in E. exact E. Qed.
  Lemma raw_indent : indent_of (h ++ tr) = indent_of h.
  Proof.
    pose proof (line_indent [] h tr eq_refl Hs) as E1. pose proof (line_indent [] h [] eq_refl Hs) as E2.
    cbn [app] in E1, E2. rewrite app_nil_r in E2. rewrite E1, E2. reflexivity.
  Qed.

  (* _parse_simple_lines does not see the trailing comment of the first line of its snippet *)
  Lemma parse_lines_head rest : parse_lines ((h ++ tr) :: rest) = parse_lines (h :: rest).
  Proof.
    unfold parse_lines. cbn [length]. rewrite !parse_m_cons. cbv zeta.
    rewrite raw_code, raw_code_plain, raw_indent. reflexivity.
  Qed.

  (* nor does parse(): whatever the first line is (main loop, while, for, def, if, try, import, a
     simple statement), a trailing comment on it changes neither the block it opens, nor the
     function, nor the phase (setup / loop) of what follows *)
  Lemma top_trailing_comment body :
    map erase_item (parse_top ((h ++ tr) :: body)) = map erase_item (parse_top (h :: body)).
  Proof.
    unfold parse_top. cbn [length]. rewrite !top_parse_cons. cbv zeta.
    rewrite raw_code, raw_code_plain, raw_indent.
    destruct (is_nil h || starts_hash h); [reflexivity|].
    destruct (top_target h); [reflexivity|].
    destruct (top_import h); [reflexivity|].
    destruct ((indent_of h =? 0)%nat && re_while_true h); [reflexivity|].
    destruct ((indent_of h =? 0)%nat && re_while h).
    { cbn [map erase_item]. rewrite parse_lines_head. reflexivity. }
    destruct ((indent_of h =? 0)%nat && re_def h); [reflexivity|].
    destruct ((indent_of h =? 0)%nat && re_for_range h).
    { cbn [map erase_item]. rewrite parse_lines_head. reflexivity. }
    destruct (re_if h).
    { cbn [map erase_item]. rewrite parse_lines_head. reflexivity. }
    destruct (re_try h).
    { cbn [map erase_item]. rewrite parse_lines_head. reflexivity. }
    cbn [map erase_item]. rewrite parse_lines_head. reflexivity.
  Qed.
End TopLine.
