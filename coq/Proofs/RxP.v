(* The derivative matcher of Lang/Rx.v decides membership in the language of the expression. *)
From Coq Require Import ZArith List Bool Lia.
From RV Require Import Base.Wire Base.Text Lang.Rx.
Import ListNotations.
Open Scope Z_scope.

(* ---------------------------------------------------------------- structural equality *)
Lemma citem_eqb_eq a b : citem_eqb a b = true -> a = b.
Proof.
  destruct a, b; cbn; try discriminate; try reflexivity.
  intro H. apply andb_true_iff in H as [H1 H2]. apply Z.eqb_eq in H1, H2. subst. reflexivity.
Qed.
Lemma citems_eqb_eq : forall a b, citems_eqb a b = true -> a = b.
Proof.
  induction a as [|x a IH]; destruct b as [|y b]; cbn; try discriminate; [reflexivity|].
  intro H. apply andb_true_iff in H as [H1 H2]. apply citem_eqb_eq in H1. apply IH in H2. subst. reflexivity.
Qed.
Lemma cc_eqb_eq a b : cc_eqb a b = true -> a = b.
Proof.
  destruct a, b; cbn; try discriminate; [reflexivity|].
  intro H. apply andb_true_iff in H as [H1 H2]. apply Bool.eqb_prop in H1. apply citems_eqb_eq in H2. subst. reflexivity.
Qed.
Lemma rx_eqb_eq : forall a b, rx_eqb a b = true -> a = b.
Proof.
  induction a as [| |k|a1 IH1 a2 IH2|a1 IH1 a2 IH2|a IH]; destruct b; cbn; try discriminate; try reflexivity; intro H.
  - apply cc_eqb_eq in H. subst. reflexivity.
  - apply andb_true_iff in H as [H1 H2]. apply IH1 in H1. apply IH2 in H2. subst. reflexivity.
  - apply andb_true_iff in H as [H1 H2]. apply IH1 in H1. apply IH2 in H2. subst. reflexivity.
  - apply IH in H. subst. reflexivity.
Qed.

(* ---------------------------------------------------------------- nullable *)
Lemma nullable_ok : forall r, nullable r = true <-> lang r [].
Proof.
  induction r as [| |k|a IHa b IHb|a IHa b IHb|a IH]; cbn [nullable lang].
  - split; [discriminate|tauto].
  - split; reflexivity.
  - split; [discriminate|]. intros (c & H & _). discriminate.
  - rewrite andb_true_iff, IHa, IHb. split.
    + intros [Ha Hb]. exists [], []. auto.
    + intros (s1 & s2 & E & Ha & Hb). symmetry in E. apply app_eq_nil in E as [-> ->]. auto.
  - rewrite orb_true_iff, IHa, IHb. tauto.
  - split; [|reflexivity]. intros _. exists []. split; [reflexivity|constructor].
Qed.

(* ---------------------------------------------------------------- smart constructors *)
Lemma alt_has_ok b : forall a s, alt_has b a = true -> lang b s -> lang a s.
Proof.
  induction a as [| |k|a1 IH1 a2 IH2|a1 IH1 a2 IH2|a IH]; intros s H Hb; cbn [alt_has] in H;
    apply orb_true_iff in H as [H|H]; try (apply rx_eqb_eq in H; subst; exact Hb); try discriminate.
  apply orb_true_iff in H as [H|H]; cbn [lang]; [left; apply IH1|right; apply IH2]; assumption.
Qed.

Lemma mk_alt_ok a b s : lang (mk_alt a b) s <-> lang a s \/ lang b s.
Proof.
  assert (G : forall x y, lang (if alt_has y x then x else RAlt x y) s <-> lang x s \/ lang y s).
  { intros x y. destruct (alt_has y x) eqn:E; [|reflexivity]. split; [tauto|].
    intros [H|H]; [exact H|exact (alt_has_ok y x s E H)]. }
  destruct a; destruct b; unfold mk_alt; try apply G; cbn [lang]; tauto.
Qed.

Lemma cat_nil_l b s : lang (RCat RNil b) s <-> False.
Proof. cbn [lang]. split; [intros (s1 & s2 & _ & F & _); exact F|tauto]. Qed.
Lemma cat_nil_r a s : lang (RCat a RNil) s <-> False.
Proof. cbn [lang]. split; [intros (s1 & s2 & _ & _ & F); exact F|tauto]. Qed.
Lemma cat_eps_l b s : lang (RCat REps b) s <-> lang b s.
Proof.
  cbn [lang]. split; [intros (s1 & s2 & -> & -> & H); exact H|]. intro H. exists [], s. auto.
Qed.
Lemma cat_eps_r a s : lang (RCat a REps) s <-> lang a s.
Proof.
  cbn [lang]. split; [intros (s1 & s2 & -> & H & ->); rewrite app_nil_r; exact H|]. intro H. exists s, []. rewrite app_nil_r. auto.
Qed.

Lemma mk_cat_ok a b s : lang (mk_cat a b) s <-> lang (RCat a b) s.
Proof.
  destruct a; destruct b; unfold mk_cat;
    first [ reflexivity
          | rewrite cat_nil_l; cbn [lang]; tauto
          | rewrite cat_nil_r; cbn [lang]; tauto
          | rewrite cat_eps_l; reflexivity
          | rewrite cat_eps_r; reflexivity ].
Qed.

(* ---------------------------------------------------------------- derivatives *)
Lemma star_cons a c s :
  lang (RStar a) (c :: s) <-> exists s1 s2, s = s1 ++ s2 /\ lang a (c :: s1) /\ lang (RStar a) s2.
Proof.
  cbn [lang]. split.
  - intros (ss & E & F). induction ss as [|x r IH]; [discriminate|].
    inversion F as [|? ? Hx Hr]; subst. destruct x as [|y q].
    + cbn in E. exact (IH E Hr).
    + cbn in E. injection E as -> ->. exists q, (concat r). split; [reflexivity|]. split; [exact Hx|]. exists r. auto.
  - intros (s1 & s2 & -> & H1 & ss & -> & F). exists ((c :: s1) :: ss). split; [reflexivity|]. constructor; assumption.
Qed.

Lemma deriv_ok c : forall r s, lang (deriv c r) s <-> lang r (c :: s).
Proof.
  induction r as [| |k|a IHa b IHb|a IHa b IHb|a IH]; intro s; cbn [deriv].
  - cbn [lang]. tauto.
  - cbn [lang]. split; [tauto|discriminate].
  - destruct (cc_mem k c) eqn:E; cbn [lang].
    + split; [intros ->; exists c; auto|]. intros (c' & H & _). injection H as _ H. exact H.
    + split; [tauto|]. intros (c' & H & M). injection H as -> _. rewrite E in M. discriminate.
  - assert (G : lang (RCat (deriv c a) b) s <-> exists s1 s2, c :: s = (c :: s1) ++ s2 /\ lang a (c :: s1) /\ lang b s2).
    { cbn [lang]. split; intros (s1 & s2 & E & H1 & H2).
      - exists s1, s2. subst. split; [reflexivity|]. rewrite <- IHa. auto.
      - exists s1, s2. injection E as ->. split; [reflexivity|]. rewrite IHa. auto. }
    destruct (nullable a) eqn:En.
    + rewrite mk_alt_ok, mk_cat_ok, G, IHb. cbn [lang]. split.
      * intros [(s1 & s2 & E & H1 & H2)|H]; [exists (c :: s1), s2; auto|]. exists [], (c :: s). split; [reflexivity|].
        split; [apply nullable_ok; exact En|exact H].
      * intros (t1 & t2 & E & H1 & H2). destruct t1 as [|x q].
        -- right. cbn in E. subst t2. exact H2.
        -- left. cbn in E. injection E as <- ->. exists q, t2. auto.
    + rewrite mk_cat_ok, G. cbn [lang]. split.
      * intros (s1 & s2 & E & H1 & H2). exists (c :: s1), s2. auto.
      * intros (t1 & t2 & E & H1 & H2). destruct t1 as [|x q].
        -- exfalso. apply nullable_ok in H1. rewrite En in H1. discriminate.
        -- cbn in E. injection E as <- ->. exists q, t2. auto.
  - rewrite mk_alt_ok, IHa, IHb. cbn [lang]. tauto.
  - rewrite mk_cat_ok, star_cons. cbn [lang]. split; intros (s1 & s2 & E & H1 & H2); exists s1, s2; (split; [exact E|]); (split; [|exact H2]); apply IH; exact H1.
Qed.

Lemma derivs_ok : forall s r t, lang (derivs r s) t <-> lang r (s ++ t).
Proof.
  induction s as [|c q IH]; intros r t; [reflexivity|]. cbn [derivs app]. rewrite IH, deriv_ok. reflexivity.
Qed.

(* THE MATCHER DECIDES THE LANGUAGE *)
Theorem rx_match_ok : forall r s, rx_match r s = true <-> lang r s.
Proof.
  intros r s. unfold rx_match. rewrite nullable_ok, derivs_ok, app_nil_r. reflexivity.
Qed.

(* prefix matching: some prefix of s is in the language *)
Lemma rall_star t : lang (RStar rall) t.
Proof.
  exists (map (fun c => [c]) t). split.
  - induction t as [|c q IH]; [reflexivity|]. cbn. rewrite <- IH. reflexivity.
  - induction t as [|c q IH]; cbn; constructor; [|exact IH]. exists c. split; reflexivity.
Qed.
Theorem rx_prefix_ok : forall r s, rx_prefix r s = true <-> exists p t, s = p ++ t /\ lang r p.
Proof.
  intros r s. unfold rx_prefix. rewrite rx_match_ok. cbn [lang]. split.
  - intros (p & t & E & H & _). exists p, t. auto.
  - intros (p & t & E & H). exists p, t. split; [exact E|]. split; [exact H|apply rall_star].
Qed.
