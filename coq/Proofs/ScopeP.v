(* Proofs about Lang/Scope.v: every assignment the statement translator (Lang/Transl.v) emits
   targets a variable that is visible under C++ block scoping - in setup() always, in loop()
   when setup() has no top-level local - and the two listed counterexamples. *)
From Coq Require Import ZArith List Bool Lia.
From RV Require Import Base.Wire Base.Text Lang.StmtAst Lang.Transl Lang.Scope Proofs.SkeletonP.
Import ListNotations.
Open Scope Z_scope.

(* ------------------------------------------------------------ unfolding *)

Lemma scoped_go_eq aug : forall l V,
  (fix go (V : list ident) (l : list cnode) {struct l} : bool :=
     match l with [] => true | x :: r => scoped_n aug V x && go (decl_of x ++ V) r end) V l
  = scoped_b aug V l.
Proof.
  induction l as [|x r IH]; intro V; [reflexivity|].
  cbn [scoped_b]. rewrite <- IH. reflexivity.
Qed.

Lemma scoped_n_unfold aug V n :
  scoped_n aug V n = match n with
                     | NAssign x e => if checked e || aug then tmem x V else true
                     | NIf bs els => scoped_bs aug V bs && scoped_b aug V els
                     | NWhile _ b => scoped_b aug V b
                     | NFor x _ b => scoped_b aug (x :: V) b
                     | _ => true
                     end.
Proof.
  destruct n; try reflexivity; cbn; rewrite ?scoped_go_eq; try reflexivity.
  f_equal. induction branches as [|[c b] r IH]; [reflexivity|].
  cbn. rewrite scoped_go_eq. f_equal. exact IH.
Qed.

(* ------------------------------------------------------------ visible set after a prefix *)

Definition vafter (V : list ident) (l : list cnode) : list ident :=
  fold_left (fun acc n => decl_of n ++ acc) l V.

Lemma vafter_In l : forall V x, In x (vafter V l) <-> In x (topdecls l) \/ In x V.
Proof.
  induction l as [|n r IH]; intros V x.
  - cbn. tauto.
  - change (vafter V (n :: r)) with (vafter (decl_of n ++ V) r).
    change (topdecls (n :: r)) with (decl_of n ++ topdecls r).
    rewrite IH, !in_app_iff. tauto.
Qed.

Lemma scoped_b_app aug l1 : forall V l2,
  scoped_b aug V (l1 ++ l2) = scoped_b aug V l1 && scoped_b aug (vafter V l1) l2.
Proof.
  induction l1 as [|n r IH]; intros V l2; [reflexivity|].
  cbn [app scoped_b vafter fold_left]. rewrite IH, andb_assoc. reflexivity.
Qed.

Lemma topdecls_app a b : topdecls (a ++ b) = topdecls a ++ topdecls b.
Proof. unfold topdecls. apply flat_map_app. Qed.

(* ------------------------------------------------------------ monotone in the visible set *)

Definition mono_at aug (n : cnode) : Prop :=
  forall V V', incl V V' -> scoped_n aug V n = true -> scoped_n aug V' n = true.

Lemma scoped_b_mono_gen aug l :
  Forall (mono_at aug) l ->
  forall V V', incl V V' -> scoped_b aug V l = true -> scoped_b aug V' l = true.
Proof.
  induction 1 as [|n r Hn _ IH]; intros V V' I H; [reflexivity|].
  cbn [scoped_b] in *. apply andb_true_iff in H as [H1 H2]. apply andb_true_iff. split.
  - eapply Hn; eauto.
  - eapply IH; [|exact H2]. apply incl_app; [apply incl_appl, incl_refl|apply incl_appr, I].
Qed.

Lemma scoped_bs_mono_gen aug bs :
  Forall (fun cb => Forall (mono_at aug) (snd cb)) bs ->
  forall V V', incl V V' -> scoped_bs aug V bs = true -> scoped_bs aug V' bs = true.
Proof.
  induction 1 as [|[c b] r Hb _ IH]; intros V V' I H; [reflexivity|].
  cbn [scoped_bs] in *. apply andb_true_iff in H as [H1 H2]. apply andb_true_iff. split.
  - eapply scoped_b_mono_gen; eauto.
  - eapply IH; eauto.
Qed.

Lemma scoped_n_mono aug n : mono_at aug n.
Proof.
  induction n using cnode_ind'; unfold mono_at; intros V V' I; rewrite !scoped_n_unfold; try (intros; reflexivity).
  - (* NAssign *) destruct (checked e || aug); [|auto]. rewrite !tmem_In. auto.
  - (* NIf *) rewrite !andb_true_iff. intros [A B]. split.
    + eapply scoped_bs_mono_gen; eauto.
    + eapply scoped_b_mono_gen; eauto.
  - eapply scoped_b_mono_gen; eauto.
  - apply scoped_b_mono_gen; [assumption|]. apply incl_cons; [left; reflexivity|apply incl_tl, I].
Qed.

Lemma scoped_b_mono aug l V V' : incl V V' -> scoped_b aug V l = true -> scoped_b aug V' l = true.
Proof. apply scoped_b_mono_gen. apply Forall_forall. intros; apply scoped_n_mono. Qed.

(* ------------------------------------------------------------ the two rewriters *)

(* a rewriter that only turns declarations of promoted names into assignments *)
Definition rw_ok aug (pn : list ident) (f : cnode -> cnode) (n : cnode) : Prop :=
  forall V V', incl V V' -> incl pn V' -> scoped_n aug V n = true ->
    scoped_n aug V' (f n) = true /\ incl (decl_of n ++ V) (decl_of (f n) ++ V').

Lemma rw_list aug pn f l :
  Forall (rw_ok aug pn f) l ->
  forall V V', incl V V' -> incl pn V' -> scoped_b aug V l = true -> scoped_b aug V' (map f l) = true.
Proof.
  induction 1 as [|n r Hn _ IH]; intros V V' I P H; [reflexivity|].
  cbn [scoped_b map] in *. apply andb_true_iff in H as [H1 H2].
  destruct (Hn V V' I P H1) as [A B]. apply andb_true_iff. split; [exact A|].
  eapply IH; [exact B| |exact H2]. apply incl_appr. exact P.
Qed.

Lemma rw_lists aug pn f bs :
  Forall (fun cb => Forall (rw_ok aug pn f) (snd cb)) bs ->
  forall V V', incl V V' -> incl pn V' -> scoped_bs aug V bs = true ->
  scoped_bs aug V' (map (fun cb => (fst cb, map f (snd cb))) bs) = true.
Proof.
  induction 1 as [|[c b] r Hb _ IH]; intros V V' I P H; [reflexivity|].
  cbn [scoped_bs map fst snd] in *. apply andb_true_iff in H as [H1 H2]. apply andb_true_iff. split.
  - eapply rw_list; [exact Hb|exact I|exact P|exact H1].
  - eapply IH; [exact I|exact P|exact H2].
Qed.

Lemma decl_case aug pn (f : cnode -> cnode) x t e V V' :
  f (NDecl x t e false) = (if tmem x pn then NAssign x e else NDecl x t e false) ->
  incl V V' -> incl pn V' ->
  scoped_n aug V' (f (NDecl x t e false)) = true /\
  incl (decl_of (NDecl x t e false) ++ V) (decl_of (f (NDecl x t e false)) ++ V').
Proof.
  intros E I P. rewrite E. destruct (tmem x pn) eqn:M.
  - apply tmem_In in M. split.
    + rewrite scoped_n_unfold. destruct (checked e || aug); [|reflexivity]. apply tmem_In. apply P. exact M.
    + cbn. intros y [<-|Hy]; [apply P; exact M|apply I; exact Hy].
  - split; [reflexivity|]. cbn. intros y [<-|Hy]; [left; reflexivity|right; apply I; exact Hy].
Qed.

Lemma same_case aug (f : cnode -> cnode) n V V' :
  f n = n -> incl V V' -> scoped_n aug V n = true ->
  scoped_n aug V' (f n) = true /\ incl (decl_of n ++ V) (decl_of (f n) ++ V').
Proof.
  intros E I H. rewrite E. split; [eapply scoped_n_mono; eauto|].
  apply incl_app; [apply incl_appl, incl_refl|apply incl_appr, I].
Qed.

Lemma rewrite_if_ok aug pn n : rw_ok aug pn (rewrite_if pn) n.
Proof.
  induction n using cnode_ind'; unfold rw_ok; intros V V' I P Hs;
    try (apply (same_case aug (rewrite_if pn)); [rewrite rewrite_if_unfold; reflexivity|exact I|exact Hs]).
  - (* NDecl *) destruct g.
    + apply (same_case aug (rewrite_if pn)); [rewrite rewrite_if_unfold; reflexivity|exact I|exact Hs].
    + apply (decl_case aug pn (rewrite_if pn)); [rewrite rewrite_if_unfold; reflexivity|exact I|exact P].
  - (* NIf *) rewrite rewrite_if_unfold. rewrite scoped_n_unfold in Hs. apply andb_true_iff in Hs as [A B].
    split.
    + rewrite scoped_n_unfold. apply andb_true_iff. split.
      * eapply rw_lists; [exact H|exact I|exact P|exact A].
      * eapply rw_list; [exact H0|exact I|exact P|exact B].
    + cbn. exact I.
Qed.

Lemma rewrite_deep_ok aug pn n : rw_ok aug pn (rewrite_deep pn) n.
Proof.
  induction n using cnode_ind'; unfold rw_ok; intros V V' I P Hs;
    try (apply (same_case aug (rewrite_deep pn)); [rewrite rewrite_deep_unfold; reflexivity|exact I|exact Hs]).
  - destruct g.
    + apply (same_case aug (rewrite_deep pn)); [rewrite rewrite_deep_unfold; reflexivity|exact I|exact Hs].
    + apply (decl_case aug pn (rewrite_deep pn)); [rewrite rewrite_deep_unfold; reflexivity|exact I|exact P].
  - rewrite rewrite_deep_unfold. rewrite scoped_n_unfold in Hs. apply andb_true_iff in Hs as [A B].
    split.
    + rewrite scoped_n_unfold. apply andb_true_iff. split.
      * eapply rw_lists; [exact H|exact I|exact P|exact A].
      * eapply rw_list; [exact H0|exact I|exact P|exact B].
    + cbn. exact I.
  - rewrite rewrite_deep_unfold. rewrite scoped_n_unfold in Hs. split.
    + rewrite scoped_n_unfold. eapply rw_list; [exact H|exact I|exact P|exact Hs].
    + cbn. exact I.
  - rewrite rewrite_deep_unfold. rewrite scoped_n_unfold in Hs. split.
    + rewrite scoped_n_unfold. eapply rw_list; [exact H| | |exact Hs].
      * apply incl_cons; [left; reflexivity|apply incl_tl, I].
      * apply incl_tl. exact P.
    + cbn. exact I.
Qed.

Lemma scoped_map_rewrite_if aug pn l V V' :
  incl V V' -> incl pn V' -> scoped_b aug V l = true -> scoped_b aug V' (map (rewrite_if pn) l) = true.
Proof. apply rw_list. apply Forall_forall. intros; apply rewrite_if_ok. Qed.

Lemma scoped_map_rewrite_deep aug pn l V V' :
  incl V V' -> incl pn V' -> scoped_b aug V l = true -> scoped_b aug V' (map (rewrite_deep pn) l) = true.
Proof. apply rw_list. apply Forall_forall. intros; apply rewrite_deep_ok. Qed.

(* dropping the hoisted declarations of names that are visible anyway *)
Lemma scoped_drop aug pn : forall l V V',
  incl V V' -> incl pn V' -> scoped_b aug V l = true -> scoped_b aug V' (drop_hoisted pn l) = true.
Proof.
  unfold drop_hoisted. induction l as [|n r IH]; intros V V' I P H; [reflexivity|].
  cbn [scoped_b] in H. apply andb_true_iff in H as [H1 H2]. cbn [filter].
  destruct (is_hoisted pn n) eqn:E; cbn [negb].
  - apply (IH (decl_of n ++ V) V'); [|exact P|exact H2].
    destruct n; try discriminate E. cbn [is_hoisted] in E. destruct init; try discriminate E. destruct glob; [discriminate E|].
    cbn [decl_of app]. apply incl_cons; [apply P; apply tmem_In; exact E|exact I].
  - cbn [scoped_b]. apply andb_true_iff. split; [exact (scoped_n_mono aug n V V' I H1)|].
    apply (IH (decl_of n ++ V) (decl_of n ++ V')); [|apply incl_appr; exact P|exact H2].
    apply incl_app; [apply incl_appl, incl_refl|apply incl_appr, I].
Qed.

Lemma scoped_rewrite_if_drop aug pn l V V' :
  incl V V' -> incl pn V' -> scoped_b aug V l = true -> scoped_b aug V' (map (rewrite_if pn) (drop_hoisted pn l)) = true.
Proof.
  intros I P H. apply scoped_map_rewrite_if with (V := V'); [apply incl_refl|exact P|]. exact (scoped_drop aug pn l V V' I P H).
Qed.

Lemma scoped_rewrite_deep_drop aug pn l V V' :
  incl V V' -> incl pn V' -> scoped_b aug V l = true -> scoped_b aug V' (map (rewrite_deep pn) (drop_hoisted pn l)) = true.
Proof.
  intros I P H. apply scoped_map_rewrite_deep with (V := V'); [apply incl_refl|exact P|]. exact (scoped_drop aug pn l V V' I P H).
Qed.

(* ------------------------------------------------------------ what one translated block guarantees *)

Definition gn (s : tst) : list ident := gnames (globals s).

(* post s ns s': translating from state s gave block ns and state s'.  Globals only grow; and
   whenever everything Python has bound so far (declared s) and every global (of s', hence of s)
   is visible, every checked assignment of ns is well-scoped, and every name bound afterwards is
   an old one, a top-level local of ns, or a global *)
Definition post (s : tst) (ns : list cnode) (s' : tst) : Prop :=
  incl (gn s) (gn s') /\
  forall V, incl (declared s) V -> incl (gn s') V ->
    scoped_b false V ns = true /\
    (forall y, In y (declared s') -> In y (declared s) \/ In y (topdecls ns) \/ In y (gn s')).

Lemma post_nil s : post s [] s.
Proof.
  split; [apply incl_refl|]. intros V _ _. split; [reflexivity|]. intros y Hy; left; exact Hy.
Qed.

Lemma post_ext s0 s ns s' :
  declared s = declared s0 -> globals s = globals s0 -> post s0 ns s' -> post s ns s'.
Proof. unfold post, gn. intros -> ->. tauto. Qed.

Lemma post_seq s ns0 s1 ms s2 : post s ns0 s1 -> post s1 ms s2 -> post s (ns0 ++ ms) s2.
Proof.
  intros [M1 P1] [M2 P2]. split; [eapply incl_tran; eauto|].
  intros V HD HG.
  destruct (P1 V HD (incl_tran M2 HG)) as [S1 C1].
  assert (HD1 : incl (declared s1) (vafter V ns0)).
  { intros y Hy. apply vafter_In. destruct (C1 y Hy) as [A|[A|A]];
      [right; apply HD; exact A|left; exact A|right; apply HG, M2; exact A]. }
  assert (HG1 : incl (gn s2) (vafter V ns0)).
  { intros y Hy. apply vafter_In. right. apply HG; exact Hy. }
  destruct (P2 _ HD1 HG1) as [S2 C2]. split.
  - rewrite scoped_b_app, S1, S2. reflexivity.
  - intros y Hy. rewrite topdecls_app, in_app_iff. destruct (C2 y Hy) as [A|[A|A]]; [|tauto|tauto].
    destruct (C1 y A) as [B|[B|B]]; [tauto|tauto|]. right; right. apply M2; exact B.
Qed.

Lemma scoped_assign V x e r :
  checked e = true -> In x V -> scoped_b false V (NAssign x e :: r) = scoped_b false V r.
Proof.
  intros C I. cbn [scoped_b]. rewrite scoped_n_unfold, C. cbn [orb decl_of app].
  apply tmem_In in I. rewrite I. reflexivity.
Qed.

Lemma gn_add_global g s : gn (add_global g s) = gn s ++ [g_name g].
Proof. unfold gn, gnames. cbn. apply map_app. Qed.

Lemma has_global_In x s : has_global x s = true -> In x (gn s).
Proof.
  unfold has_global, gn, gnames. rewrite existsb_exists. intros (g & Hg & E).
  apply text_eqb_eq in E. subst x. apply in_map. exact Hg.
Qed.

Lemma fold_with_ty prom : forall s,
  declared (fold_left (fun acc xt => with_ty (fst xt) (snd xt) acc) prom s) = declared s /\
  globals (fold_left (fun acc xt => with_ty (fst xt) (snd xt) acc) prom s) = globals s.
Proof.
  induction prom as [|[x t] r IH]; intro s; cbn [fold_left]; [split; reflexivity|].
  destruct (IH (with_ty x t s)) as [A B]. split; [exact A|exact B].
Qed.

Lemma set_tys_same xs : forall es s,
  declared (set_tys xs es s) = declared s /\ globals (set_tys xs es s) = globals s.
Proof.
  induction xs as [|x xr IH]; intros [|e er] s; cbn [set_tys]; try (split; reflexivity).
  destruct (IH er (with_ty x (a_ty e) s)) as [A B]. split; [exact A|exact B].
Qed.

(* ------------------------------------------------------------ single-name assignment *)

Lemma tr_assign_post glob x e s :
  post s (fst (tr_assign glob x e s)) (snd (tr_assign glob x e s)).
Proof.
  unfold tr_assign. destruct (is_declared x s) eqn:D.
  - cbn [fst snd]. unfold is_declared in D. apply tmem_In in D.
    split; [apply incl_refl|]. intros V HD HG. split.
    + rewrite scoped_assign; [reflexivity|reflexivity|apply HD; exact D].
    + intros y Hy. left. exact Hy.
  - destruct glob; [destruct (closed_const e)|]; cbn [fst snd].
    + split; [rewrite gn_add_global; apply incl_appl, incl_refl|]. intros V HD HG. split; [reflexivity|].
      intros y Hy. cbn in Hy. apply in_app_iff in Hy as [Hy|[<-|[]]]; [left; exact Hy|].
      right; right. rewrite gn_add_global. apply in_app_iff. right. left. reflexivity.
    + split; [rewrite gn_add_global; apply incl_appl, incl_refl|]. intros V HD HG. split.
      * rewrite scoped_assign; [reflexivity|reflexivity|]. apply HG. rewrite gn_add_global.
        apply in_app_iff. right. left. reflexivity.
      * intros y Hy. cbn in Hy. apply in_app_iff in Hy as [Hy|[<-|[]]]; [left; exact Hy|].
        right; right. rewrite gn_add_global. apply in_app_iff. right. left. reflexivity.
    + split; [apply incl_refl|]. intros V HD HG. split; [reflexivity|].
      intros y Hy. cbn in Hy. apply in_app_iff in Hy as [Hy|[<-|[]]]; [left; exact Hy|].
      right; left. cbn. left. reflexivity.
Qed.

(* ------------------------------------------------------------ tuple assignment *)

Lemma tuple_global_post : forall xs es s,
  post s (fst (tuple_global xs es s)) (snd (tuple_global xs es s)).
Proof.
  induction xs as [|x xr IH]; intros [|e er] s; cbn [tuple_global fst snd]; try apply post_nil.
  set (g := {| g_name := x; g_ty := a_ty e; g_init := XE (a_id e) |}).
  set (g' := {| g_name := x; g_ty := a_ty e; g_init := XDefault (a_ty e) |}).
  destruct (closed_const e).
  - specialize (IH er (add_global g (declare x s))).
    destruct (tuple_global xr er (add_global g (declare x s))) as [rest s3]. cbn [fst snd] in *.
    change rest with ([] ++ rest). eapply post_seq; [|exact IH].
    split; [rewrite gn_add_global; apply incl_appl, incl_refl|]. intros V HD HG. split; [reflexivity|].
    intros y Hy. cbn in Hy. apply in_app_iff in Hy as [Hy|[<-|[]]]; [left; exact Hy|].
    right; right. rewrite gn_add_global. apply in_app_iff. right. left. reflexivity.
  - specialize (IH er (add_global g' (declare x s))).
    destruct (tuple_global xr er (add_global g' (declare x s))) as [rest s3]. cbn [fst snd] in *.
    eapply post_seq; [|exact IH].
    split; [rewrite gn_add_global; apply incl_appl, incl_refl|]. intros V HD HG. split.
    + rewrite scoped_assign; [reflexivity|reflexivity|]. apply HG. rewrite gn_add_global.
      apply in_app_iff. right. left. reflexivity.
    + intros y Hy. cbn in Hy. apply in_app_iff in Hy as [Hy|[<-|[]]]; [left; exact Hy|].
      right; right. rewrite gn_add_global. apply in_app_iff. right. left. reflexivity.
Qed.

Lemma tuple_tmps_scoped es : forall k V,
  scoped_b false V (tuple_tmps es k) = true /\ topdecls (tuple_tmps es k) = [].
Proof.
  induction es as [|e er IH]; intros k V; cbn [tuple_tmps]; [split; reflexivity|].
  destruct (IH (k + 1) V) as [A B]. split; [cbn; exact A|cbn; exact B].
Qed.

Lemma tuple_binds_post : forall xs es k s,
  post s (fst (tuple_binds xs es k s)) (snd (tuple_binds xs es k s)).
Proof.
  induction xs as [|x xr IH]; intros [|e er] k s; cbn [tuple_binds fst snd]; try apply post_nil.
  destruct (is_declared x s) eqn:D.
  - specialize (IH er (k + 1) s). destruct (tuple_binds xr er (k + 1) s) as [rest s2]. cbn [fst snd] in *.
    change (NAssign x (XTmp k) :: rest) with ([NAssign x (XTmp k)] ++ rest). eapply post_seq; [|exact IH].
    unfold is_declared in D. apply tmem_In in D.
    split; [apply incl_refl|]. intros V HD HG. split.
    + rewrite scoped_assign; [reflexivity|reflexivity|apply HD; exact D].
    + intros y Hy. left. exact Hy.
  - specialize (IH er (k + 1) (declare x s)). destruct (tuple_binds xr er (k + 1) (declare x s)) as [rest s2].
    cbn [fst snd] in *.
    change (NDecl x (a_ty e) (XTmp k) false :: rest) with ([NDecl x (a_ty e) (XTmp k) false] ++ rest).
    eapply post_seq; [|exact IH].
    split; [apply incl_refl|]. intros V HD HG. split; [reflexivity|].
    intros y Hy. cbn in Hy. apply in_app_iff in Hy as [Hy|[<-|[]]]; [left; exact Hy|].
    right; left. cbn. left. reflexivity.
Qed.

Lemma tuple_binds_main_post : forall xs es k s,
  post s (fst (tuple_binds_main xs es k s)) (snd (tuple_binds_main xs es k s)).
Proof.
  induction xs as [|x xr IH]; intros [|e er] k s; cbn [tuple_binds_main fst snd]; try apply post_nil.
  destruct (is_declared x s) eqn:D.
  - specialize (IH er (k + 1) s). destruct (tuple_binds_main xr er (k + 1) s) as [rest s2]. cbn [fst snd] in *.
    change (NAssign x (XTmp k) :: rest) with ([NAssign x (XTmp k)] ++ rest). eapply post_seq; [|exact IH].
    unfold is_declared in D. apply tmem_In in D.
    split; [apply incl_refl|]. intros V HD HG. split.
    + rewrite scoped_assign; [reflexivity|reflexivity|apply HD; exact D].
    + intros y Hy. left. exact Hy.
  - match goal with |- context [tuple_binds_main xr er (k + 1) ?S] => specialize (IH er (k + 1) S); destruct (tuple_binds_main xr er (k + 1) S) as [rest s2] eqn:ET end.
    cbn [fst snd] in *.
    change (NAssign x (XTmp k) :: rest) with ([NAssign x (XTmp k)] ++ rest).
    eapply post_seq; [|exact IH].
    split.
    + rewrite gn_add_global. apply incl_appl, incl_refl.
    + intros V HD HG. split.
      * rewrite scoped_assign; [reflexivity|reflexivity|]. apply HG. rewrite gn_add_global. apply in_or_app. right. left. reflexivity.
      * intros y Hy. cbn in Hy. apply in_app_iff in Hy as [Hy|[<-|[]]]; [left; exact Hy|].
        right; right. rewrite gn_add_global. apply in_or_app. right. left. reflexivity.
Qed.

Lemma tr_tuple_main_post xs es s ns s' : tr_tuple_main xs es s = Some (ns, s') -> post s ns s'.
Proof.
  unfold tr_tuple_main. destruct (negb _); [discriminate|].
  set (es' := firstn (length xs) es).
  destruct (set_tys_same xs es' s) as [SD SG].
  set (k := tmpc (set_tys xs es' s)).
  set (s2 := with_tmpc (k + Z.of_nat (length es')) (set_tys xs es' s)).
  pose proof (tuple_binds_main_post xs es' k s2) as P.
  destruct (tuple_binds_main xs es' k s2) as [binds s3]. cbn [fst snd] in P.
  intros [= <- <-].
  eapply post_seq; [|eapply post_ext; [| |exact P]].
  + split; [apply incl_refl|]. intros V HD HG. destruct (tuple_tmps_scoped es' k V) as [A B].
    split; [exact A|]. intros y Hy. left. exact Hy.
  + unfold s2. cbn. symmetry. exact SD.
  + unfold s2. cbn. symmetry. exact SG.
Qed.

Lemma tr_tuple_post glob xs es s ns s' : tr_tuple glob xs es s = Some (ns, s') -> post s ns s'.
Proof.
  unfold tr_tuple. destruct (negb _); [discriminate|].
  set (es' := firstn (length xs) es).
  destruct (set_tys_same xs es' s) as [SD SG].
  destruct (_ && glob).
  - intros [= E]. pose proof (tuple_global_post xs es' (set_tys xs es' s)) as P. rewrite E in P.
    cbn [fst snd] in P. eapply post_ext; [| |exact P]; congruence.
  - set (k := tmpc (set_tys xs es' s)).
    set (s2 := with_tmpc (k + Z.of_nat (length es')) (set_tys xs es' s)).
    pose proof (tuple_binds_post xs es' k s2) as P.
    destruct (tuple_binds xs es' k s2) as [binds s3]. cbn [fst snd] in P.
    intros [= <- <-].
    eapply post_seq; [|eapply post_ext; [| |exact P]].
    + split; [apply incl_refl|]. intros V HD HG. destruct (tuple_tmps_scoped es' k V) as [A B].
      split; [exact A|]. intros y Hy. left. exact Hy.
    + unfold s2. cbn. symmetry. exact SD.
    + unfold s2. cbn. symmetry. exact SG.
Qed.

(* ------------------------------------------------------------ promotion declarations *)

Lemma promo_cons glob x t r s :
  promo_decls glob ((x, t) :: r) s =
  let s0 := if tmem x (map fst (vtypes s)) then s else with_ty x TyInt s in
  let s1 := if is_declared x s0 then s0 else declare x s0 in
  if glob then
    promo_decls glob r (if has_global x s1 then s1
                        else add_global {| g_name := x; g_ty := t; g_init := XDefault t |} s1)
  else let '(rest, s2) := promo_decls glob r s1 in (NDecl x t (XDefault t) false :: rest, s2).
Proof. reflexivity. Qed.

Lemma promo_spec glob : forall names s decls s3,
  promo_decls glob names s = (decls, s3) ->
  (forall y, In y (declared s3) <-> In y (declared s) \/ In y (map fst names)) /\
  incl (gn s) (gn s3) /\
  (glob = true -> decls = [] /\ incl (map fst names) (gn s3)) /\
  (glob = false -> topdecls decls = map fst names /\ forall V, scoped_b false V decls = true).
Proof.
  induction names as [|[x t] r IH]; intros s decls s3 H.
  - cbn in H. inversion H; subst. split; [intro y; cbn; tauto|]. split; [apply incl_refl|].
    split; intros _; split; try reflexivity. intros y [].
  - rewrite promo_cons in H. cbv zeta in H.
    remember (if tmem x (map fst (vtypes s)) then s else with_ty x TyInt s) as s0 eqn:E0.
    remember (if is_declared x s0 then s0 else declare x s0) as s1 eqn:E1.
    assert (D0 : declared s0 = declared s /\ globals s0 = globals s).
    { subst s0. destruct (tmem x (map fst (vtypes s))); split; reflexivity. }
    destruct D0 as [D0 G0].
    assert (D1 : (forall y, In y (declared s1) <-> In y (declared s) \/ x = y) /\ globals s1 = globals s).
    { subst s1. destruct (is_declared x s0) eqn:E.
      - unfold is_declared in E. apply tmem_In in E. rewrite D0 in E. split; [|exact G0].
        intro y. rewrite D0. split; [tauto|]. intros [Hy| <-]; assumption.
      - split; [|cbn; exact G0]. intro y. cbn. rewrite in_app_iff, D0. cbn. tauto. }
    destruct D1 as [D1 G1].
    destruct glob.
    + remember (if has_global x s1 then s1
                else add_global {| g_name := x; g_ty := t; g_init := XDefault t |} s1) as s2 eqn:E2.
      assert (F2 : declared s2 = declared s1 /\ incl (gn s1) (gn s2) /\ In x (gn s2)).
      { subst s2. destruct (has_global x s1) eqn:E.
        - split; [reflexivity|]. split; [apply incl_refl|apply has_global_In; exact E].
        - split; [reflexivity|]. rewrite gn_add_global. split; [apply incl_appl, incl_refl|].
          apply in_app_iff. right. left. reflexivity. }
      destruct F2 as (F2a & F2b & F2c).
      destruct (IH s2 decls s3 H) as (A & B & C & _). destruct (C eq_refl) as [C1 C2].
      assert (GS : gn s = gn s1) by (unfold gn; rewrite G1; reflexivity).
      split; [|split; [|split]].
      * intro y. rewrite A, F2a, D1. cbn. tauto.
      * rewrite GS. eapply incl_tran; eauto.
      * intros _. split; [exact C1|]. cbn. intros y [<-|Hy]; [apply B; exact F2c|apply C2; exact Hy].
      * discriminate.
    + destruct (promo_decls false r s1) as [rest s2] eqn:Er. inversion H; subst decls s3.
      destruct (IH s1 rest s2 Er) as (A & B & _ & C). destruct (C eq_refl) as [C1 C2].
      assert (GS : gn s = gn s1) by (unfold gn; rewrite G1; reflexivity).
      split; [|split; [|split]].
      * intro y. rewrite A, D1. cbn. tauto.
      * rewrite GS. exact B.
      * discriminate.
      * intros _. split; [unfold topdecls in *; cbn; rewrite C1; reflexivity|]. intro V.
        cbn [scoped_b]. rewrite scoped_n_unfold. cbn [andb decl_of]. apply C2.
Qed.

(* a control node preceded by its promotion declarations *)
Lemma promo_wrap glob prom sA decls s3 node s V :
  promo_decls glob prom sA = (decls, s3) ->
  declared sA = declared s ->
  incl (declared s) V -> incl (gn s3) V ->
  decl_of node = [] ->
  (forall V', incl V V' -> incl (map fst prom) V' -> scoped_n false V' node = true) ->
  scoped_b false V (decls ++ [node]) = true /\
  (forall y, In y (declared s3) -> In y (declared s) \/ In y (topdecls (decls ++ [node])) \/ In y (gn s3)).
Proof.
  intros H DA HD HG DN HN.
  destruct (promo_spec glob prom sA decls s3 H) as (A & B & C & D).
  destruct glob.
  - destruct (C eq_refl) as [-> C2]. split.
    + cbn [app scoped_b]. rewrite HN; [reflexivity|apply incl_refl|]. eapply incl_tran; eauto.
    + intros y Hy. apply A in Hy as [Hy|Hy]; [left; rewrite <- DA; exact Hy|right; right; apply C2; exact Hy].
  - destruct (D eq_refl) as [D1 D2]. split.
    + rewrite scoped_b_app, D2. cbn [andb scoped_b]. rewrite HN; [reflexivity| |].
      * intros y Hy. apply vafter_In. right. exact Hy.
      * intros y Hy. apply vafter_In. left. rewrite D1. exact Hy.
    + intros y Hy. apply A in Hy as [Hy|Hy]; [left; rewrite <- DA; exact Hy|].
      right; left. rewrite topdecls_app, in_app_iff. left. rewrite D1. exact Hy.
Qed.

(* ------------------------------------------------------------ control nodes with their promotions *)

Lemma map_fst_pair {A B} (f : A -> B) l : map fst (map (fun x => (x, f x)) l) = l.
Proof. induction l as [|a l IH]; cbn; [reflexivity|]. rewrite IH. reflexivity. Qed.

Lemma wrap_post glob s prom sA decls s3 node cs :
  promo_decls glob prom sA = (decls, s3) ->
  declared sA = declared s -> globals sA = globals cs -> incl (gn s) (gn cs) ->
  decl_of node = [] ->
  (forall V V', incl (declared s) V -> incl (gn cs) V -> incl V V' -> incl (map fst prom) V' ->
     scoped_n false V' node = true) ->
  post s (decls ++ [node]) s3.
Proof.
  intros Ep DA GA MG DN HN.
  destruct (promo_spec _ _ _ _ _ Ep) as (_ & B & _ & _).
  assert (G3 : incl (gn cs) (gn s3)). { unfold gn in *. rewrite GA in B. exact B. }
  split; [eapply incl_tran; eauto|].
  intros V HD HG.
  eapply promo_wrap; [exact Ep|exact DA|exact HD|exact HG|exact DN|].
  intros V' I P. eapply HN; [exact HD| |exact I|exact P]. eapply incl_tran; [exact G3|exact HG].
Qed.

Definition good_branch (s : tst) (gl2 : list gdecl) (x : Z * list cnode * tst) : Prop :=
  incl (gn (snd x)) (gnames gl2) /\
  forall V, incl (declared s) V -> incl (gn (snd x)) V -> scoped_b false V (snd (fst x)) = true.

Lemma if_node_scoped pn V V' (brs : list (Z * list cnode * tst)) (els : list cnode) :
  incl V V' -> incl pn V' ->
  Forall (fun x => scoped_b false V (snd (fst x)) = true) brs ->
  scoped_b false V els = true ->
  scoped_n false V' (NIf (map (fun x => (fst (fst x), map (rewrite_if pn) (drop_hoisted pn (snd (fst x))))) brs)
                         (map (rewrite_if pn) (drop_hoisted pn els))) = true.
Proof.
  intros I P F E. rewrite scoped_n_unfold. apply andb_true_iff. split.
  - induction F as [|[[c n] t] r Hx _ IHr]; [reflexivity|].
    cbn [map scoped_bs fst snd] in *. rewrite IHr, andb_true_r.
    exact (scoped_rewrite_if_drop false pn n V V' I P Hx).
  - exact (scoped_rewrite_if_drop false pn els V V' I P E).
Qed.

Lemma if_post glob s prom sA decls s3 (brs : list (Z * list cnode * tst)) (els : list cnode) cs :
  promo_decls glob prom sA = (decls, s3) ->
  declared sA = declared s -> globals sA = globals cs -> incl (gn s) (gn cs) ->
  Forall (good_branch s (globals cs)) brs ->
  (forall V, incl (declared s) V -> incl (gn cs) V -> scoped_b false V els = true) ->
  post s (decls ++ [NIf (map (fun x => (fst (fst x), map (rewrite_if (map fst prom)) (drop_hoisted (map fst prom) (snd (fst x))))) brs)
                        (map (rewrite_if (map fst prom)) (drop_hoisted (map fst prom) els))]) s3.
Proof.
  intros Ep DA GA MG F EL.
  eapply wrap_post; [exact Ep|exact DA|exact GA|exact MG|reflexivity|].
  intros V V' HD HG I P. apply if_node_scoped with (V := V); [exact I|exact P| |].
  - eapply Forall_impl; [|exact F]. intros x [A Bx]. apply Bx; [exact HD|].
    eapply incl_tran; [exact A|exact HG].
  - apply EL; [exact HD|exact HG].
Qed.

(* ------------------------------------------------------------ the main induction *)

Lemma tr_block_post ml : forall fuel glob ld s ps ns s',
  tr_block ml fuel glob ld s ps = Some (ns, s') -> post s ns s'.
Proof.
  induction fuel as [|f IH]; intros glob ld s ps ns s' H; [discriminate|].
  destruct ps as [|p rest]; [inversion H; subst; apply post_nil|].
  assert (K : forall ns0 s1,
             match tr_block ml f glob ld s1 rest with
             | None => None | Some (ms, s2) => Some (ns0 ++ ms, s2) end = Some (ns, s') ->
             post s ns0 s1 -> post s ns s').
  { intros ns0 s1 Hr Hp.
    destruct (tr_block ml f glob ld s1 rest) as [[ms s2]|] eqn:E; [|discriminate].
    inversion Hr; subst. eapply post_seq; [exact Hp|]. eapply IH; eauto. }
  destruct p; cbn [tr_block] in H.
  - (* PAssign *)
    pose proof (tr_assign_post glob x (rt_ann ml e) s) as Hs.
    destruct (tr_assign glob x (rt_ann ml e) s) as [a0 a1]. eapply K; [exact H|exact Hs].
  - (* PAug: the target is not checked *)
    eapply K; [exact H|].
    split; [apply incl_refl|]. intros V HD HG. split; [reflexivity|]. intros y Hy; left; exact Hy.
  - (* PTuple *)
    head_opt H a0 a1 E. eapply K; [exact H|]. destruct (glob && ml); [eapply tr_tuple_main_post; exact E|eapply tr_tuple_post; exact E].
  - (* PIf *)
    head_opt H a0 a1 E. eapply K; [exact H|]. clear H K.
    destruct (tr_block ml f false ld (child_of s (globals s)) body) as [[ns1 cs1]|] eqn:E1; [|discriminate].
    match type of E with
    | context [?B (globals cs1) elifs] => set (BR := B) in *
    end.
    assert (HB : forall l gl brs gl', BR gl l = Some (brs, gl') ->
                 incl (gnames gl) (gnames gl') /\ Forall (good_branch s gl') brs).
    { induction l as [|[c' b] r IHl]; intros gl brs gl' Hb; cbn in Hb.
      - inversion Hb; subst. split; [apply incl_refl|constructor].
      - destruct (tr_block ml f false ld (child_of s gl) b) as [[nsb cs]|] eqn:Eb; [|discriminate].
        destruct (BR (globals cs) r) as [[rest' gl'']|] eqn:Er; [|discriminate].
        inversion Hb; subst. destruct (IHl _ _ _ Er) as [M F]. destruct (IH _ _ _ _ _ _ Eb) as [Mb Pb].
        split; [eapply incl_tran; [exact Mb|exact M]|].
        constructor; [|exact F].
        split; [exact M|]. intros V HD HG. exact (proj1 (Pb V HD HG)). }
    destruct (BR (globals cs1) elifs) as [[brs0 gl1]|] eqn:Ebr; [|discriminate].
    destruct (HB _ _ _ _ Ebr) as [M0 F0]. destruct (IH _ _ _ _ _ _ E1) as [M1 P1].
    destruct els as [|e0 els'].
    + match type of E with context [promo_decls _ ?N _] => remember N as prom eqn:EN end.
      match type of E with context [promo_decls _ _ ?S] => remember S as sA eqn:ES end.
      destruct (promo_decls glob prom sA) as [decls s3] eqn:Ep.
      injection E as <- <-.
      apply (if_post glob s prom sA decls s3 ((a_id c, ns1, cs1) :: brs0) []
                     {| declared := declared s; vtypes := vtypes s; globals := gl1; tmpc := tmpc s |}).
      * exact Ep.
      * rewrite ES. exact (proj1 (fold_with_ty prom _)).
      * rewrite ES. exact (proj2 (fold_with_ty prom _)).
      * eapply incl_tran; [exact M1|exact M0].
      * constructor; [|exact F0]. split; [exact M0|]. intros V HD HG. exact (proj1 (P1 V HD HG)).
      * intros V _ _. reflexivity.
    + destruct (tr_block ml f false ld (child_of s gl1) (e0 :: els')) as [[nse cse]|] eqn:Ee; [|discriminate].
      destruct (IH _ _ _ _ _ _ Ee) as [Me Pe].
      match type of E with context [promo_decls _ ?N _] => remember N as prom eqn:EN end.
      match type of E with context [promo_decls _ _ ?S] => remember S as sA eqn:ES end.
      destruct (promo_decls glob prom sA) as [decls s3] eqn:Ep.
      injection E as <- <-.
      apply (if_post glob s prom sA decls s3 ((a_id c, ns1, cs1) :: brs0) nse cse).
      * exact Ep.
      * rewrite ES. exact (proj1 (fold_with_ty prom _)).
      * rewrite ES. exact (proj2 (fold_with_ty prom _)).
      * eapply incl_tran; [exact M1|]. eapply incl_tran; [exact M0|exact Me].
      * assert (UP : forall x, good_branch s gl1 x -> good_branch s (globals cse) x).
        { intros x [A B]. split; [eapply incl_tran; [exact A|exact Me]|exact B]. }
        constructor; [|eapply Forall_impl; [exact UP|exact F0]].
        apply UP. split; [exact M0|]. intros V HD HG. exact (proj1 (P1 V HD HG)).
      * intros V HD HG. exact (proj1 (Pe V HD HG)).
  - (* PWhile *)
    head_opt H a0 a1 E. eapply K; [exact H|]. clear H K.
    destruct (tr_block ml f false (S ld) (child_of s (globals s)) body) as [[nsb cs]|] eqn:Eb; [|discriminate].
    destruct (IH _ _ _ _ _ _ Eb) as [Mb Pb].
    match type of E with context [NWhile _ (map (rewrite_deep ?PN) _)] => remember PN as pn eqn:EPN end.
    match type of E with context [promo_decls _ ?N _] => remember N as prom eqn:EN end.
    match type of E with context [promo_decls _ _ ?S] => remember S as sA eqn:ES end.
    destruct (promo_decls glob prom sA) as [decls s3] eqn:Ep.
    injection E as <- <-.
    eapply (wrap_post glob s prom sA decls s3 _ cs); [exact Ep| | |exact Mb|reflexivity|].
    + rewrite ES. exact (proj1 (fold_with_ty prom _)).
    + rewrite ES. exact (proj2 (fold_with_ty prom _)).
    + intros V V' HD HG I P. rewrite scoped_n_unfold.
      apply scoped_rewrite_deep_drop with (V := V); [exact I| |exact (proj1 (Pb V HD HG))].
      rewrite EN, map_fst_pair in P. exact P.
  - (* PFor *)
    head_opt H a0 a1 E. eapply K; [exact H|]. clear H K.
    match type of E with match tr_block ml f false (S ld) ?B body with _ => _ end = _ =>
      destruct (tr_block ml f false (S ld) B body) as [[nsb cs]|] eqn:Eb; [|discriminate] end.
    destruct (IH _ _ _ _ _ _ Eb) as [Mb Pb].
    match type of E with context [NFor _ _ (map (rewrite_deep ?PN) _)] => remember PN as pn eqn:EPN end.
    match type of E with context [promo_decls _ ?N _] => remember N as prom eqn:EN end.
    match type of E with context [promo_decls _ _ ?S] => remember S as sA eqn:ES end.
    destruct (promo_decls glob prom sA) as [decls s3] eqn:Ep.
    injection E as <- <-.
    eapply (wrap_post glob s prom sA decls s3 _ cs); [exact Ep| | |exact Mb|reflexivity|].
    + rewrite ES. exact (proj1 (fold_with_ty prom _)).
    + rewrite ES. exact (proj2 (fold_with_ty prom _)).
    + intros V V' HD HG I P. rewrite scoped_n_unfold.
      apply scoped_rewrite_deep_drop with (V := x :: V).
      * apply incl_cons; [left; reflexivity|apply incl_tl, I].
      * apply incl_tl. rewrite EN, map_fst_pair in P. exact P.
      * apply (Pb (x :: V)).
        -- cbn. apply incl_app; [apply incl_tl, HD|]. destruct (is_declared x s); [intros y []|].
           intros y [<-|[]]. left. reflexivity.
        -- apply incl_tl. exact HG.
  - (* PBreak *)
    destruct ld as [|[|ld']]; [discriminate| |].
    + destruct ml; [discriminate|]. eapply K; [exact H|].
      split; [apply incl_refl|]. intros V HD HG. split; [reflexivity|]. intros y Hy; left; exact Hy.
    + eapply K; [exact H|].
      split; [apply incl_refl|]. intros V HD HG. split; [reflexivity|]. intros y Hy; left; exact Hy.
  - (* PContinue *)
    destruct ld as [|[|ld']]; [discriminate| |].
    + destruct ml; (eapply K; [exact H|]);
        (split; [apply incl_refl|]; intros V HD HG; split; [reflexivity|]; intros y Hy; left; exact Hy).
    + eapply K; [exact H|].
      split; [apply incl_refl|]. intros V HD HG. split; [reflexivity|]. intros y Hy; left; exact Hy.
  - eapply K; [exact H|].
    split; [apply incl_refl|]. intros V HD HG. split; [reflexivity|]. intros y Hy; left; exact Hy.
  - eapply K; [exact H|].
    split; [apply incl_refl|]. intros V HD HG. split; [reflexivity|]. intros y Hy; left; exact Hy.
  - destruct (closed_const e); eapply K; try exact H.
    + apply post_nil.
    + split; [apply incl_refl|]. intros V HD HG. split; [reflexivity|]. intros y Hy; left; exact Hy.
Qed.

(* ------------------------------------------------------------ the whole program *)

Theorem transl_scoped p c : transl p = Some c ->
  scoped_b false (gnames (c_globals c)) (c_setup c) = true /\
  (topdecls (c_setup c) = [] -> scoped_b false (gnames (c_globals c)) (c_loop c) = true).
Proof.
  intros H. unfold transl in H.
  destruct (tr_block false (bsize (p_pre p)) true 0 st0 (p_pre p)) as [[setup s1]|] eqn:E1; [|discriminate].
  destruct (tr_block_post _ _ _ _ _ _ _ _ E1) as [M1 P1].
  destruct (p_main p) as [body|].
  - destruct (tr_block true (bsize body) true 1 s1 body) as [[loop s2]|] eqn:E2; [|discriminate].
    destruct (tr_block_post _ _ _ _ _ _ _ _ E2) as [M2 P2].
    inversion H; subst; cbn [c_globals c_setup c_loop].
    destruct (P1 (gn s2)) as [S1 C1]; [intros y []|exact M2|].
    split; [exact S1|]. intros TD.
    apply (P2 (gn s2)); [|apply incl_refl].
    intros y Hy. destruct (C1 y Hy) as [[]|[A|A]]; [rewrite TD in A; destruct A|apply M2; exact A].
  - inversion H; subst; cbn [c_globals c_setup c_loop].
    destruct (P1 (gn s1)) as [S1 C1]; [intros y []|apply incl_refl|].
    split; [exact S1|reflexivity].
Qed.

Corollary transl_scoped_prog p c : transl p = Some c -> topdecls (c_setup c) = [] -> scoped_prog false c = true.
Proof.
  intros H T. destruct (transl_scoped p c H) as [A B]. unfold scoped_prog. rewrite A, (B T). reflexivity.
Qed.

(* ------------------------------------------------------------ the refutations and non-vacuity *)

Theorem tuple_local_refuted :
  exists p c, transl p = Some c /\ scoped_b false (gnames (c_globals c)) (c_setup c) = true /\
              topdecls (c_setup c) <> [] /\ scoped_b false (gnames (c_globals c)) (c_loop c) = false.
Proof.
  exists tuple_witness. eexists. split; [vm_compute; reflexivity|]. vm_compute. repeat split; discriminate.
Qed.

Theorem aug_forvar_refuted :
  exists p c, transl p = Some c /\ topdecls (c_setup c) = [] /\ scoped_prog false c = true /\ scoped_prog true c = false.
Proof.
  exists forvar_witness. eexists. split; [vm_compute; reflexivity|]. vm_compute. repeat split; reflexivity.
Qed.

Example scope_demo_ok :
  exists c, transl scope_demo = Some c /\ topdecls (c_setup c) = [] /\ scoped_prog false c = true /\
            length (c_globals c) = 5%nat /\ length (c_loop c) = 7%nat.
Proof. eexists. split; [vm_compute; reflexivity|]. vm_compute. repeat split; reflexivity. Qed.
