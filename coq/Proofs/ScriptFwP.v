(* From the text of a script - in any layout inside Layout.top_layout_ok - to the compound statements
   of the emitted sketch: parse() (TopRoundTripP) -> skeleton -> IR -> emit() (EmitBlocksP). *)
From Coq Require Import ZArith List Bool Lia.
From RV Require Import Base.Wire Base.Text Lang.Lex Lang.EmitBlocks Lang.ScriptFw Proofs.EmitBlocksP.
Import ListNotations.
Open Scope Z_scope.

Section S.
  Variable tr : text -> list (list text).
  Variables cx fv fn ex fh : text -> text.
  Variables hs hl : text.
  Variables phs phl : list text.

  Lemma sections_ok_app a b : sections_ok (a ++ b) = sections_ok a && sections_ok b.
  Proof. induction a as [|[[h ph] x] r IH]; cbn; [reflexivity|]. rewrite IH, andb_assoc. reflexivity. Qed.
  Lemma sections_c_app a b : sections_c (a ++ b) = sections_c a ++ sections_c b.
  Proof. induction a as [|[[h ph] x] r IH]; cbn; [reflexivity|]. rewrite IH. reflexivity. Qed.

  Lemma setup_ok its : forallb (item_ok tr fh) its = true ->
    irs_ok (setup_ir tr cx fv fn ex its) = true /\ irs_c (setup_ir tr cx fv fn ex its) = setup_cs tr cx fv fn ex its.
  Proof.
    induction its as [|i r IH]; intro H; [split; reflexivity|].
    cbn [forallb] in H. apply andb_true_iff in H as [Hi Hr]. destruct (IH Hr) as [A B].
    unfold setup_ir, setup_cs in *. cbn [flat_map]. rewrite irs_ok_app, irs_c_app, A, B.
    destruct i as [ns|ns|h ns]; cbn [item_ok] in Hi; try (split; reflexivity).
    destruct (to_ir_structure tr cx fv fn ex ns Hi) as [C D]. rewrite C, D. split; reflexivity.
  Qed.

  Lemma loop_ok its : forallb (item_ok tr fh) its = true ->
    irs_ok (loop_ir tr cx fv fn ex its) = true /\ irs_c (loop_ir tr cx fv fn ex its) = loop_cs tr cx fv fn ex its.
  Proof.
    induction its as [|i r IH]; intro H; [split; reflexivity|].
    cbn [forallb] in H. apply andb_true_iff in H as [Hi Hr]. destruct (IH Hr) as [A B].
    unfold loop_ir, loop_cs in *. cbn [flat_map]. rewrite irs_ok_app, irs_c_app, A, B.
    destruct i as [ns|ns|h ns]; cbn [item_ok] in Hi; try (split; reflexivity).
    destruct (to_ir_structure tr cx fv fn ex ns Hi) as [C D]. rewrite C, D. split; reflexivity.
  Qed.

  Lemma defs_ok its : forallb (item_ok tr fh) its = true ->
    sections_ok (def_sections tr cx fv fn ex fh its) = true
    /\ sections_c (def_sections tr cx fv fn ex fh its) = def_cs tr cx fv fn ex fh its.
  Proof.
    induction its as [|i r IH]; intro H; [split; reflexivity|].
    cbn [forallb] in H. apply andb_true_iff in H as [Hi Hr]. destruct (IH Hr) as [A B].
    unfold def_sections, def_cs in *. cbn [flat_map]. rewrite sections_ok_app, sections_c_app, A, B.
    destruct i as [ns|ns|h ns]; cbn [item_ok] in Hi; try (split; reflexivity).
    apply andb_true_iff in Hi as [Hh Hc].
    destruct (to_ir_structure tr cx fv fn ex ns Hc) as [C D]. cbn [sections_ok sections_c ph_ok forallb app]. rewrite C, D, Hh. split; reflexivity.
  Qed.

  (* the sketch a script skeleton becomes, read the way C++ reads it, is what Python's block tree prescribes *)
  Theorem script_sections_structure : forall its,
    script_ok tr fh hs hl phs phl its = true ->
    c_read (emit_sections (script_sections tr cx fv fn ex fh hs hl phs phl its))
    = Some (script_cs tr cx fv fn ex fh hs hl its).
  Proof.
    intros its H. unfold script_ok in H.
    apply andb_true_iff in H as [H Hits]. apply andb_true_iff in H as [H H4]. apply andb_true_iff in H as [H H3].
    apply andb_true_iff in H as [H1 H2].
    destruct (setup_ok its Hits) as [S1 S2]. destruct (loop_ok its Hits) as [L1 L2]. destruct (defs_ok its Hits) as [D1 D2].
    rewrite emit_sections_structure.
    - unfold script_sections, script_cs. rewrite sections_c_app, D2. cbn [sections_c]. rewrite S2, L2. reflexivity.
    - unfold script_sections. rewrite sections_ok_app, D1. cbn [sections_ok]. rewrite H1, H2, H3, H4, S1, L1. reflexivity.
  Qed.
End S.
