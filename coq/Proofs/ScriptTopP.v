(* One theorem from the text of a script to the emitted C++ blocks: any layout inside
   Layout.top_layout_ok -> parse() (TopRoundTripP) -> skeleton -> IR -> emit() (ScriptFwP). *)
From Coq Require Import ZArith List Bool Lia.
From RV Require Import Base.Wire Base.Text Lang.Rx Lang.Lex Lang.PyLayout Lang.Layout Lang.EmitBlocks Lang.ScriptFw.
From RV Require Import Proofs.TopRoundTripP Proofs.ScriptFwP.
Import ListNotations.
Open Scope Z_scope.

Lemma script_to_firmware : forall tr cx fv fn ex fh hs hl phs phl u ts fj,
  top_layout_ok u ts fj = true ->
  script_ok tr fh hs hl phs phl (lerase_tops ts) = true ->
  c_read (emit_sections (script_sections tr cx fv fn ex fh hs hl phs phl
            (map erase_item (parse_top (render_top (ind_unit u) ts fj)))))
  = Some (script_cs tr cx fv fn ex fh hs hl (lerase_tops ts)).
Proof.
  intros tr cx fv fn ex fh hs hl phs phl u ts fj Hl Hok.
  rewrite (parse_render_top u ts fj Hl). apply script_sections_structure. exact Hok.
Qed.

Lemma two_layouts_same_firmware : forall tr cx fv fn ex fh hs hl phs phl u1 u2 ts1 ts2 fj1 fj2,
  top_layout_ok u1 ts1 fj1 = true -> top_layout_ok u2 ts2 fj2 = true -> lerase_tops ts1 = lerase_tops ts2 ->
  emit_sections (script_sections tr cx fv fn ex fh hs hl phs phl (map erase_item (parse_top (render_top (ind_unit u1) ts1 fj1))))
  = emit_sections (script_sections tr cx fv fn ex fh hs hl phs phl (map erase_item (parse_top (render_top (ind_unit u2) ts2 fj2))))
  /\ (script_ok tr fh hs hl phs phl (lerase_tops ts1) = true ->
      c_read (emit_sections (script_sections tr cx fv fn ex fh hs hl phs phl (map erase_item (parse_top (render_top (ind_unit u2) ts2 fj2)))))
      = Some (script_cs tr cx fv fn ex fh hs hl (lerase_tops ts1))).
Proof.
  intros tr cx fv fn ex fh hs hl phs phl u1 u2 ts1 ts2 fj1 fj2 H1 H2 E.
  rewrite (relayout_invariant_top u1 u2 ts1 ts2 fj1 fj2 H1 H2 E). split; [reflexivity|].
  intro Hok. rewrite E in *. apply script_to_firmware; assumption.
Qed.

(* non-vacuity: two layouts of one script with a target(...) directive, an import, a function, a
   statement, an if / elif / else chain and the main loop *)
Definition t_target : text := [116;97;114;103;101;116;40;34;67;79;77;51;34;41].                 (* target("COM3") *)
Definition t_import : text := [102;114;111;109;32;82;101;100;117;105;110;111;46;65;99;116;117;97;116;111;114;115;32;105;109;112;111;114;116;32;76;101;100].
Definition t_def : text := [100;101;102;32;102;40;41;58].                                        (* def f(): *)
Definition t_x1 : text := [120;32;61;32;49].                                                    (* x = 1 *)
Definition t_if : text := [105;102;32;120;32;62;32;48;58].                                      (* if x > 0: *)
Definition t_elif : text := [101;108;105;102;32;120;32;60;32;48;58].                            (* elif x < 0: *)
Definition t_else : text := [101;108;115;101;58].
Definition t_main : text := [119;104;105;108;101;32;84;114;117;101;58].                          (* while True: *)
Definition t_y2 : text := [121;32;61;32;50].
Definition t_c : text := [35;32;99].                                                            (* # c *)
Definition ex_top_a : list ltop :=
  [LImp [t_c] t_target [32;32;35;32;112;111;114;116]; LImp [] t_import [];
   LDef [[]] t_def [32;35;100] [LLeaf [t_c] t_y2 []];
   LChain [LLeaf [] t_x1 [32]];
   LChain [LBlock [t_c] KIf t_if [] [LLeaf [[]; t_c] t_y2 [32;35;116]];
           LBlock [[]; t_c] KElif t_elif [32;35;101] [LLeaf [] t_y2 []];
           LBlock [] KElse t_else [] [LLeaf [] t_x1 []]];
   LMain [[32;32;35;120]] t_main [32;35;32;109] [LLeaf [] t_y2 []; LBlock [t_c] KWhile [119;104;105;108;101;32;120;32;60;32;51;58] [] [LLeaf [] t_x1 []]]].
Definition ex_top_b : list ltop :=
  [LImp [] t_target []; LImp [] t_import [];
   LDef [] t_def [] [LLeaf [] t_y2 []];
   LChain [LLeaf [] t_x1 []];
   LChain [LBlock [] KIf t_if [] [LLeaf [] t_y2 []];
           LBlock [] KElif t_elif [] [LLeaf [] t_y2 []];
           LBlock [] KElse t_else [] [LLeaf [] t_x1 []]];
   LMain [] t_main [] [LLeaf [] t_y2 []; LBlock [] KWhile [119;104;105;108;101;32;120;32;60;32;51;58] [] [LLeaf [] t_x1 []]]].

Lemma top_layouts_nonvacuous :
  top_layout_ok [9] ex_top_a [[]; t_c] = true /\ top_layout_ok [32;32] ex_top_b [] = true
  /\ lerase_tops ex_top_a = lerase_tops ex_top_b
  /\ length (render_top (ind_unit [9]) ex_top_a [[]; t_c]) = 27%nat
  /\ length (lerase_tops ex_top_a) = 4%nat.
Proof. repeat split; vm_compute; reflexivity. Qed.
