(* Proofs about Lang/Sections.v : the stitched order is sorted by section kind and - thanks to the
   prototypes - well-formed (declared before use) under a guard that lets a function mention any
   function and any ultrasonic helper; without the prototypes (the order before the repair) a user
   function that mentions an ultrasonic helper or a later function breaks it. *)
From Coq Require Import ZArith List Bool Lia Sorting.Sorted.
From RV Require Import Base.Wire Lang.Sections.
Import ListNotations.
Open Scope Z_scope.

(* ------------------------------------------------------------ membership *)

Lemma memz_In a l : memz a l = true <-> In a l.
Proof.
  induction l as [|b r IH]; cbn; [split; [discriminate|tauto]|].
  rewrite orb_true_iff, Z.eqb_eq, IH. split; intros [H|H]; auto.
Qed.

Lemma uses_ok_ext s1 s2 us :
  (forall u, In u s1 -> In u s2) ->
  forallb (fun u => memz u s1) us = true -> forallb (fun u => memz u s2) us = true.
Proof.
  intros I H. rewrite forallb_forall in *. intros u Hu.
  apply memz_In. apply I. apply memz_In. apply H. exact Hu.
Qed.

(* ------------------------------------------------------------ wf_from: monotone, append *)

Lemma wf_from_ext l : forall s1 s2,
  (forall u, In u s1 -> In u s2) -> wf_from s1 l = true -> wf_from s2 l = true.
Proof.
  induction l as [|it r IH]; intros s1 s2 I H; [reflexivity|].
  cbn [wf_from] in *. apply andb_true_iff in H as [H1 H2]. apply andb_true_iff. split.
  - eapply uses_ok_ext; [|exact H1]. intros u Hu. apply in_app_iff in Hu as [Hu|Hu];
      apply in_app_iff; auto.
  - eapply IH; [|exact H2]. intros u Hu. apply in_app_iff in Hu as [Hu|Hu];
      apply in_app_iff; auto.
Qed.

Definition seen_after (s : list ident) (l : list item) : list ident :=
  fold_left (fun acc it => idefs it ++ acc) l s.

Lemma seen_after_In l : forall s u,
  In u (seen_after s l) <-> In u s \/ exists it, In it l /\ In u (idefs it).
Proof.
  induction l as [|it r IH]; intros s u; cbn [seen_after fold_left].
  - split; [auto|]. intros [H|(it & [] & _)]. exact H.
  - fold (seen_after (idefs it ++ s) r). rewrite IH. rewrite in_app_iff. split.
    + intros [[H|H]|(j & J1 & J2)].
      * right. exists it. split; [left; reflexivity|exact H].
      * left. exact H.
      * right. exists j. split; [right; exact J1|exact J2].
    + intros [H|(j & [<-|J1] & J2)].
      * left. right. exact H.
      * left. left. exact J2.
      * right. exists j. auto.
Qed.

Lemma wf_from_app l1 : forall s l2,
  wf_from s (l1 ++ l2) = wf_from s l1 && wf_from (seen_after s l1) l2.
Proof.
  induction l1 as [|it r IH]; intros s l2; [reflexivity|].
  cbn [app wf_from seen_after fold_left]. rewrite IH. rewrite andb_assoc. reflexivity.
Qed.

Lemma tagged_defs k (l : list body) u :
  (exists it, In it (map (tag k) l) /\ In u (idefs it)) <-> In u (defs_of l).
Proof.
  unfold defs_of. rewrite in_flat_map. split.
  - intros (it & H & Hu). apply in_map_iff in H as (b & <- & Hb). exists b. auto.
  - intros (b & Hb & Hu). exists (tag k b). split; [apply in_map; exact Hb|exact Hu].
Qed.

Lemma seen_after_tagged s k l u :
  In u (seen_after s (map (tag k) l)) <-> In u s \/ In u (defs_of l).
Proof. rewrite seen_after_In, tagged_defs. reflexivity. Qed.

(* ------------------------------------------------------------ Prop reading *)

Lemma wf_from_spec l : forall seen,
  wf_from seen l = true <->
  (forall pre it post, l = pre ++ it :: post ->
   forall u, In u (iuses it) ->
     In u (idefs it) \/ (exists j, In j pre /\ In u (idefs j)) \/ In u seen).
Proof.
  induction l as [|x r IH]; intros seen.
  - split; [|reflexivity]. intros _ pre it post E. destruct pre; discriminate E.
  - cbn [wf_from]. rewrite andb_true_iff, forallb_forall, IH. split.
    + intros [H1 H2] pre it post E u Hu. destruct pre as [|p pre].
      * injection E as E1 E2. subst x r. specialize (H1 u Hu). apply memz_In in H1.
        apply in_app_iff in H1 as [H1|H1]; auto.
      * injection E as E1 E2. subst x.
        destruct (H2 pre it post E2 u Hu) as [H|[(j & J1 & J2)|H]].
        -- auto.
        -- right. left. exists j. split; [right; exact J1|exact J2].
        -- apply in_app_iff in H as [H|H]; [|auto].
           right. left. exists p. split; [left; reflexivity|exact H].
    + intros H. split.
      * intros u Hu. apply memz_In. apply in_app_iff.
        destruct (H [] x r eq_refl u Hu) as [A|[(j & [] & _)|A]]; auto.
      * intros pre it post E u Hu.
        destruct (H (x :: pre) it post (f_equal (cons x) E) u Hu) as [A|[(j & [<-|J1] & J2)|A]].
        -- auto.
        -- right. right. apply in_app_iff. auto.
        -- right. left. exists j. auto.
        -- right. right. apply in_app_iff. auto.
Qed.

Theorem wf_order_spec l : wf_order l = true <-> declared_before l.
Proof.
  unfold wf_order, declared_before. rewrite wf_from_spec. split; intros H pre it post E u Hu.
  - destruct (H pre it post E u Hu) as [A|[A|[]]]; auto.
  - destruct (H pre it post E u Hu) as [A|A]; auto.
Qed.

Lemma undeclared_from_spec l : forall pos seen,
  undeclared_from pos seen l = [] <-> wf_from seen l = true.
Proof.
  induction l as [|it r IH]; intros pos seen; cbn [undeclared_from wf_from]; [tauto|].
  rewrite andb_true_iff, <- IH. split.
  - intros H. apply app_eq_nil in H as [H1 H2]. split; [|exact H2].
    apply forallb_forall. intros u Hu.
    destruct (memz u (idefs it ++ seen)) eqn:M; [reflexivity|]. exfalso.
    apply map_eq_nil in H1.
    assert (In u (filter (fun u0 => negb (memz u0 (idefs it ++ seen))) (iuses it))) as X.
    { apply filter_In. split; [exact Hu|]. rewrite M. reflexivity. }
    rewrite H1 in X. exact X.
  - intros [H1 H2]. rewrite H2, app_nil_r.
    rewrite forallb_forall in H1.
    set (f := fun u0 => negb (memz u0 (idefs it ++ seen))).
    assert (filter f (iuses it) = []) as ->; [|reflexivity].
    destruct (filter f (iuses it)) as [|u t] eqn:F; [reflexivity|]. exfalso.
    assert (In u (u :: t)) as X by (left; reflexivity). rewrite <- F in X.
    apply filter_In in X as [X1 X2]. unfold f in X2. rewrite (H1 u X1) in X2. discriminate X2.
Qed.

Theorem undeclared_spec l : undeclared l = [] <-> wf_order l = true.
Proof. apply undeclared_from_spec. Qed.

(* ------------------------------------------------------------ the section order *)

Definition kind_le (a b : skind) : Prop := rank a <= rank b.

Lemma SS_app {A} (R : A -> A -> Prop) l1 : forall l2,
  StronglySorted R l1 -> StronglySorted R l2 ->
  (forall a b, In a l1 -> In b l2 -> R a b) -> StronglySorted R (l1 ++ l2).
Proof.
  induction l1 as [|x l1 IH]; intros l2 S1 S2 C; [exact S2|].
  cbn [app]. inversion S1 as [|? ? S1' F]; subst. constructor.
  - apply IH; [exact S1'|exact S2|]. intros a b Ha Hb. apply C; [right; exact Ha|exact Hb].
  - apply Forall_app. split; [exact F|].
    apply Forall_forall. intros b Hb. apply C; [left; reflexivity|exact Hb].
Qed.

Lemma kinds_block k (l : list body) : map ikind (map (tag k) l) = map (fun _ => k) l.
Proof. rewrite map_map. reflexivity. Qed.

Lemma const_block_sorted k (l : list body) : StronglySorted kind_le (map (fun _ => k) l).
Proof.
  induction l as [|b l IH]; cbn; constructor; [exact IH|].
  apply Forall_forall. intros x Hx. apply in_map_iff in Hx as (b0 & <- & Hb0).
  unfold kind_le. lia.
Qed.

Lemma const_block_In (k : skind) (l : list body) x : In x (map (fun _ => k) l) -> x = k.
Proof. intros H. apply in_map_iff in H as (b0 & <- & Hb0). reflexivity. Qed.

Definition count_kind (k : skind) (l : list item) : nat :=
  length (filter (fun it => rank (ikind it) =? rank k) l).

Lemma count_block k k' (l : list body) :
  rank k' <> rank k -> count_kind k (map (tag k') l) = 0%nat.
Proof.
  intros NE. unfold count_kind. induction l as [|b l IH]; [reflexivity|].
  cbn [map filter]. unfold ikind at 1, tag at 1. cbn [fst].
  destruct (Z.eqb_spec (rank k') (rank k)); [contradiction|]. exact IH.
Qed.

Lemma count_app k l1 l2 : count_kind k (l1 ++ l2) = (count_kind k l1 + count_kind k l2)%nat.
Proof. unfold count_kind. rewrite filter_app, app_length. reflexivity. Qed.

Lemma kinds_protos (l : list body) : map ikind (map proto_of l) = map (fun _ => KProto) l.
Proof. rewrite map_map. reflexivity. Qed.

Lemma count_protos k (l : list body) :
  rank KProto <> rank k -> count_kind k (map proto_of l) = 0%nat.
Proof.
  intros NE. unfold count_kind. induction l as [|b l IH]; [reflexivity|].
  cbn [map filter]. unfold ikind at 1, proto_of at 1. cbn [fst].
  destruct (Z.eqb_spec (rank KProto) (rank k)); [contradiction|]. exact IH.
Qed.

Theorem section_order sk :
  StronglySorted kind_le (map ikind (stitch sk)) /\
  count_kind KSetup (stitch sk) = 1%nat /\ count_kind KLoop (stitch sk) = 1%nat /\
  exists pre, stitch sk = pre ++ [tag KSetup (sk_setup sk); tag KLoop (sk_loop sk)].
Proof.
  split; [|split; [|split]].
  - unfold stitch, protos. generalize (sk_functions sk ++ sk_ultras sk) as P. intros P.
    rewrite !map_app, !kinds_block, kinds_protos.
    repeat (apply SS_app; [apply const_block_sorted| |
      intros a b Ha Hb; apply const_block_In in Ha; subst a;
      repeat (apply in_app_iff in Hb as [Hb|Hb]; [apply const_block_In in Hb; subst b; unfold kind_le; cbn; lia|]);
      cbn in Hb; destruct Hb as [<-|[<-|[]]]; unfold kind_le; cbn; lia]).
    cbn. repeat constructor. unfold kind_le. cbn. lia.
  - unfold stitch, protos. generalize (sk_functions sk ++ sk_ultras sk) as P. intros P.
    rewrite !count_app, !count_block, count_protos by (cbn; lia). reflexivity.
  - unfold stitch, protos. generalize (sk_functions sk ++ sk_ultras sk) as P. intros P.
    rewrite !count_app, !count_block, count_protos by (cbn; lia). reflexivity.
  - unfold stitch. eexists. rewrite !app_assoc. reflexivity.
Qed.

(* one prototype per function definition and per ultrasonic helper, in that order, each declaring
   exactly the names of its definition *)
Theorem protos_spec sk :
  map idefs (protos sk) = map fst (sk_functions sk ++ sk_ultras sk) /\
  Forall (fun it => ikind it = KProto /\ iuses it = []) (protos sk).
Proof.
  unfold protos. split.
  - rewrite map_map. reflexivity.
  - apply Forall_forall. intros it H. apply in_map_iff in H as (b & <- & _). split; reflexivity.
Qed.

(* ------------------------------------------------------------ well-formed under the guard *)

Lemma body_ok_tag seen k b : wf_from seen [tag k b] = body_ok seen b.
Proof. cbn. rewrite andb_true_r. reflexivity. Qed.

Ltac in_apps :=
  repeat match goal with
  | H : In _ (_ ++ _) |- _ => apply in_app_iff in H as [H|H]
  | H : _ \/ _ |- _ => destruct H as [H|H]
  | H : In _ [] |- _ => destruct H
  end;
  repeat rewrite in_app_iff; tauto.

Lemma forallb_body_section seen k l :
  forallb (body_ok seen) l = true -> wf_from seen (map (tag k) l) = true.
Proof.
  revert seen. induction l as [|b l IH]; intros seen H; [reflexivity|].
  cbn [forallb] in H. apply andb_true_iff in H as [H1 H2].
  cbn [map wf_from]. apply andb_true_iff. split; [exact H1|].
  apply IH. rewrite forallb_forall in *. intros x Hx. specialize (H2 x Hx).
  unfold body_ok in *. eapply uses_ok_ext; [|exact H2].
  intros u Hu. apply in_app_iff in Hu as [Hu|Hu]; apply in_app_iff; [auto|].
  right. apply in_app_iff. auto.
Qed.

Lemma protos_defs (l : list body) u :
  (exists it, In it (map proto_of l) /\ In u (idefs it)) <-> In u (defs_of l).
Proof.
  unfold defs_of. rewrite in_flat_map. split.
  - intros (it & H & Hu). apply in_map_iff in H as (b & <- & Hb). exists b. auto.
  - intros (b & Hb & Hu). exists (proto_of b). split; [apply in_map; exact Hb|exact Hu].
Qed.

Lemma wf_protos seen (l : list body) : wf_from seen (map proto_of l) = true.
Proof. revert seen. induction l as [|b l IH]; intros seen; [reflexivity|]. cbn. apply IH. Qed.

Lemma defs_of_app a b : defs_of (a ++ b) = defs_of a ++ defs_of b.
Proof. unfold defs_of. apply flat_map_app. Qed.

Theorem wf_order_partial sk : guard sk = true -> wf_order (stitch sk) = true.
Proof.
  unfold guard, section_ok. intros G.
  repeat (apply andb_true_iff in G as [G ?]).
  rename G into G1, H4 into G2, H3 into G3, H2 into G4, H1 into G5, H0 into G6, H into G7.
  unfold wf_order, stitch.
  rewrite wf_from_app. apply andb_true_iff. split; [exact G1|].
  rewrite wf_from_app. apply andb_true_iff. split.
  { eapply wf_from_ext; [|exact G2]. intros u Hu. apply seen_after_tagged. auto. }
  rewrite wf_from_app. apply andb_true_iff. split.
  { eapply wf_from_ext; [|exact G3]. intros u Hu.
    apply seen_after_tagged. rewrite seen_after_tagged. in_apps. }
  rewrite wf_from_app. apply andb_true_iff. split; [apply wf_protos|].
  set (avail := seen_after _ (protos sk)).
  assert (AV : forall u, In u avail <->
     In u (defs_of (sk_functions sk)) \/ In u (defs_of (sk_ultras sk)) \/
     In u (defs_of (sk_globals sk)) \/ In u (defs_of (sk_helpers sk)) \/ In u (defs_of (sk_includes sk))).
  { intros u. unfold avail, protos. rewrite seen_after_In, protos_defs, defs_of_app, in_app_iff.
    rewrite !seen_after_tagged. split; intros H; in_apps. }
  rewrite wf_from_app. apply andb_true_iff. split.
  { apply forallb_body_section. rewrite forallb_forall in *. intros b Hb.
    specialize (G4 b Hb). unfold body_ok in *. eapply uses_ok_ext; [|exact G4].
    intros u Hu. apply in_app_iff in Hu as [Hu|Hu]; apply in_app_iff; [auto|right].
    apply AV. in_apps. }
  rewrite wf_from_app. apply andb_true_iff. split.
  { apply forallb_body_section. rewrite forallb_forall in *. intros b Hb.
    specialize (G5 b Hb). unfold body_ok in *. eapply uses_ok_ext; [|exact G5].
    intros u Hu. apply in_app_iff in Hu as [Hu|Hu]; apply in_app_iff; [auto|right].
    apply seen_after_tagged. left. apply AV. in_apps. }
  cbn [wf_from]. rewrite andb_true_r. apply andb_true_iff. split.
  - eapply uses_ok_ext; [|exact G6]. intros u Hu. unfold idefs, tag. cbn [fst snd].
    apply in_app_iff in Hu as [Hu|Hu]; apply in_app_iff; [left; exact Hu|right].
    rewrite !seen_after_tagged. rewrite AV. in_apps.
  - eapply uses_ok_ext; [|exact G7]. intros u Hu. unfold idefs, tag. cbn [fst snd].
    apply in_app_iff in Hu as [Hu|Hu]; apply in_app_iff; [left; exact Hu|right].
    apply in_app_iff in Hu as [Hu|Hu]; apply in_app_iff; [left; exact Hu|right].
    rewrite !seen_after_tagged. rewrite AV. in_apps.
Qed.

Theorem wf_order_partial_prop sk : guard sk = true -> declared_before (stitch sk).
Proof. intros G. apply wf_order_spec. apply wf_order_partial. exact G. Qed.

(* ------------------------------------------------------------ the two repaired shapes *)

(* a user function that calls <sensor>.measure_distance(), and a function that calls one defined
   further down: inside the guard, hence declared before use - for every choice of names *)
Theorem fn_uses_ultra_declared core fn helper :
  guard (ultra_in_function core fn helper) = true /\
  wf_order (stitch (ultra_in_function core fn helper)) = true /\
  undeclared (stitch (ultra_in_function core fn helper)) = [].
Proof.
  assert (G : guard (ultra_in_function core fn helper) = true).
  { unfold guard, section_ok, body_ok; cbn; rewrite ?Z.eqb_refl, ?orb_true_r; reflexivity. }
  split; [exact G|]. split; [|apply undeclared_spec]; apply wf_order_partial; exact G.
Qed.

Theorem fn_forward_call_declared core f g :
  guard (forward_call core f g) = true /\
  wf_order (stitch (forward_call core f g)) = true /\
  undeclared (stitch (forward_call core f g)) = [].
Proof.
  assert (G : guard (forward_call core f g) = true).
  { unfold guard, section_ok, body_ok; cbn; rewrite ?Z.eqb_refl, ?orb_true_r; reflexivity. }
  split; [exact G|]. split; [|apply undeclared_spec]; apply wf_order_partial; exact G.
Qed.

(* ------------------------------------------------------------ what the prototypes are for *)

(* in the order before the repair both shapes use an undeclared name, for every choice of names *)
Theorem noproto_fn_uses_ultra_breaks core fn helper :
  helper <> fn -> helper <> core ->
  wf_order (stitch_noproto (ultra_in_function core fn helper)) = false /\
  undeclared (stitch_noproto (ultra_in_function core fn helper)) = [(1, helper)].
Proof.
  intros A B. unfold wf_order, undeclared, stitch_noproto, ultra_in_function. cbn.
  destruct (Z.eqb_spec helper fn); [contradiction|].
  destruct (Z.eqb_spec helper core); [contradiction|].
  cbn. rewrite !Z.eqb_refl. cbn. rewrite ?orb_true_r. cbn. split; reflexivity.
Qed.

Theorem noproto_fn_forward_call_breaks core f g :
  g <> f -> g <> core ->
  wf_order (stitch_noproto (forward_call core f g)) = false.
Proof.
  intros A B. unfold wf_order, stitch_noproto, forward_call. cbn.
  destruct (Z.eqb_spec g f); [contradiction|].
  destruct (Z.eqb_spec g core); [contradiction|]. reflexivity.
Qed.

(* the repair only widens: whatever the old guard admitted is admitted now *)
Lemma section_bodies_ok seen k l :
  wf_from seen (map (tag k) l) = true ->
  forall b, In b l -> body_ok (defs_of l ++ seen) b = true.
Proof.
  revert seen. induction l as [|x l IH]; intros seen H b Hb; [destruct Hb|].
  cbn [map wf_from] in H. apply andb_true_iff in H as [H1 H2].
  destruct Hb as [<-|Hb].
  - unfold body_ok. eapply uses_ok_ext; [|exact H1]. intros u Hu.
    unfold idefs, tag in Hu. cbn [fst snd] in Hu. unfold defs_of. cbn [flat_map].
    apply in_app_iff in Hu as [Hu|Hu]; repeat rewrite in_app_iff; tauto.
  - specialize (IH _ H2 b Hb). unfold body_ok in *. eapply uses_ok_ext; [|exact IH].
    intros u Hu. unfold idefs, tag in Hu. cbn [fst snd] in Hu. unfold defs_of in *. cbn [flat_map].
    repeat (apply in_app_iff in Hu as [Hu|Hu]); repeat rewrite in_app_iff; tauto.
Qed.

Theorem guard_widened sk : guard_noproto sk = true -> guard sk = true.
Proof.
  unfold guard_noproto, guard, section_ok. intros G.
  repeat (apply andb_true_iff in G as [G ?]).
  rename G into G1, H4 into G2, H3 into G3, H2 into G4, H1 into G5, H0 into G6, H into G7.
  rewrite G1, G2, G3, G6, G7. cbn [andb]. rewrite !andb_true_r.
  apply andb_true_iff. split; apply forallb_forall; intros b Hb.
  - pose proof (section_bodies_ok _ _ _ G4 b Hb) as X. unfold body_ok in *.
    eapply uses_ok_ext; [|exact X]. intros u Hu.
    repeat (apply in_app_iff in Hu as [Hu|Hu]); repeat rewrite in_app_iff; tauto.
  - pose proof (section_bodies_ok _ _ _ G5 b Hb) as X. unfold body_ok in *.
    eapply uses_ok_ext; [|exact X]. intros u Hu.
    repeat (apply in_app_iff in Hu as [Hu|Hu]); repeat rewrite in_app_iff; tauto.
Qed.

(* ------------------------------------------------------------ non-vacuity *)

(* core=1 Servo.h=2 ; list helper=10 (uses core) ; globals 20 (uses core), 21 (uses 20 and 2) ;
   functions 30 (uses 20, 10, itself, the LATER function 31 and the ultrasonic helper 40), 31 (uses 30, 21) ;
   ultrasonic helper 40 (uses core) ; setup uses 40 31 21 1 ; loop uses 30 40 20.
   13 items: the 10 sections' members and the 3 prototypes (30, 31, 40).  Without the prototypes
   item 5 (function 30) uses the undeclared 31 and 40. *)
Definition demo_sketch : sketch :=
  {| sk_includes := [([1], []); ([2], [1])];
     sk_helpers := [([10], [1])];
     sk_globals := [([20], [1]); ([21], [20; 2])];
     sk_functions := [([30], [20; 10; 30; 31; 40]); ([31], [30; 21])];
     sk_ultras := [([40], [1])];
     sk_setup := ([], [40; 31; 21; 1]);
     sk_loop := ([], [30; 40; 20]) |}.

Example guard_nonvacuous :
  guard demo_sketch = true /\ wf_order (stitch demo_sketch) = true /\
  length (stitch demo_sketch) = 13%nat /\ undeclared (stitch demo_sketch) = [] /\
  map idefs (protos demo_sketch) = [[30]; [31]; [40]] /\
  guard_noproto demo_sketch = false /\ undeclared (stitch_noproto demo_sketch) = [(5, 31); (5, 40)].
Proof. vm_compute. repeat split; reflexivity. Qed.

(* ------------------------------------------------------------ nothing is lost or invented by the stitching *)

Theorem stitch_complete sk k b :
  In (k, b) (stitch sk) <->
  (k = KInclude /\ In b (sk_includes sk)) \/ (k = KHelper /\ In b (sk_helpers sk)) \/
  (k = KGlobal /\ In b (sk_globals sk)) \/
  (k = KProto /\ exists d, In d (sk_functions sk ++ sk_ultras sk) /\ b = (fst d, [])) \/
  (k = KFunction /\ In b (sk_functions sk)) \/
  (k = KUltra /\ In b (sk_ultras sk)) \/ (k = KSetup /\ b = sk_setup sk) \/ (k = KLoop /\ b = sk_loop sk).
Proof.
  unfold stitch, protos, tag, proto_of. rewrite !in_app_iff, !in_map_iff. cbn [In]. split.
  - intros [(x & E & H)|[(x & E & H)|[(x & E & H)|[(x & E & H)|[(x & E & H)|[(x & E & H)|[E|[E|[]]]]]]]]];
      inversion E; subst; try tauto.
    right. right. right. left. split; [reflexivity|]. exists x. split; [exact H|reflexivity].
  - intros [[-> H]|[[-> H]|[[-> H]|[[-> (d & H & ->)]|[[-> H]|[[-> H]|[[-> ->]|[-> ->]]]]]]]]; eauto 14.
Qed.

Theorem stitch_length sk :
  length (stitch sk) =
  (length (sk_includes sk) + length (sk_helpers sk) + length (sk_globals sk) +
   2 * (length (sk_functions sk) + length (sk_ultras sk)) + 2)%nat.
Proof. unfold stitch, protos. rewrite !app_length, !map_length, app_length. cbn. lia. Qed.
