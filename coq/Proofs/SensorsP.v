(* Lemmas about Host/Sensors.v and Host/Serial.v (C20). *)
From Coq Require Import ZArith QArith List Bool Lia Lqa.
From RV Require Import Base.Wire Base.Text Base.NumC Base.TextC Host.Utils Host.Sensors Host.Serial
  Proofs.NumCP Proofs.UtilsP.
Import ListNotations.
Open Scope Z_scope.

(* ----------------------------------------------------------------- Button *)

Lemma bstep_config s o :
  b_click (fst (bstep s o)) = b_click s /\ b_provider (fst (bstep s o)) = b_provider s.
Proof. destruct o; cbn; auto. Qed.

(* for every history of set_pressed / is_pressed calls, from every state:
   the on_click calls are exactly the rising edges of the signal is_pressed saw
   (previous level = _was_pressed), and the return values are that signal *)
Lemma button_edges_from ops : forall s,
  map snd (polls (brun s ops)) =
    map (fun e => e && b_click s) (rising (b_was s) (seen (b_provider s) (b_pressed s) ops)) /\
  map fst (polls (brun s ops)) = map b2z (seen (b_provider s) (b_pressed s) ops).
Proof.
  induction ops as [|o r IH]; intro s; [cbn; auto|].
  destruct o as [v|sample]; cbn [brun bstep seen polls].
  - specialize (IH (mkButton (b_click s) (b_provider s) (truthy v) (b_was s))).
    cbn [b_click b_provider b_pressed b_was] in IH. exact IH.
  - specialize (IH (mkButton (b_click s) (b_provider s) (b_pressed s)
                             (if b_provider s then truthy sample else b_pressed s))).
    cbn [b_click b_provider b_pressed b_was] in IH. destruct IH as [IH1 IH2].
    cbn [polls map rising fst snd]. rewrite IH1, IH2. auto.
Qed.

Lemma seen_provider cur samples : seen true cur (map BPoll samples) = map truthy samples.
Proof. induction samples as [|x r IH]; cbn; [reflexivity|]. rewrite IH. reflexivity. Qed.

Lemma polls_all s samples :
  length (polls (brun s (map BPoll samples))) = length samples.
Proof.
  revert s; induction samples as [|x r IH]; intro s; cbn; [reflexivity|]. rewrite IH. reflexivity.
Qed.

Lemma map_andb_true l : map (fun e : bool => e && true) l = l.
Proof. induction l as [|x r IH]; cbn; [reflexivity|]. rewrite andb_true_r, IH. reflexivity. Qed.

Lemma map_andb_false l : map (fun e : bool => e && false) l = map (fun _ => false) l.
Proof. induction l as [|x r IH]; cbn; [reflexivity|]. rewrite andb_false_r, IH. reflexivity. Qed.

(* provider mode, fresh button with a callback: clicks = rising edges with initial level released *)
Lemma button_edges_provider pin samples s :
  button_new pin true true = UOk s ->
  map snd (polls (brun s (map BPoll samples))) = rising false (map truthy samples) /\
  map fst (polls (brun s (map BPoll samples))) = map b2z (map truthy samples).
Proof.
  unfold button_new. destruct (is_int pin); [|discriminate]. intro H. inversion H; subst.
  destruct (button_edges_from (map BPoll samples) (mkButton true true false false)) as [H1 H2].
  cbn [b_click b_provider b_pressed b_was] in *. rewrite seen_provider in *.
  rewrite H1, H2, map_andb_true. auto.
Qed.

(* set_pressed mode: the same, on the level in force at each is_pressed call *)
Lemma button_edges_manual pin ops s :
  button_new pin true false = UOk s ->
  map snd (polls (brun s ops)) = rising false (seen false false ops) /\
  map fst (polls (brun s ops)) = map b2z (seen false false ops).
Proof.
  unfold button_new. destruct (is_int pin); [|discriminate]. intro H. inversion H; subst.
  destruct (button_edges_from ops (mkButton true false false false)) as [H1 H2].
  cbn [b_click b_provider b_pressed b_was] in *. rewrite H1, H2, map_andb_true. auto.
Qed.

(* without a callback nothing fires, the levels are still reported *)
Lemma button_no_callback pin provider ops s :
  button_new pin false provider = UOk s ->
  Forall (fun c => c = false) (map snd (polls (brun s ops))) /\
  map fst (polls (brun s ops)) = map b2z (seen provider false ops).
Proof.
  unfold button_new. destruct (is_int pin); [|discriminate]. intro H. inversion H; subst.
  destruct (button_edges_from ops (mkButton false provider false false)) as [H1 H2].
  cbn [b_click b_provider b_pressed b_was] in *. rewrite H1, H2, map_andb_false. split; [|reflexivity].
  apply Forall_forall. intros x Hx. apply in_map_iff in Hx as [y [Hy _]]. auto.
Qed.

(* positions: a click at index i iff sample i is pressed and sample i-1 (or the initial
   level) is released *)
Definition level_before (prev : bool) (l : list bool) (i : nat) : bool :=
  match i with O => prev | S j => nth j l false end.

Lemma rising_length prev l : length (rising prev l) = length l.
Proof. revert prev; induction l as [|x r IH]; intro prev; cbn; [reflexivity|]. rewrite IH. reflexivity. Qed.

Lemma rising_nth l : forall prev i, (i < length l)%nat ->
  nth i (rising prev l) false = nth i l false && negb (level_before prev l i).
Proof.
  induction l as [|x r IH]; intros prev i Hi; cbn in Hi; [lia|].
  destruct i as [|j]; cbn [rising nth level_before]; [reflexivity|].
  rewrite IH by lia. destruct j; reflexivity.
Qed.

Definition count_true (l : list bool) : nat := length (filter (fun b => b) l).

(* number of clicks: never more than the number of pressed samples, and no two
   consecutive polls both fire *)
Lemma rising_no_two_in_a_row l : forall prev i, (S i < length l)%nat ->
  nth i (rising prev l) false = true -> nth (S i) (rising prev l) false = false.
Proof.
  intros prev i Hi H. rewrite rising_nth in H by lia. rewrite rising_nth by lia.
  apply andb_true_iff in H as [H _]. cbn [level_before]. rewrite H. apply andb_false_r.
Qed.

Lemma button_new_spec pin click provider :
  (is_int pin = true -> button_new pin click provider = UOk (mkButton click provider false false)) /\
  (is_int pin = false -> button_new pin click provider = URaise TypeError).
Proof. unfold button_new. destruct (is_int pin); split; intro; auto; discriminate. Qed.

(* ---------------------------------------------------------- Potentiometer *)

Lemma pot_read_int z :
  (0 <= z <= 1023 -> pot_read (Some (PI z)) = UOk z) /\
  (z < 0 \/ 1023 < z -> pot_read (Some (PI z)) = URaise ValueError).
Proof.
  unfold pot_read. cbn [py_int].
  destruct (z <? 0) eqn:E1; destruct (1023 <? z) eqn:E2; cbn [orb];
    try apply Z.ltb_lt in E1; try apply Z.ltb_lt in E2;
    try apply Z.ltb_ge in E1; try apply Z.ltb_ge in E2; split; intro; auto; lia.
Qed.

Lemma pot_read_iff z r :
  pot_read (Some (PI z)) = r ->
  (r = UOk z <-> 0 <= z <= 1023) /\ (r = URaise ValueError <-> (z < 0 \/ 1023 < z)).
Proof.
  intro H. destruct (pot_read_int z) as [H1 H2].
  assert (D : 0 <= z <= 1023 \/ (z < 0 \/ 1023 < z)) by lia.
  destruct D as [D|D].
  - rewrite (H1 D) in H. subst r. repeat split; intros; auto; try discriminate; lia.
  - rewrite (H2 D) in H. subst r. repeat split; intros; auto; try discriminate; lia.
Qed.

Lemma pot_read_default : pot_read None = UOk 0.
Proof. reflexivity. Qed.

Lemma pot_read_bool b : pot_read (Some (PB b)) = UOk (b2z b).
Proof. destruct b; reflexivity. Qed.

Lemma pot_read_none : pot_read (Some PO) = URaise TypeError.
Proof. reflexivity. Qed.

Lemma pot_new_spec t s :
  pot_new (Some t) = UOk s <-> s = strip t /\ exists r, s = 65 :: r /\ all_digits r = true.
Proof.
  unfold pot_new. destruct (strip t) as [|c r] eqn:E.
  - split; [discriminate|]. intros [-> [r [H _]]]. discriminate.
  - destruct ((c =? 65) && all_digits r) eqn:G.
    + apply andb_true_iff in G as [G1 G2]. apply Z.eqb_eq in G1. subst c.
      split.
      * intro H. inversion H; subst. split; [reflexivity|]. exists r. auto.
      * intros [-> _]. reflexivity.
    + split; [discriminate|]. intros [-> [r' [H1 H2]]]. inversion H1; subst.
      rewrite Z.eqb_refl, H2 in G. discriminate.
Qed.

(* ------------------------------------------------------------- Ultrasonic *)

Lemma ultra_measure_spec default provider q :
  match provider with None => Some default | Some v => qval v end = Some q ->
  ((0 <= q)%Q -> ultra_measure default provider = UOk q) /\
  ((q < 0)%Q -> ultra_measure default provider = URaise ValueError).
Proof.
  intro H. unfold ultra_measure. rewrite H.
  destruct (q_ltb q 0) eqn:E.
  - apply q_ltb_lt in E. split; [intro; lra|reflexivity].
  - split; [reflexivity|]. intro L. apply q_ltb_lt in L. congruence.
Qed.

Lemma ultra_measure_none default : ultra_measure default (Some PO) = URaise TypeError.
Proof. reflexivity. Qed.

Lemma ultra_new_accepts sensor model trig echo default d :
  ultra_new sensor model trig echo default = UOk d ->
  canonical (match sensor with
             | Some s => s
             | None => match model with Some m => m | None => HCSR04 end
             end) = HCSR04 /\
  (exists t e, py_int trig = Some t /\ py_int echo = Some e /\ 0 <= t /\ 0 <= e /\
               is_int trig = true /\ is_int echo = true) /\
  qval default = Some d.
Proof.
  unfold ultra_new.
  set (sel := match sensor with Some s => s | None => match model with Some m => m | None => HCSR04 end end).
  destruct (text_eqb (canonical sel) HCSR04) eqn:Ec; cbn [negb]; [|discriminate].
  apply text_eqb_eq in Ec.
  destruct (is_int trig) eqn:It; destruct (is_int echo) eqn:Ie; cbn [andb negb]; try discriminate.
  destruct (py_int trig) as [t|] eqn:Pt; [|discriminate].
  destruct (py_int echo) as [e|] eqn:Pe; [|discriminate].
  destruct ((t <? 0) || (e <? 0)) eqn:Neg; [discriminate|].
  apply orb_false_iff in Neg as [N1 N2]. apply Z.ltb_ge in N1. apply Z.ltb_ge in N2.
  destruct (qval default) as [d'|] eqn:Qd; [|discriminate].
  intro H. inversion H; subst. split; [exact Ec|]. split; [|reflexivity].
  exists t, e. auto 10.
Qed.

(* ----------------------------------------------------------------- Serial *)

Lemma serial_write s v :
  sstep s (SWrite v) =
  (s, (if m_open s then [str_of v ++ m_newline s] else []), SRet (str_of v)).
Proof. reflexivity. Qed.

(* over every history: each write returns str(value); it hands exactly one payload
   str(value)+newline to the backend when the connection is open at that moment and
   nothing otherwise; writes never change the connection state *)
Fixpoint open_before (s : monitor) (ops : list sop) : list bool :=
  match ops with
  | [] => []
  | o :: r => m_open s :: open_before (fst (fst (sstep s o))) r
  end.

Lemma serial_history ops : forall s i v,
  nth_error ops i = Some (SWrite v) ->
  exists o, nth_error (open_before s ops) i = Some o /\
  nth_error (srun s ops) i =
    Some ((if o then [str_of v ++ m_newline s] else []), SRet (str_of v)).
Proof.
  induction ops as [|op r IH]; intros s i v H; [destruct i; discriminate|].
  destruct i as [|j]; cbn in H.
  - inversion H; subst. exists (m_open s). cbn. auto.
  - cbn [open_before srun].
    destruct (sstep s op) as [[s1 w] x] eqn:E. cbn [fst].
    destruct (IH s1 j v H) as [o [H1 H2]]. exists o. cbn [nth_error]. split; [exact H1|].
    rewrite H2. assert (Hn : m_newline s1 = m_newline s).
    { destruct op; cbn in E; [inversion E; subst; reflexivity|inversion E; reflexivity|].
      destruct (m_backend s); inversion E; reflexivity. }
    rewrite Hn. reflexivity.
Qed.

Lemma serial_close_then_silent s v :
  let s1 := fst (fst (sstep s SClose)) in
  snd (fst (sstep s1 (SWrite v))) = [] /\ snd (sstep s1 (SWrite v)) = SRet (str_of v).
Proof. cbn. auto. Qed.

Lemma str_of_int_correct z : 0 <= z -> all_digits (str_of (SInt z)) = true /\ dec (str_of (SInt z)) = z.
Proof. apply str_Z_digits. Qed.
