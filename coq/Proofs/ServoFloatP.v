(* Proofs about Host/ServoFloat.v: the two linear maps of Servo in binary64.
   - after the repair of F-C19-servo-bound-ulp the interpolated value is clamped: angle and pulse stay within the configured
     bounds EXACTLY for every calibration with min < max (no guard); the raw interpolation still leaves them by an ulp on
     the old witnesses (computed), so the clamp is what does it; inside the old guard the clamp never bites;
   - what stays exact: the commanded coordinate is stored as given (write/read, write_us/read_us round-trip),
     failing calls change nothing, the configuration never changes. *)
From Coq Require Import ZArith QArith Lia Lqa List Bool.
From RV Require Import Base.Wire Base.NumM Host.Servo Host.ServoFloat Proofs.NumMP Proofs.ServoP.
From RV Require Host.LCDFloat Proofs.LCDFloatP Proofs.Fl53MonoP.
Import ListNotations.
Open Scope Q_scope.

(* Servo(9, min_pulse_us=543.9, max_pulse_us=2000.2): write(180) *)
Definition pulse_witness : servo :=
  mkServo (PI 9) 0 180 (fl (5439 # 10)) (fl (20002 # 10)) 0 (fl (5439 # 10)).
(* Servo(9, min_angle=-90.7, max_angle=90.1): write_us(2400) *)
Definition angle_witness : servo :=
  mkServo (PI 9) (fl (-(907 # 10))) (fl (901 # 10)) 544 2400 (fl (-(907 # 10))) 544.

Lemma pulse_witness_facts :
  is_b64 (min_p pulse_witness) = true /\ is_b64 (max_p pulse_witness) = true /\
  min_p pulse_witness < max_p pulse_witness /\
  max_p pulse_witness < a2p_raw_fl pulse_witness 180 /\
  a2p_fl pulse_witness 180 = max_p pulse_witness /\
  servo_top_exact pulse_witness = false /\
  sstep_fl pulse_witness (SWrite (PI 180)) =
    (set_pos pulse_witness 180 (a2p_fl pulse_witness 180), [SLvl 180 (a2p_fl pulse_witness 180)], Ok SNone).
Proof. vm_compute. repeat split; try reflexivity; intro H; discriminate H. Qed.

Lemma angle_witness_facts :
  is_b64 (min_a angle_witness) = true /\ is_b64 (max_a angle_witness) = true /\
  min_a angle_witness < max_a angle_witness /\
  max_a angle_witness < p2a_raw_fl angle_witness 2400 /\
  p2a_fl angle_witness 2400 = max_a angle_witness /\
  servo_top_exact angle_witness = false.
Proof. vm_compute. repeat split; try reflexivity; intro H; discriminate H. Qed.

(* the default calibration is inside the guard and maps its ends exactly *)
Lemma default_calibration_exact :
  let s := mkServo (PI 9) 0 180 544 2400 0 544 in
  servo_top_exact s = true /\ a2p_fl s 180 = 2400 /\ a2p_fl s 0 = 544 /\ p2a_fl s 2400 = 180 /\ p2a_fl s 544 = 0 /\
  a2p_fl s 90 = 1472.
Proof. vm_compute. repeat split. Qed.

(* what is exact in binary64 as well *)
Lemma write_fl_stores_argument s v :
  py_between (min_a s) (max_a s) v = Some true ->
  cur_a (sstate (sstep_fl s (SWrite v))) = qval v /\
  sresult (sstep_fl (sstate (sstep_fl s (SWrite v))) SRead) = Ok (SFloat (qval v)).
Proof. intro H. cbn [sstep_fl]. rewrite H. split; reflexivity. Qed.

Lemma write_us_fl_stores_argument s v :
  py_between (min_p s) (max_p s) v = Some true ->
  cur_p (sstate (sstep_fl s (SWriteUs v))) = qval v /\
  sresult (sstep_fl (sstate (sstep_fl s (SWriteUs v))) SReadUs) = Ok (SFloat (qval v)).
Proof. intro H. cbn [sstep_fl]. rewrite H. split; reflexivity. Qed.

Lemma servo_failed_atomic_fl s op s' evs k :
  sstep_fl s op = (s', evs, Raised k) -> s' = s /\ evs = [].
Proof.
  destruct op as [v|v| |]; cbn [sstep_fl sstep].
  - destruct (py_between (min_a s) (max_a s) v) as [[|]|]; intro H; inversion H; split; reflexivity.
  - destruct (py_between (min_p s) (max_p s) v) as [[|]|]; intro H; inversion H; split; reflexivity.
  - intro H; inversion H.
  - intro H; inversion H.
Qed.

Lemma servo_config_constant_fl s op :
  let s' := sstate (sstep_fl s op) in
  sv_pin s' = sv_pin s /\ min_a s' = min_a s /\ max_a s' = max_a s /\ min_p s' = min_p s /\ max_p s' = max_p s.
Proof.
  destruct op as [v|v| |]; cbn [sstep_fl sstep].
  - destruct (py_between (min_a s) (max_a s) v) as [[|]|]; cbn; repeat split; reflexivity.
  - destruct (py_between (min_p s) (max_p s) v) as [[|]|]; cbn; repeat split; reflexivity.
  - cbn; repeat split; reflexivity.
  - cbn; repeat split; reflexivity.
Qed.

(* ---------- inside the guard the image of [lo_in, hi_in] stays within [lo_out, hi_out], exactly ---------- *)
Lemma fl_compat p q : p == q -> fl p = fl q.
Proof. intro H. unfold fl. rewrite (Qred_complete p q H). reflexivity. Qed.

Lemma fl_mono p q : p <= q -> fl p <= fl q.
Proof.
  intro H. destruct (Qlt_le_dec p q) as [L|G].
  - unfold fl. apply Fl53MonoP.fl53_mono_lt. rewrite !Qred_correct. exact L.
  - rewrite (fl_compat p q) by lra. apply Qle_refl.
Qed.

Lemma fl_0 : fl 0 = 0.
Proof. reflexivity. Qed.
Lemma fl_1 : fl 1 = 1.
Proof. vm_compute. reflexivity. Qed.

Lemma fl_pos_pos q : 0 < q -> 0 < fl q.
Proof.
  intro H. unfold fl. assert (H' : 0 <= Qred q) by (rewrite Qred_correct; lra).
  destruct (LCDFloatP.fl53_nonneg_err (Qred q) H') as [A _]. pose proof (Qred_correct q) as RC.
  unfold LCDFloatP.eps53 in A. lra.
Qed.

Lemma lin_fl_bounds lo_in hi_in lo_out hi_out x :
  lo_in < hi_in -> lo_out <= hi_out -> lo_in <= x -> x <= hi_in ->
  is_b64 lo_out = true -> top_ok lo_out hi_out = true ->
  lo_out <= lin_fl lo_in hi_in lo_out hi_out x /\ lin_fl lo_in hi_in lo_out hi_out x <= hi_out.
Proof.
  intros Hin Hout X1 X2 B G. unfold lin_fl.
  apply Qeq_bool_iff in B. apply Qle_bool_iff in G.
  set (num := fl (x - lo_in)). set (span := fl (hi_in - lo_in)). set (W := fl (hi_out - lo_out)) in *.
  assert (N0 : 0 <= num) by (unfold num; rewrite <- fl_0; apply fl_mono; lra).
  assert (NS : num <= span) by (unfold num, span; apply fl_mono; lra).
  assert (SP : 0 < span) by (unfold span; apply fl_pos_pos; lra).
  assert (W0 : 0 <= W) by (unfold W; rewrite <- fl_0; apply fl_mono; lra).
  assert (R0 : 0 <= num / span) by (apply Qle_shift_div_l; [exact SP | lra]).
  assert (R1 : num / span <= 1) by (apply Qle_shift_div_r; [exact SP | lra]).
  set (ratio := fl (num / span)).
  assert (A0 : 0 <= ratio) by (unfold ratio; rewrite <- fl_0; apply fl_mono; exact R0).
  assert (A1 : ratio <= 1) by (unfold ratio; rewrite <- fl_1; apply fl_mono; exact R1).
  assert (P0 : 0 <= ratio * W) by (apply Qmult_le_0_compat; assumption).
  assert (P1 : ratio * W <= W).
  { rewrite <- (Qmult_1_l W) at 2. apply Qmult_le_compat_r; assumption. }
  set (prod := fl (ratio * W)).
  assert (Q0 : 0 <= prod) by (unfold prod; rewrite <- fl_0; apply fl_mono; exact P0).
  assert (Q1 : prod <= fl W) by (unfold prod; apply fl_mono; exact P1).
  split.
  - rewrite <- B at 1. apply fl_mono. lra.
  - apply Qle_trans with (fl (lo_out + fl W)); [apply fl_mono; lra | exact G].
Qed.

(* the bound clauses of C19 on the binary64 object *)
Definition servo_bounds_fl (s : servo) : Prop :=
  (min_a s <= cur_a s /\ cur_a s <= max_a s) /\ (min_p s <= cur_p s /\ cur_p s <= max_p s).

(* the clamped map lands within [lo_out, hi_out] for EVERY argument and every calibration with lo_out <= hi_out *)
Lemma lin_clamped_fl_bounds lo_in hi_in lo_out hi_out x :
  lo_out <= hi_out ->
  lo_out <= lin_clamped_fl lo_in hi_in lo_out hi_out x /\ lin_clamped_fl lo_in hi_in lo_out hi_out x <= hi_out.
Proof. intro H. unfold lin_clamped_fl. apply qclamp_bounds. exact H. Qed.

(* inside the old guard the clamp never bites: the repaired map is the old one there *)
Lemma lin_clamped_fl_id lo_in hi_in lo_out hi_out x :
  lo_in < hi_in -> lo_out <= hi_out -> lo_in <= x -> x <= hi_in ->
  is_b64 lo_out = true -> top_ok lo_out hi_out = true ->
  lin_clamped_fl lo_in hi_in lo_out hi_out x = lin_fl lo_in hi_in lo_out hi_out x.
Proof.
  intros A B C D E F. unfold lin_clamped_fl. apply qclamp_id.
  exact (lin_fl_bounds lo_in hi_in lo_out hi_out x A B C D E F).
Qed.

(* one call, successful or failing, from any state of any calibration the constructor accepts (min < max) *)
Lemma step_bounds_fl s op :
  servo_cfg_ok s -> servo_bounds_fl s ->
  servo_bounds_fl (sstate (sstep_fl s op)) /\ servo_cfg_ok (sstate (sstep_fl s op)).
Proof.
  intros [GA GP] Hb. assert (G : servo_cfg_ok s) by (split; assumption).
  destruct op as [v|v| |]; cbn [sstep_fl sstep].
  - destruct (py_between (min_a s) (max_a s) v) as [[|]|] eqn:E; cbn [sstate fst]; try (split; assumption).
    apply between_true in E as [E1 E2]. split; [|exact G].
    unfold servo_bounds_fl, set_pos. cbn [min_a max_a min_p max_p cur_a cur_p].
    split; [split; assumption|]. unfold a2p_fl. rewrite Qred_correct.
    apply lin_clamped_fl_bounds. lra.
  - destruct (py_between (min_p s) (max_p s) v) as [[|]|] eqn:E; cbn [sstate fst]; try (split; assumption).
    apply between_true in E as [E1 E2]. split; [|exact G].
    unfold servo_bounds_fl, set_pos. cbn [min_a max_a min_p max_p cur_a cur_p].
    split; [|split; assumption]. unfold p2a_fl. rewrite Qred_correct.
    apply lin_clamped_fl_bounds. lra.
  - cbn [sstate fst]. split; assumption.
  - cbn [sstate fst]. split; assumption.
Qed.

Lemma run_bounds_fl ops : forall s,
  servo_cfg_ok s -> servo_bounds_fl s -> servo_bounds_fl (srun_fl ops s) /\ servo_cfg_ok (srun_fl ops s).
Proof.
  induction ops as [|op ops IH]; intros s G B.
  - split; assumption.
  - unfold srun_fl. cbn [fold_left]. fold (srun_fl ops (sstate (sstep_fl s op))).
    destruct (step_bounds_fl s op G B) as [B' G']. apply IH; assumption.
Qed.

(* ... hence after every history from every accepted constructor call *)
Lemma reachable_bounds_fl a s0 ops : servo_ctor a = inl s0 -> servo_bounds_fl (srun_fl ops s0).
Proof.
  intro H. apply ctor_accepts in H as (_ & _ & _ & _ & _ & Ea & Ep & [GA GP]).
  apply run_bounds_fl; [split; assumption|].
  unfold servo_bounds_fl. rewrite Ea, Ep. repeat split; lra.
Qed.

(* a freshly constructed servo (angle = min_angle, pulse = min_pulse) satisfies the bound clauses *)
Lemma fresh_bounds_fl pin mina maxa minp maxp :
  mina < maxa -> minp < maxp -> servo_bounds_fl (mkServo pin mina maxa minp maxp mina minp).
Proof. intros A P. unfold servo_bounds_fl. cbn. repeat split; lra. Qed.

(* non-vacuity: the old witnesses are accepted calibrations outside the old guard; after the repaired write the
   object is within its bounds, on the bound exactly *)
Lemma repaired_witnesses :
  servo_cfg_ok pulse_witness /\ servo_cfg_ok angle_witness /\
  servo_top_ok pulse_witness = false /\ servo_top_ok angle_witness = false /\
  cur_p (sstate (sstep_fl pulse_witness (SWrite (PI 180)))) = max_p pulse_witness /\
  cur_a (sstate (sstep_fl angle_witness (SWriteUs (PI 2400)))) = max_a angle_witness /\
  servo_top_ok (mkServo (PI 9) 0 180 544 2400 0 544) = true.
Proof. vm_compute. repeat split; try reflexivity; intro H; discriminate H. Qed.

(* the results of [fl] are binary64 numbers: rounding again changes nothing; hence the executable guard of the
   generators (Python: lo + (hi - lo) <= hi, every operation rounded once by the hardware) is [top_ok] *)
Lemma fl_idem x : fl (fl x) == fl x.
Proof.
  unfold fl at 1. rewrite (Fl53MonoP.fl53_idem (Qred x) (Qred (fl x))).
  - apply Qred_correct.
  - unfold fl. apply Qred_correct.
Qed.

Lemma fl_is_b64 x : is_b64 (fl x) = true.
Proof. unfold is_b64. apply Qeq_bool_iff. apply fl_idem. Qed.

Lemma top_ok_iff lo hi : top_ok lo hi = true <-> fl (lo + fl (hi - lo)) <= hi.
Proof.
  unfold top_ok. rewrite Qle_bool_iff.
  assert (E : fl (lo + fl (fl (hi - lo))) = fl (lo + fl (hi - lo))).
  { apply fl_compat. rewrite fl_idem. reflexivity. }
  rewrite E. reflexivity.
Qed.

Lemma top_exact_ok lo hi : top_exact lo hi = true -> top_ok lo hi = true.
Proof.
  intro H. apply top_ok_iff. unfold top_exact in H. apply Qeq_bool_iff in H. rewrite H. apply Qle_refl.
Qed.
