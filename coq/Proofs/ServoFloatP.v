(* Proofs about Host/ServoFloat.v: the two linear maps of Servo in binary64.
   - refutations (witnesses computed): within-bounds arguments whose image leaves the configured bounds by an ulp;
   - what stays exact: the commanded coordinate is stored as given (write/read, write_us/read_us round-trip),
     failing calls change nothing, the configuration never changes. *)
From Coq Require Import ZArith QArith Lia Lqa List Bool.
From RV Require Import Base.Wire Base.NumM Host.Servo Host.ServoFloat.
Import ListNotations.
Open Scope Q_scope.

(* Servo(9, min_pulse_us=543.9, max_pulse_us=2000.2): write(180) *)
Definition pulse_witness : servo :=
  mkServo (PI 9) 0 180 (fl (5439 # 10)) (fl (20002 # 10)) 0 (fl (5439 # 10)).
(* Servo(9, min_angle=-90.7, max_angle=90.1): write_us(2400) *)
Definition angle_witness : servo :=
  mkServo (PI 9) (fl (-(907 # 10))) (fl (901 # 10)) 544 2400 (fl (-(907 # 10))) 544.

Lemma pulse_witness_facts :
  is_b64 (min_p pulse_witness) = true /\ is_b64 (max_p pulse_witness) = true /\
  min_p pulse_witness < max_p pulse_witness /\
  max_p pulse_witness < a2p_fl pulse_witness 180 /\
  servo_top_exact pulse_witness = false /\
  sstep_fl pulse_witness (SWrite (PI 180)) =
    (set_pos pulse_witness 180 (a2p_fl pulse_witness 180), [SLvl 180 (a2p_fl pulse_witness 180)], Ok SNone).
Proof. vm_compute. repeat split; try reflexivity; intro H; discriminate H. Qed.

Lemma angle_witness_facts :
  is_b64 (min_a angle_witness) = true /\ is_b64 (max_a angle_witness) = true /\
  min_a angle_witness < max_a angle_witness /\
  max_a angle_witness < p2a_fl angle_witness 2400 /\
  servo_top_exact angle_witness = false.
Proof. vm_compute. repeat split; try reflexivity; intro H; discriminate H. Qed.

(* the default calibration is inside the guard and maps its ends exactly *)
Lemma default_calibration_exact :
  let s := mkServo (PI 9) 0 180 544 2400 0 544 in
  servo_top_exact s = true /\ a2p_fl s 180 = 2400 /\ a2p_fl s 0 = 544 /\ p2a_fl s 2400 = 180 /\ p2a_fl s 544 = 0 /\
  a2p_fl s 90 = 1472.
Proof. vm_compute. repeat split. Qed.

(* what is exact in binary64 as well *)
Lemma write_fl_stores_argument s v :
  py_between (min_a s) (max_a s) v = Some true ->
  cur_a (sstate (sstep_fl s (SWrite v))) = qval v /\
  sresult (sstep_fl (sstate (sstep_fl s (SWrite v))) SRead) = Ok (SFloat (qval v)).
Proof. intro H. cbn [sstep_fl]. rewrite H. split; reflexivity. Qed.

Lemma write_us_fl_stores_argument s v :
  py_between (min_p s) (max_p s) v = Some true ->
  cur_p (sstate (sstep_fl s (SWriteUs v))) = qval v /\
  sresult (sstep_fl (sstate (sstep_fl s (SWriteUs v))) SReadUs) = Ok (SFloat (qval v)).
Proof. intro H. cbn [sstep_fl]. rewrite H. split; reflexivity. Qed.

Lemma servo_failed_atomic_fl s op s' evs k :
  sstep_fl s op = (s', evs, Raised k) -> s' = s /\ evs = [].
Proof.
  destruct op as [v|v| |]; cbn [sstep_fl sstep].
  - destruct (py_between (min_a s) (max_a s) v) as [[|]|]; intro H; inversion H; split; reflexivity.
  - destruct (py_between (min_p s) (max_p s) v) as [[|]|]; intro H; inversion H; split; reflexivity.
  - intro H; inversion H.
  - intro H; inversion H.
Qed.

Lemma servo_config_constant_fl s op :
  let s' := sstate (sstep_fl s op) in
  sv_pin s' = sv_pin s /\ min_a s' = min_a s /\ max_a s' = max_a s /\ min_p s' = min_p s /\ max_p s' = max_p s.
Proof.
  destruct op as [v|v| |]; cbn [sstep_fl sstep].
  - destruct (py_between (min_a s) (max_a s) v) as [[|]|]; cbn; repeat split; reflexivity.
  - destruct (py_between (min_p s) (max_p s) v) as [[|]|]; cbn; repeat split; reflexivity.
  - cbn; repeat split; reflexivity.
  - cbn; repeat split; reflexivity.
Qed.
